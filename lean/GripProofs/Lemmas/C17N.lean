/-
  Lemmas for C17 (ii), any number of clients: every interleaving (`MergeN`) of pairwise independent
  edit sequences on the functional store `FS` reaches the state of running the clients one after
  the other.  Built on the two-client lemma `merge_confluent` (C17Serial).
-/
import GripProofs.Lemmas.C17Serial

namespace Grip.Props.C17.Lemmas
open Grip.C17.Spec

/-! ### interleavings of N lists -/

/-- the elements of an interleaving are exactly the elements of the clients -/
theorem merge_mem {α : Type} {xs ys zs : List α} (h : Merge xs ys zs) (z : α) :
    z ∈ zs ↔ z ∈ xs ∨ z ∈ ys := by
  rw [(merge_perm h).mem_iff, List.mem_append]

theorem mergeN_mem {α : Type} {cs : List (List α)} {zs : List α} (h : MergeN cs zs) (z : α) :
    z ∈ zs ↔ ∃ c ∈ cs, z ∈ c := by
  induction h with
  | nil => simp
  | @cons c cs rest zs _ hm ih =>
    rw [merge_mem hm, ih]
    simp only [List.mem_cons, exists_eq_or_imp]

/-- a common prefix can be put in front of the left client … -/
theorem merge_append_left {α : Type} (p : List α) {xs ys zs : List α} (h : Merge xs ys zs) :
    Merge (p ++ xs) ys (p ++ zs) := by
  induction p with
  | nil => exact h
  | cons a p ih => exact .left ih

/-- … or of the right client -/
theorem merge_append_right {α : Type} (p : List α) {xs ys zs : List α} (h : Merge xs ys zs) :
    Merge xs (p ++ ys) (p ++ zs) := by
  induction p with
  | nil => exact h
  | cons a p ih => exact .right ih

/-- expanding every element into a block of elements keeps interleavings -/
theorem merge_flatMap {α β : Type} (f : α → List β) {xs ys zs : List α} (h : Merge xs ys zs) :
    Merge (xs.flatMap f) (ys.flatMap f) (zs.flatMap f) := by
  induction h with
  | nil => exact .nil
  | @left x xs ys zs _ ih =>
    simp only [List.flatMap_cons]; exact merge_append_left (f x) ih
  | @right y xs ys zs _ ih =>
    simp only [List.flatMap_cons]; exact merge_append_right (f y) ih

theorem mergeN_flatMap {α β : Type} (f : α → List β) {cs : List (List α)} {zs : List α}
    (h : MergeN cs zs) : MergeN (cs.map (·.flatMap f)) (zs.flatMap f) := by
  induction h with
  | nil => exact .nil
  | cons _ hm ih => exact .cons ih (merge_flatMap f hm)

/-- client after client is one of the interleavings -/
theorem mergeN_flatten {α : Type} : ∀ cs : List (List α), MergeN cs cs.flatten
  | [] => .nil
  | c :: cs => by
    rw [List.flatten_cons]
    have h := merge_append_left c (merge_nil_left cs.flatten)
    rw [List.append_nil] at h
    exact .cons (mergeN_flatten cs) h

/-! ### confluence for N clients -/

deriving instance DecidableEq for FOp

variable {ι : Type} [DecidableEq ι]

/-- every edit of `c` is independent of every edit of `d` -/
def IndepL (c d : List (FOp ι)) : Prop := ∀ x ∈ c, ∀ y ∈ d, indep x y = true

instance (c d : List (FOp ι)) : Decidable (IndepL c d) := by unfold IndepL; infer_instance

theorem indep_symm (a b : FOp ι) : indep a b = indep b a := by
  rw [Bool.eq_iff_iff]
  cases a <;> cases b <;>
    simp only [indep, ne_eq, decide_not, Bool.not_eq_true', decide_eq_false_iff_not, Bool.decide_and,
      Bool.and_eq_true] <;>
    first
      | exact Iff.rfl
      | exact ⟨fun h e => h e.symm, fun h e => h e.symm⟩

theorem IndepL.symm {c d : List (FOp ι)} (h : IndepL c d) : IndepL d c :=
  fun y hy x hx => (indep_symm y x).trans (h x hx y hy)

theorem FS.run_append (s : FS ι) (xs ys : List (FOp ι)) :
    FS.run s (xs ++ ys) = FS.run (FS.run s xs) ys := List.foldl_append ..

theorem mergeN_confluent {cs : List (List (FOp ι))} {zs : List (FOp ι)} (hm : MergeN cs zs)
    (hp : cs.Pairwise IndepL) (s : FS ι) : FS.run s zs = FS.run s cs.flatten := by
  induction hm generalizing s with
  | nil => rfl
  | @cons c cs rest zs hrest hm2 ih =>
    rw [List.pairwise_cons] at hp
    have hcr : ∀ x ∈ c, ∀ y ∈ rest, indep x y = true := by
      intro x hx y hy
      obtain ⟨d, hd, hyd⟩ := (mergeN_mem hrest y).1 hy
      exact hp.1 d hd x hx y hyd
    rw [merge_confluent hm2 hcr s, List.flatten_cons, FS.run_append, FS.run_append, ih hp.2]

end Grip.Props.C17.Lemmas
