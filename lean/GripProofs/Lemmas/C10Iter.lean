/-
  Lemmas.C10Iter — the iterator state machine over a sorted map: seeks land on the least /
  greatest admissible key, `next` moves to the successor / predecessor, and the prefix-scan loop
  enumerates exactly the entries with the prefix, in order.
-/
import Grip.Model.SMap
import Grip.Spec.C10
import GripProofs.Lemmas.C10Order
import GripProofs.Lemmas.C10Map

namespace Grip.Props.C10.Lemmas
open Grip Grip.Bytes Grip.SMap Grip.Spec.C10

/-- In a sorted list, `find?` returns the entry with the least key among those satisfying `q`. -/
theorem find_sorted_min {m : List KV} {q : KV → Bool} {x : KV} (hs : Sorted m)
    (h : m.find? q = some x) :
    x ∈ m ∧ q x = true ∧ ∀ y ∈ m, q y = true → ble x.1 y.1 = true := by
  obtain ⟨hq, as, bs, rfl, has⟩ := List.find?_eq_some_iff_append.mp h
  unfold Sorted at hs
  rw [List.pairwise_append] at hs
  obtain ⟨_, hxb, _⟩ := hs
  rw [List.pairwise_cons] at hxb
  refine ⟨by simp, hq, ?_⟩
  intro y hy hqy
  rcases List.mem_append.mp hy with hy | hy
  · have := has y hy; simp [hqy] at this
  · rcases List.mem_cons.mp hy with rfl | hy
    · exact ble_refl _
    · exact ble_of_blt (hxb.1 y hy)

/-- In a sorted list, `find?` on the reversed list returns the entry with the greatest key
    among those satisfying `q`. -/
theorem findrev_sorted_max {m : List KV} {q : KV → Bool} {x : KV} (hs : Sorted m)
    (h : m.reverse.find? q = some x) :
    x ∈ m ∧ q x = true ∧ ∀ y ∈ m, q y = true → ble y.1 x.1 = true := by
  obtain ⟨hq, as, bs, hm, has⟩ := List.find?_eq_some_iff_append.mp h
  have hr : List.Pairwise (fun a b : KV => blt b.1 a.1 = true) m.reverse :=
    List.pairwise_reverse.mpr hs
  rw [hm, List.pairwise_append] at hr
  obtain ⟨_, hxb, _⟩ := hr
  rw [List.pairwise_cons] at hxb
  have hmem : ∀ y, y ∈ m ↔ y ∈ as ++ x :: bs := by
    intro y; rw [← hm]; exact List.mem_reverse.symm
  refine ⟨(hmem x).mpr (by simp), hq, ?_⟩
  intro y hy hqy
  rcases List.mem_append.mp ((hmem y).mp hy) with hy | hy
  · have := has y hy; simp [hqy] at this
  · rcases List.mem_cons.mp hy with rfl | hy
    · exact ble_refl _
    · exact ble_of_blt (hxb.1 y hy)

theorem find_none {m : List KV} {q : KV → Bool} (h : m.find? q = none) : ∀ y ∈ m, q y = false := by
  intro y hy
  have := List.find?_eq_none.mp h y hy
  simpa using this

theorem findrev_none {m : List KV} {q : KV → Bool} (h : m.reverse.find? q = none) :
    ∀ y ∈ m, q y = false := by
  intro y hy
  have := List.find?_eq_none.mp h y (List.mem_reverse.mpr hy)
  simpa using this

/-! ### The prefix scan -/

theorem collect_none (m : List KV) (p : Bytes) (f : Bool) : ∀ fuel,
    Iter.collect m p fuel { forward := f, cur := none } = ([], { forward := f, cur := none })
  | 0 => rfl
  | _ + 1 => rfl

/-- Forward `next` from an entry of a sorted list is the entry that follows it in the list. -/
theorem firstGT_split {pre post : List KV} {k v : Bytes} (hs : Sorted (pre ++ (k, v) :: post)) :
    Iter.firstGT (pre ++ (k, v) :: post) k = post.head? := by
  unfold Sorted at hs
  rw [List.pairwise_append] at hs
  obtain ⟨_, hxb, hpre⟩ := hs
  rw [List.pairwise_cons] at hxb
  unfold Iter.firstGT
  rw [List.find?_append]
  have h1 : pre.find? (fun kv => blt k kv.1) = none := by
    apply List.find?_eq_none.mpr
    intro y hy
    have := hpre y hy (k, v) (by simp)
    simp [blt_asymm this]
  rw [h1]
  simp only [Option.none_or, List.find?_cons, blt_irrefl]
  cases post with
  | nil => rfl
  | cons y ys =>
    have := hxb.1 y (by simp)
    simp at this
    simp [this]

/-- From an entry of a sorted list the scan loop yields the longest run of entries with the
    prefix that starts there — however much fuel beyond the remaining length it is given. -/
theorem collect_forward (p : Bytes) : ∀ (post pre : List KV) (kv : KV) (fuel : Nat),
    Sorted (pre ++ kv :: post) → post.length < fuel →
    (Iter.collect (pre ++ kv :: post) p fuel { forward := true, cur := some kv }).1
      = (kv :: post).takeWhile (fun x => hasPrefix x.1 p)
  | post, pre, (k, v), 0, _, hf => by omega
  | [], pre, (k, v), fuel + 1, hs, _ => by
    unfold Iter.collect
    cases hp : hasPrefix k p with
    | false => simp [hp]
    | true =>
      have hn : Iter.next (pre ++ [(k, v)]) { forward := true, cur := some (k, v) }
          = { forward := true, cur := none } := by
        simp [Iter.next, firstGT_split hs]
      simp [hp, hn, collect_none]
  | y :: ys, pre, (k, v), fuel + 1, hs, hf => by
    unfold Iter.collect
    cases hp : hasPrefix k p with
    | false => simp [hp]
    | true =>
      have hn : Iter.next (pre ++ (k, v) :: y :: ys) { forward := true, cur := some (k, v) }
          = { forward := true, cur := some y } := by
        simp [Iter.next, firstGT_split hs]
      have hs' : Sorted ((pre ++ [(k, v)]) ++ y :: ys) := by simpa using hs
      have ih := collect_forward p ys (pre ++ [(k, v)]) y fuel hs' (by simp at hf; omega)
      have e : pre ++ (k, v) :: y :: ys = (pre ++ [(k, v)]) ++ y :: ys := by simp
      simp only [hp, hn, if_true]
      rw [e, List.takeWhile_cons]
      simp only [hp, if_true]
      rw [← ih]

/-- In a sorted list whose keys are all at or above `p`, the entries with prefix `p` form an
    initial segment. -/
theorem filter_eq_takeWhile (p : Bytes) : ∀ (l : List KV), Sorted l →
    (∀ x ∈ l, ble p x.1 = true) →
    l.filter (fun x => hasPrefix x.1 p) = l.takeWhile (fun x => hasPrefix x.1 p)
  | [], _, _ => rfl
  | x :: r, hs, hge => by
    unfold Sorted at hs
    rw [List.pairwise_cons] at hs
    cases hp : hasPrefix x.1 p with
    | true =>
      simp only [List.filter_cons, hp, if_true, List.takeWhile_cons]
      rw [filter_eq_takeWhile p r hs.2 (fun y hy => hge y (List.mem_cons_of_mem _ hy))]
    | false =>
      simp only [List.filter_cons, hp, List.takeWhile_cons]
      simp only [Bool.false_eq_true, if_false]
      apply List.filter_eq_nil_iff.mpr
      intro y hy
      have := no_prefix_after (hge x (by simp)) hp (hs.1 y hy)
      simp [this]

theorem scan_eq_filter {m : List KV} (hs : Sorted m) (it : Iter) (p : Bytes) :
    (Iter.scan m it p).1 = withPrefix m p := by
  unfold Iter.scan Iter.seek withPrefix
  cases hf : Iter.firstGE m p with
  | none =>
    have hall := find_none hf
    rw [collect_none]
    symm
    apply List.filter_eq_nil_iff.mpr
    intro y hy
    have h1 := hall y hy
    intro hp
    have := ble_of_hasPrefix hp
    simp [this] at h1
  | some kv =>
    obtain ⟨hq, pre, post, rfl, hpre⟩ := List.find?_eq_some_iff_append.mp hf
    rw [collect_forward p post pre kv _ hs (by simp; omega)]
    rw [List.filter_append]
    have h0 : pre.filter (fun x => hasPrefix x.1 p) = [] := by
      apply List.filter_eq_nil_iff.mpr
      intro y hy hp
      have h1 := hpre y hy
      have := ble_of_hasPrefix hp
      simp [this] at h1
    rw [h0, List.nil_append]
    have hs2 : Sorted (kv :: post) := by
      unfold Sorted at hs ⊢
      exact (List.pairwise_append.mp hs).2.1
    symm
    apply filter_eq_takeWhile p _ hs2
    intro x hx
    rcases List.mem_cons.mp hx with rfl | hx
    · exact hq
    · unfold Sorted at hs2
      exact ble_trans hq (ble_of_blt ((List.pairwise_cons.mp hs2).1 x hx))

end Grip.Props.C10.Lemmas
