import Grip.Model.C12MultiRun
import GripProofs.Lemmas.C12LiveMultiRank
import GripProofs.Lemmas.C12LiveMultiSim

/-! Liveness for a mark fed by several jumps: every weakly fair run of a depth-bounded cycle
    reaches `closed`. -/
set_option linter.unusedSimpArgs false
namespace Grip.Props.C12.Multi.Lemmas
open Grip.C12 (Msg Phase)
open Grip.C12.Multi
open Grip.Props.C12.Multi.Sim (findFirst findFirst_some findFirst_none)
open Grip.Props.C12.Lemmas (antitone_stabilizes)

variable {T : Type}

/-! ### the mark's loop variable -/

theorem scan_le_step {sys : List (MStage T)} {l : Label} {s s' : State T}
    (h : s.scan ≤ sys.length) (hs : Step sys l s s') : s'.scan ≤ sys.length := by
  cases hs with
  | bodyTrav => exact h
  | jumpTrav => exact h
  | bodySig => exact h
  | jumpSig => exact h
  | queue => exact h
  | openRecv hp hj => exact isJump_lt hj
  | openSkip hp hlt => exact hlt
  | openIn => exact Nat.zero_le _
  | openClose => exact Nat.zero_le _
  | openNext => exact Nat.zero_le _
  | closeTrav hp hj => exact isJump_lt hj
  | closeSig hp hj => exact isJump_lt hj
  | closeSkip hp hlt => exact hlt
  | closeNext => exact Nat.zero_le _
  | closeDecide =>
    unfold markDecide
    split
    · exact Nat.zero_le _
    · split <;> exact Nat.zero_le _

/-- The mark's goroutine can always take a step until it has returned. -/
theorem mark_enabled {sys : List (MStage T)} {s : State T} (hne : s.phase ≠ .closed)
    (hsc : s.scan ≤ sys.length) : Enabled sys .mark s := by
  rcases Nat.lt_or_eq_of_le hsc with hlt | heq
  · cases hj : isJump sys s.scan with
    | false =>
      cases hp : s.phase with
      | «open» => exact ⟨_, Step.openSkip hp hlt (Or.inl hj)⟩
      | closing => exact ⟨_, Step.closeSkip hp hlt (Or.inl hj)⟩
      | closed => exact absurd hp hne
    | true =>
      cases hf : findFirst (Chan.side s.scan 2) s.W with
      | none =>
        have hn := findFirst_none hf
        cases hp : s.phase with
        | «open» => exact ⟨_, Step.openSkip hp hlt (Or.inr hn)⟩
        | closing => exact ⟨_, Step.closeSkip hp hlt (Or.inr hn)⟩
        | closed => exact absurd hp hne
      | some r =>
        obtain ⟨A, m, B⟩ := r
        obtain ⟨h1, h2⟩ := findFirst_some hf
        cases hp : s.phase with
        | «open» => exact ⟨_, Step.openRecv hp hj h1 h2⟩
        | closing =>
          cases m with
          | trav t => exact ⟨_, Step.closeTrav hp hj h1 h2⟩
          | sig k => exact ⟨_, Step.closeSig hp hj h1 h2⟩
        | closed => exact absurd hp hne
  · cases hjf : s.jf with
    | true =>
      cases hp : s.phase with
      | «open» => exact ⟨_, Step.openNext hp heq hjf⟩
      | closing => exact ⟨_, Step.closeNext hp heq hjf⟩
      | closed => exact absurd hp hne
    | false =>
      cases hp : s.phase with
      | «open» =>
        cases hi : s.inp with
        | nil => exact ⟨_, Step.openClose hp heq hjf hi⟩
        | cons t r => exact ⟨_, Step.openIn hp heq hjf hi⟩
      | closing => exact ⟨_, Step.closeDecide hp heq hjf⟩
      | closed => exact absurd hp hne

/-- Nothing is enabled once the mark has closed. -/
theorem closed_no_step {sys : List (MStage T)} {l : Label} {s s' : State T} (inv : MInv sys s)
    (hc : s.phase = .closed) : ¬ Step sys l s s' := by
  intro hs
  have hW := inv.closedW hc
  cases hs with
  | bodyTrav h => simp [hW] at h
  | jumpTrav h => simp [hW] at h
  | bodySig h => simp [hW] at h
  | jumpSig h => simp [hW] at h
  | queue h => simp [hW] at h
  | openRecv hp => simp [hc] at hp
  | openSkip hp => simp [hc] at hp
  | openIn hp => simp [hc] at hp
  | openClose hp => simp [hc] at hp
  | openNext hp => simp [hc] at hp
  | closeTrav hp => simp [hc] at hp
  | closeSig hp => simp [hc] at hp
  | closeSkip hp => simp [hc] at hp
  | closeNext hp => simp [hc] at hp
  | closeDecide hp => simp [hc] at hp

/-! ### distance of the mark's loop variable to the place where it must act -/

/-- polls until the mark polls jump input `j`. -/
def distJ (n j : Nat) (s : State T) : Nat :=
  if s.scan ≤ j then j - s.scan else (n + 1 - s.scan) + j

/-- A quiet step brings the mark closer to a jump input that holds a message. -/
theorem quiet_distJ {sys : List (MStage T)} {l : Label} {s s' : State T} {j : Nat} {m : Msg T}
    (hq : Quiet sys l s s') (hm : (Chan.side j 2, m) ∈ s.W) (hj : isJump sys j = true)
    (hsc : s.scan ≤ sys.length) : distJ sys.length j s' < distJ sys.length j s := by
  have hjn := isJump_lt hj
  have := hsc
  obtain ⟨_, _, h | h⟩ := hq
  · obtain ⟨hlt, h1, _, hc⟩ := h
    have hne : s.scan ≠ j := by
      intro he
      rw [he] at hc
      rcases hc with hc | hc
      · rw [hj] at hc; cases hc
      · exact hc _ hm rfl
    unfold distJ
    rw [h1]
    split <;> split <;> omega
  · obtain ⟨h0, h1, _⟩ := h
    unfold distJ
    rw [h1]
    split <;> split <;> omega

/-- polls (and loop-iteration ends) until the mark is at its decision point with `jumperFound`
    reset. -/
def distE (n : Nat) (s : State T) : Nat := (n - s.scan) + (if s.jf then n + 1 else 0)

/-- With the cycle empty, a quiet step brings the mark closer to the decision — which is then not
    quiet: it reads the main input, sees it closed, sends a signal, or closes. -/
theorem quiet_distE {sys : List (MStage T)} {l : Label} {s s' : State T}
    (minv : MInv sys s) (hs : Step sys l s s') (hq : Quiet sys l s s') (hW : s.W = [])
    (hsc : s.scan ≤ sys.length) : distE sys.length s' < distE sys.length s := by
  have := hsc
  obtain ⟨_, he, h | h⟩ := hq
  · obtain ⟨hlt, h1, h2, _⟩ := h
    unfold distE
    rw [h1, h2]
    omega
  · obtain ⟨h0, h1, h2⟩ := h
    unfold distE
    rw [h1, h2]
    cases hjf : s.jf with
    | true => simp; omega
    | false =>
      exfalso
      -- at the decision point with an empty cycle no step is quiet
      have hWe : s'.W = s.W := by rw [he]
      have hpe : s'.phase = s.phase := by rw [he]
      have hie : s'.inp = s.inp := by rw [he]
      cases hs with
      | bodyTrav h => simp [hW] at h
      | jumpTrav h => simp [hW] at h
      | bodySig h => simp [hW] at h
      | jumpSig h => simp [hW] at h
      | queue h => simp [hW] at h
      | openRecv hp hj h => simp [hW] at h
      | openSkip hp hlt => omega
      | openIn hp hsc' hjf' hI => simp [hI] at hie
      | openClose hp => simp [hp] at hpe
      | openNext hp hsc' hjf' => rw [hjf] at hjf'; cases hjf'
      | closeTrav hp hj h => simp [hW] at h
      | closeSig hp hj h => simp [hW] at h
      | closeSkip hp hlt => omega
      | closeNext hp hsc' hjf' => rw [hjf] at hjf'; cases hjf'
      | closeDecide hp hsc' hjf' =>
        cases ha : s.signalActive with
        | false =>
          have ho := minv.flags ha
          simp [markDecide, ha, ho, hW] at hWe
        | true =>
          have hcnt := minv.count ha
          simp only [hW, sigMass, Nat.add_zero] at hcnt
          cases ho : s.signalOutdated with
          | true => simp [markDecide, ha, ho, hcnt, hW] at hWe
          | false => simp [markDecide, ha, ho, hcnt, hp] at hpe

/-! ### runs -/

theorem run_reachable {sys : List (MStage T)} {inp0 : List T} (r : Run sys inp0) :
    ∀ k, Reachable sys inp0 (r.σ k)
  | 0 => by rw [r.start]; exact Reachable.init
  | k + 1 => by
    have ih := run_reachable r k
    have hn := r.next k
    cases hl : r.lab k with
    | none => rw [hl] at hn; rw [hn]; exact ih
    | some l => rw [hl] at hn; exact Reachable.step ih hn

theorem run_scan_le {sys : List (MStage T)} {inp0 : List T} (r : Run sys inp0) :
    ∀ k, (r.σ k).scan ≤ sys.length
  | 0 => by rw [r.start]; exact Nat.zero_le _
  | k + 1 => by
    have ih := run_scan_le r k
    have hn := r.next k
    cases hl : r.lab k with
    | none => rw [hl] at hn; rw [hn]; exact ih
    | some l => rw [hl] at hn; exact scan_le_step ih hn

/-- Position `k` is a step that is not quiet. -/
def busyM {sys : List (MStage T)} {inp0 : List T} (r : Run sys inp0) (k : Nat) : Prop :=
  ∃ l, r.lab k = some l ∧ ¬ Quiet sys l (r.σ k) (r.σ (k + 1))

theorem run_rankM_step {sys : List (MStage T)} (hl : LastJump sys) {R : T → Nat}
    (hR : ∀ t, R t = 1 + tcostM R sys t) {inp0 : List T} (r : Run sys inp0) (k : Nat) :
    rankM R sys (r.σ (k + 1)) ≤ rankM R sys (r.σ k) ∧
      (busyM r k → rankM R sys (r.σ (k + 1)) < rankM R sys (r.σ k)) := by
  have inv := minv_reachable hl (run_reachable r k)
  have hn := r.next k
  cases hlab : r.lab k with
  | none =>
    rw [hlab] at hn
    rw [hn]
    exact ⟨Nat.le_refl _, fun ⟨l, h, _⟩ => by rw [hlab] at h; cases h⟩
  | some l =>
    rw [hlab] at hn
    rcases rankM_step hR inv hn with h | h
    · exact ⟨Nat.le_of_lt h, fun _ => h⟩
    · refine ⟨Nat.le_of_eq (quiet_rank_eq h), fun ⟨l', h', hnq⟩ => ?_⟩
      rw [hlab] at h'
      cases h'
      exact absurd h hnq

/-- Number of non-quiet steps among the first `K` positions. -/
noncomputable def busyCountM {sys : List (MStage T)} {inp0 : List T} (r : Run sys inp0) : Nat → Nat
  | 0 => 0
  | k + 1 => busyCountM r k + (if Classical.propDecidable (busyM r k) |>.decide then 1 else 0)

theorem run_busyCountM_le {sys : List (MStage T)} (hl : LastJump sys) {R : T → Nat}
    (hR : ∀ t, R t = 1 + tcostM R sys t) {inp0 : List T} (r : Run sys inp0) :
    ∀ K, busyCountM r K + rankM R sys (r.σ K) ≤ rankM R sys (init inp0)
  | 0 => by simp [busyCountM, r.start]
  | K + 1 => by
    have ih := run_busyCountM_le hl hR r K
    obtain ⟨h1, h2⟩ := run_rankM_step hl hR r K
    simp only [busyCountM]
    by_cases hb : busyM r K
    · have := h2 hb
      simp [hb]; omega
    · simp [hb]; omega

/-- The state without the mark's loop variables. -/
def core (s : State T) : State T := { s with scan := 0, jf := false }

theorem quiet_core {sys : List (MStage T)} {l : Label} {s s' : State T} (h : Quiet sys l s s') :
    core s' = core s := by
  obtain ⟨_, he, _⟩ := h
  rw [he]
  rfl

/-- From some position on every position is a stutter or a quiet step, and only the mark's loop
    variables still change. -/
theorem run_eventually_quiet {sys : List (MStage T)} (hl : LastJump sys) {R : T → Nat}
    (hR : ∀ t, R t = 1 + tcostM R sys t) {inp0 : List T} (r : Run sys inp0) :
    ∃ K, ∀ k, K ≤ k → ¬ busyM r k ∧ core (r.σ k) = core (r.σ K) := by
  obtain ⟨K, hK⟩ := antitone_stabilizes (fun k => rankM R sys (r.σ k))
    (fun k => (run_rankM_step hl hR r k).1)
  have hb : ∀ k, K ≤ k → ¬ busyM r k := by
    intro k hk hbk
    have h1 := hK k hk
    have h2 := hK (k + 1) (by omega)
    have := (run_rankM_step hl hR r k).2 hbk
    omega
  refine ⟨K, fun k hk => ⟨hb k hk, ?_⟩⟩
  obtain ⟨d, rfl⟩ := Nat.exists_eq_add_of_le hk
  clear hk
  induction d with
  | zero => rfl
  | succ d ih =>
    have hn := r.next (K + d)
    have hbk := hb (K + d) (by omega)
    cases hlab : r.lab (K + d) with
    | none =>
      rw [hlab] at hn
      show core (r.σ (K + d + 1)) = _
      rw [hn]; exact ih
    | some l =>
      rw [hlab] at hn
      have hq : Quiet sys l (r.σ (K + d)) (r.σ (K + d + 1)) := by
        apply Classical.byContradiction
        intro hnq
        exact hbk ⟨l, hlab, hnq⟩
      show core (r.σ (K + d + 1)) = _
      rw [quiet_core hq]; exact ih

/-- No infinite descent: a non-increasing sequence cannot decrease infinitely often. -/
theorem no_descent (ρ : Nat → Nat) (h1 : ∀ k, ρ (k + 1) ≤ ρ k)
    (h2 : ∀ K, ∃ k, K ≤ k ∧ ρ (k + 1) < ρ k) : False := by
  obtain ⟨K, hK⟩ := antitone_stabilizes ρ h1
  obtain ⟨k, hk, hlt⟩ := h2 K
  have := hK k hk
  have := hK (k + 1) (by omega)
  omega

/-- The head of `W`, when it is not in a queue's output channel, can be moved by its goroutine. -/
theorem head_enabled {sys : List (MStage T)} {s : State T} (inv : MInv sys s)
    {c : Chan} {m : Msg T} {B : List (Chan × Msg T)} (hW : s.W = (c, m) :: B) :
    (∃ l, l ≠ Label.mark ∧ ∀ s1 : State T, s1.W = s.W → Enabled sys l s1) ∨
    (∃ j, c = Chan.side j 2 ∧ isJump sys j = true) := by
  have hv := inv.tags (c, m) (by rw [hW]; simp)
  cases c with
  | main i =>
    left
    have hi : i < sys.length := hv
    have hst : sys[i]? = some sys[i] := List.getElem?_eq_getElem hi
    refine ⟨.stage i, by simp, fun s1 h1 => ?_⟩
    have hW1 : s1.W = [] ++ (Chan.main i, m) :: B := by rw [h1, hW]; rfl
    cases hk : sys[i] with
    | body f =>
      rw [hk] at hst
      cases m with
      | trav t => exact ⟨_, Step.bodyTrav hW1 (by simp) hst⟩
      | sig k => exact ⟨_, Step.bodySig hW1 (by simp) hst⟩
    | jump cd e =>
      rw [hk] at hst
      cases m with
      | trav t => exact ⟨_, Step.jumpTrav hW1 (by simp) hst⟩
      | sig k => exact ⟨_, Step.jumpSig hW1 (by simp) hst⟩
  | side j q =>
    obtain ⟨hj, hq⟩ := hv
    rcases Nat.lt_or_eq_of_le hq with hlt | heq
    · left
      refine ⟨.queue j q, by simp, fun s1 h1 => ?_⟩
      have hW1 : s1.W = [] ++ (Chan.side j q, m) :: B := by rw [h1, hW]; rfl
      exact ⟨_, Step.queue hW1 (by simp) hlt⟩
    · right
      exact ⟨j, by rw [heq], hj⟩

/-- **Termination under weak fairness, several jumps.** -/
theorem fair_closes_multi {sys : List (MStage T)} (hl : LastJump sys) {R : T → Nat}
    (hR : ∀ t, R t = 1 + tcostM R sys t) {inp0 : List T} (r : Run sys inp0) (hf : r.Fair) :
    ∃ K, ∀ k, K ≤ k → (r.σ k).phase = .closed ∧ r.σ k = r.σ K ∧ r.lab k = none := by
  obtain ⟨K, hK⟩ := run_eventually_quiet hl hR r
  have hinv := fun k => minv_reachable hl (run_reachable r k)
  have hscan := run_scan_le r
  have hWk : ∀ k, K ≤ k → (r.σ k).W = (r.σ K).W :=
    fun k hk => by
      have := congrArg (fun s : State T => s.W) (hK k hk).2
      exact this
  have hPk : ∀ k, K ≤ k → (r.σ k).phase = (r.σ K).phase :=
    fun k hk => by
      have := congrArg (fun s : State T => s.phase) (hK k hk).2
      exact this
  -- a scheduled step at a position `≥ K` is quiet
  have hquiet : ∀ k l, K ≤ k → r.lab k = some l →
      Step sys l (r.σ k) (r.σ (k + 1)) ∧ Quiet sys l (r.σ k) (r.σ (k + 1)) := by
    intro k l hk hlab
    have hn := r.next k
    rw [hlab] at hn
    refine ⟨hn, ?_⟩
    apply Classical.byContradiction
    intro hnq
    exact (hK k hk).1 ⟨l, hlab, hnq⟩
  have hclosed : (r.σ K).phase = .closed := by
    apply Classical.byContradiction
    intro hne
    -- the mark's goroutine is enabled for ever, so it is scheduled again and again
    have hmark : ∀ K', ∃ k, K + K' ≤ k ∧ r.lab k = some .mark := by
      intro K'
      apply hf .mark (K + K')
      intro k hk
      exact mark_enabled (by rw [hPk k (by omega)]; exact hne) (hscan k)
    -- descent argument for a distance function that every quiet mark step lowers
    have descent : ∀ d : State T → Nat,
        (∀ k, K ≤ k → Quiet sys .mark (r.σ k) (r.σ (k + 1)) →
          Step sys .mark (r.σ k) (r.σ (k + 1)) → d (r.σ (k + 1)) < d (r.σ k)) → False := by
      intro d hd
      apply no_descent (fun k => d (r.σ (K + k)))
      · intro k
        have hn := r.next (K + k)
        cases hlab : r.lab (K + k) with
        | none =>
          rw [hlab] at hn
          show d (r.σ (K + k + 1)) ≤ _
          rw [hn]; exact Nat.le_refl _
        | some l =>
          obtain ⟨hs, hq⟩ := hquiet (K + k) l (by omega) hlab
          have hlm : l = .mark := hq.1
          subst hlm
          exact Nat.le_of_lt (hd (K + k) (by omega) hq hs)
      · intro K'
        obtain ⟨k, hk, hlab⟩ := hmark K'
        obtain ⟨hs, hq⟩ := hquiet k .mark (by omega) hlab
        refine ⟨k - K, by omega, ?_⟩
        have e : K + (k - K) = k := by omega
        show d (r.σ (K + (k - K) + 1)) < d (r.σ (K + (k - K)))
        rw [e]
        exact hd k (by omega) hq hs
    cases hW : (r.σ K).W with
    | nil =>
      apply descent (distE sys.length)
      intro k hk hq hs
      exact quiet_distE (hinv k) hs hq (by rw [hWk k hk, hW]) (hscan k)
    | cons x B =>
      obtain ⟨c, m⟩ := x
      rcases head_enabled (hinv K) hW with ⟨l, hlm, hen⟩ | ⟨j, hc, hj⟩
      · obtain ⟨k, hk, hlab⟩ := hf l K (fun k hk => hen (r.σ k) (hWk k hk))
        exact hlm (hquiet k l hk hlab).2.1
      · subst hc
        apply descent (distJ sys.length j)
        intro k hk hq _
        exact quiet_distJ (m := m) hq (by rw [hWk k hk, hW]; simp) hj (hscan k)
  -- closed: nothing is enabled any more
  have hstay : ∀ d, r.σ (K + d) = r.σ K ∧ r.lab (K + d) = none := by
    intro d
    induction d with
    | zero =>
      refine ⟨rfl, ?_⟩
      cases hlab : r.lab K with
      | none => rfl
      | some l =>
        have hn := r.next K
        rw [hlab] at hn
        exact absurd hn (closed_no_step (hinv K) hclosed)
    | succ d ih =>
      have hn := r.next (K + d)
      rw [ih.2] at hn
      have he : r.σ (K + (d + 1)) = r.σ K := by
        show r.σ (K + d + 1) = _
        rw [hn]; exact ih.1
      refine ⟨he, ?_⟩
      cases hlab : r.lab (K + (d + 1)) with
      | none => rfl
      | some l =>
        have hn' := r.next (K + (d + 1))
        rw [hlab, he] at hn'
        exact absurd hn' (closed_no_step (hinv K) hclosed)
  refine ⟨K, fun k hk => ?_⟩
  obtain ⟨d, rfl⟩ := Nat.exists_eq_add_of_le hk
  obtain ⟨h1, h2⟩ := hstay d
  exact ⟨by rw [h1]; exact hclosed, h1, h2⟩

/-! ### fair runs exist: the run of an executable schedule that reaches `closed` -/

open Grip.Props.C12.Multi.Sim (sched sched_sound markStep headStep)

/-- The run of the executable schedule `sched` with preferences `pref` (stutters when nothing is
    enabled). -/
def schedσ (sys : List (MStage T)) (pref : Nat → Bool) (inp0 : List T) : Nat → State T
  | 0 => init inp0
  | k + 1 =>
    match sched sys (pref k) (schedσ sys pref inp0 k) with
    | some (_, s') => s'
    | none => schedσ sys pref inp0 k

def schedRun (sys : List (MStage T)) (pref : Nat → Bool) (inp0 : List T) : Run sys inp0 where
  σ := schedσ sys pref inp0
  lab := fun k => (sched sys (pref k) (schedσ sys pref inp0 k)).map (·.1)
  start := rfl
  next := by
    intro k
    show match (sched sys (pref k) (schedσ sys pref inp0 k)).map (·.1) with
      | some l => Step sys l (schedσ sys pref inp0 k) (schedσ sys pref inp0 (k + 1))
      | none => schedσ sys pref inp0 (k + 1) = schedσ sys pref inp0 k
    cases h : sched sys (pref k) (schedσ sys pref inp0 k) with
    | none => simp [schedσ, h]
    | some p =>
      obtain ⟨l, s'⟩ := p
      simp only [Option.map_some, schedσ, h]
      exact sched_sound h

/-- A run that has reached `closed` is fair (nothing is enabled any more). -/
theorem fair_of_closed {sys : List (MStage T)} (hl : LastJump sys) {inp0 : List T} (r : Run sys inp0)
    (K : Nat) (hc : (r.σ K).phase = .closed) : r.Fair := by
  have hinv := fun k => minv_reachable hl (run_reachable r k)
  have hstay : ∀ d, r.σ (K + d) = r.σ K := by
    intro d
    induction d with
    | zero => rfl
    | succ d ih =>
      have hn := r.next (K + d)
      cases hlab : r.lab (K + d) with
      | none => rw [hlab] at hn; show r.σ (K + d + 1) = _; rw [hn]; exact ih
      | some l =>
        rw [hlab, ih] at hn
        exact absurd hn (closed_no_step (hinv K) hc)
  intro l K0 hen
  exfalso
  obtain ⟨s', hs⟩ := hen (K + K0) (by omega)
  rw [hstay K0] at hs
  exact closed_no_step (hinv K) hc hs

end Grip.Props.C12.Multi.Lemmas
