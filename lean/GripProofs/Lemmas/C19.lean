import Grip.Model.C19
import Grip.Spec.C19

/-
  Helper lemmas for C19: the `m[k]++` counters, sorting/truncation, the numeric feed, integer
  floor-division buckets, and the per-name channel map.
-/
namespace Grip.Props.C19.Lemmas
open Grip Grip.C19

/-! ### count -/

theorem countRows_go {α : Type} (ts : List α) (c : Nat) :
    ts.foldl (fun c _ => c + 1) c = c + ts.length := by
  induction ts generalizing c with
  | nil => simp
  | cons t ts ih => simp [ih]; omega

theorem countRows_eq {α : Type} (ts : List α) : countRows ts = ts.length := by
  simp [countRows]

/-! ### the counters `m[k]++` -/

section Counters
variable {α : Type} [DecidableEq α]

/-- `m[k]` (0 when absent). -/
def getC (m : List (α × Nat)) (k : α) : Nat :=
  match m with
  | [] => 0
  | (k', c) :: m => if k' = k then c else getC m k

/-- unique keys, positive counts: what a Go `map[K]int` built by `++` looks like. -/
def Inv (m : List (α × Nat)) : Prop := (m.map (·.1)).Nodup ∧ ∀ p ∈ m, 0 < p.2

theorem getC_bump (k k' : α) (m : List (α × Nat)) :
    getC (bump k m) k' = getC m k' + if k = k' then 1 else 0 := by
  induction m with
  | nil => simp [bump, getC]
  | cons p m ih =>
    obtain ⟨a, c⟩ := p
    by_cases h : a = k
    · subst h
      by_cases h' : a = k' <;> simp [bump, getC, h']
    · by_cases h' : a = k'
      · subst h'
        simp [bump, getC, h, Ne.symm h]
      · simp [bump, getC, h, h', ih]

theorem mem_keys_bump (k x : α) (m : List (α × Nat)) :
    x ∈ (bump k m).map (·.1) ↔ x = k ∨ x ∈ m.map (·.1) := by
  induction m with
  | nil => simp [bump]
  | cons p m ih =>
    obtain ⟨a, c⟩ := p
    by_cases h : a = k
    · subst h; simp [bump]
    · simp only [bump, h, if_false, List.map_cons, List.mem_cons, ih]
      constructor
      · rintro (h1 | h1 | h1) <;> simp [h1]
      · rintro (h1 | h1 | h1) <;> simp [h1]

theorem inv_bump (k : α) (m : List (α × Nat)) (h : Inv m) : Inv (bump k m) := by
  induction m with
  | nil => simp [bump, Inv]
  | cons p m ih =>
    obtain ⟨a, c⟩ := p
    obtain ⟨hn, hp⟩ := h
    simp only [List.map_cons, List.nodup_cons] at hn
    have hm : Inv m := ⟨hn.2, fun p hp' => hp p (List.mem_cons_of_mem _ hp')⟩
    by_cases hk : a = k
    · subst hk
      refine ⟨by simpa [bump] using hn, ?_⟩
      intro p hp'
      simp only [bump, if_true, List.mem_cons] at hp'
      rcases hp' with rfl | hp'
      · simp
      · exact hp p (List.mem_cons_of_mem _ hp')
    · have ih' := ih hm
      refine ⟨?_, ?_⟩
      · simp only [bump, hk, if_false, List.map_cons, List.nodup_cons]
        refine ⟨?_, ih'.1⟩
        intro hmem
        rcases (mem_keys_bump k a m).1 hmem with h1 | h1
        · exact hk h1
        · exact hn.1 h1
      · intro p hp'
        simp only [bump, hk, if_false, List.mem_cons] at hp'
        rcases hp' with rfl | hp'
        · exact hp _ (List.mem_cons_self ..)
        · exact ih'.2 p hp'

theorem mem_iff_getC (m : List (α × Nat)) (h : Inv m) (k : α) (c : Nat) :
    (k, c) ∈ m ↔ (getC m k = c ∧ 0 < c) := by
  induction m with
  | nil => simp [getC]; omega
  | cons p m ih =>
    obtain ⟨a, c'⟩ := p
    obtain ⟨hn, hp⟩ := h
    simp only [List.map_cons, List.nodup_cons] at hn
    have hm : Inv m := ⟨hn.2, fun p hp' => hp p (List.mem_cons_of_mem _ hp')⟩
    have hc' : 0 < c' := hp (a, c') (List.mem_cons_self ..)
    by_cases hk : a = k
    · subst hk
      have hnot : (a, c) ∉ m := fun hmem => hn.1 (List.mem_map.2 ⟨(a, c), hmem, rfl⟩)
      simp only [List.mem_cons, getC, if_true, hnot, or_false, Prod.mk.injEq, true_and]
      constructor
      · rintro rfl; exact ⟨rfl, hc'⟩
      · rintro ⟨h1, _⟩; exact h1.symm
    · have : (k, c) ≠ (a, c') := fun e => hk (by cases e; rfl)
      simp only [List.mem_cons, this, false_or, getC, hk, if_false]
      exact ih hm

/-- counting a whole list into a map. -/
def countsFrom (m : List (α × Nat)) (xs : List α) : List (α × Nat) :=
  xs.foldl (fun m x => bump x m) m

theorem inv_countsFrom (xs : List α) (m : List (α × Nat)) (h : Inv m) : Inv (countsFrom m xs) := by
  induction xs generalizing m with
  | nil => simpa [countsFrom]
  | cons x xs ih => exact ih _ (inv_bump x m h)

theorem getC_countsFrom (xs : List α) (m : List (α × Nat)) (k : α) :
    getC (countsFrom m xs) k = getC m k + xs.count k := by
  induction xs generalizing m with
  | nil => simp [countsFrom]
  | cons x xs ih =>
    have := ih (bump x m)
    simp only [countsFrom, List.foldl_cons] at this ⊢
    rw [this, getC_bump, List.count_cons]
    by_cases h : x = k <;> simp [h] <;> omega

theorem exact_countsFrom (xs : List α) : Spec.Exact xs (countsFrom [] xs) := by
  have hinv : Inv (countsFrom ([] : List (α × Nat)) xs) := inv_countsFrom xs [] (by simp [Inv])
  refine ⟨hinv.1, ?_⟩
  intro k c
  rw [mem_iff_getC _ hinv, getC_countsFrom]
  simp only [getC, Nat.zero_add]
  constructor
  · rintro ⟨h1, h2⟩; exact ⟨h1.symm, h2⟩
  · rintro ⟨h1, h2⟩; exact ⟨h1.symm, h2⟩

end Counters

theorem isScalar_eq : isScalar = Spec.scalar := by
  funext v; cases v <;> rfl

theorem typeName_eq : typeName = Spec.typeOf := by
  funext v; cases v <;> rfl

theorem termCounts_go (vals : List JV) (m : List (JV × Nat)) :
    vals.foldl (fun m v => if isScalar v then bump v m else m) m
      = countsFrom m (vals.filter isScalar) := by
  induction vals generalizing m with
  | nil => simp [countsFrom]
  | cons v vals ih =>
    by_cases h : isScalar v = true
    · simp [h, ih, countsFrom]
    · simp [h, ih]

theorem termCounts_eq (vals : List JV) : termCounts vals = countsFrom [] (vals.filter Spec.scalar) := by
  rw [← isScalar_eq]; exact termCounts_go vals []

theorem fieldCounts_go (vals : List JV) (m : List (String × Nat)) :
    vals.foldl (fun m v => match v with
      | .obj kvs => kvs.foldl (fun m kv => bump kv.1 m) m
      | _ => m) m = countsFrom m (vals.flatMap Spec.keysOf) := by
  induction vals generalizing m with
  | nil => simp [countsFrom]
  | cons v vals ih =>
    simp only [List.foldl_cons, List.flatMap_cons]
    rw [ih]
    cases v <;> simp [Spec.keysOf, countsFrom, List.foldl_append, List.foldl_map]

theorem fieldCounts_eq (vals : List JV) : fieldCounts vals = countsFrom [] (vals.flatMap Spec.keysOf) :=
  fieldCounts_go vals []

theorem typeCounts_eq (vals : List JV) : typeCounts vals = countsFrom [] (vals.map Spec.typeOf) := by
  simp [typeCounts, countsFrom, List.foldl_map, typeName_eq]

/-! ### sorting by frequency and truncating -/

theorem validTop_take {α : Type} (size : Nat) (hs : size ≠ 0) (m : List (α × Nat)) :
    Spec.ValidTop size m ((m.mergeSort (fun a b => decide (b.2 ≤ a.2))).take size) := by
  simp only [Spec.ValidTop, hs, if_false]
  let le : α × Nat → α × Nat → Bool := fun a b => decide (b.2 ≤ a.2)
  have hperm : (m.mergeSort le).Perm m := List.mergeSort_perm m le
  have hsorted : (m.mergeSort le).Pairwise (fun a b => le a b = true) :=
    List.pairwise_mergeSort (le := le)
      (fun a b c h1 h2 => by simp only [le, decide_eq_true_eq] at *; omega)
      (fun a b => by simp only [le, Bool.or_eq_true, decide_eq_true_eq]; omega) m
  refine ⟨(m.mergeSort le).drop size, ?_, ?_, ?_⟩
  · rw [List.take_append_drop]; exact hperm
  · rw [List.length_take, hperm.length_eq]
  · rw [← List.take_append_drop size (m.mergeSort le)] at hsorted
    have := (List.pairwise_append.1 hsorted).2.2
    intro a ha b hb
    have h := this a ha b hb
    simpa [le] using h

/-! ### the numeric feed -/

theorem numericFeed_go (numOf : String → Option Int) (vals : List JV) (acc : List Int) :
    vals.foldl (fun acc v =>
      if v = .null then acc else
      match toFloat numOf v with
      | none => acc
      | some x => acc ++ [x]) acc = acc ++ Spec.numerics numOf vals := by
  induction vals generalizing acc with
  | nil => simp [Spec.numerics]
  | cons v vals ih =>
    simp only [List.foldl_cons]
    rw [ih]
    cases v <;> simp [Spec.numerics, Spec.numericOf, toFloat, List.filterMap_cons]
    all_goals (split <;> simp_all)

theorem numericFeed_eq (numOf : String → Option Int) (vals : List JV) :
    numericFeed numOf vals = Spec.numerics numOf vals := by
  have h := numericFeed_go numOf vals []
  simp only [List.nil_append] at h
  exact h

end Grip.Props.C19.Lemmas

namespace Grip.Props.C19.Lemmas
open Grip Grip.C19

/-! ### the decidable check of a truncated term answer is sound -/

theorem nodup_of_nodup_keys {α : Type} (m : List (α × Nat)) (h : (m.map (·.1)).Nodup) : m.Nodup := by
  induction m with
  | nil => exact List.nodup_nil
  | cons p m ih =>
    simp only [List.map_cons, List.nodup_cons] at h ⊢
    exact ⟨fun hp => h.1 (List.mem_map.2 ⟨p, hp, rfl⟩), ih h.2⟩

theorem validTopB_sound {α : Type} [DecidableEq α] (size : Nat) (exact out : List (α × Nat))
    (hex : exact.Nodup) (h : validTopB size exact out = true) : Spec.ValidTop size exact out := by
  unfold validTopB at h
  unfold Spec.ValidTop
  by_cases hs : size = 0
  · simp only [hs, if_true] at h ⊢
    exact List.isPerm_iff.1 h
  · simp only [hs, if_false, Bool.and_eq_true, decide_eq_true_eq, List.all_eq_true,
      Bool.or_eq_true] at h ⊢
    obtain ⟨⟨⟨hnd, hsub⟩, hlen⟩, hdom⟩ := h
    refine ⟨exact.filter (fun b => decide (b ∉ out)), ?_, hlen, ?_⟩
    · apply (List.perm_ext_iff_of_nodup ?_ hex).2
      · intro a
        simp only [List.mem_append, List.mem_filter, decide_eq_true_eq]
        constructor
        · rintro (h1 | h1)
          · exact hsub a h1
          · exact h1.1
        · intro h1
          by_cases h2 : a ∈ out
          · exact Or.inl h2
          · exact Or.inr ⟨h1, h2⟩
      · refine List.nodup_append.2 ⟨hnd, List.Pairwise.filter _ hex, ?_⟩
        intro a ha b hb e
        simp only [List.mem_filter, decide_eq_true_eq] at hb
        exact hb.2 (e ▸ ha)
    · intro a ha b hb
      simp only [List.mem_filter, decide_eq_true_eq] at hb
      rcases hdom a ha b hb.1 with h1 | h1
      · exact absurd h1 hb.2
      · exact h1

end Grip.Props.C19.Lemmas
