import Grip.Model.C19
import Grip.Spec.C19

namespace Grip.Props.C19.Lemmas
open Grip Grip.C19

theorem countRows_go {α : Type} (ts : List α) (c : Nat) :
    ts.foldl (fun c _ => c + 1) c = c + ts.length := by
  induction ts generalizing c with
  | nil => simp
  | cons t ts ih => simp [ih]; omega

theorem countRows_eq {α : Type} (ts : List α) : countRows ts = ts.length := by
  simp [countRows, countRows_go]

end Grip.Props.C19.Lemmas
