/-
  C11 lemmas: the job store — what Spool leaves behind, what restart and delete do.
-/
import Grip.Model.C11

namespace Grip.Props.C11.Lemmas
open Grip Grip.C11 Grip.C11.Store

variable {κ : Type}

theorem find_map_upd {α : Type} (p : α → Bool) (f : α → α) (hf : ∀ a, p (f a) = p a) (l : List α) :
    (l.map fun a => if p a then f a else a).find? p = (l.find? p).map f := by
  induction l with
  | nil => rfl
  | cons a rest ih =>
    by_cases h : p a = true
    · simp [List.find?, h, hf]
    · have h' : p a = false := by simpa using h
      simp [List.find?, h', ih]

theorem find_append_none {α : Type} (p : α → Bool) (l : List α) (x : α) (h : l.find? p = none)
    (hx : p x = true) : (l ++ [x]).find? p = some x := by
  rw [List.find?_append, h]
  simp [List.find?, hx]

/-- the job record and directory of a job while / after its spool run -/
def recOf (graph id : String) (sums : List κ) (st : TState) (state : JobState) (n : Nat) : JobRec κ :=
  { graph := graph, id := id, state := state, count := n, st := st, sums := sums }

theorem isJob_self (graph id : String) (sums : List κ) (st : TState) (state : JobState) (n : Nat) :
    isJob graph id (recOf graph id sums st state n) = true := by
  simp [isJob, recOf]

theorem lookup_start (s : Store κ) (graph id : String) (sums : List κ) (st : TState)
    (hm : s.lookup graph id = none) :
    (s.spoolStart graph id sums st).lookup graph id = some (recOf graph id sums st .running 0) := by
  unfold lookup spoolStart
  exact find_append_none _ _ _ hm (by simp [isJob])

theorem dir_start (s : Store κ) (graph id : String) (sums : List κ) (st : TState)
    (hd : s.dir graph id = none) :
    (s.spoolStart graph id sums st).dir graph id = some { graph := graph, id := id } := by
  unfold dir spoolStart
  exact find_append_none _ _ _ hd (by simp [isDir])

theorem lookup_line (s : Store κ) (graph id : String) (l : JV) :
    (s.spoolLine graph id l).lookup graph id
      = (s.lookup graph id).map fun j => { j with count := j.count + 1 } := by
  unfold lookup spoolLine updMem
  exact find_map_upd _ _ (fun a => by simp [isJob]) _

theorem dir_line (s : Store κ) (graph id : String) (l : JV) :
    (s.spoolLine graph id l).dir graph id
      = (s.dir graph id).map fun d => { d with results := d.results ++ [l] } := by
  unfold dir spoolLine updDisk
  exact find_map_upd _ _ (fun a => by simp [isDir]) _

theorem lines_fold (graph id : String) (sums : List κ) (st : TState) :
    ∀ (lines : List JV) (s : Store κ) (n : Nat) (done : List JV) (status : Option (JobRec κ)),
      s.lookup graph id = some (recOf graph id sums st .running n) →
      s.dir graph id = some { graph := graph, id := id, results := done, status := status } →
      let s' := lines.foldl (fun acc l => spoolLine acc graph id l) s
      s'.lookup graph id = some (recOf graph id sums st .running (n + lines.length)) ∧
      s'.dir graph id = some { graph := graph, id := id, results := done ++ lines, status := status } := by
  intro lines
  induction lines with
  | nil => intro s n done status h1 h2; simp [h1, h2]
  | cons l rest ih =>
    intro s n done status h1 h2
    have h1' : (s.spoolLine graph id l).lookup graph id = some (recOf graph id sums st .running (n + 1)) := by
      rw [lookup_line, h1]; rfl
    have h2' : (s.spoolLine graph id l).dir graph id
        = some { graph := graph, id := id, results := done ++ [l], status := status } := by
      rw [dir_line, h2]; rfl
    have := ih (s.spoolLine graph id l) (n + 1) (done ++ [l]) status h1' h2'
    simp only [List.foldl_cons, List.length_cons]
    have e : n + 1 + rest.length = n + (rest.length + 1) := by omega
    have e2 : done ++ [l] ++ rest = done ++ l :: rest := by simp
    rw [e, e2] at this
    exact this

theorem lookup_finish (s : Store κ) (graph id : String) :
    (s.spoolFinish graph id).lookup graph id
      = (s.lookup graph id).map fun j => { j with state := .complete } := by
  unfold lookup spoolFinish updMem
  exact find_map_upd _ _ (fun a => by simp [isJob]) _

theorem dir_finish (s : Store κ) (graph id : String) :
    (s.spoolFinish graph id).dir graph id
      = (s.dir graph id).map fun d =>
          { d with status := (s.lookup graph id).map fun j => { j with state := .complete } } := by
  have h := lookup_finish s graph id
  unfold lookup spoolFinish at h
  unfold dir spoolFinish updDisk
  simp only at h ⊢
  rw [h]
  exact find_map_upd _ _ (fun a => by simp [isDir]) _

/-- What a complete spool run of `lines` leaves behind for a fresh job name. -/
theorem spool_result (s : Store κ) (graph id : String) (sums : List κ) (st : TState) (lines : List JV)
    (hm : s.lookup graph id = none) (hd : s.dir graph id = none) :
    (s.spool graph id sums st lines).lookup graph id
        = some (recOf graph id sums st .complete lines.length) ∧
    (s.spool graph id sums st lines).dir graph id
        = some { graph := graph, id := id, results := lines,
                 status := some (recOf graph id sums st .complete lines.length) } := by
  have h := lines_fold graph id sums st lines (s.spoolStart graph id sums st) 0 [] none
    (lookup_start s graph id sums st hm) (dir_start s graph id sums st hd)
  simp only [Nat.zero_add, List.nil_append] at h
  unfold spool
  constructor
  · rw [lookup_finish, h.1]; rfl
  · rw [dir_finish, h.2, h.1]; rfl

/-! ### restart -/

theorem find_filterMap_status (graph id : String) (disk : List (JobDir κ)) (d : JobDir κ) (r : JobRec κ)
    (hd : disk.find? (isDir graph id) = some d) (hs : d.status = some r) (hr : isJob graph id r = true)
    (hown : ∀ d' ∈ disk, ∀ r', d'.status = some r' → isJob graph id r' = true → isDir graph id d' = true) :
    (disk.filterMap (·.status)).find? (isJob graph id) = some r := by
  induction disk with
  | nil => simp at hd
  | cons x rest ih =>
    by_cases hx : isDir graph id x = true
    · simp only [List.find?, hx] at hd
      cases hd
      simp [List.filterMap, hs, hr]
    · have hx' : isDir graph id x = false := by simpa using hx
      simp only [List.find?, hx'] at hd
      have ih' := ih hd (fun d' hd' => hown d' (List.mem_cons_of_mem _ hd'))
      cases hxs : x.status with
      | none => simp [List.filterMap, hxs, ih']
      | some r' =>
        have : isJob graph id r' = false := by
          cases hj : isJob graph id r' with
          | false => rfl
          | true =>
            have := hown x (List.mem_cons_self) r' hxs hj
            rw [hx'] at this; cases this
        simp [List.filterMap, hxs, this, ih']

theorem find_filterMap_none (graph id : String) (disk : List (JobDir κ))
    (hnone : ∀ d' ∈ disk, ∀ r', d'.status = some r' → isJob graph id r' = false) :
    (disk.filterMap (·.status)).find? (isJob graph id) = none := by
  induction disk with
  | nil => rfl
  | cons x rest ih =>
    have ih' := ih (fun d' hd' => hnone d' (List.mem_cons_of_mem _ hd'))
    cases hxs : x.status with
    | none => simp [List.filterMap, hxs, ih']
    | some r' =>
      have := hnone x (List.mem_cons_self) r' hxs
      simp [List.filterMap, hxs, this, ih']

/-! ### delete -/

theorem find_filter_not {α : Type} (p : α → Bool) (l : List α) :
    (l.filter fun a => !p a).find? p = none := by
  induction l with
  | nil => rfl
  | cons a rest ih =>
    by_cases h : p a = true
    · simp [List.filter, h, ih]
    · have h' : p a = false := by simpa using h
      simp [List.filter, h', ih]

end Grip.Props.C11.Lemmas
