/-
  Lemmas for GripProofs/Props/C01PresN.lean: type preservation for the semantics WITH the four
  `*Null` moves (Grip.EvalN), where a traveler typed vertex / edge may be one of the null rows
  (`t.AddCurrent(nil)`), a mark recorded on such a row holds no element, and a several-mark
  `select` puts Go's placeholder `&gdbi.DataElement{}` in for it.
-/
import Grip.Model.EvalN
import GripProofs.Lemmas.C01Pres

namespace Grip.Props.C01.Lemmas
open Grip Grip.Spec.C01

/-- Go's `&gdbi.DataElement{}` (not loaded). -/
def placeholder : Elem := { loaded := false }

/-- The (possibly nil) element is nil, or what static type `ty` promises. -/
def KindN (E : ToPred) (ty : DataType) (o : Option Elem) : Prop :=
  ∀ e, o = some e → ElemOfKind E ty (some e)

/-- Payload with the placeholder admitted in a selection. -/
def PayloadN (E : ToPred) : DataType → MarkTypes → Traveler → Prop
  | .selection, marks, t => ∃ s, t.sel = some s ∧
      ∀ kv ∈ s, kv.2 = placeholder ∨
        ((marks.get kv.1 = .vertex → IsVertexElem kv.2) ∧ (marks.get kv.1 = .edge → E kv.2.to))
  | .aggregation, _, t => ∃ a, t.agg = some a
  | _, _, _ => True

/-- Null-tolerant shape: as `WellShapedG`, except that the current element and every mark may be
    nil on the types that promise an element (a null row) — when PRESENT they are of the
    promised kind; on the payload types the current element is nil as before. -/
def NullShapedG (E : ToPred) (ty : DataType) (marks : MarkTypes) (t : Traveler) : Prop :=
  KindN E ty t.cur ∧ PayloadN E ty marks t ∧
    (carriesMarks ty = true → ∀ m, KindN E (marks.get m) (t.getMark m))

/-- Statements whose EvalN step produces travelers of the announced type: everything except
    `aggregate` (C19's; identity here) and the two Go-only statements. -/
def nullModelled : Stmt → Bool
  | .aggregate _ | .lookupVertsIndex _ | .engineCustom _ _ => false
  | _ => true

section
variable {E : ToPred}

theorem kindN_none (ty : DataType) : KindN E ty none := fun _ h => by cases h

theorem kindN_of {ty : DataType} {e : Elem} (h : ElemOfKind E ty (some e)) : KindN E ty (some e) :=
  fun e' h' => by cases h'; exact h

theorem kindN_of_kind {ty : DataType} {o : Option Elem} (h : ElemOfKind E ty o) : KindN E ty o := by
  intro e he; subst he; exact h

/-- on a payload type the current element is nil, as before -/
theorem kindN_payload {ty : DataType} {o : Option Elem} (hty : hasCurrent ty = false)
    (h : KindN E ty o) : o = none := by
  cases o with
  | none => rfl
  | some e => have := h e rfl; cases ty <;> first | exact this | cases hty

theorem payloadN_of_carries {ty : DataType} (h : carriesMarks ty = true) (marks : MarkTypes)
    (t : Traveler) : PayloadN E ty marks t := by
  cases ty <;> first | trivial | cases h

/-- the strict shape is a null-tolerant shape -/
theorem nullShaped_of_wellShaped {ty : DataType} {marks : MarkTypes} {t : Traveler}
    (h : WellShapedG E ty marks t) : NullShapedG E ty marks t := by
  refine ⟨kindN_of_kind h.1, ?_, fun hc m => kindN_of_kind (h.2.2 hc m)⟩
  cases ty <;> first | trivial | exact h.2.1 | skip
  obtain ⟨s, hs, hkv⟩ := h.2.1
  exact ⟨s, hs, fun kv hk => Or.inr (hkv kv hk)⟩

theorem ns_addCurrent {ty ty' : DataType} {marks : MarkTypes} {t : Traveler} {r : Option Elem}
    (h : NullShapedG E ty marks t) (hc : carriesMarks ty = true) (hc' : carriesMarks ty' = true)
    (hr : KindN E ty' r) : NullShapedG E ty' marks (t.addCurrent r) :=
  ⟨hr, payloadN_of_carries hc' _ _, fun _ => h.2.2 hc⟩

theorem ns_flatMap {f : Traveler → List Traveler} {ty ty' : DataType} {marks : MarkTypes}
    {ts : List Traveler} (hc : carriesMarks ty = true) (hc' : carriesMarks ty' = true)
    (hf : ∀ t, ∀ t' ∈ f t, ∃ r, KindN E ty' r ∧ t' = t.addCurrent r)
    (hin : ∀ t ∈ ts, NullShapedG E ty marks t) :
    ∀ t' ∈ ts.flatMap f, NullShapedG E ty' marks t' := by
  intro t' ht'
  obtain ⟨t, ht, htt⟩ := List.mem_flatMap.1 ht'
  obtain ⟨r, hr, rfl⟩ := hf t t' htt
  exact ns_addCurrent (hin t ht) hc hc' hr

theorem ns_addMark {ty : DataType} {marks : MarkTypes} {t : Traveler} (n : String)
    (h : NullShapedG E ty marks t) : NullShapedG E ty (marks.set n ty) (t.addMark n t.cur) := by
  refine ⟨h.1, ?_, ?_⟩
  · cases ty <;> try trivial
    · exact h.2.1
    · obtain ⟨s, hs, hkv⟩ := h.2.1
      refine ⟨s, hs, fun kv hk => ?_⟩
      rcases hkv kv hk with hp | hp
      · exact Or.inl hp
      · right
        rw [get_set]
        split
        · exact ⟨fun h => (by cases h), fun h => (by cases h)⟩
        · exact hp
  · intro hc m
    rw [get_set, getMark_addMark]
    split
    · exact h.1
    · exact h.2.2 hc m

theorem ns_selectMany {ty : DataType} {marks : MarkTypes} {t : Traveler} (ms : List String)
    (h : NullShapedG E ty marks t) (hc : carriesMarks ty = true) :
    NullShapedG E .selection marks
      { sel := some (ms.eraseDups.map (fun m => (m, (t.getMark m).getD { loaded := false }))) } := by
  refine ⟨kindN_none _, ⟨_, rfl, fun kv hk => ?_⟩, fun h => by cases h⟩
  obtain ⟨m, _, rfl⟩ := List.mem_map.1 hk
  cases hg : t.getMark m with
  | none => exact Or.inl rfl
  | some e =>
    right
    have hm := h.2.2 hc m e hg
    constructor
    · intro hv
      show IsVertexElem e
      rw [hv] at hm
      obtain ⟨e', he', hk⟩ := hm
      cases he'; exact hk
    · intro hv
      show E e.to
      rw [hv] at hm
      obtain ⟨e', he', hk⟩ := hm
      cases he'; exact hk

theorem ns_fields {ty : DataType} {marks : MarkTypes} {t : Traveler} (ks : List String)
    (hty : ty = .vertex ∨ ty = .edge)
    (hE : ty = .edge → E "" ∨ ["to"] ∉ (fieldKeys ks).2)
    (h : NullShapedG E ty marks t) : NullShapedG E ty marks (stepFields ks t) := by
  cases hc : t.cur with
  | none => rw [stepFields_none ks t hc]; exact h
  | some e =>
    have hk := h.1 e hc
    have hends := fieldsElem_ends ks e
    rw [stepFields_eq ks t e hc]
    refine ⟨kindN_of ?_, payloadN_of_carries (carries_of_elem hty) _ _, fun hcm => h.2.2 hcm⟩
    rcases hty with rfl | rfl
    · obtain ⟨e', he', hfrm, hto⟩ := hk
      cases he'
      refine ⟨_, rfl, ?_, ?_⟩
      · rcases hends.2.1 with h' | h'
        · exact h'.trans hfrm
        · exact h'
      · rcases hends.1 with h' | h'
        · exact h'.trans hto
        · exact h'
    · obtain ⟨e', he', hto⟩ := hk
      cases he'
      refine ⟨_, rfl, ?_⟩
      show E (fieldsElem ks e).to
      rcases hE rfl with h0 | hk
      · rcases hends.1 with h' | h'
        · rw [h']; exact hto
        · rw [h']; exact h0
      · rw [hends.2.2 hk]; exact hto

theorem ns_unwind {ty : DataType} {marks : MarkTypes} {t : Traveler} (f : String)
    (h : NullShapedG E ty marks t) : ∀ t' ∈ stepUnwind f t, NullShapedG E ty marks t' := by
  intro t' ht'
  rcases mem_stepUnwind ht' with ⟨_, rfl⟩ | ⟨cur, i, hc, rfl⟩
  · exact h
  have h1 := h.1 cur hc
  cases ty
  case vertex =>
    obtain ⟨e, he, hfrm, hto⟩ := h1
    cases he
    exact ns_addCurrent h rfl rfl
      (kindN_of ⟨_, rfl, (setField_frm _ _ _).trans hfrm, (setField_to _ _ _).trans hto⟩)
  case edge =>
    obtain ⟨e, he, hto⟩ := h1
    cases he
    refine ns_addCurrent h rfl rfl (kindN_of ⟨_, rfl, ?_⟩)
    rw [setField_to]; exact hto
  case path => exact ns_addCurrent h rfl rfl (kindN_of ⟨_, rfl⟩)
  all_goals cases h1

theorem ns_path {ty : DataType} {marks : MarkTypes} {t : Traveler} (hty : ty = .vertex ∨ ty = .edge)
    (h : NullShapedG E ty marks t) : NullShapedG E .path marks t :=
  ⟨fun e _ => ⟨e, rfl⟩, trivial, fun _ => h.2.2 (carries_of_elem hty)⟩

/-! ### the four `*Null` moves: the plain move, plus possibly the null row -/

theorem mem_nullRow {b : Bool} {t t' : Traveler} (h : t' ∈ C02.nullRow b t) : t' = t.addCurrent none := by
  unfold C02.nullRow at h
  split at h
  · simpa using h
  · cases h

theorem mem_stepOutNull {mi : C02.NullMiss} {g : AGraph} {ty : DataType} {ls : List String}
    {t t' : Traveler} (h : t' ∈ C02.stepOutNull mi g ty ls t) :
    t' ∈ stepOut g ty ls t ∨ t' = t.addCurrent none := by
  unfold C02.stepOutNull at h
  split at h
  · exact Or.inl h
  · rcases List.mem_append.1 h with h | h
    · exact Or.inl h
    · exact Or.inr (mem_nullRow h)

theorem mem_stepInNull {mi : C02.NullMiss} {g : AGraph} {ty : DataType} {ls : List String}
    {t t' : Traveler} (h : t' ∈ C02.stepInNull mi g ty ls t) :
    t' ∈ stepIn g ty ls t ∨ t' = t.addCurrent none := by
  unfold C02.stepInNull at h
  split at h
  · exact Or.inl h
  · rcases List.mem_append.1 h with h | h
    · exact Or.inl h
    · exact Or.inr (mem_nullRow h)

theorem mem_stepOutENull {mi : C02.NullMiss} {g : AGraph} {ls : List String}
    {t t' : Traveler} (h : t' ∈ C02.stepOutENull mi g ls t) :
    t' ∈ stepOutE g ls t ∨ t' = t.addCurrent none := by
  unfold C02.stepOutENull at h
  rcases List.mem_append.1 h with h | h
  · exact Or.inl h
  · exact Or.inr (mem_nullRow h)

theorem mem_stepInENull {mi : C02.NullMiss} {g : AGraph} {ls : List String}
    {t t' : Traveler} (h : t' ∈ C02.stepInENull mi g ls t) :
    t' ∈ stepInE g ls t ∨ t' = t.addCurrent none := by
  unfold C02.stepInENull at h
  rcases List.mem_append.1 h with h | h
  · exact Or.inl h
  · exact Or.inr (mem_nullRow h)

/-- PRESERVATION of the null-tolerant shape, one statement of Grip.EvalN, for every `emitNull`
    behaviour `mi`. -/
theorem step_preserves_null (mi : C02.NullMiss) (numOf : String → Option Int) (g : AGraph)
    (hg : ∀ e ∈ g.edges, E e.to)
    {st st' : TState} {s : Stmt} {ts : List Traveler}
    (hf : st.last = .edge → E "" ∨ keepsTo s) (henv : MarkEnvOK st)
    (hm : nullModelled s = true) (ht : typeStep st s = .ok st')
    (hin : ∀ t ∈ ts, NullShapedG E st.last st.marks t) :
    ∀ t' ∈ EvalN.evalStepN mi numOf g st.last s ts, NullShapedG E st'.last st'.marks t' := by
  have sub : ∀ {out : List Traveler}, st' = st → (∀ t ∈ out, t ∈ ts) →
      ∀ t' ∈ out, NullShapedG E st'.last st'.marks t' := by
    intro out h hs t' ht'; subst h; exact hin t' (hs t' ht')
  have vOf : ∀ (t : Traveler) (t' : Traveler), (∃ v, t' = t.addCurrent (some (vertexElem v))) →
      ∃ r, KindN E .vertex r ∧ t' = t.addCurrent r :=
    fun t t' ⟨v, hv⟩ => ⟨_, kindN_of (kind_vertexElem v), hv⟩
  have eOf : ∀ (t : Traveler) (t' : Traveler), (∃ e ∈ g.edges, t' = t.addCurrent (some (edgeElem e))) →
      ∃ r, KindN E .edge r ∧ t' = t.addCurrent r :=
    fun t t' ⟨e, he, hv⟩ => ⟨_, kindN_of (kind_edgeElem hg he), hv⟩
  cases s with
  | V ids =>
    obtain ⟨hl, rfl⟩ := typeStep_V_ok ht
    rw [hl] at hin
    exact ns_flatMap (ty := .noData) rfl rfl (fun t t' h => vOf t t' (mem_stepV h)) hin
  | E ids =>
    obtain ⟨hl, rfl⟩ := typeStep_E_ok ht
    rw [hl] at hin
    exact ns_flatMap (ty := .noData) rfl rfl (fun t t' h => eOf t t' (mem_stepE h)) hin
  | out ls =>
    obtain ⟨hl, rfl⟩ := moveToVertex_ok ht
    exact ns_flatMap (carries_of_elem hl) rfl (fun t t' h => vOf t t' (mem_stepOut h)) hin
  | in_ ls =>
    obtain ⟨hl, rfl⟩ := moveToVertex_ok ht
    exact ns_flatMap (carries_of_elem hl) rfl (fun t t' h => vOf t t' (mem_stepIn h)) hin
  | both ls =>
    obtain ⟨hl, rfl⟩ := moveToVertex_ok ht
    exact ws_append
      (ns_flatMap (carries_of_elem hl) rfl (fun t t' h => vOf t t' (mem_stepIn h)) hin)
      (ns_flatMap (carries_of_elem hl) rfl (fun t t' h => vOf t t' (mem_stepOut h)) hin)
  | outE ls =>
    obtain ⟨hl, rfl⟩ := moveToEdge_ok ht
    exact ns_flatMap (carries_of_elem (Or.inl hl)) rfl (fun t t' h => eOf t t' (mem_stepOutE h)) hin
  | inE ls =>
    obtain ⟨hl, rfl⟩ := moveToEdge_ok ht
    exact ns_flatMap (carries_of_elem (Or.inl hl)) rfl (fun t t' h => eOf t t' (mem_stepInE h)) hin
  | bothE ls =>
    obtain ⟨hl, rfl⟩ := moveToEdge_ok ht
    exact ws_append
      (ns_flatMap (carries_of_elem (Or.inl hl)) rfl (fun t t' h => eOf t t' (mem_stepInE h)) hin)
      (ns_flatMap (carries_of_elem (Or.inl hl)) rfl (fun t t' h => eOf t t' (mem_stepOutE h)) hin)
  | outNull ls =>
    obtain ⟨hl, rfl⟩ := moveToVertex_ok ht
    exact ns_flatMap (carries_of_elem hl) rfl (fun t t' h => by
      rcases mem_stepOutNull h with h | rfl
      · exact vOf t t' (mem_stepOut h)
      · exact ⟨none, kindN_none _, rfl⟩) hin
  | inNull ls =>
    obtain ⟨hl, rfl⟩ := moveToVertex_ok ht
    exact ns_flatMap (carries_of_elem hl) rfl (fun t t' h => by
      rcases mem_stepInNull h with h | rfl
      · exact vOf t t' (mem_stepIn h)
      · exact ⟨none, kindN_none _, rfl⟩) hin
  | outENull ls =>
    obtain ⟨hl, rfl⟩ := moveToEdge_ok ht
    exact ns_flatMap (carries_of_elem (Or.inl hl)) rfl (fun t t' h => by
      rcases mem_stepOutENull h with h | rfl
      · exact eOf t t' (mem_stepOutE h)
      · exact ⟨none, kindN_none _, rfl⟩) hin
  | inENull ls =>
    obtain ⟨hl, rfl⟩ := moveToEdge_ok ht
    exact ns_flatMap (carries_of_elem (Or.inl hl)) rfl (fun t t' h => by
      rcases mem_stepInENull h with h | rfl
      · exact eOf t t' (mem_stepInE h)
      · exact ⟨none, kindN_none _, rfl⟩) hin
  | has x => exact sub (needElement_same ht).2 (fun t h => (List.mem_filter.1 h).1)
  | hasLabel ls => exact sub (needElement_nonempty ht).2 (fun t h => (List.mem_filter.1 h).1)
  | hasKey ks => exact sub (needElement_nonempty ht).2 (fun t h => (List.mem_filter.1 h).1)
  | hasId ids => exact sub (needElement_nonempty ht).2 (fun t h => (List.mem_filter.1 h).1)
  | limit n => exact sub (by injection ht with h; exact h.symm) (fun t h => List.mem_of_mem_take h)
  | skip n => exact sub (by injection ht with h; exact h.symm) (fun t h => List.mem_of_mem_drop h)
  | range a b =>
    exact sub (by injection ht with h; exact h.symm) (fun t h => (rangeGo_sublist a b 0 ts).subset h)
  | distinct fs =>
    exact sub (needElement_same ht).2 (fun t h => (distinctGo_sublist _ [] ts).subset h)
  | mark n => exact sub (by injection ht with h; exact h.symm) (fun t h => h)
  | jump m c e => exact sub (by injection ht with h; exact h.symm) (fun t h => h)
  | set k v => exact sub (by injection ht with h; exact h.symm) (fun t h => h)
  | increment k v => exact sub (by injection ht with h; exact h.symm) (fun t h => h)
  | count =>
    injection ht with h; subst h
    intro t' ht'
    have : t' = { count := ts.length } := by
      simpa [EvalN.evalStepN, C02.evalStepN, C02.evalStepP, evalStepT] using ht'
    subst this
    exact ⟨kindN_none _, trivial, fun h => by cases h⟩
  | as_ n =>
    obtain ⟨_, rfl⟩ := typeStep_as_ok ht
    intro t' ht'
    obtain ⟨t, htm, rfl⟩ := List.mem_map.1 ht'
    exact ns_addMark n (hin t htm)
  | select ms =>
    obtain ⟨hl, hk⟩ := needElement_ok ht
    intro t' ht'
    obtain ⟨t, htm, rfl⟩ := List.mem_map.1 ht'
    match ms, hk with
    | [], hk => cases hk
    | [m], hk =>
      injection hk with hk; subst hk
      exact ns_addCurrent (hin t htm) (carries_of_elem hl) (henv (carries_of_elem hl) m)
        ((hin t htm).2.2 (carries_of_elem hl) m)
    | a :: b :: rest, hk =>
      injection hk with hk; subst hk
      exact ns_selectMany (a :: b :: rest) (hin t htm) (carries_of_elem hl)
  | fields ks =>
    obtain ⟨hl, rfl⟩ := needElement_same ht
    intro t' ht'
    obtain ⟨t, htm, rfl⟩ := List.mem_map.1 ht'
    exact ns_fields ks hl hf (hin t htm)
  | render tpl =>
    obtain ⟨hl, hk⟩ := needElement_ok ht
    injection hk with hk; subst hk
    intro t' ht'
    obtain ⟨t, htm, rfl⟩ := List.mem_map.1 ht'
    exact ⟨kindN_none _, trivial, fun h => by cases h⟩
  | path tpl =>
    obtain ⟨hl, hk⟩ := needElement_ok ht
    injection hk with hk; subst hk
    intro t' ht'
    exact ns_path hl (hin t' ht')
  | unwind f =>
    injection ht with h; subst h
    intro t' ht'
    obtain ⟨t, htm, htt⟩ := List.mem_flatMap.1 ht'
    exact ns_unwind f (hin t htm) t' htt
  | unknown => cases ht
  | aggregate _ => cases hm
  | lookupVertsIndex _ => cases hm
  | engineCustom _ _ => cases hm

/-- The static invariant is preserved on the `*Null` moves as well. -/
theorem markEnv_stepN {st st' : TState} {s : Stmt} (henv : MarkEnvOK st)
    (hm : nullModelled s = true) (ht : typeStep st s = .ok st') : MarkEnvOK st' := by
  cases s <;> first
    | exact markEnv_step henv rfl ht
    | (simp [nullModelled] at hm; done)
    | (obtain ⟨hl, rfl⟩ := moveToVertex_ok ht
       exact fun _ => henv (carries_of_elem hl))
    | (obtain ⟨hl, rfl⟩ := moveToEdge_ok ht
       exact fun _ => henv (carries_of_elem (Or.inl hl)))

/-- what preservation asks of each statement -/
def PresHypN (E : ToPred) (st : TState) (s : Stmt) : Prop :=
  nullModelled s = true ∧ (st.last = .edge → E "" ∨ keepsTo s)

/-- PRESERVATION, whole program of Grip.EvalN (the fold `C02.evalFromX`). -/
theorem evalFromX_preserves_null (mi : C02.NullMiss) (numOf : String → Option Int) (g : AGraph)
    (hg : ∀ e ∈ g.edges, E e.to) :
    ∀ (stmts : List Stmt) (st stf : TState) (i : Nat) (ts : List Traveler), MarkEnvOK st →
      alongTyping (PresHypN E) st stmts → typeFold st stmts = .ok stf →
      (∀ t ∈ ts, NullShapedG E st.last st.marks t) →
      ∀ t ∈ C02.evalFromX (fun _ => EvalN.evalStepN mi numOf g) st i ts stmts,
        NullShapedG E stf.last stf.marks t
  | [], st, stf, i, ts, _, _, hf, hin => by
    simp only [typeFold] at hf; injection hf with hf; subst hf
    simpa [C02.evalFromX] using hin
  | s :: rest, st, stf, i, ts, henv, hal, hf, hin => by
    unfold typeFold at hf
    unfold C02.evalFromX
    have h2 := hal.2
    cases hts : typeStep st s with
    | error e => rw [hts] at hf; cases hf
    | ok st' =>
      rw [hts] at hf h2
      exact evalFromX_preserves_null mi numOf g hg rest st' stf (i + 1) _
        (markEnv_stepN henv hal.1.1 hts) h2 hf
        (step_preserves_null mi numOf g hg hal.1.2 henv hal.1.1 hts hin)

end

end Grip.Props.C01.Lemmas
