/-
  Lemmas.C03Obs — under the refinement relation every read of the MODEL equals (or is a
  permutation of) the corresponding read of the abstract graph.
-/
import GripProofs.Lemmas.C03Del

namespace Grip.Props.C03.Lemmas
open Grip Grip.C03 Grip.Props.C03
open Grip.C03.Spec (AG VRec ERec)

variable {m : KV} {f : List String} {a : AG}

/-! ### lookups -/

theorem getVertex_eq (h : Inv m f a) (g id : String) : getVertex m g id = Spec.getVertex a g id := by
  unfold getVertex Spec.getVertex
  rw [h.vertex]
  cases a.getV g id <;> rfl

theorem getEdge_eq (h : Inv m f a) (g eid : String) : getEdge m g eid = Spec.getEdge a g eid := by
  unfold getEdge Spec.getEdge
  rw [edgeRecords_eq h]
  cases a.getE g eid <;> rfl

theorem getVertex_some_iff (h : Inv m f a) (g id : String) (z : VOut) :
    getVertex m g id = some z ↔ z.gid = id ∧ a.getV g id = some ⟨z.label, z.data⟩ := by
  rw [getVertex_eq h, Spec.getVertex]
  obtain ⟨zi, zl, zd⟩ := z
  cases a.getV g id with
  | none => simp
  | some r => obtain ⟨rl, rd⟩ := r; simp; intro _ _; exact eq_comm

theorem getEdge_some_iff (h : Inv m f a) (g id : String) (z : EOut) :
    getEdge m g id = some z ↔ z.gid = id ∧ a.getE g id = some ⟨z.frm, z.to, z.label, z.data⟩ := by
  rw [getEdge_eq h, Spec.getEdge]
  obtain ⟨zi, zl, zf, zt, zd⟩ := z
  cases a.getE g id with
  | none => simp
  | some r =>
    obtain ⟨rf, rt, rl, rd⟩ := r; simp
    constructor
    · rintro ⟨rfl, rfl, rfl, rfl, rfl⟩; simp
    · rintro ⟨rfl, rfl, rfl, rfl, rfl⟩; simp

/-! ### abstract listings: membership and absence of duplicates -/

theorem spec_vertexList_mem (hn : KeysNodup a.verts) (g : String) (z : VOut) :
    z ∈ Spec.vertexList a g ↔ a.getV g z.gid = some ⟨z.label, z.data⟩ := by
  rw [AG.getV_eq, ← mem_iff_alGet hn]
  unfold Spec.vertexList
  rw [List.mem_filterMap]
  obtain ⟨zi, zl, zd⟩ := z
  constructor
  · rintro ⟨⟨⟨g', id⟩, ⟨l, d⟩⟩, hp, hz⟩
    simp only at hz
    split at hz
    · rename_i c; simp at hz; obtain ⟨rfl, rfl, rfl⟩ := hz; subst c; exact hp
    · simp at hz
  · intro hp; exact ⟨_, hp, by simp⟩

theorem spec_vertexList_nodup (hn : KeysNodup a.verts) (g : String) : (Spec.vertexList a g).Nodup := by
  unfold Spec.vertexList
  apply nodup_filterMap _ hn.nodup
  rintro ⟨⟨g1, id1⟩, ⟨l1, d1⟩⟩ _ ⟨⟨g2, id2⟩, ⟨l2, d2⟩⟩ _ z h1 h2
  simp only at h1 h2
  split at h1 <;> split at h2 <;> simp at h1 h2
  rename_i c1 c2
  subst c1 c2
  obtain ⟨rfl, rfl, rfl⟩ := h1
  simp at h2
  obtain ⟨rfl, rfl, rfl⟩ := h2
  rfl

theorem spec_edgeList_mem (hn : KeysNodup a.edges) (g : String) (z : EOut) :
    z ∈ Spec.edgeList a g ↔ a.getE g z.gid = some ⟨z.frm, z.to, z.label, z.data⟩ := by
  rw [AG.getE_eq, ← mem_iff_alGet hn]
  unfold Spec.edgeList
  rw [List.mem_filterMap]
  obtain ⟨zi, zl, zf, zt, zd⟩ := z
  constructor
  · rintro ⟨⟨⟨g', id⟩, ⟨fr, t, l, d⟩⟩, hp, hz⟩
    simp only at hz
    split at hz
    · rename_i c; simp at hz; obtain ⟨rfl, rfl, rfl, rfl, rfl⟩ := hz; subst c; exact hp
    · simp at hz
  · intro hp; exact ⟨_, hp, by simp⟩

theorem spec_edgeList_nodup (hn : KeysNodup a.edges) (g : String) : (Spec.edgeList a g).Nodup := by
  unfold Spec.edgeList
  apply nodup_filterMap _ hn.nodup
  rintro ⟨⟨g1, id1⟩, ⟨f1, t1, l1, d1⟩⟩ _ ⟨⟨g2, id2⟩, ⟨f2, t2, l2, d2⟩⟩ _ z h1 h2
  simp only at h1 h2
  split at h1 <;> split at h2 <;> simp at h1 h2
  rename_i c1 c2
  subst c1 c2
  obtain ⟨rfl, rfl, rfl, rfl, rfl⟩ := h1
  simp at h2
  obtain ⟨rfl, rfl, rfl, rfl, rfl⟩ := h2
  rfl

/-! ### full listings -/

theorem vertexList_mem (h : Inv m f a) (g : String) (z : VOut) :
    z ∈ vertexList m g ↔ a.getV g z.gid = some ⟨z.label, z.data⟩ := by
  unfold vertexList
  rw [List.mem_filterMap]
  obtain ⟨zi, zl, zd⟩ := z
  constructor
  · rintro ⟨⟨k, v⟩, hp, hz⟩
    cases k <;> cases v <;> simp at hz
    rename_i g' id l d
    obtain ⟨rfl, rfl, rfl, rfl⟩ := hz
    have := (KV.mem_iff_get h.nodup _ _).1 hp
    rw [h.vertex] at this
    cases hr : a.getV g' id with
    | none => simp [hr] at this
    | some r => obtain ⟨rl, rd⟩ := r; simp [hr] at this; simp [this]
  · intro hr
    refine ⟨(.vertex g zi, .vert zl zd), ?_, by simp⟩
    rw [KV.mem_iff_get h.nodup, h.vertex]
    simp at hr; simp [hr]

theorem vertexList_nodup (h : Inv m f a) (g : String) : (vertexList m g).Nodup := by
  unfold vertexList
  apply nodup_filterMap _ h.nodup.nodup
  rintro ⟨k1, v1⟩ _ ⟨k2, v2⟩ _ z h1 h2
  cases k1 <;> cases v1 <;> simp at h1
  cases k2 <;> cases v2 <;> simp at h2
  obtain ⟨rfl, rfl⟩ := h1
  obtain ⟨rfl, h2⟩ := h2
  simp at h2
  obtain ⟨rfl, rfl, rfl⟩ := h2
  rfl

theorem vertexList_perm (h : Inv m f a) (g : String) : (vertexList m g).Perm (Spec.vertexList a g) :=
  perm_of_nodup_mem_iff (vertexList_nodup h g) (spec_vertexList_nodup h.vnodup g)
    (fun z => by rw [vertexList_mem h, spec_vertexList_mem h.vnodup])

theorem get_edge_iff (h : Inv m f a) (g eid s d l : String) (data : JV) :
    m.get (.edge g eid s d l) = some (.edge data) ↔ a.getE g eid = some ⟨s, d, l, data⟩ := by
  rw [h.edge, ← edgeAt_some_iff]
  cases edgeAt a g eid s d l <;> simp

theorem edgeList_mem (h : Inv m f a) (g : String) (z : EOut) :
    z ∈ edgeList m g ↔ a.getE g z.gid = some ⟨z.frm, z.to, z.label, z.data⟩ := by
  unfold edgeList
  rw [List.mem_filterMap]
  obtain ⟨zi, zl, zf, zt, zd⟩ := z
  constructor
  · rintro ⟨⟨k, v⟩, hp, hz⟩
    cases k <;> cases v <;> simp at hz
    rename_i g' eid s d l data
    obtain ⟨rfl, rfl, rfl, rfl, rfl, rfl⟩ := hz
    exact (get_edge_iff h _ _ _ _ _ _).1 ((KV.mem_iff_get h.nodup _ _).1 hp)
  · intro hr
    refine ⟨(.edge g zi zf zt zl, .edge zd), ?_, by simp⟩
    rw [KV.mem_iff_get h.nodup]; exact (get_edge_iff h _ _ _ _ _ _).2 hr

theorem edgeList_nodup (h : Inv m f a) (g : String) : (edgeList m g).Nodup := by
  unfold edgeList
  apply nodup_filterMap _ h.nodup.nodup
  rintro ⟨k1, v1⟩ _ ⟨k2, v2⟩ _ z h1 h2
  cases k1 <;> cases v1 <;> simp at h1
  cases k2 <;> cases v2 <;> simp at h2
  obtain ⟨rfl, rfl⟩ := h1
  obtain ⟨rfl, h2⟩ := h2
  simp at h2
  obtain ⟨rfl, rfl, rfl, rfl, rfl⟩ := h2
  rfl

theorem edgeList_perm (h : Inv m f a) (g : String) : (edgeList m g).Perm (Spec.edgeList a g) :=
  perm_of_nodup_mem_iff (edgeList_nodup h g) (spec_edgeList_nodup h.enodup g)
    (fun z => by rw [edgeList_mem h, spec_edgeList_mem h.enodup])

end Grip.Props.C03.Lemmas
