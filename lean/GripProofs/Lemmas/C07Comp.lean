/-
  Lemmas for C07, composition (Grip.Model.C07Comp §1): what it means for an open component to be
  well behaved on its own (`Laws`: an invariant, the protocol of its two channel ends, local
  progress; `Good`: plus a well-founded measure; `GoodN`: plus a measure in ℕ that is weighted by
  what its outputs still cost further down), closure of all three under `Comp.seq`, and
  termination of a well-behaved component closed by a source and a client (`SysStep`).
-/
import Grip.Model.C07Comp
import GripProofs.Lemmas.C07Both

namespace Grip.Props.C07.Lemmas
open Grip.C07

/-! ### measured transition systems with an invariant -/

theorem run_bounded_inv {σ : Type} (R : σ → σ → Prop) (P : σ → Prop) (μ : σ → Nat)
    (hP : ∀ a b, P a → R a b → P b) (hdec : ∀ a b, P a → R a b → μ b < μ a)
    (run : Nat → σ) (k : Nat) (h0 : P (run 0)) (hrun : ∀ i, i < k → R (run i) (run (i + 1))) :
    P (run k) ∧ μ (run k) + k ≤ μ (run 0) := by
  induction k with
  | zero => exact ⟨h0, by simp⟩
  | succ k ih =>
    obtain ⟨hp, hk⟩ := ih (fun i hi => hrun i (by omega))
    have hs := hrun k (by omega)
    have := hdec _ _ hp hs
    exact ⟨hP _ _ hp hs, by omega⟩

/-- a system whose steps from states satisfying an invariant decrease a well-founded relation
    reaches, from every such state, a state without successor -/
theorem exists_terminal_wf {σ : Type} (R : σ → σ → Prop) (P : σ → Prop) (rel : σ → σ → Prop)
    (hwf : WellFounded rel) (hP : ∀ a b, P a → R a b → P b) (hdec : ∀ a b, P a → R a b → rel b a) :
    ∀ s, P s → ∃ t, Reach R s t ∧ ∀ u, ¬ R t u := by
  intro s
  induction s using hwf.induction with
  | _ s ih =>
    intro hp
    by_cases h : ∃ u, R s u
    · obtain ⟨u, hu⟩ := h
      obtain ⟨t, ht, hterm⟩ := ih u (hdec _ _ hp hu) (hP _ _ hp hu)
      exact ⟨t, reach_head hu ht, hterm⟩
    · exact ⟨s, Reach.refl s, fun u hu => h ⟨u, hu⟩⟩

/-- … and has no infinite execution -/
theorem no_infinite_run {σ : Type} (R : σ → σ → Prop) (P : σ → Prop) (rel : σ → σ → Prop)
    (hwf : WellFounded rel) (hP : ∀ a b, P a → R a b → P b) (hdec : ∀ a b, P a → R a b → rel b a) :
    ∀ s, P s → ¬ ∃ run : Nat → σ, run 0 = s ∧ ∀ i, R (run i) (run (i + 1)) := by
  intro s
  induction s using hwf.induction with
  | _ s ih =>
    intro hp ⟨run, h0, hrun⟩
    have h1 : R s (run 1) := by have := hrun 0; rw [h0] at this; exact this
    exact ih (run 1) (hdec _ _ hp h1) (hP _ _ hp h1)
      ⟨fun i => run (i + 1), rfl, fun i => hrun (i + 1)⟩

/-! ### well-behaved open components -/

/-- The invariant, the channel protocol and local progress of an open component.
    `progress` is what makes deadlock freedom compositional: a component that has not closed its
    output can move by itself, or offers an output / the closing of its output, or is waiting for
    input on a channel that has room and is still open. -/
structure Laws {α : Type} (C : Comp α) where
  inv : C.σ → Prop
  inv_tau : ∀ {s s'}, inv s → C.tau s s' → inv s'
  inv_out : ∀ {s y s'}, inv s → C.out s y s' → inv s'
  inv_fin : ∀ {s s'}, inv s → C.fin s s' → inv s'
  inv_put : ∀ {s} (x : α), inv s → C.closed s = false → C.room s → inv (C.put x s)
  inv_shut : ∀ {s}, inv s → C.closed s = false → inv (C.shut s)
  closed_tau : ∀ {s s'}, inv s → C.tau s s' → C.closed s' = C.closed s
  closed_out : ∀ {s y s'}, inv s → C.out s y s' → C.closed s' = C.closed s
  closed_fin : ∀ {s s'}, inv s → C.fin s s' → C.closed s' = C.closed s
  closed_put : ∀ {s} (x : α), inv s → C.closed (C.put x s) = C.closed s
  closed_shut : ∀ {s}, inv s → C.closed (C.shut s) = true
  ended_tau : ∀ {s s'}, inv s → C.tau s s' → C.ended s' = C.ended s
  ended_out : ∀ {s y s'}, inv s → C.out s y s' → C.ended s' = C.ended s
  ended_fin : ∀ {s s'}, inv s → C.fin s s' → C.ended s' = true
  ended_put : ∀ {s} (x : α), inv s → C.ended (C.put x s) = C.ended s
  ended_shut : ∀ {s}, inv s → C.ended (C.shut s) = C.ended s
  live_out : ∀ {s y s'}, inv s → C.out s y s' → C.ended s = false
  live_fin : ∀ {s s'}, inv s → C.fin s s' → C.ended s = false
  ended_closed : ∀ {s}, inv s → C.ended s = true → C.closed s = true
  progress : ∀ {s}, inv s → C.ended s = false →
    (∃ s', C.tau s s') ∨ (∃ y s', C.out s y s') ∨ (∃ s', C.fin s s') ∨ (C.room s ∧ C.closed s = false)

/-- … with a well-founded measure that every move of the component decreases (sending into its
    input channel may increase it by any amount) -/
structure Good {α : Type} (C : Comp α) extends Laws C where
  rel : C.σ → C.σ → Prop
  wf : WellFounded rel
  dec_tau : ∀ {s s'}, inv s → C.tau s s' → rel s' s
  dec_out : ∀ {s y s'}, inv s → C.out s y s' → rel s' s
  dec_fin : ∀ {s s'}, inv s → C.fin s s' → rel s' s

/-- … with a measure in ℕ, relative to the number of steps `d y` an output `y` still causes behind
    the component: handing `y` over pays for `d y`, receiving `x` costs at most `wi d x` -/
structure GoodN {α : Type} (C : Comp α) extends Laws C where
  w : (α → Nat) → C.σ → Nat
  wi : (α → Nat) → α → Nat
  w_tau : ∀ {d s s'}, inv s → C.tau s s' → w d s' < w d s
  w_out : ∀ {d s y s'}, inv s → C.out s y s' → w d s' + d y < w d s
  w_fin : ∀ {d s s'}, inv s → C.fin s s' → w d s' < w d s
  w_put : ∀ {d s} (x : α), inv s → C.closed s = false → C.room s → w d (C.put x s) ≤ w d s + wi d x
  w_shut : ∀ {d s}, inv s → C.closed s = false → w d (C.shut s) ≤ w d s

/-- nothing costs anything behind the last component -/
def d0 {α : Type} : α → Nat := fun _ => 0

def GoodN.toGood {α : Type} {C : Comp α} (N : GoodN C) : Good C :=
  { N.toLaws with
    rel := fun a b => N.w d0 a < N.w d0 b
    wf := InvImage.wf (N.w d0) Nat.lt_wfRel.wf
    dec_tau := fun hi h => N.w_tau hi h
    dec_out := fun hi h => by have := N.w_out (d := d0) hi h; simp [d0] at this; exact this
    dec_fin := fun hi h => N.w_fin hi h }

/-! ### sequential composition -/

def seqInv {α : Type} {C1 C2 : Comp α} (L1 : Laws C1) (L2 : Laws C2) (s : C1.σ × C2.σ) : Prop :=
  L1.inv s.1 ∧ L2.inv s.2 ∧ C2.closed s.2 = C1.ended s.1

theorem seq_inv_tau {α : Type} {C1 C2 : Comp α} (L1 : Laws C1) (L2 : Laws C2) {s s' : C1.σ × C2.σ}
    (hi : seqInv L1 L2 s) (h : SeqTau C1 C2 s s') : seqInv L1 L2 s' := by
  cases h with
  | left h =>
    obtain ⟨h1, h2, hl⟩ := hi
    exact ⟨L1.inv_tau h1 h, h2, by simp only [L1.ended_tau h1 h]; exact hl⟩
  | right h =>
    obtain ⟨h1, h2, hl⟩ := hi
    exact ⟨h1, L2.inv_tau h2 h, by simp only [L2.closed_tau h2 h]; exact hl⟩
  | @pass a a' b y h hr =>
    obtain ⟨h1, h2, hl⟩ := hi
    have hopen : C2.closed b = false := by rw [hl]; exact L1.live_out h1 h
    exact ⟨L1.inv_out h1 h, L2.inv_put _ h2 hopen hr,
      by simp only [L2.closed_put _ h2, L1.ended_out h1 h]; exact hl⟩
  | @close a a' b h =>
    obtain ⟨h1, h2, hl⟩ := hi
    have hopen : C2.closed b = false := by rw [hl]; exact L1.live_fin h1 h
    exact ⟨L1.inv_fin h1 h, L2.inv_shut h2 hopen,
      by simp only [L2.closed_shut h2, L1.ended_fin h1 h]⟩

theorem seq_progress {α : Type} {C1 C2 : Comp α} (L1 : Laws C1) (L2 : Laws C2) {s : C1.σ × C2.σ}
    (hi : seqInv L1 L2 s) (he : C2.ended s.2 = false) :
    (∃ s', SeqTau C1 C2 s s') ∨ (∃ y s', SeqOut C1 C2 s y s') ∨ (∃ s', SeqFin C1 C2 s s') ∨
      (C1.room s.1 ∧ C1.closed s.1 = false) := by
  obtain ⟨a, b⟩ := s
  obtain ⟨h1, h2, hl⟩ := hi
  rcases L2.progress h2 he with ⟨b', hb⟩ | ⟨y, b', hb⟩ | ⟨b', hb⟩ | ⟨hroom, hopen⟩
  · exact Or.inl ⟨_, SeqTau.right hb⟩
  · exact Or.inr (Or.inl ⟨y, _, SeqOut.mk hb⟩)
  · exact Or.inr (Or.inr (Or.inl ⟨_, SeqFin.mk hb⟩))
  · have he1 : C1.ended a = false := by rw [← hl]; exact hopen
    rcases L1.progress h1 he1 with ⟨a', ha⟩ | ⟨y, a', ha⟩ | ⟨a', ha⟩ | hw
    · exact Or.inl ⟨_, SeqTau.left ha⟩
    · exact Or.inl ⟨_, SeqTau.pass ha hroom⟩
    · exact Or.inl ⟨_, SeqTau.close ha⟩
    · exact Or.inr (Or.inr (Or.inr hw))

def Laws.seq {α : Type} {C1 C2 : Comp α} (L1 : Laws C1) (L2 : Laws C2) : Laws (C1.seq C2) where
  inv := seqInv L1 L2
  inv_tau := fun hi h => seq_inv_tau L1 L2 hi h
  inv_out := fun {s y s'} hi h => by
    cases h with
    | mk h => exact ⟨hi.1, L2.inv_out hi.2.1 h, by simp only [L2.closed_out hi.2.1 h]; exact hi.2.2⟩
  inv_fin := fun {s s'} hi h => by
    cases h with
    | mk h => exact ⟨hi.1, L2.inv_fin hi.2.1 h, by simp only [L2.closed_fin hi.2.1 h]; exact hi.2.2⟩
  inv_put := fun {s} x hi hc hr =>
    ⟨L1.inv_put x hi.1 hc hr, hi.2.1, by
      show C2.closed s.2 = C1.ended (C1.put x s.1)
      rw [L1.ended_put x hi.1]; exact hi.2.2⟩
  inv_shut := fun {s} hi hc =>
    ⟨L1.inv_shut hi.1 hc, hi.2.1, by
      show C2.closed s.2 = C1.ended (C1.shut s.1)
      rw [L1.ended_shut hi.1]; exact hi.2.2⟩
  closed_tau := fun {s s'} hi h => by
    cases h with
    | left h => exact L1.closed_tau hi.1 h
    | right h => rfl
    | pass h _ => exact L1.closed_out hi.1 h
    | close h => exact L1.closed_fin hi.1 h
  closed_out := fun {s y s'} _ h => by cases h; rfl
  closed_fin := fun {s s'} _ h => by cases h; rfl
  closed_put := fun {s} x hi => L1.closed_put x hi.1
  closed_shut := fun {s} hi => L1.closed_shut hi.1
  ended_tau := fun {s s'} hi h => by
    cases h with
    | left h => rfl
    | right h => exact L2.ended_tau hi.2.1 h
    | pass h _ => exact L2.ended_put _ hi.2.1
    | close h => exact L2.ended_shut hi.2.1
  ended_out := fun {s y s'} hi h => by cases h with | mk h => exact L2.ended_out hi.2.1 h
  ended_fin := fun {s s'} hi h => by cases h with | mk h => exact L2.ended_fin hi.2.1 h
  ended_put := fun {s} x _ => rfl
  ended_shut := fun {s} _ => rfl
  live_out := fun {s y s'} hi h => by cases h with | mk h => exact L2.live_out hi.2.1 h
  live_fin := fun {s s'} hi h => by cases h with | mk h => exact L2.live_fin hi.2.1 h
  ended_closed := fun {s} hi he => by
    have h2 : C2.closed s.2 = true := L2.ended_closed hi.2.1 he
    have h1 : C1.ended s.1 = true := by rw [← hi.2.2]; exact h2
    exact L1.ended_closed hi.1 h1
  progress := fun hi he => seq_progress L1 L2 hi he

/-- COMPOSITION, well-founded form: the lexicographic product — what the first component hands
    over may raise the measure of the second by any amount -/
def Good.seq {α : Type} {C1 C2 : Comp α} (G1 : Good C1) (G2 : Good C2) : Good (C1.seq C2) :=
  { Laws.seq G1.toLaws G2.toLaws with
    rel := Prod.Lex G1.rel G2.rel
    wf := (Prod.lex ⟨G1.rel, G1.wf⟩ ⟨G2.rel, G2.wf⟩).wf
    dec_tau := fun {s s'} hi h => by
      cases h with
      | left h => exact Prod.Lex.left _ _ (G1.dec_tau hi.1 h)
      | right h => exact Prod.Lex.right _ (G2.dec_tau hi.2.1 h)
      | pass h _ => exact Prod.Lex.left _ _ (G1.dec_out hi.1 h)
      | close h => exact Prod.Lex.left _ _ (G1.dec_fin hi.1 h)
    dec_out := fun {s y s'} hi h => by
      cases h with | mk h => exact Prod.Lex.right _ (G2.dec_out hi.2.1 h)
    dec_fin := fun {s s'} hi h => by
      cases h with | mk h => exact Prod.Lex.right _ (G2.dec_fin hi.2.1 h) }

/-- COMPOSITION, quantitative form: the first component is measured relative to what an item costs
    when it enters the second -/
def GoodN.seq {α : Type} {C1 C2 : Comp α} (N1 : GoodN C1) (N2 : GoodN C2) : GoodN (C1.seq C2) :=
  { Laws.seq N1.toLaws N2.toLaws with
    w := fun d s => N1.w (N2.wi d) s.1 + N2.w d s.2
    wi := fun d => N1.wi (N2.wi d)
    w_tau := fun {d s s'} hi h => by
      cases h with
      | left h => have := N1.w_tau (d := N2.wi d) hi.1 h; dsimp only at this ⊢; omega
      | right h => have := N2.w_tau (d := d) hi.2.1 h; dsimp only at this ⊢; omega
      | @pass a a' b y h hr =>
        have hopen : C2.closed b = false := by rw [hi.2.2]; exact N1.live_out hi.1 h
        have h1 := N1.w_out (d := N2.wi d) hi.1 h
        have h2 := N2.w_put (d := d) y hi.2.1 hopen hr
        dsimp only at h1 h2 ⊢; omega
      | @close a a' b h =>
        have hopen : C2.closed b = false := by rw [hi.2.2]; exact N1.live_fin hi.1 h
        have h1 := N1.w_fin (d := N2.wi d) hi.1 h
        have h2 := N2.w_shut (d := d) hi.2.1 hopen
        dsimp only at h1 h2 ⊢; omega
    w_out := fun {d s y s'} hi h => by
      cases h with | mk h => have := N2.w_out (d := d) hi.2.1 h; dsimp only at this ⊢; omega
    w_fin := fun {d s s'} hi h => by
      cases h with | mk h => have := N2.w_fin (d := d) hi.2.1 h; dsimp only at this ⊢; omega
    w_put := fun {d s} x hi hc hr => by
      have := N1.w_put (d := N2.wi d) x hi.1 hc hr
      show N1.w (N2.wi d) (C1.put x s.1) + N2.w d s.2 ≤ _
      omega
    w_shut := fun {d s} hi hc => by
      have := N1.w_shut (d := N2.wi d) hi.1 hc
      show N1.w (N2.wi d) (C1.shut s.1) + N2.w d s.2 ≤ _
      omega }

/-! ### a component closed by a source and a client -/

def SysInv {α : Type} {C : Comp α} (L : Laws C) (s : SysS C) : Prop :=
  L.inv s.st ∧ C.closed s.st = s.srcClosed ∧ (s.srcClosed = true → s.todo = [])

theorem sys_inv_step {α : Type} {C : Comp α} (L : Laws C) {s s' : SysS C} (hi : SysInv L s)
    (h : SysStep C s s') : SysInv L s' := by
  obtain ⟨h1, h2, h3⟩ := hi
  cases h with
  | feed ht hr =>
    have hopen : s.srcClosed = false := by
      cases hs : s.srcClosed with
      | false => rfl
      | true => have := h3 hs; rw [ht] at this; cases this
    exact ⟨L.inv_put _ h1 (by rw [h2, hopen]) hr, by simp only [L.closed_put _ h1]; exact h2,
      fun hc => by simp only [hopen] at hc; cases hc⟩
  | shut ht hs =>
    exact ⟨L.inv_shut h1 (by rw [h2, hs]), by simp only [L.closed_shut h1], fun _ => ht⟩
  | tau h => exact ⟨L.inv_tau h1 h, by simp only [L.closed_tau h1 h]; exact h2, h3⟩
  | out h => exact ⟨L.inv_out h1 h, by simp only [L.closed_out h1 h]; exact h2, h3⟩
  | fin h => exact ⟨L.inv_fin h1 h, by simp only [L.closed_fin h1 h]; exact h2, h3⟩

theorem sys_progress {α : Type} {C : Comp α} (L : Laws C) {s : SysS C} (hi : SysInv L s)
    (hnf : ¬ SysFinal s) : ∃ s', SysStep C s s' := by
  obtain ⟨h1, h2, h3⟩ := hi
  have hmove : C.ended s.st = false → C.closed s.st = true ∨ ¬ C.room s.st → ∃ s', SysStep C s s' := by
    intro he hblocked
    rcases L.progress h1 he with ⟨u, hu⟩ | ⟨y, u, hu⟩ | ⟨u, hu⟩ | ⟨hroom, hopen⟩
    · exact ⟨_, SysStep.tau hu⟩
    · exact ⟨_, SysStep.out hu⟩
    · exact ⟨_, SysStep.fin hu⟩
    · rcases hblocked with hc | hnr
      · rw [hopen] at hc; cases hc
      · exact absurd hroom hnr
  cases ht : s.todo with
  | cons t ts =>
    have hopen : s.srcClosed = false := by
      cases hs : s.srcClosed with
      | false => rfl
      | true => have := h3 hs; rw [ht] at this; cases this
    by_cases hr : C.room s.st
    · exact ⟨_, SysStep.feed ht hr⟩
    · have he : C.ended s.st = false := by
        cases he : C.ended s.st with
        | false => rfl
        | true => have := L.ended_closed h1 he; rw [h2, hopen] at this; cases this
      exact hmove he (Or.inr hr)
  | nil =>
    cases hs : s.srcClosed with
    | false => exact ⟨_, SysStep.shut ht hs⟩
    | true =>
      have he : C.ended s.st = false := by
        cases he : C.ended s.st with
        | false => rfl
        | true => exact absurd ⟨ht, hs, he⟩ hnf
      exact hmove he (Or.inl (by rw [h2, hs]))

/-- the measure of the closed system, well-founded form -/
def sysRel {α : Type} {C : Comp α} (G : Good C) (a b : SysS C) : Prop :=
  Prod.Lex (fun m n : Nat => m < n) G.rel
    (a.todo.length + (if a.srcClosed then 0 else 1), a.st) (b.todo.length + (if b.srcClosed then 0 else 1), b.st)

theorem sysRel_wf {α : Type} {C : Comp α} (G : Good C) : WellFounded (sysRel G) :=
  InvImage.wf (fun a : SysS C => (a.todo.length + (if a.srcClosed then 0 else 1), a.st))
    (Prod.lex ⟨fun m n : Nat => m < n, Nat.lt_wfRel.wf⟩ ⟨G.rel, G.wf⟩).wf

theorem sys_dec {α : Type} {C : Comp α} (G : Good C) {s s' : SysS C} (hi : SysInv G.toLaws s)
    (h : SysStep C s s') : sysRel G s' s := by
  cases h with
  | feed ht hr => exact Prod.Lex.left _ _ (by simp [ht])
  | shut ht hs => exact Prod.Lex.left _ _ (by simp [hs])
  | tau h => exact Prod.Lex.right _ (G.dec_tau hi.1 h)
  | out h => exact Prod.Lex.right _ (G.dec_out hi.1 h)
  | fin h => exact Prod.Lex.right _ (G.dec_fin hi.1 h)

/-- the measure of the closed system in ℕ: every item still to be sent costs its sending and what
    it causes inside; nothing is owed behind the client -/
def sysW {α : Type} {C : Comp α} (N : GoodN C) (s : SysS C) : Nat :=
  sumMap (fun x => 1 + N.wi d0 x) s.todo + (if s.srcClosed then 0 else 1) + N.w d0 s.st

theorem sysW_dec {α : Type} {C : Comp α} (N : GoodN C) {s s' : SysS C} (hi : SysInv N.toLaws s)
    (h : SysStep C s s') : sysW N s' < sysW N s := by
  obtain ⟨h1, h2, h3⟩ := hi
  cases h with
  | @feed t ts ht hr =>
    have hopen : s.srcClosed = false := by
      cases hs : s.srcClosed with
      | false => rfl
      | true => have := h3 hs; rw [ht] at this; cases this
    have := N.w_put (d := d0) t h1 (by rw [h2, hopen]) hr
    simp only [sysW, ht, sumMap]
    omega
  | shut ht hs =>
    have := N.w_shut (d := d0) h1 (by rw [h2, hs])
    simp only [sysW, ht, hs, sumMap]
    simp
    omega
  | tau h => have := N.w_tau (d := d0) h1 h; simp only [sysW]; omega
  | out h => have := N.w_out (d := d0) h1 h; simp only [sysW]; omega
  | fin h => have := N.w_fin (d := d0) h1 h; simp only [sysW]; omega

theorem sys_inv_init {α : Type} {C : Comp α} (L : Laws C) (input : List α) (s0 : C.σ)
    (h0 : L.inv s0) (hc : C.closed s0 = false) : SysInv L (sysInit C input s0) :=
  ⟨h0, hc, fun h => by simp [sysInit] at h⟩

/-- a well-behaved component, closed by a source sending any list and a client that keeps reading:
    (1) a reachable state in which nothing can move is final, (2) a final state is reachable from
    every reachable state, (3) there is no infinite execution -/
theorem sys_terminates {α : Type} {C : Comp α} (G : Good C) (input : List α) (s0 : C.σ)
    (h0 : G.inv s0) (hc : C.closed s0 = false) :
    (∀ s, Reach (SysStep C) (sysInit C input s0) s → (∀ s', ¬ SysStep C s s') → SysFinal s) ∧
    (∀ s, Reach (SysStep C) (sysInit C input s0) s → ∃ t, Reach (SysStep C) s t ∧ SysFinal t) ∧
    (¬ ∃ run : Nat → SysS C, run 0 = sysInit C input s0 ∧ ∀ i, SysStep C (run i) (run (i + 1))) := by
  have hinit := sys_inv_init G.toLaws input s0 h0 hc
  have hinv : ∀ s, Reach (SysStep C) (sysInit C input s0) s → SysInv G.toLaws s :=
    fun s hr => reach_inv (SysInv G.toLaws) (fun a b hi hs => sys_inv_step G.toLaws hi hs) hr hinit
  have hstuck : ∀ s : SysS C, SysInv G.toLaws s → (∀ s', ¬ SysStep C s s') → SysFinal s := by
    intro s hi hno
    by_cases hf : SysFinal s
    · exact hf
    · obtain ⟨s', hs⟩ := sys_progress G.toLaws hi hf
      exact absurd hs (hno s')
  refine ⟨fun s hr hno => hstuck s (hinv s hr) hno, ?_, ?_⟩
  · intro s hr
    obtain ⟨t, hst, hterm⟩ := exists_terminal_wf (SysStep C) (SysInv G.toLaws) (sysRel G) (sysRel_wf G)
      (fun a b hi hs => sys_inv_step G.toLaws hi hs) (fun a b hi hs => sys_dec G hi hs) s (hinv s hr)
    exact ⟨t, hst, hstuck t (hinv t (reach_trans hr hst)) hterm⟩
  · exact no_infinite_run (SysStep C) (SysInv G.toLaws) (sysRel G) (sysRel_wf G)
      (fun a b hi hs => sys_inv_step G.toLaws hi hs) (fun a b hi hs => sys_dec G hi hs) _ hinit

/-- … and with a measure in ℕ no execution has more than `sysW` steps -/
theorem sys_bounded {α : Type} {C : Comp α} (N : GoodN C) (input : List α) (s0 : C.σ)
    (h0 : N.inv s0) (hc : C.closed s0 = false)
    (run : Nat → SysS C) (k : Nat) (hr0 : run 0 = sysInit C input s0)
    (hrun : ∀ i, i < k → SysStep C (run i) (run (i + 1))) : k ≤ sysW N (sysInit C input s0) := by
  have hinit := sys_inv_init N.toLaws input s0 h0 hc
  have := (run_bounded_inv (SysStep C) (SysInv N.toLaws) (sysW N)
    (fun a b hi hs => sys_inv_step N.toLaws hi hs) (fun a b hi hs => sysW_dec N hi hs)
    run k (by rw [hr0]; exact hinit) hrun).2
  rw [hr0] at this
  omega

end Grip.Props.C07.Lemmas
