/-
  Lemmas for C02, part 1: the load-elision analysis (`passAll`, the backward loop of
  `PipelineStepOutputs`) marks as "to be loaded" every step whose data some statement reads.
  Purely combinatorial: nothing here mentions graphs or travelers.
-/
import Grip.Model.C02

namespace Grip.Props.C02.Lemmas
open Grip Grip.C02

/-! ### `StepLoadData` only ever grows during the backward loop -/

/-- `StepLoadData` on a non-empty entry (entries are never empty: every assignment in the loop
    writes a non-empty list; an empty entry would count as "load" in the Go code and stop doing so
    after `append(x, "_label")`, so monotonicity is stated for this slightly stronger notion). -/
def sn (o : Outs) (k : Nat) : Bool :=
  match o k with
  | some (y :: ys) => !(ys.isEmpty && y == "_label")
  | _ => false

theorem sn_imp (o : Outs) (k : Nat) (h : sn o k = true) : stepLoadData o k = true := by
  unfold sn at h
  unfold stepLoadData
  split at h
  · rename_i y ys hx
    rw [hx]
    cases ys <;> simp_all
  · simp at h

theorem sld_star_self (o : Outs) (k : Nat) : sn (o.star k) k = true := by
  simp [sn, Outs.star, Outs.set]

theorem sld_star_mono (o : Outs) (k j : Nat) (h : sn o j = true) :
    sn (o.star k) j = true := by
  by_cases hj : j = k
  · subst hj; exact sld_star_self o j
  · simpa [sn, Outs.star, Outs.set, hj] using h

theorem sld_starAll_mono (ks : List Nat) (o : Outs) (j : Nat) (h : sn o j = true) :
    sn (o.starAll ks) j = true := by
  induction ks generalizing o with
  | nil => simpa [Outs.starAll] using h
  | cons k ks ih =>
    simp only [Outs.starAll, List.foldl_cons]
    exact ih _ (sld_star_mono o k j h)

theorem sld_starAll_mem (ks : List Nat) (o : Outs) (a : Nat) (h : a ∈ ks) :
    sn (o.starAll ks) a = true := by
  induction ks generalizing o with
  | nil => simp at h
  | cons k ks ih =>
    simp only [Outs.starAll, List.foldl_cons]
    rcases List.mem_cons.1 h with rfl | h'
    · exact sld_starAll_mono ks _ _ (sld_star_self o a)
    · exact ih _ h'

theorem sld_markRef_mono (ms : String → List Nat) (k : Nat) (o : Outs) (f : String) (j : Nat)
    (h : sn o j = true) : sn (markRef ms k o f) j = true := by
  unfold markRef
  apply sld_starAll_mono
  split
  · exact sld_star_mono o k j h
  · exact h

theorem sld_markRefs_mono (ms : String → List Nat) (k : Nat) (refs : List String) (o : Outs) (j : Nat)
    (h : sn o j = true) : sn (markRefs ms k refs o) j = true := by
  induction refs generalizing o with
  | nil => simpa [markRefs] using h
  | cons f fs ih =>
    simp only [markRefs, List.foldl_cons]
    exact ih _ (sld_markRef_mono ms k o f j h)

theorem sld_markRefs_cur (ms : String → List Nat) (k : Nat) (refs : List String) (o : Outs)
    (f : String) (hf : f ∈ refs) (hc : keyIsCurrent f = true) :
    sn (markRefs ms k refs o) k = true := by
  induction refs generalizing o with
  | nil => simp at hf
  | cons x xs ih =>
    simp only [markRefs, List.foldl_cons]
    rcases List.mem_cons.1 hf with rfl | h'
    · apply sld_markRefs_mono
      unfold markRef
      apply sld_starAll_mono
      simp [hc, sld_star_self]
    · exact ih _ h'

theorem sld_markRefs_mark (ms : String → List Nat) (k : Nat) (refs : List String) (o : Outs)
    (f : String) (hf : f ∈ refs) (a : Nat) (ha : a ∈ ms (nsName f)) :
    sn (markRefs ms k refs o) a = true := by
  induction refs generalizing o with
  | nil => simp at hf
  | cons x xs ih =>
    simp only [markRefs, List.foldl_cons]
    rcases List.mem_cons.1 hf with rfl | h'
    · apply sld_markRefs_mono
      unfold markRef
      exact sld_starAll_mem _ _ _ ha
    · exact ih _ h'

theorem sld_selectFold_mono (ms : String → List Nat) (marks : List String) (o : Outs) (j : Nat)
    (h : sn o j = true) :
    sn (marks.foldl (fun o m => o.starAll (ms m)) o) j = true := by
  induction marks generalizing o with
  | nil => simpa using h
  | cons m rest ih => simp only [List.foldl_cons]; exact ih _ (sld_starAll_mono _ _ _ h)

theorem sld_selectFold_mem (ms : String → List Nat) (marks : List String) (o : Outs)
    (m : String) (hm : m ∈ marks) (a : Nat) (ha : a ∈ ms m) :
    sn (marks.foldl (fun o m => o.starAll (ms m)) o) a = true := by
  induction marks generalizing o with
  | nil => simp at hm
  | cons x rest ih =>
    simp only [List.foldl_cons]
    rcases List.mem_cons.1 hm with rfl | h'
    · exact sld_selectFold_mono ms rest _ _ (sld_starAll_mem _ _ _ ha)
    · exact ih _ h'

/-- The `HasLabel` arm: appending "_label" to an existing entry, or creating `["_label"]`. -/
theorem sld_hasLabel_mono (o : Outs) (k j : Nat) (h : sn o j = true) :
    sn (match o k with
      | some x => o.set k (x ++ ["_label"])
      | none => o.set k ["_label"]) j = true := by
  by_cases hj : j = k
  · subst hj
    cases hx : o j with
    | none => simp [sn, hx] at h
    | some x =>
      cases x with
      | nil => simp [sn, hx] at h
      | cons y ys =>
        cases ys with
        | nil => simp [sn, Outs.set]
        | cons z zs => simp [sn, Outs.set]
  · cases hx : o k <;> simpa [sn, Outs.set, hj] using h

/-- One iteration of the backward loop never un-marks a step. -/
theorem passStmt_mono (ms : String → List Nat) (s : Stmt) (k : Nat) (a : AState) (j : Nat)
    (h : sn a.outs j = true) : sn (passStmt ms s k a).outs j = true := by
  unfold passStmt
  apply sld_markRefs_mono
  cases outArm s.kind <;> simp only
  · exact h
  · exact sld_selectFold_mono ms _ _ _ h
  · split <;> first | exact sld_star_mono _ _ _ h | exact h
  · exact sld_hasLabel_mono _ _ _ h
  · exact sld_star_mono _ _ _ h
  · exact h

theorem fieldRefs_guard (s : Stmt) : (if hasFieldRefs s.kind then fieldRefs s else []) = fieldRefs s := by
  cases s <;> simp [hasFieldRefs, Stmt.kind, fieldRefs]

/-- What the analysis guarantees for statement `s` in step `k`, relative to a predicate `need`
    on steps and the mark-step table `ms`. -/
structure Good (need : Nat → Bool) (ms : String → List Nat) (s : Stmt) (k : Nat) : Prop where
  readsCur : outArm s.kind = .readsCur → need k = true
  refCur : ∀ f ∈ fieldRefs s, keyIsCurrent f = true → need k = true
  refMark : ∀ f ∈ fieldRefs s, ∀ a ∈ ms (nsName f), need a = true
  sel : ∀ marks, s = .select marks → ∀ m ∈ marks, ∀ a ∈ ms m, need a = true

theorem passStmt_good (ms : String → List Nat) (s : Stmt) (k : Nat) (a : AState) :
    Good (sn (passStmt ms s k a).outs) ms s k := by
  refine ⟨?_, ?_, ?_, ?_⟩
  · intro h
    unfold passStmt
    apply sld_markRefs_mono
    simp only [h]
    exact sld_star_self _ _
  · intro f hf hc
    unfold passStmt
    rw [fieldRefs_guard]
    exact sld_markRefs_cur ms k _ _ f hf hc
  · intro f hf a' ha
    unfold passStmt
    rw [fieldRefs_guard]
    exact sld_markRefs_mark ms k _ _ f hf a' ha
  · intro marks hs m hm a' ha
    subst hs
    unfold passStmt
    apply sld_markRefs_mono
    simp only [Stmt.kind, outArm]
    exact sld_selectFold_mem ms marks _ m hm a' ha

theorem Good.mono {need need' : Nat → Bool} {ms s k} (h : Good need ms s k)
    (hm : ∀ j, need j = true → need' j = true) : Good need' ms s k :=
  ⟨fun x => hm _ (h.readsCur x), fun f hf hc => hm _ (h.refCur f hf hc),
   fun f hf a ha => hm _ (h.refMark f hf a ha), fun marks hs m hmm a ha => hm _ (h.sel marks hs m hmm a ha)⟩

/-- The whole backward loop: every statement's reads are covered in the final table. -/
theorem passAll_good (ms : String → List Nat) (zs : List (Stmt × Nat)) :
    ∀ sk ∈ zs, Good (sn (passAll ms zs).outs) ms sk.1 sk.2 := by
  induction zs with
  | nil => intro sk h; simp at h
  | cons x rest ih =>
    intro sk h
    obtain ⟨s, k⟩ := x
    simp only [passAll]
    rcases List.mem_cons.1 h with rfl | h'
    · exact passStmt_good ms s k _
    · exact (ih sk h').mono (fun j hj => passStmt_mono ms s k _ j hj)

end Grip.Props.C02.Lemmas
