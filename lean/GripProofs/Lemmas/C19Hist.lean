import Grip.Model.C19
import Grip.Spec.C19

/-
  C19 lemmas: the histogram finaliser — min/max folds, floor-division bucket starts, the
  partition of [start, max] into buckets, and the sum of the bucket counts.
-/
namespace Grip.Props.C19.Lemmas
open Grip Grip.C19

/-! ### min / max folds -/

theorem minOf_le_init (x : Int) (xs : List Int) : minOf x xs ≤ x := by
  induction xs generalizing x with
  | nil => simp [minOf]
  | cons y ys ih =>
    have := ih (min x y)
    simp only [minOf, List.foldl_cons] at this ⊢
    omega

theorem minOf_le (x : Int) (xs : List Int) : ∀ v ∈ x :: xs, minOf x xs ≤ v := by
  induction xs generalizing x with
  | nil => intro v hv; simp at hv; subst hv; simp [minOf]
  | cons y ys ih =>
    intro v hv
    have h0 := minOf_le_init (min x y) ys
    have h1 := ih (min x y)
    simp only [minOf, List.foldl_cons] at h0 h1 ⊢
    rcases List.mem_cons.1 hv with rfl | hv
    · omega
    · rcases List.mem_cons.1 hv with rfl | hv
      · omega
      · exact h1 v (List.mem_cons_of_mem _ hv)

theorem le_maxOf_init (x : Int) (xs : List Int) : x ≤ maxOf x xs := by
  induction xs generalizing x with
  | nil => simp [maxOf]
  | cons y ys ih =>
    have := ih (max x y)
    simp only [maxOf, List.foldl_cons] at this ⊢
    omega

theorem le_maxOf (x : Int) (xs : List Int) : ∀ v ∈ x :: xs, v ≤ maxOf x xs := by
  induction xs generalizing x with
  | nil => intro v hv; simp at hv; subst hv; simp [maxOf]
  | cons y ys ih =>
    intro v hv
    have h0 := le_maxOf_init (max x y) ys
    have h1 := ih (max x y)
    simp only [maxOf, List.foldl_cons] at h0 h1 ⊢
    rcases List.mem_cons.1 hv with rfl | hv
    · omega
    · rcases List.mem_cons.1 hv with rfl | hv
      · omega
      · exact h1 v (List.mem_cons_of_mem _ hv)

/-! ### bucket arithmetic -/

/-- `v` lies in bucket number `j` (counted from `start`) iff `j = ⌊(v - start) / I⌋`. -/
theorem inBucket_iff (I start v : Int) (hI : 0 < I) (j : Int) :
    Spec.InBucket I (start + j * I) v ↔ (v - start) / I = j := by
  unfold Spec.InBucket
  constructor
  · rintro ⟨h1, h2⟩
    have := (Int.ediv_emod_unique (a := v - start) (r := v - start - I * j) (q := j) hI).2
      ⟨by omega, by rw [Int.mul_comm I j]; omega, by rw [Int.mul_comm I j]; omega⟩
    exact this.1
  · intro h
    have h1 := Int.emod_nonneg (v - start) (Int.ne_of_gt hI)
    have h2 := Int.emod_lt_of_pos (v - start) hI
    have h3 := Int.mul_ediv_add_emod (v - start) I
    rw [h, Int.mul_comm I j] at h3
    constructor <;> omega

theorem inBucket_decide (I b v : Int) : inBucket I b v = decide (Spec.InBucket I b v) := by
  simp only [inBucket, Spec.InBucket]
  by_cases h1 : b ≤ v <;> by_cases h2 : v < b + I <;> simp [h1, h2]

theorem start_le (I mn : Int) (hI : 0 < I) : mn / I * I ≤ mn :=
  Int.ediv_mul_le mn (Int.ne_of_gt hI)

/-- bucket number of a value between `start` and `mx` is below the number of rounds. -/
theorem idx_lt (I start mx v : Int) (hI : 0 < I) (h1 : start ≤ v) (h2 : v ≤ mx) :
    0 ≤ (v - start) / I ∧ ((v - start) / I).toNat < histRounds I start mx := by
  have ha : 0 ≤ (v - start) / I := Int.ediv_nonneg (by omega) (Int.le_of_lt hI)
  have hb : (v - start) / I ≤ (mx - start) / I := Int.ediv_le_ediv hI (by omega)
  refine ⟨ha, ?_⟩
  unfold histRounds
  omega

/-! ### sums over `List.range` -/

theorem sum_map_zero {α : Type} (l : List α) : (l.map fun _ => 0).sum = 0 := by
  induction l with
  | nil => rfl
  | cons a l ih => simp [ih]

theorem sum_map_add {α : Type} (l : List α) (f g : α → Nat) :
    (l.map fun a => f a + g a).sum = (l.map f).sum + (l.map g).sum := by
  induction l with
  | nil => rfl
  | cons a l ih => simp [ih]; omega

theorem sum_indicator (n j0 : Nat) :
    ((List.range n).map fun j => if j = j0 then 1 else 0).sum = if j0 < n then 1 else 0 := by
  induction n with
  | zero => simp
  | succ n ih =>
    rw [List.range_succ, List.map_append, List.sum_append, ih]
    by_cases h1 : j0 < n
    · have : ¬ n = j0 := by omega
      simp [h1, this]; omega
    · by_cases h2 : n = j0
      · subst h2; simp
      · have : ¬ j0 < n + 1 := by omega
        simp [h1, h2, this]

/-- every value between `start` and `mx` is counted by exactly one round. -/
theorem sum_counts (I start mx : Int) (hI : 0 < I) (l : List Int)
    (hl : ∀ v ∈ l, start ≤ v ∧ v ≤ mx) :
    ((List.range (histRounds I start mx)).map fun (j : Nat) =>
        l.countP (inBucket I (start + (j : Int) * I))).sum = l.length := by
  induction l with
  | nil => simp [sum_map_zero]
  | cons v l ih =>
    have hv := hl v (List.mem_cons_self ..)
    have ih' := ih (fun w hw => hl w (List.mem_cons_of_mem _ hw))
    simp only [List.countP_cons, List.length_cons]
    rw [sum_map_add, ih']
    obtain ⟨h0, hlt⟩ := idx_lt I start mx v hI hv.1 hv.2
    have hind : ∀ j : Nat, (if inBucket I (start + (j : Int) * I) v = true then 1 else 0)
        = if j = ((v - start) / I).toNat then 1 else 0 := by
      intro j
      rw [inBucket_decide]
      have := inBucket_iff I start v hI (j : Int)
      by_cases hj : j = ((v - start) / I).toNat
      · have he : (v - start) / I = (j : Int) := by omega
        have hb : Spec.InBucket I (start + (j : Int) * I) v := this.2 he
        rw [if_pos hj, if_pos (by simpa using hb)]
      · have hne : ¬ (v - start) / I = (j : Int) := by omega
        have hb : ¬ Spec.InBucket I (start + (j : Int) * I) v := fun hb => hne (this.1 hb)
        rw [if_neg hj, if_neg (by simpa using hb)]
    rw [show (fun (j : Nat) => if inBucket I (start + (j : Int) * I) v = true then 1 else 0)
          = (fun j => if j = ((v - start) / I).toNat then 1 else 0) from funext hind]
    rw [sum_indicator]
    simp [hlt]

end Grip.Props.C19.Lemmas
