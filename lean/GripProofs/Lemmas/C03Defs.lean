/-
  Lemmas.C03Defs — the refinement relation between the kvgraph MODEL state and the abstract graph,
  the side conditions of the partial theorems, and the update laws of the abstract graph.
-/
import GripProofs.Lemmas.C03KV

namespace Grip.Props.C03
open Grip Grip.C03 Grip.C03.Spec Grip.Props.C03.Lemmas

/-- The data of edge `eid` of graph `g` if it is live with exactly these endpoints and label. -/
def edgeAt (a : AG) (g eid s d l : String) : Option JV :=
  (a.getE g eid).bind fun r => if r.frm = s ∧ r.to = d ∧ r.label = l then some r.data else none

/-- deleteGraphIndex recognises the two label fields of graph `g` by the first dot-component of the
    field name.  True for every name accepted by `validName` (which has no dot):
    `goodName_of_valid`. -/
def GoodName (g : String) : Prop :=
  fieldGraph (labelField g "v") = g ∧ fieldGraph (labelField g "e") = g

instance (g : String) : Decidable (GoodName g) := by unfold GoodName; infer_instance

theorem takeWhile_noDot (xs ys : List Char) (h : ∀ c ∈ xs, c ≠ '.') :
    (xs ++ '.' :: ys).takeWhile (· != '.') = xs := by
  induction xs with
  | nil => simp
  | cons x xs ih =>
    have hx : x ≠ '.' := h x (by simp)
    simp [hx]
    exact ih (fun c hc => h c (by simp [hc]))

/-- A name the write API accepts contains no '.'. -/
theorem validName_noDot {g : String} (hv : validName g = true) : ∀ c ∈ g.toList, c ≠ '.' := by
  intro c hc hdot
  subst hdot
  simp only [validName, Bool.and_eq_true, Bool.not_eq_true', List.any_eq_false] at hv
  exact hv.1.1 '.' hc (by decide)

theorem fieldGraph_labelField {g : String} (kind : String) (hv : validName g = true) :
    fieldGraph (labelField g kind) = g := by
  have e : (labelField g kind).toList = g.toList ++ '.' :: (kind.toList ++ ".label".toList) := by
    simp [labelField, String.toList_append]
  unfold fieldGraph
  rw [e, takeWhile_noDot _ _ (validName_noDot hv), String.ofList_toList]

/-- The string fact the refinement needs, for every valid graph name. -/
theorem goodName_of_valid {g : String} (hv : validName g = true) : GoodName g :=
  ⟨fieldGraph_labelField "v" hv, fieldGraph_labelField "e" hv⟩

/-- The part of the refinement relation that talks about keys (everything except timestamps). -/
structure Inv (m : KV) (fields : List String) (a : AG) : Prop where
  /-- no key occurs twice in the store -/
  nodup : KeysNodup m
  vnodup : KeysNodup a.verts
  enodup : KeysNodup a.edges
  /-- graph keys ↔ graphs -/
  graph : ∀ g, (m.get (.graph g)).isSome ↔ g ∈ a.graphs
  /-- vertex keys ↔ vertices, with label and data -/
  vertex : ∀ g id, m.get (.vertex g id) = (a.getV g id).map fun r => Val.vert r.label r.data
  /-- edge records ↔ edges: at most one record per edge id, key components = from/to/label -/
  edge : ∀ g eid s d l, m.get (.edge g eid s d l) = (edgeAt a g eid s d l).map Val.edge
  /-- adjacency keys ↔ edge records, both directions -/
  src : ∀ g s d eid l, m.get (.src g s d eid l) = (edgeAt a g eid s d l).map fun _ => Val.unit
  dst : ∀ g d s eid l, m.get (.dst g d s eid l) = (edgeAt a g eid s d l).map fun _ => Val.unit
  gname : ∀ g, g ∈ a.graphs → GoodName g
  vgraph : ∀ g id r, a.getV g id = some r → g ∈ a.graphs
  egraph : ∀ g id r, a.getE g id = some r → g ∈ a.graphs
  /-- both label fields of an existing graph are registered (memory and field key) -/
  fieldsV : ∀ g, g ∈ a.graphs →
    labelField g "v" ∈ fields ∧ (m.get (.field (labelField g "v"))).isSome
  fieldsE : ∀ g, g ∈ a.graphs →
    labelField g "e" ∈ fields ∧ (m.get (.field (labelField g "e"))).isSome
  /-- index completeness (stale extra entries are allowed; the reads filter them) -/
  vindex : ∀ g id r, a.getV g id = some r →
    (m.get (.entry (labelField g "v") r.label id)).isSome ∧ (m.get (.term (labelField g "v") r.label)).isSome
  eindex : ∀ g id r, a.getE g id = some r →
    (m.get (.entry (labelField g "e") r.label id)).isSome ∧ (m.get (.term (labelField g "e") r.label)).isSome
  /-- every persisted index field belongs to a listed graph (DeleteGraph removes a graph's fields) -/
  fieldOwner : ∀ f, (m.get (.field f)).isSome → fieldGraph f ∈ a.graphs

/-- The refinement relation: MODEL state `s` represents abstract graph store `a`. -/
structure Refines (s : KState) (a : AG) : Prop where
  inv : Inv s.kv s.fields a
  stamps : s.stamps = a.stamps
  clock : s.clock = a.clock
  stampLe : ∀ p, p ∈ a.stamps → p.2 ≤ a.clock

/-! ### side conditions -/

/-- Element `x` does not re-add a live edge id with different endpoints or label. -/
def okElem (a : AG) (g : String) : ElemIn → Bool
  | .v _ => true
  | .e x => !validEdge x ||
      (match a.getE g x.gid with
       | none => true
       | some r => decide (r.frm = x.frm ∧ r.to = x.to ∧ r.label = x.label))

/-- No valid edge of the batch has the id of a live edge, or of an earlier valid edge of the same
    batch, with different (from, to, label).  The abstract state is threaded through the batch. -/
def noReaddAll (g : String) : AG → List ElemIn → Bool
  | _, [] => true
  | a, x :: xs => okElem a g x && noReaddAll g (putElem a g x).1 xs

/-- Boolean form of `GoodName`. -/
def goodName (g : String) : Bool :=
  fieldGraph (labelField g "v") == g && fieldGraph (labelField g "e") == g

theorem goodName_iff (g : String) : goodName g = true ↔ GoodName g := by
  simp [goodName, GoodName]

/-- Boolean side condition (see `NoReadd`). -/
def noReadd (a : AG) : Op → Bool
  | .addGraph _ => true
  | .addE g es => !a.graphs.contains g || noReaddAll g a (es.map .e)
  | .bulk g xs => !a.graphs.contains g || noReaddAll g a xs
  | _ => true

/-- Side condition carving out the open finding C03-edge-readd (addE / bulk on an existing graph:
    `noReaddAll`); every other operation satisfies it.  Decidable: it is a Boolean computation. -/
def NoReadd (a : AG) (op : Op) : Prop := noReadd a op = true

instance (a : AG) (op : Op) : Decidable (NoReadd a op) := by unfold NoReadd; infer_instance

/-- The side condition along a history, threading the abstract state (Boolean form). -/
def noReaddHist : AG → List Op → Bool
  | _, [] => true
  | a, o :: os => noReadd a o && noReaddHist (specStep a o).1 os

/-- The side condition along a history. -/
def NoReaddHist (a : AG) (ops : List Op) : Prop := noReaddHist a ops = true

instance (a : AG) (ops : List Op) : Decidable (NoReaddHist a ops) := by unfold NoReaddHist; infer_instance

theorem noReaddHist_cons (a : AG) (o : Op) (os : List Op) :
    NoReaddHist a (o :: os) ↔ NoReadd a o ∧ NoReaddHist (specStep a o).1 os := by
  simp [NoReaddHist, NoReadd, noReaddHist]

theorem noReadd_addGraph {a : AG} {g : String} (_h : NoReadd a (.addGraph g)) :
    validName g = true → GoodName g := goodName_of_valid

theorem noReadd_addE {a : AG} {g : String} {es : List EdgeIn} (h : NoReadd a (.addE g es)) :
    a.graphs.contains g = true → noReaddAll g a (es.map .e) = true := by
  intro hv
  simpa only [NoReadd, noReadd, hv, Bool.not_true, Bool.false_or] using h

theorem noReadd_bulk {a : AG} {g : String} {xs : List ElemIn} (h : NoReadd a (.bulk g xs)) :
    a.graphs.contains g = true → noReaddAll g a xs = true := by
  intro hv
  simpa only [NoReadd, noReadd, hv, Bool.not_true, Bool.false_or] using h

namespace Lemmas

/-! ### update laws of the abstract graph -/

theorem getV_putV (a : AG) (g id : String) (r : VRec) (g' id' : String) :
    (a.putV g id r).getV g' id' = if (g', id') = (g, id) then some r else a.getV g' id' := by
  show alGet (((g, id), r) :: a.verts.filter (fun p => ¬ p.1 = (g, id))) (g', id') = _
  rw [alGet_cons]
  have := alGet_filter_key a.verts (fun k => !decide (k = (g, id))) (g', id')
  by_cases h : (g', id') = (g, id)
  · simp [h]
  · simp only [h, ↓reduceIte]
    simp only [h, decide_false, Bool.not_false, ↓reduceIte] at this
    rw [AG.getV_eq, ← this]; congr 2; funext p; simp

theorem getE_putE (a : AG) (g id : String) (r : ERec) (g' id' : String) :
    (a.putE g id r).getE g' id' = if (g', id') = (g, id) then some r else a.getE g' id' := by
  show alGet (((g, id), r) :: a.edges.filter (fun p => ¬ p.1 = (g, id))) (g', id') = _
  rw [alGet_cons]
  have := alGet_filter_key a.edges (fun k => !decide (k = (g, id))) (g', id')
  by_cases h : (g', id') = (g, id)
  · simp [h]
  · simp only [h, ↓reduceIte]
    simp only [h, decide_false, Bool.not_false, ↓reduceIte] at this
    rw [AG.getE_eq, ← this]; congr 2; funext p; simp

theorem nodup_putV {a : AG} (h : KeysNodup a.verts) (g id : String) (r : VRec) :
    KeysNodup (a.putV g id r).verts := keysNodup_cons_filter a.verts h (g, id) r

theorem nodup_putE {a : AG} (h : KeysNodup a.edges) (g id : String) (r : ERec) :
    KeysNodup (a.putE g id r).edges := keysNodup_cons_filter a.edges h (g, id) r

theorem edgeAt_putE (a : AG) (g id : String) (r : ERec) (g' eid s d l : String) :
    edgeAt (a.putE g id r) g' eid s d l =
      if (g', eid) = (g, id) then (if r.frm = s ∧ r.to = d ∧ r.label = l then some r.data else none)
      else edgeAt a g' eid s d l := by
  unfold edgeAt
  rw [getE_putE]
  by_cases h : (g', eid) = (g, id) <;> simp [h]

/-- `Inv` only looks at graphs, vertices and edges of the abstract state. -/
theorem inv_congr {m : KV} {f : List String} {a b : AG} (h : Inv m f a)
    (hg : b.graphs = a.graphs) (hv : b.verts = a.verts) (he : b.edges = a.edges) : Inv m f b := by
  have e1 : ∀ g id, b.getV g id = a.getV g id := by intro g id; simp [AG.getV, hv]
  have e2 : ∀ g id, b.getE g id = a.getE g id := by intro g id; simp [AG.getE, he]
  have e3 : ∀ g eid s d l, edgeAt b g eid s d l = edgeAt a g eid s d l := by
    intro g eid s d l; simp [edgeAt, e2]
  constructor
  · exact h.nodup
  · rw [hv]; exact h.vnodup
  · rw [he]; exact h.enodup
  · intro g; rw [hg]; exact h.graph g
  · intro g id; rw [e1]; exact h.vertex g id
  · intro g eid s d l; rw [e3]; exact h.edge g eid s d l
  · intro g s d eid l; rw [e3]; exact h.src g s d eid l
  · intro g d s eid l; rw [e3]; exact h.dst g d s eid l
  · intro g; rw [hg]; exact h.gname g
  · intro g id r; rw [e1, hg]; exact h.vgraph g id r
  · intro g id r; rw [e2, hg]; exact h.egraph g id r
  · intro g; rw [hg]; exact h.fieldsV g
  · intro g; rw [hg]; exact h.fieldsE g
  · intro g id r; rw [e1]; exact h.vindex g id r
  · intro g id r; rw [e2]; exact h.eindex g id r
  · intro f hf; rw [hg]; exact h.fieldOwner f hf

theorem inv_touch {m : KV} {f : List String} {a : AG} (h : Inv m f a) (g : String) :
    Inv m f (a.touch g) := inv_congr h rfl rfl rfl

/-- `set` never removes a key. -/
theorem isSome_get_set {m : KV} {k' : SKey} (h : (m.get k').isSome) (k : SKey) (v : Val) :
    ((m.set k v).get k').isSome := by
  rw [KV.get_set]; split <;> simp [h]

end Lemmas
end Grip.Props.C03
