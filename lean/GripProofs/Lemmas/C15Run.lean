/-
  Lemmas for C15, traversals: the step semantics over a read interface (i) is C01's when the
  interface is an abstract graph's, (ii) respects multiset-agreement of two interfaces on
  order-free statements (the reduction lemma), (iii) the optimizer's plan equals the literal plan.
-/
import Grip.Model.C15
import Grip.Spec.C15
import GripProofs.Lemmas.C15
import GripProofs.Lemmas.C15Edges
import GripProofs.Props.C01

namespace Grip.Props.C15.Lemmas
open Grip Grip.C15 Grip.Spec.C15

/-! ### (i) an abstract graph's interface gives C01's semantics -/

theorem evalStepR_ofGraph (numOf : String → Option Int) (g : AGraph) (from_ : DataType) (s : Stmt)
    (ts : List Traveler) :
    evalStepR numOf (Reads.ofGraph g) from_ s ts = evalStepT numOf g from_ s ts := by
  cases s <;> rfl

theorem evalFromR_ofGraph (numOf : String → Option Int) (g : AGraph) :
    ∀ (stmts : List Stmt) (st : TState) (ts : List Traveler),
      evalFromR numOf (Reads.ofGraph g) st ts stmts = evalFrom numOf g st ts stmts
  | [], _, _ => rfl
  | s :: rest, st, ts => by
    simp only [evalFromR, evalFrom, evalStepR_ofGraph]
    cases typeStep st s with
    | error e => rfl
    | ok st' => exact evalFromR_ofGraph numOf g rest st' _

theorem runPlainR_ofGraph (numOf : String → Option Int) (g : AGraph) (stmts : List Stmt) :
    runPlainR numOf (Reads.ofGraph g) stmts = run numOf g stmts := by
  unfold runPlainR run
  cases typeCheck stmts <;> simp [evalFromR_ofGraph]

/-! ### (ii) the reduction lemma -/

theorem perm_flatMap_left {α β} (l : List α) (f g : α → List β) (h : ∀ a ∈ l, (f a).Perm (g a)) :
    (l.flatMap f).Perm (l.flatMap g) := by
  induction l with
  | nil => simp
  | cons a l ih =>
    simp only [List.flatMap_cons]
    exact (h a List.mem_cons_self).append (ih (fun x hx => h x (List.mem_cons_of_mem _ hx)))

theorem perm_flatMap {α β} {l₁ l₂ : List α} (f g : α → List β) (hl : l₁.Perm l₂)
    (h : ∀ a, (f a).Perm (g a)) : (l₁.flatMap f).Perm (l₂.flatMap g) :=
  (hl.flatMap_right f).trans (perm_flatMap_left l₂ f g (fun a _ => h a))

/-- Two read interfaces that agree as multisets (id lookups: exactly). -/
structure ReadsPerm (a b : Reads) : Prop where
  vertexList : a.vertexList.Perm b.vertexList
  edgeList : a.edgeList.Perm b.edgeList
  getVertex : ∀ id, a.getVertex id = b.getVertex id
  vertexChan : ∀ id, (a.vertexChan id).Perm (b.vertexChan id)
  outEdges : ∀ id ls, (a.outEdges id ls).Perm (b.outEdges id ls)
  inEdges : ∀ id ls, (a.inEdges id ls).Perm (b.inEdges id ls)
  outVerts : ∀ id ls, (a.outVerts id ls).Perm (b.outVerts id ls)
  inVerts : ∀ id ls, (a.inVerts id ls).Perm (b.inVerts id ls)

theorem rStepOut_perm {a b : Reads} (h : ReadsPerm a b) (from_ : DataType) (ls : List String)
    (t : Traveler) : (rStepOut a from_ ls t).Perm (rStepOut b from_ ls t) := by
  unfold rStepOut
  split
  · exact (h.vertexChan _).map _
  · exact (h.outVerts _ _).map _

theorem rStepIn_perm {a b : Reads} (h : ReadsPerm a b) (from_ : DataType) (ls : List String)
    (t : Traveler) : (rStepIn a from_ ls t).Perm (rStepIn b from_ ls t) := by
  unfold rStepIn
  split
  · exact (h.vertexChan _).map _
  · exact (h.inVerts _ _).map _

theorem rStepV_perm {a b : Reads} (h : ReadsPerm a b) (ids : List String) (t : Traveler) :
    (rStepV a ids t).Perm (rStepV b ids t) := by
  unfold rStepV
  have hg : a.getVertex = b.getVertex := funext h.getVertex
  split
  · exact h.vertexList.map _
  · rw [hg]

/-- One statement: agreeing interfaces and agreeing inputs give agreeing outputs. -/
theorem evalStepR_perm (numOf : String → Option Int) {a b : Reads} (h : ReadsPerm a b)
    (from_ : DataType) (s : Stmt) (hs : plainStmt s = true) (ts₁ ts₂ : List Traveler)
    (hp : ts₁.Perm ts₂) :
    (evalStepR numOf a from_ s ts₁).Perm (evalStepR numOf b from_ s ts₂) := by
  cases s
  case V ids => exact perm_flatMap _ _ hp (rStepV_perm h ids)
  case E ids =>
    cases ids with
    | nil =>
      refine perm_flatMap _ _ hp (fun t => ?_)
      simp only [rStepE, List.isEmpty_nil, if_true]
      exact h.edgeList.map _
    | cons i is => simp [plainStmt, orderFree, noEdgeLookup] at hs
  case out ls => exact perm_flatMap _ _ hp (rStepOut_perm h from_ ls)
  case in_ ls => exact perm_flatMap _ _ hp (rStepIn_perm h from_ ls)
  case outE ls => exact perm_flatMap _ _ hp (fun t => (h.outEdges _ _).map _)
  case inE ls => exact perm_flatMap _ _ hp (fun t => (h.inEdges _ _).map _)
  case both ls =>
    exact (perm_flatMap _ _ hp (rStepIn_perm h from_ ls)).append (perm_flatMap _ _ hp (rStepOut_perm h from_ ls))
  case bothE ls =>
    exact (perm_flatMap _ _ hp (fun t => (h.inEdges _ _).map _)).append
      (perm_flatMap _ _ hp (fun t => (h.outEdges _ _).map _))
  case count =>
    simp only [evalStepR, evalStepT, hp.length_eq]
    exact List.Perm.refl _
  case limit => simp [plainStmt, orderFree, noEdgeLookup] at hs
  case skip => simp [plainStmt, orderFree, noEdgeLookup] at hs
  case range => simp [plainStmt, orderFree, noEdgeLookup] at hs
  case distinct => simp [plainStmt, orderFree, noEdgeLookup] at hs
  all_goals
    simp only [evalStepR]
    apply Grip.Props.C01.step_perm
    · rfl
    · exact hp

theorem evalFromR_perm (numOf : String → Option Int) {a b : Reads} (h : ReadsPerm a b) :
    ∀ (stmts : List Stmt), (∀ s ∈ stmts, plainStmt s = true) → ∀ (st : TState) (ts₁ ts₂ : List Traveler),
      ts₁.Perm ts₂ → (evalFromR numOf a st ts₁ stmts).Perm (evalFromR numOf b st ts₂ stmts)
  | [], _, _, _, _, hp => hp
  | s :: rest, hs, st, ts₁, ts₂, hp => by
    simp only [evalFromR]
    cases typeStep st s with
    | error e => exact List.Perm.refl _
    | ok st' =>
      exact evalFromR_perm numOf h rest (fun x hx => hs x (List.mem_cons_of_mem _ hx)) st' _ _
        (evalStepR_perm numOf h st.last s (hs s List.mem_cons_self) ts₁ ts₂ hp)

theorem runPlainR_perm (numOf : String → Option Int) {a b : Reads} (h : ReadsPerm a b)
    (stmts : List Stmt) (hs : ∀ s ∈ stmts, plainStmt s = true) :
    SameRows (runPlainR numOf a stmts) (runPlainR numOf b stmts) := by
  unfold runPlainR
  cases typeCheck stmts with
  | error e => simp [SameRows]
  | ok st =>
    simp only
    split
    · simp [SameRows]
    · simp only [SameRows]
      exact (evalFromR_perm numOf h stmts hs {} _ _ (List.Perm.refl _)).map _

/-! ### (iii) the optimizer -/

theorem keepHasLabel_addCurrent_vertex (ls : List String) (v : Elem) :
    keepHasLabel ls (Traveler.seed.addCurrent (some (vertexElem v))) = ls.contains v.label := rfl

theorem keepHasLabel_addCurrent_edge (ls : List String) (e : Elem) :
    keepHasLabel ls (Traveler.seed.addCurrent (some (edgeElem e))) = ls.contains e.label := rfl

theorem tabularOptimize_cases (stmts : List Stmt) :
    (∃ l ls rest, stmts = .V [] :: .hasLabel (l :: ls) :: rest ∧
        tabularOptimize stmts = some (.vertexLabels (l :: ls), rest)) ∨
    (∃ l ls rest, stmts = .E [] :: .hasLabel (l :: ls) :: rest ∧
        tabularOptimize stmts = some (.edgeLabels (l :: ls), rest)) ∨
    tabularOptimize stmts = none := by
  unfold tabularOptimize
  split
  · exact Or.inl ⟨_, _, _, rfl, rfl⟩
  · exact Or.inr (Or.inl ⟨_, _, _, rfl, rfl⟩)
  · exact Or.inr (Or.inr rfl)

theorem optimizer_eq (numOf : String → Option Int) (rd : Reads) (scanV scanE : List String → List Elem)
    (hV : ∀ ls, scanV ls = rd.vertexList.filter (fun v => ls.contains v.label))
    (hE : ∀ ls, scanE ls = rd.edgeList.filter (fun e => ls.contains e.label))
    (stmts : List Stmt) : runR numOf rd scanV scanE stmts = runPlainR numOf rd stmts := by
  unfold runR
  cases hv : validate stmts with
  | error e => simp [runPlainR, typeCheck, hv]
  | ok u =>
    simp only
    rcases tabularOptimize_cases stmts with ⟨l, ls, rest, rfl, h⟩ | ⟨l, ls, rest, rfl, h⟩ | h
    · rw [h]
      have hs : (scanV (l :: ls)).map (fun v => Traveler.seed.addCurrent (some (vertexElem v))) =
          List.filter (keepHasLabel (l :: ls)) (rStepV rd [] Traveler.seed) := by
        rw [hV]
        simp only [rStepV, List.isEmpty_nil, if_true, List.filter_map]
        rfl
      simp only [runPlainR, typeCheck, validate, typeFold, typeStep, needElement, Scan.type]
      simp only [evalFromR, typeStep, needElement, evalStepR, evalStepT, scanStart, hs]
      simp
    · rw [h]
      have hs : (scanE (l :: ls)).map (fun e => Traveler.seed.addCurrent (some (edgeElem e))) =
          List.filter (keepHasLabel (l :: ls)) (rStepE rd [] Traveler.seed) := by
        rw [hE]
        simp only [rStepE, List.isEmpty_nil, if_true, List.filter_map]
        rfl
      simp only [runPlainR, typeCheck, validate, typeFold, typeStep, needElement, Scan.type]
      simp only [evalFromR, typeStep, needElement, evalStepR, evalStepT, scanStart, hs]
      simp
    · rw [h]

theorem vertexLabelScan_eq (t : Tables) (m : Mapping) (ls : List String) :
    tgVertexLabelScan t m ls = (tgVertexList t m).filter (fun v => ls.contains v.label) := by
  simp only [tgVertexLabelScan, tgVertexList, List.filter_flatMap]
  apply flatMap_congr'
  intro v _
  have hc : ((fun x : Elem => ls.contains x.label) ∘ mkVertex v) = fun _ => ls.contains v.label := rfl
  rw [List.filter_map, hc]
  cases ls.contains v.label <;> simp [List.filter_eq_self.2]

theorem listEdge_label (es : ESource) (r : TRow) (e : Elem) (h : listEdge es r = some e) :
    e.label = es.label := by
  unfold listEdge at h
  split at h
  · split at h
    · split at h
      · split at h
        · cases h; rfl
        · cases h
      · cases h
    · cases h
  · cases h

theorem edgeLabelScan_eq (t : Tables) (m : Mapping) (ls : List String) :
    tgEdgeLabelScan t m ls = (tgEdgeList t m).filter (fun e => ls.contains e.label) := by
  simp only [tgEdgeLabelScan, tgEdgeList, List.filter_flatMap]
  apply flatMap_congr'
  intro p _
  apply flatMap_congr'
  intro es _
  rw [List.filter_filterMap]
  cases h : ls.contains es.label
  · simp only [Bool.false_eq_true, if_false]
    symm
    apply List.filterMap_eq_nil_iff.2
    intro r _
    cases hr : listEdge es r with
    | none => rfl
    | some e =>
      have h' : ¬ es.label ∈ ls := by simpa using h
      simp [Option.filter, listEdge_label es r e hr, h']
  · simp only [if_true]
    congr 1
    funext r
    cases hr : listEdge es r with
    | none => rfl
    | some e =>
      have h' : es.label ∈ ls := by simpa using h
      simp [Option.filter, listEdge_label es r e hr, h']

end Grip.Props.C15.Lemmas
