/-
  Lemmas for C17 (ii): the abstract graph `AG` of the SPEC (Grip.Spec.C03), restricted to one
  graph `g`, simulates the functional store `FS String` of C17Serial.

  * `absG cv ce a g`   — the abstraction: vertex id ↦ coded record, edge id ↦ (from, to, coded
                         record).  `FS` carries `Nat` payloads; `cv`/`ce` are ARBITRARY codings of
                         the vertex/edge records, and every lemma holds for all of them, so nothing
                         is lost (`absG_eq_iff`: equal abstractions under all codings = equal
                         lookups).
  * `trOp cv ce g o`   — the `FOp`s one C03 operation performs on graph `g`: a batch is the list of
                         the puts of its VALID elements, in order; `delV`/`delE` are one edit; an
                         operation on another graph, and `addGraph`, perform none.
  * `sim_step`/`sim_run` — `specStep`/`specRun` commute with the translation, for every operation
                         but `delGraph g`, on a state whose edge list has no duplicate key and in
                         which `g` exists.
  * `covers`/`indep_of_opIndep` — the footprint independence of the SPEC (`opIndep`) gives `indep`
                         of the translated edits.
-/
import Grip.Spec.C17Indep
import GripProofs.Lemmas.C17N
import GripProofs.Lemmas.C03Obs

namespace Grip.Props.C17.Lemmas
open Grip Grip.C03 Grip.C03.Spec Grip.C17.Spec Grip.Props.C03.Lemmas

/-! ### abstraction and translation -/

def absG (cv : VRec → Nat) (ce : ERec → Nat) (a : AG) (g : String) : FS String where
  V := fun id => (a.getV g id).map cv
  E := fun id => (a.getE g id).map fun r => (r.frm, r.to, ce r)

def trElem (cv : VRec → Nat) (ce : ERec → Nat) : ElemIn → List (FOp String)
  | .v x => if validVertex x then [.putV x.gid (cv ⟨x.label, x.data⟩)] else []
  | .e x => if validEdge x then [.putE x.gid x.frm x.to (ce ⟨x.frm, x.to, x.label, x.data⟩)] else []

def trOp (cv : VRec → Nat) (ce : ERec → Nat) (g : String) (o : Op) : List (FOp String) :=
  (elems g o).flatMap (trElem cv ce) ++ (vDels g o).map .delV ++ (eDels g o).map .delE

/-- well-formed abstract graph: no duplicate keys (an invariant of every reachable state) -/
def WF (a : AG) : Prop := KeysNodup a.verts ∧ KeysNodup a.edges

/-! ### the invariant -/

theorem wf_empty : WF {} := ⟨keysNodup_nil, keysNodup_nil⟩

theorem wf_putElem {a : AG} (h : WF a) (g : String) (x : ElemIn) : WF (putElem a g x).1 := by
  cases x with
  | v x =>
    simp only [putElem]; split
    · exact ⟨nodup_putV h.1 _ _ _, h.2⟩
    · exact h
  | e x =>
    simp only [putElem]; split
    · exact ⟨h.1, nodup_putE h.2 _ _ _⟩
    · exact h

theorem wf_putAll (g : String) : ∀ (xs : List ElemIn) {a : AG}, WF a → WF (putAll g a xs).1
  | [], _, h => h
  | x :: xs, a, h => by
    simp only [putAll]
    exact wf_putAll g xs (wf_putElem h g x)

theorem graphs_putElem (a : AG) (g : String) (x : ElemIn) : (putElem a g x).1.graphs = a.graphs := by
  cases x <;> simp only [putElem] <;> split <;> rfl

theorem graphs_putAll (g : String) : ∀ (xs : List ElemIn) (a : AG), (putAll g a xs).1.graphs = a.graphs
  | [], _ => rfl
  | x :: xs, a => by
    simp only [putAll]
    rw [graphs_putAll g xs, graphs_putElem]

theorem wf_touch {a : AG} (h : WF a) (g : String) : WF (a.touch g) := h

theorem wf_addElems {a : AG} (h : WF a) (g : String) (xs : List ElemIn) : WF (addElems a g xs).1 := by
  unfold Spec.addElems
  split
  · exact h
  · simp only
    split
    · exact wf_touch (wf_putAll g xs h) g
    · exact wf_putAll g xs h

theorem wf_specStep {a : AG} (h : WF a) (o : Op) : WF (specStep a o).1 := by
  cases o with
  | addGraph g => simp only [specStep]; split <;> exact h
  | delGraph g => exact ⟨h.1.filter _, h.2.filter _⟩
  | addV g vs => exact wf_addElems h g _
  | addE g es => exact wf_addElems h g _
  | bulk g xs => exact wf_addElems h g _
  | delV g id =>
    simp only [specStep]; split
    · exact h
    · exact ⟨h.1.filter _, h.2.filter _⟩
  | delE g id =>
    simp only [specStep]; split
    · exact h
    · split
      · exact h
      · exact ⟨h.1, h.2.filter _⟩

theorem wf_specRun (ops : List Op) {a : AG} (h : WF a) : WF (specRun a ops) := by
  induction ops generalizing a with
  | nil => exact h
  | cons o ops ih => exact ih (wf_specStep h o)

/-! ### lookups after each update of the abstract graph -/

theorem getV_filter_key (a : AG) (k : String × String) (g id : String) :
    alGet (a.verts.filter (fun p => ¬ p.1 = k)) (g, id) = if (g, id) = k then none else a.getV g id := by
  have := alGet_filter_key a.verts (fun x => !decide (x = k)) (g, id)
  rw [AG.getV_eq]
  by_cases h : (g, id) = k
  · simp only [h, decide_true, Bool.not_true, Bool.false_eq_true, ↓reduceIte] at this ⊢
    rw [← this]; congr 2; funext p; simp
  · simp only [h, decide_false, Bool.not_false, ↓reduceIte] at this ⊢
    rw [← this]; congr 2; funext p; simp

theorem getE_filter_key (a : AG) (k : String × String) (g id : String) :
    alGet (a.edges.filter (fun p => ¬ p.1 = k)) (g, id) = if (g, id) = k then none else a.getE g id := by
  have := alGet_filter_key a.edges (fun x => !decide (x = k)) (g, id)
  rw [AG.getE_eq]
  by_cases h : (g, id) = k
  · simp only [h, decide_true, Bool.not_true, Bool.false_eq_true, ↓reduceIte] at this ⊢
    rw [← this]; congr 2; funext p; simp
  · simp only [h, decide_false, Bool.not_false, ↓reduceIte] at this ⊢
    rw [← this]; congr 2; funext p; simp

/-- filtering on the graph component only -/
theorem getV_filter_graph (a : AG) (g' g id : String) (h : g ≠ g') :
    alGet (a.verts.filter (fun p => p.1.1 ≠ g')) (g, id) = a.getV g id := by
  have := alGet_filter_key a.verts (fun x => !decide (x.1 = g')) (g, id)
  simp only [h, decide_false, Bool.not_false, ↓reduceIte] at this
  rw [AG.getV_eq, ← this]; congr 2; funext p; simp

theorem getE_filter_graph (a : AG) (g' g id : String) (h : g ≠ g') :
    alGet (a.edges.filter (fun p => p.1.1 ≠ g')) (g, id) = a.getE g id := by
  have := alGet_filter_key a.edges (fun x => !decide (x.1 = g')) (g, id)
  simp only [h, decide_false, Bool.not_false, ↓reduceIte] at this
  rw [AG.getE_eq, ← this]; congr 2; funext p; simp

/-! ### one element, one batch -/

variable (cv : VRec → Nat) (ce : ERec → Nat)

theorem absG_touch (a : AG) (g' g : String) : absG cv ce (a.touch g') g = absG cv ce a g := rfl

theorem absG_putElem (a : AG) (g : String) (x : ElemIn) :
    absG cv ce (putElem a g x).1 g = FS.run (absG cv ce a g) (trElem cv ce x) := by
  cases x with
  | v x =>
    simp only [putElem, trElem]
    split
    · apply FS.ext'
      · intro k
        show ((a.putV g x.gid _).getV g k).map cv = if k = x.gid then some _ else (a.getV g k).map cv
        rw [getV_putV]
        by_cases hk : k = x.gid <;> simp [hk]
      · intro k; rfl
    · rfl
  | e x =>
    simp only [putElem, trElem]
    split
    · apply FS.ext'
      · intro k; rfl
      · intro k
        show ((a.putE g x.gid _).getE g k).map _ = if k = x.gid then some _ else (a.getE g k).map _
        rw [getE_putE]
        by_cases hk : k = x.gid <;> simp [hk]
    · rfl

theorem absG_putElem_other (a : AG) (g' g : String) (h : g ≠ g') (x : ElemIn) :
    absG cv ce (putElem a g' x).1 g = absG cv ce a g := by
  cases x with
  | v x =>
    simp only [putElem]
    split
    · apply FS.ext'
      · intro k
        show ((a.putV g' x.gid _).getV g k).map cv = (a.getV g k).map cv
        rw [getV_putV]; simp [h]
      · intro k; rfl
    · rfl
  | e x =>
    simp only [putElem]
    split
    · apply FS.ext'
      · intro k; rfl
      · intro k
        show ((a.putE g' x.gid _).getE g k).map _ = (a.getE g k).map _
        rw [getE_putE]; simp [h]
    · rfl

theorem absG_putAll (g : String) : ∀ (xs : List ElemIn) (a : AG),
    absG cv ce (putAll g a xs).1 g = FS.run (absG cv ce a g) (xs.flatMap (trElem cv ce))
  | [], _ => rfl
  | x :: xs, a => by
    simp only [putAll, List.flatMap_cons]
    rw [absG_putAll g xs, absG_putElem, FS.run_append]

theorem absG_putAll_other (g' g : String) (h : g ≠ g') : ∀ (xs : List ElemIn) (a : AG),
    absG cv ce (putAll g' a xs).1 g = absG cv ce a g
  | [], _ => rfl
  | x :: xs, a => by
    simp only [putAll]
    rw [absG_putAll_other g' g h xs, absG_putElem_other cv ce a g' g h]

theorem graphs_addElems (a : AG) (g : String) (xs : List ElemIn) :
    (addElems a g xs).1.graphs = a.graphs := by
  unfold Spec.addElems
  split
  · rfl
  · simp only
    split
    · exact graphs_putAll g xs a
    · exact graphs_putAll g xs a

theorem absG_addElems (a : AG) (g : String) (hg : a.graphs.contains g = true) (xs : List ElemIn) :
    absG cv ce (addElems a g xs).1 g = FS.run (absG cv ce a g) (xs.flatMap (trElem cv ce)) := by
  unfold Spec.addElems
  simp only [hg, Bool.not_true, Bool.false_eq_true, ↓reduceIte]
  split
  · rw [absG_touch]; exact absG_putAll cv ce g xs a
  · exact absG_putAll cv ce g xs a

theorem absG_addElems_other (a : AG) (g' g : String) (h : g ≠ g') (xs : List ElemIn) :
    absG cv ce (addElems a g' xs).1 g = absG cv ce a g := by
  unfold Spec.addElems
  split
  · rfl
  · simp only
    split
    · rw [absG_touch]; exact absG_putAll_other cv ce g' g h xs a
    · exact absG_putAll_other cv ce g' g h xs a

/-! ### deletes -/

theorem absG_delV (a : AG) (g id : String) (hwf : KeysNodup a.edges) :
    absG cv ce { (a.touch g) with
        verts := a.verts.filter (fun p => ¬ p.1 = (g, id)),
        edges := a.edges.filter (fun p => ¬ (p.1.1 = g ∧ (p.2.frm = id ∨ p.2.to = id))) } g
      = (absG cv ce a g).apply (.delV id) := by
  apply FS.ext'
  · intro k
    show (alGet (a.verts.filter (fun p => ¬ p.1 = (g, id))) (g, k)).map cv
      = if k = id then none else (a.getV g k).map cv
    rw [getV_filter_key]
    by_cases hk : k = id <;> simp [hk]
  · intro k
    show (alGet (a.edges.filter (fun p => ¬ (p.1.1 = g ∧ (p.2.frm = id ∨ p.2.to = id)))) (g, k)).map _
      = kill id ((a.getE g k).map _)
    have := alGet_filter hwf (fun p => decide (¬ (p.1.1 = g ∧ (p.2.frm = id ∨ p.2.to = id)))) (g, k)
    rw [AG.getE_eq]
    have e : (a.edges.filter (fun p => ¬ (p.1.1 = g ∧ (p.2.frm = id ∨ p.2.to = id))))
        = a.edges.filter (fun p => decide (¬ (p.1.1 = g ∧ (p.2.frm = id ∨ p.2.to = id)))) := by
      congr 1
    rw [e, this]
    cases alGet a.edges (g, k) with
    | none => rfl
    | some r =>
      by_cases hr : r.frm = id ∨ r.to = id
      · simp [Option.filter, kill, hr]
      · simp [Option.filter, kill, hr]

theorem absG_delV_other (a : AG) (g' g id : String) (h : g ≠ g') :
    absG cv ce { (a.touch g') with
        verts := a.verts.filter (fun p => ¬ p.1 = (g', id)),
        edges := a.edges.filter (fun p => ¬ (p.1.1 = g' ∧ (p.2.frm = id ∨ p.2.to = id))) } g
      = absG cv ce a g := by
  apply FS.ext'
  · intro k
    show (alGet (a.verts.filter (fun p => ¬ p.1 = (g', id))) (g, k)).map cv = (a.getV g k).map cv
    rw [getV_filter_key]; simp [h]
  · intro k
    show (alGet (a.edges.filter (fun p => ¬ (p.1.1 = g' ∧ (p.2.frm = id ∨ p.2.to = id)))) (g, k)).map _
      = (a.getE g k).map _
    -- the filter keeps every entry of graph g: compare with the filter on the key alone
    have hk : ∀ (l : List ((String × String) × ERec)),
        alGet (l.filter (fun p => ¬ (p.1.1 = g' ∧ (p.2.frm = id ∨ p.2.to = id)))) (g, k) = alGet l (g, k) := by
      intro l
      induction l with
      | nil => rfl
      | cons p l ih =>
        obtain ⟨⟨pg, pid⟩, r⟩ := p
        simp only [List.filter_cons]
        split
        · rw [alGet_cons, alGet_cons, ih]
        · rename_i hp
          have hp' : pg = g' ∧ (r.frm = id ∨ r.to = id) :=
            Decidable.not_not.1 (fun hn => hp (decide_eq_true hn))
          have : ¬ (g, k) = (pg, pid) := by
            intro e; cases e; exact h hp'.1
          rw [ih, alGet_cons]; simp [this]
    rw [hk, ← AG.getE_eq]

theorem absG_delE (a : AG) (g id : String) :
    absG cv ce { (a.touch g) with edges := a.edges.filter (fun p => ¬ p.1 = (g, id)) } g
      = (absG cv ce a g).apply (.delE id) := by
  apply FS.ext'
  · intro k; rfl
  · intro k
    show (alGet (a.edges.filter (fun p => ¬ p.1 = (g, id))) (g, k)).map _
      = if k = id then none else (a.getE g k).map _
    rw [getE_filter_key]
    by_cases hk : k = id <;> simp [hk]

theorem absG_delE_other (a : AG) (g' g id : String) (h : g ≠ g') :
    absG cv ce { (a.touch g') with edges := a.edges.filter (fun p => ¬ p.1 = (g', id)) } g
      = absG cv ce a g := by
  apply FS.ext'
  · intro k; rfl
  · intro k
    show (alGet (a.edges.filter (fun p => ¬ p.1 = (g', id))) (g, k)).map _ = (a.getE g k).map _
    rw [getE_filter_key]; simp [h]

/-- deleting an absent edge changes nothing, in the store as in the abstract graph -/
theorem absG_delE_absent (a : AG) (g id : String) (h : a.getE g id = none) :
    (absG cv ce a g).apply (.delE id) = absG cv ce a g := by
  apply FS.ext'
  · intro k; rfl
  · intro k
    show (if k = id then none else (a.getE g k).map _) = (a.getE g k).map _
    by_cases hk : k = id
    · subst hk; simp [h]
    · simp [hk]

/-! ### the simulation -/

/-- `specStep` on any operation except `delGraph g` is the run of its translation, and keeps `g` -/
theorem sim_step (a : AG) (g : String) (hg : a.graphs.contains g = true) (hwf : KeysNodup a.edges)
    (o : Op) (ho : keepsGraph g o = true) :
    absG cv ce (specStep a o).1 g = FS.run (absG cv ce a g) (trOp cv ce g o) ∧
      (specStep a o).1.graphs.contains g = true := by
  cases o with
  | addGraph g' =>
    refine ⟨?_, ?_⟩
    · simp only [specStep]; split <;> rfl
    · simp only [specStep]; split
      · exact hg
      · simp only [List.contains_iff_mem, List.mem_cons, List.mem_filter] at hg ⊢
        by_cases e : g = g'
        · exact Or.inl e
        · exact Or.inr ⟨hg, by simpa using e⟩
  | delGraph g' =>
    have hne : g ≠ g' := by
      intro e; subst e; simp [keepsGraph] at ho
    refine ⟨?_, ?_⟩
    · apply FS.ext'
      · intro k
        show (alGet (a.verts.filter (fun p => p.1.1 ≠ g')) (g, k)).map cv = (a.getV g k).map cv
        rw [getV_filter_graph a g' g k hne]
      · intro k
        show (alGet (a.edges.filter (fun p => p.1.1 ≠ g')) (g, k)).map _ = (a.getE g k).map _
        rw [getE_filter_graph a g' g k hne]
    · simp only [specStep, List.contains_iff_mem, List.mem_filter] at hg ⊢
      exact ⟨hg, by simpa using hne⟩
  | addV g' vs =>
    refine ⟨?_, by simp only [specStep]; rw [graphs_addElems]; exact hg⟩
    by_cases e : g' = g
    · subst e
      simp only [specStep, trOp, elems, vDels, eDels, ↓reduceIte, List.map_nil, List.append_nil]
      exact absG_addElems cv ce a g' hg _
    · simp only [specStep, trOp, elems, vDels, eDels, e, ↓reduceIte, List.flatMap_nil, List.map_nil,
        List.append_nil]
      exact absG_addElems_other cv ce a g' g (fun h => e h.symm) _
  | addE g' es =>
    refine ⟨?_, by simp only [specStep]; rw [graphs_addElems]; exact hg⟩
    by_cases e : g' = g
    · subst e
      simp only [specStep, trOp, elems, vDels, eDels, ↓reduceIte, List.map_nil, List.append_nil]
      exact absG_addElems cv ce a g' hg _
    · simp only [specStep, trOp, elems, vDels, eDels, e, ↓reduceIte, List.flatMap_nil, List.map_nil,
        List.append_nil]
      exact absG_addElems_other cv ce a g' g (fun h => e h.symm) _
  | bulk g' xs =>
    refine ⟨?_, by simp only [specStep]; rw [graphs_addElems]; exact hg⟩
    by_cases e : g' = g
    · subst e
      simp only [specStep, trOp, elems, vDels, eDels, ↓reduceIte, List.map_nil, List.append_nil]
      exact absG_addElems cv ce a g' hg _
    · simp only [specStep, trOp, elems, vDels, eDels, e, ↓reduceIte, List.flatMap_nil, List.map_nil,
        List.append_nil]
      exact absG_addElems_other cv ce a g' g (fun h => e h.symm) _
  | delV g' id =>
    refine ⟨?_, by simp only [specStep]; split <;> exact hg⟩
    by_cases e : g' = g
    · subst e
      simp only [specStep, hg, Bool.not_true, Bool.false_eq_true, ↓reduceIte, trOp, elems, vDels, eDels,
        List.flatMap_nil, List.map_cons, List.map_nil, List.nil_append, List.append_nil]
      exact absG_delV cv ce a g' id hwf
    · simp only [specStep, trOp, elems, vDels, eDels, e, ↓reduceIte, List.flatMap_nil, List.map_nil,
        List.append_nil]
      split
      · rfl
      · exact absG_delV_other cv ce a g' g id (fun h => e h.symm)
  | delE g' id =>
    refine ⟨?_, by simp only [specStep]; split <;> (try split) <;> exact hg⟩
    by_cases e : g' = g
    · subst e
      simp only [specStep, hg, Bool.not_true, Bool.false_eq_true, ↓reduceIte, trOp, elems, vDels, eDels,
        List.flatMap_nil, List.map_cons, List.map_nil, List.nil_append]
      split
      · rename_i hnone
        exact (absG_delE_absent cv ce a g' id hnone).symm
      · exact absG_delE cv ce a g' id
    · simp only [specStep, trOp, elems, vDels, eDels, e, ↓reduceIte, List.flatMap_nil, List.map_nil,
        List.append_nil]
      split
      · rfl
      · split
        · rfl
        · exact absG_delE_other cv ce a g' g id (fun h => e h.symm)

theorem sim_run (g : String) : ∀ (ops : List Op) (a : AG), a.graphs.contains g = true → WF a →
    (∀ o ∈ ops, keepsGraph g o = true) →
    absG cv ce (specRun a ops) g = FS.run (absG cv ce a g) (ops.flatMap (trOp cv ce g))
  | [], _, _, _, _ => rfl
  | o :: ops, a, hg, hwf, ho => by
    have h1 := sim_step cv ce a g hg hwf.2 o (ho o (List.mem_cons_self ..))
    have ih := sim_run g ops (specStep a o).1 h1.2 (wf_specStep hwf o)
      (fun o' ho' => ho o' (List.mem_cons_of_mem _ ho'))
    show absG cv ce (specRun (specStep a o).1 ops) g = _
    rw [ih, h1.1, List.flatMap_cons, FS.run_append]

/-! ### nothing is lost by coding the records as numbers -/

theorem option_eq_of_codings {α β : Type} [DecidableEq α] (f : (α → Nat) → α → β) (x y : Option α)
    (hf : ∀ c r r', f c r = f c r' → c r = c r')
    (h : ∀ c : α → Nat, x.map (f c) = y.map (f c)) : x = y := by
  cases x with
  | none =>
    cases y with
    | none => rfl
    | some r' => have := h (fun _ => 0); simp at this
  | some r =>
    cases y with
    | none => have := h (fun _ => 0); simp at this
    | some r' =>
      have := h (fun z => if z = r then 1 else 0)
      simp only [Option.map_some, Option.some.injEq] at this
      have := hf _ _ _ this
      simp only [↓reduceIte] at this
      by_cases e : r' = r
      · rw [e]
      · simp [e] at this

/-- two abstract graphs have the same abstraction under every coding iff all their lookups in `g`
    agree -/
theorem absG_eq_iff (a b : AG) (g : String) :
    (∀ cv ce, absG cv ce a g = absG cv ce b g) ↔
      (∀ id, a.getV g id = b.getV g id) ∧ (∀ id, a.getE g id = b.getE g id) := by
  constructor
  · intro h
    refine ⟨fun id => ?_, fun id => ?_⟩
    · apply option_eq_of_codings (fun c => c) _ _ (fun _ _ _ h => h)
      intro c
      exact congrFun (congrArg FS.V (h c (fun _ => 0))) id
    · apply option_eq_of_codings (fun c (r : ERec) => (r.frm, r.to, c r)) _ _
        (fun _ _ _ h => (Prod.mk.inj (Prod.mk.inj h).2).2)
      intro c
      exact congrFun (congrArg FS.E (h (fun _ => 0) c)) id
  · rintro ⟨hv, he⟩ cv ce
    apply FS.ext'
    · intro k; show (a.getV g k).map cv = (b.getV g k).map cv; rw [hv]
    · intro k; show (a.getE g k).map _ = (b.getE g k).map _; rw [he]

/-! ### independence of the SPEC footprints gives `indep` of the translated edits -/

/-- the footprint of `o` contains what the store edit `x` touches -/
def covers (g : String) (o : Op) : FOp String → Prop
  | .putV id _ => id ∈ vPuts g o
  | .putE id f t _ => (id, f, t) ∈ ePuts g o
  | .delV id => id ∈ vDels g o
  | .delE id => id ∈ eDels g o

theorem covers_trOp (g : String) (o : Op) (x : FOp String) (hx : x ∈ trOp cv ce g o) : covers g o x := by
  simp only [trOp, List.mem_append, List.mem_flatMap, List.mem_map] at hx
  rcases hx with (⟨el, hel, hx⟩ | ⟨id, hid, rfl⟩) | ⟨id, hid, rfl⟩
  · cases el with
    | v v =>
      simp only [trElem] at hx
      split at hx
      · rename_i hv
        simp only [List.mem_singleton] at hx; subst hx
        show v.gid ∈ (elems g o).filterMap vPutOf
        exact List.mem_filterMap.2 ⟨_, hel, by simp [vPutOf, hv]⟩
      · simp at hx
    | e e =>
      simp only [trElem] at hx
      split at hx
      · rename_i hv
        simp only [List.mem_singleton] at hx; subst hx
        show (e.gid, e.frm, e.to) ∈ (elems g o).filterMap ePutOf
        exact List.mem_filterMap.2 ⟨_, hel, by simp [ePutOf, hv]⟩
      · simp at hx
  · exact hid
  · exact hid

theorem disj_spec {xs ys : List String} (h : disj xs ys = true) : ∀ x ∈ xs, x ∉ ys := by
  intro x hx hy
  have := (List.all_eq_true.1 h) x hx
  simp [hy] at this

theorem endsAvoid_spec {es : List (String × String × String)} {ds : List String}
    (h : endsAvoid es ds = true) : ∀ e ∈ es, e.2.1 ∉ ds ∧ e.2.2 ∉ ds := by
  intro e he
  have := (List.all_eq_true.1 h) e he
  simpa using this

theorem indep_of_opIndep (g : String) (o o' : Op) (h : opIndep g o o' = true)
    (x y : FOp String) (hx : covers g o x) (hy : covers g o' y) : indep x y = true := by
  simp only [opIndep, Bool.and_eq_true] at h
  obtain ⟨⟨⟨⟨⟨⟨⟨h1, h2⟩, h3⟩, h4⟩, h5⟩, h6⟩, h7⟩, h8⟩ := h
  cases x <;> cases y <;> simp only [covers] at hx hy <;>
    simp only [indep, ne_eq, decide_not, Bool.not_eq_true', decide_eq_false_iff_not, Bool.decide_and,
      Bool.and_eq_true]
  -- putV/putV, putV/putE, putV/delV, putV/delE, putE/putV, putE/putE, putE/delV, putE/delE,
  -- delV/putV, delV/putE, delV/delV, delV/delE, delE/putV, delE/putE, delE/delV, delE/delE
  · intro e; subst e; exact disj_spec h1 _ hx hy
  · intro e; subst e; exact disj_spec h2 _ hx hy
  · intro e; subst e
    exact disj_spec h4 _ (List.mem_map.2 ⟨_, hx, rfl⟩) (List.mem_map.2 ⟨_, hy, rfl⟩)
  · have := endsAvoid_spec h7 _ hx
    exact ⟨fun e => this.1 (e ▸ hy), fun e => this.2 (e ▸ hy)⟩
  · intro e; subst e; exact disj_spec h5 _ (List.mem_map.2 ⟨_, hx, rfl⟩) hy
  · intro e; subst e; exact disj_spec h3 _ hy hx
  · have := endsAvoid_spec h8 _ hy
    exact ⟨fun e => this.1 (e ▸ hx), fun e => this.2 (e ▸ hx)⟩
  · intro e; subst e; exact disj_spec h6 _ (List.mem_map.2 ⟨_, hy, rfl⟩) hx

/-- session level: independent sessions translate to independent edit lists -/
theorem indepL_of_sessionsIndep (g : String) (xs ys : List Op) (h : sessionsIndep g xs ys = true) :
    IndepL (xs.flatMap (trOp cv ce g)) (ys.flatMap (trOp cv ce g)) := by
  intro x hx y hy
  obtain ⟨o, ho, hxo⟩ := List.mem_flatMap.1 hx
  obtain ⟨o', ho', hyo⟩ := List.mem_flatMap.1 hy
  have h1 := (List.all_eq_true.1 h) o ho
  have h2 := (List.all_eq_true.1 h1) o' ho'
  exact indep_of_opIndep g o o' h2 x y (covers_trOp cv ce g o x hxo) (covers_trOp cv ce g o' y hyo)

/-! ### equal lookups give the same `Final` -/

theorem sameSet_of_perm {α : Type} [DecidableEq α] {xs ys : List α} (h : xs.Perm ys) :
    sameSet xs ys = true := by
  simp only [sameSet, Bool.and_eq_true, List.all_eq_true, List.contains_iff_mem, beq_iff_eq]
  exact ⟨⟨fun x hx => h.mem_iff.1 hx, fun y hy => h.mem_iff.2 hy⟩, h.length_eq⟩

theorem final_same_of_lookups {a b : AG} (ha : WF a) (hb : WF b) (g : String)
    (hv : ∀ id, a.getV g id = b.getV g id) (he : ∀ id, a.getE g id = b.getE g id) :
    (finalOf a g).verts.Perm (finalOf b g).verts ∧ (finalOf a g).edges.Perm (finalOf b g).edges := by
  refine ⟨?_, ?_⟩
  · apply perm_of_nodup_mem_iff (spec_vertexList_nodup ha.1 g) (spec_vertexList_nodup hb.1 g)
    intro z
    show z ∈ vertexList a g ↔ z ∈ vertexList b g
    rw [spec_vertexList_mem ha.1, spec_vertexList_mem hb.1, hv]
  · apply perm_of_nodup_mem_iff (spec_edgeList_nodup ha.2 g) (spec_edgeList_nodup hb.2 g)
    intro z
    show z ∈ edgeList a g ↔ z ∈ edgeList b g
    rw [spec_edgeList_mem ha.2, spec_edgeList_mem hb.2, he]

end Grip.Props.C17.Lemmas
