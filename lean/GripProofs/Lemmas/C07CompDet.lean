/-
  Lemmas for C07, composition: components whose output STREAM is a function of their state and of
  the input still to come (`Det`).  A chain of stages is one (`chainDet`): what it will still hand
  over is `chainFut`.  This is what lets a measure in ℕ look ahead through a chain prefix to the
  aggregate stage behind it (C07CompAggChain).
-/
import GripProofs.Lemmas.C07CompChain

namespace Grip.Props.C07.Lemmas
open Grip.C07

/-- `fut s xs`: everything the component will still hand over, in order, from state `s` when `xs`
    is still to be put into its input channel -/
structure Det {α : Type} (C : Comp α) (L : Laws C) where
  fut : C.σ → List α → List α
  fut_tau : ∀ {s s'} (xs : List α), L.inv s → C.tau s s' → fut s' xs = fut s xs
  fut_out : ∀ {s y s'} (xs : List α), L.inv s → C.out s y s' → fut s xs = y :: fut s' xs
  fut_fin : ∀ {s s'} (xs : List α), L.inv s → C.fin s s' → fut s' xs = fut s xs
  fut_put : ∀ {s} (x : α) (xs : List α), L.inv s → fut (C.put x s) xs = fut s (x :: xs)
  fut_shut : ∀ {s} (xs : List α), L.inv s → fut (C.shut s) xs = fut s xs
  fut_ended : ∀ {s}, L.inv s → C.ended s = true → fut s [] = []

/-- what a chain will still deliver: the hand of each stage, then its channel, then the input,
    pushed through the stages behind -/
def chainFut {α : Type} : List (Cell α) → List α → List α
  | [], xs => xs
  | c :: r, xs => chainFut r (c.hand ++ (c.buf ++ xs).flatMap c.f)

def actOut {α : Type} : Act α → List α
  | .out y => [y]
  | _ => []

theorem chainFut_ostep {α : Type} {s s' : List (Cell α)} {a : Act α} (h : OStep s a s') :
    ∀ xs, chainFut s xs = actOut a ++ chainFut s' xs := by
  induction h with
  | @take c x b r hh hb hd =>
    intro xs
    simp [chainFut, actOut, hh, hb]
  | @emit c e y ys r hh hroom =>
    intro xs
    simp [chainFut, actOut, hh]
  | @emitLast c y ys hh =>
    intro xs
    simp [chainFut, actOut, hh]
  | close _ _ _ _ => intro xs; rfl
  | closeLast _ _ _ _ => intro xs; rfl
  | @tail c a r r' hs ih =>
    intro xs
    simp only [chainFut]
    exact ih _

theorem chainFut_headAppend {α : Type} (t : α) {s : List (Cell α)} (hne : s ≠ []) (xs : List α) :
    chainFut (headAppend t s) xs = chainFut s (t :: xs) := by
  cases s with
  | nil => exact absurd rfl hne
  | cons c r => simp [headAppend, chainFut]

theorem chainFut_headClose {α : Type} (s : List (Cell α)) (xs : List α) :
    chainFut (headClose s) xs = chainFut s xs := by
  cases s <;> rfl

theorem chainFut_empty {α : Type} : ∀ (s : List (Cell α)), (∀ c ∈ s, c.buf = [] ∧ c.hand = []) →
    chainFut s [] = [] := by
  intro s
  induction s with
  | nil => intro _; rfl
  | cons c r ih =>
    intro h
    obtain ⟨hb, hh⟩ := h c (by simp)
    simp only [chainFut, hb, hh, List.append_nil, List.flatMap_nil]
    exact ih (fun d hd => h d (List.mem_cons_of_mem _ hd))

theorem chainFut_done {α : Type} {s : List (Cell α)} (hl : Linked s) (hd : lastDone s = true) :
    chainFut s [] = [] := by
  obtain ⟨hall, _⟩ := linked_lastDone s hl hd
  apply chainFut_empty
  intro c hc
  have hw : ∀ (s : List (Cell α)), Linked s → ∀ c ∈ s, WFc c := by
    intro s
    induction s with
    | nil => intro _ c hc; cases hc
    | cons a r ih =>
      intro hl c hc
      cases hc with
      | head => exact linked_head hl
      | tail _ h => exact ih (linked_tail hl) c h
  have := (hw s hl c hc).2 (hall c hc)
  exact ⟨this.2.1, this.2.2⟩

def chainDet {α : Type} (fs : List (α → List α)) : Det (chainC α) (chainGoodN fs).toLaws where
  fut := chainFut
  fut_tau := fun {s s'} xs _ h => by
    have := chainFut_ostep h xs
    simpa [actOut] using this.symm
  fut_out := fun {s y s'} xs _ h => by
    have := chainFut_ostep h xs
    simpa [actOut] using this
  fut_fin := fun {s s'} xs _ h => by
    have := chainFut_ostep h xs
    simpa [actOut] using this.symm
  fut_put := fun {s} x xs hi => chainFut_headAppend x hi.2.1 xs
  fut_shut := fun {s} xs _ => chainFut_headClose s xs
  fut_ended := fun {s} hi he => chainFut_done hi.1 he

/-- the stream an empty chain delivers for an input: the input pushed through every stage -/
theorem chainFut_emptyChain {α : Type} (stages : List (Nat × (α → List α))) (xs : List α) :
    chainFut (emptyChain stages) xs = stages.foldl (fun acc s => acc.flatMap s.2) xs := by
  induction stages generalizing xs with
  | nil => rfl
  | cons a r ih =>
    simp only [emptyChain, List.map_cons, chainFut, List.nil_append, List.foldl_cons] at ih ⊢
    exact ih _

end Grip.Props.C07.Lemmas
