import Grip.Model.C12
import Grip.Model.C12Run
import GripProofs.Lemmas.C12Proto
import GripProofs.Lemmas.C12Term
import GripProofs.Lemmas.C12Cons

/-! Termination while travelers are still circulating: the step budget `ticks` of a depth-bounded
    cycle and the rank `(n+3)·ticks + shutRank`. -/
set_option linter.unusedSimpArgs false
namespace Grip.Props.C12.Lemmas
open Grip.C12

variable {T : Type}

/-! ### the step budget of one traveler -/

/-- Number of goroutine steps (stage moves, and receives at the mark) that a traveler which still
    has the stages `rest` before it will cause, when a traveler arriving at the mark's jump input
    causes `R` of them. -/
def tcost (R : T → Nat) : List (Stage T) → T → Nat
  | [], t => R t
  | st :: rest, t => 1 + ((st.fwd t).map (tcost R rest)).sum

/-- `k` passes deep: steps caused by a traveler that is about to be taken by the mark
    (one for the mark's receive/forward, then the cycle). -/
def tunroll (sys : List (Stage T)) : Nat → T → Nat
  | 0, _ => 0
  | k + 1, t => 1 + tcost (tunroll sys k) sys t

/-- The step budget of a traveler at the mark (well defined for bounded cycles). -/
def TR (sys : List (Stage T)) (μ : T → Nat) (t : T) : Nat := tunroll sys (μ t + 1) t

theorem sum_map_congr {α : Type} {l : List α} {f g : α → Nat} (h : ∀ x ∈ l, f x = g x) :
    (l.map f).sum = (l.map g).sum := by
  induction l with
  | nil => rfl
  | cons a r ih =>
    simp only [List.map_cons, List.sum_cons]
    rw [h a (by simp), ih (fun x hx => h x (by simp [hx]))]

theorem tcost_congr {R R' : T → Nat} : ∀ (sys : List (Stage T)) (t : T),
    (∀ t' ∈ thru sys t, R t' = R' t') → tcost R sys t = tcost R' sys t
  | [], t, h => by simpa [tcost, thru] using h
  | st :: rest, t, h => by
    simp only [tcost]
    congr 1
    apply sum_map_congr
    intro u hu
    apply tcost_congr rest u
    intro t' ht'
    apply h
    simp only [thru, List.mem_flatMap]
    exact ⟨u, hu, ht'⟩

theorem tunroll_indep {sys : List (Stage T)} {μ : T → Nat} (hb : SysBounded sys μ) :
    ∀ (n m : Nat) (t : T), μ t < n → μ t < m → tunroll sys n t = tunroll sys m t := by
  intro n
  induction n with
  | zero => intro m t h; omega
  | succ n ih =>
    intro m t hn hm
    cases m with
    | zero => omega
    | succ m =>
      simp only [tunroll]
      congr 1
      apply tcost_congr
      intro t' ht'
      have := hb t t' ht'
      exact ih m t' (by omega) (by omega)

/-- The budget equation: one step at the mark, then the budget of the cycle. -/
theorem TR_eq {sys : List (Stage T)} {μ : T → Nat} (hb : SysBounded sys μ) (t : T) :
    TR sys μ t = 1 + tcost (TR sys μ) sys t := by
  show tunroll sys (μ t + 1) t = 1 + tcost (TR sys μ) sys t
  have e : tunroll sys (μ t + 1) t = 1 + tcost (tunroll sys (μ t)) sys t := rfl
  rw [e]
  congr 1
  apply tcost_congr
  intro t' ht'
  have := hb t t' ht'
  show tunroll sys (μ t) t' = tunroll sys (μ t' + 1) t'
  exact tunroll_indep hb _ _ t' this (by omega)

/-! ### the budget of a state -/

def wtMsg (R : T → Nat) (sys : List (Stage T)) : Nat × Msg T → Nat
  | (i, .trav t) => tcost R (sys.drop i) t
  | (_, .sig _) => 0

/-- Steps still to be caused by the travelers in the cycle. -/
def wtW (R : T → Nat) (sys : List (Stage T)) (W : List (Nat × Msg T)) : Nat :=
  (W.map (wtMsg R sys)).sum

/-- Traveler-caused steps still to come: the main input's close, the unread input, the cycle. -/
def ticks (R : T → Nat) (sys : List (Stage T)) (s : State T) : Nat :=
  (if s.phase = .open then 1 else 0) + (s.inp.map R).sum + wtW R sys s.W

/-- The rank: every traveler-caused step may outdate the signal once (`+ n + 2` on `shutRank`),
    hence the factor `n + 3`. -/
def liveRank (R : T → Nat) (sys : List (Stage T)) (s : State T) : Nat :=
  (sys.length + 3) * ticks R sys s + shutRank sys s

theorem wtW_append (R : T → Nat) (sys : List (Stage T)) (A B : List (Nat × Msg T)) :
    wtW R sys (A ++ B) = wtW R sys A + wtW R sys B := by
  simp [wtW, List.sum_append]

theorem wtW_cons (R : T → Nat) (sys : List (Stage T)) (x : Nat × Msg T) (B : List (Nat × Msg T)) :
    wtW R sys (x :: B) = wtMsg R sys x + wtW R sys B := by
  simp [wtW]

theorem wtW_nil (R : T → Nat) (sys : List (Stage T)) : wtW R sys ([] : List (Nat × Msg T)) = 0 := rfl

theorem wtW_travs (R : T → Nat) (sys : List (Stage T)) (j : Nat) (l : List T) :
    wtW R sys (l.map (fun u => (j, Msg.trav u))) = (l.map (tcost R (sys.drop j))).sum := by
  induction l with
  | nil => rfl
  | cons a r ih =>
    rw [List.map_cons, wtW_cons, ih]
    simp [wtMsg]

theorem sigDist_travs (n j : Nat) (l : List T) :
    sigDist n (l.map (fun u => (j, Msg.trav u))) = 0 := by
  induction l with
  | nil => rfl
  | cons a r ih => simp [sigDist, ih]

theorem wtMsg_last (R : T → Nat) (sys : List (Stage T)) (t : T) :
    wtMsg R sys (sys.length, Msg.trav t) = R t := by
  simp [wtMsg, tcost]

theorem wtMsg_zero (R : T → Nat) (sys : List (Stage T)) (t : T) :
    wtMsg R sys (0, Msg.trav t) = tcost R sys t := by
  simp [wtMsg]

/-- arithmetic of the rank: one tick pays for one outdating. -/
theorem rank_arith {n a a' b b' : Nat} (ha : a' + 1 ≤ a) (hb : b' ≤ b + (n + 2)) :
    (n + 3) * a' + b' < (n + 3) * a + b := by
  have h1 : (n + 3) * (a' + 1) ≤ (n + 3) * a := Nat.mul_le_mul_left _ ha
  rw [Nat.mul_succ] at h1
  omega

theorem rank_arith0 {n a a' b b' : Nat} (ha : a' = a) (hb : b' < b) :
    (n + 3) * a' + b' < (n + 3) * a + b := by
  subst ha; omega

theorem idle_step_eq {sys : List (Stage T)} {l : Label} {s s' : State T}
    (inv : ProtoInv s) (hs : Step sys l s s') (hi : Idle l s) : s' = s := by
  obtain ⟨hl, ha⟩ := hi
  cases hs with
  | stageTrav => cases hl
  | stageSig => cases hl
  | openJump => cases hl
  | openIn => cases hl
  | openClose => cases hl
  | closeTrav => cases hl
  | closeSig => cases hl
  | closePoll hp hN =>
    have hrc := inv.rc (by simp [hp])
    simp [markDecide, ha, hrc]

/-- **The ranking lemma.**  In a state satisfying the protocol invariant, every step that is not
    an idle poll strictly lowers `liveRank`. -/
theorem liveRank_step {sys : List (Stage T)} {R : T → Nat} (hR : ∀ t, R t = 1 + tcost R sys t)
    {l : Label} {s s' : State T} (inv : ProtoInv s) (hs : Step sys l s s') (hni : ¬ Idle l s) :
    liveRank R sys s' < liveRank R sys s := by
  cases hs with
  | @stageTrav _ A B i t st hW hA hst =>
    have hd := drop_of_getElem? hst
    apply rank_arith
    · simp only [ticks, hW, wtW_append, wtW_cons, wtW_travs]
      have e : wtMsg R sys (i, Msg.trav t)
          = 1 + ((st.fwd t).map (tcost R (sys.drop (i + 1)))).sum := by
        simp [wtMsg, hd, tcost]
      rw [e]; omega
    · simp only [shutRank, hW, sigDist_append, sigDist, sigDist_travs]
      omega
  | @stageSig _ A B i k st hW hA hst =>
    obtain ⟨hlt, _⟩ := List.getElem?_eq_some_iff.mp hst
    apply rank_arith0
    · simp [ticks, hW, wtW_append, wtW_cons, wtMsg]
    · simp only [shutRank, hW, sigDist_append, sigDist]
      omega
  | @openJump _ m B hp hW =>
    have ha := inv.openFlags hp
    have hw := inv.w (by simp [hp])
    cases m with
    | sig k => simp [WInv, ha, hW, sigCount] at hw
    | trav t =>
      apply rank_arith
      · simp only [ticks, hW, wtW_append, wtW_cons, wtW_nil, wtMsg_last, wtMsg_zero]
        have := hR t
        omega
      · simp only [shutRank, hW, sigDist_append, sigDist]
        omega
  | @openIn _ t r hp hN hI =>
    apply rank_arith
    · simp only [ticks, hI, List.map_cons, List.sum_cons, wtW_append, wtW_cons, wtW_nil, wtMsg_zero]
      have := hR t
      omega
    · simp only [shutRank, sigDist_append, sigDist]
      omega
  | openClose hp hN hI =>
    apply rank_arith
    · simp [ticks, hp]; omega
    · simp only [shutRank]
      omega
  | @closeTrav _ t B hp hW =>
    apply rank_arith
    · simp only [ticks, hW, wtW_append, wtW_cons, wtW_nil, wtMsg_last, wtMsg_zero]
      have := hR t
      omega
    · simp only [shutRank, hW, sigDist_append, sigDist]
      cases s.signalActive <;> cases s.signalOutdated <;> simp <;> omega
  | @closeSig _ k B hp hW =>
    have hw := inv.w (by simp [hp])
    have hrc := inv.rc (by simp [hp])
    simp only [WInv, hW] at hw
    cases ha : s.signalActive with
    | false => simp [ha, sigCount] at hw
    | true =>
      simp only [ha, if_true, sigCount] at hw
      obtain ⟨hc1, hc2⟩ := hw
      apply rank_arith0
      · cases ho : s.signalOutdated <;>
          simp [ticks, markDecide, ha, ho, hrc, hp, hW, wtW_append, wtW_cons, wtW_nil, wtMsg]
      · cases ho : s.signalOutdated with
        | false =>
          simp [shutRank, markDecide, ha, ho, hrc, hW, sigDist]
        | true =>
          simp [shutRank, markDecide, ha, ho, hrc, hW, sigDist, sigDist_append]
          omega
  | closePoll hp hN =>
    have hw := inv.w (by simp [hp])
    cases ha : s.signalActive with
    | true => exact absurd ⟨rfl, ha⟩ hni
    | false =>
      have ho := inv.flags ha
      apply rank_arith0
      · simp [ticks, markDecide, ha, ho, hp, wtW_append, wtW_cons, wtW_nil, wtMsg]
      · simp [shutRank, markDecide, ha, ho, sigDist_append, sigDist]

/-! ### progress: a non-idle goroutine is enabled until the mark has closed -/

/-- In a not yet closed state satisfying the invariants, some stage can move, or the mark can
    take a step and none of the steps the mark can take is an idle poll. -/
theorem progress_proc {sys : List (Stage T)} {s : State T} (inv : ProtoInv s) (htag : TagInv sys s)
    (hne : s.phase ≠ .closed) :
    (∃ i, Enabled sys (fun l => l = .stage i) s) ∨
    (Enabled sys isMark s ∧ ∀ l s', isMark l → Step sys l s s' → ¬ Idle l s) := by
  cases hw : s.W with
  | cons x B =>
    obtain ⟨i, m⟩ := x
    have hle : i ≤ sys.length := htag (i, m) (by simp [hw])
    rcases Nat.lt_or_eq_of_le hle with hlt | heq
    · left
      have hst : sys[i]? = some sys[i] := List.getElem?_eq_getElem hlt
      refine ⟨i, .stage i, ?_⟩
      cases m with
      | trav t =>
        exact ⟨_, rfl, Step.stageTrav (A := []) (B := B) (i := i) (t := t) (st := sys[i])
          (by simp [hw]) (by simp) hst⟩
      | sig k =>
        exact ⟨_, rfl, Step.stageSig (A := []) (B := B) (i := i) (k := k) (st := sys[i])
          (by simp [hw]) (by simp) hst⟩
    · subst heq
      right
      constructor
      · cases hp : s.phase with
        | «open» => exact ⟨.mark, _, Or.inl rfl, Step.openJump hp hw⟩
        | closing =>
          cases m with
          | trav t => exact ⟨.mark, _, Or.inl rfl, Step.closeTrav hp hw⟩
          | sig k => exact ⟨.mark, _, Or.inl rfl, Step.closeSig hp hw⟩
        | closed => exact absurd hp hne
      · intro l s' _ hs hi
        obtain ⟨hl, _⟩ := hi
        subst hl
        cases hs with
        | closePoll hp hN => exact hN (sys.length, m) (by simp [hw]) rfl
  | nil =>
    right
    have hN : ∀ x ∈ s.W, x.1 ≠ sys.length := by simp [hw]
    have hact : s.signalActive = false := by
      cases hp : s.phase with
      | «open» => exact inv.openFlags hp
      | closing =>
        have := inv.w hne
        cases ha : s.signalActive with
        | false => rfl
        | true => simp [WInv, ha, hw, sigCount] at this
      | closed => exact absurd hp hne
    constructor
    · cases hp : s.phase with
      | «open» =>
        cases hi : s.inp with
        | nil => exact ⟨.mark, _, Or.inl rfl, Step.openClose hp hN hi⟩
        | cons t r => exact ⟨.mark, _, Or.inl rfl, Step.openIn hp hN hi⟩
      | closing => exact ⟨.poll, _, Or.inr rfl, Step.closePoll hp hN⟩
      | closed => exact absurd hp hne
    · intro l s' _ _ hi
      simp [Idle, hact] at hi

/-- Nothing is enabled once the mark has closed (the cycle is empty then). -/
theorem closed_no_step {sys : List (Stage T)} {l : Label} {s s' : State T} (inv : ProtoInv s)
    (hc : s.phase = .closed) : ¬ Step sys l s s' := by
  intro hs
  have hW := inv.closedW hc
  cases hs with
  | stageTrav h => simp [hW] at h
  | stageSig h => simp [hW] at h
  | openJump hp => simp [hc] at hp
  | openIn hp => simp [hc] at hp
  | openClose hp => simp [hc] at hp
  | closeTrav hp => simp [hc] at hp
  | closeSig hp => simp [hc] at hp
  | closePoll hp => simp [hc] at hp

/-! ### runs -/

theorem run_reachable {sys : List (Stage T)} {inp0 : List T} (r : Run sys inp0) :
    ∀ k, Reachable sys inp0 (r.σ k)
  | 0 => by rw [r.start]; exact Reachable.init
  | k + 1 => by
    have ih := run_reachable r k
    have hn := r.next k
    cases hl : r.lab k with
    | none => rw [hl] at hn; rw [hn]; exact ih
    | some l => rw [hl] at hn; exact Reachable.step ih hn

/-- Along a run the rank never increases, and a busy position lowers it. -/
theorem run_rank_step {sys : List (Stage T)} {R : T → Nat} (hR : ∀ t, R t = 1 + tcost R sys t)
    {inp0 : List T} (r : Run sys inp0) (k : Nat) :
    liveRank R sys (r.σ (k + 1)) + (if r.busy k then 1 else 0) ≤ liveRank R sys (r.σ k) := by
  have inv := protoInv_reachable (run_reachable r k)
  have hn := r.next k
  unfold Run.busy
  cases hl : r.lab k with
  | none => rw [hl] at hn; simp [hn]
  | some l =>
    rw [hl] at hn
    by_cases hi : Idle l (r.σ k)
    · have := idle_step_eq inv hn hi
      simp [hi, this]
    · have := liveRank_step hR inv hn hi
      simp [hi]; omega

theorem run_busyCount_le {sys : List (Stage T)} {R : T → Nat} (hR : ∀ t, R t = 1 + tcost R sys t)
    {inp0 : List T} (r : Run sys inp0) :
    ∀ K, r.busyCount K + liveRank R sys (r.σ K) ≤ liveRank R sys (init inp0)
  | 0 => by simp [Run.busyCount, r.start]
  | K + 1 => by
    have ih := run_busyCount_le hR r K
    have := run_rank_step hR r K
    simp only [Run.busyCount]
    omega

/-- A non-increasing sequence of naturals is eventually constant. -/
theorem antitone_stabilizes (ρ : Nat → Nat) (h : ∀ k, ρ (k + 1) ≤ ρ k) :
    ∃ K, ∀ k, K ≤ k → ρ k = ρ K := by
  have mono : ∀ K0 k, K0 ≤ k → ρ k ≤ ρ K0 := by
    intro K0 k hk
    obtain ⟨d, rfl⟩ := Nat.exists_eq_add_of_le hk
    clear hk
    induction d with
    | zero => exact Nat.le_refl _
    | succ d ih => exact Nat.le_trans (h (K0 + d)) ih
  have key : ∀ m K0, ρ K0 = m → ∃ K, ∀ k, K ≤ k → ρ k = ρ K := by
    intro m
    induction m using Nat.strongRecOn with
    | _ m ih =>
      intro K0 hm
      by_cases hc : ∀ k, K0 ≤ k → ρ k = ρ K0
      · exact ⟨K0, hc⟩
      · have : ∃ k, K0 ≤ k ∧ ρ k ≠ ρ K0 := by
          apply Classical.byContradiction
          intro hcon
          apply hc
          intro k hk
          apply Classical.byContradiction
          intro hne
          exact hcon ⟨k, hk, hne⟩
        obtain ⟨k, hk, hne⟩ := this
        have hle := mono K0 k hk
        exact ih (ρ k) (by omega) k rfl
  exact key (ρ 0) 0 rfl

/-- From some position on, no position of the run is busy and the state no longer changes. -/
theorem run_eventually_idle {sys : List (Stage T)} {R : T → Nat} (hR : ∀ t, R t = 1 + tcost R sys t)
    {inp0 : List T} (r : Run sys inp0) :
    ∃ K, ∀ k, K ≤ k → r.busy k = false ∧ r.σ k = r.σ K := by
  obtain ⟨K, hK⟩ := antitone_stabilizes (fun k => liveRank R sys (r.σ k))
    (fun k => by have := run_rank_step hR r k; omega)
  have hb : ∀ k, K ≤ k → r.busy k = false := by
    intro k hk
    have h1 := hK k hk
    have h2 := hK (k + 1) (by omega)
    have := run_rank_step hR r k
    cases hbk : r.busy k with
    | false => rfl
    | true => rw [hbk] at this; simp at this; omega
  refine ⟨K, fun k hk => ⟨hb k hk, ?_⟩⟩
  obtain ⟨d, rfl⟩ := Nat.exists_eq_add_of_le hk
  clear hk
  induction d with
  | zero => rfl
  | succ d ih =>
    rw [← ih]
    have inv := protoInv_reachable (run_reachable r (K + d))
    have hn := r.next (K + d)
    have hbk := hb (K + d) (by omega)
    unfold Run.busy at hbk
    cases hl : r.lab (K + d) with
    | none => rw [hl] at hn; exact hn
    | some l =>
      rw [hl] at hn hbk
      have hi : Idle l (r.σ (K + d)) := by simpa using hbk
      exact idle_step_eq inv hn hi

end Grip.Props.C12.Lemmas
