/-
  Lemmas for C07, composition: the chain of stages of Grip.Model.C07 as an open component
  (Grip.Model.C07Comp §2).  `OStep` is `Step` with a label; the chain is well behaved (`GoodN`)
  with the weighted measure `muD`.
-/
import GripProofs.Lemmas.C07Comp

namespace Grip.Props.C07.Lemmas
open Grip.C07

/-! ### `OStep` is `Step` -/

theorem ostep_step {α : Type} {s s' : List (Cell α)} {a : Act α} (h : OStep s a s') : Step s s' := by
  induction h with
  | take h1 h2 h3 => exact Step.take h1 h2 h3
  | emit h1 h2 => exact Step.emit h1 h2
  | emitLast h1 => exact Step.emitLast h1
  | close h1 h2 h3 h4 => exact Step.close h1 h2 h3 h4
  | closeLast h1 h2 h3 h4 => exact Step.closeLast h1 h2 h3 h4
  | tail _ ih => exact Step.tail ih

theorem step_ostep {α : Type} {s s' : List (Cell α)} (h : Step s s') : ∃ a, OStep s a s' := by
  induction h with
  | take h1 h2 h3 => exact ⟨_, OStep.take h1 h2 h3⟩
  | emit h1 h2 => exact ⟨_, OStep.emit h1 h2⟩
  | emitLast h1 => exact ⟨_, OStep.emitLast h1⟩
  | close h1 h2 h3 h4 => exact ⟨_, OStep.close h1 h2 h3 h4⟩
  | closeLast h1 h2 h3 h4 => exact ⟨_, OStep.closeLast h1 h2 h3 h4⟩
  | tail _ ih => obtain ⟨a, ha⟩ := ih; exact ⟨a, OStep.tail ha⟩

/-! ### the last stage -/

theorem lastDone_cons {α : Type} (c : Cell α) {r : List (Cell α)} (hr : r ≠ []) :
    lastDone (c :: r) = lastDone r := by
  cases r with
  | nil => exact absurd rfl hr
  | cons d r => rfl

theorem ostep_lastDone {α : Type} {s s' : List (Cell α)} {a : Act α} (h : OStep s a s') :
    (a = .fin → lastDone s' = true) ∧ (a ≠ .fin → lastDone s' = lastDone s) := by
  induction h with
  | @take c x xs r _ _ _ => exact ⟨fun h => (by cases h), fun _ => (by cases r <;> simp [lastDone])⟩
  | @emit c d y ys r _ _ => exact ⟨fun h => (by cases h), fun _ => (by cases r <;> simp [lastDone])⟩
  | emitLast _ => exact ⟨fun h => (by cases h), fun _ => (by simp [lastDone])⟩
  | @close c d r _ _ _ _ => exact ⟨fun h => (by cases h), fun _ => (by cases r <;> simp [lastDone])⟩
  | closeLast _ _ _ _ => exact ⟨fun _ => (by simp [lastDone]), fun h => absurd rfl h⟩
  | @tail c a r r' hs ih =>
    have hn := step_ne_nil (ostep_step hs)
    rw [lastDone_cons c hn.1, lastDone_cons c hn.2]
    exact ih

theorem ostep_live {α : Type} {s s' : List (Cell α)} {a : Act α} (h : OStep s a s') (hl : Linked s) :
    a ≠ .tau → lastDone s = false := by
  induction h with
  | take _ _ _ => intro h; exact absurd rfl h
  | emit _ _ => intro h; exact absurd rfl h
  | @emitLast c y ys hh =>
    intro _
    have hw : WFc c := hl
    cases hd : c.done with
    | false => simp [lastDone, hd]
    | true => have := (hw.2 hd).2.2; rw [hh] at this; cases this
  | close _ _ _ _ => intro h; exact absurd rfl h
  | @closeLast c _ _ _ hd => intro _; simp [lastDone, hd]
  | @tail c a r r' hs ih =>
    intro ha
    rw [lastDone_cons c (step_ne_nil (ostep_step hs)).1]
    exact ih (linked_tail hl) ha

theorem linked_lastDone {α : Type} : ∀ (s : List (Cell α)), Linked s → lastDone s = true →
    AllDone s ∧ headInClosed s = true := by
  intro s
  induction s with
  | nil => intro _ _; exact ⟨fun x hx => (by cases hx), rfl⟩
  | cons c r ih =>
    intro hl hd
    cases r with
    | nil =>
      have hw : WFc c := hl
      have hcd : c.done = true := hd
      refine ⟨fun x hx => ?_, (hw.2 hcd).1⟩
      simp at hx
      subst hx
      exact hcd
    | cons e r =>
      obtain ⟨hw, hlink, ht⟩ := hl
      obtain ⟨hall, hei⟩ := ih ht hd
      have hcd : c.done = true := by rw [← hlink]; exact hei
      refine ⟨fun x hx => ?_, (hw.2 hcd).1⟩
      cases hx with
      | head => exact hcd
      | tail _ hx' => exact hall x hx'

theorem alldone_lastDone {α : Type} : ∀ (s : List (Cell α)), AllDone s → lastDone s = true := by
  intro s
  induction s with
  | nil => intro _; rfl
  | cons c r ih =>
    intro h
    cases r with
    | nil => exact h c (by simp)
    | cons e r => exact ih (fun x hx => h x (List.mem_cons_of_mem _ hx))

/-! ### the weighted measure -/

def actCost {α : Type} (d : α → Nat) : Act α → Nat
  | .tau => 0
  | .out y => d y
  | .fin => 0

theorem muD_ostep {α : Type} (d : α → Nat) {s s' : List (Cell α)} {a : Act α} (h : OStep s a s') :
    muD d s' + actCost d a < muD d s := by
  induction h with
  | @take c x xs r hh hb hd =>
    simp [muD, hh, hb, hd, sumMap, wItemD, actCost]
    omega
  | @emit c e y ys r hh hroom =>
    simp [muD, hh, sumMap, wItemD, fsOf, sumMap_append, actCost]
    omega
  | @emitLast c y ys hh =>
    simp [muD, hh, sumMap, wItemD, fsOf, actCost]
    omega
  | @close c e r hh hb hi hd =>
    simp [muD, hh, hb, hd, sumMap, fsOf, actCost]
  | @closeLast c hh hb hi hd =>
    simp [muD, hh, hb, hd, sumMap, fsOf, actCost]
  | @tail c a r r' hs ih =>
    have hf := step_fs (ostep_step hs)
    simp only [muD, hf]
    omega

theorem muD_headAppend {α : Type} (d : α → Nat) (t : α) (b : List (Cell α)) (hb : b ≠ []) :
    muD d (headAppend t b) = muD d b + wItemD d (fsOf b) t := by
  cases b with
  | nil => exact absurd rfl hb
  | cons c r =>
    simp [headAppend, muD, sumMap_append, sumMap, fsOf]
    omega

theorem muD_headClose {α : Type} (d : α → Nat) (b : List (Cell α)) : muD d (headClose b) = muD d b := by
  cases b <;> simp [headClose, muD]

/-- the measure of Grip.Model.C07 is the weighted one with nothing owed behind the chain -/
theorem wItemD_zero {α : Type} : ∀ (fs : List (α → List α)) (x : α), wItemD d0 fs x = wItem fs x := by
  intro fs
  induction fs with
  | nil => intro x; rfl
  | cons f fs ih => intro x; simp [wItemD, wItem, ih]

theorem muD_zero {α : Type} : ∀ (s : List (Cell α)), muD d0 s = mu s := by
  intro s
  induction s with
  | nil => rfl
  | cons c r ih =>
    have h1 : wItemD d0 (c.f :: fsOf r) = wItem (c.f :: fsOf r) := funext (wItemD_zero _)
    have h2 : (fun y => 1 + wItemD d0 (fsOf r) y) = (fun y => 1 + wItem (fsOf r) y) :=
      funext (fun y => by rw [wItemD_zero])
    simp only [muD, mu, wHand, h1, h2, ih]

/-! ### the chain is a well-behaved component -/

theorem headInClosed_headAppend {α : Type} (t : α) (b : List (Cell α)) :
    headInClosed (headAppend t b) = headInClosed b := by
  cases b <;> rfl

theorem lastDone_headAppend {α : Type} (t : α) (b : List (Cell α)) :
    lastDone (headAppend t b) = lastDone b := by
  cases b with
  | nil => rfl
  | cons c r => cases r <;> rfl

theorem lastDone_headClose {α : Type} (b : List (Cell α)) : lastDone (headClose b) = lastDone b := by
  cases b with
  | nil => rfl
  | cons c r => cases r <;> rfl

theorem headAppend_ne_nil {α : Type} (t : α) {b : List (Cell α)} (h : b ≠ []) : headAppend t b ≠ [] := by
  cases b with
  | nil => exact absurd rfl h
  | cons c r => simp [headAppend]

theorem headClose_ne_nil {α : Type} {b : List (Cell α)} (h : b ≠ []) : headClose b ≠ [] := by
  cases b with
  | nil => exact absurd rfl h
  | cons c r => simp [headClose]

theorem headInClosed_headClose {α : Type} {b : List (Cell α)} (h : b ≠ []) : headInClosed (headClose b) = true := by
  cases b with
  | nil => exact absurd rfl h
  | cons c r => rfl

def chainInv {α : Type} (fs : List (α → List α)) (s : List (Cell α)) : Prop :=
  Linked s ∧ s ≠ [] ∧ fsOf s = fs

theorem chain_progress {α : Type} {s : List (Cell α)} (hl : Linked s) (hne : s ≠ [])
    (he : lastDone s = false) :
    (∃ s', OStep s .tau s') ∨ (∃ y s', OStep s (.out y) s') ∨ (∃ s', OStep s .fin s') ∨
      (headRoom s ∧ headInClosed s = false) := by
  have hmove : (∃ b', Step s b') →
      (∃ s', OStep s .tau s') ∨ (∃ y s', OStep s (.out y) s') ∨ (∃ s', OStep s .fin s') ∨
        (headRoom s ∧ headInClosed s = false) := by
    rintro ⟨b', hs⟩
    obtain ⟨a, ha⟩ := step_ostep hs
    cases a with
    | tau => exact Or.inl ⟨_, ha⟩
    | out y => exact Or.inr (Or.inl ⟨y, _, ha⟩)
    | fin => exact Or.inr (Or.inr (Or.inl ⟨_, ha⟩))
  by_cases hci : headInClosed s = true
  · by_cases hm : ∃ b', Step s b'
    · exact hmove hm
    · have := alldone_lastDone s (closed_branch_done hl hci (fun b' hs => hm ⟨b', hs⟩))
      rw [he] at this
      cases this
  · have hci' : headInClosed s = false := by simpa using hci
    by_cases hroom : headRoom s
    · exact Or.inr (Or.inr (Or.inr ⟨hroom, hci'⟩))
    · exact hmove (fed_branch_moves hl hne hci' hroom)

theorem chain_inv_step {α : Type} {fs : List (α → List α)} {s s' : List (Cell α)} {a : Act α}
    (hi : chainInv fs s) (h : OStep s a s') : chainInv fs s' :=
  ⟨linked_step (ostep_step h) hi.1, (step_ne_nil (ostep_step h)).2, by rw [step_fs (ostep_step h)]; exact hi.2.2⟩

theorem chain_inv_put {α : Type} {fs : List (α → List α)} {s : List (Cell α)} (x : α)
    (hi : chainInv fs s) (hc : headInClosed s = false) : chainInv fs (headAppend x s) :=
  ⟨linked_headAppend x hi.1 hc, headAppend_ne_nil x hi.2.1, by rw [fsOf_headAppend]; exact hi.2.2⟩

theorem chain_inv_shut {α : Type} {fs : List (α → List α)} {s : List (Cell α)}
    (hi : chainInv fs s) : chainInv fs (headClose s) :=
  ⟨linked_headClose hi.1, headClose_ne_nil hi.2.1, by rw [fsOf_headClose]; exact hi.2.2⟩

theorem chain_w_put {α : Type} {fs : List (α → List α)} (d : α → Nat) {s : List (Cell α)} (x : α)
    (hi : chainInv fs s) : muD d (headAppend x s) ≤ muD d s + wItemD d fs x := by
  rw [muD_headAppend d x s hi.2.1, hi.2.2]
  exact Nat.le_refl _

theorem chain_w_shut {α : Type} (d : α → Nat) (s : List (Cell α)) : muD d (headClose s) ≤ muD d s := by
  rw [muD_headClose]
  exact Nat.le_refl _

theorem chain_w_step {α : Type} (d : α → Nat) {s s' : List (Cell α)} (h : OStep s .tau s') :
    muD d s' < muD d s := by
  have := muD_ostep d h; simpa [actCost] using this

theorem chain_w_out {α : Type} (d : α → Nat) {s s' : List (Cell α)} {y : α} (h : OStep s (.out y) s') :
    muD d s' + d y < muD d s := by
  have := muD_ostep d h; simpa [actCost] using this

theorem chain_w_fin {α : Type} (d : α → Nat) {s s' : List (Cell α)} (h : OStep s .fin s') :
    muD d s' < muD d s := by
  have := muD_ostep d h; simpa [actCost] using this

/-- the chain with stage functions `fs`, measured by `muD` -/
def chainGoodN {α : Type} (fs : List (α → List α)) : GoodN (chainC α) where
  inv := chainInv fs
  inv_tau := fun {s s'} hi h => chain_inv_step hi h
  inv_out := fun {s y s'} hi h => chain_inv_step hi h
  inv_fin := fun {s s'} hi h => chain_inv_step hi h
  inv_put := fun {s} x hi hc _ => chain_inv_put x hi hc
  inv_shut := fun {s} hi _ => chain_inv_shut hi
  closed_tau := fun {s s'} _ h => headInClosed_step (ostep_step h)
  closed_out := fun {s y s'} _ h => headInClosed_step (ostep_step h)
  closed_fin := fun {s s'} _ h => headInClosed_step (ostep_step h)
  closed_put := fun {s} x _ => headInClosed_headAppend x s
  closed_shut := fun {s} hi => headInClosed_headClose hi.2.1
  ended_tau := fun {s s'} _ h => (ostep_lastDone h).2 (by simp)
  ended_out := fun {s y s'} _ h => (ostep_lastDone h).2 (by simp)
  ended_fin := fun {s s'} _ h => (ostep_lastDone h).1 rfl
  ended_put := fun {s} x _ => lastDone_headAppend x s
  ended_shut := fun {s} _ => lastDone_headClose s
  live_out := fun {s y s'} hi h => ostep_live h hi.1 (by simp)
  live_fin := fun {s s'} hi h => ostep_live h hi.1 (by simp)
  ended_closed := fun {s} hi he => (linked_lastDone s hi.1 he).2
  progress := fun {s} hi he => chain_progress hi.1 hi.2.1 he
  w := muD
  wi := fun d => wItemD d fs
  w_tau := fun {d s s'} _ h => chain_w_step d h
  w_out := fun {d s y s'} _ h => chain_w_out d h
  w_fin := fun {d s s'} _ h => chain_w_fin d h
  w_put := fun {d s} x hi _ _ => chain_w_put d x hi
  w_shut := fun {d s} _ _ => chain_w_shut d s

/-! ### the empty chain -/

theorem linked_emptyChain {α : Type} (stages : List (Nat × (α → List α))) (hpos : ∀ s ∈ stages, 0 < s.1) :
    Linked (emptyChain stages) := by
  induction stages with
  | nil => trivial
  | cons a rest ih =>
    have ha : 0 < a.1 := hpos a (by simp)
    have ih' := ih (fun s hs => hpos s (List.mem_cons_of_mem _ hs))
    cases rest with
    | nil => exact ⟨ha, by simp⟩
    | cons b rest => exact ⟨⟨ha, by simp⟩, rfl, ih'⟩

theorem chainInv_empty {α : Type} (stages : List (Nat × (α → List α))) (hpos : ∀ s ∈ stages, 0 < s.1)
    (hne : stages ≠ []) : chainInv (stages.map (·.2)) (emptyChain stages) := by
  refine ⟨linked_emptyChain stages hpos, ?_, ?_⟩
  · cases stages with
    | nil => exact absurd rfl hne
    | cons a r => simp [emptyChain]
  · simp [fsOf, emptyChain, List.map_map, Function.comp_def]

theorem closed_emptyChain {α : Type} (stages : List (Nat × (α → List α))) (hne : stages ≠ []) :
    headInClosed (emptyChain stages) = false := by
  cases stages with
  | nil => exact absurd rfl hne
  | cons a r => rfl

theorem lastDone_emptyChain {α : Type} (stages : List (Nat × (α → List α))) (hne : stages ≠ []) :
    lastDone (emptyChain stages) = false := by
  induction stages with
  | nil => exact absurd rfl hne
  | cons a r ih =>
    cases r with
    | nil => rfl
    | cons b r => exact ih (by simp)

theorem muD_emptyChain {α : Type} (d : α → Nat) (stages : List (Nat × (α → List α))) :
    muD d (emptyChain stages) = stages.length := by
  induction stages with
  | nil => rfl
  | cons a r ih =>
    simp only [emptyChain, List.map_cons, muD, sumMap, List.length_cons] at ih ⊢
    rw [ih]
    simp
    omega

end Grip.Props.C07.Lemmas
