/-
  Lemmas for C07: the `both` stage as it was written (§2, counters) and as repaired (§3).
-/
import GripProofs.Lemmas.C07

namespace Grip.Props.C07.Lemmas
open Grip.C07

/-! ### §2 one-to-one branches that nobody drains -/

def BWF : List FCell → Prop
  | [] => True
  | [c] => 0 < c.cap ∧ c.buf ≤ c.cap ∧ c.hand = false
  | c :: d :: r => 0 < c.cap ∧ c.buf ≤ c.cap ∧ BWF (d :: r)

theorem bwf_head {c : FCell} {r : List FCell} (h : BWF (c :: r)) : 0 < c.cap ∧ c.buf ≤ c.cap := by
  cases r with
  | nil => exact ⟨h.1, h.2.1⟩
  | cons d r => exact ⟨h.1, h.2.1⟩

theorem bwf_tail {c : FCell} {r : List FCell} (h : BWF (c :: r)) : BWF r := by
  cases r with
  | nil => trivial
  | cons d r => exact h.2.2

theorem fstep_head {c : FCell} {r b' : List FCell} (h : FStep (c :: r) b') :
    ∃ c' r', b' = c' :: r' ∧ c'.cap = c.cap ∧ r'.length = r.length := by
  cases h with
  | take _ _ => exact ⟨_, _, rfl, rfl, rfl⟩
  | emit _ _ => exact ⟨_, _, rfl, rfl, rfl⟩
  | @tail _ r r' hs =>
    refine ⟨_, _, rfl, rfl, ?_⟩
    clear c
    induction hs with
    | take _ _ => rfl
    | emit _ _ => rfl
    | tail _ ih => simp [ih]

theorem fstep_length {b b' : List FCell} (h : FStep b b') : b'.length = b.length := by
  induction h with
  | take _ _ => rfl
  | emit _ _ => rfl
  | tail _ ih => simp [ih]

theorem fstep_bwf {b b' : List FCell} (h : FStep b b') (hw : BWF b) : BWF b' := by
  induction h with
  | @take c d r hh hb =>
    obtain ⟨h1, h2, h3⟩ := hw
    exact ⟨h1, by simp; omega, h3⟩
  | @emit c d r hh hroom =>
    obtain ⟨h1, h2, h3⟩ := hw
    cases r with
    | nil => exact ⟨h1, h2, h3.1, by simp; omega, h3.2.2⟩
    | cons e r => exact ⟨h1, h2, h3.1, by simp; omega, h3.2.2⟩
  | @tail c r r' hs ih =>
    have ht := ih (bwf_tail hw)
    have hc := bwf_head hw
    cases r with
    | nil => cases hs
    | cons d r =>
      obtain ⟨d', r'', he, _, _⟩ := fstep_head hs
      subst he
      exact ⟨hc.1, hc.2, ht⟩

theorem fstep_held {b b' : List FCell} (h : FStep b b') : held b' = held b := by
  induction h with
  | @take c d r hh hb => simp [held, hh]; omega
  | @emit c d r hh hroom => simp [held, hh]; omega
  | tail _ ih => simp [held, ih]

theorem fstep_absorb {b b' : List FCell} (h : FStep b b') : absorb b' = absorb b := by
  induction h with
  | take _ _ => simp [absorb]
  | @emit c d r _ _ => cases r <;> simp [absorb]
  | @tail c r r' hs ih =>
    cases r with
    | nil => cases hs
    | cons d r =>
      obtain ⟨d', r'', he, _, _⟩ := fstep_head hs
      subst he
      simp [absorb, ih]

theorem held_le_absorb : ∀ (b : List FCell), BWF b → held b ≤ absorb b := by
  intro b
  induction b with
  | nil => intro _; simp [held, absorb]
  | cons c r ih =>
    intro hw
    cases r with
    | nil =>
      obtain ⟨_, h2, h3⟩ := hw
      simp [held, absorb, h3]; exact h2
    | cons d r =>
      have := ih hw.2.2
      have h2 := hw.2.1
      simp only [held, absorb] at this ⊢
      split <;> omega

/-- nothing moves and the first channel is full: every channel is full and every stage holds an item -/
theorem stuck_full : ∀ (r : List FCell) (c : FCell), BWF (c :: r) → (∀ b', ¬ FStep (c :: r) b') →
    c.buf = c.cap → held (c :: r) = absorb (c :: r) := by
  intro r
  induction r with
  | nil =>
    intro c hw _ hfull
    simp [held, absorb, hw.2.2, hfull]
  | cons d r ih =>
    intro c hw hno hfull
    obtain ⟨hcap, _, ht⟩ := hw
    have hhand : c.hand = true := by
      cases hh : c.hand with
      | true => rfl
      | false => exact absurd (FStep.take hh (by omega)) (hno _)
    have hd := bwf_head ht
    have hdfull : d.buf = d.cap := by
      by_cases hlt : d.buf < d.cap
      · exact absurd (FStep.emit hhand hlt) (hno _)
      · omega
    have := ih d ht (fun b' hs => hno _ (FStep.tail hs)) hdfull
    simp only [held, absorb, hhand] at this ⊢
    simp
    omega

theorem fw_step {b b' : List FCell} (h : FStep b b') : fw b' < fw b := by
  induction h with
  | @take c d r hh hb =>
    obtain ⟨k, hk⟩ : ∃ k, c.buf = k + 1 := ⟨c.buf - 1, by omega⟩
    simp [fw, hh, hk, wbuf]
    omega
  | @emit c d r hh hroom =>
    simp [fw, hh, wbuf]
    omega
  | @tail c r r' hs ih =>
    have := fstep_length hs
    simp [fw, this]
    omega

theorem wbuf_le (k l : Nat) : wbuf (k + 1) l = 2 * l + wbuf k l := rfl

/-- every step of the as-written both decreases `wMu` -/
theorem wMu_step {s s' : WState} (h : WStep s s') : wMu s' < wMu s := by
  cases h with
  | @push0 c r htodo hturn hb hroom =>
    simp [wMu, hturn, hb, fw, wbuf]
    omega
  | @push1 c r htodo hturn hb hroom =>
    obtain ⟨k, hk⟩ : ∃ k, s.todo = k + 1 := ⟨s.todo - 1, by omega⟩
    simp [wMu, hturn, hb, hk, fw, wbuf]
    omega
  | @in0 b hs =>
    have h1 := fw_step hs
    have h2 := fstep_length hs
    simp [wMu, h2]
    omega
  | @in1 b hs =>
    have h1 := fw_step hs
    have h2 := fstep_length hs
    simp [wMu, h2]
    omega

/-- invariant of the as-written both started with `n` items on branches absorbing `k0`, `k1` -/
def WInv (n k0 k1 : Nat) (s : WState) : Prop :=
  BWF s.b0 ∧ BWF s.b1 ∧ absorb s.b0 = k0 ∧ absorb s.b1 = k1 ∧
  held s.b0 + s.todo = n + (if s.turn then 1 else 0) ∧ held s.b1 + s.todo = n ∧ (s.turn = true → 0 < s.todo)

theorem bwf_push {c : FCell} {r : List FCell} (hw : BWF (c :: r)) (hroom : c.buf < c.cap) :
    BWF ({ c with buf := c.buf + 1 } :: r) := by
  cases r with
  | nil => exact ⟨hw.1, by simp; omega, hw.2.2⟩
  | cons d r => exact ⟨hw.1, by simp; omega, hw.2.2⟩

theorem absorb_push {c : FCell} {r : List FCell} :
    absorb ({ c with buf := c.buf + 1 } :: r) = absorb (c :: r) := by
  cases r <;> simp [absorb]

theorem winv_step {n k0 k1 : Nat} {s s' : WState} (hi : WInv n k0 k1 s) (h : WStep s s') : WInv n k0 k1 s' := by
  obtain ⟨hw0, hw1, ha0, ha1, hh0, hh1, ht⟩ := hi
  cases h with
  | @push0 c r htodo hturn hb hroom =>
    rw [hb] at hw0 ha0 hh0
    refine ⟨bwf_push hw0 hroom, hw1, by rw [absorb_push]; exact ha0, ha1, ?_, hh1, fun _ => htodo⟩
    simp [held, hturn] at hh0 ⊢
    omega
  | @push1 c r htodo hturn hb hroom =>
    rw [hb] at hw1 ha1 hh1
    refine ⟨hw0, bwf_push hw1 hroom, ha0, by rw [absorb_push]; exact ha1, ?_, ?_, by simp⟩
    · simp [hturn] at hh0 ⊢; omega
    · simp [held] at hh1 ⊢; omega
  | @in0 b hs =>
    exact ⟨fstep_bwf hs hw0, hw1, by rw [fstep_absorb hs]; exact ha0, ha1, by rw [fstep_held hs]; exact hh0, hh1, ht⟩
  | @in1 b hs =>
    exact ⟨hw0, fstep_bwf hs hw1, ha0, by rw [fstep_absorb hs]; exact ha1, hh0, by rw [fstep_held hs]; exact hh1, ht⟩

theorem bwf_empty (caps : List Nat) (hpos : ∀ c ∈ caps, 0 < c) : BWF (emptyBranch caps) := by
  induction caps with
  | nil => trivial
  | cons a rest ih =>
    have ha : 0 < a := hpos a (by simp)
    have ih' := ih (fun c hc => hpos c (List.mem_cons_of_mem _ hc))
    cases rest with
    | nil => exact ⟨ha, by simp, rfl⟩
    | cons b rest => exact ⟨ha, by simp, ih'⟩

theorem held_empty (caps : List Nat) : held (emptyBranch caps) = 0 := by
  induction caps with
  | nil => rfl
  | cons a rest ih => simp [emptyBranch, held] at ih ⊢; exact ih

theorem winv_init (n : Nat) (caps0 caps1 : List Nat) (h0 : ∀ c ∈ caps0, 0 < c) (h1 : ∀ c ∈ caps1, 0 < c) :
    WInv n (absorb (emptyBranch caps0)) (absorb (emptyBranch caps1)) (wInit n caps0 caps1) := by
  refine ⟨bwf_empty _ h0, bwf_empty _ h1, rfl, rfl, ?_, ?_, ?_⟩
  · simp [wInit, held_empty]
  · simp [wInit, held_empty]
  · simp [wInit]

/-! ### §3 the repaired both -/

theorem fsOf_headAppend {α : Type} (t : α) (b : List (Cell α)) : fsOf (headAppend t b) = fsOf b := by
  cases b <;> simp [headAppend, fsOf]

theorem fsOf_headClose {α : Type} (b : List (Cell α)) : fsOf (headClose b) = fsOf b := by
  cases b <;> simp [headClose, fsOf]

theorem mu_headClose {α : Type} (b : List (Cell α)) : mu (headClose b) = mu b := by
  cases b <;> simp [headClose, mu]

theorem mu_headAppend {α : Type} (t : α) (b : List (Cell α)) (hb : b ≠ []) :
    mu (headAppend t b) = mu b + wItem (fsOf b) t := by
  cases b with
  | nil => exact absurd rfl hb
  | cons c r =>
    simp [headAppend, mu, sumMap_append, sumMap, fsOf]
    omega

theorem headRoom_ne_nil {α : Type} {b : List (Cell α)} (h : headRoom b) : b ≠ [] := by
  cases b with
  | nil => exact absurd h (by simp [headRoom])
  | cons c r => simp

theorem bMu_step {α : Type} {s s' : BState α} (h : BStep s s') : bMu s' < bMu s := by
  cases h with
  | @push0 t ts htodo hturn hroom =>
    have hne := headRoom_ne_nil hroom
    simp [bMu, htodo, hturn, feedW, sumMap, fsOf_headAppend, mu_headAppend t s.b0 hne]
    omega
  | @push1 t ts htodo hturn hroom =>
    have hne := headRoom_ne_nil hroom
    simp [bMu, htodo, hturn, feedW, sumMap, fsOf_headAppend, mu_headAppend t s.b1 hne]
    omega
  | @closeFeed htodo hfed =>
    cases hturn : s.turn <;>
      simp [bMu, htodo, hfed, hturn, feedW, sumMap, fsOf_headClose, mu_headClose]
  | @in0 b hs =>
    have h1 := mu_step hs
    have h2 := step_fs hs
    simp only [bMu, h2]
    omega
  | @in1 b hs =>
    have h1 := mu_step hs
    have h2 := step_fs hs
    simp only [bMu, h2]
    omega

theorem headInClosed_step {α : Type} {b b' : List (Cell α)} (h : Step b b') : headInClosed b' = headInClosed b := by
  cases b with
  | nil => exact absurd rfl (step_ne_nil h).1
  | cons c r =>
    obtain ⟨c', r', he, hin, _, _⟩ := step_head h
    subst he
    simp [headInClosed, hin]

theorem linked_headAppend {α : Type} (t : α) {b : List (Cell α)} (hl : Linked b) (hopen : headInClosed b = false) :
    Linked (headAppend t b) := by
  cases b with
  | nil => trivial
  | cons c r =>
    have hw := linked_head hl
    have hci : c.inClosed = false := hopen
    have hcd : c.done = false := by
      cases hcd : c.done with
      | false => rfl
      | true => have := (hw.2 hcd).1; rw [hci] at this; cases this
    have hw' : WFc { c with buf := c.buf ++ [t] } := ⟨hw.1, by simp [hcd]⟩
    cases r with
    | nil => exact hw'
    | cons d r => exact ⟨hw', hl.2.1, hl.2.2⟩

theorem linked_headClose {α : Type} {b : List (Cell α)} (hl : Linked b) : Linked (headClose b) := by
  cases b with
  | nil => trivial
  | cons c r =>
    have hw := linked_head hl
    have hw' : WFc { c with inClosed := true } := ⟨hw.1, fun hd => ⟨rfl, (hw.2 hd).2⟩⟩
    cases r with
    | nil => exact hw'
    | cons d r => exact ⟨hw', hl.2.1, hl.2.2⟩

theorem binv_step {α : Type} {s s' : BState α} (hi : BInv s) (h : BStep s s') : BInv s' := by
  obtain ⟨hl0, hl1, hn0, hn1, hc0, hc1, hturn, hfed⟩ := hi
  have hopen : ∀ t ts, s.todo = t :: ts → s.fedClosed = false := by
    intro t ts ht
    cases hf : s.fedClosed with
    | false => rfl
    | true => have := hfed hf; rw [ht] at this; cases this
  cases h with
  | @push0 t ts htodo htn hroom =>
    have hf := hopen t ts htodo
    refine ⟨linked_headAppend t hl0 (by rw [hc0, hf]), hl1, ?_, hn1, ?_, hc1, fun _ => by simp [htodo], hfed⟩
    · cases hb : s.b0 with
      | nil => exact absurd hb hn0
      | cons c r => simp [headAppend]
    · cases hb : s.b0 with
      | nil => exact absurd hb hn0
      | cons c r => rw [hb] at hc0; simpa [headAppend, headInClosed] using hc0
  | @push1 t ts htodo htn hroom =>
    have hf := hopen t ts htodo
    refine ⟨hl0, linked_headAppend t hl1 (by rw [hc1, hf]), hn0, ?_, hc0, ?_, by simp, ?_⟩
    · cases hb : s.b1 with
      | nil => exact absurd hb hn1
      | cons c r => simp [headAppend]
    · cases hb : s.b1 with
      | nil => exact absurd hb hn1
      | cons c r => rw [hb] at hc1; simpa [headAppend, headInClosed] using hc1
    · intro hf'; simp at hf'; rw [hf'] at hf; cases hf
  | @closeFeed htodo hf =>
    refine ⟨linked_headClose hl0, linked_headClose hl1, ?_, ?_, ?_, ?_, ?_, fun _ => htodo⟩
    · cases hb : s.b0 with
      | nil => exact absurd hb hn0
      | cons c r => simp [headClose]
    · cases hb : s.b1 with
      | nil => exact absurd hb hn1
      | cons c r => simp [headClose]
    · cases hb : s.b0 with
      | nil => exact absurd hb hn0
      | cons c r => simp [headClose, headInClosed]
    · cases hb : s.b1 with
      | nil => exact absurd hb hn1
      | cons c r => simp [headClose, headInClosed]
    · intro ht; have := hturn ht; exact absurd htodo this
  | @in0 b hs =>
    exact ⟨linked_step hs hl0, hl1, (step_ne_nil hs).2, hn1, by rw [headInClosed_step hs]; exact hc0, hc1, hturn, hfed⟩
  | @in1 b hs =>
    exact ⟨hl0, linked_step hs hl1, hn0, (step_ne_nil hs).2, hc0, by rw [headInClosed_step hs]; exact hc1, hturn, hfed⟩

/-- a branch that is being fed and whose first channel is full can move -/
theorem fed_branch_moves {α : Type} {b : List (Cell α)} (hl : Linked b) (hne : b ≠ [])
    (hopen : headInClosed b = false) (hfull : ¬ headRoom b) : ∃ b', Step b b' := by
  cases b with
  | nil => exact absurd rfl hne
  | cons c r =>
    have hw := linked_head hl
    have hci : c.inClosed = false := hopen
    have hcd : c.done = false := by
      cases hcd : c.done with
      | false => rfl
      | true => have := (hw.2 hcd).1; rw [hci] at this; cases this
    cases progress r c hl hcd with
    | inl h => exact h
    | inr h =>
      exfalso
      apply hfull
      simp [headRoom, h.1]
      exact hw.1

theorem closed_branch_done {α : Type} {b : List (Cell α)} (hl : Linked b) (hclosed : headInClosed b = true)
    (hno : ∀ b', ¬ Step b b') : AllDone b := by
  cases b with
  | nil => intro x hx; cases hx
  | cons c r => exact stuck_done r c hl hclosed hno

theorem bprogress {α : Type} {s : BState α} (hi : BInv s) (hnf : ¬ BFinal s) : ∃ s', BStep s s' := by
  obtain ⟨hl0, hl1, hn0, hn1, hc0, hc1, hturn, hfed⟩ := hi
  cases htodo : s.todo with
  | cons t ts =>
    have hf : s.fedClosed = false := by
      cases hf : s.fedClosed with
      | false => rfl
      | true => have := hfed hf; rw [htodo] at this; cases this
    cases htn : s.turn with
    | false =>
      by_cases hroom : headRoom s.b0
      · exact ⟨_, BStep.push0 htodo htn hroom⟩
      · obtain ⟨b', hs⟩ := fed_branch_moves hl0 hn0 (by rw [hc0, hf]) hroom
        exact ⟨_, BStep.in0 hs⟩
    | true =>
      by_cases hroom : headRoom s.b1
      · exact ⟨_, BStep.push1 htodo htn hroom⟩
      · obtain ⟨b', hs⟩ := fed_branch_moves hl1 hn1 (by rw [hc1, hf]) hroom
        exact ⟨_, BStep.in1 hs⟩
  | nil =>
    cases hf : s.fedClosed with
    | false => exact ⟨_, BStep.closeFeed htodo hf⟩
    | true =>
      by_cases h0 : ∃ b', Step s.b0 b'
      · obtain ⟨b', hs⟩ := h0; exact ⟨_, BStep.in0 hs⟩
      · by_cases h1 : ∃ b', Step s.b1 b'
        · obtain ⟨b', hs⟩ := h1; exact ⟨_, BStep.in1 hs⟩
        · exfalso
          apply hnf
          refine ⟨hf, closed_branch_done hl0 (by rw [hc0, hf]) (fun b' hs => h0 ⟨b', hs⟩),
            closed_branch_done hl1 (by rw [hc1, hf]) (fun b' hs => h1 ⟨b', hs⟩)⟩

theorem binv_init {α : Type} (input : List α) (st0 st1 : List (Nat × (α → List α)))
    (h0 : ∀ s ∈ st0, 0 < s.1) (h1 : ∀ s ∈ st1, 0 < s.1) (hn0 : st0 ≠ []) (hn1 : st1 ≠ []) :
    BInv (bInit input st0 st1) := by
  have tailLinked : ∀ (rest : List (Nat × (α → List α))), (∀ s ∈ rest, 0 < s.1) →
      Linked (rest.map (fun s => ({ cap := s.1, f := s.2, buf := [], hand := [], inClosed := false, done := false } : Cell α))) := by
    intro rest
    induction rest with
    | nil => intro _; trivial
    | cons a rest ih =>
      intro hp
      have ha : 0 < a.1 := hp a (by simp)
      have ih' := ih (fun s hs => hp s (List.mem_cons_of_mem _ hs))
      cases rest with
      | nil => exact ⟨ha, by simp⟩
      | cons b rest => exact ⟨⟨ha, by simp⟩, rfl, ih'⟩
  refine ⟨tailLinked st0 h0, tailLinked st1 h1, ?_, ?_, ?_, ?_, by simp [bInit], by simp [bInit]⟩
  · cases st0 with
    | nil => exact absurd rfl hn0
    | cons a r => simp [bInit]
  · cases st1 with
    | nil => exact absurd rfl hn1
    | cons a r => simp [bInit]
  · cases st0 with
    | nil => exact absurd rfl hn0
    | cons a r => simp [bInit, headInClosed]
  · cases st1 with
    | nil => exact absurd rfl hn1
    | cons a r => simp [bInit, headInClosed]

end Grip.Props.C07.Lemmas
