import Grip.Model.Typing

namespace Grip.Props.C01.Lemmas
open Grip

theorem find_as : handTable.find .as_ .plain = some
    { kind := .as_, variant := .plain,
      res := [.err, .ty .vertex, .ty .edge, .ty .count, .ty .aggregation, .ty .selection, .ty .render, .ty .path],
      checks := [.emptyName, .invalidName, .reservedName], setsMark := true } := by rfl

theorem typeStep_as (last : DataType) (marks : MarkTypes) (name : String) :
    typeStep ⟨last, marks⟩ (.as_ name) = typeStepT handTable ⟨last, marks⟩ (.as_ name) := by
  simp only [typeStep, typeStepT, Stmt.kind, Stmt.variant, find_as, List.find?, Stmt.checkFails]
  cases last <;> cases (name == "") <;> cases (validFieldName name) <;>
    cases (name == currentNamespace) <;> rfl

theorem find_agg : handTable.find .aggregate .plain = some
    { kind := .aggregate, variant := .plain,
      res := [.err, .ty .aggregation, .ty .aggregation, .err, .err, .err, .err, .err],
      checks := [.aggNames], setsMark := false } := by rfl

theorem typeStep_agg (last : DataType) (marks : MarkTypes) (aggs : List Agg) :
    typeStep ⟨last, marks⟩ (.aggregate aggs) = typeStepT handTable ⟨last, marks⟩ (.aggregate aggs) := by
  simp only [typeStep, needElement, typeStepT, Stmt.kind, Stmt.variant, find_agg, List.find?, Stmt.checkFails]
  cases last <;> cases (aggsBad aggs) <;> rfl

theorem typeStep_eq_table (st : TState) (s : Stmt) : typeStep st s = typeStepT handTable st s := by
  obtain ⟨last, marks⟩ := st
  cases s with
  | as_ name => exact typeStep_as last marks name
  | hasLabel l => cases l <;> cases last <;> rfl
  | hasKey l => cases l <;> cases last <;> rfl
  | hasId l => cases l <;> cases last <;> rfl
  | aggregate aggs => exact typeStep_agg last marks aggs
  | select ms =>
    match ms with
    | [] => cases last <;> rfl
    | [_] => cases last <;> rfl
    | _ :: _ :: _ => cases last <;> rfl
  | _ => cases last <;> rfl

end Grip.Props.C01.Lemmas

namespace Grip.Props.C01.Lemmas
open Grip

/-- `typeStepT` consults its table through `find` only. -/
theorem typeStepT_congr (t1 t2 : TypingTable) (h : ∀ k v, t1.find k v = t2.find k v)
    (st : TState) (s : Stmt) : typeStepT t1 st s = typeStepT t2 st s := by
  unfold typeStepT
  rw [h]

theorem Variant.mem_all (v : Variant) : v ∈ Variant.all := by cases v <;> simp [Variant.all]

end Grip.Props.C01.Lemmas
