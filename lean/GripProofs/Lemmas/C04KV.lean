/-
  Lemmas about the association-list store of Grip.Model.C03 (`KV.has/get/set/del/delWhere`) and
  the atomic writes of Grip.Model.C04.
-/
import Grip.Spec.C04

namespace Grip.Props.C04.Lemmas
open Grip.C03 Grip.C04

theorem has_iff (m : KV) (k : SKey) : m.has k = true ↔ ∃ v, (k, v) ∈ m := by
  unfold KV.has
  rw [List.any_eq_true]
  constructor
  · rintro ⟨⟨k', v⟩, hm, hk⟩
    have : k' = k := by simpa using hk
    subst this; exact ⟨v, hm⟩
  · rintro ⟨v, hm⟩; exact ⟨(k, v), hm, by simp⟩

theorem find_filter (m : KV) (q : SKey × Val → Bool) (k' : SKey)
    (hq : ∀ p : SKey × Val, p.1 = k' → q p = true) :
    (m.filter q).find? (fun p => decide (p.1 = k')) = m.find? (fun p => decide (p.1 = k')) := by
  induction m with
  | nil => rfl
  | cons p m ih =>
    rw [List.filter_cons]
    by_cases hp : p.1 = k'
    · rw [if_pos (hq p hp)]; simp [List.find?_cons, hp]
    · by_cases hqp : q p = true
      · rw [if_pos hqp]; simp [List.find?_cons, hp, ih]
      · rw [if_neg hqp]; simp [List.find?_cons, hp, ih]

theorem find_filter_none (m : KV) (q : SKey × Val → Bool) (k' : SKey)
    (hq : ∀ p : SKey × Val, p.1 = k' → q p = false) :
    (m.filter q).find? (fun p => decide (p.1 = k')) = none := by
  rw [List.find?_eq_none]
  intro p hp
  rw [List.mem_filter] at hp
  intro e
  have e' : p.1 = k' := by simpa using e
  rw [hq p e'] at hp
  exact absurd hp.2 (by simp)

theorem has_eq_get (m : KV) (k : SKey) : m.has k = (m.get k).isSome := by
  unfold KV.has KV.get
  induction m with
  | nil => rfl
  | cons p m ih =>
    by_cases hp : p.1 = k
    · simp [hp]
    · simp [hp, ih]

theorem get_set (m : KV) (k k' : SKey) (v : Val) :
    (m.set k v).get k' = if k = k' then some v else m.get k' := by
  unfold KV.set KV.get KV.del
  by_cases h : k = k'
  · simp [h]
  · rw [if_neg h, List.find?_cons]
    simp only [h, decide_false]
    rw [find_filter]
    intro p hp
    have : ¬ p.1 = k := by rw [hp]; exact fun e => h e.symm
    simp [this]

theorem get_del (m : KV) (k k' : SKey) :
    (m.del k).get k' = if k' = k then none else m.get k' := by
  unfold KV.get KV.del
  by_cases h : k' = k
  · rw [if_pos h, find_filter_none]; rfl
    intro p hp
    simp [hp, h]
  · rw [if_neg h, find_filter]
    intro p hp
    have : ¬ p.1 = k := by rw [hp]; exact h
    simp [this]

theorem get_delWhere (m : KV) (p : SKey → Bool) (k' : SKey) :
    (m.delWhere p).get k' = if p k' then none else m.get k' := by
  unfold KV.get KV.delWhere
  by_cases h : p k' = true
  · rw [if_pos h, find_filter_none]; rfl
    intro q hq
    simp [hq, h]
  · rw [if_neg h, find_filter]
    intro q hq
    simp [hq, h]

theorem has_set (m : KV) (k k' : SKey) (v : Val) :
    (m.set k v).has k' = (decide (k = k') || m.has k') := by
  rw [has_eq_get, has_eq_get, get_set]
  by_cases h : k = k' <;> simp [h]

theorem has_del (m : KV) (k k' : SKey) :
    (m.del k).has k' = (!decide (k' = k) && m.has k') := by
  rw [has_eq_get, has_eq_get, get_del]
  by_cases h : k' = k <;> simp [h]

theorem has_delWhere (m : KV) (p : SKey → Bool) (k' : SKey) :
    (m.delWhere p).has k' = (!p k' && m.has k') := by
  rw [has_eq_get, has_eq_get, get_delWhere]
  by_cases h : p k' = true <;> simp [h]

theorem has_delKeys (m : KV) (ks : List SKey) (k' : SKey) :
    (delKeys m ks).has k' = (!decide (k' ∈ ks) && m.has k') := by
  unfold delKeys
  induction ks generalizing m with
  | nil => simp
  | cons k ks ih =>
    simp only [List.foldl_cons, ih, has_del, List.mem_cons]
    by_cases h1 : k' = k <;> by_cases h2 : k' ∈ ks <;> simp [h1, h2]

theorem get_delKeys (m : KV) (ks : List SKey) (k' : SKey) :
    (delKeys m ks).get k' = if k' ∈ ks then none else m.get k' := by
  unfold delKeys
  induction ks generalizing m with
  | nil => simp
  | cons k ks ih =>
    simp only [List.foldl_cons, ih, get_del, List.mem_cons]
    by_cases h1 : k' = k <;> by_cases h2 : k' ∈ ks <;> simp [h1, h2]

end Grip.Props.C04.Lemmas
