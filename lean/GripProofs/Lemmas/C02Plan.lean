/-
  Lemmas for C02, part 3: the rewritten start of a plan against the literal start, on travelers.
-/
import Grip.Model.C02
import GripProofs.Lemmas.C02Opt

namespace Grip.Props.C02.Lemmas
open Grip Grip.C02 Grip.C08

theorem stepV_filter_perm (g : AGraph) (hg : g.WellFormed) (ids : List String)
    (hne : (dedup ids).isEmpty = false) (t : Traveler) :
    ((stepV g [] t).filter (keepHasId ids)).Perm (stepV g (dedup ids) t) := by
  have hp := filter_ids_perm g hg.1 (dedup ids) (nodup_dedup ids)
  have hf : (fun v : Elem => (dedup ids).contains v.gid) = (fun v : Elem => ids.contains v.gid) := by
    funext v; exact contains_dedup v.gid ids
  rw [hf] at hp
  simp only [stepV, List.isEmpty_nil, if_true, hne, Bool.false_eq_true, if_false, List.filter_map]
  have : (keepHasId ids ∘ fun v => t.addCurrent (some (vertexElem v))) = fun v : Elem => ids.contains v.gid := by
    funext v; simp [keepHasId, curId, Traveler.addCurrent, vertexElem]
  rw [this]
  exact hp.map _

theorem stepIndex_filter_perm (g : AGraph) (hg : g.WellFormed) (ls : List String) (t : Traveler) :
    ((stepV g [] t).filter (keepHasLabel ls)).Perm (stepIndex g (dedup ls) t) := by
  have hp := filter_labels_perm g hg.1 (dedup ls) (nodup_dedup ls)
  have hf : (fun v : Elem => (dedup ls).contains v.label) = (fun v : Elem => ls.contains v.label) := by
    funext v; exact contains_dedup v.label ls
  rw [hf] at hp
  simp only [stepV, List.isEmpty_nil, if_true, List.filter_map, stepIndex]
  have : (keepHasLabel ls ∘ fun v => t.addCurrent (some (vertexElem v))) = fun v : Elem => ls.contains v.label := by
    funext v; simp [keepHasLabel, curLabel, Traveler.addCurrent, vertexElem]
  rw [this]
  exact hp.map _

/-- The two equations of `indexStartOptimize` on `V() :: tail`. -/
theorem opt_noAnd (tail : List Stmt) (h : splitAtAnd tail = none) :
    indexStartOptimize (.V [] :: tail) = rewriteTail tail := by
  rw [indexStartOptimize]
  split
  · rename_i pre es post hh; rw [h] at hh; cases hh
  · rfl

theorem opt_and (tail pre : List Stmt) (es : List HasE) (post : List Stmt)
    (h : splitAtAnd tail = some (pre, es, post)) :
    indexStartOptimize (.V [] :: tail) = indexStartOptimize (.V [] :: (pre ++ (es.map .has ++ post))) := by
  rw [indexStartOptimize]
  split
  · rename_i pre' es' post' hh
    rw [h] at hh
    simp only [Option.some.injEq, Prod.mk.injEq] at hh
    obtain ⟨rfl, rfl, rfl⟩ := hh
    rfl
  · rename_i hh; rw [h] at hh; cases hh

theorem typeFold_append : ∀ (a b : List Stmt) (st stm : TState), typeFold st a = .ok stm →
    typeFold st (a ++ b) = typeFold stm b
  | [], b, st, stm, h => by simp [typeFold] at h; subst h; rfl
  | s :: a, b, st, stm, h => by
    simp only [typeFold, List.cons_append] at h ⊢
    cases hs : typeStep st s with
    | error e => simp [hs] at h
    | ok st' => simp only [hs] at h ⊢; exact typeFold_append a b st' stm h

theorem evalFrom_append (numOf : String → Option Int) (g : AGraph) :
    ∀ (a b : List Stmt) (st stm : TState) (ts : List Traveler), typeFold st a = .ok stm →
      evalFrom numOf g st ts (a ++ b) = evalFrom numOf g stm (evalFrom numOf g st ts a) b
  | [], b, st, stm, ts, h => by simp [typeFold] at h; subst h; rfl
  | s :: a, b, st, stm, ts, h => by
    simp only [typeFold, List.cons_append, evalFrom] at h ⊢
    cases hs : typeStep st s with
    | error e => simp [hs] at h
    | ok st' => simp only [hs] at h ⊢; exact evalFrom_append numOf g a b st' stm _ h

theorem validate_append (a b : List Stmt) (hne : a ≠ []) : validate (a ++ b) = validate a := by
  cases a with
  | nil => exact absurd rfl hne
  | cons s a => cases s <;> rfl

theorem run_count (numOf : String → Option Int) (g : AGraph) (stmts : List Stmt) (rows : List Row)
    (hne : stmts ≠ []) (h : run numOf g stmts = .ok rows) :
    run numOf g (stmts ++ [.count]) = .ok [.count rows.length] := by
  unfold run at h ⊢
  unfold typeCheck at h ⊢
  rw [validate_append stmts [.count] hne]
  cases hv : validate stmts with
  | error e => simp [hv] at h
  | ok u =>
    simp only [hv] at h ⊢
    cases hf : typeFold {} stmts with
    | error e => simp [hf] at h
    | ok st =>
      simp only [hf] at h
      have hemp : stmts.isEmpty = false := by cases stmts <;> simp_all
      simp only [hemp, Bool.false_eq_true, if_false, Except.ok.injEq] at h
      subst h
      rw [typeFold_append stmts [.count] {} st hf]
      simp only [typeFold, typeStep]
      have hemp' : (stmts ++ [Stmt.count]).isEmpty = false := by cases stmts <;> simp
      simp only [hemp', Bool.false_eq_true, if_false]
      rw [evalFrom_append numOf g stmts [.count] {} st _ hf]
      simp [evalFrom, typeStep, evalStepT, convert]

end Grip.Props.C02.Lemmas
