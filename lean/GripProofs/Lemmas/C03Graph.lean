/-
  Lemmas.C03Graph — AddGraph and DeleteGraph preserve the refinement relation.
-/
import GripProofs.Lemmas.C03Add

namespace Grip.Props.C03.Lemmas
open Grip Grip.C03 Grip.C03.Spec Grip.Props.C03

/-! ### AddGraph -/

theorem addGraph_inv {m : KV} {f : List String} {a b : AG} (h : Inv m f a) (g : String)
    (hgood : GoodName g)
    (hbg : b.graphs = g :: a.graphs.filter (· ≠ g)) (hbv : b.verts = a.verts) (hbe : b.edges = a.edges) :
    Inv (((m.set (.field (labelField g "v")) .unit).set (.field (labelField g "e")) .unit).set (.graph g) .unit)
      ([labelField g "v", labelField g "e"] ++
        f.filter (fun x => !([labelField g "v", labelField g "e"]).contains x)) b := by
  have e1 : ∀ g' id, b.getV g' id = a.getV g' id := by intro g' id; simp [AG.getV, hbv]
  have e2 : ∀ g' id, b.getE g' id = a.getE g' id := by intro g' id; simp [AG.getE, hbe]
  have e3 : ∀ g' eid s d l, edgeAt b g' eid s d l = edgeAt a g' eid s d l := by
    intro g' eid s d l; simp [edgeAt, e2]
  have hmem : ∀ g', g' ∈ b.graphs ↔ g' = g ∨ g' ∈ a.graphs := by
    intro g'; rw [hbg]; simp only [List.mem_cons, List.mem_filter, decide_eq_true_eq]
    by_cases e : g' = g <;> simp [e]
  have mono : ∀ k', (m.get k').isSome →
      ((((m.set (.field (labelField g "v")) .unit).set (.field (labelField g "e")) .unit).set
        (.graph g) .unit).get k').isSome := fun k' hk =>
    isSome_get_set (isSome_get_set (isSome_get_set hk _ _) _ _) _ _
  have hfl : ∀ x, x ∈ f → x ∈ [labelField g "v", labelField g "e"] ++
        f.filter (fun x => !([labelField g "v", labelField g "e"]).contains x) := by
    intro x hx
    by_cases c : x ∈ [labelField g "v", labelField g "e"]
    · exact List.mem_append_left _ c
    · refine List.mem_append_right _ (List.mem_filter.2 ⟨hx, ?_⟩)
      simpa using c
  constructor
  · exact KV.nodup_set (KV.nodup_set (KV.nodup_set h.nodup _ _) _ _) _ _
  · rw [hbv]; exact h.vnodup
  · rw [hbe]; exact h.enodup
  · intro g'
    rw [hmem, ← h.graph g']
    simp only [KV.get_set, reduceCtorEq, ↓reduceIte, SKey.graph.injEq]
    by_cases e : g' = g <;> simp [e]
  · intro g' id; rw [e1]; simp only [KV.get_set, reduceCtorEq, ↓reduceIte]; exact h.vertex g' id
  · intro g' eid s d l; rw [e3]; simp only [KV.get_set, reduceCtorEq, ↓reduceIte]; exact h.edge g' eid s d l
  · intro g' s d eid l; rw [e3]; simp only [KV.get_set, reduceCtorEq, ↓reduceIte]; exact h.src g' s d eid l
  · intro g' d s eid l; rw [e3]; simp only [KV.get_set, reduceCtorEq, ↓reduceIte]; exact h.dst g' d s eid l
  · intro g' hg'
    rcases (hmem g').1 hg' with rfl | hg'
    · exact hgood
    · exact h.gname g' hg'
  · intro g' id r hr; rw [e1] at hr; exact (hmem g').2 (Or.inr (h.vgraph g' id r hr))
  · intro g' id r hr; rw [e2] at hr; exact (hmem g').2 (Or.inr (h.egraph g' id r hr))
  · intro g' hg'
    rcases (hmem g').1 hg' with rfl | hg'
    · refine ⟨by simp, ?_⟩
      simp [KV.get_set]
    · exact ⟨hfl _ (h.fieldsV g' hg').1, mono _ (h.fieldsV g' hg').2⟩
  · intro g' hg'
    rcases (hmem g').1 hg' with rfl | hg'
    · refine ⟨by simp, ?_⟩
      simp [KV.get_set]
    · exact ⟨hfl _ (h.fieldsE g' hg').1, mono _ (h.fieldsE g' hg').2⟩
  · intro g' id r hr; rw [e1] at hr
    have := h.vindex g' id r hr
    exact ⟨mono _ this.1, mono _ this.2⟩
  · intro g' id r hr; rw [e2] at hr
    have := h.eindex g' id r hr
    exact ⟨mono _ this.1, mono _ this.2⟩
  · intro f' hf'
    rw [hmem]
    simp only [KV.get_set, reduceCtorEq, ↓reduceIte, SKey.field.injEq] at hf'
    by_cases c1 : f' = labelField g "e"
    · left; rw [c1]; exact hgood.2
    · by_cases c2 : f' = labelField g "v"
      · left; rw [c2]; exact hgood.1
      · simp only [c1, c2, ↓reduceIte] at hf'
        right; exact h.fieldOwner f' hf'

/-- On a state that represents an abstract graph store (no crash residue), the sweep AddGraph runs
    for a name that is not listed finds nothing to delete. -/
theorem sweepGraph_noop {s : KState} {a : AG} (h : Inv s.kv s.fields a) {g : String} (hg : g ∉ a.graphs) :
    sweepGraph s g = s := by
  have hEdgeAt : ∀ eid s' d l, edgeAt a g eid s' d l = none := by
    intro eid s' d l
    unfold edgeAt
    cases hr : a.getE g eid with
    | none => rfl
    | some r => exact absurd (h.egraph g eid r hr) hg
  have hV : ∀ id v, (SKey.vertex g id, v) ∉ s.kv := by
    intro id v hp
    have hs := KV.get_isSome_of_mem hp
    rw [h.vertex] at hs
    cases hr : a.getV g id with
    | none => simp [hr] at hs
    | some r => exact hg (h.vgraph g id r hr)
  have hE : ∀ eid s' d l v, (SKey.edge g eid s' d l, v) ∉ s.kv := by
    intro eid s' d l v hp
    have hs := KV.get_isSome_of_mem hp
    rw [h.edge, hEdgeAt] at hs
    simp at hs
  have hS : ∀ s' d eid l v, (SKey.src g s' d eid l, v) ∉ s.kv := by
    intro s' d eid l v hp
    have hs := KV.get_isSome_of_mem hp
    rw [h.src, hEdgeAt] at hs
    simp at hs
  have hD : ∀ d s' eid l v, (SKey.dst g d s' eid l, v) ∉ s.kv := by
    intro d s' eid l v hp
    have hs := KV.get_isSome_of_mem hp
    rw [h.dst, hEdgeAt] at hs
    simp at hs
  have hF : ∀ f v, (SKey.field f, v) ∈ s.kv → fieldGraph f ≠ g := by
    intro f v hp e
    exact hg (e ▸ h.fieldOwner _ (KV.get_isSome_of_mem hp))
  have noop : ∀ (m : KV) (q : SKey → Bool), (∀ p ∈ m, q p.1 = false) → m.delWhere q = m := by
    intro m q hq
    unfold KV.delWhere
    apply List.filter_eq_self.2
    intro p hp; simp [hq p hp]
  simp only [sweepGraph]
  rw [noop s.kv _ (by
        intro p hp; obtain ⟨k, v⟩ := p
        cases k <;> simp
        intro e; subst e; exact hE _ _ _ _ _ hp),
      noop s.kv _ (by
        intro p hp; obtain ⟨k, v⟩ := p
        cases k <;> simp
        intro e; subst e; exact hV _ _ hp),
      noop s.kv _ (by
        intro p hp; obtain ⟨k, v⟩ := p
        cases k <;> simp
        intro e; subst e; exact hS _ _ _ _ _ hp),
      noop s.kv _ (by
        intro p hp; obtain ⟨k, v⟩ := p
        cases k <;> simp
        intro e; subst e; exact hD _ _ _ _ _ hp)]
  generalize hFS : List.filter (fun f => decide (fieldGraph f = g)) (List.filterMap _ s.kv) = FS
  have hnil : FS = [] := by
    rw [← hFS]
    apply List.filter_eq_nil_iff.2
    intro f hf
    obtain ⟨p, hp, hpf⟩ := List.mem_filterMap.1 hf
    obtain ⟨k, v⟩ := p
    cases k <;> simp at hpf
    subst hpf
    simpa using hF _ _ hp
  subst hnil
  have : List.filter (fun _ => true) s.fields = s.fields := List.filter_eq_self.2 (fun _ _ => rfl)
  simp [this]

theorem addGraph_refines {s : KState} {a : AG} (h : Refines s a) (g : String)
    (hn : validName g = true → GoodName g) :
    Refines (step s (.addGraph g)).1 (specStep a (.addGraph g)).1 ∧
      (step s (.addGraph g)).2 = (specStep a (.addGraph g)).2 := by
  unfold step specStep
  by_cases hv : validName g = true
  · simp only [hv, Bool.not_true, Bool.false_eq_true, ↓reduceIte, and_true]
    have hsw : (if hasGraph s g = true then s else sweepGraph s g) = s := by
      split
      · rfl
      · rename_i hng
        apply sweepGraph_noop h.inv
        intro hin
        apply hng
        rw [hasGraph, KV.has_eq]
        exact (h.inv.graph g).2 hin
    rw [hsw]
    have ht := touch_refines h g
    refine ⟨?_, ht.stamps, ht.clock, ht.stampLe⟩
    exact addGraph_inv h.inv g (hn hv) rfl rfl rfl
  · simp only [Bool.not_eq_true] at hv
    simp [hv, h]

/-! ### DeleteGraph -/

def dropField (m : KV) (x : String) : KV :=
  ((m.delWhere (fun k => match k with | .term f' _ => f' = x | _ => false)).delWhere
    (fun k => match k with | .entry f' _ _ => f' = x | _ => false)).del (.field x)

def delGraphBase (m : KV) (g : String) : KV :=
  ((((m.delWhere (fun k => match k with | .edge g' _ _ _ _ => g' = g | _ => false)).delWhere
    (fun k => match k with | .vertex g' _ => g' = g | _ => false)).delWhere
    (fun k => match k with | .src g' _ _ _ _ => g' = g | _ => false)).delWhere
    (fun k => match k with | .dst g' _ _ _ _ => g' = g | _ => false)).del (.graph g)

def delGraphFields (m : KV) (g : String) : List String :=
  ((delGraphBase m g).filterMap (fun p => match p.1 with | .field f => some f | _ => none)).filter
    (fun f => fieldGraph f = g)

theorem step_delGraph (s : KState) (g : String) :
    step s (.delGraph g) =
      ({ (s.touch g) with
          kv := (delGraphFields s.kv g).foldl dropField (delGraphBase s.kv g),
          fields := s.fields.filter (fun f => !(delGraphFields s.kv g).contains f) }, .ok) := rfl

/-- keys removed by DeleteGraph -/
def dropKey (g : String) (fs : List String) : SKey → Bool
  | .vertex g' _ => g' = g
  | .edge g' _ _ _ _ => g' = g
  | .src g' _ _ _ _ => g' = g
  | .dst g' _ _ _ _ => g' = g
  | .graph g' => g' = g
  | .field x => fs.contains x
  | .term x _ => fs.contains x
  | .entry x _ _ => fs.contains x
  | .doc _ => false

def fieldKeyIn (fs : List String) : SKey → Bool
  | .field x => fs.contains x
  | .term x _ => fs.contains x
  | .entry x _ _ => fs.contains x
  | _ => false

theorem get_dropField (m : KV) (x : String) (k : SKey) :
    (dropField m x).get k = if fieldKeyIn [x] k then none else m.get k := by
  unfold dropField
  simp only [KV.get_del, KV.get_delWhere]
  cases k <;> simp [fieldKeyIn]
  all_goals (split <;> simp_all)

theorem get_foldl_dropField (fs : List String) (m : KV) (k : SKey) :
    (fs.foldl dropField m).get k = if fieldKeyIn fs k then none else m.get k := by
  induction fs generalizing m with
  | nil => cases k <;> simp [fieldKeyIn]
  | cons x fs ih =>
    rw [List.foldl_cons, ih, get_dropField]
    cases k <;> simp [fieldKeyIn]
    all_goals (split <;> simp_all)
    all_goals (split <;> simp_all)

theorem nodup_foldl_dropField (fs : List String) {m : KV} (hn : KeysNodup m) :
    KeysNodup (fs.foldl dropField m) := by
  induction fs generalizing m with
  | nil => simpa
  | cons x fs ih =>
    rw [List.foldl_cons]
    exact ih (KV.nodup_del (KV.nodup_delWhere (KV.nodup_delWhere hn _) _) _)

theorem get_delGraphBase (m : KV) (g : String) (k : SKey) :
    (delGraphBase m g).get k = if dropKey g [] k then none else m.get k := by
  unfold delGraphBase
  simp only [KV.get_del, KV.get_delWhere]
  cases k <;> simp [dropKey]
  all_goals (split <;> simp_all)

theorem nodup_delGraphBase {m : KV} (hn : KeysNodup m) (g : String) : KeysNodup (delGraphBase m g) :=
  KV.nodup_del (KV.nodup_delWhere (KV.nodup_delWhere (KV.nodup_delWhere (KV.nodup_delWhere hn _) _) _) _) _

theorem get_delGraph (m : KV) (g : String) (k : SKey) :
    ((delGraphFields m g).foldl dropField (delGraphBase m g)).get k =
      if dropKey g (delGraphFields m g) k then none else m.get k := by
  rw [get_foldl_dropField, get_delGraphBase]
  cases k <;> simp [dropKey, fieldKeyIn]
  all_goals (split <;> simp_all)

theorem delGraphFields_fieldGraph (m : KV) (g x : String) (hx : x ∈ delGraphFields m g) :
    fieldGraph x = g := by
  unfold delGraphFields at hx
  simpa using (List.mem_filter.1 hx).2

/-- the abstract state after DeleteGraph -/
theorem getV_delGraph (a : AG) (g g' id : String) :
    alGet (a.verts.filter (fun p => p.1.1 ≠ g)) (g', id) = if g' = g then none else a.getV g' id := by
  have := alGet_filter_key a.verts (fun k => decide (k.1 ≠ g)) (g', id)
  simp only [ne_eq, decide_not, Bool.not_eq_eq_eq_not, Bool.not_true, decide_eq_false_iff_not] at this
  rw [AG.getV_eq]
  by_cases e : g' = g
  · simp only [e, not_true_eq_false, ↓reduceIte] at this ⊢
    rw [← this]; congr 2; funext p; simp
  · simp only [e, not_false_eq_true, ↓reduceIte] at this ⊢
    rw [← this]; congr 2; funext p; simp

theorem getE_delGraph (a : AG) (g g' id : String) :
    alGet (a.edges.filter (fun p => p.1.1 ≠ g)) (g', id) = if g' = g then none else a.getE g' id := by
  have := alGet_filter_key a.edges (fun k => decide (k.1 ≠ g)) (g', id)
  simp only [ne_eq, decide_not, Bool.not_eq_eq_eq_not, Bool.not_true, decide_eq_false_iff_not] at this
  rw [AG.getE_eq]
  by_cases e : g' = g
  · simp only [e, not_true_eq_false, ↓reduceIte] at this ⊢
    rw [← this]; congr 2; funext p; simp
  · simp only [e, not_false_eq_true, ↓reduceIte] at this ⊢
    rw [← this]; congr 2; funext p; simp

theorem delGraph_inv {m : KV} {f : List String} {a b : AG} (h : Inv m f a) (g : String)
    (hbg : b.graphs = a.graphs.filter (· ≠ g))
    (hbv : b.verts = a.verts.filter (fun p => p.1.1 ≠ g))
    (hbe : b.edges = a.edges.filter (fun p => p.1.1 ≠ g)) :
    Inv ((delGraphFields m g).foldl dropField (delGraphBase m g))
      (f.filter (fun x => !(delGraphFields m g).contains x)) b := by
  have e1 : ∀ g' id, b.getV g' id = if g' = g then none else a.getV g' id := by
    intro g' id; rw [← getV_delGraph, AG.getV_eq, hbv]
  have e2 : ∀ g' id, b.getE g' id = if g' = g then none else a.getE g' id := by
    intro g' id; rw [← getE_delGraph, AG.getE_eq, hbe]
  have e3 : ∀ g' eid s d l, edgeAt b g' eid s d l = if g' = g then none else edgeAt a g' eid s d l := by
    intro g' eid s d l; unfold edgeAt; rw [e2]; split <;> simp
  have hmem : ∀ g', g' ∈ b.graphs ↔ g' ≠ g ∧ g' ∈ a.graphs := by
    intro g'; rw [hbg]; simp [List.mem_filter, and_comm]
  -- label fields of surviving graphs are not among the deleted fields
  have keepV : ∀ g', g' ≠ g → g' ∈ a.graphs → ¬ labelField g' "v" ∈ delGraphFields m g := by
    intro g' hne hg' hx
    have := delGraphFields_fieldGraph m g _ hx
    rw [(h.gname g' hg').1] at this; exact hne this
  have keepE : ∀ g', g' ≠ g → g' ∈ a.graphs → ¬ labelField g' "e" ∈ delGraphFields m g := by
    intro g' hne hg' hx
    have := delGraphFields_fieldGraph m g _ hx
    rw [(h.gname g' hg').2] at this; exact hne this
  constructor
  · exact nodup_foldl_dropField _ (nodup_delGraphBase h.nodup g)
  · rw [hbv]; exact h.vnodup.filter _
  · rw [hbe]; exact h.enodup.filter _
  · intro g'
    rw [hmem, get_delGraph, ← h.graph g']
    by_cases e : g' = g <;> simp [dropKey, e]
  · intro g' id
    rw [e1, get_delGraph, h.vertex]
    by_cases e : g' = g <;> simp [dropKey, e]
  · intro g' eid s d l
    rw [e3, get_delGraph, h.edge]
    by_cases e : g' = g <;> simp [dropKey, e]
  · intro g' s d eid l
    rw [e3, get_delGraph, h.src]
    by_cases e : g' = g <;> simp [dropKey, e]
  · intro g' d s eid l
    rw [e3, get_delGraph, h.dst]
    by_cases e : g' = g <;> simp [dropKey, e]
  · intro g' hg'; exact h.gname g' ((hmem g').1 hg').2
  · intro g' id r hr
    rw [e1] at hr
    by_cases e : g' = g
    · simp [e] at hr
    · simp only [e, ↓reduceIte] at hr
      exact (hmem g').2 ⟨e, h.vgraph g' id r hr⟩
  · intro g' id r hr
    rw [e2] at hr
    by_cases e : g' = g
    · simp [e] at hr
    · simp only [e, ↓reduceIte] at hr
      exact (hmem g').2 ⟨e, h.egraph g' id r hr⟩
  · intro g' hg'
    obtain ⟨hne, hg'⟩ := (hmem g').1 hg'
    have hk := keepV g' hne hg'
    refine ⟨List.mem_filter.2 ⟨(h.fieldsV g' hg').1, by simpa using hk⟩, ?_⟩
    rw [get_delGraph]; simp only [dropKey, List.contains_eq_mem, hk, decide_false, Bool.false_eq_true, ↓reduceIte]
    exact (h.fieldsV g' hg').2
  · intro g' hg'
    obtain ⟨hne, hg'⟩ := (hmem g').1 hg'
    have hk := keepE g' hne hg'
    refine ⟨List.mem_filter.2 ⟨(h.fieldsE g' hg').1, by simpa using hk⟩, ?_⟩
    rw [get_delGraph]; simp only [dropKey, List.contains_eq_mem, hk, decide_false, Bool.false_eq_true, ↓reduceIte]
    exact (h.fieldsE g' hg').2
  · intro g' id r hr
    rw [e1] at hr
    by_cases e : g' = g
    · simp [e] at hr
    · simp only [e, ↓reduceIte] at hr
      have hk := keepV g' e (h.vgraph g' id r hr)
      rw [get_delGraph, get_delGraph]
      simp only [dropKey, List.contains_eq_mem, hk, decide_false, Bool.false_eq_true, ↓reduceIte]
      exact h.vindex g' id r hr
  · intro g' id r hr
    rw [e2] at hr
    by_cases e : g' = g
    · simp [e] at hr
    · simp only [e, ↓reduceIte] at hr
      have hk := keepE g' e (h.egraph g' id r hr)
      rw [get_delGraph, get_delGraph]
      simp only [dropKey, List.contains_eq_mem, hk, decide_false, Bool.false_eq_true, ↓reduceIte]
      exact h.eindex g' id r hr
  · intro f' hf'
    rw [get_delGraph] at hf'
    simp only [dropKey] at hf'
    by_cases hnot : f' ∈ delGraphFields m g
    · simp [hnot] at hf'
    · simp only [List.contains_eq_mem, hnot, decide_false, Bool.false_eq_true, ↓reduceIte] at hf'
      have hown := h.fieldOwner f' hf'
      refine (hmem _).2 ⟨?_, hown⟩
      intro e
      -- a persisted field of graph g would have been among the deleted fields
      apply hnot
      unfold delGraphFields
      refine List.mem_filter.2 ⟨List.mem_filterMap.2 ?_, by simpa using e⟩
      have hb : ((delGraphBase m g).get (.field f')).isSome := by
        rw [get_delGraphBase]; simpa [dropKey] using hf'
      obtain ⟨v, hv⟩ := Option.isSome_iff_exists.1 hb
      exact ⟨(.field f', v), mem_of_alGet hv, rfl⟩

theorem delGraph_refines {s : KState} {a : AG} (h : Refines s a) (g : String) :
    Refines (step s (.delGraph g)).1 (specStep a (.delGraph g)).1 ∧
      (step s (.delGraph g)).2 = (specStep a (.delGraph g)).2 := by
  rw [step_delGraph]
  unfold specStep
  have ht := touch_refines h g
  refine ⟨⟨?_, ht.stamps, ht.clock, ht.stampLe⟩, rfl⟩
  exact delGraph_inv h.inv g rfl rfl rfl

end Grip.Props.C03.Lemmas
