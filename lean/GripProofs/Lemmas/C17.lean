/-
  Lemmas for C17 (i): soundness of the executable whole-table check.
-/
import Grip.Model.C17

namespace Grip.Props.C17.Lemmas
open Grip.C17 GripGen.SharedAccess

theorem checkTable_sound (t : List Access) (h : checkTable t = true) :
    ∀ a ∈ t, ∀ b ∈ t, conflicting a b = true →
      guarded a b = true ∨ isJustified a b = true ∨ isFinding a b = true := by
  intro a ha b hb hc
  have h1 := (List.all_eq_true.mp h) a ha
  have h2 := (List.all_eq_true.mp h1) b hb
  simp only [okPair, hc, Bool.not_true, Bool.false_or, Bool.or_eq_true] at h2
  rcases h2 with (h2 | h2) | h2
  · exact Or.inl h2
  · exact Or.inr (Or.inl h2)
  · exact Or.inr (Or.inr h2)

theorem checkTableStrict_sound (t : List Access) (h : checkTableStrict t = true) :
    ∀ a ∈ t, ∀ b ∈ t, conflicting a b = true →
      guarded a b = true ∨ isJustified a b = true := by
  intro a ha b hb hc
  have h1 := (List.all_eq_true.mp h) a ha
  have h2 := (List.all_eq_true.mp h1) b hb
  simp only [strictPair, hc, Bool.not_true, Bool.false_or, Bool.or_eq_true] at h2
  exact h2

end Grip.Props.C17.Lemmas
