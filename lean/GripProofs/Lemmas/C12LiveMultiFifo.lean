import Grip.Model.C12Multi
import GripProofs.Lemmas.C12LiveMulti

/-! Faithfulness of the single-list representation of Grip.Model.C12Multi: in every reachable
    state no message of a channel strictly upstream precedes a message of a channel downstream of
    it, hence "replace the first message of channel `c` in place by the outputs" is exactly
    "receive from channel `c`, send each output to the tail of its channel" (per-channel FIFO). -/
set_option linter.unusedSimpArgs false
namespace Grip.Props.C12.Multi.Lemmas
open Grip.C12 (Msg Phase)
open Grip.C12.Multi

variable {T : Type}

/-- `c` strictly upstream of `d`. -/
def Chan.lt (c d : Chan) : Bool := Chan.le c d && decide (c ≠ d)

/-- No message of an upstream channel before a message of a channel downstream of it. -/
def Prec (W : List (Chan × Msg T)) : Prop := W.Pairwise (fun u v => Chan.lt u.1 v.1 = false)

/-- The content of channel `c`, oldest first. -/
def chan (W : List (Chan × Msg T)) (c : Chan) : List (Msg T) :=
  (W.filter (fun x => decide (x.1 = c))).map (·.2)

theorem chan_append (A B : List (Chan × Msg T)) (c : Chan) : chan (A ++ B) c = chan A c ++ chan B c := by
  simp [chan]

theorem chan_cons (x : Chan × Msg T) (B : List (Chan × Msg T)) (c : Chan) :
    chan (x :: B) c = (if x.1 = c then [x.2] else []) ++ chan B c := by
  by_cases h : x.1 = c <;> simp [chan, List.filter_cons, h]

theorem chan_nil_of {W : List (Chan × Msg T)} {c : Chan} (h : ∀ x ∈ W, x.1 ≠ c) : chan W c = [] := by
  simp only [chan, List.map_eq_nil_iff, List.filter_eq_nil_iff]
  intro x hx
  simpa using h x hx

theorem lt_irrefl (c : Chan) : Chan.lt c c = false := by simp [Chan.lt]

theorem lt_trans {a b c : Chan} (h1 : Chan.lt a b = true) (h2 : Chan.lt b c = true) :
    Chan.lt a c = true := by
  cases a <;> cases b <;> cases c <;>
    simp [Chan.lt, Chan.le] at * <;> omega

theorem not_lt_main0 (c : Chan) : Chan.lt c (Chan.main 0) = false := by
  cases c <;> simp [Chan.lt, Chan.le]

/-- `d` is an immediate successor of `c`: upstream of `d` = `c` or upstream of `c`. -/
def Succ (c d : Chan) : Prop :=
  Chan.lt c d = true ∧ ∀ u, Chan.lt u d = true → u = c ∨ Chan.lt u c = true

theorem succ_main (i : Nat) : Succ (Chan.main i) (Chan.main (i + 1)) := by
  refine ⟨by simp [Chan.lt, Chan.le], fun u hu => ?_⟩
  cases u with
  | main i' =>
    simp only [Chan.lt, Chan.le, Bool.and_eq_true, decide_eq_true_eq, ne_eq, Chan.main.injEq] at hu ⊢
    by_cases h : i' = i
    · left; exact h
    · right; exact ⟨by omega, h⟩
  | side j k => simp [Chan.lt, Chan.le] at hu

theorem succ_side0 (i : Nat) : Succ (Chan.main i) (Chan.side i 0) := by
  refine ⟨by simp [Chan.lt, Chan.le], fun u hu => ?_⟩
  cases u with
  | main i' =>
    simp only [Chan.lt, Chan.le, Bool.and_eq_true, decide_eq_true_eq, ne_eq, Chan.main.injEq] at hu ⊢
    by_cases h : i' = i
    · left; exact h
    · right; exact ⟨by omega, h⟩
  | side j k =>
    simp only [Chan.lt, Chan.le, Bool.and_eq_true, decide_eq_true_eq] at hu
    obtain ⟨⟨rfl, hk⟩, hne⟩ := hu
    exfalso; apply hne; rw [show k = 0 by omega]

theorem succ_side (j k : Nat) : Succ (Chan.side j k) (Chan.side j (k + 1)) := by
  refine ⟨by simp [Chan.lt, Chan.le], fun u hu => ?_⟩
  cases u with
  | main i' =>
    right
    simp only [Chan.lt, Chan.le, Bool.and_eq_true, decide_eq_true_eq] at hu ⊢
    exact ⟨hu.1, by simp⟩
  | side j' k' =>
    simp only [Chan.lt, Chan.le, Bool.and_eq_true, decide_eq_true_eq, ne_eq, Chan.side.injEq,
      not_and] at hu ⊢
    obtain ⟨⟨rfl, hk⟩, hne⟩ := hu
    have := hne rfl
    by_cases h : k' = k
    · left; exact ⟨rfl, h⟩
    · right
      exact ⟨⟨rfl, by omega⟩, fun _ => h⟩

/-- In-place replacement by messages for immediate successor channels keeps `Prec`. -/
theorem prec_replace {A B ys : List (Chan × Msg T)} {c : Chan} {m : Msg T}
    (h : Prec (A ++ (c, m) :: B)) (hA : ∀ x ∈ A, x.1 ≠ c)
    (hy : ∀ y ∈ ys, Succ c y.1) (hyy : Prec ys) : Prec (A ++ ys ++ B) := by
  unfold Prec at *
  rw [List.pairwise_append, List.pairwise_cons] at h
  obtain ⟨hAA, ⟨hxB, hBB⟩, hAxB⟩ := h
  rw [List.append_assoc, List.pairwise_append, List.pairwise_append]
  refine ⟨hAA, ⟨hyy, hBB, ?_⟩, ?_⟩
  · intro y hyin b hb
    cases hlt : Chan.lt y.1 b.1 with
    | false => rfl
    | true =>
      have := lt_trans (hy y hyin).1 hlt
      have h2 := hxB b hb
      simp only [] at h2
      rw [this] at h2
      cases h2
  · intro a ha v hv
    simp only [List.mem_append] at hv
    rcases hv with hv | hv
    · cases hlt : Chan.lt a.1 v.1 with
      | false => rfl
      | true =>
        exfalso
        rcases (hy v hv).2 a.1 hlt with he | hl
        · exact hA a ha he
        · have := hAxB a ha (c, m) (by simp)
          simp only [] at this
          rw [hl] at this
          cases this
    · exact hAxB a ha v (by simp [hv])

theorem prec_move {A B : List (Chan × Msg T)} {x : Chan × Msg T} {m : Msg T}
    (h : Prec (A ++ x :: B)) : Prec (A ++ B ++ [(Chan.main 0, m)]) := by
  unfold Prec at *
  rw [List.pairwise_append]
  refine ⟨?_, by simp, fun a _ b hb => ?_⟩
  · exact h.sublist (List.Sublist.append_left (List.sublist_cons_self x B) A)
  · simp only [List.mem_singleton] at hb
    rw [hb]
    exact not_lt_main0 a.1

theorem prec_snoc {W : List (Chan × Msg T)} {m : Msg T} (h : Prec W) :
    Prec (W ++ [(Chan.main 0, m)]) := by
  unfold Prec at *
  rw [List.pairwise_append]
  refine ⟨h, by simp, fun a _ b hb => ?_⟩
  simp only [List.mem_singleton] at hb
  rw [hb]
  exact not_lt_main0 a.1

theorem prec_outMain {n i : Nat} (ts : List T) : Prec (outMain n i ts) := by
  unfold Prec outMain
  split
  · induction ts with
    | nil => simp
    | cons a r ih =>
      rw [List.map_cons, List.pairwise_cons]
      refine ⟨?_, ih⟩
      intro b hb
      simp only [List.mem_map] at hb
      obtain ⟨u, _, rfl⟩ := hb
      exact lt_irrefl _
  · simp

theorem prec_step {sys : List (MStage T)} {l : Label} {s s' : State T}
    (h : Prec s.W) (hs : Step sys l s s') : Prec s'.W := by
  cases hs with
  | @bodyTrav _ A B i t f hW hA hst =>
    rw [hW] at h
    refine prec_replace h hA ?_ (prec_outMain _)
    intro y hy
    unfold outMain at hy
    split at hy
    · simp only [List.mem_map] at hy
      obtain ⟨u, _, rfl⟩ := hy
      exact succ_main i
    · simp at hy
  | @jumpTrav _ A B i t c e hW hA hst =>
    rw [hW] at h
    refine prec_replace h hA ?_ ?_
    · intro y hy
      simp only [List.mem_append] at hy
      rcases hy with hy | hy
      · split at hy
        · simp only [List.mem_singleton] at hy; subst hy; exact succ_side0 i
        · simp at hy
      · unfold outMain at hy
        split at hy
        · simp only [List.mem_map] at hy
          obtain ⟨u, _, rfl⟩ := hy
          exact succ_main i
        · simp at hy
    · unfold Prec
      rw [List.pairwise_append]
      refine ⟨by split <;> simp, prec_outMain _, ?_⟩
      intro a ha b hb
      split at ha
      · simp only [List.mem_singleton] at ha
        subst ha
        unfold outMain at hb
        split at hb
        · simp only [List.mem_map] at hb
          obtain ⟨u, _, rfl⟩ := hb
          simp [Chan.lt, Chan.le]
        · simp at hb
      · simp at ha
  | @bodySig _ A B i k f hW hA hst =>
    rw [hW] at h
    refine prec_replace h hA ?_ ?_
    · intro y hy
      unfold sigMain at hy
      split at hy
      · simp only [List.mem_singleton] at hy; subst hy; exact succ_main i
      · simp at hy
    · unfold Prec sigMain; split <;> simp
  | @jumpSig _ A B i k c e hW hA hst =>
    rw [hW] at h
    refine prec_replace h hA ?_ ?_
    · intro y hy
      simp only [List.mem_cons] at hy
      rcases hy with rfl | hy
      · exact succ_side0 i
      · unfold sigMain at hy
        split at hy
        · simp only [List.mem_singleton] at hy; subst hy; exact succ_main i
        · simp at hy
    · unfold Prec sigMain
      split <;> simp [Chan.lt, Chan.le]
  | @queue _ A B j k m hW hA hk =>
    rw [hW] at h
    refine prec_replace h hA ?_ (by simp [Prec])
    intro y hy
    simp only [List.mem_singleton] at hy
    subst hy
    exact succ_side j k
  | @openRecv _ A B m hp hj hW hA => rw [hW] at h; exact prec_move h
  | openSkip => exact h
  | openIn => exact prec_snoc h
  | openClose => exact h
  | openNext => exact h
  | @closeTrav _ A B t hp hj hW hA => rw [hW] at h; exact prec_move h
  | @closeSig _ A B k hp hj hW hA =>
    rw [hW] at h
    exact List.Pairwise.sublist
      (List.Sublist.append_left (List.sublist_cons_self _ B) A) h
  | closeSkip => exact h
  | closeNext => exact h
  | closeDecide =>
    unfold markDecide
    split
    · exact prec_snoc h
    · split <;> exact h

theorem prec_reachable {sys : List (MStage T)} {inp0 : List T} {s : State T}
    (h : Reachable sys inp0 s) : Prec s.W := by
  induction h with
  | init => simp [Prec, init]
  | step _ hs ih => exact prec_step ih hs

/-- **In place = FIFO.**  Under `Prec`, replacing the first message of channel `c` in place by
    messages `ys` for channels downstream of `c` changes every channel `d` exactly as a receive
    from `c` and sends to the tails would. -/
theorem inplace_is_append {A B ys : List (Chan × Msg T)} {c : Chan} {m : Msg T}
    (h : Prec (A ++ (c, m) :: B)) (hA : ∀ x ∈ A, x.1 ≠ c)
    (hy : ∀ y ∈ ys, Chan.lt c y.1 = true) (d : Chan) :
    chan (A ++ ys ++ B) d
      = (if d = c then (chan (A ++ (c, m) :: B) d).tail else chan (A ++ (c, m) :: B) d)
        ++ chan ys d := by
  have hc : chan [(c, m)] c = [m] := by simp [chan]
  by_cases hd : d = c
  · subst hd
    have h1 : chan A d = [] := chan_nil_of hA
    have h2 : chan ys d = [] := by
      apply chan_nil_of
      intro y hyin he
      have := hy y hyin
      rw [he, lt_irrefl] at this
      cases this
    rw [if_pos rfl]
    simp [chan_append, chan_cons, h1, h2]
  · rw [if_neg hd]
    have hcd : ¬ c = d := fun he => hd he.symm
    simp only [chan_append, chan_cons, hcd, if_false, List.nil_append, List.append_assoc]
    congr 1
    by_cases hex : ∃ y ∈ ys, y.1 = d
    · obtain ⟨y, hyin, hyd⟩ := hex
      have hlt : Chan.lt c d = true := by rw [← hyd]; exact hy y hyin
      have hB : chan B d = [] := by
        apply chan_nil_of
        intro b hb he
        unfold Prec at h
        rw [List.pairwise_append, List.pairwise_cons] at h
        have := h.2.1.1 b hb
        simp only [] at this
        rw [he, hlt] at this
        cases this
      rw [hB]; simp
    · have hY : chan ys d = [] := chan_nil_of (fun y hyin he => hex ⟨y, hyin, he⟩)
      rw [hY]; simp

end Grip.Props.C12.Multi.Lemmas
