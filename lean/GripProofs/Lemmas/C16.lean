/-
  Lemmas for C16: bytes of strings, `bytes.Join`/`bytes.Split` on the separator, prefix faithfulness
  of separator-terminated component lists.
-/
import Grip.Model.C16

namespace Grip.Props.C16.Lemmas
open Grip Grip.C03 Grip.C16

/-! ### `ByteArray.toList`, `bytesOf`, `utf8` -/

theorem loop_eq (bs : ByteArray) : ∀ (n i : Nat) (r : List UInt8), bs.size - i = n →
    ByteArray.toList.loop bs i r = r.reverse ++ bs.data.toList.drop i := by
  intro n
  induction n with
  | zero =>
    intro i r h
    unfold ByteArray.toList.loop
    have h1 : ¬ i < bs.size := by omega
    have h2 : bs.data.toList.length ≤ i := by
      have : bs.size = bs.data.toList.length := by rw [Array.length_toList]; rfl
      omega
    rw [if_neg h1, List.drop_eq_nil_of_le h2]; simp
  | succ n ih =>
    intro i r h
    unfold ByteArray.toList.loop
    have hi : i < bs.size := by omega
    have hi' : i < bs.data.toList.length := by
      have : bs.size = bs.data.toList.length := by rw [Array.length_toList]; rfl
      omega
    rw [if_pos hi, ih (i+1) _ (by omega), List.drop_eq_getElem_cons hi']
    have hi2 : i < bs.data.size := by simpa using hi'
    have : bs.get! i = bs.data.toList[i] := by
      show bs.data[i]! = _
      rw [getElem!_pos bs.data i hi2]; simp
    rw [this]; simp

theorem toList_eq (bs : ByteArray) : bs.toList = bs.data.toList := by
  unfold ByteArray.toList
  rw [loop_eq bs _ 0 [] rfl]; simp

theorem bytesOf_eq_utf8 (s : String) : bytesOf s = utf8 s := by
  simp [bytesOf, utf8, toList_eq]

theorem utf8_inj {s t : String} (h : utf8 s = utf8 t) : s = t := by
  apply String.toByteArray_inj.1
  apply ByteArray.ext
  exact Array.toList_inj.1 h

@[simp] theorem utf8_eq_iff {s t : String} : utf8 s = utf8 t ↔ s = t := ⟨utf8_inj, fun h => h ▸ rfl⟩

theorem strOf_utf8 (s : String) : strOf? (utf8 s) = some s := by
  unfold strOf? utf8 String.fromUTF8?
  have : (⟨s.toByteArray.data.toList.toArray⟩ : ByteArray) = s.toByteArray := by simp
  rw [this, dif_pos s.isValidUTF8]
  rfl

theorem utf8_append (s t : String) : utf8 (s ++ t) = utf8 s ++ utf8 t := by
  simp [utf8]

/-- The key bytes of C03's `encode` are the NUL-joined component list `comps`. -/
theorem encode_comps (k : SKey) : encode k = joinNul (comps k) := by
  have hv : bytesOf "v" = [118] := by rw [bytesOf_eq_utf8]; decide
  have he : bytesOf "e" = [101] := by rw [bytesOf_eq_utf8]; decide
  have hs : bytesOf "s" = [115] := by rw [bytesOf_eq_utf8]; decide
  have hd : bytesOf "d" = [100] := by rw [bytesOf_eq_utf8]; decide
  have hg : bytesOf "g" = [103] := by rw [bytesOf_eq_utf8]; decide
  have hf : bytesOf "f" = [102] := by rw [bytesOf_eq_utf8]; decide
  have ht : bytesOf "t" = [116] := by rw [bytesOf_eq_utf8]; decide
  have hi : bytesOf "i" = [105] := by rw [bytesOf_eq_utf8]; decide
  have hD : bytesOf "D" = [68] := by rw [bytesOf_eq_utf8]; decide
  cases k <;> simp only [encode, comps, bytesOf_eq_utf8] <;>
    simp only [← bytesOf_eq_utf8 "v", ← bytesOf_eq_utf8 "e", ← bytesOf_eq_utf8 "s", ← bytesOf_eq_utf8 "d",
      ← bytesOf_eq_utf8 "g", ← bytesOf_eq_utf8 "f", ← bytesOf_eq_utf8 "t", ← bytesOf_eq_utf8 "i", ← bytesOf_eq_utf8 "D",
      hv, he, hs, hd, hg, hf, ht, hi, hD, edgeSingle, termString]

/-! ### join and split -/

theorem joinNul_cons₂ (x y : Bytes) (ys : List Bytes) : joinNul (x :: y :: ys) = x ++ 0 :: joinNul (y :: ys) := rfl

theorem splitNul_ne_nil (bs : Bytes) : splitNul bs ≠ [] := by
  induction bs with
  | nil => simp [splitNul]
  | cons b bs ih =>
    unfold splitNul
    split
    · simp
    · split <;> simp

/-- Splitting a separator-free chunk followed by the separator. -/
theorem splitNul_append (c r : Bytes) (hc : (0 : UInt8) ∉ c) : splitNul (c ++ 0 :: r) = c :: splitNul r := by
  induction c with
  | nil => simp [splitNul]
  | cons b c ih =>
    have hb : b ≠ 0 := fun h => hc (by simp [h])
    have hc' : (0 : UInt8) ∉ c := fun h => hc (by simp [h])
    simp only [List.cons_append, splitNul, if_neg hb, ih hc']

theorem splitNul_single (c : Bytes) (hc : (0 : UInt8) ∉ c) : splitNul c = [c] := by
  induction c with
  | nil => simp [splitNul]
  | cons b c ih =>
    have hb : b ≠ 0 := fun h => hc (by simp [h])
    have hc' : (0 : UInt8) ∉ c := fun h => hc (by simp [h])
    simp only [splitNul, if_neg hb, ih hc']

/-- `bytes.Split(bytes.Join(cs, {0}), {0}) = cs` when no component contains the separator. -/
theorem splitNul_joinNul : ∀ (cs : List Bytes), cs ≠ [] → (∀ c ∈ cs, (0 : UInt8) ∉ c) → splitNul (joinNul cs) = cs
  | [], h, _ => absurd rfl h
  | [c], _, hc => by simpa [joinNul] using splitNul_single c (hc c (by simp))
  | c :: d :: cs, _, hc => by
    rw [joinNul_cons₂, splitNul_append c _ (hc c (by simp)),
      splitNul_joinNul (d :: cs) (by simp) (fun x hx => hc x (by simp [hx]))]

theorem splitNulN_append (n : Nat) (c r : Bytes) (hc : (0 : UInt8) ∉ c) :
    splitNulN (n + 2) (c ++ 0 :: r) = c :: splitNulN (n + 1) r := by
  induction c with
  | nil => simp [splitNulN]
  | cons b c ih =>
    have hb : b ≠ 0 := fun h => hc (by simp [h])
    have hc' : (0 : UInt8) ∉ c := fun h => hc (by simp [h])
    simp only [List.cons_append, splitNulN, if_neg hb, ih hc']

/-! ### prefixes -/

/-- Two separator-free chunks, each followed by the separator: prefix ⇔ same chunk and prefix of the rest. -/
theorem chunk_prefix (p c r r' : Bytes) (hp : (0 : UInt8) ∉ p) (hc : (0 : UInt8) ∉ c) :
    p ++ 0 :: r <+: c ++ 0 :: r' ↔ p = c ∧ r <+: r' := by
  induction p generalizing c with
  | nil =>
    cases c with
    | nil => simp
    | cons x c =>
      have hx : x ≠ 0 := fun h => hc (by simp [h])
      simp [List.cons_prefix_cons, Ne.symm hx]
  | cons a p ih =>
    have ha : a ≠ 0 := fun h => hp (by simp [h])
    have hp' : (0 : UInt8) ∉ p := fun h => hp (by simp [h])
    cases c with
    | nil => simp [List.cons_prefix_cons, ha]
    | cons x c =>
      have hc' : (0 : UInt8) ∉ c := fun h => hc (by simp [h])
      simp only [List.cons_append, List.cons_prefix_cons, ih c hp' hc', List.cons.injEq]
      constructor
      · rintro ⟨h1, h2, h3⟩; exact ⟨⟨h1, h2⟩, h3⟩
      · rintro ⟨⟨h1, h2⟩, h3⟩; exact ⟨h1, h2, h3⟩

/-- A chunk followed by the separator is never a prefix of a separator-free chunk. -/
theorem chunk_not_prefix (p r c : Bytes) (hc : (0 : UInt8) ∉ c) : ¬ (p ++ 0 :: r <+: c) := by
  intro h
  exact hc (h.subset (by simp))

/-- Prefix faithfulness, general form: the NUL-join of `ps` followed by a trailing separator is a byte
    prefix of the NUL-join of `cs` iff `ps` is a proper prefix of `cs` as a list of components. -/
theorem prefix_faithful : ∀ (ps cs : List Bytes), ps ≠ [] → (∀ p ∈ ps, (0 : UInt8) ∉ p) → (∀ c ∈ cs, (0 : UInt8) ∉ c) →
    (joinNul (ps ++ [[]]) <+: joinNul cs ↔ ps <+: cs ∧ ps.length < cs.length)
  | [], _, h, _, _ => absurd rfl h
  | [p], cs, _, hp, hc => by
    have hp0 := hp p (by simp)
    match cs, hc with
    | [], _ => simp [joinNul]
    | [c], hc =>
      have := chunk_not_prefix p [] c (hc c (by simp))
      simp [joinNul, this]
    | c :: d :: cs, hc =>
      have := chunk_prefix p c [] (joinNul (d :: cs)) hp0 (hc c (by simp))
      simp only [List.cons_append, List.nil_append, joinNul_cons₂]
      simp only [joinNul, this]
      simp [List.cons_prefix_cons]
  | p :: q :: ps, cs, _, hp, hc => by
    have hp0 := hp p (by simp)
    match cs, hc with
    | [], _ => simp [joinNul_cons₂, joinNul]
    | [c], hc =>
      have := chunk_not_prefix p (joinNul (q :: ps ++ [[]])) c (hc c (by simp))
      simp only [List.cons_append, joinNul_cons₂]
      simp only [joinNul]
      simp only [List.cons_append] at this
      simp [this, List.cons_prefix_cons]
    | c :: d :: cs, hc =>
      have ih := prefix_faithful (q :: ps) (d :: cs) (by simp) (fun x hx => hp x (by simp [hx]))
        (fun x hx => hc x (by simp [hx]))
      have := chunk_prefix p c (joinNul (q :: ps ++ [[]])) (joinNul (d :: cs)) hp0 (hc c (by simp))
      simp only [List.cons_append, joinNul_cons₂] at this ih ⊢
      rw [this, ih]
      simp only [List.cons_prefix_cons, List.length_cons]
      constructor
      · rintro ⟨h1, h2, h3⟩; exact ⟨⟨h1, h2⟩, by omega⟩
      · rintro ⟨⟨h1, h2⟩, h3⟩; exact ⟨h1, h2, by omega⟩

/-! ### the key-value map of C03's model -/

theorem get_del_ne (m : KV) (k k' : SKey) (h : k' ≠ k) : (m.del k).get k' = m.get k' := by
  simp only [KV.del, KV.get, List.find?_filter]
  congr 2
  funext a
  by_cases ha : a.1 = k'
  · have : ¬ a.1 = k := fun e => h (ha.symm.trans e)
    simp [ha, h]
  · simp [ha]

theorem get_set_eq (m : KV) (k : SKey) (v : Val) : (m.set k v).get k = some v := by
  simp [KV.set, KV.get]

theorem get_set_ne (m : KV) (k k' : SKey) (v : Val) (h : k' ≠ k) : (m.set k v).get k' = m.get k' := by
  have := get_del_ne m k k' h
  simp only [KV.set, KV.get, List.find?_cons] at this ⊢
  simp [Ne.symm h, this]

/-! ### Struct conversion -/

mutual
  theorem ofPV_toPV : ∀ v : JV, ofPV (toPV v) = v
    | .null => rfl
    | .bool _ => rfl
    | .num _ => rfl
    | .str _ => rfl
    | .arr xs => by simp [toPV, ofPV, ofPVList_toPVList xs]
    | .obj kvs => by simp [toPV, ofPV, ofPVFields_toPVFields kvs]
  theorem ofPVList_toPVList : ∀ xs : List JV, ofPVList (toPVList xs) = xs
    | [] => rfl
    | x :: xs => by simp [toPVList, ofPVList, ofPV_toPV x, ofPVList_toPVList xs]
  theorem ofPVFields_toPVFields : ∀ xs : List (String × JV), ofPVFields (toPVFields xs) = xs
    | [] => rfl
    | (k, x) :: xs => by simp [toPVFields, ofPVFields, ofPV_toPV x, ofPVFields_toPVFields xs]
end

end Grip.Props.C16.Lemmas
