import Grip.Model.Eval
import Grip.Model.C01
import Grip.Spec.C01

namespace Grip.Props.C01.Lemmas
open Grip Grip.C01 Grip.Spec.C01

theorem shuffle4 {α} (a1 a2 b1 b2 : List α) :
    ((a1 ++ a2) ++ (b1 ++ b2)).Perm ((a1 ++ b1) ++ (a2 ++ b2)) := by
  simp only [List.append_assoc]
  apply List.Perm.append_left
  rw [← List.append_assoc, ← List.append_assoc]
  apply List.Perm.append_right
  exact List.perm_append_comm

theorem flatMap_pair_perm {α β} (f h : α → List β) (ts : List α) :
    (ts.flatMap f ++ ts.flatMap h).Perm (ts.flatMap (fun t => f t ++ h t)) := by
  induction ts with
  | nil => simp
  | cons t ts ih =>
    simp only [List.flatMap_cons]
    have := shuffle4 (f t) (ts.flatMap f) (h t) (ts.flatMap h)
    exact this.trans (List.Perm.append_left _ ih)

theorem rangeGo_sublist (a b : Int) : ∀ (i : Nat) (ts : List Traveler), (rangeGo a b i ts).Sublist ts
  | _, [] => by simp [rangeGo]
  | i, t :: ts => by
    unfold rangeGo
    split
    · exact (rangeGo_sublist a b (i + 1) ts).cons_cons t
    · exact (rangeGo_sublist a b (i + 1) ts).cons t

theorem rangeKeep_iff (a b : Int) (i : Nat) :
    rangeKeep a b i = true ↔ ((i : Int) ≥ a ∧ ((i : Int) < b ∨ b = -1)) := by
  simp [rangeKeep]

theorem rangeGo_length (a b : Int) : ∀ (i : Nat) (ts : List Traveler),
    (rangeGo a b i ts).length =
      (if b = -1 then (i + ts.length) - max a.toNat i else min b.toNat (i + ts.length) - max a.toNat i)
  | i, [] => by
    simp only [rangeGo, List.length_nil]
    split <;> omega
  | i, t :: ts => by
    unfold rangeGo
    have ih := rangeGo_length a b (i + 1) ts
    by_cases hk : rangeKeep a b i = true
    · rw [if_pos hk]
      have h := (rangeKeep_iff a b i).1 hk
      simp only [List.length_cons, ih]
      split <;> omega
    · rw [if_neg hk]
      have h : ¬ ((i : Int) ≥ a ∧ ((i : Int) < b ∨ b = -1)) := fun h => hk ((rangeKeep_iff a b i).2 h)
      simp only [List.length_cons, ih]
      split <;> omega

theorem distinctGo_sublist (fs : List String) : ∀ (seen : List (List JV)) (ts : List Traveler),
    (distinctGo fs seen ts).Sublist ts
  | _, [] => by simp [distinctGo]
  | seen, t :: ts => by
    unfold distinctGo
    split
    · exact (distinctGo_sublist fs seen ts).cons t
    · split
      · exact (distinctGo_sublist fs seen ts).cons t
      · exact (distinctGo_sublist fs _ ts).cons_cons t

theorem wiring_fold (procs : List Proc) : ∀ input,
    startWiring procs input = procs.foldl (fun ts p => p ts) input := by
  induction procs with
  | nil => intro input; simp [startWiring]
  | cons p ps ih =>
    intro input
    have h := ih (p input)
    simp only [startWiring, List.reverse_cons, List.foldl_append, List.foldl_cons, List.foldl_nil] at h ⊢
    exact h

theorem compile_fold (numOf : String → Option Int) (g : AGraph) :
    ∀ (stmts : List Stmt) (st : TState),
      (∀ e, typeFold st stmts = .error e → compileProcs numOf g st stmts = .error e) ∧
      (∀ stf, typeFold st stmts = .ok stf →
        ∃ ps, compileProcs numOf g st stmts = .ok (ps, stf) ∧ ps.length = stmts.length ∧
          ∀ ts, ps.foldl (fun ts p => p ts) ts = evalFrom numOf g st ts stmts)
  | [], st => by
    constructor
    · intro e h; simp [typeFold] at h
    · intro stf h
      simp only [typeFold, Except.ok.injEq] at h
      subst h
      exact ⟨[], rfl, rfl, fun ts => rfl⟩
  | s :: rest, st => by
    cases hs : typeStep st s with
    | error e0 =>
      constructor
      · intro e h
        simp only [typeFold, hs, Except.error.injEq] at h
        subst h
        simp [compileProcs, hs]
      · intro stf h; simp [typeFold, hs] at h
    | ok st' =>
      have ih := compile_fold numOf g rest st'
      constructor
      · intro e h
        simp only [typeFold, hs] at h
        simp [compileProcs, hs, ih.1 e h]
      · intro stf h
        simp only [typeFold, hs] at h
        obtain ⟨ps, hps, hlen, hfold⟩ := ih.2 stf h
        refine ⟨evalStepT numOf g st.last s :: ps, ?_, ?_, ?_⟩
        · simp [compileProcs, hs, hps]
        · simp [hlen]
        · intro ts
          simp only [List.foldl_cons, evalFrom, hs]
          exact hfold _

end Grip.Props.C01.Lemmas
