/-
  Lemmas for C13: generic facts about `upd`, `Reach`, `runSched`, and the invariants of the
  queue, the two-stage processor and the batcher (the round-robin and mux invariants are in
  Lemmas/C13Tagged.lean).
-/
import Grip.Model.C13

namespace Grip.Props.C13.Lemmas
open Grip.C13

@[simp] theorem upd_same {γ : Type} (g : Nat → γ) (i : Nat) (v : γ) : upd g i v i = v := by
  simp [upd]

theorem upd_ne {γ : Type} (g : Nat → γ) {i j : Nat} (v : γ) (h : j ≠ i) : upd g i v j = g j := by
  simp [upd, h]

/-- every state the scheduled runner produces is a reachable state -/
theorem runSched_reach {σ A : Type} (act : A → σ → Option σ) (cands : σ → List A) (s0 : σ) :
    ∀ (fuel seed : Nat) (s : σ), Reach act s0 s → Reach act s0 (runSched act cands fuel seed s) := by
  intro fuel
  induction fuel with
  | zero => intro seed s h; simpa [runSched] using h
  | succ n ih =>
    intro seed s h
    simp only [runSched]
    split
    · rename_i s' hs'
      have hm : s' ∈ (cands s).filterMap (fun a => act a s) := List.mem_of_getElem? hs'
      obtain ⟨a, _, ha⟩ := List.mem_filterMap.1 hm
      exact ih _ _ (Reach.step a h ha)
    · exact h

theorem flatMap_single {α β : Type} (f : α → List β) (g : α → β) (h : ∀ x, f x = [g x]) :
    ∀ xs : List α, xs.flatMap f = xs.map g := by
  intro xs
  induction xs with
  | nil => rfl
  | cons x rest ih => simp [List.flatMap_cons, h, ih]

/-! ## Queue -/

structure QInv {α : Type} (xs : List α) (s : Q α) : Prop where
  flow : s.out ++ (s.hold.toList ++ (s.queue ++ (s.chIn ++ s.inp))) = xs
  inClosed : s.inClosed = true → s.inp = []
  closed : s.closed = true → s.chIn = [] ∧ s.inp = [] ∧ s.inClosed = true
  stopped : s.running = false → s.queue = [] ∧ s.closed = true ∧ s.hold = none
  fin : s.outClosed = true → s.running = false ∧ s.hold = none

theorem q_step {α : Type} (c : QCfg) (hc : c.popsHead = true) (xs : List α) (a : QAct) (s1 s2 : Q α)
    (ih : QInv xs s1) (hact : qAct c a s1 = some s2) : QInv xs s2 := by
    obtain ⟨flow, inC, cl, st, fin⟩ := ih
    cases a <;> simp only [qAct] at hact
    · -- send
      split at hact
      · rename_i x rest hx
        cases hact
        refine ⟨by simpa [hx] using flow, ?_, ?_, by simpa using st, by simpa using fin⟩
        · intro h; simp [inC h] at hx
        · intro h; simp [(cl h).2.1] at hx
      · cases hact
    · -- closeIn
      split at hact
      · rename_i hx
        split at hact
        · cases hact
          refine ⟨by simpa using flow, by intro _; exact hx, ?_, by simpa using st, by simpa using fin⟩
          intro h; exact ⟨(cl h).1, hx, rfl⟩
        · cases hact
      · cases hact
    · -- inRecv
      split at hact
      · rename_i x rest hx
        cases hact
        refine ⟨by simpa [hx] using flow, by simpa using inC, ?_, ?_, by simpa using fin⟩
        · intro h; simp [(cl h).1] at hx
        · intro h; have := (st h).2.1; simp [(cl this).1] at hx
      · cases hact
    · -- inDone
      split at hact
      · rename_i hx
        split at hact
        · rename_i hg
          cases hact
          refine ⟨by simpa using flow, by simpa using inC, ?_, ?_, by simpa using fin⟩
          · intro _; exact ⟨hx, inC hg.1, hg.1⟩
          · intro h; have := st h; exact ⟨this.1, rfl, this.2.2⟩
        · cases hact
      · cases hact
    · -- pop
      split at hact
      · rename_i hg
        try rw [if_pos hc] at hact
        split at hact
        · rename_i v rest hq
          cases hact
          have hh : s1.hold = none := by simpa using hg.2
          refine ⟨by simpa [hq, hh] using flow, by simpa using inC, by simpa using cl, ?_, ?_⟩
          · intro h; simp at h; simp [h] at hg
          · intro h; simp at h; have := (fin h).1; simp [this] at hg
        · cases hact
      · cases hact
    · -- stop
      split at hact
      · rename_i hq
        split at hact
        · rename_i hg
          cases hact
          have hh : s1.hold = none := by simpa using hg.2.1
          refine ⟨by simpa using flow, by simpa using inC, by simpa using cl, ?_, ?_⟩
          · intro _; exact ⟨hq, hg.2.2, hh⟩
          · intro h; exact ⟨rfl, (fin h).2⟩
        · cases hact
      · cases hact
    · -- push
      split at hact
      · rename_i v hv
        cases hact
        refine ⟨by simpa [hv] using flow, by simpa using inC, by simpa using cl, ?_, ?_⟩
        · intro h; have := (st h).2.2; simp [this] at hv
        · intro h; have := (fin h).2; simp [this] at hv
      · cases hact
    · -- fin
      split at hact
      · rename_i hg
        cases hact
        have hh : s1.hold = none := by simpa using hg.2.1
        exact ⟨by simpa using flow, by simpa using inC, by simpa using cl, by simpa using st,
          by intro _; exact ⟨hg.1, hh⟩⟩
      · cases hact

theorem q_inv {α : Type} (c : QCfg) (hc : c.popsHead = true) (xs : List α) :
    ∀ s, Reach (qAct c) (qInit xs) s → QInv xs s := by
  intro s h
  induction h with
  | init => constructor <;> simp [qInit]
  | step a _ hact ih => exact q_step c hc xs a _ _ ih hact

/-! ## Dual -/

def dualCur {ρ δ : Type} (des : ρ → δ → ρ) : Option (ρ × List δ) → List ρ
  | none => []
  | some (r, ds) => ds.map (des r)

structure DualInv {ρ δ : Type} (isSig : ρ → Bool) (loader : ρ → List δ) (des : ρ → δ → ρ)
    (xs : List ρ) (s : Dual ρ δ) : Prop where
  flow : s.out ++ (s.data.map (dualConv des) ++ (dualCur des s.cur ++ s.inp.flatMap (dualOutOf isSig loader des)))
          = xs.flatMap (dualOutOf isSig loader des)
  s1 : s.s1done = true → s.inp = [] ∧ s.cur = none
  fin : s.outClosed = true → s.s1done = true ∧ s.data = []

theorem dual_step {ρ δ : Type} (isSig : ρ → Bool) (loader : ρ → List δ) (des : ρ → δ → ρ)
    (xs : List ρ) (a : DualAct) (s1 s2 : Dual ρ δ)
    (ih : DualInv isSig loader des xs s1) (hact : dualAct isSig loader des a s1 = some s2) :
    DualInv isSig loader des xs s2 := by
  obtain ⟨flow, h1, fin⟩ := ih
  cases a <;> simp only [dualAct] at hact
  · -- s1recv
    split at hact
    · rename_i r rest hc hi
      split at hact
      · rename_i hs
        cases hact
        refine ⟨?_, ?_, by intro h; simp at h; simp [(h1 (fin h).1).1] at hi⟩
        · simpa [hc, hi, dualCur, dualOutOf, hs, dualConv] using flow
        · intro h; simp at h; simp [(h1 h).1] at hi
      · rename_i hs
        cases hact
        refine ⟨?_, ?_, by simpa using fin⟩
        · simpa [hc, hi, dualCur, dualOutOf, hs] using flow
        · intro h; simp at h; simp [(h1 h).1] at hi
    · cases hact
  · -- s1emit
    split at hact
    · rename_i r d ds hc
      cases hact
      refine ⟨?_, ?_, by intro h; simp at h; simp [(h1 (fin h).1).2] at hc⟩
      · simpa [hc, dualCur, dualConv] using flow
      · intro h; simp at h; simp [(h1 h).2] at hc
    · cases hact
  · -- s1next
    split at hact
    · rename_i r hc
      cases hact
      refine ⟨?_, ?_, by simpa using fin⟩
      · simpa [hc, dualCur] using flow
      · intro h; simp at h; exact ⟨(h1 h).1, rfl⟩
    · cases hact
  · -- s1close
    split at hact
    · rename_i hc hi
      split at hact
      · cases hact
        refine ⟨by simpa using flow, by intro _; exact ⟨hi, hc⟩, ?_⟩
        intro h; simp at h; exact ⟨rfl, (fin h).2⟩
      · cases hact
    · cases hact
  · -- s2
    split at hact
    · rename_i d rest hd
      split at hact
      · rename_i ho
        cases hact
        refine ⟨?_, by simpa using h1, ?_⟩
        · simpa [hd] using flow
        · intro h; simp at h; simp [h] at ho
      · cases hact
    · cases hact
  · -- s2close
    split at hact
    · rename_i hd
      split at hact
      · rename_i hg
        cases hact
        exact ⟨by simpa using flow, by simpa using h1, by intro _; exact ⟨hg.1, hd⟩⟩
      · cases hact
    · cases hact

theorem dual_inv {ρ δ : Type} (isSig : ρ → Bool) (loader : ρ → List δ) (des : ρ → δ → ρ) (xs : List ρ) :
    ∀ s, Reach (dualAct isSig loader des) (dualInit xs) s → DualInv isSig loader des xs s := by
  intro s h
  induction h with
  | init => constructor <;> simp [dualInit, dualCur]
  | step a _ hact ih => exact dual_step isSig loader des xs a _ _ ih hact

/-! ## Batcher -/

structure BatInv {α : Type} (c : BatCfg) (xs : List α) (s : Bat α) : Prop where
  flow : s.out.flatten ++ (s.o ++ s.inp) = xs
  ok : ∀ b ∈ s.out, b ≠ [] ∧ b.length ≤ c.bs
  small : s.o.length < c.bs
  closedIn : s.opn = false → s.inp = []
  fin : s.outClosed = true → s.opn = false ∧ s.o = []

/-- the state between the `select` and the flush test: `o` may have reached `batchSize` -/
structure BatPre {α : Type} (c : BatCfg) (xs : List α) (s : Bat α) : Prop where
  flow : s.out.flatten ++ (s.o ++ s.inp) = xs
  ok : ∀ b ∈ s.out, b ≠ [] ∧ b.length ≤ c.bs
  small : s.o.length ≤ c.bs
  closedIn : s.opn = false → s.inp = []
  fin : s.outClosed = false

theorem bat_flush {α : Type} (c : BatCfg) (hbs : 0 < c.bs) (xs : List α) (t : Bool) (s : Bat α)
    (h : BatPre c xs s) : BatInv c xs (batFlush c t s) := by
  obtain ⟨flow, ok, small, ci, fin⟩ := h
  unfold batFlush
  split
  · rename_i hg
    refine ⟨by simpa using flow, ?_, by simpa using hbs, by simpa using ci, by simp [fin]⟩
    intro b hb
    simp at hb
    rcases hb with hb | hb
    · exact ok b hb
    · subst hb
      refine ⟨?_, small⟩
      intro he; simp [he] at hg
  · rename_i hg
    refine ⟨flow, ok, ?_, ci, by simp [fin]⟩
    by_cases h0 : s.o.length = 0
    · omega
    · have : ¬ (c.bs ≤ s.o.length) := by
        intro hle; exact hg ⟨by omega, Or.inl hle⟩
      omega

theorem bat_step {α : Type} (c : BatCfg) (hbs : 0 < c.bs) (hf : c.finalFlush = true) (xs : List α)
    (a : BatAct) (s1 s2 : Bat α) (ih : BatInv c xs s1) (hact : batAct c a s1 = some s2) :
    BatInv c xs s2 := by
  obtain ⟨flow, ok, small, ci, fin⟩ := ih
  cases a <;> simp only [batAct] at hact
  · -- recv
    split at hact
    · rename_i ho
      have hnc : s1.outClosed = false := by
        cases h : s1.outClosed
        · rfl
        · simp [(fin h).1] at ho
      split at hact
      · rename_i x rest hx
        cases hact
        apply bat_flush c hbs xs
        refine ⟨by simpa [hx] using flow, ok, ?_, ?_, hnc⟩
        · simp; omega
        · intro h; simp [ho] at h
      · rename_i hx
        cases hact
        apply bat_flush c hbs xs
        exact ⟨by simpa using flow, ok, by simp; omega, by intro _; exact hx, hnc⟩
    · cases hact
  · -- idle
    split at hact
    · rename_i ho
      have hnc : s1.outClosed = false := by
        cases h : s1.outClosed
        · rfl
        · simp [(fin h).1] at ho
      cases hact
      apply bat_flush c hbs xs
      exact ⟨flow, ok, by omega, ci, hnc⟩
    · cases hact
  · -- fin
    split at hact
    · rename_i hg
      cases hact
      split
      · rename_i hl
        refine ⟨by simpa using flow, ?_, by simpa using hbs, by simpa using ci, by intro _; exact ⟨hg.1, rfl⟩⟩
        intro b hb
        simp at hb
        rcases hb with hb | hb
        · exact ok b hb
        · subst hb
          refine ⟨?_, by omega⟩
          intro he; simp [he] at hl
      · rename_i hl
        have ho : s1.o = [] := by
          cases h : s1.o with
          | nil => rfl
          | cons y ys => simp [h, hf] at hl
        exact ⟨flow, ok, small, ci, by intro _; exact ⟨hg.1, ho⟩⟩
    · cases hact

theorem bat_inv {α : Type} (c : BatCfg) (hbs : 0 < c.bs) (hf : c.finalFlush = true) (xs : List α) :
    ∀ s, Reach (batAct c) (batInit xs) s → BatInv c xs s := by
  intro s h
  induction h with
  | init => constructor <;> simp [batInit, hbs]
  | step a _ hact ih => exact bat_step c hbs hf xs a _ _ ih hact

/-- `batRun` (what the driver executes) only visits reachable states -/
theorem bat_foldl_reach {α : Type} (c : BatCfg) (xs : List α) (evs : List BatAct) :
    ∀ s, Reach (batAct c) (batInit xs) s →
      Reach (batAct c) (batInit xs) (evs.foldl (fun s a => (batAct c a s).getD s) s) := by
  induction evs with
  | nil => intro s h; simpa using h
  | cons e es ih =>
    intro s h
    simp only [List.foldl_cons]
    apply ih
    cases hs : batAct c e s with
    | none => simpa using h
    | some s' => simpa using Reach.step e h hs

theorem batRun_reach {α : Type} (c : BatCfg) (xs : List α) (evs : List BatAct) :
    Reach (batAct c) (batInit xs) (batRun c evs xs) := by
  unfold batRun
  have h := bat_foldl_reach c xs evs _ Reach.init
  simp only
  cases hs : batAct c .fin (evs.foldl (fun s a => (batAct c a s).getD s) (batInit xs)) with
  | none => simpa using h
  | some s' => simpa using Reach.step .fin h hs

end Grip.Props.C13.Lemmas
