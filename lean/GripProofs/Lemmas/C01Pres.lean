/-
  Lemmas for GripProofs/Props/C01Pres.lean: how the typing fold, the evaluation fold and the
  "along the typing" side conditions split at a prefix of the statement list.
-/
import GripProofs.Lemmas.C01Shape

namespace Grip.Props.C01.Lemmas
open Grip Grip.Spec.C01

/-- A well-typed list has well-typed prefixes, and the rest is typed from the prefix's state. -/
theorem typeFold_split : ∀ (stmts : List Stmt) (st stf : TState) (k : Nat),
    typeFold st stmts = .ok stf →
    ∃ stk, typeFold st (stmts.take k) = .ok stk ∧ typeFold stk (stmts.drop k) = .ok stf
  | stmts, st, stf, 0, h => ⟨st, by simp [typeFold], by simpa using h⟩
  | [], st, stf, k + 1, h => ⟨st, by simp [typeFold], by simpa using h⟩
  | s :: rest, st, stf, k + 1, h => by
    unfold typeFold at h
    cases hts : typeStep st s with
    | error e => rw [hts] at h; cases h
    | ok st' =>
      rw [hts] at h
      obtain ⟨stk, h1, h2⟩ := typeFold_split rest st' stf k h
      refine ⟨stk, ?_, by simpa using h2⟩
      simp only [List.take_succ_cons, typeFold, hts]
      exact h1

/-- The evaluation fold over a list is the fold over a prefix followed by the fold over the rest. -/
theorem evalFrom_split (numOf : String → Option Int) (g : AGraph) :
    ∀ (stmts : List Stmt) (st stk : TState) (ts : List Traveler) (k : Nat),
    typeFold st (stmts.take k) = .ok stk →
    evalFrom numOf g st ts stmts =
      evalFrom numOf g stk (evalFrom numOf g st ts (stmts.take k)) (stmts.drop k)
  | stmts, st, stk, ts, 0, h => by
    simp only [List.take_zero, typeFold] at h
    injection h with h; subst h
    simp [evalFrom]
  | [], st, stk, ts, k + 1, h => by
    simp only [List.take_nil, typeFold] at h
    injection h with h; subst h
    simp [evalFrom]
  | s :: rest, st, stk, ts, k + 1, h => by
    simp only [List.take_succ_cons, typeFold] at h
    cases hts : typeStep st s with
    | error e => rw [hts] at h; cases h
    | ok st' =>
      rw [hts] at h
      simp only [List.take_succ_cons, List.drop_succ_cons, evalFrom, hts]
      exact evalFrom_split numOf g rest st' stk _ k h

/-- A side condition that holds along the typing of a list holds along the typing of the rest,
    started from the state the prefix leads to … -/
theorem alongTyping_drop {P : TState → Stmt → Prop} : ∀ (stmts : List Stmt) (st stk : TState) (k : Nat),
    alongTyping P st stmts → typeFold st (stmts.take k) = .ok stk → alongTyping P stk (stmts.drop k)
  | stmts, st, stk, 0, hal, h => by
    simp only [List.take_zero, typeFold] at h
    injection h with h; subst h
    simpa using hal
  | [], st, stk, k + 1, _, _ => by simp [alongTyping]
  | s :: rest, st, stk, k + 1, hal, h => by
    simp only [List.take_succ_cons, typeFold] at h
    have h2 := hal.2
    cases hts : typeStep st s with
    | error e => rw [hts] at h; cases h
    | ok st' =>
      rw [hts] at h h2
      simpa using alongTyping_drop rest st' stk k h2 h

/-- … and along the typing of every prefix. -/
theorem alongTyping_take {P : TState → Stmt → Prop} : ∀ (stmts : List Stmt) (st : TState) (k : Nat),
    alongTyping P st stmts → alongTyping P st (stmts.take k)
  | stmts, st, 0, _ => by simp [alongTyping]
  | [], st, k + 1, _ => by simp [alongTyping]
  | s :: rest, st, k + 1, hal => by
    simp only [List.take_succ_cons]
    refine ⟨hal.1, ?_⟩
    have h2 := hal.2
    cases hts : typeStep st s with
    | error e => trivial
    | ok st' =>
      rw [hts] at h2
      exact alongTyping_take rest st' k h2

/-- The head of a list "along the typing". -/
theorem alongTyping_head {P : TState → Stmt → Prop} {s : Stmt} {rest : List Stmt} {st : TState}
    (h : alongTyping P st (s :: rest)) : P st s := h.1

/-- The final traveler list of the fold, general start state. -/
theorem evalFrom_preserves_gen {E : ToPred} (numOf : String → Option Int) (g : AGraph)
    (hg : ∀ e ∈ g.edges, E e.to) (stmts : List Stmt) (st stf : TState) (ts : List Traveler)
    (henv : MarkEnvOK st) (hal : alongTyping (PresHyp E) st stmts) (hf : typeFold st stmts = .ok stf)
    (hin : ∀ t ∈ ts, WellShapedG E st.last st.marks t) :
    ∀ t ∈ evalFrom numOf g st ts stmts, WellShapedG E stf.last stf.marks t :=
  trace_preserves_gen numOf g hg stmts st ts henv hal hin _ (evalTrace_final numOf g stmts st stf ts hf)

/-- `MarkEnvOK` along a well-typed prefix. -/
theorem markEnv_fold : ∀ (stmts : List Stmt) (st stf : TState), MarkEnvOK st →
    (∀ s ∈ stmts, shapeModelled s = true) → typeFold st stmts = .ok stf → MarkEnvOK stf
  | [], st, stf, henv, _, h => by
    simp only [typeFold] at h; injection h with h; subst h; exact henv
  | s :: rest, st, stf, henv, hm, h => by
    unfold typeFold at h
    cases hts : typeStep st s with
    | error e => rw [hts] at h; cases h
    | ok st' =>
      rw [hts] at h
      exact markEnv_fold rest st' stf (markEnv_step henv (hm s (by simp)) hts)
        (fun s' hs' => hm s' (by simp [hs'])) h

/-- Along a WELL-TYPED list every statement satisfies the side condition in some state. -/
theorem alongTyping_forall {P : TState → Stmt → Prop} : ∀ (stmts : List Stmt) (st stf : TState),
    alongTyping P st stmts → typeFold st stmts = .ok stf → ∀ s ∈ stmts, ∃ st', P st' s
  | [], _, _, _, _ => fun s hs => by cases hs
  | a :: rest, st, stf, hal, h => by
    intro s hs
    rcases List.mem_cons.1 hs with rfl | hs
    · exact ⟨st, hal.1⟩
    · unfold typeFold at h
      have h2 := hal.2
      cases hts : typeStep st a with
      | error e => rw [hts] at h; cases h
      | ok st' =>
        rw [hts] at h h2
        exact alongTyping_forall rest st' stf h2 h s hs

end Grip.Props.C01.Lemmas
