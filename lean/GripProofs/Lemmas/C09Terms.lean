/-
  Lemmas for C09, term keys: the invariant `TermInv` between the term family (`t|…` keys with a
  stored count) and the entry family (`i|…` keys) of kvindex, and its preservation by every
  mutation of the MODEL and by the write-back of `fieldTermCounts`.

  `TermInv ts es` says: no entry key is stored twice, every entry has its term key, a stored
  count is 0 (invalidated) or the exact number of entries below the term, and a term key exists
  only while some entry lies below it (no dead term).  It is a statement about the two key
  families only (no document lists, no SPEC state), so it is carried through *every* operation,
  bulk insertion onto a live id included.  Consequences proved here: `removeLoop` never fails
  (`removeLoop_total`), so `removeDocTx`/`removeDoc` always commit and `addDoc` fails only when
  `addDocTx` rejects the document.
-/
import GripProofs.Lemmas.C09

namespace Grip.Props.C09.Lemmas
open Grip Grip.C09

/-! ### the store primitives as maps -/

theorem lookup_filter_key {α β} [BEq α] [LawfulBEq α] (q : α → Bool) (l : List (α × β)) (k : α) :
    (l.filter (fun p => q p.1)).lookup k = if q k then l.lookup k else none := by
  induction l with
  | nil => simp
  | cons p ps ih =>
    obtain ⟨a, b⟩ := p
    cases hq : q a with
    | true =>
      have hf : List.filter (fun p : α × β => q p.1) ((a, b) :: ps) =
          (a, b) :: List.filter (fun p : α × β => q p.1) ps := by simp [hq]
      rw [hf, List.lookup_cons, List.lookup_cons]
      by_cases hk : k = a
      · subst hk; simp [hq]
      · have hb : (k == a) = false := by simpa using hk
        simp only [hb, ih]
    | false =>
      have hf : List.filter (fun p : α × β => q p.1) ((a, b) :: ps) =
          List.filter (fun p : α × β => q p.1) ps := by simp [hq]
      rw [hf, List.lookup_cons, ih]
      by_cases hk : k = a
      · subst hk; simp [hq]
      · have hb : (k == a) = false := by simpa using hk
        simp only [hb]

theorem lookup_cons_ite {α β} [BEq α] [LawfulBEq α] [DecidableEq α] (a : α) (b : β)
    (l : List (α × β)) (k : α) :
    ((a, b) :: l).lookup k = if k = a then some b else l.lookup k := by
  by_cases h : k = a
  · subst h; simp
  · have hb : (k == a) = false := by simpa using h
    simp [List.lookup_cons, hb, h]

theorem getTerm_delTerm (ts : List (TKey × Nat)) (k k' : TKey) :
    getTerm (delTerm ts k) k' = if k' = k then none else getTerm ts k' := by
  have := lookup_filter_key (fun a : TKey => decide (a ≠ k)) ts k'
  simp only [getTerm, delTerm]
  rw [this]
  by_cases h : k' = k <;> simp [h]

theorem getTerm_setTerm (ts : List (TKey × Nat)) (k k' : TKey) (c : Nat) :
    getTerm (setTerm ts k c) k' = if k' = k then some c else getTerm ts k' := by
  by_cases h : k' = k
  · subst h; simp [getTerm, setTerm]
  · have hb : (k' == k) = false := by simpa using h
    have := getTerm_delTerm ts k k'
    simp only [getTerm, h, if_false] at this
    simp only [getTerm, setTerm, List.lookup_cons, hb, h, if_false, this]

theorem getTerm_filter_field (ts : List (TKey × Nat)) (f : String) (k : TKey) :
    getTerm (ts.filter (fun p => p.1.1 ≠ f)) k = if k.1 = f then none else getTerm ts k := by
  have := lookup_filter_key (fun a : TKey => decide (a.1 ≠ f)) ts k
  simp only [getTerm]
  rw [this]
  by_cases h : k.1 = f <;> simp [h]

/-- A term key is stored iff some pair with that key is in the family. -/
theorem getTerm_isSome_iff (ts : List (TKey × Nat)) (k : TKey) :
    (getTerm ts k).isSome ↔ ∃ c, (k, c) ∈ ts := by
  induction ts with
  | nil => simp [getTerm]
  | cons p ps ih =>
    obtain ⟨a, b⟩ := p
    simp only [getTerm, List.lookup_cons] at ih ⊢
    by_cases hk : k = a
    · subst hk; simp
    · have hb : (k == a) = false := by simpa using hk
      simp only [hb, ih, List.mem_cons, Prod.mk.injEq, hk, false_and, false_or]

/-! ### counting entries below a term -/

theorem countEntries_cons (e : EKey) (es : List EKey) (k : TKey) :
    countEntries (e :: es) k = (if e.f = k.1 ∧ e.t = k.2 then 1 else 0) + countEntries es k := by
  simp only [countEntries, List.filter_cons]
  by_cases h : e.f = k.1 ∧ e.t = k.2
  · simp [h]; omega
  · simp [h]

theorem countEntries_pos_iff (es : List EKey) (k : TKey) :
    0 < countEntries es k ↔ ∃ e ∈ es, e.f = k.1 ∧ e.t = k.2 := by
  simp only [countEntries, List.length_pos_iff_exists_mem, List.mem_filter, decide_eq_true_eq]

theorem countEntries_pos_of_mem {es : List EKey} {e : EKey} (h : e ∈ es) :
    0 < countEntries es (e.f, e.t) :=
  (countEntries_pos_iff es _).2 ⟨e, h, rfl, rfl⟩

/-- Deleting a stored entry key (stored once) lowers exactly the count of its own term by one. -/
theorem countEntries_delEntry (es : List EKey) (hn : es.Nodup) (ek : EKey) (k : TKey) :
    countEntries es k =
      countEntries (delEntry es ek) k + (if ek ∈ es ∧ ek.f = k.1 ∧ ek.t = k.2 then 1 else 0) := by
  induction es with
  | nil => simp [countEntries, delEntry]
  | cons a as ih =>
    have hna : a ∉ as := (List.nodup_cons.1 hn).1
    have ih := ih (List.nodup_cons.1 hn).2
    by_cases hae : a = ek
    · subst hae
      have hd : delEntry (a :: as) a = delEntry as a := by simp [delEntry]
      rw [hd, countEntries_cons]
      simp only [hna, false_and, if_false, Nat.add_zero] at ih
      simp only [List.mem_cons, true_or, true_and]
      omega
    · have hd : delEntry (a :: as) ek = a :: delEntry as ek := by simp [delEntry, hae]
      rw [hd, countEntries_cons, countEntries_cons]
      have hm : (ek ∈ a :: as) ↔ ek ∈ as := by
        simp only [List.mem_cons]
        constructor
        · rintro (h | h)
          · exact absurd h.symm hae
          · exact h
        · exact Or.inr
      simp only [hm]
      omega

theorem countEntries_setEntry (es : List EKey) (e : EKey) (k : TKey) :
    countEntries (setEntry es e) k =
      countEntries es k + (if e ∉ es ∧ e.f = k.1 ∧ e.t = k.2 then 1 else 0) := by
  by_cases h : e ∈ es
  · simp [setEntry, h]
  · simp only [setEntry, h, if_false, countEntries_cons, not_false_eq_true, true_and]
    omega

theorem countEntries_filter_field (es : List EKey) (f : String) (k : TKey) :
    countEntries (es.filter (fun e => e.f ≠ f)) k = if k.1 = f then 0 else countEntries es k := by
  induction es with
  | nil => simp [countEntries]
  | cons a as ih =>
    by_cases ha : a.f = f
    · have : (a :: as).filter (fun e => e.f ≠ f) = as.filter (fun e => e.f ≠ f) := by
        simp [ha]
      rw [this, ih, countEntries_cons]
      by_cases hk : k.1 = f
      · simp [hk]
      · have : ¬ (a.f = k.1 ∧ a.t = k.2) := fun h => hk (h.1 ▸ ha)
        simp [hk, this]
    · have : (a :: as).filter (fun e => e.f ≠ f) = a :: as.filter (fun e => e.f ≠ f) := by
        simp [ha]
      rw [this, countEntries_cons, ih, countEntries_cons]
      by_cases hk : k.1 = f
      · have : ¬ (a.f = k.1 ∧ a.t = k.2) := fun h => ha (h.1.trans hk)
        rw [if_neg this, if_pos hk, if_pos hk]
      · simp [hk]

theorem nodup_setEntry {es : List EKey} (hn : es.Nodup) (e : EKey) : (setEntry es e).Nodup := by
  by_cases h : e ∈ es
  · simp [setEntry, h, hn]
  · simp only [setEntry, h, if_false]
    exact List.nodup_cons.2 ⟨h, hn⟩

theorem nodup_delEntry {es : List EKey} (hn : es.Nodup) (e : EKey) : (delEntry es e).Nodup :=
  List.Pairwise.filter _ hn

theorem mem_delEntry (es : List EKey) (e x : EKey) : x ∈ delEntry es e ↔ x ∈ es ∧ x ≠ e := by
  simp [delEntry]

theorem mem_setEntry (es : List EKey) (e x : EKey) : x ∈ setEntry es e ↔ x = e ∨ x ∈ es := by
  by_cases h : e ∈ es
  · simp only [setEntry, h, if_true]
    constructor
    · exact Or.inr
    · rintro (rfl | h')
      · exact h
      · exact h'
  · simp [setEntry, h]

/-! ### the term-key invariant -/

/-- The invariant between the term family and the entry family of the index. -/
structure TermInv (ts : List (TKey × Nat)) (es : List EKey) : Prop where
  /-- an entry key is stored once (it is a key of the store) -/
  esNodup : es.Nodup
  /-- every entry has its term key -/
  hasKey : ∀ e ∈ es, (getTerm ts (e.f, e.t)).isSome
  /-- a stored count is 0 (invalidated) or the number of entries below the term -/
  exact : ∀ k c, getTerm ts k = some c → c = 0 ∨ c = countEntries es k
  /-- no dead term: a term key exists only while an entry lies below it -/
  live : ∀ k c, getTerm ts k = some c → 0 < countEntries es k

theorem termInv_init : TermInv [] [] := by
  constructor <;> simp [getTerm]

/-- Under the invariant the stored term keys are exactly the keys with an entry below them. -/
theorem TermInv.isSome_iff {ts es} (h : TermInv ts es) (k : TKey) :
    (getTerm ts k).isSome ↔ 0 < countEntries es k := by
  constructor
  · intro hs
    obtain ⟨c, hc⟩ := Option.isSome_iff_exists.1 hs
    exact h.live k c hc
  · intro hp
    obtain ⟨e, he, h1, h2⟩ := (countEntries_pos_iff es k).1 hp
    have := h.hasKey e he
    rw [h1, h2] at this
    exact this

/-- The two writes of one round of `AddDocTx`: invalidate the term, set the entry. -/
theorem termInv_addEntry {ts es} (h : TermInv ts es) (e : EKey) :
    TermInv (setTerm ts (e.f, e.t) 0) (setEntry es e) := by
  have hcnt : ∀ k, k ≠ (e.f, e.t) → countEntries (setEntry es e) k = countEntries es k := by
    intro k hk
    rw [countEntries_setEntry]
    have : ¬ (e ∉ es ∧ e.f = k.1 ∧ e.t = k.2) := by
      rintro ⟨_, h1, h2⟩
      exact hk (Prod.ext h1.symm h2.symm)
    simp [this]
  constructor
  · exact nodup_setEntry h.esNodup e
  · intro x hx
    rw [getTerm_setTerm]
    split
    · rfl
    · rcases (mem_setEntry es e x).1 hx with rfl | hx
      · next hne => exact absurd rfl hne
      · exact h.hasKey x hx
  · intro k c hc
    rw [getTerm_setTerm] at hc
    by_cases hk : k = (e.f, e.t)
    · simp only [hk, if_true, Option.some.injEq] at hc
      exact Or.inl hc.symm
    · simp only [hk, if_false] at hc
      rw [hcnt k hk]
      exact h.exact k c hc
  · intro k c hc
    rw [getTerm_setTerm] at hc
    by_cases hk : k = (e.f, e.t)
    · rw [hk]
      exact countEntries_pos_of_mem ((mem_setEntry es e e).2 (Or.inl rfl))
    · simp only [hk, if_false] at hc
      rw [hcnt k hk]
      exact h.live k c hc

/-- The write-back of a recount (`termGetCount`, `fieldTermCounts`) on a live term. -/
theorem termInv_recount {ts es} (h : TermInv ts es) (k : TKey) (hpos : 0 < countEntries es k) :
    TermInv (setTerm ts k (countEntries es k)) es := by
  constructor
  · exact h.esNodup
  · intro x hx
    rw [getTerm_setTerm]
    split
    · rfl
    · exact h.hasKey x hx
  · intro k' c hc
    rw [getTerm_setTerm] at hc
    by_cases hk : k' = k
    · simp only [hk, if_true, Option.some.injEq] at hc
      rw [hk]; exact Or.inr hc.symm
    · simp only [hk, if_false] at hc
      exact h.exact k' c hc
  · intro k' c hc
    rw [getTerm_setTerm] at hc
    by_cases hk : k' = k
    · rw [hk]; exact hpos
    · simp only [hk, if_false] at hc
      exact h.live k' c hc

/-- Deleting a stored entry together with the matching update of its term key: the key goes
    when the entry was the last one below it, otherwise it holds the lowered exact count. -/
theorem termInv_after_delete {ts es} (h : TermInv ts es) {ek : EKey} (hek : ek ∈ es)
    (ts2 : List (TKey × Nat))
    (hoff : ∀ k', k' ≠ (ek.f, ek.t) → getTerm ts2 k' = getTerm ts k')
    (hon : getTerm ts2 (ek.f, ek.t) =
      if countEntries es (ek.f, ek.t) - 1 = 0 then none
      else some (countEntries es (ek.f, ek.t) - 1)) :
    TermInv ts2 (delEntry es ek) := by
  have hsame : countEntries es (ek.f, ek.t) = countEntries (delEntry es ek) (ek.f, ek.t) + 1 := by
    have := countEntries_delEntry es h.esNodup ek (ek.f, ek.t)
    simpa [hek] using this
  have hother : ∀ k, k ≠ (ek.f, ek.t) → countEntries (delEntry es ek) k = countEntries es k := by
    intro k hk
    have := countEntries_delEntry es h.esNodup ek k
    have hne : ¬ (ek ∈ es ∧ ek.f = k.1 ∧ ek.t = k.2) := by
      rintro ⟨_, h1, h2⟩
      exact hk (Prod.ext h1.symm h2.symm)
    simp only [hne, if_false, Nat.add_zero] at this
    exact this.symm
  constructor
  · exact nodup_delEntry h.esNodup ek
  · intro x hx
    have hxes := ((mem_delEntry es ek x).1 hx).1
    by_cases hk : (x.f, x.t) = (ek.f, ek.t)
    · have hp := countEntries_pos_of_mem hx
      rw [hk] at hp ⊢
      rw [hon]
      have : ¬ (countEntries es (ek.f, ek.t) - 1 = 0) := by omega
      simp [this]
    · rw [hoff _ hk]; exact h.hasKey x hxes
  · intro k c hc
    by_cases hk : k = (ek.f, ek.t)
    · rw [hk] at hc ⊢
      rw [hon] at hc
      split at hc
      · cases hc
      · injection hc with hc
        right; omega
    · rw [hoff k hk] at hc
      rw [hother k hk]
      exact h.exact k c hc
  · intro k c hc
    by_cases hk : k = (ek.f, ek.t)
    · rw [hk] at hc ⊢
      rw [hon] at hc
      split at hc
      · cases hc
      · omega
    · rw [hoff k hk] at hc
      rw [hother k hk]
      exact h.live k c hc

/-- `termGetCount` on a stored term key never fails and returns the exact count; it only
    writes (a recount) under the key it was asked for. -/
theorem termGetCount_of_inv {ts es} (h : TermInv ts es) (k : TKey) (hk : (getTerm ts k).isSome) :
    ∃ ts1, termGetCount ts es k = some (ts1, countEntries es k) ∧
      ∀ k', k' ≠ k → getTerm ts1 k' = getTerm ts k' := by
  obtain ⟨c, hc⟩ := Option.isSome_iff_exists.1 hk
  cases c with
  | zero =>
    refine ⟨setTerm ts k (countEntries es k), by simp [termGetCount, hc], ?_⟩
    intro k' hne
    rw [getTerm_setTerm]; simp [hne]
  | succ n =>
    refine ⟨ts, ?_, fun _ _ => rfl⟩
    have := h.exact k (n + 1) hc
    have hx : n + 1 = countEntries es k := by omega
    rw [← hx]
    simp [termGetCount, hc]

/-- One round of the loop of `removeDocTx` never fails and keeps the invariant. -/
theorem removeEntryStep_total {ts es} (h : TermInv ts es) (ek : EKey) :
    ∃ r, removeEntryStep (ts, es) ek = some r ∧ TermInv r.1 r.2 := by
  by_cases hm : ek ∈ es
  · obtain ⟨ts1, hg, hoff1⟩ := termGetCount_of_inv h (ek.f, ek.t) (h.hasKey ek hm)
    have hpos := countEntries_pos_of_mem hm
    simp only [removeEntryStep, hm, if_true, hg, hpos]
    by_cases hz : countEntries es (ek.f, ek.t) - 1 = 0
    · refine ⟨(delTerm ts1 (ek.f, ek.t), delEntry es ek), by simp [hz], ?_⟩
      apply termInv_after_delete h hm
      · intro k' hne; rw [getTerm_delTerm]; simp [hne, hoff1 k' hne]
      · rw [getTerm_delTerm]; simp [hz]
    · refine ⟨(setTerm ts1 (ek.f, ek.t) (countEntries es (ek.f, ek.t) - 1), delEntry es ek),
        by simp [hz], ?_⟩
      apply termInv_after_delete h hm
      · intro k' hne; rw [getTerm_setTerm]; simp [hne, hoff1 k' hne]
      · rw [getTerm_setTerm]; simp [hz]
  · exact ⟨(ts, es), by simp [removeEntryStep, hm], h⟩

/-- `removeLoop` never fails on a state with the invariant, whatever list it is given (entries
    of the list that are not stored are skipped), and keeps the invariant. -/
theorem removeLoop_total_inv (l : List EKey) :
    ∀ {ts es}, TermInv ts es → ∃ r, removeLoop l (ts, es) = some r ∧ TermInv r.1 r.2 := by
  induction l with
  | nil => intro ts es h; exact ⟨(ts, es), rfl, h⟩
  | cons ek l ih =>
    intro ts es h
    obtain ⟨⟨ts1, es1⟩, hs, h1⟩ := removeEntryStep_total h ek
    obtain ⟨r, hr, h2⟩ := ih h1
    exact ⟨r, by simp only [removeLoop, hs, hr], h2⟩

theorem removeLoop_total {ts es} (h : TermInv ts es) (l : List EKey) :
    ∃ r, removeLoop l (ts, es) = some r :=
  let ⟨r, hr, _⟩ := removeLoop_total_inv l h
  ⟨r, hr⟩

theorem termInv_removeLoop {ts es} (h : TermInv ts es) (l : List EKey) {ts' es'}
    (hr : removeLoop l (ts, es) = some (ts', es')) : TermInv ts' es' := by
  obtain ⟨r, hr', h2⟩ := removeLoop_total_inv l h
  rw [hr] at hr'
  injection hr' with hr'
  subst hr'
  exact h2

/-- `removeDocTx` always commits on a state with the invariant; the result has the invariant
    and the same registered fields. -/
theorem removeDocTx_total {st : St} (h : TermInv st.terms st.entries) (d : String) :
    ∃ st', removeDocTx st d = some st' ∧ TermInv st'.terms st'.entries ∧ st'.fields = st.fields := by
  simp only [removeDocTx]
  cases hl : st.docs.lookup d with
  | none => exact ⟨st, rfl, h, rfl⟩
  | some l =>
    obtain ⟨⟨ts, es⟩, hr, h2⟩ := removeLoop_total_inv l h
    exact ⟨{ st with terms := ts, entries := es, docs := delDoc st.docs d }, by simp [hr], h2, rfl⟩

theorem termInv_removeDocTx {st st' : St} (h : TermInv st.terms st.entries) {d : String}
    (hs : removeDocTx st d = some st') : TermInv st'.terms st'.entries := by
  obtain ⟨st'', hs', h2, _⟩ := removeDocTx_total h d
  rw [hs] at hs'
  injection hs' with hs'
  subst hs'
  exact h2

theorem removeDoc_ne_none {st : St} (h : TermInv st.terms st.entries) (d : String) :
    removeDoc st d ≠ none := by
  obtain ⟨st', hs, _⟩ := removeDocTx_total h d
  simp [removeDoc, hs]

theorem termInv_addField {st : St} (h : TermInv st.terms st.entries) (f : String) :
    TermInv (addField st f).terms (addField st f).entries := h

/-- `RemoveField` deletes the term keys and the entry keys of the field together. -/
theorem termInv_removeField {st : St} (h : TermInv st.terms st.entries) (f : String) :
    TermInv (removeField st f).terms (removeField st f).entries := by
  simp only [removeField]
  constructor
  · exact List.Pairwise.filter _ h.esNodup
  · intro e he
    simp only [List.mem_filter, decide_eq_true_eq] at he
    rw [getTerm_filter_field]
    simp only [he.2, if_false]
    exact h.hasKey e he.1
  · intro k c hc
    rw [getTerm_filter_field] at hc
    rw [countEntries_filter_field]
    split at hc
    · cases hc
    · next hk => simp only [hk, if_false]; exact h.exact k c hc
  · intro k c hc
    rw [getTerm_filter_field] at hc
    rw [countEntries_filter_field]
    split at hc
    · cases hc
    · next hk => simp only [hk, if_false]; exact h.live k c hc

/-- The loop of `AddDocTx` keeps the invariant (every committed prefix of it does). -/
theorem termInv_addLoop (doc : JV) (d : String) (fs : List String) :
    ∀ {ts es l ts' es' l'}, TermInv ts es → addLoop doc d fs (ts, es, l) = some (ts', es', l') →
      TermInv ts' es' := by
  induction fs with
  | nil =>
    intro ts es l ts' es' l' h hs
    simp only [addLoop, Option.some.injEq, Prod.mk.injEq] at hs
    rw [← hs.1, ← hs.2.1]; exact h
  | cons f fs ih =>
    intro ts es l ts' es' l' h hs
    simp only [addLoop] at hs
    cases hd : mapDig doc (f.splitOn ".") with
    | none => simp only [hd] at hs; exact ih h hs
    | some v =>
      simp only [hd] at hs
      cases ht : termOf v with
      | none => simp [ht] at hs
      | some t =>
        simp only [ht] at hs
        exact ih (termInv_addEntry h ⟨f, t, d⟩) hs

theorem termInv_addDocTx {st st' : St} (h : TermInv st.terms st.entries) {d : String} {doc : JV}
    (hs : addDocTx st d doc = some st') : TermInv st'.terms st'.entries := by
  simp only [addDocTx] at hs
  cases hl : addLoop doc d st.fields (st.terms, st.entries, []) with
  | none => simp [hl] at hs
  | some r =>
    obtain ⟨ts, es, l⟩ := r
    simp only [hl, Option.some.injEq] at hs
    subst hs
    exact termInv_addLoop doc d st.fields h hl

theorem termInv_addDoc {st st' : St} (h : TermInv st.terms st.entries) {d : String} {doc : JV}
    (hs : addDoc st d doc = some st') : TermInv st'.terms st'.entries := by
  simp only [addDoc] at hs
  cases hr : removeDocTx st d with
  | none => simp [hr] at hs
  | some st1 =>
    simp only [hr] at hs
    exact termInv_addDocTx (termInv_removeDocTx h hr) hs

/-- `addDocTx` fails exactly when the projection of the document is rejected (some registered
    field holds a value that is neither string nor number). -/
theorem addDocTx_none_iff (st : St) (d : String) (doc : JV) :
    addDocTx st d doc = none ↔ Spec.project doc st.fields = none := by
  have hlp := addLoop_project doc d st.fields st.terms st.entries []
  simp only [addDocTx]
  cases hp : Spec.project doc st.fields with
  | none => simp only [hp] at hlp; simp [hlp]
  | some pr =>
    simp only [hp] at hlp
    obtain ⟨ts', es', h1, _⟩ := hlp
    simp [h1]

/-- On a state with the invariant `AddDoc` fails only because `AddDocTx` rejects the document:
    the removal of the previous version always commits. -/
theorem addDoc_none_iff {st : St} (h : TermInv st.terms st.entries) (d : String) (doc : JV) :
    addDoc st d doc = none ↔ Spec.project doc st.fields = none := by
  obtain ⟨st1, hs, _, hf⟩ := removeDocTx_total h d
  simp only [addDoc, hs]
  rw [addDocTx_none_iff, hf]

/-! ### the term listing and the count loop -/

theorem mem_fieldTermKeys (st : St) (f : String) (t : Term) :
    t ∈ fieldTermKeys st f ↔ (getTerm st.terms (f, t)).isSome := by
  rw [getTerm_isSome_iff]
  simp only [fieldTermKeys, mem_sortBy, List.mem_map, List.mem_filter, decide_eq_true_eq]
  constructor
  · rintro ⟨⟨⟨f', t'⟩, c⟩, ⟨hm, hf⟩, ht⟩
    simp only at hf ht
    subst hf; subst ht
    exact ⟨c, hm⟩
  · rintro ⟨c, hm⟩
    exact ⟨((f, t), c), ⟨hm, rfl⟩, rfl⟩

/-- Under the invariant the listed terms of a field are exactly the terms with an entry. -/
theorem mem_fieldTermKeys_iff {st : St} (h : TermInv st.terms st.entries) (f : String) (t : Term) :
    t ∈ fieldTermKeys st f ↔ 0 < countEntries st.entries (f, t) := by
  rw [mem_fieldTermKeys, h.isSome_iff]

/-- The loop of `fieldTermCounts` over live terms: one pair per listed term, every count is the
    number of entries below the term, and the recounts written back keep the invariant. -/
theorem countLoop_spec (f : String) (es : List EKey) (l : List Term) :
    ∀ {ts}, TermInv ts es → (∀ t ∈ l, 0 < countEntries es (f, t)) →
      TermInv (countLoop f es l ts).1 es ∧ (countLoop f es l ts).2.map Prod.fst = l ∧
        ∀ p ∈ (countLoop f es l ts).2, p.2 = countEntries es (f, p.1) := by
  induction l with
  | nil => intro ts h _; simp [countLoop, h]
  | cons t rest ih =>
    intro ts h hl
    have hpos := hl t (List.mem_cons_self ..)
    have hrest : ∀ t' ∈ rest, 0 < countEntries es (f, t') :=
      fun t' ht' => hl t' (List.mem_cons_of_mem _ ht')
    by_cases hz : (getTerm ts (f, t)).getD 0 = 0
    · have hstep : countLoop f es (t :: rest) ts =
          ((countLoop f es rest (setTerm ts (f, t) (countEntries es (f, t)))).1,
            (t, countEntries es (f, t)) ::
              (countLoop f es rest (setTerm ts (f, t) (countEntries es (f, t)))).2) := by
        simp [countLoop, hz]
      obtain ⟨h1, h2, h3⟩ := ih (termInv_recount h (f, t) hpos) hrest
      rw [hstep]
      refine ⟨h1, by simp [h2], ?_⟩
      intro p hp
      rcases List.mem_cons.1 hp with rfl | hp
      · rfl
      · exact h3 p hp
    · have hstep : countLoop f es (t :: rest) ts =
          ((countLoop f es rest ts).1,
            (t, (getTerm ts (f, t)).getD 0) :: (countLoop f es rest ts).2) := by
        simp [countLoop, hz]
      obtain ⟨h1, h2, h3⟩ := ih h hrest
      rw [hstep]
      refine ⟨h1, by simp [h2], ?_⟩
      intro p hp
      rcases List.mem_cons.1 hp with rfl | hp
      · cases hg : getTerm ts (f, t) with
        | none => simp [hg] at hz
        | some c =>
          simp only [hg, Option.getD_some] at hz ⊢
          rcases h.exact (f, t) c hg with h0 | h0
          · exact absurd h0 hz
          · exact h0
      · exact h3 p hp

/-- `fieldTermCounts` on a state with the invariant: the state returned differs only in the
    term family, still has the invariant, and the answer pairs every listed term with the number
    of entries below it. -/
theorem fieldTermCounts_spec {st : St} (h : TermInv st.terms st.entries) (f : String) :
    (fieldTermCounts st f).1.entries = st.entries ∧ (fieldTermCounts st f).1.docs = st.docs ∧
    (fieldTermCounts st f).1.fields = st.fields ∧
    TermInv (fieldTermCounts st f).1.terms (fieldTermCounts st f).1.entries ∧
    (fieldTermCounts st f).2.map Prod.fst = fieldTermKeys st f ∧
    ∀ p ∈ (fieldTermCounts st f).2, p.2 = countEntries st.entries (f, p.1) := by
  have := countLoop_spec f st.entries (fieldTermKeys st f) h
    (fun t ht => (mem_fieldTermKeys_iff h f t).1 ht)
  simp only [fieldTermCounts]
  exact ⟨trivial, trivial, trivial, this.1, this.2.1, this.2.2⟩

end Grip.Props.C09.Lemmas
