/-
  GripProofs.Lemmas.C17Read — helper lemmas for Props/C17Read over the transition system of
  Grip.Model.C17Read (kvgraph/graph.go read paths interleaved with atomic write groups).

  * provenance of store bindings: every binding of the live store / of any snapshot is a binding
    of the initial store or the argument of a `Set` in an earlier write group (`Src`, `Inv`);
  * the one-View invariant (`SnapInv`): emitted ++ still-to-emit = the function of the snapshot;
  * `run` bookkeeping (append, prefix of `out`, the part of a run before the View opens);
  * the write lists of the model = the writes of Grip.C03.insertVertex / insertEdge / insertAll
    (kvgraph/graph.go insertVertex, insertEdge, and the loop of AddVertex / AddEdge / BulkAdd).

  * `AdjClosedP` (every adjacency entry has its edge record) is kept by every ATOMIC group of
    AddVertex / AddEdge / BulkAdd, DelEdge, DelVertex — whatever (stale) View the deletes were
    computed from.

  Trusted: nothing beyond the model; only propext / Quot.sound / Classical.choice are used.
-/
import Grip.Model.C17Read
import GripProofs.Lemmas.C03KV

namespace GripProofs.C17Read
open Grip Grip.C17Read
open Grip.C03 (KV SKey Val)

/-! ### key-value map facts -/

theorem get_mem {m : KV} {k : SKey} {v : Val} (h : m.get k = some v) : (k, v) ∈ m := by
  unfold KV.get at h
  cases hf : m.find? (fun p => p.1 = k) with
  | none => simp [hf] at h
  | some p =>
    have hm := List.mem_of_find?_eq_some hf
    have hk := List.find?_some hf
    simp [hf] at h
    have hk' : p.1 = k := by simpa using hk
    have : p = (k, v) := by cases p; simp_all
    exact this ▸ hm

theorem mem_del {m : KV} {k : SKey} {p : SKey × Val} (h : p ∈ m.del k) : p ∈ m := by
  unfold KV.del at h
  exact (List.mem_filter.1 h).1

theorem mem_set {m : KV} {k : SKey} {v : Val} {p : SKey × Val} (h : p ∈ m.set k v) :
    p = (k, v) ∨ p ∈ m := by
  unfold KV.set at h
  rcases List.mem_cons.1 h with h | h
  · exact .inl h
  · exact .inr (mem_del h)

theorem applyGroup_mem {p : SKey × Val} : ∀ (ws : List W) (m : KV), p ∈ applyGroup m ws →
    p ∈ m ∨ W.set p.1 p.2 ∈ ws
  | [], _, h => .inl h
  | w :: ws, m, h => by
    have h' : p ∈ applyGroup (applyW m w) ws := h
    rcases applyGroup_mem ws _ h' with h1 | h1
    · cases w with
      | set k v =>
        rcases mem_set (show p ∈ m.set k v from h1) with h2 | h2
        · exact .inr (by rw [h2]; exact List.mem_cons_self)
        · exact .inl h2
      | del k => exact .inl (mem_del (show p ∈ m.del k from h1))
    · exact .inr (List.mem_cons_of_mem _ h1)

theorem filterMap_congr' {α β : Type} {f g : α → Option β} : ∀ (l : List α),
    (∀ x ∈ l, f x = g x) → l.filterMap f = l.filterMap g
  | [], _ => rfl
  | x :: xs, h => by
    have hx := h x List.mem_cons_self
    have ih := filterMap_congr' xs (fun y hy => h y (List.mem_cons_of_mem _ hy))
    simp only [List.filterMap_cons, hx, ih]

/-! ### provenance -/

/-- the binding `p` was in the initial store, or is the argument of a `Set` of a group in `hist` -/
def Src (init : KV) (hist : List (List W)) (p : SKey × Val) : Prop :=
  p ∈ init ∨ ∃ ws ∈ hist, W.set p.1 p.2 ∈ ws

def AllSrc (init : KV) (hist : List (List W)) (m : KV) : Prop := ∀ p ∈ m, Src init hist p

theorem Src.mono {init : KV} {hist : List (List W)} {p : SKey × Val} (more : List (List W))
    (h : Src init hist p) : Src init (hist ++ more) p := by
  rcases h with h | ⟨ws, hw, hs⟩
  · exact .inl h
  · exact .inr ⟨ws, List.mem_append_left _ hw, hs⟩

theorem AllSrc.mono {init : KV} {hist : List (List W)} {m : KV} (more : List (List W))
    (h : AllSrc init hist m) : AllSrc init (hist ++ more) m := fun p hp => (h p hp).mono more

theorem AllSrc.write {init : KV} {hist : List (List W)} {m : KV} (ws : List W)
    (h : AllSrc init hist m) : AllSrc init (hist ++ [ws]) (applyGroup m ws) := by
  intro p hp
  rcases applyGroup_mem ws m hp with h1 | h1
  · exact (h p h1).mono _
  · exact .inr ⟨ws, by simp, h1⟩

/-- what an emitted element can be: built by `found` from ONE sourced binding, or the
    path's `missing` answer -/
def Emitted {ι ε : Type} (P : Path ι ε) (init : KV) (hist : List (List W)) (e : ε) : Prop :=
  (∃ i v, P.found i v = some e ∧ Src init hist (P.key i, v)) ∨ ∃ i, P.missing i = some e

theorem Emitted.mono {ι ε : Type} {P : Path ι ε} {init : KV} {hist : List (List W)} {e : ε}
    (more : List (List W)) (h : Emitted P init hist e) : Emitted P init (hist ++ more) e := by
  rcases h with ⟨i, v, hf, hs⟩ | h
  · exact .inl ⟨i, v, hf, hs.mono more⟩
  · exact .inr h

structure Inv {ι ε : Type} (P : Path ι ε) (init : KV) (hist : List (List W)) (s : St ι ε) : Prop where
  live : AllSrc init hist s.live
  a : ∀ m, s.snapA = some m → AllSrc init hist m
  b : ∀ m, s.snapB = some m → AllSrc init hist m
  out : ∀ e ∈ s.out, Emitted P init hist e

theorem Inv.mono {ι ε : Type} {P : Path ι ε} {init : KV} {hist : List (List W)} {s : St ι ε}
    (more : List (List W)) (h : Inv P init hist s) : Inv P init (hist ++ more) s :=
  ⟨h.live.mono more, fun m hm => (h.a m hm).mono more, fun m hm => (h.b m hm).mono more,
   fun e he => (h.out e he).mono more⟩

theorem lookup_emitted {ι ε : Type} {P : Path ι ε} {init : KV} {hist : List (List W)} {m : KV}
    (hm : AllSrc init hist m) {i : ι} {e : ε} (h : P.lookup m i = some e) : Emitted P init hist e := by
  unfold Path.lookup at h
  cases hg : m.get (P.key i) with
  | none => rw [hg] at h; exact .inr ⟨i, h⟩
  | some v => rw [hg] at h; exact .inl ⟨i, v, h, hm _ (get_mem hg)⟩

theorem stepGet_nil {ι ε : Type} (P : Path ι ε) (s : St ι ε) (h : s.pending = []) : stepGet P s = s := by
  unfold stepGet; simp [h]

theorem stepGet_none {ι ε : Type} (P : Path ι ε) (s : St ι ε) (h : getStore P s = none) : stepGet P s = s := by
  unfold stepGet; cases s.pending <;> simp [h]

theorem stepGet_cons {ι ε : Type} (P : Path ι ε) (s : St ι ε) {i : ι} {rest : List ι} {m : KV}
    (hp : s.pending = i :: rest) (hm : getStore P s = some m) :
    stepGet P s = { s with pending := rest, out := s.out ++ (P.lookup m i).toList } := by
  unfold stepGet; simp [hp, hm]

/-- the three shapes of a `get` step -/
theorem stepGet_cases {ι ε : Type} (P : Path ι ε) (s : St ι ε) :
    stepGet P s = s ∨ ∃ i rest m, s.pending = i :: rest ∧ getStore P s = some m ∧
      stepGet P s = { s with pending := rest, out := s.out ++ (P.lookup m i).toList } := by
  cases hp : s.pending with
  | nil => exact .inl (stepGet_nil P s hp)
  | cons i rest =>
    cases hm : getStore P s with
    | none => exact .inl (stepGet_none P s hm)
    | some m => exact .inr ⟨i, rest, m, rfl, rfl, stepGet_cons P s hp hm⟩

theorem getStore_src {ι ε : Type} {P : Path ι ε} {init : KV} {hist : List (List W)} {s : St ι ε}
    (hl : AllSrc init hist s.live) (ha : ∀ m, s.snapA = some m → AllSrc init hist m)
    (hb : ∀ m, s.snapB = some m → AllSrc init hist m) {m : KV} (hm : getStore P s = some m) :
    AllSrc init hist m := by
  unfold getStore at hm
  cases hmode : P.mode <;> rw [hmode] at hm
  · exact ha m hm
  · exact hb m hm
  · cases hm; exact hl

theorem Inv.step_nowrite {ι ε : Type} {P : Path ι ε} {init : KV} {hist : List (List W)} {s : St ι ε}
    (h : Inv P init hist s) (ev : Event) (hev : ∀ ws, ev ≠ .write ws) : Inv P init hist (step P s ev) := by
  cases ev with
  | write ws => exact absurd rfl (hev ws)
  | openScan =>
    show Inv P init hist (stepOpenScan P s)
    unfold stepOpenScan
    cases hA : s.snapA with
    | none => exact ⟨h.live, fun m hm => by cases hm; exact h.live, h.b, h.out⟩
    | some m0 => exact h
  | openGet =>
    show Inv P init hist (stepOpenGet s)
    unfold stepOpenGet
    cases hB : s.snapB with
    | none => exact ⟨h.live, h.a, fun m hm => by cases hm; exact h.live, h.out⟩
    | some m0 => exact h
  | get =>
    show Inv P init hist (stepGet P s)
    rcases stepGet_cases P s with h1 | ⟨i, rest, m, _, hm, h1⟩
    · rw [h1]; exact h
    · rw [h1]
      refine ⟨h.live, h.a, h.b, ?_⟩
      intro e he
      rcases List.mem_append.1 he with he | he
      · exact h.out e he
      · have : P.lookup m i = some e := by
          cases hl : P.lookup m i with
          | none => simp [hl] at he
          | some e' => simp [hl] at he; rw [he]
        exact lookup_emitted (getStore_src h.live h.a h.b hm) this

theorem Inv.step_write {ι ε : Type} {P : Path ι ε} {init : KV} {hist : List (List W)} {s : St ι ε}
    (h : Inv P init hist s) (ws : List W) : Inv P init (hist ++ [ws]) (step P s (.write ws)) :=
  ⟨h.live.write ws, fun m hm => (h.a m hm).mono _, fun m hm => (h.b m hm).mono _,
   fun e he => (h.out e he).mono _⟩

theorem run_inv {ι ε : Type} (P : Path ι ε) (init : KV) : ∀ (evs : List Event) (s : St ι ε)
    (hist : List (List W)), Inv P init hist s → Inv P init (hist ++ writesOf evs) (run P s evs)
  | [], s, hist, h => by simpa [run, writesOf] using h
  | ev :: evs, s, hist, h => by
    have hrun : run P s (ev :: evs) = run P (step P s ev) evs := rfl
    rw [hrun]
    cases ev with
    | write ws =>
      have := run_inv P init evs _ _ (h.step_write ws)
      simpa [writesOf, List.append_assoc] using this
    | openScan => exact run_inv P init evs _ _ (h.step_nowrite .openScan (by intro ws; simp))
    | openGet => exact run_inv P init evs _ _ (h.step_nowrite .openGet (by intro ws; simp))
    | get => exact run_inv P init evs _ _ (h.step_nowrite .get (by intro ws; simp))

theorem inv_start {ι ε : Type} (P : Path ι ε) (init : KV) : Inv P init [] (start init : St ι ε) :=
  ⟨fun _ hp => .inl hp, fun _ hm => by simp [start] at hm, fun _ hm => by simp [start] at hm,
   fun _ he => by simp [start] at he⟩

/-! ### run bookkeeping -/

theorem run_append {ι ε : Type} (P : Path ι ε) (s : St ι ε) (a b : List Event) :
    run P s (a ++ b) = run P (run P s a) b := by simp [run, List.foldl_append]

theorem step_out_prefix {ι ε : Type} (P : Path ι ε) (s : St ι ε) (ev : Event) :
    ∃ t, (step P s ev).out = s.out ++ t := by
  cases ev with
  | write ws => exact ⟨[], by simp [step]⟩
  | openScan => show ∃ t, (stepOpenScan P s).out = _; unfold stepOpenScan; cases s.snapA <;> exact ⟨[], by simp⟩
  | openGet => show ∃ t, (stepOpenGet s).out = _; unfold stepOpenGet; cases s.snapB <;> exact ⟨[], by simp⟩
  | get =>
    show ∃ t, (stepGet P s).out = _
    rcases stepGet_cases P s with h1 | ⟨i, rest, m, _, _, h1⟩
    · rw [h1]; exact ⟨[], by simp⟩
    · rw [h1]; exact ⟨_, rfl⟩

theorem run_out_prefix {ι ε : Type} (P : Path ι ε) : ∀ (evs : List Event) (s : St ι ε),
    ∃ t, (run P s evs).out = s.out ++ t
  | [], s => ⟨[], by simp [run]⟩
  | ev :: evs, s => by
    obtain ⟨t1, h1⟩ := step_out_prefix P s ev
    obtain ⟨t2, h2⟩ := run_out_prefix P evs (step P s ev)
    exact ⟨t1 ++ t2, by show (run P (step P s ev) evs).out = _; rw [h2, h1, List.append_assoc]⟩

/-- before the View opens nothing is read: only the live store moves -/
theorem run_before_open {ι ε : Type} (P : Path ι ε) : ∀ (pre : List Event) (s : St ι ε),
    Event.openScan ∉ pre → s.snapA = none → s.pending = [] →
    (run P s pre).snapA = none ∧ (run P s pre).pending = [] ∧ (run P s pre).out = s.out ∧
    (run P s pre).live = applyGroups s.live (writesOf pre)
  | [], s, _, hA, hp => ⟨hA, hp, rfl, rfl⟩
  | ev :: pre, s, hno, hA, hp => by
    have hno' : Event.openScan ∉ pre := fun h => hno (List.mem_cons_of_mem _ h)
    have hrun : run P s (ev :: pre) = run P (step P s ev) pre := rfl
    rw [hrun]
    cases ev with
    | write ws =>
      have := run_before_open P pre (step P s (.write ws)) hno' hA hp
      simpa [step, writesOf, applyGroups] using this
    | openScan => exact absurd List.mem_cons_self hno
    | openGet =>
      have hs : (step P s .openGet).snapA = none ∧ (step P s .openGet).pending = [] ∧
          (step P s .openGet).out = s.out ∧ (step P s .openGet).live = s.live := by
        show (stepOpenGet s).snapA = none ∧ (stepOpenGet s).pending = [] ∧
          (stepOpenGet s).out = s.out ∧ (stepOpenGet s).live = s.live
        unfold stepOpenGet; cases s.snapB <;> simp [hA, hp]
      have := run_before_open P pre (step P s .openGet) hno' hs.1 hs.2.1
      rw [hs.2.2.1, hs.2.2.2] at this
      simpa [writesOf] using this
    | get =>
      have hs : step P s .get = s := stepGet_nil P s hp
      rw [hs]
      simpa [writesOf] using run_before_open P pre s hno' hA hp

/-! ### one View = one snapshot -/

def SnapInv {ι ε : Type} (P : Path ι ε) (m : KV) (s : St ι ε) : Prop :=
  s.snapA = some m ∧ s.out ++ s.pending.filterMap (P.lookup m) = (P.scan m).filterMap (P.lookup m)

theorem SnapInv.step {ι ε : Type} {P : Path ι ε} (hmode : P.mode = .scanSnap) {m : KV} {s : St ι ε}
    (h : SnapInv P m s) (ev : Event) : SnapInv P m (step P s ev) := by
  obtain ⟨hA, hout⟩ := h
  cases ev with
  | write ws => exact ⟨hA, hout⟩
  | openScan =>
    show SnapInv P m (stepOpenScan P s)
    unfold stepOpenScan; rw [hA]; exact ⟨hA, hout⟩
  | openGet =>
    show SnapInv P m (stepOpenGet s)
    unfold stepOpenGet; cases s.snapB <;> exact ⟨hA, hout⟩
  | get =>
    show SnapInv P m (stepGet P s)
    rcases stepGet_cases P s with h1 | ⟨i, rest, m', hp, hm, h1⟩
    · rw [h1]; exact ⟨hA, hout⟩
    · have : m' = m := by
        unfold getStore at hm; rw [hmode] at hm; rw [hA] at hm; exact (Option.some.inj hm).symm
      subst this
      rw [h1]
      refine ⟨hA, ?_⟩
      rw [hp] at hout
      rw [← hout]
      cases hl : P.lookup m' i <;> simp [hl]

theorem SnapInv.run {ι ε : Type} {P : Path ι ε} (hmode : P.mode = .scanSnap) {m : KV} :
    ∀ (evs : List Event) (s : St ι ε), SnapInv P m s → SnapInv P m (run P s evs)
  | [], _, h => h
  | ev :: evs, _, h => SnapInv.run hmode evs _ (h.step hmode ev)

/-! ### the write lists are the writes of Grip.C03 (insertVertex / insertEdge / insertAll) -/

theorem applyGroup_append (m : KV) (a b : List W) :
    applyGroup m (a ++ b) = applyGroup (applyGroup m a) b := by simp [applyGroup, List.foldl_append]

theorem docWrites_eq (fields : List String) (m : KV) (g kind label docId : String) :
    applyGroup m (docWrites fields g kind label docId) = C03.addDoc fields m g kind label docId := by
  unfold docWrites C03.addDoc
  by_cases h : C03.labelField g kind ∈ fields <;> simp [h, applyGroup, applyW]

theorem vertexWrites_eq (fields : List String) (m : KV) (g : String) (v : C03.VertexIn) :
    applyGroup m (vertexWrites fields g v) = (C03.insertVertex fields m g v).1 := by
  unfold vertexWrites C03.insertVertex
  by_cases h : C03.validVertex v = true
  · simp only [h, Bool.not_true, Bool.false_eq_true, if_false]
    exact docWrites_eq fields _ g "v" v.label v.gid
  · simp [h, applyGroup]

theorem edgeWrites_eq (fields : List String) (m : KV) (g : String) (e : C03.EdgeIn) :
    applyGroup m (edgeWrites fields g e) = (C03.insertEdge fields m g e).1 := by
  unfold edgeWrites C03.insertEdge
  by_cases h : C03.validEdge e = true
  · simp only [h, Bool.not_true, Bool.false_eq_true, if_false]
    rw [applyGroup_append]
    exact docWrites_eq fields _ g "e" e.label e.gid
  · simp [h, applyGroup]

/-- one atomic BulkWrite of AddVertex / AddEdge / BulkAdd = Grip.C03.insertAll -/
theorem bulkWrites_eq (fields : List String) (g : String) : ∀ (xs : List C03.ElemIn) (m : KV),
    applyGroup m (bulkWrites fields g xs) = (C03.insertAll fields g m xs).1
  | [], _ => rfl
  | x :: xs, m => by
    have hx : applyGroup m (elemWrites fields g x) = (C03.insertElem fields m g x).1 := by
      cases x with
      | v y => exact vertexWrites_eq fields m g y
      | e y => exact edgeWrites_eq fields m g y
    unfold bulkWrites
    rw [List.flatMap_cons, applyGroup_append, hx]
    have ih := bulkWrites_eq fields g xs (C03.insertElem fields m g x).1
    unfold bulkWrites at ih
    rw [ih]
    simp [C03.insertAll]

/-! ### atomic writer groups keep the store adjacency-closed -/

/-- every src / dst entry of graph `g` has its edge record -/
def AdjClosedP (g : String) (m : KV) : Prop :=
  ∀ p ∈ m, ∀ s d eid l, (p.1 = SKey.src g s d eid l ∨ p.1 = SKey.dst g d s eid l) →
    ∃ data, m.get (SKey.edge g eid s d l) = some (Val.edge data)

theorem AdjClosedP.set {g : String} {m : KV} (h : AdjClosedP g m) (k : SKey) (v : Val)
    (hadj : ∀ s d eid l, (k = SKey.src g s d eid l ∨ k = SKey.dst g d s eid l) →
      ∃ data, m.get (SKey.edge g eid s d l) = some (Val.edge data))
    (hedge : ∀ eid s d l, k = SKey.edge g eid s d l → ∃ data, v = Val.edge data) :
    AdjClosedP g (m.set k v) := by
  intro p hp s d eid l hk
  have hget : ∃ data, m.get (SKey.edge g eid s d l) = some (Val.edge data) := by
    rcases mem_set hp with hp' | hp'
    · subst hp'; exact hadj _ _ _ _ hk
    · exact h p hp' _ _ _ _ hk
  rw [Grip.Props.C03.Lemmas.KV.get_set]
  by_cases hke : SKey.edge g eid s d l = k
  · obtain ⟨data, hv⟩ := hedge _ _ _ _ hke.symm
    exact ⟨data, by simp [hke, hv]⟩
  · simpa [hke] using hget

theorem applyGroup_dels (ks : List SKey) (m : KV) :
    applyGroup m (ks.map W.del) = ks.foldl (fun (m : KV) k => m.del k) m := by
  induction ks generalizing m with
  | nil => rfl
  | cons k ks ih => exact ih (m.del k)

theorem mem_foldl_del {p : SKey × Val} : ∀ (ks : List SKey) (m : KV),
    p ∈ ks.foldl (fun (m : KV) k => m.del k) m → p ∈ m ∧ p.1 ∉ ks
  | [], _, h => ⟨h, by simp⟩
  | k :: ks, m, h => by
    obtain ⟨h1, h2⟩ := mem_foldl_del ks (m.del k) h
    have h3 : p ∈ m ∧ ¬ p.1 = k := by
      unfold KV.del at h1
      simpa using List.mem_filter.1 h1
    exact ⟨h3.1, by simp [h3.2, h2]⟩

/-- a set of deleted keys that takes the src and dst entries along with every edge record -/
def TripleClosed (g : String) (ks : List SKey) : Prop :=
  ∀ eid s d l, SKey.edge g eid s d l ∈ ks → SKey.src g s d eid l ∈ ks ∧ SKey.dst g d s eid l ∈ ks

theorem AdjClosedP.dels {g : String} {m : KV} (h : AdjClosedP g m) (ks : List SKey)
    (ht : TripleClosed g ks) : AdjClosedP g (applyGroup m (ks.map W.del)) := by
  rw [applyGroup_dels]
  intro p hp s d eid l hk
  obtain ⟨hpm, hpk⟩ := mem_foldl_del ks m hp
  rw [Grip.Props.C03.Lemmas.KV.get_foldl_del]
  by_cases he : SKey.edge g eid s d l ∈ ks
  · exfalso
    obtain ⟨h1, h2⟩ := ht _ _ _ _ he
    rcases hk with hk | hk <;> rw [hk] at hpk
    · exact hpk h1
    · exact hpk h2
  · simpa [he] using h p hpm _ _ _ _ hk

theorem AdjClosedP.docWrites {g : String} {m : KV} (h : AdjClosedP g m) (fields : List String)
    (kind label docId : String) : AdjClosedP g (applyGroup m (docWrites fields g kind label docId)) := by
  unfold Grip.C17Read.docWrites
  have hset : ∀ (m : KV) (k : SKey), AdjClosedP g m →
      (∀ s d eid l, k ≠ SKey.src g s d eid l ∧ k ≠ SKey.dst g d s eid l) →
      (∀ eid s d l, k ≠ SKey.edge g eid s d l) → AdjClosedP g (m.set k Val.unit) := by
    intro m k hm h1 h2
    exact hm.set k _
      (fun s d eid l hk => hk.elim (fun hk => absurd hk (h1 s d eid l).1) (fun hk => absurd hk (h1 s d eid l).2))
      (fun eid s d l hk => absurd hk (h2 eid s d l))
  by_cases hf : fields.contains (C03.labelField g kind) = true
  · rw [if_pos hf]
    show AdjClosedP g (((m.set (SKey.entry (C03.labelField g kind) label docId) Val.unit).set
      (SKey.term (C03.labelField g kind) label) Val.unit).set (SKey.doc docId) Val.unit)
    refine hset _ _ (hset _ _ (hset _ _ h ?_ ?_) ?_ ?_) ?_ ?_ <;> intros <;> simp
  · rw [if_neg hf]
    show AdjClosedP g (m.set (SKey.doc docId) Val.unit)
    refine hset _ _ h ?_ ?_ <;> intros <;> simp

theorem AdjClosedP.vertexWrites {g : String} {m : KV} (h : AdjClosedP g m) (fields : List String)
    (v : C03.VertexIn) : AdjClosedP g (applyGroup m (vertexWrites fields g v)) := by
  unfold Grip.C17Read.vertexWrites
  by_cases hv : C03.validVertex v = true
  · simp only [hv, Bool.not_true, Bool.false_eq_true, if_false]
    have h1 : AdjClosedP g (m.set (SKey.vertex g v.gid) (Val.vert v.label v.data)) :=
      h.set _ _ (fun s d eid l hk => by rcases hk with hk | hk <;> cases hk)
        (fun eid s d l hk => by cases hk)
    exact h1.docWrites fields "v" v.label v.gid
  · simpa [hv, applyGroup] using h

theorem AdjClosedP.edgeWrites {g : String} {m : KV} (h : AdjClosedP g m) (fields : List String)
    (e : C03.EdgeIn) : AdjClosedP g (applyGroup m (edgeWrites fields g e)) := by
  unfold Grip.C17Read.edgeWrites
  by_cases hv : C03.validEdge e = true
  · simp only [hv, Bool.not_true, Bool.false_eq_true, if_false]
    rw [applyGroup_append]
    have h1 : AdjClosedP g (m.set (SKey.edge g e.gid e.frm e.to e.label) (Val.edge e.data)) :=
      h.set _ _ (fun s d eid l hk => by rcases hk with hk | hk <;> cases hk)
        (fun eid s d l _ => ⟨e.data, rfl⟩)
    have h2 : AdjClosedP g ((m.set (SKey.edge g e.gid e.frm e.to e.label) (Val.edge e.data)).set
        (SKey.src g e.frm e.to e.gid e.label) Val.unit) :=
      h1.set _ _ (fun s d eid l hk => by
          rcases hk with hk | hk
          · cases hk; exact ⟨e.data, by simp [Grip.Props.C03.Lemmas.KV.get_set]⟩
          · cases hk)
        (fun eid s d l hk => by cases hk)
    have h3 : AdjClosedP g (((m.set (SKey.edge g e.gid e.frm e.to e.label) (Val.edge e.data)).set
        (SKey.src g e.frm e.to e.gid e.label) Val.unit).set (SKey.dst g e.to e.frm e.gid e.label) Val.unit) :=
      h2.set _ _ (fun s d eid l hk => by
          rcases hk with hk | hk
          · cases hk
          · cases hk; exact ⟨e.data, by simp [Grip.Props.C03.Lemmas.KV.get_set]⟩)
        (fun eid s d l hk => by cases hk)
    exact h3.docWrites fields "e" e.label e.gid
  · simpa [hv, applyGroup] using h

/-- one atomic BulkWrite of AddVertex / AddEdge / BulkAdd (any elements, re-adds included) -/
theorem AdjClosedP.bulkWrites {g : String} (fields : List String) : ∀ (xs : List C03.ElemIn) (m : KV),
    AdjClosedP g m → AdjClosedP g (applyGroup m (bulkWrites fields g xs))
  | [], _, h => h
  | x :: xs, m, h => by
    unfold Grip.C17Read.bulkWrites
    rw [List.flatMap_cons, applyGroup_append]
    have hx : AdjClosedP g (applyGroup m (elemWrites fields g x)) := by
      cases x with
      | v y => exact h.vertexWrites fields y
      | e y => exact h.edgeWrites fields y
    exact AdjClosedP.bulkWrites fields xs _ hx

/-- DelEdge's Update, whatever its View `snap` showed -/
theorem AdjClosedP.delEdgeWrites {g : String} {m : KV} (h : AdjClosedP g m) (snap : KV) (eid : String) :
    AdjClosedP g (applyGroup m (delEdgeWrites snap g eid)) := by
  unfold Grip.C17Read.delEdgeWrites
  split
  · rename_i s d l _ _
    exact h.dels [SKey.edge g eid s d l, SKey.src g s d eid l, SKey.dst g d s eid l]
      (fun eid' s' d' l' hm => by
        simp only [List.mem_cons, List.not_mem_nil, or_false, reduceCtorEq] at hm
        cases hm; simp)
  · exact h

def IsTriple (g : String) (t : List SKey) : Prop :=
  ∃ s d eid l, t = [SKey.src g s d eid l, SKey.dst g d s eid l, SKey.edge g eid s d l]

theorem tripleClosed_flatten (g : String) (extra : List SKey) (ts : List (List SKey))
    (hex : ∀ eid s d l, SKey.edge g eid s d l ∉ extra) (hts : ∀ t ∈ ts, IsTriple g t) :
    TripleClosed g (extra ++ ts.flatten) := by
  intro eid s d l hm
  rcases List.mem_append.1 hm with hm | hm
  · exact absurd hm (hex _ _ _ _)
  · obtain ⟨t, ht, hmt⟩ := List.mem_flatten.1 hm
    obtain ⟨s', d', eid', l', rfl⟩ := hts t ht
    simp only [List.mem_cons, List.not_mem_nil, or_false, reduceCtorEq, false_or] at hmt
    cases hmt
    exact ⟨List.mem_append_right _ (List.mem_flatten.2 ⟨_, ht, by simp⟩),
           List.mem_append_right _ (List.mem_flatten.2 ⟨_, ht, by simp⟩)⟩

/-- DelVertex's Update, whatever its View `snap` showed -/
theorem AdjClosedP.delVertexWrites {g : String} {m : KV} (h : AdjClosedP g m) (snap : KV) (id : String) :
    AdjClosedP g (applyGroup m (delVertexWrites snap g id)) := by
  unfold Grip.C17Read.delVertexWrites
  simp only []
  rw [← List.flatten_append, ← List.map_cons (f := W.del)]
  apply h.dels
  have := tripleClosed_flatten g [SKey.vertex g id]
  refine this _ (by intros; simp) ?_
  intro t ht
  rcases List.mem_append.1 ht with ht | ht
  · obtain ⟨p, _, hp⟩ := List.mem_filterMap.1 ht
    rcases p with ⟨k, v⟩
    cases k <;> simp only [reduceCtorEq] at hp
    split at hp
    · simp only [Option.some.injEq] at hp; exact ⟨_, _, _, _, hp.symm⟩
    · simp at hp
  · obtain ⟨p, _, hp⟩ := List.mem_filterMap.1 ht
    rcases p with ⟨k, v⟩
    cases k <;> simp only [reduceCtorEq] at hp
    split at hp
    · simp only [Option.some.injEq] at hp; exact ⟨_, _, _, _, hp.symm⟩
    · simp at hp

end GripProofs.C17Read
