/-
  Lemmas for C06: every panic-capable primitive of Grip.Model.C06 is reached only under its guard
  (local guards) or under an invariant established earlier (name uniqueness, index ranges, stream
  state).
-/
import Grip.Model.C06

namespace Grip.Props.C06.Lemmas
open Grip Grip.C06

theorem mapM_some {α β : Type} {f : α → Option β} :
    ∀ xs : List α, (∀ x ∈ xs, ∃ y, f x = some y) → ∃ ys, xs.mapM f = some ys := by
  intro xs
  induction xs with
  | nil => intro _; exact ⟨[], by simp⟩
  | cons x xs ih =>
    intro h
    obtain ⟨y, hy⟩ := h x (by simp)
    obtain ⟨ys, hys⟩ := ih (fun z hz => h z (by simp [hz]))
    exact ⟨y :: ys, by simp [List.mapM_cons, hy, hys]⟩

/-! ### optimizer -/

theorem withinStrings_some (xs : List JV) : ∃ v, withinStrings xs = some v := by
  unfold withinStrings
  by_cases h : xs.all isStr = true
  · rw [if_pos h]
    apply mapM_some
    intro x hx
    have := (List.all_eq_true.mp h) x hx
    cases x <;> simp [isStr] at this
    exact ⟨_, rfl⟩
  · rw [if_neg h]; exact ⟨_, rfl⟩

theorem extractHasVals_some (e : C08.HasE) : ∃ v, extractHasVals e = some v := by
  unfold extractHasVals
  split
  · exact ⟨_, rfl⟩
  · rename_i v
    cases v <;> simp [isList, assertList]
    exact withinStrings_some _
  · exact ⟨_, rfl⟩

theorem idxWhere_lt (p : Stmt → Bool) (pipe : List Stmt) :
    ∀ i ∈ idxWhere p pipe, i < pipe.length := by
  intro i hi
  unfold idxWhere at hi
  have := (List.mem_filter.mp hi).1
  exact List.mem_range.mp this

theorem lookupSite_some (pipe : List Stmt) (idxs : List Nat) (h : ∀ i ∈ idxs, i < pipe.length) :
    lookupSite pipe idxs = some () := by
  unfold lookupSite
  cases idxs with
  | nil => simp
  | cons i rest =>
    have hi : i < pipe.length := h i (by simp)
    simp only [List.length_cons, Nat.zero_lt_succ, if_true, index, List.getElem?_cons_zero,
      gt_iff_lt, Nat.succ_pos]
    have : pipe[i]? = some pipe[i] := List.getElem?_eq_getElem hi
    simp only [Option.bind_eq_bind, Option.bind_some, this]
    split
    next e _ =>
      obtain ⟨v, hv⟩ := extractHasVals_some e
      simp [hv]
    next => rfl

theorem optimizerP_some (stmts : List Stmt) : optimizerP stmts = some () := by
  unfold optimizerP
  split
  · simp only [Option.bind_eq_bind]
    rw [lookupSite_some _ _ (idxWhere_lt _ _)]
    simp [lookupSite_some _ _ (idxWhere_lt _ _)]
  · rfl

/-! ### compile -/

theorem compileLoop_some (steps : List Nat) :
    ∀ (rest : List Stmt) (st : TState) (i : Nat), i + rest.length ≤ steps.length →
      ∃ r, compileLoop steps st i rest = some r := by
  intro rest
  induction rest with
  | nil => intro st i _; exact ⟨_, rfl⟩
  | cons s rest ih =>
    intro st i h
    have hi : i < steps.length := by simp at h; omega
    unfold compileLoop
    have : steps[i]? = some steps[i] := List.getElem?_eq_getElem hi
    simp only [index, this, Option.bind_eq_bind, Option.bind_some]
    cases typeStepC st s with
    | error e => exact ⟨_, rfl⟩
    | ok st' => exact ih st' (i + 1) (by simp at h; omega)

theorem compileP_some (stmts : List Stmt) : ∃ r, compileP stmts = some r := by
  unfold compileP
  cases validate stmts with
  | error e => exact ⟨_, rfl⟩
  | ok u => exact compileLoop_some _ stmts {} 0 (by simp [pipelineSteps])

/-! ### processors -/

theorem withCur_some (t : Traveler) (onNull : List Traveler) (k : Elem → List Traveler) :
    ∃ r, withCur t onNull k = some r := by
  unfold withCur deref
  cases h : t.cur <;> simp

theorem stepEdgeEnd_some (g : AGraph) (out : Bool) (t : Traveler) :
    ∃ r, stepEdgeEnd g out t = some r := withCur_some _ _ _

theorem copyMarks_some : ∀ ms : List (String × Option Elem), ∃ r, copyMarks ms = some r := by
  intro ms
  induction ms with
  | nil => exact ⟨_, rfl⟩
  | cons kv rest ih =>
    obtain ⟨k, v⟩ := kv
    obtain ⟨r, hr⟩ := ih
    unfold copyMarks
    cases v <;> simp [deref, hr]

theorem copyP_some (t : Traveler) : ∃ r, copyP t = some r := by
  unfold copyP
  obtain ⟨r, hr⟩ := copyMarks_some t.marks
  simp [hr]

theorem closeAll_some : ∀ (names closed : List String), names.Nodup → (∀ n ∈ names, n ∉ closed) →
    closeAll closed names = some () := by
  intro names
  induction names with
  | nil => intro _ _ _; rfl
  | cons n ns ih =>
    intro closed hnd hfresh
    have hn : n ∉ closed := hfresh n (by simp)
    have hc : closed.contains n = false := by simpa using hn
    unfold closeAll
    simp only [hc, closeChan, Option.bind_eq_bind, Option.bind_some]
    have hnd' := List.nodup_cons.mp hnd
    apply ih (n :: closed) hnd'.2
    intro m hm
    simp only [List.mem_cons, not_or]
    refine ⟨?_, hfresh m (by simp [hm])⟩
    intro h; subst h; exact hnd'.1 hm

theorem histogramP_some (name : String) (vals : List Int) : ∃ r, histogramP name vals = some r := by
  unfold histogramP
  cases vals with
  | nil => simp
  | cons v vs =>
    have h : (v :: vs)[(v :: vs).length - 1]? = some ((v :: vs)[(v :: vs).length - 1]'(by simp)) :=
      List.getElem?_eq_getElem (by simp)
    simp [index, h]

theorem finaliseP_some (ts : List Traveler) (a : Agg) : ∃ r, finaliseP ts a = some r := by
  unfold finaliseP
  split
  · exact histogramP_some _ _
  all_goals exact ⟨_, rfl⟩

theorem aggregateP_some (aggs : List Agg) (ts : List Traveler) (h : (aggNames aggs).Nodup) :
    ∃ r, aggregateP aggs ts = some r := by
  unfold aggregateP
  rw [closeAll_some _ [] h (by simp)]
  obtain ⟨outs, ho⟩ := mapM_some aggs (fun a _ => finaliseP_some ts a)
  simp [ho]

theorem mapM_flatten_some {α : Type} {f : α → Option (List Traveler)} (xs : List α)
    (h : ∀ x, ∃ y, f x = some y) : ∃ r, (xs.mapM f).map List.flatten = some r := by
  obtain ⟨ys, hys⟩ := mapM_some xs (fun x _ => h x)
  exact ⟨ys.flatten, by simp [hys]⟩

theorem dupCheck_of_typeStepC {st st' : TState} {s : Stmt} (h : typeStepC st s = .ok st') :
    dupCheck s = .ok () := by
  unfold typeStepC at h
  cases h1 : typeStep st s with
  | error e => simp [h1] at h
  | ok st1 =>
    simp only [h1] at h
    cases h2 : dupCheck s with
    | error e => simp [h2] at h
    | ok u => rfl

theorem stepP_some (numOf : String → Option Int) (g : AGraph) (from_ : DataType) (s : Stmt)
    (ts : List Traveler) (hd : dupCheck s = .ok ()) : ∃ r, stepP numOf g from_ s ts = some r := by
  cases s
  case out ls =>
    simp only [stepP]; split
    · exact mapM_flatten_some _ (fun t => stepEdgeEnd_some g _ t)
    · exact ⟨_, rfl⟩
  case in_ ls =>
    simp only [stepP]; split
    · exact mapM_flatten_some _ (fun t => stepEdgeEnd_some g _ t)
    · exact ⟨_, rfl⟩
  case both ls =>
    simp only [stepP]; split
    · obtain ⟨a, ha⟩ := mapM_some ts (fun t _ => stepEdgeEnd_some g false t)
      obtain ⟨b, hb⟩ := mapM_some ts (fun t _ => stepEdgeEnd_some g true t)
      exact ⟨a.flatten ++ b.flatten, by simp [ha, hb]⟩
    · exact ⟨_, rfl⟩
  case outNull ls =>
    simp only [stepP]; split
    · exact mapM_flatten_some _ (fun t => stepEdgeEnd_some g _ t)
    · exact ⟨_, rfl⟩
  case inNull ls =>
    simp only [stepP]; split
    · exact mapM_flatten_some _ (fun t => stepEdgeEnd_some g _ t)
    · exact ⟨_, rfl⟩
  case hasLabel ls =>
    simp only [stepP]; exact mapM_flatten_some _ (fun t => withCur_some t _ _)
  case fields ks =>
    simp only [stepP]; exact mapM_flatten_some _ (fun t => withCur_some t _ _)
  case unwind f =>
    simp only [stepP]; exact mapM_flatten_some _ (fun t => withCur_some t _ _)
  case increment k v =>
    simp only [stepP]; exact mapM_some ts (fun t _ => copyP_some t)
  case aggregate aggs =>
    simp only [stepP]
    apply aggregateP_some
    unfold dupCheck at hd
    by_cases hn : (aggNames aggs).Nodup
    · exact hn
    · simp [hn] at hd
  all_goals exact ⟨_, rfl⟩

theorem evalP_some (numOf : String → Option Int) (g : AGraph) :
    ∀ (stmts : List Stmt) (st : TState) (ts : List Traveler), ∃ r, evalP numOf g st ts stmts = some r := by
  intro stmts
  induction stmts with
  | nil => intro st ts; exact ⟨_, rfl⟩
  | cons s rest ih =>
    intro st ts
    unfold evalP
    cases h : typeStepC st s with
    | error e => exact ⟨_, rfl⟩
    | ok st' =>
      obtain ⟨ts', h'⟩ := stepP_some numOf g st.last s ts (dupCheck_of_typeStepC h)
      simp only [h', Option.bind_eq_bind, Option.bind_some]
      exact ih st' ts'

theorem convertP_some (g : AGraph) (st : TState) (t : Traveler) : ∃ r, convertP g st t = some r := by
  unfold convertP deref
  split
  · cases h : t.agg <;> simp
  · cases h : t.cur <;> simp
  · cases h : t.cur <;> simp
  · exact ⟨_, rfl⟩

/-! ### BulkAdd -/

/-- The loop invariant: the element stream is nil or open, never closed. -/
def StreamOk (st : BulkState) : Prop := st.stream ≠ some Chan.closed

theorem sendBoth_some (el : GElem) (stream : Option Chan) (h : stream ≠ some Chan.closed) :
    sendBoth el stream = some () := by
  have hs : sendChan stream = some () := by
    unfold sendChan
    split
    · exact absurd rfl h
    · rfl
  unfold sendBoth
  cases (Option.map VSpec.valid el.vertex).getD false <;>
    cases (Option.map ESpec.valid el.edge).getD false <;> simp [hs]

theorem closeIfOpen_some (stream : Option Chan) (h : stream ≠ some Chan.closed) :
    closeIfOpen stream = some () := by
  cases stream with
  | none => rfl
  | some c =>
    cases c with
    | closed => exact absurd rfl h
    | opened => rfl

theorem bulkStep_ok (graphs : List String) (st : BulkState) (el : GElem) (h : StreamOk st) :
    ∃ st', bulkStep graphs st el = some st' ∧ StreamOk st' := by
  unfold bulkStep
  split
  · exact ⟨st, rfl, h⟩
  · split
    · rw [closeIfOpen_some _ h]
      simp only
      split
      · rw [sendBoth_some el (some Chan.opened) (by simp)]
        exact ⟨_, rfl, by simp [StreamOk]⟩
      · exact ⟨_, rfl, by simp [StreamOk]⟩
    · rw [sendBoth_some el st.stream h]
      exact ⟨st, rfl, h⟩

theorem bulkLoop_ok (graphs : List String) :
    ∀ (els : List GElem) (st : BulkState), StreamOk st →
      ∃ st', bulkLoop graphs st els = some st' ∧ StreamOk st' := by
  intro els
  induction els with
  | nil => intro st h; exact ⟨st, rfl, h⟩
  | cons el rest ih =>
    intro st h
    obtain ⟨st1, h1, hok⟩ := bulkStep_ok graphs st el h
    unfold bulkLoop
    simp only [h1, Option.bind_eq_bind, Option.bind_some]
    exact ih st1 hok

end Grip.Props.C06.Lemmas
