import Grip.Model.C18
import Grip.Spec.C18
import GripProofs.Lemmas.C18

/-! Lemmas about util.StreamBatch (`sbStep`, `sbRun`) and about loading batch after batch. -/
namespace Grip.Props.C18.Lemmas
open Grip.C03 Grip.C18 Grip.C18.Spec

/-! ### a batch add is the fold of single adds -/

theorem addC_eq_foldl (g : String) (b : List ElemIn) :
    ∀ c : Core, addC c g b = b.foldl (fun c x => addOneC c (g, x)) c := by
  induction b with
  | nil => intro c; simp [addC_nil]
  | cons x xs ih =>
    intro c
    have : x :: xs = [x] ++ xs := rfl
    rw [this, addC_append, ih]; rfl

theorem batched_load_eq_sequential (s : KState) (g : String) (batches : List (List ElemIn)) :
    core (batches.foldl (fun s b => (step s (.bulk g b)).1) s) =
    core (sequential s (batches.flatten.map fun x => (g, x))) := by
  rw [core_sequential]
  induction batches generalizing s with
  | nil => rfl
  | cons b bs ih =>
    simp only [List.foldl_cons, List.flatten_cons, List.map_append, List.foldl_append]
    rw [ih]
    congr 1
    show core (addElems s g b).1 = _
    rw [core_addElems, addC_eq_foldl, List.foldl_map]

/-! ### StreamBatch -/

def fV (graph : String) (el : GElem) : Option VertexIn :=
  if el.g ≠ graph then none else
    match el.v with
    | some x => if validVertex x then some x else none
    | none => none

def fE (graph : String) (el : GElem) : Option EdgeIn :=
  if el.g ≠ graph then none else
    match el.v, el.e with
    | none, some x =>
      let x := if x.gid = "" then { x with gid := el.uuid } else x
      if validDataElement x then some x else none
    | _, _ => none

def allV (s : SB) : List VertexIn := s.vout.flatten ++ s.vb
def allE (s : SB) : List EdgeIn := s.eout.flatten ++ s.eb

structure SBInv (k : Nat) (s : SB) : Prop where
  vout : ∀ b ∈ s.vout, b.length ≤ max k 1
  vb : s.vb.length ≤ max k 1
  eout : ∀ b ∈ s.eout, b.length ≤ max k 1
  eb : s.eb.length ≤ max k 1

theorem mem_snoc_le {α : Type} (L : List (List α)) (l : List α) (n : Nat)
    (h1 : ∀ b ∈ L, b.length ≤ n) (h2 : l.length ≤ n) : ∀ b ∈ L ++ [l], b.length ≤ n := by
  intro b hb
  rcases List.mem_append.1 hb with hb | hb
  · exact h1 b hb
  · rw [List.mem_singleton.1 hb]; exact h2

theorem sbStep_spec (k : Nat) (graph : String) (s : SB) (el : GElem) (h : SBInv k s) :
    SBInv k (sbStep k graph s el) ∧
    allV (sbStep k graph s el) = allV s ++ (fV graph el).toList ∧
    allE (sbStep k graph s el) = allE s ++ (fE graph el).toList := by
  obtain ⟨h1, h2, h3, h4⟩ := h
  unfold sbStep fV fE
  by_cases hg : el.g ≠ graph
  · simp only [if_pos hg]
    exact ⟨⟨h1, h2, h3, h4⟩, by simp [allV], by simp [allE]⟩
  · simp only [if_neg hg]
    cases hv : el.v with
    | some x =>
      simp only
      by_cases hk : s.vb.length ≥ k
      · by_cases hval : validVertex x = true
        · simp only [hk, hval, if_true]
          exact ⟨⟨mem_snoc_le _ _ _ h1 h2, by simp; omega, h3, h4⟩, by simp [allV], by simp [allE]⟩
        · simp only [hk, hval, if_true, if_false]
          exact ⟨⟨mem_snoc_le _ _ _ h1 h2, by simp, h3, h4⟩, by simp [allV], by simp [allE]⟩
      · by_cases hval : validVertex x = true
        · simp only [hk, hval, if_true, if_false]
          exact ⟨⟨h1, by simp; omega, h3, h4⟩, by simp [allV], by simp [allE]⟩
        · simp only [hk, hval, if_false]
          exact ⟨⟨h1, h2, h3, h4⟩, by simp [allV], by simp [allE]⟩
    | none =>
      cases he : el.e with
      | none =>
        simp only
        exact ⟨⟨h1, h2, h3, h4⟩, by simp [allV], by simp [allE]⟩
      | some x =>
        simp only
        by_cases hk : s.eb.length ≥ k
        · by_cases hval : validDataElement (if x.gid = "" then { x with gid := el.uuid } else x) = true
          · simp only [hk, hval, if_true]
            exact ⟨⟨h1, h2, mem_snoc_le _ _ _ h3 h4, by simp; omega⟩, by simp [allV], by simp [allE]⟩
          · simp only [hk, hval, if_true, if_false]
            exact ⟨⟨h1, h2, mem_snoc_le _ _ _ h3 h4, by simp⟩, by simp [allV], by simp [allE]⟩
        · by_cases hval : validDataElement (if x.gid = "" then { x with gid := el.uuid } else x) = true
          · simp only [hk, hval, if_true, if_false]
            exact ⟨⟨h1, h2, h3, by simp; omega⟩, by simp [allV], by simp [allE]⟩
          · simp only [hk, hval, if_false]
            exact ⟨⟨h1, h2, h3, h4⟩, by simp [allV], by simp [allE]⟩

theorem foldl_sbStep_spec (k : Nat) (graph : String) (xs : List GElem) :
    ∀ s : SB, SBInv k s →
      SBInv k (xs.foldl (sbStep k graph) s) ∧
      allV (xs.foldl (sbStep k graph) s) = allV s ++ xs.filterMap (fV graph) ∧
      allE (xs.foldl (sbStep k graph) s) = allE s ++ xs.filterMap (fE graph) := by
  induction xs with
  | nil => intro s h; simp [h]
  | cons el xs ih =>
    intro s h
    obtain ⟨hi, hv, he⟩ := sbStep_spec k graph s el h
    obtain ⟨hi', hv', he'⟩ := ih _ hi
    refine ⟨hi', ?_, ?_⟩
    · simp only [List.foldl_cons, hv', hv, List.filterMap_cons]
      cases fV graph el <;> simp
    · simp only [List.foldl_cons, he', he, List.filterMap_cons]
      cases fE graph el <;> simp

theorem sbVertices_eq (graph : String) (xs : List GElem) : sbVertices graph xs = xs.filterMap (fV graph) := rfl
theorem sbEdges_eq (graph : String) (xs : List GElem) : sbEdges graph xs = xs.filterMap (fE graph) := rfl

theorem flatten_nonempty {α : Type} (L : List (List α)) :
    (L.filter (fun b => !b.isEmpty)).flatten = L.flatten := by
  induction L with
  | nil => rfl
  | cons b L ih =>
    cases b with
    | nil => simp [List.filter_cons, ih]
    | cons x b => simp [List.filter_cons, ih]

theorem batches_flatten (k : Nat) (graph : String) (xs : List GElem) :
    (vertexCalls k graph xs).flatten = sbVertices graph xs ∧
    (edgeCalls k graph xs).flatten = sbEdges graph xs ∧
    (∀ b ∈ vertexCalls k graph xs, 0 < b.length ∧ b.length ≤ max k 1) ∧
    (∀ b ∈ edgeCalls k graph xs, 0 < b.length ∧ b.length ≤ max k 1) := by
  have h0 : SBInv k ({} : SB) := ⟨by simp, by simp, by simp, by simp⟩
  obtain ⟨hi, hv, he⟩ := foldl_sbStep_spec k graph xs {} h0
  simp only [allV, allE, List.flatten_nil, List.nil_append] at hv he
  refine ⟨?_, ?_, ?_, ?_⟩
  · simp only [vertexCalls, sbRun, flatten_nonempty, List.flatten_append, List.flatten_cons,
      List.flatten_nil, List.append_nil]
    rw [sbVertices_eq, ← hv]
  · simp only [edgeCalls, sbRun, flatten_nonempty, List.flatten_append, List.flatten_cons,
      List.flatten_nil, List.append_nil]
    rw [sbEdges_eq, ← he]
  · intro b hb
    simp only [vertexCalls, sbRun, List.mem_filter, List.mem_append, List.mem_singleton] at hb
    obtain ⟨hm, hne⟩ := hb
    constructor
    · cases b with
      | nil => simp at hne
      | cons _ _ => simp
    · rcases hm with hm | hm
      · exact hi.vout b hm
      · subst hm; exact hi.vb
  · intro b hb
    simp only [edgeCalls, sbRun, List.mem_filter, List.mem_append, List.mem_singleton] at hb
    obtain ⟨hm, hne⟩ := hb
    constructor
    · cases b with
      | nil => simp at hne
      | cons _ _ => simp
    · rcases hm with hm | hm
      · exact hi.eout b hm
      · subst hm; exact hi.eb

theorem sbEdges_of_valid (graph : String) (xs : List GElem)
    (h : ∀ el ∈ xs, el.g = graph ∧ el.v = none ∧ ∃ e, el.e = some e ∧ validEdge e = true) :
    sbEdges graph xs = xs.filterMap (·.e) := by
  rw [sbEdges_eq]
  induction xs with
  | nil => rfl
  | cons el xs ih =>
    obtain ⟨hg, hv, e, he, hval⟩ := h el (List.mem_cons_self ..)
    have ih' := ih (fun el' hel' => h el' (List.mem_cons_of_mem _ hel'))
    simp only [validEdge, Bool.and_eq_true, bne_iff_ne, ne_eq] at hval
    obtain ⟨⟨⟨⟨h1, h2⟩, _⟩, _⟩, h5⟩ := hval
    have : fE graph el = some e := by
      simp [fE, hg, hv, he, h1, validDataElement, h2, h5]
    simp only [List.filterMap_cons, this, he, ih']

end Grip.Props.C18.Lemmas
