/-
  Lemmas about Grip.EvalN (Grip/Model/EvalN.lean): the traversal semantics WITH the four `*Null`
  moves, Go's `&gdbi.DataElement{}` placeholder in a several-mark `select`, and `Convert`'s lazy
  reload.  Property theorems are in GripProofs/Props/C01N.lean.  Core Lean only.

  Contents
    §0  the embedding `RowN.ofRow`
    §1  conservative extension, one statement (`evalStepN_eq_evalStepT`, `stepSelectN_eq_stepSelect`)
    §2  the invariant of programs without `*Null` moves (`Inv`: the current element and every mark
        recorded with an element type are present and loaded; no selections outside type
        `selection`) and its preservation
    §3  conservative extension, whole programs (`Rel`, `rel_step`, `fold_rel_state`, `fold_rel`,
        `result_inv`)
    §4  graphs without blank ids (`NoEmptyId`); rows without a current element (moves, field
        references = those of the empty element, `render`, `distinct` and one more row)
    §5  the placeholder under `Convert`'s lazy reload (`convertN_stepSelectN`)
-/
import Grip.Model.EvalN
import GripProofs.Lemmas.C01Shape

namespace Grip.EvalN
open Grip

/-- The obvious embedding of `Grip.Row` into `RowN`: a selection that carries an element for every
    mark; every other row as it is. -/
def RowN.ofRow : Row → RowN
  | .sel s => .sel (s.map fun (x : String × DataType × Elem) => (x.1, x.2.1, some x.2.2))
  | r => .plain r

end Grip.EvalN

namespace Grip.Props.C01N.Lemmas
open Grip Grip.EvalN Grip.Props.C01.Lemmas

/-! ## §1 conservative extension, one statement -/

theorem stepSelectN_nil (t : Traveler) : stepSelectN [] t = stepSelect [] t := by
  simp [stepSelectN, stepSelect]

theorem stepSelectN_one (m : String) (t : Traveler) : stepSelectN [m] t = stepSelect [m] t := rfl

theorem stepSelectN_many (a b : String) (rest : List String) (t : Traveler) :
    stepSelectN (a :: b :: rest) t =
      { sel := some ((a :: b :: rest).eraseDups.map
          (fun m => (m, (t.getMark m).getD { loaded := false }))) } := rfl

theorem stepSelect_many (a b : String) (rest : List String) (t : Traveler) :
    stepSelect (a :: b :: rest) t =
      { sel := some ((a :: b :: rest).eraseDups.map (fun m => (m, (t.getMark m).getD {}))) } := rfl

/-- If every selected mark holds an element, Go's placeholder is never used. -/
theorem stepSelectN_eq_stepSelect (ms : List String) (t : Traveler)
    (h : ∀ m ∈ ms, (t.getMark m).isSome = true) : stepSelectN ms t = stepSelect ms t := by
  match ms, h with
  | [], _ => exact stepSelectN_nil t
  | [m], _ => rfl
  | a :: b :: rest, h =>
    rw [stepSelectN_many, stepSelect_many]
    congr 2
    apply List.map_congr_left
    intro m hm
    have hs := h m (List.mem_eraseDups.1 hm)
    cases hg : t.getMark m with
    | none => rw [hg] at hs; cases hs
    | some e => rfl

/-- On every statement that is neither a `*Null` move, nor a several-mark `select`, nor the index
    lookup, the step of `Grip.EvalN` IS the C01 step (for every `NullMiss`). -/
theorem evalStepN_eq_evalStepT (m : C02.NullMiss) (numOf : String → Option Int) (g : AGraph)
    (ty : DataType) (s : Stmt) (ts : List Traveler)
    (hn : C02.isNullMove s = false) (hi : s.kind ≠ .lookupVertsIndex)
    (hs : ∀ ms, s = .select ms → ms.length ≤ 1) :
    EvalN.evalStepN m numOf g ty s ts = evalStepT numOf g ty s ts := by
  cases s with
  | select ms =>
    match ms, hs ms rfl with
    | [], _ =>
      show ts.map (stepSelectN []) = ts.map (stepSelect [])
      exact List.map_congr_left (fun t _ => stepSelectN_nil t)
    | [m], _ => rfl
    | a :: b :: rest, h => simp at h
  | lookupVertsIndex ls => exact absurd rfl hi
  | inNull ls => cases hn
  | outNull ls => cases hn
  | inENull ls => cases hn
  | outENull ls => cases hn
  | _ => rfl

/-! ## §2 the invariant of programs without `*Null` moves -/

/-- The statements of the conservative fragment: everything except the four `*Null` moves (which
    `Grip.run` treats as the identity), the index lookup (likewise) and `engineCustom` (whose typing
    rule announces an arbitrary data type for an unchanged traveler). -/
def conservative : Stmt → Bool
  | .inNull _ | .outNull _ | .inENull _ | .outENull _ | .lookupVertsIndex _ | .engineCustom _ _ => false
  | _ => true

/-- Every element the traveler holds (current, marks) is loaded. -/
def LoadedT (t : Traveler) : Prop :=
  (∀ e, t.cur = some e → e.loaded = true) ∧ ∀ m e, t.getMark m = some e → e.loaded = true

/-- What holds of every traveler of a traversal without `*Null` moves, in front of static state `st`:
    on an element type there IS a current element; as long as the marks are carried (element types
    and `noData`), every mark recorded with an element type holds an element; every element is
    loaded; there are no selections (they only exist on type `selection`, see `Rel`). -/
structure Inv (st : TState) (t : Traveler) : Prop where
  cur : st.last.isElement = true → ∃ e, t.cur = some e
  marks : (st.last.isElement = true ∨ st.last = .noData) →
    ∀ m, (st.marks.get m).isElement = true → ∃ e, t.getMark m = some e
  loaded : LoadedT t
  sel : t.sel = none

theorem inv_seed : Inv {} Traveler.seed := by
  refine ⟨fun h => ?_, fun _ m hm => ?_, ⟨fun e h => ?_, fun m e h => ?_⟩, rfl⟩
  · cases h
  · cases hm
  · cases h
  · cases h

theorem isElement_of {ty : DataType} (h : ty = .vertex ∨ ty = .edge) : ty.isElement = true := by
  rcases h with rfl | rfl <;> rfl

theorem inv_addCurrent {st st' : TState} {t : Traveler} {r : Option Elem} (h : Inv st t)
    (hm : st'.marks = st.marks)
    (hcarry : (st'.last.isElement = true ∨ st'.last = .noData) →
      (st.last.isElement = true ∨ st.last = .noData))
    (hr : st'.last.isElement = true → ∃ e, r = some e) (hl : ∀ e, r = some e → e.loaded = true) :
    Inv st' (t.addCurrent r) :=
  ⟨hr, fun hc m hme => h.marks (hcarry hc) m (hm ▸ hme), ⟨hl, h.loaded.2⟩, rfl⟩

theorem getMark_of_marks_nil {t : Traveler} (h : t.marks = []) (m : String) : t.getMark m = none := by
  unfold Traveler.getMark
  rw [h]
  rfl

/-- a fresh traveler (count, render) on a type that carries neither an element nor marks -/
theorem inv_fresh {st : TState} {t : Traveler} (h1 : st.last.isElement = false) (h2 : st.last ≠ .noData)
    (hc : t.cur = none) (hm : t.marks = []) (hs : t.sel = none) : Inv st t := by
  refine ⟨fun h => ?_, fun h => ?_, ⟨fun e he => ?_, fun m e he => ?_⟩, hs⟩
  · rw [h1] at h; cases h
  · rcases h with h | h
    · rw [h1] at h; cases h
    · exact absurd h h2
  · rw [hc] at he; cases he
  · rw [getMark_of_marks_nil hm] at he; cases he

/-- the identity on a type that carries neither an element nor marks (aggregate, path) -/
theorem inv_dead {st st' : TState} {t : Traveler} (h : Inv st t) (h1 : st'.last.isElement = false)
    (h2 : st'.last ≠ .noData) : Inv st' t := by
  refine ⟨fun h => ?_, fun h => ?_, h.loaded, h.sel⟩
  · rw [h1] at h; cases h
  · rcases h with h | h
    · rw [h1] at h; cases h
    · exact absurd h h2

theorem inv_addMark {st : TState} {t : Traveler} (n : String) (h : Inv st t) (hl : st.last ≠ .noData) :
    Inv { st with marks := st.marks.set n st.last } (t.addMark n t.cur) := by
  refine ⟨h.cur, fun hc m hme => ?_, ⟨h.loaded.1, fun m e he => ?_⟩, h.sel⟩
  · have hel : st.last.isElement = true := by
      rcases hc with hc | hc
      · exact hc
      · exact absurd hc hl
    rw [getMark_addMark]
    have hme' : ((st.marks.set n st.last).get m).isElement = true := hme
    rw [get_set] at hme'
    split
    · exact h.cur hel
    · rename_i hne
      rw [if_neg hne] at hme'
      exact h.marks (Or.inl hel) m hme'
  · rw [getMark_addMark] at he
    split at he
    · exact h.loaded.1 e he
    · exact h.loaded.2 m e he

theorem inv_of_flatMap_addCurrent {st st' : TState} {ts : List Traveler} {f : Traveler → List Traveler}
    (hin : ∀ t ∈ ts, Inv st t) (hm : st'.marks = st.marks)
    (hcarry : (st'.last.isElement = true ∨ st'.last = .noData) →
      (st.last.isElement = true ∨ st.last = .noData))
    (hf : ∀ t t', t' ∈ f t → ∃ e, e.loaded = true ∧ t' = t.addCurrent (some e)) :
    ∀ t' ∈ ts.flatMap f, Inv st' t' := by
  intro t' ht'
  obtain ⟨t, ht, htt⟩ := List.mem_flatMap.1 ht'
  obtain ⟨e, hl, rfl⟩ := hf t t' htt
  exact inv_addCurrent (hin t ht) hm hcarry (fun _ => ⟨e, rfl⟩)
    (fun e' he' => by injection he' with he'; subst he'; exact hl)

theorem fieldsElem_loaded (ks : List String) (c : Elem) :
    (Grip.Spec.C01.fieldsElem ks c).loaded = true := by
  unfold Grip.Spec.C01.fieldsElem
  obtain ⟨incl, excl⟩ := fieldKeys ks
  simp only
  split <;> rfl

theorem setField_loaded (o : Elem) (f : String) (x : JV) : (setField o f x).loaded = o.loaded := by
  unfold setField
  simp only
  repeat' split
  all_goals rfl

theorem inv_stepFields {st : TState} {t : Traveler} (ks : List String) (h : Inv st t) :
    Inv st (stepFields ks t) := by
  cases hc : t.cur with
  | none => rw [stepFields_none ks t hc]; exact h
  | some c =>
    rw [stepFields_eq ks t c hc]
    exact ⟨fun _ => ⟨_, rfl⟩, h.marks,
      ⟨fun e he => by
        injection he with he; subst he; exact fieldsElem_loaded _ _,
       h.loaded.2⟩, rfl⟩

theorem inv_stepUnwind {st : TState} {t : Traveler} (f : String) (h : Inv st t) :
    ∀ t' ∈ stepUnwind f t, Inv st t' := by
  intro t' ht'
  rcases mem_stepUnwind ht' with ⟨_, rfl⟩ | ⟨cur, i, _, rfl⟩
  · exact h
  · exact inv_addCurrent h rfl id (fun _ => ⟨_, rfl⟩)
      (fun e he => by
        injection he with he; subst he
        rw [setField_loaded])

/-- PRESERVATION of `Inv` by every statement of the conservative fragment other than a
    several-mark `select` (whose result carries selections: `Rel`). -/
theorem inv_step (numOf : String → Option Int) (g : AGraph) {st st' : TState} {s : Stmt}
    {ts : List Traveler} (hc : conservative s = true)
    (hsel : ∀ a b rest, s ≠ .select (a :: b :: rest))
    (ht : typeStep st s = .ok st') (hin : ∀ t ∈ ts, Inv st t) :
    ∀ t' ∈ evalStepT numOf g st.last s ts, Inv st' t' := by
  have sub : ∀ {out : List Traveler}, st' = st → (∀ t ∈ out, t ∈ ts) → ∀ t' ∈ out, Inv st' t' := by
    intro out h hs t' ht'; subst h; exact hin t' (hs t' ht')
  have vload : ∀ v : Elem, (vertexElem v).loaded = true := fun _ => rfl
  have eload : ∀ v : Elem, (edgeElem v).loaded = true := fun _ => rfl
  cases s with
  | V ids =>
    obtain ⟨hl, rfl⟩ := typeStep_V_ok ht
    exact inv_of_flatMap_addCurrent hin rfl (fun _ => Or.inr hl)
      (fun t t' h => by obtain ⟨v, rfl⟩ := mem_stepV h; exact ⟨_, vload v, rfl⟩)
  | E ids =>
    obtain ⟨hl, rfl⟩ := typeStep_E_ok ht
    exact inv_of_flatMap_addCurrent hin rfl (fun _ => Or.inr hl)
      (fun t t' h => by obtain ⟨e, _, rfl⟩ := mem_stepE h; exact ⟨_, eload e, rfl⟩)
  | out ls =>
    obtain ⟨hl, rfl⟩ := moveToVertex_ok ht
    exact inv_of_flatMap_addCurrent hin rfl (fun _ => Or.inl (isElement_of hl))
      (fun t t' h => by obtain ⟨v, rfl⟩ := mem_stepOut h; exact ⟨_, vload v, rfl⟩)
  | in_ ls =>
    obtain ⟨hl, rfl⟩ := moveToVertex_ok ht
    exact inv_of_flatMap_addCurrent hin rfl (fun _ => Or.inl (isElement_of hl))
      (fun t t' h => by obtain ⟨v, rfl⟩ := mem_stepIn h; exact ⟨_, vload v, rfl⟩)
  | both ls =>
    obtain ⟨hl, rfl⟩ := moveToVertex_ok ht
    exact ws_append
      (inv_of_flatMap_addCurrent hin rfl (fun _ => Or.inl (isElement_of hl))
        (fun t t' h => by obtain ⟨v, rfl⟩ := mem_stepIn h; exact ⟨_, vload v, rfl⟩))
      (inv_of_flatMap_addCurrent hin rfl (fun _ => Or.inl (isElement_of hl))
        (fun t t' h => by obtain ⟨v, rfl⟩ := mem_stepOut h; exact ⟨_, vload v, rfl⟩))
  | outE ls =>
    obtain ⟨hl, rfl⟩ := moveToEdge_ok ht
    exact inv_of_flatMap_addCurrent hin rfl (fun _ => Or.inl (isElement_of (Or.inl hl)))
      (fun t t' h => by obtain ⟨e, _, rfl⟩ := mem_stepOutE h; exact ⟨_, eload e, rfl⟩)
  | inE ls =>
    obtain ⟨hl, rfl⟩ := moveToEdge_ok ht
    exact inv_of_flatMap_addCurrent hin rfl (fun _ => Or.inl (isElement_of (Or.inl hl)))
      (fun t t' h => by obtain ⟨e, _, rfl⟩ := mem_stepInE h; exact ⟨_, eload e, rfl⟩)
  | bothE ls =>
    obtain ⟨hl, rfl⟩ := moveToEdge_ok ht
    exact ws_append
      (inv_of_flatMap_addCurrent hin rfl (fun _ => Or.inl (isElement_of (Or.inl hl)))
        (fun t t' h => by obtain ⟨e, _, rfl⟩ := mem_stepInE h; exact ⟨_, eload e, rfl⟩))
      (inv_of_flatMap_addCurrent hin rfl (fun _ => Or.inl (isElement_of (Or.inl hl)))
        (fun t t' h => by obtain ⟨e, _, rfl⟩ := mem_stepOutE h; exact ⟨_, eload e, rfl⟩))
  | has x => exact sub (needElement_same ht).2 (fun t h => (List.mem_filter.1 h).1)
  | hasLabel ls => exact sub (needElement_nonempty ht).2 (fun t h => (List.mem_filter.1 h).1)
  | hasKey ks => exact sub (needElement_nonempty ht).2 (fun t h => (List.mem_filter.1 h).1)
  | hasId ids => exact sub (needElement_nonempty ht).2 (fun t h => (List.mem_filter.1 h).1)
  | limit n => exact sub (by injection ht with h; exact h.symm) (fun t h => List.mem_of_mem_take h)
  | skip n => exact sub (by injection ht with h; exact h.symm) (fun t h => List.mem_of_mem_drop h)
  | range a b =>
    exact sub (by injection ht with h; exact h.symm) (fun t h => (rangeGo_sublist a b 0 ts).subset h)
  | distinct fs =>
    exact sub (needElement_same ht).2 (fun t h => (distinctGo_sublist _ [] ts).subset h)
  | mark n => exact sub (by injection ht with h; exact h.symm) (fun t h => h)
  | jump m c e => exact sub (by injection ht with h; exact h.symm) (fun t h => h)
  | set k v => exact sub (by injection ht with h; exact h.symm) (fun t h => h)
  | increment k v => exact sub (by injection ht with h; exact h.symm) (fun t h => h)
  | count =>
    injection ht with h; subst h
    intro t' ht'
    have : t' = { count := ts.length } := by simpa [evalStepT] using ht'
    subst this
    exact inv_fresh rfl (by simp) rfl rfl rfl
  | as_ n =>
    obtain ⟨hl, rfl⟩ := typeStep_as_ok ht
    intro t' ht'
    obtain ⟨t, htm, rfl⟩ := List.mem_map.1 ht'
    exact inv_addMark n (hin t htm) hl
  | select ms =>
    obtain ⟨hl, hk⟩ := needElement_ok ht
    intro t' ht'
    obtain ⟨t, htm, rfl⟩ := List.mem_map.1 ht'
    match ms, hk with
    | [], hk => cases hk
    | [m], hk =>
      injection hk with hk; subst hk
      have hi := hin t htm
      exact inv_addCurrent hi rfl (fun _ => Or.inl (isElement_of hl))
        (fun hme => hi.marks (Or.inl (isElement_of hl)) m hme) (fun e he => hi.loaded.2 m e he)
    | a :: b :: rest, _ => exact absurd rfl (hsel a b rest)
  | fields ks =>
    obtain ⟨_, rfl⟩ := needElement_same ht
    intro t' ht'
    obtain ⟨t, htm, rfl⟩ := List.mem_map.1 ht'
    exact inv_stepFields ks (hin t htm)
  | render tpl =>
    obtain ⟨_, hk⟩ := needElement_ok ht
    injection hk with hk; subst hk
    intro t' ht'
    obtain ⟨t, htm, rfl⟩ := List.mem_map.1 ht'
    exact inv_fresh rfl (by simp) rfl rfl rfl
  | path tpl =>
    obtain ⟨_, hk⟩ := needElement_ok ht
    injection hk with hk; subst hk
    intro t' ht'
    exact inv_dead (hin t' ht') rfl (by simp)
  | unwind f =>
    injection ht with h; subst h
    intro t' ht'
    obtain ⟨t, htm, htt⟩ := List.mem_flatMap.1 ht'
    exact inv_stepUnwind f (hin t htm) t' htt
  | aggregate aggs =>
    obtain ⟨_, hk⟩ := needElement_ok ht
    split at hk
    · cases hk
    · injection hk with hk; subst hk
      intro t' ht'
      exact inv_dead (hin t' ht') rfl (by simp)
  | unknown => cases ht
  | inNull _ => cases hc
  | outNull _ => cases hc
  | inENull _ => cases hc
  | outENull _ => cases hc
  | lookupVertsIndex _ => cases hc
  | engineCustom _ _ => cases hc

/-! ## §3 conservative extension, whole programs -/

/-- From a traveler of `Grip.EvalN` back to the traveler of `Grip.evalFrom`: in a selection, Go's
    placeholder (the only element that is not loaded) becomes the model's default element `{}`. -/
def unplace (t : Traveler) : Traveler :=
  { t with sel := t.sel.map (fun s => s.map (fun kv => (kv.1, if kv.2.loaded then kv.2 else ({} : Elem)))) }

theorem unplace_of_sel_none {t : Traveler} (h : t.sel = none) : unplace t = t := by
  obtain ⟨cur, marks, path, count, render, sel, agg⟩ := t
  simp only at h
  subst h
  rfl

theorem map_unplace_of_inv {st : TState} {ts : List Traveler} (h : ∀ t ∈ ts, Inv st t) :
    ts.map unplace = ts := by
  have h1 : ts.map unplace = ts.map id :=
    List.map_congr_left (fun t ht => unplace_of_sel_none (h t ht).sel)
  rw [h1, List.map_id]

theorem unplace_stepSelectN (a b : String) (rest : List String) (t : Traveler) (h : LoadedT t) :
    unplace (stepSelectN (a :: b :: rest) t) = stepSelect (a :: b :: rest) t := by
  rw [stepSelectN_many, stepSelect_many]
  simp only [unplace, Option.map_some, List.map_map]
  congr 2
  apply List.map_congr_left
  intro m _
  simp only [Function.comp]
  cases hg : t.getMark m with
  | none => rfl
  | some e =>
    have := h.2 m e hg
    simp [this]

/-- The travelers of a several-mark `select` (and what follows it): no current element, and every
    selection whose mark is recorded with an element type is a real (loaded) element. -/
def SelGood (marks : MarkTypes) (t : Traveler) : Prop :=
  t.cur = none ∧ ∀ kv ∈ t.sel.getD [], (marks.get kv.1).isElement = true → kv.2.loaded = true

/-- The simulation between the two evaluations. -/
def Rel (st : TState) (ts tsN : List Traveler) : Prop :=
  ts = tsN.map unplace ∧
  ((∀ t ∈ tsN, Inv st t) ∨ (st.last = .selection ∧ ∀ t ∈ tsN, SelGood st.marks t))

theorem rangeGo_map (f : Traveler → Traveler) (a b : Int) : ∀ (i : Nat) (ts : List Traveler),
    rangeGo a b i (ts.map f) = (rangeGo a b i ts).map f
  | _, [] => rfl
  | i, t :: ts => by
    simp only [List.map_cons, rangeGo]
    split
    · rw [List.map_cons, rangeGo_map f a b (i + 1) ts]
    · exact rangeGo_map f a b (i + 1) ts

theorem flatMap_unwind_of_no_cur (f : String) : ∀ (ts : List Traveler), (∀ t ∈ ts, t.cur = none) →
    ts.flatMap (stepUnwind f) = ts
  | [], _ => rfl
  | t :: ts, h => by
    have h1 : stepUnwind f t = [t] := by
      unfold stepUnwind
      rw [h t (by simp)]
    rw [List.flatMap_cons, h1, flatMap_unwind_of_no_cur f ts (fun t' ht' => h t' (by simp [ht']))]
    rfl

theorem selGood_stepSelectN {st : TState} {t : Traveler} (a b : String) (rest : List String)
    (h : Inv st t) (hl : st.last.isElement = true) :
    SelGood st.marks (stepSelectN (a :: b :: rest) t) := by
  refine ⟨rfl, fun kv hkv hme => ?_⟩
  rw [stepSelectN_many] at hkv
  simp only [Option.getD_some] at hkv
  obtain ⟨m, _, rfl⟩ := List.mem_map.1 hkv
  obtain ⟨e, he⟩ := h.marks (Or.inl hl) m hme
  simp only [he, Option.getD_some]
  exact h.loaded.2 m e he

/-- ONE STATEMENT: the simulation is preserved. -/
theorem rel_step (mi : C02.NullMiss) (numOf : String → Option Int) (g : AGraph) {st st' : TState}
    {s : Stmt} {ts tsN : List Traveler} (hc : conservative s = true)
    (ht : typeStep st s = .ok st') (h : Rel st ts tsN) :
    Rel st' (evalStepT numOf g st.last s ts) (EvalN.evalStepN mi numOf g st.last s tsN) := by
  obtain ⟨hts, hcase⟩ := h
  rcases hcase with hinv | ⟨hlast, hgood⟩
  · -- no selections yet: the two lists are equal
    have hEq : ts = tsN := by rw [hts, map_unplace_of_inv hinv]
    subst hEq
    by_cases hsel : ∃ a b rest, s = .select (a :: b :: rest)
    · obtain ⟨a, b, rest, rfl⟩ := hsel
      obtain ⟨hl, hk⟩ := needElement_ok ht
      injection hk with hk; subst hk
      refine ⟨?_, Or.inr ⟨rfl, ?_⟩⟩
      · show ts.map (stepSelect (a :: b :: rest)) = (ts.map (stepSelectN (a :: b :: rest))).map unplace
        rw [List.map_map]
        exact List.map_congr_left (fun t ht' => (unplace_stepSelectN a b rest t (hinv t ht').loaded).symm)
      · intro t' ht'
        obtain ⟨t, htm, rfl⟩ := List.mem_map.1 ht'
        exact selGood_stepSelectN (st := st) a b rest (hinv t htm) (isElement_of hl)
    · have hsel' : ∀ a b rest, s ≠ .select (a :: b :: rest) :=
        fun a b rest h => hsel ⟨a, b, rest, h⟩
      have hstep : EvalN.evalStepN mi numOf g st.last s ts = evalStepT numOf g st.last s ts := by
        apply evalStepN_eq_evalStepT
        · cases s <;> first | rfl | cases hc
        · intro hk; cases s <;> first | (cases hc; done) | (cases hk; done)
        · intro ms hms
          subst hms
          match ms, hsel' with
          | [], _ => simp
          | [_], _ => simp
          | a :: b :: rest, h => exact absurd rfl (h a b rest)
      rw [hstep]
      have hout := inv_step numOf g hc hsel' ht hinv
      exact ⟨(map_unplace_of_inv hout).symm, Or.inl hout⟩
  · -- behind a several-mark select: only row-wise statements are typed
    obtain ⟨last, marks⟩ := st
    simp only at hlast
    subst hlast
    have hcur : ∀ t ∈ tsN, t.cur = none := fun t ht' => (hgood t ht').1
    have hcur' : ∀ t ∈ tsN.map unplace, t.cur = none := by
      intro t ht'
      obtain ⟨t0, h0, rfl⟩ := List.mem_map.1 ht'
      exact hcur t0 h0
    have same : ∀ {out outN : List Traveler}, st' = ⟨.selection, marks⟩ → out = outN.map unplace →
        (∀ t ∈ outN, t ∈ tsN) → Rel st' out outN := by
      intro out outN h1 h2 h3
      subst h1
      exact ⟨h2, Or.inr ⟨rfl, fun t ht' => hgood t (h3 t ht')⟩⟩
    subst hts
    cases s with
    | limit n =>
      exact same (by injection ht with h; exact h.symm) (List.map_take).symm
        (fun t h => List.mem_of_mem_take h)
    | skip n =>
      exact same (by injection ht with h; exact h.symm) (List.map_drop).symm
        (fun t h => List.mem_of_mem_drop h)
    | range a b =>
      exact same (by injection ht with h; exact h.symm) (rangeGo_map unplace a b 0 tsN)
        (fun t h => (rangeGo_sublist a b 0 tsN).subset h)
    | mark n => exact same (by injection ht with h; exact h.symm) rfl (fun t h => h)
    | jump m c e => exact same (by injection ht with h; exact h.symm) rfl (fun t h => h)
    | set k v => exact same (by injection ht with h; exact h.symm) rfl (fun t h => h)
    | increment k v => exact same (by injection ht with h; exact h.symm) rfl (fun t h => h)
    | unwind f =>
      refine same (by injection ht with h; exact h.symm) ?_ (fun t h => ?_)
      · show (tsN.map unplace).flatMap (stepUnwind f) = (tsN.flatMap (stepUnwind f)).map unplace
        rw [flatMap_unwind_of_no_cur f _ hcur', flatMap_unwind_of_no_cur f _ hcur]
      · have : tsN.flatMap (stepUnwind f) = tsN := flatMap_unwind_of_no_cur f _ hcur
        have h' : t ∈ tsN.flatMap (stepUnwind f) := h
        rw [this] at h'
        exact h'
    | count =>
      injection ht with h; subst h
      refine ⟨?_, Or.inl ?_⟩
      · show [({ count := (tsN.map unplace).length } : Traveler)] = [({ count := tsN.length } : Traveler)].map unplace
        rw [List.length_map]
        rfl
      · intro t' ht'
        have : t' = { count := tsN.length } := by simpa [EvalN.evalStepN, C02.evalStepN, C02.evalStepP, evalStepT] using ht'
        subst this
        exact inv_fresh rfl (by simp) rfl rfl rfl
    | as_ n =>
      obtain ⟨_, rfl⟩ := typeStep_as_ok ht
      refine ⟨?_, Or.inr ⟨rfl, ?_⟩⟩
      · show (tsN.map unplace).map (stepAs n) = (tsN.map (stepAs n)).map unplace
        rw [List.map_map, List.map_map]
        exact List.map_congr_left (fun t _ => rfl)
      · intro t' ht'
        obtain ⟨t, htm, rfl⟩ := List.mem_map.1 ht'
        refine ⟨(hgood t htm).1, fun kv hkv hme => ?_⟩
        have hme' : ((marks.set n .selection).get kv.1).isElement = true := hme
        rw [get_set] at hme'
        split at hme'
        · cases hme'
        · exact (hgood t htm).2 kv hkv hme'
    | V _ => simp [typeStep] at ht
    | E _ => simp [typeStep] at ht
    | in_ _ => simp [typeStep, moveToVertex] at ht
    | out _ => simp [typeStep, moveToVertex] at ht
    | both _ => simp [typeStep, moveToVertex] at ht
    | inE _ => simp [typeStep, moveToEdge] at ht
    | outE _ => simp [typeStep, moveToEdge] at ht
    | bothE _ => simp [typeStep, moveToEdge] at ht
    | has _ => simp [typeStep, needElement] at ht
    | hasLabel _ => simp [typeStep, needElement] at ht
    | hasKey _ => simp [typeStep, needElement] at ht
    | hasId _ => simp [typeStep, needElement] at ht
    | distinct _ => simp [typeStep, needElement] at ht
    | select _ => simp [typeStep, needElement] at ht
    | render _ => simp [typeStep, needElement] at ht
    | path _ => simp [typeStep, needElement] at ht
    | fields _ => simp [typeStep, needElement] at ht
    | aggregate _ => simp [typeStep, needElement] at ht
    | unknown => cases ht
    | inNull _ => cases hc
    | outNull _ => cases hc
    | inENull _ => cases hc
    | outENull _ => cases hc
    | lookupVertsIndex _ => cases hc
    | engineCustom _ _ => cases hc

/-! ### conversion -/

theorem convertN_of_sel_none (g : AGraph) (st : TState) {t : Traveler} (h : t.sel = none) :
    convertN g st t = RowN.ofRow (convert st t) := by
  unfold convertN convert
  cases st.last <;> simp only [h, Option.getD_none, List.filterMap_nil, RowN.ofRow, List.map_nil]
  cases t.agg <;> rfl

/-- selections: a loaded element is not reloaded -/
theorem sel_rows_eq (g : AGraph) (marks : MarkTypes) : ∀ (l : List (String × Elem)),
    (∀ kv ∈ l, (marks.get kv.1).isElement = true → kv.2.loaded = true) →
    l.filterMap (fun (kv : String × Elem) =>
        match marks.get kv.1 with
        | .vertex => some (kv.1, DataType.vertex, C02.reload g .vertex kv.2)
        | .edge => some (kv.1, DataType.edge, C02.reload g .edge kv.2)
        | _ => none)
      = ((l.map (fun kv => (kv.1, if kv.2.loaded then kv.2 else ({} : Elem)))).filterMap
          (fun (kv : String × Elem) =>
            match marks.get kv.1 with
            | .vertex => some (kv.1, DataType.vertex, kv.2)
            | .edge => some (kv.1, DataType.edge, kv.2)
            | _ => none)).map (fun (x : String × DataType × Elem) => (x.1, x.2.1, some x.2.2))
  | [], _ => rfl
  | kv :: l, h => by
    have ih := sel_rows_eq g marks l (fun kv' hkv' => h kv' (by simp [hkv']))
    have hk := h kv (by simp)
    rw [List.map_cons, List.filterMap_cons, List.filterMap_cons]
    cases hm : marks.get kv.1 with
    | vertex =>
      have hl : kv.2.loaded = true := hk (by rw [hm]; rfl)
      have hr : ∀ ty, C02.reload g ty kv.2 = some kv.2 := fun ty => by simp [C02.reload, hl]
      simp only [hl, if_true, hr, List.map_cons, ih]
    | edge =>
      have hl : kv.2.loaded = true := hk (by rw [hm]; rfl)
      have hr : ∀ ty, C02.reload g ty kv.2 = some kv.2 := fun ty => by simp [C02.reload, hl]
      simp only [hl, if_true, hr, List.map_cons, ih]
    | noData => simpa only using ih
    | count => simpa only using ih
    | aggregation => simpa only using ih
    | selection => simpa only using ih
    | render => simpa only using ih
    | path => simpa only using ih

theorem convertN_of_selGood (g : AGraph) (marks : MarkTypes) {t : Traveler} (h : SelGood marks t) :
    convertN g ⟨.selection, marks⟩ t = RowN.ofRow (convert ⟨.selection, marks⟩ (unplace t)) := by
  have hsel : (unplace t).sel.getD []
      = (t.sel.getD []).map (fun kv => (kv.1, if kv.2.loaded then kv.2 else ({} : Elem))) := by
    unfold unplace
    cases t.sel <;> rfl
  simp only [convertN, convert, RowN.ofRow, hsel]
  exact congrArg RowN.sel (sel_rows_eq g marks _ h.2)

theorem rel_convert (g : AGraph) {st : TState} {ts tsN : List Traveler} (h : Rel st ts tsN) :
    tsN.map (convertN g st) = ts.map (fun t => RowN.ofRow (convert st t)) := by
  obtain ⟨hts, hcase⟩ := h
  subst hts
  rw [List.map_map]
  apply List.map_congr_left
  intro t ht
  rcases hcase with hinv | ⟨hlast, hgood⟩
  · simp only [Function.comp, unplace_of_sel_none (hinv t ht).sel]
    exact convertN_of_sel_none g st (hinv t ht).sel
  · obtain ⟨last, marks⟩ := st
    simp only at hlast
    subst hlast
    exact convertN_of_selGood g marks (hgood t ht)

/-- WHOLE PROGRAMS: the simulation holds between the results of the two folds. -/
theorem fold_rel_state (mi : C02.NullMiss) (numOf : String → Option Int) (g : AGraph) :
    ∀ (stmts : List Stmt) (st stf : TState) (i : Nat) (ts tsN : List Traveler),
      (∀ s ∈ stmts, conservative s = true) → typeFold st stmts = .ok stf → Rel st ts tsN →
      Rel stf (evalFrom numOf g st ts stmts)
        (C02.evalFromX (fun _ => EvalN.evalStepN mi numOf g) st i tsN stmts)
  | [], st, stf, i, ts, tsN, _, hf, h => by
    injection hf with hf; subst hf
    exact h
  | s :: rest, st, stf, i, ts, tsN, hc, hf, h => by
    unfold typeFold at hf
    unfold C02.evalFromX evalFrom
    cases hts : typeStep st s with
    | error e => rw [hts] at hf; cases hf
    | ok st' =>
      rw [hts] at hf
      exact fold_rel_state mi numOf g rest st' stf (i + 1) _ _ (fun s' hs' => hc s' (by simp [hs'])) hf
        (rel_step mi numOf g (hc s (by simp)) hts h)

/-- … hence the fold of `Grip.EvalN` and the fold of `Grip.evalFrom` give the same rows. -/
theorem fold_rel (mi : C02.NullMiss) (numOf : String → Option Int) (g : AGraph)
    (stmts : List Stmt) (st stf : TState) (i : Nat) (ts tsN : List Traveler)
    (hc : ∀ s ∈ stmts, conservative s = true) (hf : typeFold st stmts = .ok stf) (h : Rel st ts tsN) :
    (C02.evalFromX (fun _ => EvalN.evalStepN mi numOf g) st i tsN stmts).map (convertN g stf)
      = (evalFrom numOf g st ts stmts).map (fun t => RowN.ofRow (convert stf t)) :=
  rel_convert g (fold_rel_state mi numOf g stmts st stf i ts tsN hc hf h)

theorem rel_seed : Rel {} [Traveler.seed] [Traveler.seed] :=
  ⟨rfl, Or.inl (fun t ht => by simp only [List.mem_singleton] at ht; subst ht; exact inv_seed)⟩

/-- The travelers `run` converts, for a program of the conservative fragment: unless the final type
    is `selection` they satisfy `Inv` (and are the travelers of `Grip.EvalN`, literally). -/
theorem result_inv (mi : C02.NullMiss) (numOf : String → Option Int) (g : AGraph) (stmts : List Stmt)
    (stf : TState) (hc : ∀ s ∈ stmts, conservative s = true) (hf : typeFold {} stmts = .ok stf)
    (hl : stf.last ≠ .selection) :
    EvalN.evalN mi numOf g stmts = evalFrom numOf g {} [Traveler.seed] stmts ∧
    ∀ t ∈ evalFrom numOf g {} [Traveler.seed] stmts, Inv stf t := by
  obtain ⟨h1, h2⟩ := fold_rel_state mi numOf g stmts {} stf 0 _ _ hc hf rel_seed
  rcases h2 with h2 | ⟨h2, _⟩
  · have : evalFrom numOf g {} [Traveler.seed] stmts = EvalN.evalN mi numOf g stmts := by
      rw [h1, map_unplace_of_inv h2]; rfl
    refine ⟨this.symm, fun t ht => h2 t ?_⟩
    rw [this] at ht
    exact ht
  · exact absurd h2 hl

/-! ## §4 graphs without blank ids; rows without a current element -/

/-- No stored vertex or edge has the empty id, and no stored edge a blank endpoint.  This is what
    the server's validators give (`gripql.Vertex.Validate`: "'gid' cannot be blank";
    `gripql.Edge.Validate`: 'gid', 'from', 'to' cannot be blank).  It is NOT a consequence of
    `AGraph.WellFormed` (unique ids), see `wellFormed_not_noEmptyId` in the property file. -/
structure NoEmptyId (g : AGraph) : Prop where
  vertex : ∀ v ∈ g.verts, v.gid ≠ ""
  edge : ∀ e ∈ g.edges, e.gid ≠ ""
  frm : ∀ e ∈ g.edges, e.frm ≠ ""
  to : ∀ e ∈ g.edges, e.to ≠ ""

theorem getVertex_blank {g : AGraph} (h : NoEmptyId g) : g.getVertex "" = none := by
  unfold AGraph.getVertex
  rw [List.find?_eq_none]
  intro v hv
  have := h.vertex v hv
  simpa using this

theorem getEdge_blank {g : AGraph} (h : NoEmptyId g) : g.getEdge "" = none := by
  unfold AGraph.getEdge
  rw [List.find?_eq_none]
  intro v hv
  have := h.edge v hv
  simpa using this

theorem outEdges_blank {g : AGraph} (h : NoEmptyId g) (ls : List String) : g.outEdges "" ls = [] := by
  unfold AGraph.outEdges
  rw [List.filter_eq_nil_iff]
  intro e he
  have := h.frm e he
  simp [this]

theorem inEdges_blank {g : AGraph} (h : NoEmptyId g) (ls : List String) : g.inEdges "" ls = [] := by
  unfold AGraph.inEdges
  rw [List.filter_eq_nil_iff]
  intro e he
  have := h.to e he
  simp [this]

theorem outVerts_blank {g : AGraph} (h : NoEmptyId g) (ls : List String) : g.outVerts "" ls = [] := by
  unfold AGraph.outVerts
  rw [outEdges_blank h]
  rfl

theorem inVerts_blank {g : AGraph} (h : NoEmptyId g) (ls : List String) : g.inVerts "" ls = [] := by
  unfold AGraph.inVerts
  rw [inEdges_blank h]
  rfl

theorem curId_of_no_cur {t : Traveler} (h : t.cur = none) : curId t = "" := by
  unfold curId; rw [h]; rfl
theorem curLabel_of_no_cur {t : Traveler} (h : t.cur = none) : curLabel t = "" := by
  unfold curLabel; rw [h]; rfl
theorem curFrom_of_no_cur {t : Traveler} (h : t.cur = none) : curFrom t = "" := by
  unfold curFrom; rw [h]; rfl
theorem curTo_of_no_cur {t : Traveler} (h : t.cur = none) : curTo t = "" := by
  unfold curTo; rw [h]; rfl

theorem stepOut_of_no_cur {g : AGraph} (hg : NoEmptyId g) (ty : DataType) (ls : List String)
    {t : Traveler} (hc : t.cur = none) : stepOut g ty ls t = [] := by
  unfold stepOut
  rw [curId_of_no_cur hc, curTo_of_no_cur hc, getVertex_blank hg, outVerts_blank hg]
  split <;> rfl

theorem stepIn_of_no_cur {g : AGraph} (hg : NoEmptyId g) (ty : DataType) (ls : List String)
    {t : Traveler} (hc : t.cur = none) : stepIn g ty ls t = [] := by
  unfold stepIn
  rw [curId_of_no_cur hc, curFrom_of_no_cur hc, getVertex_blank hg, inVerts_blank hg]
  split <;> rfl

theorem stepOutE_of_no_cur {g : AGraph} (hg : NoEmptyId g) (ls : List String)
    {t : Traveler} (hc : t.cur = none) : stepOutE g ls t = [] := by
  unfold stepOutE
  rw [curId_of_no_cur hc, outEdges_blank hg]
  rfl

theorem stepInE_of_no_cur {g : AGraph} (hg : NoEmptyId g) (ls : List String)
    {t : Traveler} (hc : t.cur = none) : stepInE g ls t = [] := by
  unfold stepInE
  rw [curId_of_no_cur hc, inEdges_blank hg]
  rfl

theorem flatMap_nil_of_forall {α β} (f : α → List β) : ∀ (l : List α), (∀ a ∈ l, f a = []) → l.flatMap f = []
  | [], _ => rfl
  | a :: l, h => by
    rw [List.flatMap_cons, h a (by simp), flatMap_nil_of_forall f l (fun b hb => h b (by simp [hb]))]
    rfl

theorem length_le_flatMap {α β} (f : α → List β) : ∀ (l : List α), (∀ a ∈ l, f a ≠ []) →
    l.length ≤ (l.flatMap f).length
  | [], _ => Nat.le_refl _
  | a :: l, h => by
    have h1 : 1 ≤ (f a).length := by
      cases hfa : f a with
      | nil => exact absurd hfa (h a (by simp))
      | cons x xs => simp
    have h2 := length_le_flatMap f l (fun b hb => h b (by simp [hb]))
    rw [List.flatMap_cons, List.length_append, List.length_cons]
    omega

/-! ### field references on a row without a current element -/

/-- the same row standing on the EMPTY element (`&gdbi.DataElement{}`) -/
def withEmpty (t : Traveler) : Traveler := { t with cur := some {} }

theorem doc_of_no_cur {t : Traveler} (hc : t.cur = none) (p : String) : t.doc p = (withEmpty t).doc p := by
  unfold Traveler.doc
  have h1 : elemDict t.cur = elemDict (withEmpty t).cur := by rw [hc]; rfl
  have h2 : ∀ ns, (withEmpty t).getMark ns = t.getMark ns := fun _ => rfl
  cases Path.namespaceOf p with
  | none => exact h1
  | some ns => simp only [h1, h2]

theorem value_of_no_cur {t : Traveler} (hc : t.cur = none) (p : String) :
    t.value p = (withEmpty t).value p := by
  unfold Traveler.value
  rw [doc_of_no_cur hc]

theorem fieldExists_of_no_cur {t : Traveler} (hc : t.cur = none) (p : String) :
    t.fieldExists p = (withEmpty t).fieldExists p := by
  unfold Traveler.fieldExists
  rw [doc_of_no_cur hc]

theorem keepHas_of_no_cur (numOf : String → Option Int) (x : C08.HasE) {t : Traveler}
    (hc : t.cur = none) : keepHas numOf x t = keepHas numOf x (withEmpty t) := by
  unfold keepHas
  rw [show t.value = (withEmpty t).value from funext (value_of_no_cur hc)]

theorem keepHasKey_of_no_cur (ks : List String) {t : Traveler} (hc : t.cur = none) :
    keepHasKey ks t = keepHasKey ks (withEmpty t) := by
  unfold keepHasKey
  rw [show t.fieldExists = (withEmpty t).fieldExists from funext (fieldExists_of_no_cur hc)]

theorem distinctKey_of_no_cur (fs : List String) {t : Traveler} (hc : t.cur = none) :
    distinctKey fs t = distinctKey fs (withEmpty t) := by
  unfold distinctKey
  rw [show t.fieldExists = (withEmpty t).fieldExists from funext (fieldExists_of_no_cur hc),
    show t.value = (withEmpty t).value from funext (value_of_no_cur hc)]

/-- a key of the current element (no `$mark.` prefix, or `$__current__.`) -/
def isCurrentKey (p : String) : Prop :=
  Path.namespaceOf p = none ∨ Path.namespaceOf p = some currentNamespace

theorem doc_current_of_no_cur {t : Traveler} (hc : t.cur = none) {p : String} (hp : isCurrentKey p) :
    t.doc p = Path.nilDict := by
  unfold Traveler.doc
  rcases hp with hp | hp
  · rw [hp, hc]; rfl
  · rw [hp, hc]; simp [elemDict]

/-- `_gid`, `_label`, `_from`, `_to` of a row without current element are the empty string -/
theorem value_reserved_of_no_cur {t : Traveler} (hc : t.cur = none) {p k : String}
    (hp : isCurrentKey p) (hj : Path.jsonPathOf p = [k]) (hk : k ∈ ["gid", "label", "from", "to"]) :
    t.value p = .str "" ∧ t.fieldExists p = true := by
  unfold Traveler.value Traveler.fieldExists Path.lookupDoc
  rw [doc_current_of_no_cur hc hp, hj]
  simp only [List.mem_cons, List.not_mem_nil, or_false] at hk
  rcases hk with rfl | rfl | rfl | rfl <;> exact ⟨rfl, rfl⟩

/-- a data field of a row without current element is missing: its value is null -/
theorem value_data_of_no_cur {t : Traveler} (hc : t.cur = none) {p f : String} {rest : List String}
    (hp : isCurrentKey p) (hj : Path.jsonPathOf p = "data" :: f :: rest) :
    t.value p = .null ∧ t.fieldExists p = false := by
  unfold Traveler.value Traveler.fieldExists Path.lookupDoc
  rw [doc_current_of_no_cur hc hp, hj]
  exact ⟨rfl, rfl⟩

/-! ### `render` reads the traveler through `value` only -/

mutual
  theorem renderT_congr_value {t t' : Traveler} (h : ∀ p, t.value p = t'.value p) :
      ∀ tpl : JV, renderT t tpl = renderT t' tpl
    | .str s => by simp only [renderT]; exact h s
    | .obj kvs => by simp only [renderT]; rw [renderObj_congr_value h kvs]
    | .arr xs => by simp only [renderT]; rw [renderArr_congr_value h xs]
    | .null => by simp only [renderT]
    | .bool _ => by simp only [renderT]
    | .num _ => by simp only [renderT]
  theorem renderObj_congr_value {t t' : Traveler} (h : ∀ p, t.value p = t'.value p) :
      ∀ kvs : List (String × JV), renderT.renderObj t kvs = renderT.renderObj t' kvs
    | [] => by simp only [renderT.renderObj]
    | (k, v) :: rest => by
      simp only [renderT.renderObj]
      rw [renderT_congr_value h v, renderObj_congr_value h rest]
  theorem renderArr_congr_value {t t' : Traveler} (h : ∀ p, t.value p = t'.value p) :
      ∀ xs : List JV, renderT.renderArr t xs = renderT.renderArr t' xs
    | [] => by simp only [renderT.renderArr]
    | v :: rest => by
      simp only [renderT.renderArr]
      rw [renderT_congr_value h v, renderArr_congr_value h rest]
end

theorem append_if_single_iff {α} (xs : List α) (b : Bool) (r : α) :
    (xs ++ (if b = true then [r] else []) = xs ++ [r] ↔ b = true) ∧
    (xs ++ (if b = true then [r] else []) = xs ↔ b = false) := by
  cases b <;> simp

/-! ### `distinct` and one more row -/

theorem distinctGo_append_new (fs : List String) (n : Traveler) (k : List JV)
    (hk : distinctKey fs n = some k) : ∀ (xs : List Traveler) (seen : List (List JV)),
    k ∉ seen → (∀ x ∈ xs, distinctKey fs x ≠ some k) →
    distinctGo fs seen (xs ++ [n]) = distinctGo fs seen xs ++ [n]
  | [], seen, hs, _ => by
    simp [distinctGo, hk, hs]
  | x :: xs, seen, hs, hx => by
    have hx' : ∀ y ∈ xs, distinctKey fs y ≠ some k := fun y hy => hx y (by simp [hy])
    rw [List.cons_append]
    unfold distinctGo
    cases hkx : distinctKey fs x with
    | none => exact distinctGo_append_new fs n k hk xs seen hs hx'
    | some kx =>
      simp only
      split
      · exact distinctGo_append_new fs n k hk xs seen hs hx'
      · have hne : k ≠ kx := fun h => hx x (by simp) (by rw [hkx, h])
        rw [distinctGo_append_new fs n k hk xs (kx :: seen) (by simp [hne, hs]) hx']
        rfl

theorem distinctGo_append_old (fs : List String) (n : Traveler) (k : List JV)
    (hk : distinctKey fs n = some k) : ∀ (xs : List Traveler) (seen : List (List JV)),
    (k ∈ seen ∨ ∃ x ∈ xs, distinctKey fs x = some k) →
    distinctGo fs seen (xs ++ [n]) = distinctGo fs seen xs
  | [], seen, h => by
    rcases h with h | ⟨x, hx, _⟩
    · simp [distinctGo, hk, h]
    · cases hx
  | x :: xs, seen, h => by
    rw [List.cons_append]
    unfold distinctGo
    cases hkx : distinctKey fs x with
    | none =>
      refine distinctGo_append_old fs n k hk xs seen ?_
      rcases h with h | ⟨y, hy, hyk⟩
      · exact Or.inl h
      · rcases List.mem_cons.1 hy with rfl | hy
        · rw [hkx] at hyk; cases hyk
        · exact Or.inr ⟨y, hy, hyk⟩
    | some kx =>
      simp only
      split
      · rename_i hc
        refine distinctGo_append_old fs n k hk xs seen ?_
        rcases h with h | ⟨y, hy, hyk⟩
        · exact Or.inl h
        · rcases List.mem_cons.1 hy with rfl | hy
          · rw [hkx] at hyk; injection hyk with hyk; subst hyk
            exact Or.inl (by simpa using hc)
          · exact Or.inr ⟨y, hy, hyk⟩
      · rw [distinctGo_append_old fs n k hk xs (kx :: seen) ?_]
        rcases h with h | ⟨y, hy, hyk⟩
        · exact Or.inl (by simp [h])
        · rcases List.mem_cons.1 hy with rfl | hy
          · rw [hkx] at hyk; injection hyk with hyk; subst hyk
            exact Or.inl (by simp)
          · exact Or.inr ⟨y, hy, hyk⟩

/-! ## §5 the placeholder of a several-mark `select` under `Convert`'s lazy reload -/

theorem filterMap_congr' {α β} (f f' : α → Option β) : ∀ (l : List α), (∀ x ∈ l, f x = f' x) →
    l.filterMap f = l.filterMap f'
  | [], _ => rfl
  | a :: l, h => by
    rw [List.filterMap_cons, List.filterMap_cons, h a (by simp),
      filterMap_congr' f f' l (fun x hx => h x (by simp [hx]))]

theorem reload_placeholder {g : AGraph} (hg : NoEmptyId g) (ty : DataType)
    (hty : ty = .vertex ∨ ty = .edge) : C02.reload g ty { loaded := false } = none := by
  rcases hty with rfl | rfl
  · simp [C02.reload, getVertex_blank hg]
  · simp [C02.reload, getEdge_blank hg]

theorem reload_loaded (g : AGraph) (ty : DataType) {e : Elem} (h : e.loaded = true) :
    C02.reload g ty e = some e := by
  simp [C02.reload, h]

/-- The selection row of `select(m₁, m₂, …)`: for every selected mark recorded with an element type,
    exactly what the mark holds — `none` for a mark without element. -/
theorem convertN_stepSelectN {g : AGraph} (hg : NoEmptyId g) (marks : MarkTypes) (a b : String)
    (rest : List String) (t : Traveler) (hl : ∀ m e, t.getMark m = some e → e.loaded = true) :
    convertN g ⟨.selection, marks⟩ (stepSelectN (a :: b :: rest) t) =
      .sel ((a :: b :: rest).eraseDups.filterMap (fun m =>
        match marks.get m with
        | .vertex => some (m, DataType.vertex, t.getMark m)
        | .edge => some (m, DataType.edge, t.getMark m)
        | _ => none)) := by
  rw [stepSelectN_many]
  simp only [convertN, Option.getD_some, List.filterMap_map]
  congr 1
  apply filterMap_congr'
  intro m _
  simp only [Function.comp]
  cases hm : marks.get m <;> simp only []
  · cases hgm : t.getMark m with
    | none => simp only [Option.getD_none, reload_placeholder hg .vertex (Or.inl rfl)]
    | some e => simp only [Option.getD_some, reload_loaded g _ (hl m e hgm)]
  · cases hgm : t.getMark m with
    | none => simp only [Option.getD_none, reload_placeholder hg .edge (Or.inr rfl)]
    | some e => simp only [Option.getD_some, reload_loaded g _ (hl m e hgm)]

end Grip.Props.C01N.Lemmas
