import Grip.Model.C12

/-! Protocol invariant of the mark/jump LTS: signal bookkeeping. -/
set_option linter.unusedSimpArgs false
namespace Grip.Props.C12.Lemmas
open Grip.C12

variable {T : Type}

theorem sigCount_append (A B : List (Nat × Msg T)) : sigCount (A ++ B) = sigCount A + sigCount B := by
  induction A with
  | nil => simp [sigCount]
  | cons x r ih =>
    obtain ⟨i, m⟩ := x
    cases m <;> simp [sigCount, ih] <;> omega

theorem sigCount_travs (i : Nat) (l : List T) :
    sigCount (l.map (fun u => (i, Msg.trav u))) = 0 := by
  induction l with
  | nil => rfl
  | cons x r ih => simp [sigCount, ih]

theorem clean_travs_append (i : Nat) (l : List T) (B : List (Nat × Msg T)) :
    clean (l.map (fun u => (i, Msg.trav u)) ++ B) = clean B := by
  induction l with
  | nil => rfl
  | cons x r ih => simp [clean, ih]

/-- In-place replacement of a traveler by travelers keeps "nothing behind the signal". -/
theorem clean_replace_trav (A B : List (Nat × Msg T)) (i j : Nat) (t : T) (l : List T) :
    clean (A ++ (i, Msg.trav t) :: B) = true →
    clean (A ++ l.map (fun u => (j, Msg.trav u)) ++ B) = true := by
  induction A with
  | nil => simp [clean, clean_travs_append]
  | cons x r ih =>
    obtain ⟨k, m⟩ := x
    cases m with
    | trav u => simpa [clean] using ih
    | sig q => simp [clean]

theorem clean_replace_sig (A B : List (Nat × Msg T)) (i j k : Nat) :
    clean (A ++ (i, Msg.sig k) :: B) = true → clean (A ++ (j, Msg.sig k) :: B) = true := by
  induction A with
  | nil => simp [clean]
  | cons x r ih =>
    obtain ⟨q, m⟩ := x
    cases m with
    | trav u => simpa [clean] using ih
    | sig q => simp [clean]

/-- travelers followed by one signal: clean. -/
theorem clean_append_sig (B : List (Nat × Msg T)) (i k : Nat) :
    sigCount B = 0 → clean (B ++ [(i, Msg.sig k)]) = true := by
  induction B with
  | nil => simp [clean]
  | cons x r ih =>
    obtain ⟨q, m⟩ := x
    cases m with
    | trav u => simpa [clean, sigCount] using ih
    | sig q => simp [sigCount]

/-- Signal bookkeeping on the cycle contents. -/
def WInv (active outdated : Bool) (W : List (Nat × Msg T)) : Prop :=
  if active then sigCount W = 1 ∧ (outdated = false → clean W = true) else sigCount W = 0

structure ProtoInv (s : State T) : Prop where
  openFlags : s.phase = .open → s.signalActive = false
  flags : s.signalActive = false → s.signalOutdated = false
  rc : s.phase ≠ .closed → s.returnCount = 0
  w : s.phase ≠ .closed → WInv s.signalActive s.signalOutdated s.W
  inpE : s.phase ≠ .open → s.inp = []
  closedW : s.phase = .closed → s.W = []

theorem WInv_stageTrav {a o : Bool} {A B : List (Nat × Msg T)} {i j : Nat} {t : T} {l : List T} :
    WInv a o (A ++ (i, Msg.trav t) :: B) → WInv a o (A ++ l.map (fun u => (j, Msg.trav u)) ++ B) := by
  unfold WInv
  cases a with
  | false => simp [sigCount_append, sigCount, sigCount_travs]
  | true =>
    simp only [if_true]
    intro ⟨h1, h2⟩
    refine ⟨?_, fun ho => clean_replace_trav A B i j t l (h2 ho)⟩
    simpa [sigCount_append, sigCount, sigCount_travs] using h1

theorem WInv_stageSig {a o : Bool} {A B : List (Nat × Msg T)} {i j k : Nat} :
    WInv a o (A ++ (i, Msg.sig k) :: B) → WInv a o (A ++ (j, Msg.sig k) :: B) := by
  unfold WInv
  cases a with
  | false => simp [sigCount_append, sigCount]
  | true =>
    simp only [if_true]
    intro ⟨h1, h2⟩
    refine ⟨?_, fun ho => clean_replace_sig A B i j k (h2 ho)⟩
    simpa [sigCount_append, sigCount] using h1

theorem protoInv_init (inp : List T) : ProtoInv (init inp) := by
  constructor <;> simp [init, WInv, sigCount]

theorem protoInv_step {sys : List (Stage T)} {l : Label} {s s' : State T}
    (h : ProtoInv s) (hs : Step sys l s s') : ProtoInv s' := by
  cases hs with
  | stageTrav hW hA hst =>
    refine ⟨h.openFlags, h.flags, h.rc, ?_, h.inpE, ?_⟩
    · intro hp
      have := h.w hp
      rw [hW] at this
      exact WInv_stageTrav this
    · intro hp
      have := h.closedW hp
      rw [hW] at this
      simp at this
  | stageSig hW hA hst =>
    refine ⟨h.openFlags, h.flags, h.rc, ?_, h.inpE, ?_⟩
    · intro hp
      have := h.w hp
      rw [hW] at this
      exact WInv_stageSig this
    · intro hp
      have := h.closedW hp
      rw [hW] at this
      simp at this
  | @openJump _ m B hp hW =>
    have ha := h.openFlags hp
    have hw := h.w (by simp [hp])
    refine ⟨h.openFlags, h.flags, h.rc, ?_, h.inpE, ?_⟩
    · intro _
      simp only [ha, WInv, hW] at hw ⊢
      cases m <;> simp_all [sigCount_append, sigCount]
    · intro hc; simp [hp] at hc
  | openIn hp hN hI =>
    have ha := h.openFlags hp
    have hw := h.w (by simp [hp])
    refine ⟨h.openFlags, h.flags, h.rc, ?_, ?_, ?_⟩
    · intro _
      simp only [ha, WInv] at hw ⊢
      simp_all [sigCount_append, sigCount]
    · intro hc; simp [hp] at hc
    · intro hc; simp [hp] at hc
  | openClose hp hN hI =>
    have ha := h.openFlags hp
    have hw := h.w (by simp [hp])
    refine ⟨by simp, h.flags, fun _ => h.rc (by simp [hp]), fun _ => hw, fun _ => hI, by simp⟩
  | @closeTrav _ t B hp hW =>
    have hw := h.w (by simp [hp])
    have hf := h.flags
    refine ⟨by simp [hp], ?_, h.rc, ?_, h.inpE, ?_⟩
    · intro ha
      simp only [] at ha
      simp [ha, hf ha]
    · intro _
      simp only [WInv, hW] at hw ⊢
      cases ha : s.signalActive with
      | false => simp_all [sigCount_append, sigCount]
      | true => simp_all [sigCount_append, sigCount]
    · intro hc; simp [hp] at hc
  | @closeSig _ k B hp hW =>
    have hw := h.w (by simp [hp])
    have hrc := h.rc (by simp [hp])
    have hi := h.inpE (by simp [hp])
    simp only [WInv, hW] at hw
    cases ha : s.signalActive with
    | false => simp [ha, sigCount] at hw
    | true =>
      simp only [ha, if_true, sigCount] at hw
      obtain ⟨hc1, hc2⟩ := hw
      have hB : sigCount B = 0 := by omega
      cases ho : s.signalOutdated with
      | true =>
        constructor <;> simp [markDecide, ha, ho, hrc, hp, hi, WInv, sigCount_append, sigCount, hB, clean_append_sig]
      | false =>
        have hBe : B = [] := by simpa [clean] using hc2 ho
        constructor <;> simp [markDecide, ha, ho, hrc, hp, hi, hBe]
  | closePoll hp hN =>
    have hw := h.w (by simp [hp])
    have hrc := h.rc (by simp [hp])
    have hi := h.inpE (by simp [hp])
    cases ha : s.signalActive with
    | false =>
      have ho := h.flags ha
      simp only [WInv, ha] at hw
      constructor <;> simp_all [markDecide, WInv, sigCount_append, sigCount, clean_append_sig]
    | true =>
      have : markDecide 1 s = s := by simp [markDecide, ha, hrc]
      rw [this]; exact h

theorem protoInv_reachable {sys : List (Stage T)} {inp0 : List T} {s : State T}
    (h : Reachable sys inp0 s) : ProtoInv s := by
  induction h with
  | init => exact protoInv_init inp0
  | step _ hs ih => exact protoInv_step ih hs

end Grip.Props.C12.Lemmas

namespace Grip.Props.C12.Lemmas
open Grip.C12
variable {T : Type}

/-- Channel tags stay within the cycle. -/
def TagInv (sys : List (Stage T)) (s : State T) : Prop := ∀ x ∈ s.W, x.1 ≤ sys.length

theorem tag_markDecide {sys : List (Stage T)} {s : State T} (h : ∀ x ∈ s.W, x.1 ≤ sys.length) :
    ∀ x ∈ (markDecide 1 s).W, x.1 ≤ sys.length := by
  unfold markDecide
  split
  · intro x hx
    simp only [List.mem_append, List.mem_singleton] at hx
    rcases hx with hx | rfl
    · exact h x hx
    · simp
  · split <;> exact h

theorem tagInv_step {sys : List (Stage T)} {l : Label} {s s' : State T}
    (h : TagInv sys s) (hs : Step sys l s s') : TagInv sys s' := by
  unfold TagInv at *
  cases hs with
  | @stageTrav _ A B i t st hW hA hst =>
    obtain ⟨hi, _⟩ := List.getElem?_eq_some_iff.mp hst
    intro x hx
    simp only [List.mem_append, List.mem_map] at hx
    rcases hx with (hx | ⟨u, _, rfl⟩) | hx
    · exact h x (by rw [hW]; simp [hx])
    · simp; omega
    · exact h x (by rw [hW]; simp [hx])
  | @stageSig _ A B i k st hW hA hst =>
    obtain ⟨hi, _⟩ := List.getElem?_eq_some_iff.mp hst
    intro x hx
    simp only [List.mem_append, List.mem_cons] at hx
    rcases hx with hx | rfl | hx
    · exact h x (by rw [hW]; simp [hx])
    · simp; omega
    · exact h x (by rw [hW]; simp [hx])
  | @openJump _ m B hp hW =>
    intro x hx
    simp only [List.mem_append, List.mem_singleton] at hx
    rcases hx with hx | rfl
    · exact h x (by rw [hW]; simp [hx])
    · simp
  | @openIn _ t r hp hN hI =>
    intro x hx
    simp only [List.mem_append, List.mem_singleton] at hx
    rcases hx with hx | rfl
    · exact h x hx
    · simp
  | openClose hp hN hI => exact h
  | @closeTrav _ t B hp hW =>
    intro x hx
    simp only [List.mem_append, List.mem_singleton] at hx
    rcases hx with hx | rfl
    · exact h x (by rw [hW]; simp [hx])
    · simp
  | @closeSig _ k B hp hW =>
    apply tag_markDecide
    intro x hx
    exact h x (by rw [hW]; simp at hx ⊢; exact Or.inr hx)
  | closePoll hp hN => exact tag_markDecide h

theorem tagInv_reachable {sys : List (Stage T)} {inp0 : List T} {s : State T}
    (h : Reachable sys inp0 s) : TagInv sys s := by
  induction h with
  | init => intro x hx; simp [init] at hx
  | step _ hs ih => exact tagInv_step ih hs

end Grip.Props.C12.Lemmas
