import Grip.Model.C18
import Grip.Spec.C18

/-!
  Lemmas for C18: how C03's `insertAll` / `addElems` behave under append, that they never create
  or remove a graph, and the simulation of one iteration of the receive loop of `server.BulkAdd`
  by "at most one single add".
-/
namespace Grip.Props.C18.Lemmas
open Grip.C03 Grip.C18 Grip.C18.Spec

abbrev Core := KV × List String

/-! ### the key-value map -/

theorem has_set_ne (m : KV) (k k' : SKey) (v : Val) (h : k ≠ k') :
    (m.set k v).has k' = m.has k' := by
  simp only [KV.set, KV.has, KV.del, List.any_cons, List.any_filter]
  have h1 : decide (k = k') = false := by simp [h]
  rw [h1, Bool.false_or]
  congr 1
  funext p
  by_cases hp : p.1 = k'
  · have hk : ¬ k' = k := fun e => h e.symm
    simp [hp, hk]
  · simp [hp]

theorem get_set_ne (m : KV) (k k' : SKey) (v : Val) (h : k ≠ k') :
    (m.set k v).get k' = m.get k' := by
  simp only [KV.set, KV.get, KV.del]
  have h1 : ¬ k = k' := h
  rw [List.find?_cons_of_neg (by simpa using h1)]
  congr 1
  rw [List.find?_filter]
  congr 1
  funext p
  by_cases hq : p.1 = k'
  · have hk : ¬ k' = k := fun e => h e.symm
    simp [hq, hk]
  · simp [hq]

/-- the graph a data key (vertex, edge record, adjacency entry) or a graph key belongs to -/
def keyGraph : SKey → Option String
  | .vertex g _ => some g
  | .edge g _ _ _ _ => some g
  | .src g _ _ _ _ => some g
  | .dst g _ _ _ _ => some g
  | .graph g => some g
  | _ => none

/-! ### inserts never create or remove a graph key -/

theorem has_graph_addDoc (fs : List String) (m : KV) (g kind label doc g' : String) :
    (addDoc fs m g kind label doc).has (.graph g') = m.has (.graph g') := by
  unfold addDoc
  split <;> simp [has_set_ne]

theorem has_graph_insertElem (fs : List String) (m : KV) (g : String) (x : ElemIn) (g' : String) :
    (insertElem fs m g x).1.has (.graph g') = m.has (.graph g') := by
  cases x with
  | v x =>
    simp only [insertElem, insertVertex]
    split
    · rfl
    · simp [has_graph_addDoc, has_set_ne]
  | e x =>
    simp only [insertElem, insertEdge]
    split
    · rfl
    · simp [has_graph_addDoc, has_set_ne]

theorem insertAll_cons (fs : List String) (g : String) (m : KV) (x : ElemIn) (xs : List ElemIn) :
    (insertAll fs g m (x :: xs)).1 = (insertAll fs g (insertElem fs m g x).1 xs).1 := by
  simp [insertAll]

theorem has_graph_insertAll (fs : List String) (g : String) (xs : List ElemIn) (g' : String) :
    ∀ m : KV, (insertAll fs g m xs).1.has (.graph g') = m.has (.graph g') := by
  induction xs with
  | nil => intro m; simp [insertAll]
  | cons x xs ih => intro m; rw [insertAll_cons, ih, has_graph_insertElem]

theorem insertAll_append (fs : List String) (g : String) (xs ys : List ElemIn) :
    ∀ m : KV, (insertAll fs g m (xs ++ ys)).1 = (insertAll fs g (insertAll fs g m xs).1 ys).1 := by
  induction xs with
  | nil => intro m; simp [insertAll]
  | cons x xs ih => intro m; rw [List.cons_append, insertAll_cons, insertAll_cons, ih]

theorem insertAll_single (fs : List String) (g : String) (m : KV) (x : ElemIn) :
    (insertAll fs g m [x]).1 = (insertElem fs m g x).1 := by
  simp [insertAll]

/-! ### `addElems` on the core of a state -/

/-- `graph.BulkAdd` / `AddVertex` / `AddEdge` seen on the core -/
def addC (c : Core) (g : String) (xs : List ElemIn) : Core :=
  if c.1.has (.graph g) then ((insertAll c.2 g c.1 xs).1, c.2) else c

theorem core_addElems (s : KState) (g : String) (xs : List ElemIn) :
    core (addElems s g xs).1 = addC (core s) g xs := by
  unfold addElems addC core hasGraph
  by_cases h : s.kv.has (.graph g) = true
  · simp only [h, Bool.not_true, Bool.false_eq_true, if_false, if_true]
    split <;> simp [KState.touch]
  · simp [h]

theorem hasGraph_core (s : KState) (g : String) : hasGraph s g = (core s).1.has (.graph g) := rfl

theorem has_graph_addC (c : Core) (g : String) (xs : List ElemIn) (g' : String) :
    (addC c g xs).1.has (.graph g') = c.1.has (.graph g') := by
  unfold addC
  split
  · simp [has_graph_insertAll]
  · rfl

theorem hasGraph_addElems (s : KState) (g : String) (xs : List ElemIn) (g' : String) :
    hasGraph (addElems s g xs).1 g' = hasGraph s g' := by
  rw [hasGraph_core, core_addElems, has_graph_addC]; rfl

theorem addC_nil (c : Core) (g : String) : addC c g [] = c := by
  unfold addC; split <;> simp [insertAll]

theorem addC_append (c : Core) (g : String) (xs ys : List ElemIn) :
    addC c g (xs ++ ys) = addC (addC c g xs) g ys := by
  by_cases h : c.1.has (.graph g) = true
  · have h2 : (insertAll c.2 g c.1 xs).1.has (.graph g) = true := by rw [has_graph_insertAll]; exact h
    simp [addC, h, h2, insertAll_append]
  · simp [addC, h]

theorem addOne_eq (s : KState) (g : String) (x : ElemIn) : addOne s (g, x) = (addElems s g [x]).1 := by
  cases x <;> simp [addOne, step]

/-- a single add on the core -/
def addOneC (c : Core) (p : String × ElemIn) : Core := addC c p.1 [p.2]

theorem core_addOne (s : KState) (p : String × ElemIn) : core (addOne s p) = addOneC (core s) p := by
  obtain ⟨g, x⟩ := p
  rw [addOne_eq, core_addElems]; rfl

theorem core_sequential (ps : List (String × ElemIn)) :
    ∀ s : KState, core (sequential s ps) = ps.foldl addOneC (core s) := by
  induction ps with
  | nil => intro s; rfl
  | cons p ps ih => intro s; simp only [sequential, List.foldl_cons] at *; rw [ih, core_addOne]

theorem hasGraph_addOne (s : KState) (p : String × ElemIn) (g' : String) :
    hasGraph (addOne s p) g' = hasGraph s g' := by
  obtain ⟨g, x⟩ := p
  rw [addOne_eq, hasGraph_addElems]

/-! ### the receive loop -/

/-- what the loop has achieved so far, on the core: the state once the open stream is closed -/
def settled (v : Srv) : Core := core (flush v).st

/-- the selected graph exists -/
def WF (v : Srv) : Prop := ∀ g, v.cur = some g → hasGraph v.st g = true

theorem settled_eq (v : Srv) :
    settled v = match v.cur with
      | none => core v.st
      | some g => addC (core v.st) g v.pend := by
  unfold settled flush
  cases h : v.cur with
  | none => simp
  | some g => simp only [step]; rw [core_addElems]

theorem hasGraph_flush (v : Srv) (g' : String) : hasGraph (flush v).st g' = hasGraph v.st g' := by
  unfold flush
  cases h : v.cur with
  | none => simp
  | some g => simp only [step]; rw [hasGraph_addElems]

theorem flush_cur (v : Srv) : (flush v).cur = none := by
  unfold flush; cases h : v.cur <;> simp [h]

theorem flush_pend (v : Srv) (h : v.cur = none → v.pend = []) : (flush v).pend = [] := by
  unfold flush; cases hc : v.cur <;> simp [hc, h]

theorem flush_ins (v : Srv) : (flush v).ins = v.ins := by
  unfold flush; cases h : v.cur <;> simp
theorem flush_err (v : Srv) : (flush v).err = v.err := by
  unfold flush; cases h : v.cur <;> simp

/-- the contribution of one item to the sequential fold -/
def stepC (ex : String → Bool) (c : Core) (it : Item) : Core :=
  match verdict ex it with
  | .store g x => addOneC c (g, x)
  | _ => c

def insDelta (ex : String → Bool) (it : Item) : Nat :=
  match verdict ex it with | .store _ _ => 1 | _ => 0
def errDelta (ex : String → Bool) (it : Item) : Nat :=
  match verdict ex it with | .error => 1 | _ => 0

structure Sim (v v' : Srv) (it : Item) : Prop where
  settled : settled v' = stepC (hasGraph v.st) (settled v) it
  wf : WF v'
  graphs : ∀ g, hasGraph v'.st g = hasGraph v.st g
  ins : v'.ins = v.ins + insDelta (hasGraph v.st) it
  err : v'.err = v.err + errDelta (hasGraph v.st) it

theorem offer_sim (v : Srv) (it : Item) (hw : WF v) (hs : isSchema it.g = false)
    (hc : v.cur = some it.g) : Sim v (offer v it.uuid it.x) it := by
  have hg : hasGraph v.st it.g = true := hw _ hc
  cases hx : it.x with
  | none =>
    have hv : verdict (hasGraph v.st) it = .nothing := by simp [verdict, hs, hg, hx]
    simp only [offer]
    exact ⟨by simp [stepC, hv], hw, fun _ => rfl, by simp [insDelta, hv], by simp [errDelta, hv]⟩
  | some x =>
    simp only [offer]
    by_cases hval : elemValid (fillId it.uuid x) = true
    · have hv : verdict (hasGraph v.st) it = .store it.g (fillId it.uuid x) := by
        simp [verdict, hs, hg, hx, hval]
      simp only [hval, if_true]
      refine ⟨?_, ?_, fun _ => rfl, by simp [insDelta, hv], by simp [errDelta, hv]⟩
      · rw [settled_eq, settled_eq]
        simp only [hc, stepC, hv, addOneC]
        rw [addC_append]
      · intro g h; exact hw g h
    · have hv : verdict (hasGraph v.st) it = .error := by
        simp [verdict, hs, hg, hx, hval]
      simp only [hval, if_false]
      refine ⟨?_, ?_, fun _ => rfl, by simp [insDelta, hv], by simp [errDelta, hv]⟩
      · rw [settled_eq, settled_eq]; simp [stepC, hv]
      · intro g h; exact hw g h

theorem recv_sim (v : Srv) (it : Item) (hw : WF v) (hp : v.cur = none → v.pend = []) :
    Sim v (recv v it) it ∧ ((recv v it).cur = none → (recv v it).pend = []) := by
  unfold recv
  by_cases hs : isSchema it.g = true
  · have hv : verdict (hasGraph v.st) it = .error := by simp [verdict, hs]
    simp only [hs, if_true]
    refine ⟨⟨?_, hw, fun _ => rfl, by simp [insDelta, hv], by simp [errDelta, hv]⟩, hp⟩
    rw [settled_eq, settled_eq]; simp [stepC, hv]
  · have hs' : isSchema it.g = false := by simpa using hs
    simp only [hs', Bool.false_eq_true, if_false]
    by_cases hc : v.cur = some it.g
    · -- the element addresses the selected graph
      have hsel : select v it.g = v := by simp [select, hc]
      rw [hsel]; simp only [hc, if_true]
      refine ⟨offer_sim v it hw hs' hc, ?_⟩
      intro h
      cases hx : it.x with
      | none => simp [offer, hx, hc] at h
      | some x => simp only [offer, hx] at h; split at h <;> simp [hc] at h
    · -- switch: close the open stream, resolve the graph
      have hfc : (flush v).cur = none := flush_cur v
      have hfp : (flush v).pend = [] := flush_pend v hp
      have hsf : settled (flush v) = settled v := by
        rw [settled_eq (flush v), hfc]; rfl
      by_cases hg : hasGraph (flush v).st it.g = true
      · -- resolved: open a stream and offer the element
        have hsel : select v it.g = { flush v with cur := some it.g } := by simp [select, hc, hg]
        rw [hsel]; simp only [if_true]
        let v2 : Srv := { flush v with cur := some it.g }
        have hw2 : WF v2 := by intro g h; simp [v2] at h; subst h; exact hg
        have hsim := offer_sim v2 it hw2 hs' rfl
        have hs2 : settled v2 = settled v := by
          rw [settled_eq v2]; simp only [v2, hfp]; rw [addC_nil, ← hsf, settled_eq (flush v), hfc]
        have hgr : ∀ g, hasGraph v2.st g = hasGraph v.st g := fun g => hasGraph_flush v g
        have hex : hasGraph v2.st = hasGraph v.st := funext hgr
        refine ⟨⟨?_, hsim.wf, ?_, ?_, ?_⟩, ?_⟩
        · rw [hsim.settled, hs2, hex]
        · intro g; rw [hsim.graphs, hgr]
        · rw [hsim.ins, hex]; simp [v2, flush_ins]
        · rw [hsim.err, hex]; simp [v2, flush_err]
        · intro h
          cases hx : it.x with
          | none => simp [offer, hx] at h
          | some x => simp only [offer, hx] at h; split at h <;> simp at h
      · -- the graph cannot be resolved: one error, no stream open
        have hg' : hasGraph v.st it.g = false := by rw [← hasGraph_flush]; simpa using hg
        have hsel : select v it.g = flush v := by simp [select, hc, hg]
        have hv : verdict (hasGraph v.st) it = .error := by simp [verdict, hs', hg']
        rw [hsel]
        have hne : ¬ (flush v).cur = some it.g := by rw [hfc]; simp
        simp only [hne, if_false]
        refine ⟨⟨?_, ?_, ?_, ?_, ?_⟩, ?_⟩
        · have : settled { flush v with err := (flush v).err + 1 } = settled (flush v) := by
            rw [settled_eq, settled_eq]
          rw [this, hsf]; simp [stepC, hv]
        · intro g h; simp [hfc] at h
        · intro g; exact hasGraph_flush v g
        · simp [insDelta, hv, flush_ins]
        · simp [errDelta, hv, flush_err]
        · intro _; exact hfp

/-- The loop invariant, for every stream. -/
theorem foldl_recv_sim (items : List Item) :
    ∀ v : Srv, WF v → (v.cur = none → v.pend = []) →
      let v' := items.foldl recv v
      settled v' = items.foldl (stepC (hasGraph v.st)) (settled v) ∧
      WF v' ∧ (∀ g, hasGraph v'.st g = hasGraph v.st g) ∧
      v'.ins = v.ins + (items.map (insDelta (hasGraph v.st))).sum ∧
      v'.err = v.err + (items.map (errDelta (hasGraph v.st))).sum := by
  induction items with
  | nil => intro v hw _; simp [hw]
  | cons it items ih =>
    intro v hw hp
    obtain ⟨hsim, hp'⟩ := recv_sim v it hw hp
    have hex : hasGraph (recv v it).st = hasGraph v.st := funext hsim.graphs
    obtain ⟨h1, h2, h3, h4, h5⟩ := ih (recv v it) hsim.wf hp'
    simp only [List.foldl_cons, List.map_cons, List.sum_cons]
    refine ⟨?_, h2, ?_, ?_, ?_⟩
    · rw [h1, hsim.settled, hex]
    · intro g; rw [h3, hsim.graphs]
    · rw [h4, hsim.ins, hex]; omega
    · rw [h5, hsim.err, hex]; omega

theorem foldl_stepC (ex : String → Bool) (items : List Item) :
    ∀ c : Core, items.foldl (stepC ex) c = (accepted ex items).foldl addOneC c := by
  induction items with
  | nil => intro c; rfl
  | cons it items ih =>
    intro c
    simp only [List.foldl_cons, accepted, List.filterMap_cons]
    cases hv : verdict ex it with
    | store g x => simp only [stepC, hv, List.foldl_cons]; exact ih _
    | error => simp only [stepC, hv]; exact ih _
    | nothing => simp only [stepC, hv]; exact ih _

theorem sum_insDelta (ex : String → Bool) (items : List Item) :
    (items.map (insDelta ex)).sum = (accepted ex items).length := by
  induction items with
  | nil => rfl
  | cons it items ih =>
    simp only [List.map_cons, List.sum_cons, accepted, List.filterMap_cons] at *
    cases hv : verdict ex it <;> simp [insDelta, hv, ih] <;> omega

theorem sum_errDelta (ex : String → Bool) (items : List Item) :
    (items.map (errDelta ex)).sum = errors ex items := by
  induction items with
  | nil => rfl
  | cons it items ih =>
    simp only [List.map_cons, List.sum_cons, errors, List.countP_cons] at *
    cases hv : verdict ex it <;> simp [errDelta, hv, ih] <;> omega

end Grip.Props.C18.Lemmas
