import Grip.Model.C12Multi
import GripProofs.Lemmas.C12Cons

/-! Conservation for a mark fed by several jumps: no traveler lost or duplicated by any
    interleaving; the per-traveler unrolling of a depth-bounded multi-jump cycle. -/
set_option linter.unusedSimpArgs false
namespace Grip.Props.C12.Multi.Lemmas
open Grip.C12 (Msg Phase)
open Grip.C12.Multi
open Grip.Props.C12.Lemmas (flatMap_congr' perm_move drop_of_getElem?)

variable {T : Type}

/-- Rows a traveler that still has the main-line stages `rest` before it will produce, when a
    traveler re-entering the mark produces `R`.  Past the last stage the traveler is a row. -/
def futM (R : T → List T) : List (MStage T) → T → List T
  | [], t => [t]
  | .body f :: rest, t => (f t).flatMap (futM R rest)
  | .jump c e :: rest, t => (if c t then R t else []) ++ (if e then futM R rest t else [])

/-- Travelers that come back to the mark (through any of the jumps) from one traveler. -/
def thruM : List (MStage T) → T → List T
  | [], _ => []
  | .body f :: rest, t => (f t).flatMap (thruM rest)
  | .jump c e :: rest, t => (if c t then [t] else []) ++ (if e then thruM rest t else [])

def unrollM (sys : List (MStage T)) : Nat → T → List T
  | 0, _ => []
  | n + 1, t => futM (unrollM sys n) sys t

/-- Every traveler that comes back to the mark, through whichever jump, has a smaller measure. -/
def BoundedM (sys : List (MStage T)) (μ : T → Nat) : Prop :=
  ∀ t t', t' ∈ thruM sys t → μ t' < μ t

theorem futM_congr {R R' : T → List T} : ∀ (sys : List (MStage T)) (t : T),
    (∀ t' ∈ thruM sys t, R t' = R' t') → futM R sys t = futM R' sys t
  | [], t, _ => rfl
  | .body f :: rest, t, h => by
    simp only [futM]
    apply flatMap_congr'
    intro u hu
    apply futM_congr rest u
    intro t' ht'
    apply h
    simp only [thruM, List.mem_flatMap]
    exact ⟨u, hu, ht'⟩
  | .jump c e :: rest, t, h => by
    simp only [futM]
    congr 1
    · cases hc : c t with
      | false => simp
      | true => simpa using h t (by simp [thruM, hc])
    · cases e with
      | false => rfl
      | true =>
        simp only [if_true]
        apply futM_congr rest t
        intro t' ht'
        apply h
        simp [thruM, ht']

theorem unrollM_indep {sys : List (MStage T)} {μ : T → Nat} (hb : BoundedM sys μ) :
    ∀ (n m : Nat) (t : T), μ t < n → μ t < m → unrollM sys n t = unrollM sys m t := by
  intro n
  induction n with
  | zero => intro m t h; omega
  | succ n ih =>
    intro m t hn hm
    cases m with
    | zero => omega
    | succ m =>
      simp only [unrollM]
      apply futM_congr
      intro t' ht'
      have := hb t t' ht'
      exact ih m t' (by omega) (by omega)

/-- The rows one traveler entering the mark contributes. -/
def RofM (sys : List (MStage T)) (μ : T → Nat) (t : T) : List T := unrollM sys (μ t + 1) t

theorem RofM_eq {sys : List (MStage T)} {μ : T → Nat} (hb : BoundedM sys μ) (t : T) :
    RofM sys μ t = futM (RofM sys μ) sys t := by
  show unrollM sys (μ t + 1) t = futM (RofM sys μ) sys t
  have e : unrollM sys (μ t + 1) t = futM (unrollM sys (μ t)) sys t := rfl
  rw [e]
  apply futM_congr
  intro t' ht'
  have := hb t t' ht'
  show unrollM sys (μ t) t' = unrollM sys (μ t' + 1) t'
  exact unrollM_indep hb _ _ t' this (by omega)

theorem RofM_eq_unrollM {sys : List (MStage T)} {μ : T → Nat} (hb : BoundedM sys μ) (N : Nat) (t : T)
    (h : μ t < N) : RofM sys μ t = unrollM sys N t :=
  unrollM_indep hb _ _ t (by omega) h

/-! ### conservation -/

def potMsgM (R : T → List T) (sys : List (MStage T)) : Chan × Msg T → List T
  | (.main i, .trav t) => futM R (sys.drop i) t
  | (.side _ _, .trav t) => R t
  | (_, .sig _) => []

def potM (R : T → List T) (sys : List (MStage T)) (W : List (Chan × Msg T)) : List T :=
  W.flatMap (potMsgM R sys)

/-- emitted ⊎ future of the unread input ⊎ future of the cycle. -/
def totalM (R : T → List T) (sys : List (MStage T)) (s : State T) : List T :=
  s.emitted ++ s.inp.flatMap R ++ potM R sys s.W

theorem potM_append (R : T → List T) (sys : List (MStage T)) (A B : List (Chan × Msg T)) :
    potM R sys (A ++ B) = potM R sys A ++ potM R sys B := by
  simp [potM]

theorem potM_cons (R : T → List T) (sys : List (MStage T)) (x : Chan × Msg T)
    (B : List (Chan × Msg T)) : potM R sys (x :: B) = potMsgM R sys x ++ potM R sys B := by
  simp [potM]

theorem potM_nil (R : T → List T) (sys : List (MStage T)) :
    potM R sys ([] : List (Chan × Msg T)) = [] := rfl

/-- What a stage sends to main position `j`: downstream rows, or futures on the main line. -/
theorem out_split (R : T → List T) (sys : List (MStage T)) (j : Nat) (ts : List T) :
    outDown sys.length j ts ++ potM R sys (outMain sys.length j ts)
      = ts.flatMap (futM R (sys.drop j)) := by
  unfold outDown outMain
  by_cases h : j < sys.length
  · simp only [h, if_true, List.nil_append]
    induction ts with
    | nil => rfl
    | cons a r ih =>
      rw [List.map_cons, potM_cons, ih]
      simp [potMsgM]
  · simp only [h, if_false, potM_nil, List.append_nil]
    rw [List.drop_eq_nil_of_le (by omega)]
    induction ts with
    | nil => rfl
    | cons a r ih => simp [futM, ← ih]

theorem sigMain_pot (R : T → List T) (sys : List (MStage T)) (j k : Nat) :
    potM R sys (sigMain sys.length j k) = [] := by
  unfold sigMain
  split <;> simp [potM, potMsgM]

theorem totalM_markDecide (R : T → List T) (sys : List (MStage T)) (nI : Nat) (s : State T) :
    totalM R sys (markDecide nI s) = totalM R sys s := by
  unfold markDecide
  split
  · simp [totalM, potM, potMsgM]
  · split <;> simp [totalM]

/-- in-place replacement: the replaced message's future = downstream rows ⊎ the outputs' futures. -/
theorem totalM_replace {R : T → List T} {sys : List (MStage T)} {s s' : State T}
    {A B ys : List (Chan × Msg T)} {x : Chan × Msg T} {D : List T}
    (hW : s.W = A ++ x :: B) (hW' : s'.W = A ++ ys ++ B) (he : s'.emitted = s.emitted ++ D)
    (hi : s'.inp = s.inp) (hx : (D ++ potM R sys ys).Perm (potMsgM R sys x)) :
    (totalM R sys s').Perm (totalM R sys s) := by
  simp only [totalM, hW, hW', he, hi, potM_append, potM_cons]
  have h1 := perm_move s.emitted D (s.inp.flatMap R) (potM R sys A) (potM R sys ys) (potM R sys B)
  refine h1.trans ?_
  apply List.Perm.append_left
  rw [List.append_assoc]
  apply List.Perm.append_left
  exact List.Perm.append_right _ hx

/-- the mark moves a message from a queue output to `main 0`. -/
theorem totalM_move {R : T → List T} {sys : List (MStage T)} (hR : ∀ t, R t = futM R sys t)
    {s s' : State T} {A B : List (Chan × Msg T)} {j q : Nat} {m : Msg T}
    (hW : s.W = A ++ (Chan.side j q, m) :: B) (hW' : s'.W = A ++ B ++ [(Chan.main 0, m)])
    (he : s'.emitted = s.emitted) (hi : s'.inp = s.inp) :
    (totalM R sys s').Perm (totalM R sys s) := by
  have e : potMsgM R sys (Chan.main 0, m) = potMsgM R sys (Chan.side j q, m) := by
    cases m with
    | trav t => simp [potMsgM, ← hR t]
    | sig k => rfl
  simp only [totalM, hW, hW', he, hi, potM_append, potM_cons, potM_nil, List.append_nil, e]
  apply List.Perm.append_left
  rw [List.append_assoc]
  apply List.Perm.append_left
  exact List.perm_append_comm

theorem totalM_step {R : T → List T} {sys : List (MStage T)} (hR : ∀ t, R t = futM R sys t)
    {l : Label} {s s' : State T} (hs : Step sys l s s') :
    (totalM R sys s').Perm (totalM R sys s) := by
  cases hs with
  | @bodyTrav _ A B i t f hW hA hst =>
    refine totalM_replace hW rfl rfl rfl ?_
    rw [out_split]
    simp [potMsgM, drop_of_getElem? hst, futM]
  | @jumpTrav _ A B i t c e hW hA hst =>
    refine totalM_replace hW rfl rfl rfl ?_
    rw [potM_append]
    have e1 : potM R sys (if c t then [(Chan.side i 0, Msg.trav t)] else [])
        = (if c t then R t else []) := by
      cases c t <;> simp [potM, potMsgM]
    have e2 : potMsgM R sys (Chan.main i, Msg.trav t)
        = (if c t then R t else []) ++ (if e then [t] else []).flatMap (futM R (sys.drop (i + 1))) := by
      cases e <;> simp [potMsgM, drop_of_getElem? hst, futM]
    rw [e1, e2, ← out_split R sys (i + 1)]
    generalize outDown sys.length (i + 1) (if e then [t] else []) = D
    generalize potM R sys (outMain sys.length (i + 1) (if e then [t] else [])) = P
    generalize (if c t then R t else []) = Q
    rw [← List.append_assoc, ← List.append_assoc]
    exact List.Perm.append_right _ List.perm_append_comm
  | @bodySig _ A B i k f hW hA hst =>
    refine totalM_replace (D := []) hW rfl (by simp) rfl ?_
    simp [sigMain_pot, potMsgM]
  | @jumpSig _ A B i k c e hW hA hst =>
    refine totalM_replace (D := []) hW rfl (by simp) rfl ?_
    simp [potM_cons, sigMain_pot, potMsgM]
  | @queue _ A B j k m hW hA hk =>
    refine totalM_replace (D := []) hW rfl (by simp) rfl ?_
    cases m <;> simp [potM, potMsgM]
  | @openRecv _ A B m hp hj hW hA => exact totalM_move hR hW rfl rfl rfl
  | openSkip hp hlt hc => exact List.Perm.refl _
  | @openIn _ t r hp hsc hjf hI =>
    have e2 : potM R sys (s.W ++ [(Chan.main 0, Msg.trav t)]) = potM R sys s.W ++ R t := by
      simp [potM, potMsgM, ← hR t]
    simp only [totalM, hI, e2, List.flatMap_cons]
    have h : (R t ++ (r.flatMap R ++ potM R sys s.W)).Perm ((r.flatMap R ++ potM R sys s.W) ++ R t) :=
      List.perm_append_comm
    have h2 := List.Perm.append_left s.emitted h
    simpa [List.append_assoc] using h2.symm
  | openClose hp hsc hjf hI => exact List.Perm.refl _
  | openNext hp hsc hjf => exact List.Perm.refl _
  | @closeTrav _ A B t hp hj hW hA => exact totalM_move hR hW rfl rfl rfl
  | @closeSig _ A B k hp hj hW hA =>
    refine totalM_replace (ys := []) (D := []) hW (by simp) (by simp) rfl ?_
    simp [potM, potMsgM]
  | closeSkip hp hlt hc => exact List.Perm.refl _
  | closeNext hp hsc hjf => exact List.Perm.refl _
  | closeDecide hp hsc hjf =>
    rw [totalM_markDecide]
    exact List.Perm.refl _

theorem totalM_reachable {R : T → List T} {sys : List (MStage T)} (hR : ∀ t, R t = futM R sys t)
    {inp0 : List T} {s : State T} (h : Reachable sys inp0 s) :
    (totalM R sys s).Perm (inp0.flatMap R) := by
  induction h with
  | init => simp [totalM, init, potM]
  | step _ hs ih => exact (totalM_step hR hs).trans ih

end Grip.Props.C12.Multi.Lemmas
