/-
  Lemmas for C13: the (unbounded-channel) models never get stuck before the output is closed.
-/
import Grip.Model.C13
import GripProofs.Lemmas.C13
import GripProofs.Lemmas.C13Tagged

namespace Grip.Props.C13.Lemmas
open Grip.C13

theorem rr_progress {α β : Type} (c : RRCfg) (f : α → β) (s : RR α β) (h : s.outClosed = false) :
    ∃ a, (rrAct c f a s).isSome = true := by
  cases hi : s.inp with
  | cons x rest => exact ⟨.dist, by simp [rrAct, hi]⟩
  | nil =>
    by_cases hd : s.dClosed < c.n
    · exact ⟨.dclose, by simp [rrAct, hi, hd]⟩
    · by_cases hm : s.mi < c.n
      · cases hf : s.fromW s.mi with
        | cons y r => exact ⟨.mrecv, by simp [rrAct, h, hm, hf]⟩
        | nil =>
          cases hh : s.hold s.mi with
          | some y => exact ⟨.send s.mi, by simp [rrAct, hh]⟩
          | none =>
            cases ht : s.toW s.mi with
            | cons x r => exact ⟨.take s.mi, by simp [rrAct, ht, hh]⟩
            | nil =>
              cases hw : s.wClosed s.mi with
              | true => exact ⟨.mskip, by simp [rrAct, h, hm, hw, hf]⟩
              | false => exact ⟨.wclose s.mi, by simp [rrAct, ht, hh, hw]; omega⟩
      · cases hfd : s.found with
        | true => exact ⟨.mround, by simp [rrAct, h, hfd]; omega⟩
        | false => exact ⟨.mfin, by simp [rrAct, h, hfd]; omega⟩

theorem dual_progress {ρ δ : Type} (isSig : ρ → Bool) (loader : ρ → List δ) (des : ρ → δ → ρ)
    (s : Dual ρ δ) (h : s.outClosed = false) : ∃ a, (dualAct isSig loader des a s).isSome = true := by
  cases hd : s.data with
  | cons d rest => exact ⟨.s2, by simp [dualAct, hd, h]⟩
  | nil =>
    cases hc : s.cur with
    | some p =>
      obtain ⟨r, ds⟩ := p
      cases ds with
      | nil => exact ⟨.s1next, by simp [dualAct, hc]⟩
      | cons d ds' => exact ⟨.s1emit, by simp [dualAct, hc]⟩
    | none =>
      cases hi : s.inp with
      | cons r rest =>
        refine ⟨.s1recv, ?_⟩
        simp only [dualAct, hc, hi]
        split <;> simp
      | nil =>
        cases h1 : s.s1done with
        | false => exact ⟨.s1close, by simp [dualAct, hc, hi, h1]⟩
        | true => exact ⟨.s2close, by simp [dualAct, hd, h1, h]⟩

theorem q_progress {α : Type} (c : QCfg) (hc : c.popsHead = true) (xs : List α) (s : Q α)
    (hr : Reach (qAct c) (qInit xs) s) (h : s.outClosed = false) : ∃ a, (qAct c a s).isSome = true := by
  have hi := q_inv c hc xs s hr
  cases hh : s.hold with
  | some v => exact ⟨.push, by simp [qAct, hh]⟩
  | none =>
    cases hrun : s.running with
    | false => exact ⟨.fin, by simp [qAct, hrun, hh, h]⟩
    | true =>
      cases hq : s.queue with
      | cons v rest => exact ⟨.pop, by simp [qAct, hrun, hh, hc, hq]⟩
      | nil =>
        cases hcl : s.closed with
        | true => exact ⟨.stop, by simp [qAct, hq, hrun, hh, hcl]⟩
        | false =>
          cases hch : s.chIn with
          | cons x rest => exact ⟨.inRecv, by simp [qAct, hch]⟩
          | nil =>
            cases hin : s.inp with
            | cons x rest => exact ⟨.send, by simp [qAct, hin]⟩
            | nil =>
              cases hic : s.inClosed with
              | false => exact ⟨.closeIn, by simp [qAct, hin, hic]⟩
              | true => exact ⟨.inDone, by simp [qAct, hch, hic, hcl]⟩

theorem mux_progress {α β : Type} (c : MuxCfg) (hc : c.idxIsOrder = true) (g : Nat → α → β)
    (all : List (Nat × α)) (s : Mux α β) (hr : Reach (muxAct c g) (muxInit all) s)
    (h : s.outClosed = false) : ∃ a, (muxAct c g a s).isSome = true := by
  obtain ⟨issued, pend, hi⟩ := mux_inv c hc g all s hr
  cases hh : s.half with
  | some j => exact ⟨.putOrd, by simp [muxAct, hh]⟩
  | none =>
    cases hp : s.puts with
    | cons p rest => obtain ⟨j, v⟩ := p; exact ⟨.putIn, by simp [muxAct, hp, hh]⟩
    | nil =>
      cases hcc : s.closeCalled with
      | false => exact ⟨.close, by simp [muxAct, hp, hh, hcc]⟩
      | true =>
        cases ho : s.order with
        | nil => exact ⟨.fin, by simp [muxAct, ho, h, hcc]⟩
        | cons k rest =>
          cases hq : s.outQ k with
          | cons y r => exact ⟨.recv, by simp [muxAct, h, ho, hc, hq]⟩
          | nil =>
            cases hiq : s.inQ k with
            | cons x r => exact ⟨.pipe k, by simp [muxAct, hiq]⟩
            | nil =>
              exfalso
              have hord := hi.ord
              have hprj := hi.prj k
              cases pend with
              | nil => simp [ho] at hord
              | cons p pend' =>
                obtain ⟨t, y⟩ := p
                simp only [ho, List.cons_append, List.map_cons, List.cons.injEq] at hord
                rw [← hord.1, proj_cons_same, hq, hiq] at hprj
                simp at hprj

end Grip.Props.C13.Lemmas
