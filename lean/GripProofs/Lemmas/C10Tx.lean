/-
  Lemmas.C10Tx — the transaction run with an iterator policy (`Grip.Model.C10Tx`): how the state
  evolves under each policy, when the two policies give the same observations, and the map facts
  the statements of Props.C10Tx need (extensionality of sorted maps, point reads after a list of
  writes, point read = seek).
-/
import Grip.Model.SMap
import Grip.Model.C10
import Grip.Model.C10Tx
import GripProofs.Lemmas.C10Order
import GripProofs.Lemmas.C10Map
import GripProofs.Lemmas.C10Iter

namespace Grip.Props.C10.Lemmas
open Grip Grip.Bytes Grip.SMap Grip.C10

/-! ### Writes of a step list -/

theorem writesOf_cons_view (a : List ItStep) (r : List TxStep) :
    writesOf (.view a :: r) = writesOf r := rfl

theorem writesOf_append : ∀ (a b : List TxStep), writesOf (a ++ b) = writesOf a ++ writesOf b
  | [], _ => rfl
  | s :: a, b => by
    cases s <;> simp [writesOf, writesOf_append a b]

theorem writes_append (t : Tx) (a b : List Write) :
    Tx.writes t (a ++ b) = Tx.writes (Tx.writes t a) b := by
  simp [Tx.writes, List.foldl_append]

theorem txStep_tx (t : Tx) (s : TxStep) : (txStep t s).1 = Tx.writes t (writesOf [s]) := by
  cases s <;> rfl

theorem txStep_view (t : Tx) (a : List ItStep) : (txStep t (.view a)).1 = t := rfl

theorem writes_cons_step (t : Tx) (s : TxStep) (r : List TxStep) :
    Tx.writes t (writesOf (s :: r)) = Tx.writes (txStep t s).1 (writesOf r) := by
  cases s <;> rfl

theorem txSteps_tx : ∀ (steps : List TxStep) (t : Tx),
    (txSteps t steps).1 = Tx.writes t (writesOf steps)
  | [], _ => rfl
  | s :: rest, t => by
    rw [writes_cons_step, ← txSteps_tx rest]
    rfl

theorem contentsAfter_nil (t : Tx) : contentsAfter t [] = t.view := rfl

theorem contentsAfter_cons (t : Tx) (s : TxStep) (r : List TxStep) :
    contentsAfter t (s :: r) = contentsAfter (txStep t s).1 r := by
  unfold contentsAfter
  rw [writes_cons_step]

theorem contentsAfter_eq_applyWrites (t : Tx) (ss : List TxStep) :
    contentsAfter t ss = applyWrites t.commit (writesOf ss) :=
  commit_writes (writesOf ss) t

theorem contentsAfter_append (t : Tx) (a b : List TxStep) :
    contentsAfter t (a ++ b) = applyWrites (contentsAfter t a) (writesOf b) := by
  unfold contentsAfter
  rw [writesOf_append, writes_append, commit_writes]

theorem commit_base (m : List KV) : Tx.commit { base := m } = m := rfl

theorem contentsAfter_sorted {t : Tx} (hs : Sorted t.base) (ss : List TxStep) :
    Sorted (contentsAfter t ss) := by
  rw [contentsAfter_eq_applyWrites]
  exact applyWrites_sorted _ (flush_sorted t.pend hs)

/-! ### One step under a policy -/

theorem viewMap_fresh (st : TxState) : viewMap .fresh st = st.tx.view := by
  cases st with
  | mk tx snap => cases snap <;> rfl

theorem viewMap_shared_none (t : Tx) :
    viewMap .sharedSnapshot { tx := t, snap := none } = t.view := rfl

theorem viewMap_shared_some (t : Tx) (S : List KV) :
    viewMap .sharedSnapshot { tx := t, snap := some S } = S := rfl

theorem txStepP_tx (pol : IterPolicy) (st : TxState) (s : TxStep) :
    (txStepP pol st s).1.tx = (txStep st.tx s).1 := by
  cases s <;> rfl

theorem txStepP_nonview (pol : IterPolicy) (st : TxState) {s : TxStep} (h : isView s = false) :
    txStepP pol st s = ({ tx := (txStep st.tx s).1, snap := st.snap }, (txStep st.tx s).2) := by
  cases s <;> first | rfl | (simp [isView] at h)

theorem txStepP_fresh (st : TxState) (s : TxStep) :
    txStepP .fresh st s = ({ tx := (txStep st.tx s).1, snap := st.snap }, (txStep st.tx s).2) := by
  cases s with
  | view a => simp only [txStepP, txStep, viewMap_fresh, snapAfter]
  | _ => rfl

/-! ### Runs -/

theorem txStepsPS_append (pol : IterPolicy) : ∀ (xs : List TxStep) (st : TxState) (ys : List TxStep),
    txStepsPS pol st (xs ++ ys) =
      ((txStepsPS pol (txStepsPS pol st xs).1 ys).1,
       (txStepsPS pol st xs).2 ++ (txStepsPS pol (txStepsPS pol st xs).1 ys).2)
  | [], _, _ => rfl
  | x :: xs, st, ys => by
    simp only [List.cons_append, txStepsPS, txStepsPS_append pol xs]

theorem txStepsPS_tx (pol : IterPolicy) : ∀ (ss : List TxStep) (st : TxState),
    (txStepsPS pol st ss).1.tx = Tx.writes st.tx (writesOf ss)
  | [], _ => rfl
  | s :: rest, st => by
    simp only [txStepsPS]
    rw [txStepsPS_tx pol rest, txStepP_tx, writes_cons_step]

/-- Under `fresh` the run is the model's `txSteps`; the snapshot slot is never filled. -/
theorem txStepsPS_fresh : ∀ (ss : List TxStep) (st : TxState),
    txStepsPS .fresh st ss = ({ tx := (txSteps st.tx ss).1, snap := st.snap }, (txSteps st.tx ss).2)
  | [], st => by cases st; rfl
  | s :: rest, st => by
    simp only [txStepsPS, txSteps, txStepP_fresh, txStepsPS_fresh rest]

/-- Steps without a `view` run the same under every policy and leave the snapshot slot alone. -/
theorem txStepsPS_noView (pol : IterPolicy) : ∀ (ss : List TxStep) (st : TxState), NoView ss →
    txStepsPS pol st ss = ({ tx := (txSteps st.tx ss).1, snap := st.snap }, (txSteps st.tx ss).2)
  | [], st, _ => by cases st; rfl
  | s :: rest, st, h => by
    have hs : isView s = false := h s (by simp)
    have hr : NoView rest := fun x hx => h x (List.mem_cons_of_mem _ hx)
    simp only [txStepsPS, txSteps, txStepP_nonview pol st hs, txStepsPS_noView pol rest _ hr]

/-- Once the shared iterator exists its contents stay. -/
theorem shared_snap_some : ∀ (ss : List TxStep) (t : Tx) (S : List KV),
    (txStepsPS .sharedSnapshot { tx := t, snap := some S } ss).1.snap = some S
  | [], _, _ => rfl
  | s :: rest, t, S => by
    cases s <;> exact shared_snap_some rest _ S

/-- The state of a `sharedSnapshot` run after its first view: the shared iterator holds the
    contents as they were when that view began. -/
theorem shared_state_after_first_view (t : Tx) (pre : List TxStep) (a : List ItStep)
    (mid : List TxStep) (hpre : NoView pre) :
    (txStepsPS .sharedSnapshot { tx := t } (pre ++ .view a :: mid)).1 =
      { tx := Tx.writes t (writesOf (pre ++ .view a :: mid)), snap := some (contentsAfter t pre) } := by
  have h1 := txStepsPS_tx .sharedSnapshot (pre ++ .view a :: mid) { tx := t }
  have h2 : (txStepsPS .sharedSnapshot { tx := t } (pre ++ .view a :: mid)).1.snap
      = some (contentsAfter t pre) := by
    rw [txStepsPS_append, txStepsPS_noView _ pre _ hpre]
    simp only [txStepsPS, txStepP, viewMap_shared_none, snapAfter]
    rw [shared_snap_some, txSteps_tx]
    rfl
  cases h : (txStepsPS .sharedSnapshot { tx := t } (pre ++ .view a :: mid)).1 with
  | mk tx snap =>
    rw [h] at h1 h2
    simp only at h1 h2
    rw [h1, h2]

/-! ### When a run with a filled snapshot slot agrees with the model -/

/-- No view of `ss`, run from `t`, can tell the map `S` from the contents at its own moment. -/
def StaleFree (S : List KV) : Tx → List TxStep → Prop
  | _, [] => True
  | t, s :: r =>
    (match s with
      | .view a => viewObs S a = viewObs t.view a
      | _ => True) ∧ StaleFree S (txStep t s).1 r

theorem shared_some_obs_eq_iff : ∀ (ss : List TxStep) (t : Tx) (S : List KV),
    (txStepsPS .sharedSnapshot { tx := t, snap := some S } ss).2 = (txSteps t ss).2 ↔ StaleFree S t ss
  | [], _, _ => by simp [txStepsPS, txSteps, StaleFree]
  | s :: rest, t, S => by
    cases s with
    | view a =>
      simp only [txStepsPS, txSteps, txStepP, txStep, viewMap_shared_some, snapAfter,
        List.cons.injEq, TxObs.view.injEq, StaleFree]
      rw [shared_some_obs_eq_iff rest t S]
    | set k v =>
      simp only [txStepsPS, txSteps, txStepP, txStep, List.cons.injEq, true_and, StaleFree]
      exact shared_some_obs_eq_iff rest _ S
    | del k =>
      simp only [txStepsPS, txSteps, txStepP, txStep, List.cons.injEq, true_and, StaleFree]
      exact shared_some_obs_eq_iff rest _ S
    | get k =>
      simp only [txStepsPS, txSteps, txStepP, txStep, List.cons.injEq, true_and, StaleFree]
      exact shared_some_obs_eq_iff rest _ S
    | has k =>
      simp only [txStepsPS, txSteps, txStepP, txStep, List.cons.injEq, true_and, StaleFree]
      exact shared_some_obs_eq_iff rest _ S

/-- `StaleFree`, said of positions: every view of `ss` observes on `S` what it observes on the
    contents at its own moment. -/
theorem staleFree_iff : ∀ (ss : List TxStep) (t : Tx) (S : List KV),
    StaleFree S t ss ↔
      ∀ mid b post, ss = mid ++ .view b :: post → viewObs S b = viewObs (contentsAfter t mid) b
  | [], _, _ => by
    simp only [StaleFree, true_iff]
    intro mid b post e
    cases mid <;> simp at e
  | s :: r, t, S => by
    simp only [StaleFree]
    rw [staleFree_iff r _ S]
    constructor
    · rintro ⟨h1, h2⟩ mid b post e
      cases mid with
      | nil =>
        simp only [List.nil_append, List.cons.injEq] at e
        obtain ⟨rfl, _⟩ := e
        exact h1
      | cons s' mid' =>
        simp only [List.cons_append, List.cons.injEq] at e
        obtain ⟨rfl, e⟩ := e
        rw [contentsAfter_cons]
        exact h2 mid' b post e
    · intro h
      refine ⟨?_, ?_⟩
      · cases s with
        | view a => exact h [] a r rfl
        | _ => trivial
      · intro mid b post e
        have := h (s :: mid) b post (by rw [e]; rfl)
        rwa [contentsAfter_cons] at this

/-- A run from an empty snapshot slot agrees with the model. -/
def AgreeRec : Tx → List TxStep → Prop
  | _, [] => True
  | t, s :: r =>
    match s with
    | .view _ => StaleFree t.view t r
    | _ => AgreeRec (txStep t s).1 r

theorem agreeRec_cons_nonview (t : Tx) {s : TxStep} (r : List TxStep) (h : isView s = false) :
    AgreeRec t (s :: r) = AgreeRec (txStep t s).1 r := by
  cases s <;> first | rfl | (simp [isView] at h)

theorem shared_none_obs_eq_iff : ∀ (ss : List TxStep) (t : Tx),
    (txStepsPS .sharedSnapshot { tx := t, snap := none } ss).2 = (txSteps t ss).2 ↔ AgreeRec t ss
  | [], _ => by simp [txStepsPS, txSteps, AgreeRec]
  | s :: rest, t => by
    cases s with
    | view a =>
      simp only [txStepsPS, txSteps, txStepP, txStep, viewMap_shared_none, snapAfter,
        List.cons.injEq, true_and, AgreeRec]
      exact shared_some_obs_eq_iff rest t t.view
    | set k v =>
      simp only [txStepsPS, txSteps, txStepP, txStep, List.cons.injEq, true_and, AgreeRec]
      exact shared_none_obs_eq_iff rest _
    | del k =>
      simp only [txStepsPS, txSteps, txStepP, txStep, List.cons.injEq, true_and, AgreeRec]
      exact shared_none_obs_eq_iff rest _
    | get k =>
      simp only [txStepsPS, txSteps, txStepP, txStep, List.cons.injEq, true_and, AgreeRec]
      exact shared_none_obs_eq_iff rest _
    | has k =>
      simp only [txStepsPS, txSteps, txStepP, txStep, List.cons.injEq, true_and, AgreeRec]
      exact shared_none_obs_eq_iff rest _

/-- `AgreeRec`, said of positions: every view after the first observes on the contents at the
    first view what it observes on the contents at its own moment. -/
theorem agreeRec_iff : ∀ (ss : List TxStep) (t : Tx),
    AgreeRec t ss ↔
      ∀ pre a mid b post, ss = pre ++ .view a :: (mid ++ .view b :: post) → NoView pre →
        viewObs (contentsAfter t pre) b = viewObs (contentsAfter t (pre ++ .view a :: mid)) b
  | [], _ => by
    simp only [AgreeRec, true_iff]
    intro pre a mid b post e
    cases pre <;> simp at e
  | s :: r, t => by
    by_cases hv : isView s = true
    · obtain ⟨a0, rfl⟩ : ∃ a0, s = .view a0 := by
        cases s <;> first | exact ⟨_, rfl⟩ | (simp [isView] at hv)
      show StaleFree t.view t r ↔ _
      rw [staleFree_iff]
      constructor
      · intro h pre a mid b post e hpre
        cases pre with
        | nil =>
          simp only [List.nil_append, List.cons.injEq] at e
          obtain ⟨_, e⟩ := e
          have := h mid b post e
          simpa [contentsAfter_nil, contentsAfter_cons, txStep_view] using this
        | cons s' pre' =>
          simp only [List.cons_append, List.cons.injEq] at e
          have := hpre s' (by simp)
          rw [← e.1] at this
          simp [isView] at this
      · intro h mid b post e
        have := h [] a0 mid b post (by rw [e]; rfl) (by intro x hx; cases hx)
        simpa [contentsAfter_nil, contentsAfter_cons, txStep_view] using this
    · have hv : isView s = false := by simpa using hv
      rw [agreeRec_cons_nonview t r hv, agreeRec_iff r]
      constructor
      · intro h pre a mid b post e hpre
        cases pre with
        | nil =>
          simp only [List.nil_append, List.cons.injEq] at e
          rw [e.1] at hv
          simp [isView] at hv
        | cons s' pre' =>
          simp only [List.cons_append, List.cons.injEq] at e
          obtain ⟨rfl, e⟩ := e
          have := h pre' a mid b post e (fun x hx => hpre x (List.mem_cons_of_mem _ hx))
          rw [List.cons_append, contentsAfter_cons, contentsAfter_cons]
          exact this
      · intro h pre a mid b post e hpre
        have := h (s :: pre) a mid b post (by rw [e]; rfl)
          (by
            intro x hx
            rcases List.mem_cons.mp hx with rfl | hx
            · exact hv
            · exact hpre x hx)
        rw [List.cons_append, contentsAfter_cons, contentsAfter_cons] at this
        exact this

/-! ### Sorted maps are determined by their point reads -/

theorem sorted_head_lt {x : KV} {r : List KV} (hs : Sorted (x :: r)) :
    ∀ y ∈ r, blt x.1 y.1 = true := by
  unfold Sorted at hs
  exact (List.pairwise_cons.mp hs).1

theorem sorted_tail {x : KV} {r : List KV} (hs : Sorted (x :: r)) : Sorted r := by
  unfold Sorted at hs ⊢
  exact (List.pairwise_cons.mp hs).2

/-- Two sorted lists with the same entries are the same list. -/
theorem sorted_ext : ∀ {a b : List KV}, Sorted a → Sorted b → (∀ x, x ∈ a ↔ x ∈ b) → a = b
  | [], [], _, _, _ => rfl
  | [], y :: _, _, _, h => by have := (h y).mpr (by simp); simp at this
  | x :: _, [], _, _, h => by have := (h x).mp (by simp); simp at this
  | x :: as, y :: bs, ha, hb, h => by
    have hxa := sorted_head_lt ha
    have hyb := sorted_head_lt hb
    have hxy : x = y := by
      rcases List.mem_cons.mp ((h x).mp (by simp)) with e | hx
      · exact e
      · rcases List.mem_cons.mp ((h y).mpr (by simp)) with e | hy
        · exact e.symm
        · have h1 := hyb x hx
          have h2 := hxa y hy
          rw [blt_asymm h1] at h2
          cases h2
    subst hxy
    have hxx : ∀ {l : List KV}, (∀ z ∈ l, blt x.1 z.1 = true) → x ∉ l := by
      intro l hl hx
      have := hl x hx
      rw [blt_irrefl] at this
      cases this
    have : as = bs := by
      apply sorted_ext (sorted_tail ha) (sorted_tail hb)
      intro z
      constructor
      · intro hz
        rcases List.mem_cons.mp ((h z).mp (List.mem_cons_of_mem _ hz)) with e | hz'
        · subst e; exact absurd hz (hxx hxa)
        · exact hz'
      · intro hz
        rcases List.mem_cons.mp ((h z).mpr (List.mem_cons_of_mem _ hz)) with e | hz'
        · subst e; exact absurd hz (hxx hyb)
        · exact hz'
    rw [this]

/-- The entries of two sorted maps under a set of keys coincide exactly when the point reads of
    those keys coincide. -/
theorem filter_key_eq_iff (g : Bytes → Bool) {S M : List KV} (hS : Sorted S) (hM : Sorted M) :
    S.filter (fun kv => g kv.1) = M.filter (fun kv => g kv.1) ↔
      ∀ k, g k = true → SMap.get S k = SMap.get M k := by
  constructor
  · intro h k hk
    have h1 := get_filter_key g S k
    have h2 := get_filter_key g M k
    rw [hk] at h1 h2
    simp only [if_true] at h1 h2
    rw [← h1, ← h2, h]
  · intro h
    apply sorted_ext (filter_sorted _ hS) (filter_sorted _ hM)
    rintro ⟨k, v⟩
    simp only [List.mem_filter]
    constructor
    · rintro ⟨hm, hg⟩
      refine ⟨?_, hg⟩
      apply mem_of_get_eq_some
      rw [← h k hg]
      exact get_eq_some_of_mem hS hm
    · rintro ⟨hm, hg⟩
      refine ⟨?_, hg⟩
      apply mem_of_get_eq_some
      rw [h k hg]
      exact get_eq_some_of_mem hM hm

/-! ### Point reads after a list of writes -/

theorem get_applyWrite (S : List KV) (w : Write) (k : Bytes) :
    SMap.get (applyWrite S w) k = if wkey w = k then wval w else SMap.get S k := by
  cases w with
  | set k' v =>
    simp only [applyWrite, wkey, wval]
    by_cases h : k' = k
    · subst h; simp [get_set_eq]
    · simp only [h, if_false]; exact get_set_ne S k' v k (Ne.symm h)
  | del k' =>
    simp only [applyWrite, wkey, wval, get_delete]
    by_cases h : k' = k
    · subst h; simp
    · simp [h, Ne.symm h]

/-- A point read after the writes `ws`: the last write to the key decides; an unwritten key keeps
    its value. -/
theorem get_applyWrites : ∀ (ws : List Write) (S : List KV) (k : Bytes),
    SMap.get (applyWrites S ws) k =
      match lastWrite ws k with
      | some x => x
      | none => SMap.get S k
  | [], _, _ => rfl
  | w :: r, S, k => by
    have ih := get_applyWrites r (applyWrite S w) k
    simp only [applyWrites, List.foldl_cons] at ih ⊢
    rw [ih]
    simp only [lastWrite]
    cases h : lastWrite r k with
    | some x => rfl
    | none =>
      simp only [get_applyWrite]
      by_cases hk : wkey w = k <;> simp [hk]

theorem lastWrite_append : ∀ (a b : List Write) (k : Bytes),
    lastWrite (a ++ b) k =
      match lastWrite b k with
      | some x => some x
      | none => lastWrite a k
  | [], b, k => by
    simp only [List.nil_append, lastWrite]
    cases lastWrite b k <;> rfl
  | w :: a, b, k => by
    simp only [List.cons_append, lastWrite, lastWrite_append a b k]
    cases lastWrite b k <;> rfl

theorem lastWrite_none_of_untouched : ∀ (ws : List Write) (k : Bytes),
    (∀ w ∈ ws, wkey w ≠ k) → lastWrite ws k = none
  | [], _, _ => rfl
  | w :: r, k, h => by
    simp only [lastWrite, lastWrite_none_of_untouched r k (fun x hx => h x (List.mem_cons_of_mem _ hx))]
    simp [h w (by simp)]

/-- The contents after the writes `ws` read the same as `S` on a key exactly when the key is not
    written or its last write puts back what `S` holds. -/
theorem get_applyWrites_eq_iff (ws : List Write) (S : List KV) (k : Bytes) :
    SMap.get S k = SMap.get (applyWrites S ws) k ↔ ∀ w, lastWrite ws k = some w → w = SMap.get S k := by
  rw [get_applyWrites]
  cases h : lastWrite ws k with
  | none => simp
  | some x =>
    simp only [Option.some.injEq, forall_eq']
    exact eq_comm

/-! ### Point read = seek -/

/-- On a sorted map a point read finds `v` under `k` exactly when `Seek(k)` lands on `(k, v)`. -/
theorem get_eq_some_iff_firstGE {M : List KV} (hs : Sorted M) (k v : Bytes) :
    SMap.get M k = some v ↔ Iter.firstGE M k = some (k, v) := by
  constructor
  · intro h
    have hm : (k, v) ∈ M := mem_of_get_eq_some h
    cases hf : Iter.firstGE M k with
    | none =>
      have := find_none hf (k, v) hm
      simp [ble_refl] at this
    | some x =>
      obtain ⟨hx, hq, hmin⟩ := find_sorted_min hs hf
      have h1 : ble x.1 k = true := hmin (k, v) hm (by simp [ble_refl])
      have h2 : ble k x.1 = true := by simpa using hq
      have hk : x.1 = k := ble_antisymm h1 h2
      obtain ⟨xk, xv⟩ := x
      simp only at hk
      subst hk
      have := get_eq_some_of_mem hs hx
      rw [h] at this
      cases this
      rfl
  · intro h
    exact get_eq_some_of_mem hs (find_sorted_min hs h).1

/-- …and finds nothing exactly when `Seek(k)` is invalid or lands on another key. -/
theorem get_isSome_iff_firstGE_key {M : List KV} (hs : Sorted M) (k : Bytes) :
    (SMap.get M k).isSome = true ↔ (Iter.firstGE M k).map (·.1) = some k := by
  constructor
  · intro h
    obtain ⟨v, hv⟩ := Option.isSome_iff_exists.mp h
    rw [(get_eq_some_iff_firstGE hs k v).mp hv]
    rfl
  · intro h
    cases hf : Iter.firstGE M k with
    | none => rw [hf] at h; cases h
    | some x =>
      rw [hf] at h
      obtain ⟨xk, xv⟩ := x
      simp only [Option.map_some, Option.some.injEq] at h
      subst h
      rw [(get_eq_some_iff_firstGE hs xk xv).mpr hf]
      rfl

/-! ### Views made of range steps -/

/-- A view made of prefix scans and iterator point reads observes the same on two sorted maps
    exactly when the maps read the same on every key of the ranges — whatever state the iterators
    are in. -/
theorem itSteps_range_eq_iff {S M : List KV} (hS : Sorted S) (hM : Sorted M) :
    ∀ (b : List ItStep) (it1 it2 : Iter), (∀ s ∈ b, isRangeStep s = true) →
      (itSteps S it1 b = itSteps M it2 b ↔
        ∀ s ∈ b, ∀ k, inRange s k = true → SMap.get S k = SMap.get M k)
  | [], _, _, _ => by simp [itSteps]
  | s :: r, it1, it2, hb => by
    have hr : ∀ s ∈ r, isRangeStep s = true := fun x hx => hb x (List.mem_cons_of_mem _ hx)
    have hs0 := hb s (by simp)
    rw [List.forall_mem_cons]
    cases s with
    | scan p =>
      simp only [itSteps, itStep, List.cons.injEq, ItObs.kvs.injEq]
      rw [scan_eq_filter hS, scan_eq_filter hM, itSteps_range_eq_iff hS hM r _ _ hr]
      unfold withPrefix
      rw [filter_key_eq_iff (fun x => hasPrefix x p) hS hM]
      rfl
    | get k' =>
      simp only [itSteps, itStep, List.cons.injEq, ItObs.got.injEq]
      rw [itSteps_range_eq_iff hS hM r _ _ hr]
      simp [inRange]
    | seek _ => simp [isRangeStep] at hs0
    | rseek _ => simp [isRangeStep] at hs0
    | next => simp [isRangeStep] at hs0
    | rscan _ _ => simp [isRangeStep] at hs0

theorem viewObs_range_eq_iff {S M : List KV} (hS : Sorted S) (hM : Sorted M) (b : List ItStep)
    (hb : ∀ s ∈ b, isRangeStep s = true) :
    viewObs S b = viewObs M b ↔ ∀ s ∈ b, ∀ k, inRange s k = true → SMap.get S k = SMap.get M k :=
  itSteps_range_eq_iff hS hM b {} {} hb

/-! ### Observations of a run extended at the end -/

theorem fresh_obs_append (t : Tx) (xs ys : List TxStep) :
    (txStepsP .fresh t (xs ++ ys)).2 =
      (txStepsP .fresh t xs).2 ++ (txSteps (Tx.writes t (writesOf xs)) ys).2 := by
  simp only [txStepsP, txStepsPS_append, txStepsPS_fresh, txSteps_tx]

/-- After the first view of a `sharedSnapshot` run, the rest runs against the transaction's
    current overlay for writes and point reads, and against the captured contents for views. -/
theorem shared_obs_append (t : Tx) (pre : List TxStep) (a : List ItStep) (mid ys : List TxStep)
    (hpre : NoView pre) :
    (txStepsP .sharedSnapshot t ((pre ++ .view a :: mid) ++ ys)).2 =
      (txStepsP .sharedSnapshot t (pre ++ .view a :: mid)).2 ++
        (txStepsPS .sharedSnapshot
          { tx := Tx.writes t (writesOf (pre ++ .view a :: mid)), snap := some (contentsAfter t pre) }
          ys).2 := by
  simp only [txStepsP]
  rw [txStepsPS_append, shared_state_after_first_view t pre a mid hpre]

/-- The observation of a forward prefix scan on a sorted map. -/
theorem viewObs_scan {M : List KV} (hs : Sorted M) (p : Bytes) :
    viewObs M [.scan p] = [.kvs (withPrefix M p)] := by
  simp only [viewObs, itSteps, itStep, scan_eq_filter hs]

theorem mem_withPrefix {M : List KV} {p : Bytes} {x : KV} :
    x ∈ withPrefix M p ↔ x ∈ M ∧ hasPrefix x.1 p = true := by
  simp [withPrefix, List.mem_filter]

theorem tx_get_eq_get_commit (t : Tx) (k : Bytes) : t.get k = SMap.get t.commit k := by
  cases t with
  | mk base pend => exact tx_get_eq_commit base pend k

end Grip.Props.C10.Lemmas
