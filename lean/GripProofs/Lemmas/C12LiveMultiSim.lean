import Grip.Model.C12Multi

/-! An executable schedule of the multi-jump model (head-of-`W` first, else the mark), sound for
    `Step`: used to exhibit concrete reachable states (non-vacuity tests of the theorems). -/
set_option linter.unusedSimpArgs false
namespace Grip.Props.C12.Multi.Sim
open Grip.C12 (Msg Phase)
open Grip.C12.Multi

variable {T : Type}

/-- Split `W` at the first message of channel `c`. -/
def findFirst (c : Chan) : List (Chan × Msg T) →
    Option (List (Chan × Msg T) × Msg T × List (Chan × Msg T))
  | [] => none
  | (c', m) :: r =>
    if c' = c then some ([], m, r)
    else match findFirst c r with
      | some (A, m', B) => some ((c', m) :: A, m', B)
      | none => none

theorem findFirst_some {c : Chan} : ∀ {W A B : List (Chan × Msg T)} {m : Msg T},
    findFirst c W = some (A, m, B) → W = A ++ (c, m) :: B ∧ ∀ x ∈ A, x.1 ≠ c
  | [], _, _, _, h => by simp [findFirst] at h
  | (c', m0) :: r, A, B, m, h => by
    unfold findFirst at h
    split at h
    · next hc =>
      simp only [Option.some.injEq, Prod.mk.injEq] at h
      obtain ⟨rfl, rfl, rfl⟩ := h
      subst hc
      simp
    · next hc =>
      split at h
      · next A' m' B' hrec =>
        simp only [Option.some.injEq, Prod.mk.injEq] at h
        obtain ⟨rfl, rfl, rfl⟩ := h
        obtain ⟨h1, h2⟩ := findFirst_some hrec
        refine ⟨by rw [h1]; rfl, ?_⟩
        intro x hx
        simp only [List.mem_cons] at hx
        rcases hx with rfl | hx
        · exact hc
        · exact h2 x hx
      · cases h

theorem findFirst_none {c : Chan} : ∀ {W : List (Chan × Msg T)},
    findFirst c W = none → ∀ x ∈ W, x.1 ≠ c
  | [], _ => by intro x hx; simp at hx
  | (c', m0) :: r, h => by
    unfold findFirst at h
    split at h
    · cases h
    · next hc =>
      split at h
      · cases h
      · next hrec =>
        intro x hx
        simp only [List.mem_cons] at hx
        rcases hx with rfl | hx
        · exact hc
        · exact findFirst_none hrec x hx

/-- One iteration step of the mark's goroutine. -/
def markStep (sys : List (MStage T)) (s : State T) : Option (State T) :=
  match s.phase with
  | .closed => none
  | .open =>
    if s.scan < sys.length then
      if isJump sys s.scan then
        match findFirst (Chan.side s.scan 2) s.W with
        | some (A, m, B) =>
          some { s with W := A ++ B ++ [(Chan.main 0, m)], jf := true, scan := s.scan + 1 }
        | none => some { s with scan := s.scan + 1 }
      else some { s with scan := s.scan + 1 }
    else if s.scan = sys.length then
      if s.jf then some { s with scan := 0, jf := false }
      else match s.inp with
        | t :: r => some { s with inp := r, W := s.W ++ [(Chan.main 0, Msg.trav t)], scan := 0 }
        | [] => some { s with phase := .closing, scan := 0 }
    else none
  | .closing =>
    if s.scan < sys.length then
      if isJump sys s.scan then
        match findFirst (Chan.side s.scan 2) s.W with
        | some (A, .trav t, B) =>
          some { s with W := A ++ B ++ [(Chan.main 0, Msg.trav t)],
                        signalOutdated := s.signalActive || s.signalOutdated, jf := true,
                        scan := s.scan + 1 }
        | some (A, .sig _, B) =>
          some { s with W := A ++ B, returnCount := s.returnCount + 1, scan := s.scan + 1 }
        | none => some { s with scan := s.scan + 1 }
      else some { s with scan := s.scan + 1 }
    else if s.scan = sys.length then
      if s.jf then some { s with scan := 0, jf := false }
      else some (markDecide (nIn sys) { s with scan := 0 })
    else none

theorem markStep_sound {sys : List (MStage T)} {s s' : State T} (h : markStep sys s = some s') :
    Step sys .mark s s' := by
  unfold markStep at h
  split at h
  · cases h
  · next hp =>
    split at h
    · next hlt =>
      split at h
      · next hj =>
        split at h
        · next A m B hf =>
          obtain ⟨h1, h2⟩ := findFirst_some hf
          cases h
          exact Step.openRecv hp hj h1 h2
        · next hf =>
          cases h
          exact Step.openSkip hp hlt (Or.inr (findFirst_none hf))
      · next hj =>
        cases h
        exact Step.openSkip hp hlt (Or.inl (by simpa using hj))
    · split at h
      · next hsc =>
        split at h
        · next hjf => cases h; exact Step.openNext hp hsc hjf
        · next hjf =>
          split at h
          · next t r hi => cases h; exact Step.openIn hp hsc (by simpa using hjf) hi
          · next hi => cases h; exact Step.openClose hp hsc (by simpa using hjf) hi
      · cases h
  · next hp =>
    split at h
    · next hlt =>
      split at h
      · next hj =>
        split at h
        · next A t B hf =>
          obtain ⟨h1, h2⟩ := findFirst_some hf
          cases h
          exact Step.closeTrav hp hj h1 h2
        · next A k B hf =>
          obtain ⟨h1, h2⟩ := findFirst_some hf
          cases h
          exact Step.closeSig hp hj h1 h2
        · next hf =>
          cases h
          exact Step.closeSkip hp hlt (Or.inr (findFirst_none hf))
      · next hj =>
        cases h
        exact Step.closeSkip hp hlt (Or.inl (by simpa using hj))
    · split at h
      · next hsc =>
        split at h
        · next hjf => cases h; exact Step.closeNext hp hsc hjf
        · next hjf => cases h; exact Step.closeDecide hp hsc (by simpa using hjf)
      · cases h

/-- The stage or queue goroutine that owns the oldest message of `W`, if it is not the mark. -/
def headStep (sys : List (MStage T)) (s : State T) : Option (Label × State T) :=
  match s.W with
  | (Chan.main i, .trav t) :: B =>
    match sys[i]? with
    | some (.body f) =>
      some (.stage i, { s with W := [] ++ outMain sys.length (i + 1) (f t) ++ B,
                               emitted := s.emitted ++ outDown sys.length (i + 1) (f t) })
    | some (.jump c e) =>
      some (.stage i,
        { s with W := [] ++ ((if c t then [(Chan.side i 0, Msg.trav t)] else [])
                              ++ outMain sys.length (i + 1) (if e then [t] else [])) ++ B,
                 emitted := s.emitted ++ outDown sys.length (i + 1) (if e then [t] else []) })
    | none => none
  | (Chan.main i, .sig k) :: B =>
    match sys[i]? with
    | some (.body _) => some (.stage i, { s with W := [] ++ sigMain sys.length (i + 1) k ++ B })
    | some (.jump _ _) =>
      some (.stage i,
        { s with W := [] ++ ((Chan.side i 0, Msg.sig k) :: sigMain sys.length (i + 1) k) ++ B })
    | none => none
  | (Chan.side j k, m) :: B =>
    if k < 2 then some (.queue j k, { s with W := [] ++ [(Chan.side j (k + 1), m)] ++ B }) else none
  | [] => none

theorem headStep_sound {sys : List (MStage T)} {s s' : State T} {l : Label}
    (h : headStep sys s = some (l, s')) : Step sys l s s' := by
  unfold headStep at h
  split at h
  · next i t B hW =>
    split at h
    · next f hst =>
      cases h
      exact Step.bodyTrav (A := []) (by simpa using hW) (by simp) hst
    · next c e hst =>
      cases h
      exact Step.jumpTrav (A := []) (by simpa using hW) (by simp) hst
    · cases h
  · next i k B hW =>
    split at h
    · next f hst =>
      cases h
      exact Step.bodySig (A := []) (by simpa using hW) (by simp) hst
    · next c e hst =>
      cases h
      exact Step.jumpSig (A := []) (by simpa using hW) (by simp) hst
    · cases h
  · next j k m B hW =>
    split at h
    · next hk =>
      cases h
      exact Step.queue (A := []) (by simpa using hW) (by simp) hk
    · cases h
  · cases h

/-- The schedule: `pref = true` lets the mark run first, otherwise the owner of the oldest message. -/
def sched (sys : List (MStage T)) (pref : Bool) (s : State T) : Option (Label × State T) :=
  if pref then
    match markStep sys s with
    | some s' => some (.mark, s')
    | none => headStep sys s
  else
    match headStep sys s with
    | some r => some r
    | none => (markStep sys s).map (fun s' => (.mark, s'))

theorem sched_sound {sys : List (MStage T)} {pref : Bool} {s s' : State T} {l : Label}
    (h : sched sys pref s = some (l, s')) : Step sys l s s' := by
  unfold sched at h
  split at h
  · split at h
    · next s1 hm => cases h; exact markStep_sound hm
    · exact headStep_sound h
  · split at h
    · next r hr => cases h; exact headStep_sound hr
    · next hr =>
      cases hm : markStep sys s with
      | none => simp [hm] at h
      | some s1 =>
        simp only [hm, Option.map_some, Option.some.injEq, Prod.mk.injEq] at h
        obtain ⟨rfl, rfl⟩ := h
        exact markStep_sound hm

/-- Run the schedule; `prefs k` tells who is preferred at step `k` (finite list, then the stages). -/
def runN (sys : List (MStage T)) : List Bool → Nat → State T → State T
  | _, 0, s => s
  | prefs, k + 1, s =>
    match sched sys (prefs.headD false) s with
    | some (_, s') => runN sys prefs.tail k s'
    | none => s

theorem runN_reachable {sys : List (MStage T)} {inp0 : List T} :
    ∀ (prefs : List Bool) (k : Nat) (s : State T), Reachable sys inp0 s →
      Reachable sys inp0 (runN sys prefs k s)
  | _, 0, _, h => h
  | prefs, k + 1, s, h => by
    unfold runN
    split
    · next l s' hs => exact runN_reachable prefs.tail k s' (Reachable.step h (sched_sound hs))
    · exact h

end Grip.Props.C12.Multi.Sim
