/-
  Lemmas.C03Del — DelVertex and DelEdge preserve the refinement relation.
-/
import GripProofs.Lemmas.C03Graph

namespace Grip.Props.C03.Lemmas
open Grip Grip.C03 Grip.C03.Spec Grip.Props.C03

/-! ### the edge records of one edge id -/

theorem eq_singleton_of_nodup {α : Type} {L : List α} {x : α} (hn : L.Nodup)
    (hall : ∀ p, p ∈ L → p = x) (hx : x ∈ L) : L = [x] := by
  cases L with
  | nil => simp at hx
  | cons y L' =>
    have hy : y = x := hall y List.mem_cons_self
    subst hy
    cases L' with
    | nil => rfl
    | cons z L'' =>
      have hz : z = y := hall z (by simp)
      subst hz
      simp at hn

theorem edgeAt_some_iff {a : AG} {g eid s d l : String} {data : JV} :
    edgeAt a g eid s d l = some data ↔ a.getE g eid = some ⟨s, d, l, data⟩ := by
  unfold edgeAt
  cases hr : a.getE g eid with
  | none => simp
  | some r =>
    obtain ⟨f, t, lb, dt⟩ := r
    simp only [Option.bind_some, Option.some.injEq, ERec.mk.injEq]
    constructor
    · intro h
      split at h
      · rename_i c; simp at h; exact ⟨c.1, c.2.1, c.2.2, h⟩
      · simp at h
    · rintro ⟨rfl, rfl, rfl, rfl⟩; simp

theorem edgeRecords_eq {m : KV} {f : List String} {a : AG} (h : Inv m f a) (g eid : String) :
    edgeRecords m g eid =
      match a.getE g eid with
      | none => []
      | some r => [(.edge g eid r.frm r.to r.label, .edge r.data)] := by
  have hmem : ∀ p, p ∈ edgeRecords m g eid ↔
      ∃ s d l data, p = (SKey.edge g eid s d l, Val.edge data) ∧ a.getE g eid = some ⟨s, d, l, data⟩ := by
    intro p
    obtain ⟨k, v⟩ := p
    unfold edgeRecords
    rw [List.mem_filter, KV.mem_iff_get h.nodup]
    cases k <;> simp
    rename_i g' e' s d l
    constructor
    · rintro ⟨hget, rfl, rfl⟩
      rw [h.edge] at hget
      cases hd : edgeAt a g' e' s d l with
      | none => simp [hd] at hget
      | some data =>
        simp only [hd, Option.map_some, Option.some.injEq] at hget
        exact ⟨s, d, l, data, ⟨⟨rfl, rfl, rfl, rfl, rfl⟩, hget.symm⟩, edgeAt_some_iff.1 hd⟩
    · rintro ⟨s', d', l', data, ⟨⟨rfl, rfl, rfl, rfl, rfl⟩, rfl⟩, hr⟩
      refine ⟨?_, rfl, rfl⟩
      rw [h.edge, edgeAt_some_iff.2 hr]; rfl
  cases hr : a.getE g eid with
  | none =>
    simp only
    rw [List.eq_nil_iff_forall_not_mem]
    intro p hp
    obtain ⟨s, d, l, data, _, h2⟩ := (hmem p).1 hp
    rw [hr] at h2; simp at h2
  | some r =>
    simp only
    apply eq_singleton_of_nodup
    · unfold edgeRecords; exact (h.nodup.filter _).nodup
    · intro p hp
      obtain ⟨s, d, l, data, h1, h2⟩ := (hmem p).1 hp
      rw [hr] at h2; simp only [Option.some.injEq] at h2; subst h2; exact h1
    · rw [hmem]; exact ⟨r.frm, r.to, r.label, r.data, rfl, hr⟩

theorem lastByBytes_singleton (x : SKey × Val) : lastByBytes [x] = some x := rfl

/-! ### DelEdge -/

theorem getE_delE {a : AG} (g eid g' id : String) :
    alGet (a.edges.filter (fun p => ¬ p.1 = (g, eid))) (g', id) =
      if (g', id) = (g, eid) then none else a.getE g' id := by
  have := alGet_filter_key a.edges (fun k => !decide (k = (g, eid))) (g', id)
  rw [AG.getE_eq]
  by_cases e : (g', id) = (g, eid)
  · simp only [e, decide_true, Bool.not_true, Bool.false_eq_true, ↓reduceIte] at this ⊢
    rw [← this]; congr 2; funext p; simp
  · simp only [e, decide_false, Bool.not_false, ↓reduceIte] at this ⊢
    rw [← this]; congr 2; funext p; simp

theorem delE_inv {m : KV} {f : List String} {a b : AG} (h : Inv m f a) (g eid : String) (r : ERec)
    (hr : a.getE g eid = some r)
    (hbg : b.graphs = a.graphs) (hbv : b.verts = a.verts)
    (hbe : b.edges = a.edges.filter (fun p => ¬ p.1 = (g, eid))) :
    Inv (((m.del (.edge g eid r.frm r.to r.label)).del (.src g r.frm r.to eid r.label)).del
      (.dst g r.to r.frm eid r.label)) f b := by
  have e1 : ∀ g' id, b.getV g' id = a.getV g' id := by intro g' id; simp [AG.getV, hbv]
  have e2 : ∀ g' id, b.getE g' id = if (g', id) = (g, eid) then none else a.getE g' id := by
    intro g' id; rw [← getE_delE, AG.getE_eq, hbe]
  have e3 : ∀ g' id s d l, edgeAt b g' id s d l =
      if (g', id) = (g, eid) then none else edgeAt a g' id s d l := by
    intro g' id s d l; unfold edgeAt; rw [e2]; split <;> simp
  -- every other key of this edge id is absent already
  have habs : ∀ s d l, ¬ (s = r.frm ∧ d = r.to ∧ l = r.label) → edgeAt a g eid s d l = none := by
    intro s d l hne
    unfold edgeAt; rw [hr]
    simp only [Option.bind_some, ite_eq_right_iff, reduceCtorEq, imp_false]
    intro c; exact hne ⟨c.1.symm, c.2.1.symm, c.2.2.symm⟩
  have keep : ∀ k', (∀ g' a1 a2 a3 a4, k' ≠ .edge g' a1 a2 a3 a4) → (∀ g' a1 a2 a3 a4, k' ≠ .src g' a1 a2 a3 a4) →
      (∀ g' a1 a2 a3 a4, k' ≠ .dst g' a1 a2 a3 a4) →
      (((m.del (.edge g eid r.frm r.to r.label)).del (.src g r.frm r.to eid r.label)).del
        (.dst g r.to r.frm eid r.label)).get k' = m.get k' := by
    intro k' h1 h2 h3
    simp only [KV.get_del]
    rw [if_neg (fun c => h3 _ _ _ _ _ c), if_neg (fun c => h2 _ _ _ _ _ c), if_neg (fun c => h1 _ _ _ _ _ c)]
  constructor
  · exact KV.nodup_del (KV.nodup_del (KV.nodup_del h.nodup _) _) _
  · rw [hbv]; exact h.vnodup
  · rw [hbe]; exact h.enodup.filter _
  · intro g'; rw [hbg, keep _ (by simp) (by simp) (by simp)]; exact h.graph g'
  · intro g' id; rw [e1, keep _ (by simp) (by simp) (by simp)]; exact h.vertex g' id
  · intro g' id s d l
    rw [e3]
    simp only [KV.get_del, reduceCtorEq, ↓reduceIte, SKey.edge.injEq, Prod.mk.injEq]
    by_cases e : g' = g ∧ id = eid
    · obtain ⟨rfl, rfl⟩ := e
      by_cases e2 : s = r.frm ∧ d = r.to ∧ l = r.label
      · simp [e2]
      · rw [h.edge, habs s d l e2]; simp
    · have e3 : ¬ (g' = g ∧ id = eid ∧ s = r.frm ∧ d = r.to ∧ l = r.label) := fun ⟨a1, a2, _⟩ => e ⟨a1, a2⟩
      simp only [e, e3, ↓reduceIte]; exact h.edge g' id s d l
  · intro g' s d id l
    rw [e3]
    simp only [KV.get_del, reduceCtorEq, ↓reduceIte, SKey.src.injEq, Prod.mk.injEq]
    by_cases e : g' = g ∧ id = eid
    · obtain ⟨rfl, rfl⟩ := e
      by_cases e2 : s = r.frm ∧ d = r.to ∧ l = r.label
      · simp [e2]
      · rw [h.src, habs s d l e2]; simp
    · have e3 : ¬ (g' = g ∧ s = r.frm ∧ d = r.to ∧ id = eid ∧ l = r.label) := fun ⟨a1, _, _, a2, _⟩ => e ⟨a1, a2⟩
      simp only [e, e3, ↓reduceIte]; exact h.src g' s d id l
  · intro g' d s id l
    rw [e3]
    simp only [KV.get_del, reduceCtorEq, ↓reduceIte, SKey.dst.injEq, Prod.mk.injEq]
    by_cases e : g' = g ∧ id = eid
    · obtain ⟨rfl, rfl⟩ := e
      by_cases e2 : s = r.frm ∧ d = r.to ∧ l = r.label
      · simp [e2]
      · rw [h.dst, habs s d l e2]; simp
    · have e3 : ¬ (g' = g ∧ d = r.to ∧ s = r.frm ∧ id = eid ∧ l = r.label) := fun ⟨a1, _, _, a2, _⟩ => e ⟨a1, a2⟩
      simp only [e, e3, ↓reduceIte]; exact h.dst g' d s id l
  · intro g' hg'; rw [hbg] at hg'; exact h.gname g' hg'
  · intro g' id r' hr'; rw [e1] at hr'; rw [hbg]; exact h.vgraph g' id r' hr'
  · intro g' id r' hr'
    rw [e2] at hr'; rw [hbg]
    split at hr'
    · simp at hr'
    · exact h.egraph g' id r' hr'
  · intro g' hg'; rw [hbg] at hg'
    rw [keep _ (by simp) (by simp) (by simp)]; exact h.fieldsV g' hg'
  · intro g' hg'; rw [hbg] at hg'
    rw [keep _ (by simp) (by simp) (by simp)]; exact h.fieldsE g' hg'
  · intro g' id r' hr'; rw [e1] at hr'
    rw [keep _ (by simp) (by simp) (by simp), keep _ (by simp) (by simp) (by simp)]
    exact h.vindex g' id r' hr'
  · intro g' id r' hr'
    rw [e2] at hr'
    split at hr'
    · simp at hr'
    · rw [keep _ (by simp) (by simp) (by simp), keep _ (by simp) (by simp) (by simp)]
      exact h.eindex g' id r' hr'
  · intro f' hf'
    rw [keep _ (by simp) (by simp) (by simp)] at hf'
    rw [hbg]; exact h.fieldOwner f' hf'

theorem hasGraph_iff {s : KState} {a : AG} (h : Refines s a) (g : String) :
    hasGraph s g = a.graphs.contains g := by
  rw [hasGraph, KV.has_eq, Bool.eq_iff_iff]
  simpa using h.inv.graph g

theorem step_delE (s : KState) (g eid : String) :
    step s (.delE g eid) =
      if !hasGraph s g then (s, .err) else
      match lastByBytes (edgeRecords s.kv g eid) with
      | none => (s, .err)
      | some (.edge _ _ sid did l, _) =>
        (({ s with kv := ((s.kv.del (.edge g eid sid did l)).del (.src g sid did eid l)).del (.dst g did sid eid l) }).touch g, .ok)
      | some _ => (s, .err) := rfl

theorem specStep_delE (a : AG) (g eid : String) :
    specStep a (.delE g eid) =
      if !a.graphs.contains g then (a, .err) else
      match a.getE g eid with
      | none => (a, .err)
      | some _ => ({ (a.touch g) with edges := a.edges.filter (fun p => ¬ p.1 = (g, eid)) }, .ok) := rfl

theorem delE_refines {s : KState} {a : AG} (h : Refines s a) (g eid : String) :
    Refines (step s (.delE g eid)).1 (specStep a (.delE g eid)).1 ∧
      (step s (.delE g eid)).2 = (specStep a (.delE g eid)).2 := by
  rw [step_delE, specStep_delE]
  rw [hasGraph_iff h, edgeRecords_eq h.inv]
  cases hgc : a.graphs.contains g with
  | false => simp [h]
  | true =>
    simp only [Bool.not_true, Bool.false_eq_true, ↓reduceIte]
    cases hr : a.getE g eid with
    | none => simp [lastByBytes, h]
    | some r =>
      simp only [lastByBytes_singleton, and_true]
      have base : Refines { s with kv := ((s.kv.del (.edge g eid r.frm r.to r.label)).del
          (.src g r.frm r.to eid r.label)).del (.dst g r.to r.frm eid r.label) }
          { a with edges := a.edges.filter (fun p => ¬ p.1 = (g, eid)) } :=
        ⟨delE_inv h.inv g eid r hr rfl rfl rfl, h.stamps, h.clock, h.stampLe⟩
      have ht := touch_refines base g
      exact ⟨inv_congr ht.inv rfl rfl rfl, ht.stamps, ht.clock, ht.stampLe⟩

/-! ### DelVertex -/

def outKeys (m : KV) (g id : String) : List (List SKey) :=
  m.filterMap (fun p => match p.1 with
    | .src g' sid did eid l => if g' = g ∧ sid = id then some [SKey.src g sid did eid l, .dst g did sid eid l, .edge g eid sid did l] else none
    | _ => none)

def inKeys (m : KV) (g id : String) : List (List SKey) :=
  m.filterMap (fun p => match p.1 with
    | .dst g' did sid eid l => if g' = g ∧ did = id then some [SKey.src g sid did eid l, .dst g did sid eid l, .edge g eid sid did l] else none
    | _ => none)

theorem step_delV (s : KState) (g id : String) :
    step s (.delV g id) =
      if !hasGraph s g then (s, .err) else
      (({ s with kv := List.foldl (fun (m : KV) k => m.del k) (s.kv.del (.vertex g id)) ((outKeys s.kv g id).flatten ++ (inKeys s.kv g id).flatten) }).touch g, .ok) := rfl

theorem mem_outKeys {m : KV} {g id : String} {k : SKey} :
    k ∈ (outKeys m g id).flatten ↔
      ∃ d eid l, (m.get (.src g id d eid l)).isSome ∧
        (k = .src g id d eid l ∨ k = .dst g d id eid l ∨ k = .edge g eid id d l) := by
  simp only [List.mem_flatten, outKeys, List.mem_filterMap]
  constructor
  · rintro ⟨L, ⟨⟨k0, v0⟩, hp, hL⟩, hk⟩
    cases k0 <;> simp at hL
    rename_i g' s d eid l
    obtain ⟨⟨rfl, rfl⟩, rfl⟩ := hL
    exact ⟨d, eid, l, KV.get_isSome_of_mem hp, by simpa using hk⟩
  · rintro ⟨d, eid, l, hs, hk⟩
    cases hv : m.get (.src g id d eid l) with
    | none => simp [hv] at hs
    | some v =>
      refine ⟨[SKey.src g id d eid l, .dst g d id eid l, .edge g eid id d l], ⟨(.src g id d eid l, v), mem_of_alGet hv, by simp⟩, ?_⟩
      simpa using hk

theorem mem_inKeys {m : KV} {g id : String} {k : SKey} :
    k ∈ (inKeys m g id).flatten ↔
      ∃ s eid l, (m.get (.dst g id s eid l)).isSome ∧
        (k = .src g s id eid l ∨ k = .dst g id s eid l ∨ k = .edge g eid s id l) := by
  simp only [List.mem_flatten, inKeys, List.mem_filterMap]
  constructor
  · rintro ⟨L, ⟨⟨k0, v0⟩, hp, hL⟩, hk⟩
    cases k0 <;> simp at hL
    rename_i g' d s eid l
    obtain ⟨⟨rfl, rfl⟩, rfl⟩ := hL
    exact ⟨s, eid, l, KV.get_isSome_of_mem hp, by simpa using hk⟩
  · rintro ⟨s, eid, l, hs, hk⟩
    cases hv : m.get (.dst g id s eid l) with
    | none => simp [hv] at hs
    | some v =>
      refine ⟨[SKey.src g s id eid l, .dst g id s eid l, .edge g eid s id l], ⟨(.dst g id s eid l, v), mem_of_alGet hv, by simp⟩, ?_⟩
      simpa using hk

/-- keys removed by DelVertex (those of them that exist) -/
def delVKey (g id : String) : SKey → Bool
  | .vertex g' id' => g' = g ∧ id' = id
  | .edge g' _ s d _ => g' = g ∧ (s = id ∨ d = id)
  | .src g' s d _ _ => g' = g ∧ (s = id ∨ d = id)
  | .dst g' d s _ _ => g' = g ∧ (s = id ∨ d = id)
  | _ => false

theorem get_delV {m : KV} {f : List String} {a : AG} (h : Inv m f a) (g id : String) (k : SKey) :
    (((outKeys m g id).flatten ++ (inKeys m g id).flatten).foldl (fun (m : KV) k => m.del k)
      (m.del (.vertex g id))).get k = if delVKey g id k then none else m.get k := by
  rw [KV.get_foldl_del, KV.get_del]
  have hs : ∀ s d eid l, (m.get (.src g s d eid l)).isSome = (edgeAt a g eid s d l).isSome := by
    intro s d eid l; rw [h.src]; simp
  have hd : ∀ d s eid l, (m.get (.dst g d s eid l)).isSome = (edgeAt a g eid s d l).isSome := by
    intro d s eid l; rw [h.dst]; simp
  have hK : ∀ k, k ∈ (outKeys m g id).flatten ++ (inKeys m g id).flatten ↔
      (∃ d eid l, (edgeAt a g eid id d l).isSome ∧
        (k = .src g id d eid l ∨ k = .dst g d id eid l ∨ k = .edge g eid id d l)) ∨
      (∃ s eid l, (edgeAt a g eid s id l).isSome ∧
        (k = .src g s id eid l ∨ k = .dst g id s eid l ∨ k = .edge g eid s id l)) := by
    intro k; rw [List.mem_append, mem_outKeys, mem_inKeys]; simp only [hs, hd]
  have hA : k ∈ (outKeys m g id).flatten ++ (inKeys m g id).flatten → delVKey g id k = true := by
    rw [hK]
    rintro (⟨d, eid, l, _, rfl | rfl | rfl⟩ | ⟨s, eid, l, _, rfl | rfl | rfl⟩) <;> simp [delVKey]
  have hB : delVKey g id k = true → ¬ k ∈ (outKeys m g id).flatten ++ (inKeys m g id).flatten →
      k ≠ .vertex g id → m.get k = none := by
    intro hdk hnk hne
    cases k with
    | vertex g' id' =>
      simp only [delVKey, Bool.decide_and, Bool.and_eq_true, decide_eq_true_eq] at hdk
      exact absurd (by rw [hdk.1, hdk.2]) hne
    | edge g' eid s d l =>
      simp only [delVKey, Bool.decide_and, Bool.decide_or, Bool.and_eq_true, decide_eq_true_eq,
        Bool.or_eq_true] at hdk
      obtain ⟨rfl, c⟩ := hdk
      rw [h.edge]
      cases he : edgeAt a g' eid s d l with
      | none => rfl
      | some data =>
        exfalso; apply hnk; rw [hK]
        rcases c with rfl | rfl
        · exact Or.inl ⟨d, eid, l, by simp [he], Or.inr (Or.inr rfl)⟩
        · exact Or.inr ⟨s, eid, l, by simp [he], Or.inr (Or.inr rfl)⟩
    | src g' s d eid l =>
      simp only [delVKey, Bool.decide_and, Bool.decide_or, Bool.and_eq_true, decide_eq_true_eq,
        Bool.or_eq_true] at hdk
      obtain ⟨rfl, c⟩ := hdk
      rw [h.src]
      cases he : edgeAt a g' eid s d l with
      | none => rfl
      | some data =>
        exfalso; apply hnk; rw [hK]
        rcases c with rfl | rfl
        · exact Or.inl ⟨d, eid, l, by simp [he], Or.inl rfl⟩
        · exact Or.inr ⟨s, eid, l, by simp [he], Or.inl rfl⟩
    | dst g' d s eid l =>
      simp only [delVKey, Bool.decide_and, Bool.decide_or, Bool.and_eq_true, decide_eq_true_eq,
        Bool.or_eq_true] at hdk
      obtain ⟨rfl, c⟩ := hdk
      rw [h.dst]
      cases he : edgeAt a g' eid s d l with
      | none => rfl
      | some data =>
        exfalso; apply hnk; rw [hK]
        rcases c with rfl | rfl
        · exact Or.inl ⟨d, eid, l, by simp [he], Or.inr (Or.inl rfl)⟩
        · exact Or.inr ⟨s, eid, l, by simp [he], Or.inr (Or.inl rfl)⟩
    | graph _ => simp [delVKey] at hdk
    | field _ => simp [delVKey] at hdk
    | term _ _ => simp [delVKey] at hdk
    | entry _ _ _ => simp [delVKey] at hdk
    | doc _ => simp [delVKey] at hdk
  by_cases hk : k ∈ (outKeys m g id).flatten ++ (inKeys m g id).flatten
  · rw [if_pos hk, if_pos (hA hk)]
  · rw [if_neg hk]
    by_cases hv : k = .vertex g id
    · subst hv; simp [delVKey]
    · rw [if_neg hv]
      by_cases hdk : delVKey g id k = true
      · rw [if_pos hdk]; exact hB hdk hk hv
      · rw [if_neg hdk]

theorem getV_delV {a : AG} (g id g' id' : String) :
    alGet (a.verts.filter (fun p => ¬ p.1 = (g, id))) (g', id') =
      if (g', id') = (g, id) then none else a.getV g' id' := by
  have := alGet_filter_key a.verts (fun k => !decide (k = (g, id))) (g', id')
  rw [AG.getV_eq]
  by_cases e : (g', id') = (g, id)
  · simp only [e, decide_true, Bool.not_true, Bool.false_eq_true, ↓reduceIte] at this ⊢
    rw [← this]; congr 2; funext p; simp
  · simp only [e, decide_false, Bool.not_false, ↓reduceIte] at this ⊢
    rw [← this]; congr 2; funext p; simp

theorem delV_inv {m : KV} {f : List String} {a b : AG} (h : Inv m f a) (g id : String)
    (hbg : b.graphs = a.graphs)
    (hbv : b.verts = a.verts.filter (fun p => ¬ p.1 = (g, id)))
    (hbe : b.edges = a.edges.filter (fun p => ¬ (p.1.1 = g ∧ (p.2.frm = id ∨ p.2.to = id)))) :
    Inv (((outKeys m g id).flatten ++ (inKeys m g id).flatten).foldl (fun (m : KV) k => m.del k)
      (m.del (.vertex g id))) f b := by
  have e1 : ∀ g' id', b.getV g' id' = if (g', id') = (g, id) then none else a.getV g' id' := by
    intro g' id'; rw [← getV_delV, AG.getV_eq, hbv]
  have e2 : ∀ g' eid, b.getE g' eid =
      (a.getE g' eid).filter (fun r => decide (¬ (g' = g ∧ (r.frm = id ∨ r.to = id)))) := by
    intro g' eid
    rw [AG.getE_eq, hbe, alGet_filter h.enodup, AG.getE_eq]
  have e3 : ∀ g' eid s d l, edgeAt b g' eid s d l =
      if g' = g ∧ (s = id ∨ d = id) then none else edgeAt a g' eid s d l := by
    intro g' eid s d l
    unfold edgeAt
    rw [e2]
    cases a.getE g' eid with
    | none => simp
    | some r =>
      simp only [Option.filter, Option.bind_some]
      by_cases c : g' = g ∧ (s = id ∨ d = id)
      · rw [if_pos c]
        by_cases c2 : r.frm = s ∧ r.to = d ∧ r.label = l
        · obtain ⟨rfl, rfl, rfl⟩ := c2; simp [c]
        · split <;> simp [c2]
      · rw [if_neg c]
        by_cases c2 : r.frm = s ∧ r.to = d ∧ r.label = l
        · obtain ⟨rfl, rfl, rfl⟩ := c2; simp [c]
        · split <;> simp [c2]
  constructor
  · exact KV.nodup_foldl_del _ (KV.nodup_del h.nodup _)
  · rw [hbv]; exact h.vnodup.filter _
  · rw [hbe]; exact h.enodup.filter _
  · intro g'; rw [hbg, get_delV h]; simp only [delVKey, Bool.false_eq_true, ↓reduceIte]; exact h.graph g'
  · intro g' id'
    rw [e1, get_delV h, h.vertex]
    by_cases c : g' = g ∧ id' = id <;> simp [delVKey, c]
  · intro g' eid s d l
    rw [e3, get_delV h, h.edge]
    by_cases c : g' = g ∧ (s = id ∨ d = id) <;> simp [delVKey, c]
  · intro g' s d eid l
    rw [e3, get_delV h, h.src]
    by_cases c : g' = g ∧ (s = id ∨ d = id) <;> simp [delVKey, c]
  · intro g' d s eid l
    rw [e3, get_delV h, h.dst]
    by_cases c : g' = g ∧ (s = id ∨ d = id) <;> simp [delVKey, c]
  · intro g' hg'; rw [hbg] at hg'; exact h.gname g' hg'
  · intro g' id' r hr
    rw [e1] at hr; rw [hbg]
    split at hr
    · simp at hr
    · exact h.vgraph g' id' r hr
  · intro g' eid r hr
    rw [e2] at hr; rw [hbg]
    exact h.egraph g' eid r (Option.filter_eq_some_iff.1 hr).1
  · intro g' hg'; rw [hbg] at hg'
    rw [get_delV h]; simp only [delVKey, Bool.false_eq_true, ↓reduceIte]; exact h.fieldsV g' hg'
  · intro g' hg'; rw [hbg] at hg'
    rw [get_delV h]; simp only [delVKey, Bool.false_eq_true, ↓reduceIte]; exact h.fieldsE g' hg'
  · intro g' id' r hr
    rw [e1] at hr
    split at hr
    · simp at hr
    · rw [get_delV h, get_delV h]; simp only [delVKey, Bool.false_eq_true, ↓reduceIte]
      exact h.vindex g' id' r hr
  · intro g' eid r hr
    rw [e2] at hr
    rw [get_delV h, get_delV h]; simp only [delVKey, Bool.false_eq_true, ↓reduceIte]
    exact h.eindex g' eid r (Option.filter_eq_some_iff.1 hr).1
  · intro f' hf'
    rw [get_delV h] at hf'; simp only [delVKey, Bool.false_eq_true, ↓reduceIte] at hf'
    rw [hbg]; exact h.fieldOwner f' hf'

theorem specStep_delV (a : AG) (g id : String) :
    specStep a (.delV g id) =
      if !a.graphs.contains g then (a, .err) else
      ({ (a.touch g) with verts := a.verts.filter (fun p => ¬ p.1 = (g, id)),
                          edges := a.edges.filter (fun p => ¬ (p.1.1 = g ∧ (p.2.frm = id ∨ p.2.to = id))) }, .ok) := rfl

theorem delV_refines {s : KState} {a : AG} (h : Refines s a) (g id : String) :
    Refines (step s (.delV g id)).1 (specStep a (.delV g id)).1 ∧
      (step s (.delV g id)).2 = (specStep a (.delV g id)).2 := by
  rw [step_delV, specStep_delV, hasGraph_iff h]
  cases hgc : a.graphs.contains g with
  | false => simp [h]
  | true =>
    simp only [Bool.not_true, Bool.false_eq_true, ↓reduceIte, and_true]
    have base : Refines { s with kv := (List.foldl (fun (m : KV) k => m.del k) (s.kv.del (.vertex g id))
          ((outKeys s.kv g id).flatten ++ (inKeys s.kv g id).flatten)) }
        { a with verts := a.verts.filter (fun p => ¬ p.1 = (g, id)),
                 edges := a.edges.filter (fun p => ¬ (p.1.1 = g ∧ (p.2.frm = id ∨ p.2.to = id))) } :=
      ⟨delV_inv h.inv g id rfl rfl rfl, h.stamps, h.clock, h.stampLe⟩
    have ht := touch_refines base g
    exact ⟨inv_congr ht.inv rfl rfl rfl, ht.stamps, ht.clock, ht.stampLe⟩

end Grip.Props.C03.Lemmas
