/-
  Lemmas.C10Order — the lexicographic order on byte strings (`Grip.Bytes.blt`, = Go's
  bytes.Compare) is a strict total order, and keys sharing a prefix are contiguous in it.
-/
import Grip.Model.SMap

namespace Grip.Props.C10.Lemmas
open Grip Grip.Bytes

theorem blt_nil_right (a : Bytes) : blt a [] = false := by cases a <;> rfl

theorem blt_cons_cons (a b : UInt8) (as bs : Bytes) :
    blt (a :: as) (b :: bs) = (decide (a.toNat < b.toNat) || (a.toNat == b.toNat && blt as bs)) := rfl

theorem blt_irrefl : ∀ a : Bytes, blt a a = false
  | [] => rfl
  | a :: as => by simp [blt_cons_cons, blt_irrefl as]

theorem blt_trans : ∀ {a b c : Bytes}, blt a b = true → blt b c = true → blt a c = true
  | _, _, [], _, h2 => by simp [blt_nil_right] at h2
  | _, [], _ :: _, h1, _ => by simp [blt_nil_right] at h1
  | [], _ :: _, _ :: _, _, _ => rfl
  | a :: as, b :: bs, c :: cs, h1, h2 => by
    simp only [blt_cons_cons, Bool.or_eq_true, decide_eq_true_eq, Bool.and_eq_true, beq_iff_eq] at *
    rcases h1 with h1 | ⟨e1, h1⟩
    · rcases h2 with h2 | ⟨e2, _⟩
      · left; omega
      · left; omega
    · rcases h2 with h2 | ⟨e2, h2⟩
      · left; omega
      · right; exact ⟨by omega, blt_trans h1 h2⟩

theorem blt_asymm {a b : Bytes} (h : blt a b = true) : blt b a = false := by
  cases hb : blt b a with
  | false => rfl
  | true => have := blt_trans h hb; simp [blt_irrefl] at this

/-- Trichotomy: two keys that are not ordered either way are equal. -/
theorem blt_total : ∀ {a b : Bytes}, blt a b = false → blt b a = false → a = b
  | [], [], _, _ => rfl
  | [], _ :: _, h, _ => by simp [blt] at h
  | _ :: _, [], _, h => by simp [blt] at h
  | a :: as, b :: bs, h1, h2 => by
    simp only [blt_cons_cons, Bool.or_eq_false_iff, decide_eq_false_iff_not, Bool.and_eq_false_imp,
      beq_iff_eq] at h1 h2
    have e : a.toNat = b.toNat := by omega
    have := blt_total (h1.2 e) (h2.2 e.symm)
    rw [UInt8.toNat_inj.mp e, this]

theorem ble_refl (a : Bytes) : ble a a = true := by simp [ble, blt_irrefl]

theorem ble_of_blt {a b : Bytes} (h : blt a b = true) : ble a b = true := by
  simp [ble, blt_asymm h]

theorem ble_iff {a b : Bytes} : ble a b = true ↔ (blt a b = true ∨ a = b) := by
  constructor
  · intro h
    cases hab : blt a b with
    | true => exact Or.inl rfl
    | false =>
      right
      exact blt_total hab (by simpa [ble] using h)
  · rintro (h | rfl)
    · exact ble_of_blt h
    · exact ble_refl _

theorem blt_of_blt_of_ble {a b c : Bytes} (h1 : blt a b = true) (h2 : ble b c = true) : blt a c = true := by
  rcases ble_iff.mp h2 with h | rfl
  · exact blt_trans h1 h
  · exact h1

theorem blt_of_ble_of_blt {a b c : Bytes} (h1 : ble a b = true) (h2 : blt b c = true) : blt a c = true := by
  rcases ble_iff.mp h1 with h | rfl
  · exact blt_trans h h2
  · exact h2

theorem ble_trans {a b c : Bytes} (h1 : ble a b = true) (h2 : ble b c = true) : ble a c = true := by
  rcases ble_iff.mp h1 with h | rfl
  · exact ble_of_blt (blt_of_blt_of_ble h h2)
  · exact h2

theorem ble_total (a b : Bytes) : ble a b = true ∨ ble b a = true := by
  cases h : blt b a with
  | false => left; simp [ble, h]
  | true => right; exact ble_of_blt h

theorem ble_antisymm {a b : Bytes} (h1 : ble a b = true) (h2 : ble b a = true) : a = b := by
  simp only [ble, Bool.not_eq_eq_eq_not, Bool.not_true] at h1 h2
  exact blt_total h2 h1

theorem not_blt_iff_ble {a b : Bytes} : blt a b = false ↔ ble b a = true := by simp [ble]

/-! ### Prefixes -/

theorem hasPrefix_nil (k : Bytes) : hasPrefix k [] = true := by cases k <;> rfl

theorem hasPrefix_iff : ∀ {k p : Bytes}, hasPrefix k p = true ↔ ∃ s, k = p ++ s
  | k, [] => by simp [hasPrefix_nil]
  | [], _ :: _ => by simp [hasPrefix]
  | a :: as, b :: bs => by
    simp only [hasPrefix, Bool.and_eq_true, beq_iff_eq, List.cons_append, List.cons.injEq,
      UInt8.toNat_inj, hasPrefix_iff (k := as) (p := bs)]
    constructor
    · rintro ⟨e, s, hs⟩; exact ⟨s, e, hs⟩
    · rintro ⟨s, e, hs⟩; exact ⟨e, s, hs⟩

/-- A key that starts with `p` is not below `p`. -/
theorem ble_of_hasPrefix : ∀ {k p : Bytes}, hasPrefix k p = true → ble p k = true
  | k, [] => by intro _; simp [ble, blt_nil_right]
  | [], _ :: _ => by simp [hasPrefix]
  | a :: as, b :: bs => by
    intro h
    simp only [hasPrefix, Bool.and_eq_true, beq_iff_eq] at h
    have ih := ble_of_hasPrefix h.2
    simp only [ble, Bool.not_eq_eq_eq_not, Bool.not_true] at ih ⊢
    simp [blt_cons_cons, ih, h.1]

/-- Contiguity, upper side: once a key at or above `p` lacks the prefix `p`, every larger key lacks it. -/
theorem no_prefix_after : ∀ {p a b : Bytes}, ble p a = true → hasPrefix a p = false →
    blt a b = true → hasPrefix b p = false
  | [], a, _, _, h, _ => by simp [hasPrefix_nil] at h
  | _ :: _, _, [], _, _, _ => rfl
  | x :: p, [], y :: b, h, _, _ => by simp [ble, blt] at h
  | x :: p, y :: a, z :: b, hle, hnp, hlt => by
    simp only [ble, blt_cons_cons, Bool.not_eq_eq_eq_not, Bool.not_true, Bool.or_eq_false_iff,
      decide_eq_false_iff_not, Bool.and_eq_false_imp, beq_iff_eq] at hle
    simp only [hasPrefix, Bool.and_eq_false_imp, beq_iff_eq] at hnp ⊢
    simp only [blt_cons_cons, Bool.or_eq_true, decide_eq_true_eq, Bool.and_eq_true, beq_iff_eq] at hlt
    intro ezx
    rcases hlt with hlt | ⟨eyz, hlt⟩
    · omega
    · have eyx : y.toNat = x.toNat := by omega
      exact no_prefix_after (by simpa [ble] using hle.2 eyx) (hnp eyx) hlt

/-- Contiguity: a key between two keys that start with `p` starts with `p`. -/
theorem hasPrefix_between {p a b c : Bytes} (ha : hasPrefix a p = true) (hc : hasPrefix c p = true)
    (hab : ble a b = true) (hbc : ble b c = true) : hasPrefix b p = true := by
  cases hb : hasPrefix b p with
  | true => rfl
  | false =>
    rcases ble_iff.mp hbc with h | rfl
    · have := no_prefix_after (ble_trans (ble_of_hasPrefix ha) hab) hb h
      simp [hc] at this
    · simp [hc] at hb

end Grip.Props.C10.Lemmas
