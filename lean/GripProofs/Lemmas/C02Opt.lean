/-
  Lemmas for C02, part 2: the index-start rewrite.  Filters on `_gid` / `_label` (in any of their
  spellings) select exactly the vertices an id lookup / a label-index lookup returns.
-/
import Grip.Model.C02

namespace Grip.Props.C02.Lemmas
open Grip Grip.C02 Grip.C08

/-! ### values of the reserved fields -/

theorem doc_current (t : Traveler) (k : String) (h : keyIsCurrent k = true) :
    t.doc k = elemDict t.cur := by
  unfold keyIsCurrent nsName at h
  unfold Traveler.doc
  split <;> simp_all

theorem value_gid (t : Traveler) (k : String) (hc : keyIsCurrent k = true)
    (hp : Path.jsonPathOf k = ["gid"]) : t.value k = .str (curId t) := by
  unfold Traveler.value Path.lookupDoc
  rw [doc_current t k hc, hp]
  cases h : t.cur <;>
    simp [elemDict, Path.nilDict, Path.toDict, JV.getPath?, JV.member, JV.getKey?, curId, h]

theorem value_label (t : Traveler) (k : String) (hc : keyIsCurrent k = true)
    (hp : Path.jsonPathOf k = ["label"]) : t.value k = .str (curLabel t) := by
  unfold Traveler.value Path.lookupDoc
  rw [doc_current t k hc, hp]
  cases h : t.cur <;>
    simp [elemDict, Path.nilDict, Path.toDict, JV.getPath?, JV.member, JV.getKey?, curLabel, h]

theorem str_beq (a b : String) : (JV.str a == JV.str b) = (a == b) := by
  show JV.beq _ _ = _
  simp [JV.beq]

theorem foundIn_strs (v : String) : ∀ (xs : List JV) (vals : List String),
    strsOf xs = some vals → foundIn (.str v) xs = vals.contains v
  | [], vals, h => by simp [strsOf] at h; subst h; simp [foundIn]
  | x :: rest, vals, h => by
    cases x <;> simp [strsOf] at h
    rename_i s
    obtain ⟨vs, hvs, rfl⟩ := h
    have ih := foundIn_strs v rest vs hvs
    simp only [foundIn, ih, str_beq, List.contains_cons]
    cases hvs' : (v == s) <;> simp

/-- `extractHasVals` is sound: when it returns a non-empty list for a condition, the condition
    holds exactly for the listed values. -/
theorem extract_sound (numOf : String → Option Int) (k : String) (c : Cond) (a : JV)
    (vals : List String) (h : extractHasVals (.cond k c a) = some vals) (hne : vals ≠ [])
    (v : String) : matchesCond numOf (.str v) c a = vals.contains v := by
  unfold extractHasVals at h
  split at h
  · rename_i k' l hk
    simp only [HasE.cond.injEq] at hk
    obtain ⟨-, rfl, rfl⟩ := hk
    simp only [Option.some.injEq] at h
    subst h
    simp only [matchesCond, str_beq, List.contains_cons, List.contains_nil, Bool.or_false]
  · rename_i k' xs hk
    simp only [HasE.cond.injEq] at hk
    obtain ⟨-, rfl, rfl⟩ := hk
    simp only [matchesCond]
    simp only [Option.some.injEq] at h
    cases hs : strsOf xs with
    | none => rw [hs] at h; exact absurd h.symm hne
    | some vs =>
      rw [hs] at h
      simp only [Option.getD_some] at h
      subst h
      exact foundIn_strs v xs _ hs
  · simp only [Option.some.injEq] at h
    exact absurd h.symm hne
  · simp only [Option.some.injEq] at h
    exact absurd h.symm hne

/-! ### dedup -/

theorem mem_dedup (a : String) : ∀ xs : List String, a ∈ dedup xs ↔ a ∈ xs
  | [] => by simp [dedup]
  | x :: xs => by
    have ih := mem_dedup a xs
    simp only [dedup, List.mem_cons, List.mem_filter, ih]
    by_cases h : a = x
    · simp [h]
    · simp [h]

theorem nodup_dedup : ∀ xs : List String, (dedup xs).Nodup
  | [] => by simp [dedup]
  | x :: xs => by
    simp only [dedup, List.nodup_cons]
    refine ⟨?_, (nodup_dedup xs).sublist List.filter_sublist⟩
    simp [List.mem_filter]

theorem contains_dedup (a : String) (xs : List String) : (dedup xs).contains a = xs.contains a := by
  have := mem_dedup a xs
  cases h1 : (dedup xs).contains a <;> cases h2 : xs.contains a <;> simp_all

/-! ### filters versus lookups on a graph with unique ids -/

theorem filter_or_perm {α} (p q : α → Bool) (hd : ∀ x, p x = true → q x = false) :
    ∀ l : List α, (l.filter (fun x => p x || q x)).Perm (l.filter p ++ l.filter q)
  | [] => by simp
  | x :: l => by
    have ih := filter_or_perm p q hd l
    cases hp : p x
    · cases hq : q x
      · simpa [List.filter_cons, hp, hq] using ih
      · simp only [List.filter_cons, hp, hq, Bool.or_true, if_true, Bool.false_eq_true, if_false]
        exact (ih.cons x).trans List.perm_middle.symm
    · have hq := hd x hp
      simp only [List.filter_cons, hp, hq, Bool.or_false, if_true, Bool.false_eq_true, if_false,
        List.cons_append]
      exact ih.cons x

theorem filter_gid_eq (a : String) : ∀ (vs : List Elem), (vs.map (·.gid)).Nodup →
    vs.filter (fun v => v.gid == a) = (vs.find? (fun v => v.gid == a)).toList
  | [], _ => by simp
  | v :: vs, hn => by
    simp only [List.map_cons, List.nodup_cons] at hn
    cases hv : (v.gid == a)
    · simp [List.filter_cons, List.find?_cons, hv, filter_gid_eq a vs hn.2]
    · have hva : v.gid = a := by simpa using hv
      have : vs.filter (fun w => w.gid == a) = [] := by
        simp only [List.filter_eq_nil_iff]
        intro w hw hwa
        have : w.gid = a := by simpa using hwa
        exact hn.1 (by rw [hva, ← this]; exact List.mem_map_of_mem hw)
      simp [List.filter_cons, List.find?_cons, hv, this]

/-- On a graph with unique vertex ids: the vertices a `hasId`-style filter keeps are, up to
    order, the vertices an id lookup over the (duplicate-free) list returns. -/
theorem filter_ids_perm (g : AGraph) (hg : (g.verts.map (·.gid)).Nodup) :
    ∀ ids : List String, ids.Nodup →
      (g.verts.filter (fun v => ids.contains v.gid)).Perm (ids.filterMap g.getVertex)
  | [], _ => by simp
  | a :: ids, hn => by
    simp only [List.nodup_cons] at hn
    have ih := filter_ids_perm g hg ids hn.2
    have hsplit := filter_or_perm (fun v : Elem => v.gid == a) (fun v => ids.contains v.gid)
      (by
        intro v hv
        have : v.gid = a := by simpa using hv
        simp only [this]
        simpa using hn.1) g.verts
    have hfun : (fun v : Elem => (a :: ids).contains v.gid)
        = (fun v : Elem => v.gid == a || ids.contains v.gid) := by
      funext v; by_cases h : v.gid = a <;> simp [List.contains_cons, h]
    rw [hfun]
    refine hsplit.trans ?_
    rw [filter_gid_eq a g.verts hg]
    unfold AGraph.getVertex at *
    cases hf : g.verts.find? (fun v => v.gid == a) with
    | none => simpa [List.filterMap_cons, hf] using ih
    | some v => simpa [List.filterMap_cons, hf] using ih.cons v

theorem getVertex_self (g : AGraph) (hg : (g.verts.map (·.gid)).Nodup) (v : Elem) (hv : v ∈ g.verts) :
    g.getVertex v.gid = some v := by
  have h := filter_gid_eq v.gid g.verts hg
  unfold AGraph.getVertex
  cases hf : g.verts.find? (fun w => w.gid == v.gid) with
  | none =>
    have := List.find?_eq_none.1 hf v hv
    simp at this
  | some w =>
    rw [hf] at h
    have hmem : v ∈ g.verts.filter (fun w => w.gid == v.gid) := by simp [List.mem_filter, hv]
    rw [h] at hmem
    simp at hmem
    rw [hmem]

theorem labelScan_fetch (g : AGraph) (hg : (g.verts.map (·.gid)).Nodup) (l : String) :
    (labelScan g l).filterMap g.getVertex = g.verts.filter (fun v => v.label == l) := by
  unfold labelScan
  rw [List.filterMap_map]
  have : ∀ (vs : List Elem), (∀ v ∈ vs, v ∈ g.verts) →
      vs.filterMap (g.getVertex ∘ fun v => v.gid) = vs := by
    intro vs
    induction vs with
    | nil => simp
    | cons v vs ih =>
      intro h
      have hv := getVertex_self g hg v (h v (List.mem_cons_self))
      simp only [List.filterMap_cons, Function.comp, hv]
      rw [ih (fun w hw => h w (List.mem_cons_of_mem _ hw))]
  exact this _ (fun v hv => (List.mem_filter.1 hv).1)

/-- … and the vertices a `hasLabel`-style filter keeps are, up to order, what the label-index
    lookup returns (scan of each label, then fetch). -/
theorem filter_labels_perm (g : AGraph) (hg : (g.verts.map (·.gid)).Nodup) :
    ∀ ls : List String, ls.Nodup →
      (g.verts.filter (fun v => ls.contains v.label)).Perm
        (ls.flatMap fun l => (labelScan g l).filterMap g.getVertex)
  | [], _ => by simp
  | a :: ls, hn => by
    simp only [List.nodup_cons] at hn
    have ih := filter_labels_perm g hg ls hn.2
    have hsplit := filter_or_perm (fun v : Elem => v.label == a) (fun v => ls.contains v.label)
      (by
        intro v hv
        have : v.label = a := by simpa using hv
        simp only [this]
        simpa using hn.1) g.verts
    have hfun : (fun v : Elem => (a :: ls).contains v.label)
        = (fun v : Elem => v.label == a || ls.contains v.label) := by
      funext v; by_cases h : v.label = a <;> simp [List.contains_cons, h]
    rw [hfun, List.flatMap_cons, labelScan_fetch g hg a]
    exact hsplit.trans (List.Perm.append_left _ ih)

end Grip.Props.C02.Lemmas
