import Grip.Model.C12
import GripProofs.Lemmas.C12Proto

/-! Shutdown phase: once no traveler is left, the signal circulation terminates. -/
set_option linter.unusedSimpArgs false
namespace Grip.Props.C12.Lemmas
open Grip.C12

variable {T : Type}

/-- Remaining hops of the signals in the cycle (a signal in channel `i` has `n - i` stages and one
    receive before it). -/
def sigDist (n : Nat) : List (Nat × Msg T) → Nat
  | [] => 0
  | (i, .sig _) :: r => (n + 1 - i) + sigDist n r
  | (_, .trav _) :: r => sigDist n r

/-- Bound on the number of non-idle steps left once the travelers are gone. -/
def shutRank (sys : List (Stage T)) (s : State T) : Nat :=
  sigDist sys.length s.W + (if s.signalOutdated then sys.length + 2 else 0)
    + (if s.signalActive then 0 else sys.length + 2)

/-- No traveler anywhere: main input exhausted and closed, no traveler in any cycle channel. -/
def Quiescent (s : State T) : Prop :=
  s.phase = .closing ∧ s.inp = [] ∧ travCount s.W = 0

theorem travCount_append (A B : List (Nat × Msg T)) : travCount (A ++ B) = travCount A + travCount B := by
  induction A with
  | nil => simp [travCount]
  | cons x r ih =>
    obtain ⟨i, m⟩ := x
    cases m <;> simp [travCount, ih] <;> omega

theorem sigDist_append (n : Nat) (A B : List (Nat × Msg T)) :
    sigDist n (A ++ B) = sigDist n A + sigDist n B := by
  induction A with
  | nil => simp [sigDist]
  | cons x r ih =>
    obtain ⟨i, m⟩ := x
    cases m <;> simp [sigDist, ih] <;> omega

theorem empty_of_counts {W : List (Nat × Msg T)} (h1 : sigCount W = 0) (h2 : travCount W = 0) : W = [] := by
  cases W with
  | nil => rfl
  | cons x r =>
    obtain ⟨i, m⟩ := x
    cases m <;> simp [sigCount, travCount] at h1 h2

theorem shutdown_step {sys : List (Stage T)} {l : Label} {s s' : State T}
    (inv : ProtoInv s) (hq : Quiescent s) (hs : Step sys l s s') :
    s' = s ∨ s'.phase = .closed ∨ (Quiescent s' ∧ shutRank sys s' < shutRank sys s) := by
  obtain ⟨hp, hi, ht⟩ := hq
  have hne : s.phase ≠ .closed := by simp [hp]
  have hrc := inv.rc hne
  have hw := inv.w hne
  cases hs with
  | stageTrav hW hA hst =>
    rw [hW] at ht
    simp [travCount_append, travCount] at ht
  | @stageSig _ A B i k st hW hA hst =>
    obtain ⟨hlt, _⟩ := List.getElem?_eq_some_iff.mp hst
    rw [hW] at ht
    simp only [travCount_append, travCount] at ht
    refine Or.inr (Or.inr ⟨⟨hp, hi, ?_⟩, ?_⟩)
    · simp [travCount_append, travCount]; omega
    · simp only [shutRank, hW, sigDist_append, sigDist]
      omega
  | openJump hp' hW => simp [hp] at hp'
  | openIn hp' hN hI => simp [hp] at hp'
  | openClose hp' hN hI => simp [hp] at hp'
  | closeTrav hp' hW =>
    rw [hW] at ht
    simp [travCount] at ht
  | @closeSig _ k B hp' hW =>
    rw [hW] at ht
    simp only [travCount] at ht
    simp only [WInv, hW] at hw
    cases ha : s.signalActive with
    | false => simp [ha, sigCount] at hw
    | true =>
      simp only [ha, if_true, sigCount] at hw
      obtain ⟨hc1, hc2⟩ := hw
      have hB : B = [] := empty_of_counts (by omega) ht
      subst hB
      cases ho : s.signalOutdated with
      | false => exact Or.inr (Or.inl (by simp [markDecide, ha, ho, hrc]))
      | true =>
        refine Or.inr (Or.inr ⟨⟨?_, ?_, ?_⟩, ?_⟩)
        · simp [markDecide, ha, ho, hrc, hp]
        · simp [markDecide, ha, ho, hrc, hi]
        · simp [markDecide, ha, ho, hrc, travCount]
        · simp [shutRank, markDecide, ha, ho, hrc, hW, sigDist]
          omega
  | closePoll hp' hN =>
    cases ha : s.signalActive with
    | true =>
      exact Or.inl (by simp [markDecide, ha, hrc])
    | false =>
      have ho := inv.flags ha
      simp only [WInv, ha] at hw
      have hWe : s.W = [] := empty_of_counts (by simpa using hw) ht
      refine Or.inr (Or.inr ⟨⟨?_, ?_, ?_⟩, ?_⟩)
      · simp [markDecide, ha, ho, hp]
      · simp [markDecide, ha, ho, hi]
      · simp [markDecide, ha, ho, hWe, travCount]
      · simp [shutRank, markDecide, ha, ho, hWe, sigDist]

end Grip.Props.C12.Lemmas
