/-
  Lemmas.C03Cache — the HISTORY-level reading of the timestamp: lemmas.

  * `Sys`: anything that steps over `Op` and whose timestamp part (`C18.TS`) is left alone or touched
    on the graph the operation names.  The MODEL (`modelSys`) and the SPEC (`specSys`) are instances,
    so every fact about stamps along a history is proved once.
  * `content a g`: the part of the abstract graph store that belongs to graph `g`; every SPEC read
    of `g` is a function of it (`specReads_of_content`), and an operation that is not a write to `g`
    leaves it alone (`content_of_not_wrote`).
  * moments of a history are prefixes (`List.take`); `take_split`, `getElem?_mid` move between
    "prefix i, prefix j" and "state at i, the operations between".
  * recorders (`Grip.C03.Cache.Recorder`): the laws of `alookup/aset/adel`, `PerName`, `PerNameT`.
-/
import Grip.Model.C03Cache
import GripProofs.Props.C03
import GripProofs.Props.C18Stamp

namespace Grip.Props.C03
open Grip Grip.C03 Grip.C03.Spec Grip.Props.C03.Lemmas
open Grip.Props.C18 (TS)

namespace Lemmas

/-! ### the three copies of "the graph an operation names" agree -/

theorem opGraph_c18 (op : Op) : C18.opGraph op = opGraph op := by cases op <;> rfl
theorem opName_eq (op : Op) : Cache.opName op = opGraph op := by cases op <;> rfl

/-! ### prefixes -/

theorem take_split {α : Type} (l : List α) {i j : Nat} (h : i ≤ j) :
    l.take j = l.take i ++ (l.take j).drop i := by
  have h1 : (l.take j).take i = l.take i := by rw [List.take_take, Nat.min_eq_left h]
  rw [← h1, List.take_append_drop]

/-- the `k`-th operation after moment `i`, inside the window `[i, j)` -/
theorem getElem?_mid {α : Type} (l : List α) (i j k : Nat) :
    ((l.take j).drop i)[k]? = if i + k < j then l[i + k]? else none := by
  rw [List.getElem?_drop, List.getElem?_take]

theorem take_mid {α : Type} (l : List α) {i j : Nat} (k : Nat) (h : i + k ≤ j) :
    l.take i ++ ((l.take j).drop i).take k = l.take (i + k) := by
  have e : ((l.take j).drop i).take k = (l.take (i + k)).drop i := by
    rw [List.take_drop, List.take_take, Nat.min_eq_left h]
  rw [e, ← take_split l (Nat.le_add_right i k)]

theorem getElem?_eq_split {α : Type} (l : List α) (k : Nat) (o : α) (h : l[k]? = some o) :
    l = l.take k ++ o :: l.drop (k + 1) := by
  obtain ⟨hk, rfl⟩ := List.getElem?_eq_some_iff.1 h
  rw [List.getElem_cons_drop, List.take_append_drop]

end Lemmas

/-! ### systems whose timestamp part is driven by touches -/

structure Sys (σ : Type) where
  step : σ → Op → σ
  ts : σ → TS
  law : ∀ x o, ts (step x o) = ts x ∨ ts (step x o) = (ts x).touch (opGraph o)

namespace Sys
variable {σ : Type} (S : Sys σ)

def run (x : σ) (ops : List Op) : σ := ops.foldl S.step x

/-- the state after the first `i` operations -/
def after (x : σ) (ops : List Op) (i : Nat) : σ := S.run x (ops.take i)

def stamp (x : σ) (g : String) : Option Nat := (S.ts x).stamp g

/-- the operation touched the stamp of `g`: it names `g` and the clock ticked -/
def Touched (x : σ) (o : Op) (g : String) : Prop :=
  g = opGraph o ∧ (S.ts (S.step x o)).clock ≠ (S.ts x).clock

/-- the graphs touched along a history, in order -/
def touchList : σ → List Op → List String
  | _, [] => []
  | x, o :: os =>
    (if (S.ts (S.step x o)).clock = (S.ts x).clock then [] else [opGraph o]) ++ touchList (S.step x o) os

/-- no operation of the list, run from `x`, touches `g` -/
def NoTouch : σ → List Op → String → Prop
  | _, [], _ => True
  | x, o :: os, g => ¬ S.Touched x o g ∧ NoTouch (S.step x o) os g

theorem run_nil (x : σ) : S.run x [] = x := rfl
theorem run_cons (x : σ) (o : Op) (os : List Op) : S.run x (o :: os) = S.run (S.step x o) os := rfl
theorem run_append (x : σ) (as bs : List Op) : S.run x (as ++ bs) = S.run (S.run x as) bs := by
  simp [run, List.foldl_append]

theorem at_zero (x : σ) (ops : List Op) : S.after x ops 0 = x := rfl

theorem at_split (x : σ) (ops : List Op) {i j : Nat} (h : i ≤ j) :
    S.after x ops j = S.run (S.after x ops i) ((ops.take j).drop i) := by
  unfold Sys.after
  rw [← run_append, ← take_split ops h]

theorem at_mid (x : σ) (ops : List Op) {i j : Nat} (k : Nat) (h : i + k ≤ j) :
    S.run (S.after x ops i) (((ops.take j).drop i).take k) = S.after x ops (i + k) := by
  unfold Sys.after
  rw [← run_append, take_mid ops k h]

theorem at_succ (x : σ) (ops : List Op) (k : Nat) (o : Op) (h : ops[k]? = some o) :
    S.after x ops (k + 1) = S.step (S.after x ops k) o := by
  unfold Sys.after
  obtain ⟨hk, rfl⟩ := List.getElem?_eq_some_iff.1 h
  rw [List.take_succ_eq_append_getElem hk, run_append]; rfl

/-- the step either leaves the clock or ticks it by one -/
theorem clock_step (x : σ) (o : Op) :
    ((S.ts (S.step x o)).clock = (S.ts x).clock ∧ S.ts (S.step x o) = S.ts x) ∨
    ((S.ts (S.step x o)).clock ≠ (S.ts x).clock ∧ S.ts (S.step x o) = (S.ts x).touch (opGraph o)) := by
  rcases S.law x o with h | h
  · exact Or.inl ⟨by rw [h], h⟩
  · exact Or.inr ⟨by rw [h, TS.clock_touch]; omega, h⟩

theorem ts_run (ops : List Op) : ∀ x : σ, S.ts (S.run x ops) = (S.ts x).touches (S.touchList x ops) := by
  induction ops with
  | nil => intro x; rfl
  | cons o os ih =>
    intro x
    rw [run_cons, ih, touchList]
    rcases S.clock_step x o with ⟨h1, h2⟩ | ⟨h1, h2⟩
    · rw [if_pos h1, h2]; rfl
    · rw [if_neg h1, h2]; rfl

theorem OK_run (x : σ) (ops : List Op) (h : (S.ts x).OK) : (S.ts (S.run x ops)).OK := by
  rw [ts_run]; exact TS.OK_touches _ _ h

theorem OK_at (x : σ) (ops : List Op) (i : Nat) (h : (S.ts x).OK) : (S.ts (S.after x ops i)).OK :=
  S.OK_run x _ h

theorem mem_touchList (ops : List Op) (g : String) : ∀ x : σ,
    g ∈ S.touchList x ops ↔ ¬ S.NoTouch x ops g := by
  induction ops with
  | nil => intro x; simp [touchList, NoTouch]
  | cons o os ih =>
    intro x
    rw [touchList, List.mem_append, ih, NoTouch, Touched]
    by_cases hc : (S.ts (S.step x o)).clock = (S.ts x).clock
    · simp [hc]
    · by_cases hg : g = opGraph o
      · simp [hc, hg]
      · simp [hc, hg]

/-- `NoTouch` by position -/
theorem noTouch_iff (ops : List Op) (g : String) : ∀ x : σ,
    S.NoTouch x ops g ↔ ∀ k o, ops[k]? = some o → ¬ S.Touched (S.run x (ops.take k)) o g := by
  induction ops with
  | nil => intro x; simp [NoTouch]
  | cons o os ih =>
    intro x
    rw [NoTouch, ih]
    constructor
    · rintro ⟨h0, hr⟩ k o' hk
      cases k with
      | zero =>
        simp only [List.getElem?_cons_zero, Option.some.injEq] at hk
        subst hk; exact h0
      | succ k =>
        simp only [List.getElem?_cons_succ] at hk
        exact hr k o' hk
    · intro h
      exact ⟨h 0 o rfl, fun k o' hk => h (k + 1) o' (by simpa using hk)⟩

/-! #### one step -/

/-- For a table below its clock: the stamp of `g` changes across a step iff the step touched `g`. -/
theorem stamp_step_ne_iff (x : σ) (o : Op) (g : String) (h : (S.ts x).OK) :
    S.stamp (S.step x o) g ≠ S.stamp x g ↔ S.Touched x o g := by
  unfold stamp Touched
  rcases S.clock_step x o with ⟨h1, h2⟩ | ⟨h1, h2⟩
  · rw [h2]; simp
  · rw [h2]
    have := TS.stamp_touches_ne_iff (S.ts x) [opGraph o] h g
    rw [TS.touches_single] at this
    rw [this]
    simp only [List.mem_singleton]
    constructor
    · intro hg; exact ⟨hg, by rw [← h2]; exact h1⟩
    · exact fun hg => hg.1

/-- a touch hands out the next clock value -/
theorem stamp_of_touched (x : σ) (o : Op) (g : String) (h : S.Touched x o g) :
    S.stamp (S.step x o) g = some ((S.ts x).clock + 1) := by
  unfold stamp
  rcases S.clock_step x o with ⟨h1, _⟩ | ⟨_, h2⟩
  · exact absurd h1 h.2
  · rw [h2, h.1, TS.stamp_touch_self]

/-! #### between two moments -/

/-- the stamp of `g` is the same before and after a list of operations iff none of them touched `g` -/
theorem stamp_run_eq_iff (x : σ) (mid : List Op) (g : String) (h : (S.ts x).OK) :
    S.stamp (S.run x mid) g = S.stamp x g ↔ S.NoTouch x mid g := by
  unfold stamp
  rw [ts_run]
  have := TS.stamp_touches_ne_iff (S.ts x) (S.touchList x mid) h g
  rw [mem_touchList] at this
  constructor
  · intro he; exact Classical.byContradiction fun hn => (this.2 hn) he
  · intro hn; exact Classical.byContradiction fun hne => (this.1 hne) hn

/-- stamps never go back and never disappear -/
theorem stamp_run_mono (x : σ) (mid : List Op) (g : String) (h : (S.ts x).OK) (n : Nat)
    (hn : S.stamp x g = some n) : ∃ m, S.stamp (S.run x mid) g = some m ∧ n ≤ m := by
  unfold stamp; rw [ts_run]
  exact TS.stamp_touches_mono _ _ h g n hn

/-- after a touch of `g` the stamp of `g` is above the old clock, hence above every stamp of every
    name in the old table -/
theorem stamp_run_fresh (x : σ) (mid : List Op) (g : String) (h : (S.ts x).OK)
    (ht : ¬ S.NoTouch x mid g) :
    ∃ m, S.stamp (S.run x mid) g = some m ∧ (S.ts x).clock < m ∧
      ∀ g' n, S.stamp x g' = some n → n < m := by
  unfold stamp; rw [ts_run]
  obtain ⟨m, h1, h2, _⟩ := TS.stamp_touches_mem (S.ts x) _ g ((S.mem_touchList mid g x).2 ht)
  refine ⟨m, h1, h2, ?_⟩
  intro g' n hn
  have := TS.stamp_le_clock (S.ts x) h g' n hn
  omega

/-- `NoTouch` for the window `[i, j)` of a history, by position -/
theorem noTouch_window (x : σ) (ops : List Op) (g : String) {i j : Nat} (_hij : i ≤ j) :
    S.NoTouch (S.after x ops i) ((ops.take j).drop i) g ↔
      ∀ k o, i ≤ k → k < j → ops[k]? = some o → ¬ S.Touched (S.after x ops k) o g := by
  rw [noTouch_iff]
  constructor
  · intro h k o hik hkj hk
    obtain ⟨d, rfl⟩ := Nat.exists_eq_add_of_le hik
    have := h d o (by rw [getElem?_mid, if_pos hkj]; exact hk)
    rwa [S.at_mid x ops d (Nat.le_of_lt hkj)] at this
  · intro h d o hd
    rw [getElem?_mid] at hd
    by_cases c : i + d < j
    · rw [if_pos c] at hd
      rw [S.at_mid x ops d (Nat.le_of_lt c)]
      exact h (i + d) o (Nat.le_add_right _ _) c hd
    · rw [if_neg c] at hd; cases hd

/-- no operation number `i`, …, `j - 1` of the history touches `g` -/
def NoTouchIn (x : σ) (ops : List Op) (g : String) (i j : Nat) : Prop :=
  ∀ k o, i ≤ k → k < j → ops[k]? = some o → ¬ S.Touched (S.after x ops k) o g

/-- Stamps along a history, between two moments i ≤ j: never smaller, never lost; equal iff no
    touch between; and iff there is a touch between, the later stamp is above the clock of moment
    i, hence above every stamp any name had at moment i. -/
theorem stamps_increase (x : σ) (h : (S.ts x).OK) (ops : List Op) (g : String) {i j : Nat}
    (hij : i ≤ j) :
    (∀ n, S.stamp (S.after x ops i) g = some n →
      ∃ m, S.stamp (S.after x ops j) g = some m ∧ n ≤ m) ∧
    (S.NoTouchIn x ops g i j ↔ S.stamp (S.after x ops j) g = S.stamp (S.after x ops i) g) ∧
    (¬ S.NoTouchIn x ops g i j ↔
      ∃ m, S.stamp (S.after x ops j) g = some m ∧ (S.ts (S.after x ops i)).clock < m ∧
        ∀ g' n, S.stamp (S.after x ops i) g' = some n → n < m) := by
  have hi : (S.ts (S.after x ops i)).OK := S.OK_at x ops i h
  have hw : S.NoTouchIn x ops g i j ↔ S.NoTouch (S.after x ops i) ((ops.take j).drop i) g :=
    (S.noTouch_window x ops g hij).symm
  have hiff : S.NoTouchIn x ops g i j ↔
      S.stamp (S.after x ops j) g = S.stamp (S.after x ops i) g := by
    rw [hw, S.at_split x ops hij]; exact (S.stamp_run_eq_iff _ _ g hi).symm
  refine ⟨?_, hiff, ?_⟩
  · intro n hn
    rw [S.at_split x ops hij]
    exact S.stamp_run_mono _ _ g hi n hn
  · constructor
    · intro hnt
      rw [hw] at hnt
      rw [S.at_split x ops hij]
      exact S.stamp_run_fresh _ _ g hi hnt
    · rintro ⟨m, hm, hc, _⟩ hnt
      rw [hiff.1 hnt] at hm
      have := TS.stamp_le_clock _ hi g m hm
      omega

end Sys

/-! ### the two instances -/

/-- the MODEL: `Grip.C03.step`, timestamp part `(stamps, clock)` -/
def modelSys : Sys KState where
  step s o := (step s o).1
  ts := C18.ts
  law s o := by
    have := C18.step_ts s o
    rwa [opGraph_c18] at this

/-- the timestamp part of an abstract state -/
def ats (a : AG) : TS := ⟨a.stamps, a.clock⟩

/-- every stamp of the abstract table is ≤ the clock (`Refines.stampLe`; `C18.ClockOK` for the SPEC) -/
def AClockOK (a : AG) : Prop := ∀ p, p ∈ a.stamps → p.2 ≤ a.clock

namespace Lemmas

theorem aclockOK_iff (a : AG) : AClockOK a ↔ (ats a).OK := Iff.rfl

theorem ats_addElems (a : AG) (g : String) (xs : List ElemIn) :
    ats (Spec.addElems a g xs).1 =
      if a.graphs.contains g && xs.any validElem then (ats a).touch g else ats a := by
  unfold Spec.addElems
  cases hg : a.graphs.contains g with
  | false => simp
  | true =>
    simp only [Bool.not_true, Bool.false_eq_true, ↓reduceIte, Bool.true_and, putAll_anyOk]
    have hs := putAll_stamps g xs a
    cases xs.any validElem with
    | false => simp [ats, hs.1, hs.2]
    | true => simp [ats, AG.touch, TS.touch, hs.1, hs.2]

theorem spec_law (a : AG) (op : Op) :
    ats (specStep a op).1 = ats a ∨ ats (specStep a op).1 = (ats a).touch (opGraph op) := by
  cases op with
  | addGraph g =>
    unfold specStep opGraph
    by_cases hv : validName g = true
    · right; simp only [hv, Bool.not_true, Bool.false_eq_true, ↓reduceIte]; rfl
    · left; simp only [Bool.not_eq_true] at hv; simp [hv]
  | delGraph g => right; rfl
  | addV g vs =>
    have e : (specStep a (.addV g vs)).1 = (Spec.addElems a g (vs.map .v)).1 := rfl
    rw [e, ats_addElems]; split <;> simp [opGraph]
  | addE g es =>
    have e : (specStep a (.addE g es)).1 = (Spec.addElems a g (es.map .e)).1 := rfl
    rw [e, ats_addElems]; split <;> simp [opGraph]
  | bulk g xs =>
    have e : (specStep a (.bulk g xs)).1 = (Spec.addElems a g (xs)).1 := rfl
    rw [e, ats_addElems]; split <;> simp [opGraph]
  | delV g id =>
    rw [specStep_delV]
    split
    · exact Or.inl rfl
    · exact Or.inr rfl
  | delE g eid =>
    rw [specStep_delE]
    split
    · exact Or.inl rfl
    · split
      · exact Or.inl rfl
      · exact Or.inr rfl

end Lemmas

/-- the SPEC: `Grip.C03.Spec.specStep` -/
def specSys : Sys AG where
  step a o := (specStep a o).1
  ts := ats
  law := Lemmas.spec_law

theorem specSys_run (a : AG) (ops : List Op) : specSys.run a ops = specRun a ops := rfl
theorem modelSys_run (s : KState) (ops : List Op) : modelSys.run s ops = run s ops := rfl
theorem specSys_stamp (a : AG) (g : String) : specSys.stamp a g = a.stamp g := rfl
theorem modelSys_stamp (s : KState) (g : String) : modelSys.stamp s g = s.stamp g := rfl
theorem specSys_step (a : AG) (o : Op) : specSys.step a o = (specStep a o).1 := rfl
theorem modelSys_step (s : KState) (o : Op) : modelSys.step s o = (step s o).1 := rfl

/-- SPEC, for a table below its clock: "write to `g`" (`Wrote`) and "the operation names `g` and
    the clock ticked" are the same thing. -/
theorem wrote_iff_touched {a : AG} (h : AClockOK a) (op : Op) (g : String) :
    Wrote a op g ↔ specSys.Touched a op g :=
  (Lemmas.spec_stamp_iff h op g).symm.trans (specSys.stamp_step_ne_iff a op g h)

/-- MODEL against SPEC, one step from related states: the model touches `g` iff the operation is a
    write to `g`. -/
theorem touched_iff_wrote {s : KState} {a : AG} (h : Refines s a) (op : Op) (g : String) :
    modelSys.Touched s op g ↔ Wrote a op g := by
  have hok : (modelSys.ts s).OK := by
    intro p hp
    have hp' : p ∈ s.stamps := hp
    rw [h.stamps] at hp'
    have := h.stampLe p hp'
    show p.2 ≤ s.clock
    rw [h.clock]; exact this
  exact (modelSys.stamp_step_ne_iff s op g hok).symm.trans (timestamp_iff_write h op g).1

/-! ### the content of one graph in the abstract store -/

/-- what the abstract store holds for graph `g`: whether it is listed, its vertices, its edges -/
structure GContent where
  listed : Bool
  verts : List ((String × String) × VRec)
  edges : List ((String × String) × ERec)
  deriving DecidableEq, Repr

def content (a : AG) (g : String) : GContent :=
  ⟨a.graphs.contains g, a.verts.filter (fun p => p.1.1 = g), a.edges.filter (fun p => p.1.1 = g)⟩

/-- the content of a graph that is not there -/
def GContent.empty : GContent := ⟨false, [], []⟩

namespace Lemmas

theorem filter_filter_of_imp {α : Type} (l : List α) (p q : α → Bool)
    (h : ∀ x, p x = true → q x = true) : (l.filter q).filter p = l.filter p := by
  rw [List.filter_filter]
  apply List.filter_congr
  intro x _
  cases hp : p x with
  | false => simp
  | true => simp [h x hp]

theorem content_touch (a : AG) (g0 g : String) : content (a.touch g0) g = content a g := rfl

theorem content_congr {a b : AG} (g : String) (hg : b.graphs.contains g = a.graphs.contains g)
    (hv : b.verts.filter (fun p => p.1.1 = g) = a.verts.filter (fun p => p.1.1 = g))
    (he : b.edges.filter (fun p => p.1.1 = g) = a.edges.filter (fun p => p.1.1 = g)) :
    content b g = content a g := by
  simp only [content, hg, hv, he]

theorem contains_filter_ne (l : List String) {g g0 : String} (h : g ≠ g0) :
    (l.filter (· ≠ g0)).contains g = l.contains g := by
  rw [Bool.eq_iff_iff]
  simp only [List.contains_iff_mem, List.mem_filter, ne_eq, decide_not, Bool.not_eq_eq_eq_not,
    Bool.not_true, decide_eq_false_iff_not]
  exact ⟨fun x => x.1, fun x => ⟨x, h⟩⟩

theorem contains_cons_filter_ne (l : List String) {g g0 : String} (h : g ≠ g0) :
    (g0 :: l.filter (· ≠ g0)).contains g = l.contains g := by
  rw [List.contains_cons, contains_filter_ne l h]
  simp [h]

/-- filtering out keys of another graph does not change what belongs to `g` -/
theorem filter_graph_other {β : Type} (l : List ((String × String) × β)) (q : (String × String) × β → Bool)
    (g : String) (h : ∀ x, x.1.1 = g → q x = true) :
    (l.filter q).filter (fun p => p.1.1 = g) = l.filter (fun p => p.1.1 = g) :=
  filter_filter_of_imp l _ q (fun x hx => h x (by simpa using hx))

theorem putElem_content_ne (a : AG) {g g0 : String} (h : g ≠ g0) (x : ElemIn) :
    content (putElem a g0 x).1 g = content a g := by
  cases x with
  | v x =>
    simp only [putElem]
    split
    · apply content_congr (a := a) g
      case hg => rfl
      case he => rfl
      show (((g0, x.gid), _) :: a.verts.filter _).filter _ = _
      rw [List.filter_cons_of_neg (by simpa using fun e : g0 = g => h e.symm)]
      apply filter_graph_other
      intro p hp
      simp only [decide_not, Bool.not_eq_eq_eq_not, Bool.not_true, decide_eq_false_iff_not]
      intro e; rw [e] at hp; exact h hp.symm
    · rfl
  | e x =>
    simp only [putElem]
    split
    · apply content_congr (a := a) g
      · rfl
      · rfl
      show (((g0, x.gid), _) :: a.edges.filter _).filter _ = _
      rw [List.filter_cons_of_neg (by simpa using fun e : g0 = g => h e.symm)]
      apply filter_graph_other
      intro p hp
      simp only [decide_not, Bool.not_eq_eq_eq_not, Bool.not_true, decide_eq_false_iff_not]
      intro e; rw [e] at hp; exact h hp.symm
    · rfl

theorem putAll_content_ne {g g0 : String} (h : g ≠ g0) (xs : List ElemIn) :
    ∀ a : AG, content (putAll g0 a xs).1 g = content a g := by
  induction xs with
  | nil => intro a; rfl
  | cons x xs ih => intro a; simp only [putAll]; rw [ih, putElem_content_ne a h]

theorem putElem_invalid (a : AG) (g : String) (x : ElemIn) (h : validElem x = false) :
    putElem a g x = (a, false) := by
  cases x with
  | v x => simp only [validElem] at h; simp [putElem, h]
  | e x => simp only [validElem] at h; simp [putElem, h]

theorem putAll_none_valid (g : String) (xs : List ElemIn) (h : xs.any validElem = false) :
    ∀ a : AG, (putAll g a xs).1 = a := by
  induction xs with
  | nil => intro a; rfl
  | cons x xs ih =>
    intro a
    simp only [List.any_cons, Bool.or_eq_false_iff] at h
    simp only [putAll, putElem_invalid a g x h.1]
    exact ih h.2 a

theorem addElems_content (a : AG) (g0 g : String) (xs : List ElemIn)
    (h : ¬ (g = g0 ∧ g0 ∈ a.graphs ∧ xs.any validElem = true)) :
    content (Spec.addElems a g0 xs).1 g = content a g := by
  unfold Spec.addElems
  cases hg : a.graphs.contains g0 with
  | false => rfl
  | true =>
    simp only [Bool.not_true, Bool.false_eq_true, ↓reduceIte, putAll_anyOk]
    cases hv : xs.any validElem with
    | false => simp only [Bool.false_eq_true, ↓reduceIte]; rw [putAll_none_valid g0 xs hv]
    | true =>
      simp only [↓reduceIte]
      have hne : g ≠ g0 := fun e => h ⟨e, by simpa using hg, hv⟩
      rw [content_touch, putAll_content_ne hne]

/-- SPEC, one step: an operation that is not a write to `g` leaves the content of `g` alone. -/
theorem content_of_not_wrote (a : AG) (op : Op) (g : String) (h : ¬ Wrote a op g) :
    content (specStep a op).1 g = content a g := by
  cases op with
  | addGraph g0 =>
    unfold Wrote at h
    unfold specStep
    by_cases hv : validName g0 = true
    · have hne : g ≠ g0 := fun e => h ⟨e, hv⟩
      simp only [hv, Bool.not_true, Bool.false_eq_true, ↓reduceIte]
      exact content_congr g (contains_cons_filter_ne a.graphs hne) rfl rfl
    · simp only [Bool.not_eq_true] at hv; simp [hv]
  | delGraph g0 =>
    have hne : g ≠ g0 := h
    unfold specStep
    apply content_congr g (contains_filter_ne a.graphs hne)
    · apply filter_graph_other
      intro p hp; simpa [hp] using hne
    · apply filter_graph_other
      intro p hp; simpa [hp] using hne
  | addV g0 vs => exact addElems_content a g0 g _ h
  | addE g0 es => exact addElems_content a g0 g _ h
  | bulk g0 xs => exact addElems_content a g0 g xs h
  | delV g0 id =>
    unfold Wrote at h
    rw [specStep_delV]
    cases hg : a.graphs.contains g0 with
    | false => rfl
    | true =>
      have hne : g ≠ g0 := fun e => h ⟨e, by simpa using hg⟩
      simp only [Bool.not_true, Bool.false_eq_true, ↓reduceIte]
      apply content_congr (a := a) g
      · rfl
      · apply filter_graph_other
        intro p hp
        simp only [decide_not, Bool.not_eq_eq_eq_not, Bool.not_true, decide_eq_false_iff_not]
        intro e; rw [e] at hp; exact hne hp.symm
      · apply filter_graph_other
        intro p hp
        simp only [decide_not, Bool.not_eq_eq_eq_not, Bool.not_true, decide_eq_false_iff_not]
        intro e; exact hne (hp.symm.trans e.1)
  | delE g0 eid =>
    unfold Wrote at h
    rw [specStep_delE]
    cases hg : a.graphs.contains g0 with
    | false => rfl
    | true =>
      simp only [Bool.not_true, Bool.false_eq_true, ↓reduceIte]
      cases he : a.getE g0 eid with
      | none => rfl
      | some r =>
        have hne : g ≠ g0 := fun e => h ⟨e, by simpa using hg, by simp [he]⟩
        simp only
        apply content_congr (a := a) g
        · rfl
        · rfl
        apply filter_graph_other
        intro p hp
        simp only [decide_not, Bool.not_eq_eq_eq_not, Bool.not_true, decide_eq_false_iff_not]
        intro e; rw [e] at hp; exact hne hp.symm

end Lemmas

/-! ### every read of `g` is a function of the content of `g` -/

/-- Everything the SPEC lets a client read of graph `g` is the same in `a` and in `b`. -/
def SpecSameReads (a b : AG) (g : String) : Prop :=
  (∀ id, Spec.getVertex a g id = Spec.getVertex b g id) ∧
  (∀ eid, Spec.getEdge a g eid = Spec.getEdge b g eid) ∧
  Spec.vertexList a g = Spec.vertexList b g ∧
  Spec.edgeList a g = Spec.edgeList b g ∧
  (∀ id labels, Spec.outV a g id labels = Spec.outV b g id labels) ∧
  (∀ id labels, Spec.inV a g id labels = Spec.inV b g id labels) ∧
  (∀ id labels, Spec.outE a g id labels = Spec.outE b g id labels) ∧
  (∀ id labels, Spec.inE a g id labels = Spec.inE b g id labels) ∧
  (∀ label, Spec.verticesWithLabel a g label = Spec.verticesWithLabel b g label) ∧
  Spec.listVertexLabels a g = Spec.listVertexLabels b g ∧
  Spec.listEdgeLabels a g = Spec.listEdgeLabels b g ∧
  a.graphs.contains g = b.graphs.contains g

/-- Everything kvgraph lets a client read of graph `g` (the reads of `observe_eq`) is the same in
    store `s` and in store `s'`: lookups equal, listings equal as multisets, label listings equal
    as sets, existence equal. -/
def ModelSameReads (s s' : KState) (g : String) : Prop :=
  (∀ id, getVertex s.kv g id = getVertex s'.kv g id) ∧
  (∀ eid, getEdge s.kv g eid = getEdge s'.kv g eid) ∧
  (vertexList s.kv g).Perm (vertexList s'.kv g) ∧
  (edgeList s.kv g).Perm (edgeList s'.kv g) ∧
  (∀ id labels, (outV s.kv g id labels).Perm (outV s'.kv g id labels)) ∧
  (∀ id labels, (inV s.kv g id labels).Perm (inV s'.kv g id labels)) ∧
  (∀ id labels, (outE s.kv g id labels).Perm (outE s'.kv g id labels)) ∧
  (∀ id labels, (inE s.kv g id labels).Perm (inE s'.kv g id labels)) ∧
  (∀ label, (verticesWithLabel s.kv g label).Perm (verticesWithLabel s'.kv g label)) ∧
  (∀ l, l ∈ listVertexLabels s.kv g ↔ l ∈ listVertexLabels s'.kv g) ∧
  (∀ l, l ∈ listEdgeLabels s.kv g ↔ l ∈ listEdgeLabels s'.kv g) ∧
  hasGraph s g = hasGraph s' g

namespace Lemmas

theorem getV_content (a : AG) (g id : String) : a.getV g id = alGet (content a g).verts (g, id) := by
  have := alGet_filter_key a.verts (fun k => decide (k.1 = g)) (g, id)
  simp only [decide_true, ↓reduceIte] at this
  rw [AG.getV_eq, ← this]; rfl

theorem getE_content (a : AG) (g id : String) : a.getE g id = alGet (content a g).edges (g, id) := by
  have := alGet_filter_key a.edges (fun k => decide (k.1 = g)) (g, id)
  simp only [decide_true, ↓reduceIte] at this
  rw [AG.getE_eq, ← this]; rfl

theorem vertexList_content (a : AG) (g : String) :
    Spec.vertexList a g = (content a g).verts.filterMap fun p => some ⟨p.1.2, p.2.label, p.2.data⟩ := by
  simp only [Spec.vertexList, content, List.filterMap_filter]
  apply filterMap_congr'
  intro p _
  by_cases h : p.1.1 = g <;> simp [h]

theorem edgeList_content (a : AG) (g : String) :
    Spec.edgeList a g =
      (content a g).edges.filterMap fun p => some ⟨p.1.2, p.2.label, p.2.frm, p.2.to, p.2.data⟩ := by
  simp only [Spec.edgeList, content, List.filterMap_filter]
  apply filterMap_congr'
  intro p _
  by_cases h : p.1.1 = g <;> simp [h]

/-- SPEC: equal content, equal reads. -/
theorem specReads_of_content {a b : AG} {g : String} (h : content a g = content b g) :
    SpecSameReads a b g := by
  have hv : ∀ id, Spec.getVertex a g id = Spec.getVertex b g id := by
    intro id; simp only [Spec.getVertex, getV_content, h]
  have he : ∀ id, Spec.getEdge a g id = Spec.getEdge b g id := by
    intro id; simp only [Spec.getEdge, getE_content, h]
  have hvl : Spec.vertexList a g = Spec.vertexList b g := by rw [vertexList_content, vertexList_content, h]
  have hel : Spec.edgeList a g = Spec.edgeList b g := by rw [edgeList_content, edgeList_content, h]
  refine ⟨hv, he, hvl, hel, ?_, ?_, ?_, ?_, ?_, ?_, ?_, ?_⟩
  · intro id labels; simp only [Spec.outV, hel, hv]
  · intro id labels; simp only [Spec.inV, hel, hv]
  · intro id labels; simp only [Spec.outE, hel]
  · intro id labels; simp only [Spec.inE, hel]
  · intro label; simp only [Spec.verticesWithLabel, hvl]
  · simp only [Spec.listVertexLabels, hvl]
  · simp only [Spec.listEdgeLabels, hel]
  · exact congrArg GContent.listed h

/-- MODEL: two stores that represent abstract stores with the same content of `g` answer every
    read of `g` alike. -/
theorem modelReads_of_content {s s' : KState} {a a' : AG} (h : Refines s a) (h' : Refines s' a')
    {g : String} (hc : content a g = content a' g) : ModelSameReads s s' g := by
  obtain ⟨c1, c2, c3, c4, c5, c6, c7, c8, c9, c10, c11, c12⟩ := specReads_of_content hc
  obtain ⟨o1, o2, o3, o4, o5, o6, o7, o8, o9, o10, o11, o12, _⟩ := observe_eq h g
  obtain ⟨p1, p2, p3, p4, p5, p6, p7, p8, p9, p10, p11, p12, _⟩ := observe_eq h' g
  refine ⟨?_, ?_, ?_, ?_, ?_, ?_, ?_, ?_, ?_, ?_, ?_, ?_⟩
  · intro id; rw [o1, p1, c1]
  · intro id; rw [o2, p2, c2]
  · exact o3.trans (c3 ▸ p3.symm)
  · exact o4.trans (c4 ▸ p4.symm)
  · intro id labels; exact (o5 id labels).trans (c5 id labels ▸ (p5 id labels).symm)
  · intro id labels; exact (o6 id labels).trans (c6 id labels ▸ (p6 id labels).symm)
  · intro id labels; exact (o7 id labels).trans (c7 id labels ▸ (p7 id labels).symm)
  · intro id labels; exact (o8 id labels).trans (c8 id labels ▸ (p8 id labels).symm)
  · intro label; exact (o9 label).trans (c9 label ▸ (p9 label).symm)
  · intro l; rw [o10, p10, c10]
  · intro l; rw [o11, p11, c11]
  · rw [o12, p12, c12]

end Lemmas

/-! ### histories: moments, writes between two moments -/

/-- the abstract store after the first `i` operations of the history -/
def specAt (a : AG) (ops : List Op) (i : Nat) : AG := specRun a (ops.take i)

/-- the kvgraph store after the first `i` operations of the history -/
def modelAt (s : KState) (ops : List Op) (i : Nat) : KState := run s (ops.take i)

theorem specAt_eq (a : AG) (ops : List Op) (i : Nat) : specAt a ops i = specSys.after a ops i := rfl
theorem modelAt_eq (s : KState) (ops : List Op) (i : Nat) : modelAt s ops i = modelSys.after s ops i := rfl

theorem specAt_split (a : AG) (ops : List Op) {i j : Nat} (h : i ≤ j) :
    specAt a ops j = specRun (specAt a ops i) ((ops.take j).drop i) := specSys.at_split a ops h
theorem modelAt_split (s : KState) (ops : List Op) {i j : Nat} (h : i ≤ j) :
    modelAt s ops j = run (modelAt s ops i) ((ops.take j).drop i) := modelSys.at_split s ops h

/-- SPEC: none of the operations number `i`, …, `j - 1` of the history is a write to `g`
    (`Wrote`, judged at the abstract store the operation meets). -/
def NoWriteBetween (a : AG) (ops : List Op) (g : String) (i j : Nat) : Prop :=
  ∀ k o, i ≤ k → k < j → ops[k]? = some o → ¬ Wrote (specAt a ops k) o g

/-- MODEL: none of the operations number `i`, …, `j - 1` touches the stamp of `g` (names `g` and
    reaches a `ts.Touch`). -/
def NoTouchBetween (s : KState) (ops : List Op) (g : String) (i j : Nat) : Prop :=
  ∀ k o, i ≤ k → k < j → ops[k]? = some o → ¬ modelSys.Touched (modelAt s ops k) o g

/-- no operation of the list, run from `a`, is a write to `g` -/
def NoWrite : AG → List Op → String → Prop
  | _, [], _ => True
  | a, o :: os, g => ¬ Wrote a o g ∧ NoWrite (specStep a o).1 os g

namespace Lemmas

theorem aclockOK_step {a : AG} (h : AClockOK a) (o : Op) : AClockOK (specStep a o).1 :=
  specSys.OK_run a [o] h

theorem aclockOK_run {a : AG} (h : AClockOK a) (ops : List Op) : AClockOK (specRun a ops) :=
  specSys.OK_run a ops h

theorem aclockOK_init : AClockOK {} := by intro p hp; cases hp

theorem noWrite_iff_noTouch (ops : List Op) (g : String) : ∀ {a : AG}, AClockOK a →
    (NoWrite a ops g ↔ specSys.NoTouch a ops g) := by
  induction ops with
  | nil => intro a _; exact Iff.rfl
  | cons o os ih =>
    intro a h
    simp only [NoWrite, Sys.NoTouch]
    rw [wrote_iff_touched h, ih (aclockOK_step h o)]
    rfl

/-- SPEC: a list of operations none of which is a write to `g` leaves the content of `g` alone. -/
theorem content_of_noWrite (ops : List Op) (g : String) : ∀ a : AG, NoWrite a ops g →
    content (specRun a ops) g = content a g := by
  induction ops with
  | nil => intro a _; rfl
  | cons o os ih =>
    intro a h
    have : specRun a (o :: os) = specRun (specStep a o).1 os := rfl
    rw [this, ih _ h.2, content_of_not_wrote a o g h.1]

theorem noWriteBetween_iff {a : AG} (h : AClockOK a) (ops : List Op) (g : String) {i j : Nat}
    (hij : i ≤ j) :
    NoWriteBetween a ops g i j ↔ NoWrite (specAt a ops i) ((ops.take j).drop i) g := by
  have hi : AClockOK (specAt a ops i) := aclockOK_run h _
  rw [noWrite_iff_noTouch _ _ hi, specAt_eq, specSys.noTouch_window a ops g hij]
  unfold NoWriteBetween
  have hk : ∀ k, AClockOK (specAt a ops k) := fun k => aclockOK_run h _
  constructor
  · intro hh k o h1 h2 h3
    exact fun ht => hh k o h1 h2 h3 ((wrote_iff_touched (hk k) o g).2 ht)
  · intro hh k o h1 h2 h3
    exact fun hw => hh k o h1 h2 h3 ((wrote_iff_touched (hk k) o g).1 hw)

/-! ### the side condition of the refinement theorem on prefixes -/

theorem noReaddHist_append (xs ys : List Op) : ∀ a : AG,
    NoReaddHist a (xs ++ ys) ↔ NoReaddHist a xs ∧ NoReaddHist (specRun a xs) ys := by
  induction xs with
  | nil => intro a; simp [NoReaddHist, noReaddHist, specRun]
  | cons o os ih =>
    intro a
    rw [List.cons_append, noReaddHist_cons, noReaddHist_cons, ih]
    have : specRun a (o :: os) = specRun (specStep a o).1 os := rfl
    rw [this, and_assoc]

theorem noReaddHist_take {a : AG} {ops : List Op} (h : NoReaddHist a ops) (i : Nat) :
    NoReaddHist a (ops.take i) := by
  rw [← List.take_append_drop i ops, noReaddHist_append] at h
  exact h.1

/-- the refinement relation holds at every moment of a history the refinement theorem covers -/
theorem refines_at {s : KState} {a : AG} (h : Refines s a) {ops : List Op} (hh : NoReaddHist a ops)
    (i : Nat) : Refines (modelAt s ops i) (specAt a ops i) :=
  history_refines_partial _ h (noReaddHist_take hh i)

theorem noTouchIn_spec {a : AG} (h : AClockOK a) (ops : List Op) (g : String) (i j : Nat) :
    specSys.NoTouchIn a ops g i j ↔ NoWriteBetween a ops g i j := by
  have hk : ∀ k, AClockOK (specAt a ops k) := fun k => aclockOK_run h _
  constructor
  · intro hh k o h1 h2 h3
    exact fun hw => hh k o h1 h2 h3 ((wrote_iff_touched (hk k) o g).1 hw)
  · intro hh k o h1 h2 h3
    exact fun ht => hh k o h1 h2 h3 ((wrote_iff_touched (hk k) o g).2 ht)

theorem noTouchIn_model (s : KState) (ops : List Op) (g : String) (i j : Nat) :
    modelSys.NoTouchIn s ops g i j ↔ NoTouchBetween s ops g i j := Iff.rfl

/-- AddGraph of a valid name reaches its `ts.Touch` -/
theorem touched_addGraph (s : KState) {g : String} (hv : validName g = true) :
    modelSys.Touched s (.addGraph g) g := by
  refine ⟨rfl, ?_⟩
  show (step s (.addGraph g)).1.clock ≠ s.clock
  have : (step s (.addGraph g)).1.clock = s.clock + 1 := by
    simp only [step, hv, Bool.not_true, Bool.false_eq_true, ↓reduceIte]
    split <;> rfl
  omega

theorem clockOK_of_refines {s : KState} {a : AG} (h : Refines s a) : AClockOK a := h.stampLe

theorem modelOK_of_refines {s : KState} {a : AG} (h : Refines s a) : (modelSys.ts s).OK := by
  intro p hp
  have hp' : p ∈ s.stamps := hp
  rw [h.stamps] at hp'
  have := h.stampLe p hp'
  show p.2 ≤ s.clock
  rw [h.clock]; exact this

end Lemmas

/-! ### recorders -/

open Grip.C03.Cache

/-- DeleteGraph? -/
def isDel : Op → Bool
  | .delGraph _ => true
  | _ => false

/-- "successful mutation of g": `Wrote`, except that DeleteGraph counts only when the graph is
    listed (deleting a graph that does not exist changes nothing: `delGraph_absent_noop`). -/
def Mutates (a : AG) (op : Op) (g : String) : Prop :=
  Wrote a op g ∧ (isDel op = true → g ∈ a.graphs)

/-- the regression's counter is present exactly for the listed graphs -/
def PNInv (a : AG) (t : PerName.σ) : Prop :=
  ∀ g, (PerName.stamp t g).isSome = a.graphs.contains g

/-- every counter of the regression is at least 1 -/
def PPos (t : PerName.σ) : Prop := ∀ g n, PerName.stamp t g = some n → 1 ≤ n

/-- tombstone variant: every counter is at least 1, a dead one at least 2 -/
def TInv (t : PerNameT.σ) : Prop :=
  ∀ g b c, alookup t g = some (b, c) → 1 ≤ c ∧ (b = false → 2 ≤ c)

/-- how often the operations of the list, run from `s`, reach `ts.Touch(g)` -/
def ticksOf : KState → List Op → String → Nat
  | _, [], _ => 0
  | s, o :: os, g => (if g = opGraph o ∧ ticked s o = true then 1 else 0) + ticksOf (step s o).1 os g

/-- the list holds no DeleteGraph g -/
def NoDel (ops : List Op) (g : String) : Prop := ∀ o, o ∈ ops → ¬ (isDel o = true ∧ opGraph o = g)

namespace Lemmas

theorem alookup_eq {β : Type} (t : List (String × β)) (g : String) : alookup t g = alGet t g := rfl

theorem alookup_aset {β : Type} (t : List (String × β)) (g : String) (v : β) (g' : String) :
    alookup (aset t g v) g' = if g' = g then some v else alookup t g' := by
  show alGet ((g, v) :: t.filter (fun p => p.1 ≠ g)) g' = _
  rw [alGet_cons]
  by_cases h : g' = g
  · simp [h]
  · have := alGet_filter_key t (fun k => decide (k ≠ g)) g'
    simp only [ne_eq, h, not_false_eq_true, decide_true, ↓reduceIte] at this
    simp only [h, ↓reduceIte, alookup_eq]
    exact this

theorem alookup_adel {β : Type} (t : List (String × β)) (g g' : String) :
    alookup (adel t g) g' = if g' = g then none else alookup t g' := by
  show alGet (t.filter (fun p => p.1 ≠ g)) g' = _
  have := alGet_filter_key t (fun k => decide (k ≠ g)) g'
  by_cases h : g' = g
  · simp only [ne_eq, h, not_true_eq_false, decide_false, Bool.false_eq_true, ↓reduceIte] at this
    simp only [h, ↓reduceIte]
    exact this
  · simp only [ne_eq, h, not_false_eq_true, decide_true, ↓reduceIte] at this
    simp only [h, ↓reduceIte, alookup_eq]
    exact this

/-! #### how a recorder moves: only the entry of the graph the operation names -/

theorem apply_del (R : Recorder) (t : R.σ) (g : String) (tick : Bool) :
    R.apply t (.delGraph g) tick = R.drop t g := rfl

theorem apply_not_del (R : Recorder) (t : R.σ) (op : Op) (tick : Bool) (h : isDel op = false) :
    R.apply t op tick = if tick then R.touch t (opGraph op) else t := by
  cases op <;> first | rfl | cases h

theorem isDel_iff (op : Op) : isDel op = true ↔ op = .delGraph (opGraph op) := by
  cases op <;> simp [isDel, opGraph]

/-! #### `PerName` -/

theorem perName_stamp_touch (t : PerName.σ) (g g' : String) :
    PerName.stamp (PerName.touch t g) g' =
      if g' = g then some ((PerName.stamp t g).getD 0 + 1) else PerName.stamp t g' :=
  alookup_aset t g _ g'

theorem perName_stamp_drop (t : PerName.σ) (g g' : String) :
    PerName.stamp (PerName.drop t g) g' = if g' = g then none else PerName.stamp t g' :=
  alookup_adel t g g'

/-- the stamp of `g` after one operation of the regression -/
theorem perName_stamp_apply (t : PerName.σ) (op : Op) (tick : Bool) (g : String) :
    PerName.stamp (PerName.apply t op tick) g =
      if g = opGraph op then
        (if isDel op then none
         else if tick then some ((PerName.stamp t g).getD 0 + 1) else PerName.stamp t g)
      else PerName.stamp t g := by
  cases hd : isDel op with
  | true =>
    rw [(isDel_iff op).1 hd, apply_del, perName_stamp_drop]
    rfl
  | false =>
    rw [apply_not_del _ _ _ _ hd]
    cases tick with
    | false => simp
    | true =>
      simp only [↓reduceIte, perName_stamp_touch, Bool.false_eq_true]
      by_cases h : g = opGraph op
      · simp [h]
      · simp [h]

/-- **the regression, one operation, no hypothesis**: its stamp of `g` changes iff the operation
    names `g` and either reached its Touch (any operation but DeleteGraph) or deleted a counter
    that was there (DeleteGraph). -/
theorem perName_apply_ne_iff (t : PerName.σ) (op : Op) (tick : Bool) (g : String) :
    PerName.stamp (PerName.apply t op tick) g ≠ PerName.stamp t g ↔
      g = opGraph op ∧
        (if isDel op then (PerName.stamp t g).isSome = true else tick = true) := by
  rw [perName_stamp_apply]
  by_cases h : g = opGraph op
  · simp only [h, ↓reduceIte, true_and]
    cases hd : isDel op with
    | true =>
      simp only [↓reduceIte]
      cases PerName.stamp t (opGraph op) <;> simp
    | false =>
      simp only [Bool.false_eq_true, ↓reduceIte]
      cases tick with
      | false => simp
      | true =>
        simp only [↓reduceIte, ne_eq, iff_true]
        cases PerName.stamp t (opGraph op) with
        | none => simp
        | some n => simp
  · simp [h]

theorem ppos_apply {t : PerName.σ} (h : PPos t) (op : Op) (tick : Bool) :
    PPos (PerName.apply t op tick) := by
  intro g n hn
  rw [perName_stamp_apply] at hn
  split at hn
  · split at hn
    · cases hn
    · split at hn
      · injection hn with hn; omega
      · exact h g n hn
  · exact h g n hn

theorem ppos_init : PPos PerName.init := by intro g n hn; cases hn

/-! #### `PerNameT` -/

theorem ptTouch_lookup_self (t : PTState) (g : String) :
    alookup (ptTouch t g) g =
      match alookup t g with
      | some (true, c) => some (true, c + 1)
      | _ => some (true, 1) := by
  unfold ptTouch
  split
  · rename_i c hc; simp [alookup_aset, hc]
  · rename_i hn
    rw [alookup_aset, if_pos rfl]
    split
    · rename_i c hc; exact absurd hc (hn c)
    · rfl

theorem ptDrop_lookup_self (t : PTState) (g : String) :
    alookup (ptDrop t g) g =
      match alookup t g with
      | some (_, c) => some (false, c + 1)
      | none => some (false, 2) := by
  unfold ptDrop
  split
  · rename_i b c hc; simp [alookup_aset, hc]
  · rename_i hc; simp [alookup_aset, hc]

theorem ptTouch_lookup_ne (t : PTState) (g g' : String) (h : g' ≠ g) :
    alookup (ptTouch t g) g' = alookup t g' := by
  unfold ptTouch
  split <;> simp [alookup_aset, h]

theorem ptDrop_lookup_ne (t : PTState) (g g' : String) (h : g' ≠ g) :
    alookup (ptDrop t g) g' = alookup t g' := by
  unfold ptDrop
  split <;> simp [alookup_aset, h]

theorem tInv_touch {t : PTState} (h : TInv t) (g : String) : TInv (ptTouch t g) := by
  intro g' b c hl
  by_cases e : g' = g
  · subst e
    rw [ptTouch_lookup_self] at hl
    split at hl
    · injection hl with hl; injection hl with h1 h2; subst h1 h2
      exact ⟨by omega, fun x => by cases x⟩
    · injection hl with hl; injection hl with h1 h2; subst h1 h2
      exact ⟨by omega, fun x => by cases x⟩
  · rw [ptTouch_lookup_ne _ _ _ e] at hl; exact h g' b c hl

theorem tInv_drop {t : PTState} (h : TInv t) (g : String) : TInv (ptDrop t g) := by
  intro g' b c hl
  by_cases e : g' = g
  · subst e
    rw [ptDrop_lookup_self] at hl
    split at hl
    · rename_i b0 c0 hc
      injection hl with hl; injection hl with h1 h2; subst h1 h2
      have := (h g' b0 c0 hc).1
      exact ⟨by omega, fun _ => by omega⟩
    · injection hl with hl; injection hl with h1 h2; subst h1 h2
      exact ⟨by omega, fun _ => by omega⟩
  · rw [ptDrop_lookup_ne _ _ _ e] at hl; exact h g' b c hl

theorem tInv_apply {t : PerNameT.σ} (h : TInv t) (op : Op) (tick : Bool) :
    TInv (PerNameT.apply t op tick) := by
  cases hd : isDel op with
  | true => rw [(isDel_iff op).1 hd, apply_del]; exact tInv_drop h _
  | false =>
    rw [apply_not_del _ _ _ _ hd]
    cases tick with
    | false => exact h
    | true => exact tInv_touch h _

theorem tInv_init : TInv PerNameT.init := by intro g b c hl; cases hl

theorem ptTouch_changes {t : PTState} (h : TInv t) (g : String) :
    ptStamp (ptTouch t g) g ≠ ptStamp t g := by
  unfold ptStamp
  rw [ptTouch_lookup_self]
  cases hc : alookup t g with
  | none => simp
  | some bc =>
    obtain ⟨b, c⟩ := bc
    have := h g b c hc
    cases b with
    | true => simp
    | false =>
      have := this.2 rfl
      simp only [Option.map_some, ne_eq, Option.some.injEq]; omega

theorem ptDrop_changes (t : PTState) (g : String) : ptStamp (ptDrop t g) g ≠ ptStamp t g := by
  unfold ptStamp
  rw [ptDrop_lookup_self]
  cases hc : alookup t g with
  | none => simp
  | some bc => obtain ⟨b, c⟩ := bc; simp

/-- **the tombstone variant, one operation**: its stamp of `g` changes iff the operation names `g`
    and is a DeleteGraph or reached its Touch. -/
theorem perNameT_apply_ne_iff {t : PerNameT.σ} (h : TInv t) (op : Op) (tick : Bool) (g : String) :
    PerNameT.stamp (PerNameT.apply t op tick) g ≠ PerNameT.stamp t g ↔
      g = opGraph op ∧ (isDel op = true ∨ tick = true) := by
  have stamp_congr : ∀ t' : PTState, alookup t' g = alookup t g → ptStamp t' g = ptStamp t g :=
    fun t' e => by unfold ptStamp; rw [e]
  cases hd : isDel op with
  | true =>
    rw [(isDel_iff op).1 hd, apply_del]
    by_cases e : g = opGraph op
    · rw [e]; simp only [opGraph, true_or, and_self, iff_true]; exact ptDrop_changes _ _
    · simp only [opGraph, true_or, and_true]
      constructor
      · intro hne; exact absurd (stamp_congr _ (ptDrop_lookup_ne t _ g e)) hne
      · intro x; exact absurd x e
  | false =>
    rw [apply_not_del _ _ _ _ hd]
    cases tick with
    | false => simp
    | true =>
      simp only [↓reduceIte, Bool.false_eq_true, false_or, and_true]
      by_cases e : g = opGraph op
      · rw [e]; simp only [iff_true]; exact ptTouch_changes h _
      · constructor
        · intro hne; exact absurd (stamp_congr _ (ptTouch_lookup_ne t _ g e)) hne
        · intro x; exact absurd x e

/-! #### recorders beside a history -/

theorem runK_nil (R : Recorder) (s : KState) (t : R.σ) : R.runK s t [] = t := rfl

theorem runK_cons (R : Recorder) (s : KState) (t : R.σ) (o : Op) (os : List Op) :
    R.runK s t (o :: os) = R.runK (step s o).1 (R.stepK s t o) os := rfl

theorem runK_append (R : Recorder) (as bs : List Op) : ∀ (s : KState) (t : R.σ),
    R.runK s t (as ++ bs) = R.runK (run s as) (R.runK s t as) bs := by
  induction as with
  | nil => intro s t; rfl
  | cons o os ih => intro s t; rw [List.cons_append, runK_cons, ih]; rfl

theorem ticked_iff (s : KState) (op : Op) :
    ticked s op = true ↔ modelSys.Touched s op (opGraph op) := by
  show ((step s op).1.clock != s.clock) = true ↔ (opGraph op = opGraph op ∧ (step s op).1.clock ≠ s.clock)
  simp

theorem ticked_del (s : KState) (op : Op) (h : isDel op = true) : ticked s op = true := by
  rw [(isDel_iff op).1 h]
  show ((s.clock + 1) != s.clock) = true
  simp

theorem ticked_iff_wrote {s : KState} {a : AG} (h : Refines s a) (op : Op) :
    ticked s op = true ↔ Wrote a op (opGraph op) :=
  (ticked_iff s op).trans (touched_iff_wrote h op _)

/-- the stamp table of a kvgraph store, as a state of the recorder `Global` -/
def gOf (s : KState) : Global.σ := (s.stamps, s.clock)

theorem gOf_stamp (s : KState) (g : String) : Global.stamp (gOf s) g = s.stamp g := rfl

/-- `Global` beside kvgraph is the stamp table of kvgraph -/
theorem global_stepK (s : KState) (op : Op) : Global.stepK s (gOf s) op = gOf (step s op).1 := by
  unfold Recorder.stepK
  rcases modelSys.clock_step s op with ⟨h1, h2⟩ | ⟨h1, h2⟩
  · have ht : ticked s op = false := by
      cases hc : ticked s op with
      | false => rfl
      | true => exact absurd h1 ((ticked_iff s op).1 hc).2
    have hd : isDel op = false := by
      cases hd : isDel op with
      | false => rfl
      | true => rw [ticked_del s op hd] at ht; cases ht
    rw [ht, apply_not_del _ _ _ _ hd]
    have e1 : (step s op).1.stamps = s.stamps := congrArg TS.stamps h2
    have e2 : (step s op).1.clock = s.clock := congrArg TS.clock h2
    simp only [gOf, e1, e2, Bool.false_eq_true, ↓reduceIte]
    rfl
  · have ht : ticked s op = true := (ticked_iff s op).2 ⟨rfl, h1⟩
    have e1 : (step s op).1.stamps = ((C18.ts s).touch (opGraph op)).stamps := congrArg TS.stamps h2
    have e2 : (step s op).1.clock = ((C18.ts s).touch (opGraph op)).clock := congrArg TS.clock h2
    have e : gOf (step s op).1 = Global.touch (gOf s) (opGraph op) := by
      unfold gOf; rw [e1, e2]; rfl
    rw [ht, e]
    cases hd : isDel op with
    | true => rw [(isDel_iff op).1 hd, apply_del]; rfl
    | false => rw [apply_not_del _ _ _ _ hd]; rfl

theorem global_runK (ops : List Op) : ∀ s : KState,
    Global.runK s (gOf s) ops = gOf (run s ops) := by
  induction ops with
  | nil => intro s; rfl
  | cons o os ih => intro s; rw [runK_cons, global_stepK, ih]; rfl

/-! #### `Wrote`, `Mutates` -/

theorem wrote_opGraph {a : AG} {op : Op} {g : String} (h : Wrote a op g) : g = opGraph op := by
  cases op with
  | delGraph g0 => exact h
  | addGraph g0 => exact h.1
  | addV g0 _ => exact h.1
  | addE g0 _ => exact h.1
  | bulk g0 _ => exact h.1
  | delV g0 _ => exact h.1
  | delE g0 _ => exact h.1

/-- a write other than AddGraph / DeleteGraph addresses a listed graph -/
theorem wrote_listed {a : AG} {op : Op} {g : String} (h : Wrote a op g) :
    isDel op = true ∨ (∃ g0, op = .addGraph g0) ∨ g ∈ a.graphs := by
  cases op with
  | delGraph g0 => exact Or.inl rfl
  | addGraph g0 => exact Or.inr (Or.inl ⟨g0, rfl⟩)
  | addV g0 _ => exact Or.inr (Or.inr (h.1 ▸ h.2.1))
  | addE g0 _ => exact Or.inr (Or.inr (h.1 ▸ h.2.1))
  | bulk g0 _ => exact Or.inr (Or.inr (h.1 ▸ h.2.1))
  | delV g0 _ => exact Or.inr (Or.inr (h.1 ▸ h.2))
  | delE g0 _ => exact Or.inr (Or.inr (h.1 ▸ h.2.1))

/-- `Wrote` and `Mutates` differ on DeleteGraph of a graph that is not listed, nowhere else -/
theorem wrote_iff_mutates (a : AG) (op : Op) (g : String) :
    Wrote a op g ↔ Mutates a op g ∨ (op = .delGraph g ∧ g ∉ a.graphs) := by
  unfold Mutates
  constructor
  · intro h
    by_cases hg : g ∈ a.graphs
    · exact Or.inl ⟨h, fun _ => hg⟩
    · cases hd : isDel op with
      | false => exact Or.inl ⟨h, fun x => by cases x⟩
      | true =>
        right
        have := (isDel_iff op).1 hd
        rw [← wrote_opGraph h] at this
        exact ⟨this, hg⟩
  · rintro (h | ⟨rfl, _⟩)
    · exact h.1
    · exact rfl

theorem graphs_addElems (a : AG) (g : String) (xs : List ElemIn) :
    (Spec.addElems a g xs).1.graphs = a.graphs := by
  have putAll_graphs : ∀ (xs : List ElemIn) (a : AG), (putAll g a xs).1.graphs = a.graphs := by
    intro xs
    induction xs with
    | nil => intro a; rfl
    | cons x xs ih => intro a; simp only [putAll]; rw [ih, putElem_graphs]
  unfold Spec.addElems
  split
  · rfl
  · simp only
    split
    · exact putAll_graphs xs a
    · exact putAll_graphs xs a

/-- only AddGraph and DeleteGraph change the list of graphs -/
theorem graphs_step_other (a : AG) (op : Op) (hd : isDel op = false)
    (ha : ∀ g0, op = .addGraph g0 → validName g0 = false) : (specStep a op).1.graphs = a.graphs := by
  cases op with
  | delGraph g0 => cases hd
  | addGraph g0 => simp [specStep, ha g0 rfl]
  | addV g0 vs => exact graphs_addElems a g0 _
  | addE g0 es => exact graphs_addElems a g0 _
  | bulk g0 xs => exact graphs_addElems a g0 xs
  | delV g0 id => rw [specStep_delV]; split <;> rfl
  | delE g0 id =>
    rw [specStep_delE]
    split
    · rfl
    · split <;> rfl

theorem contains_filter_self (l : List String) (g : String) : (l.filter (· ≠ g)).contains g = false := by
  rw [Bool.eq_false_iff]
  simp

/-! #### the regression beside the abstract store: the counter is there iff the graph is listed -/

theorem pnInv_init : PNInv {} PerName.init := by intro g; rfl

theorem pnInv_same {a b : AG} {t : PerName.σ} (hI : PNInv a t) (op : Op) (tick : Bool)
    (hd : isDel op = false) (hgr : b.graphs = a.graphs)
    (hw : tick = true → a.graphs.contains (opGraph op) = true) :
    PNInv b (PerName.apply t op tick) := by
  intro g
  rw [perName_stamp_apply, hgr, hd]
  simp only [Bool.false_eq_true, ↓reduceIte]
  by_cases e : g = opGraph op
  · simp only [e, ↓reduceIte]
    cases tick with
    | false => simpa using hI (opGraph op)
    | true => simpa using hw rfl
  · simp only [e, ↓reduceIte]; exact hI g

theorem pnInv_step {s : KState} {a : AG} (h : Refines s a) {t : PerName.σ} (hI : PNInv a t)
    (op : Op) : PNInv (specStep a op).1 (PerName.stepK s t op) := by
  unfold Recorder.stepK
  have other : ∀ op : Op, isDel op = false → (∀ g0, op = .addGraph g0 → validName g0 = false) →
      PNInv (specStep a op).1 (PerName.apply t op (ticked s op)) := by
    intro op hd ha
    apply pnInv_same hI op _ hd (graphs_step_other a op hd ha)
    intro ht
    have hw := (ticked_iff_wrote h op).1 ht
    rcases wrote_listed hw with x | ⟨g0, x⟩ | x
    · rw [hd] at x; cases x
    · subst x
      have : validName g0 = true := hw.2
      rw [ha g0 rfl] at this; cases this
    · simpa using x
  cases op with
  | delGraph g0 =>
    intro g
    rw [perName_stamp_apply]
    show _ = (a.graphs.filter (· ≠ g0)).contains g
    by_cases e : g = g0
    · subst e; simp [opGraph, isDel]
    · rw [contains_filter_ne a.graphs e]
      simp only [opGraph, e, ↓reduceIte]; exact hI g
  | addGraph g0 =>
    by_cases hv : validName g0 = true
    · have ht : ticked s (.addGraph g0) = true := (ticked_iff s _).2 (touched_addGraph s hv)
      intro g
      rw [perName_stamp_apply, ht]
      have e : (specStep a (.addGraph g0)).1.graphs = g0 :: a.graphs.filter (· ≠ g0) := by
        simp [specStep, hv]
      rw [e]
      by_cases e : g = g0
      · subst e; simp [opGraph, isDel]
      · rw [contains_cons_filter_ne a.graphs e]
        simp only [opGraph, e, ↓reduceIte]; exact hI g
    · simp only [Bool.not_eq_true] at hv
      exact other _ rfl (fun g1 e => by injection e with e; rw [← e]; exact hv)
  | addV g0 vs => exact other _ rfl (fun _ e => by cases e)
  | addE g0 es => exact other _ rfl (fun _ e => by cases e)
  | bulk g0 xs => exact other _ rfl (fun _ e => by cases e)
  | delV g0 id => exact other _ rfl (fun _ e => by cases e)
  | delE g0 id => exact other _ rfl (fun _ e => by cases e)

/-! #### counting the touches of the regression -/

def pcount (t : PNState) (g : String) : Nat := (pnStamp t g).getD 0

theorem pcount_apply (t : PerName.σ) (op : Op) (tick : Bool) (g : String) :
    pcount (PerName.apply t op tick) g =
      if g = opGraph op then
        (if isDel op then 0 else if tick then pcount t g + 1 else pcount t g)
      else pcount t g := by
  have := perName_stamp_apply t op tick g
  unfold pcount
  show (PerName.stamp (PerName.apply t op tick) g).getD 0 = _
  rw [this]
  by_cases e : g = opGraph op
  · simp only [e, ↓reduceIte]
    cases isDel op with
    | true => rfl
    | false =>
      cases tick with
      | false => rfl
      | true => rfl
  · simp only [e, ↓reduceIte]; rfl

theorem stamp_of_pcount {t : PerName.σ} (h : PPos t) (g : String) :
    PerName.stamp t g = if pcount t g = 0 then none else some (pcount t g) := by
  unfold pcount
  show PerName.stamp t g = if (PerName.stamp t g).getD 0 = 0 then none else some ((PerName.stamp t g).getD 0)
  cases hs : PerName.stamp t g with
  | none => simp
  | some n =>
    have := h g n hs
    have hn : n ≠ 0 := by omega
    simp [hn]

theorem ppos_runK (ops : List Op) : ∀ (s : KState) (t : PerName.σ), PPos t →
    PPos (PerName.runK s t ops) := by
  induction ops with
  | nil => intro s t h; exact h
  | cons o os ih => intro s t h; rw [runK_cons]; exact ih _ _ (ppos_apply h o _)

theorem noDel_cons {o : Op} {os : List Op} {g : String} (h : NoDel (o :: os) g) :
    ¬ (isDel o = true ∧ opGraph o = g) ∧ NoDel os g :=
  ⟨h o List.mem_cons_self, fun o' ho' => h o' (List.mem_cons_of_mem _ ho')⟩

/-- without a DeleteGraph g in between, the counter of g counts the touches of g -/
theorem pcount_runK (g : String) (ops : List Op) : ∀ (s : KState) (t : PerName.σ), NoDel ops g →
    pcount (PerName.runK s t ops) g = pcount t g + ticksOf s ops g := by
  induction ops with
  | nil => intro s t _; rfl
  | cons o os ih =>
    intro s t hnd
    obtain ⟨h0, hr⟩ := noDel_cons hnd
    rw [runK_cons, ih _ _ hr, ticksOf]
    unfold Recorder.stepK
    rw [pcount_apply]
    by_cases e : g = opGraph o
    · have hd : isDel o = false := by
        cases hd : isDel o with
        | false => rfl
        | true => exact absurd ⟨hd, e.symm⟩ h0
      simp only [e, ↓reduceIte, hd, Bool.false_eq_true, true_and]
      cases ticked s o with
      | false => simp
      | true => simp; omega
    · simp [e]

theorem run_snoc (s : KState) (ops : List Op) (o : Op) : run s (ops ++ [o]) = (step (run s ops) o).1 := by
  simp [run, List.foldl_append]

/-- the recorder at moment k + 1 is the recorder at moment k, stepped beside operation k -/
theorem runK_succ (R : Recorder) (s : KState) (t : R.σ) (ops : List Op) (k : Nat) (o : Op)
    (h : ops[k]? = some o) :
    R.runK s t (ops.take (k + 1)) = R.stepK (modelAt s ops k) (R.runK s t (ops.take k)) o := by
  obtain ⟨hk, rfl⟩ := List.getElem?_eq_some_iff.1 h
  rw [List.take_succ_eq_append_getElem hk, runK_append]; rfl

theorem tInv_runK (ops : List Op) : ∀ (s : KState) (t : PerNameT.σ), TInv t →
    TInv (PerNameT.runK s t ops) := by
  induction ops with
  | nil => intro s t h; exact h
  | cons o os ih => intro s t h; rw [runK_cons]; exact ih _ _ (tInv_apply h o _)

theorem pnInv_runK (ops : List Op) : ∀ {s : KState} {a : AG} {t : PerName.σ}, Refines s a →
    PNInv a t → NoReaddHist a ops → PNInv (specRun a ops) (PerName.runK s t ops) := by
  induction ops with
  | nil => intro s a t _ hI _; exact hI
  | cons o os ih =>
    intro s a t h hI hh
    rw [noReaddHist_cons] at hh
    rw [runK_cons]
    exact ih (step_refines_partial h o hh.1).1 (pnInv_step h hI o) hh.2

/-- **the regression repeats itself**: start with no counter for g; run `ops1`; DeleteGraph g; run
    `ops2`; if neither part holds a DeleteGraph g and both reach `ts.Touch(g)` equally often, the
    regression reports after `ops2` what it reported after `ops1`. -/
theorem perName_collision_run (s : KState) (t : PerName.σ) (hpos : PPos t) (g : String)
    (ops1 ops2 : List Op) (hd1 : NoDel ops1 g) (hd2 : NoDel ops2 g)
    (hn : pcount t g + ticksOf s ops1 g = ticksOf (step (run s ops1) (.delGraph g)).1 ops2 g) :
    PerName.stamp (PerName.runK s t (ops1 ++ .delGraph g :: ops2)) g =
      PerName.stamp (PerName.runK s t ops1) g := by
  have hp1 : PPos (PerName.runK s t ops1) := ppos_runK ops1 s t hpos
  have hp2 : PPos (PerName.runK s t (ops1 ++ .delGraph g :: ops2)) := ppos_runK _ s t hpos
  rw [stamp_of_pcount hp1, stamp_of_pcount hp2, pcount_runK g ops1 s t hd1, runK_append, runK_cons,
    pcount_runK g ops2 _ _ hd2]
  have h0 : pcount (PerName.stepK (run s ops1) (PerName.runK s t ops1) (.delGraph g)) g = 0 := by
    unfold Recorder.stepK
    rw [pcount_apply]; simp [opGraph, isDel]
  rw [h0, Nat.zero_add, hn]

/-- DeleteGraph of a graph that is not listed changes the content of no graph -/
theorem delGraph_absent_noop {s : KState} {a : AG} (h : Refines s a) (g : String)
    (hg : g ∉ a.graphs) (g' : String) :
    content (specStep a (.delGraph g)).1 g' = content a g' := by
  by_cases e : g' = g
  · subst e
    have hl : a.graphs.contains g' = false := by simpa using hg
    have hv : a.verts.filter (fun p => p.1.1 = g') = [] := by
      rw [List.filter_eq_nil_iff]
      rintro ⟨⟨g1, id⟩, r⟩ hp hq
      have hq' : g1 = g' := by simpa using hq
      subst hq'
      have := alGet_of_mem h.inv.vnodup hp
      exact hg (h.inv.vgraph g1 id r this)
    have he : a.edges.filter (fun p => p.1.1 = g') = [] := by
      rw [List.filter_eq_nil_iff]
      rintro ⟨⟨g1, id⟩, r⟩ hp hq
      have hq' : g1 = g' := by simpa using hq
      subst hq'
      have := alGet_of_mem h.inv.enodup hp
      exact hg (h.inv.egraph g1 id r this)
    apply content_congr (a := a) g'
    · show (a.graphs.filter (· ≠ g')).contains g' = _
      rw [contains_filter_self, hl]
    · show (a.verts.filter (fun p => p.1.1 ≠ g')).filter (fun p => p.1.1 = g') = _
      rw [hv, List.filter_filter, List.filter_eq_nil_iff]
      intro p _; simp
    · show (a.edges.filter (fun p => p.1.1 ≠ g')).filter (fun p => p.1.1 = g') = _
      rw [he, List.filter_filter, List.filter_eq_nil_iff]
      intro p _; simp
  · exact content_of_not_wrote a (.delGraph g) g' e

end Lemmas

end Grip.Props.C03
