/-
  Lemmas.C03Lbl — label index reads: VertexLabelScan and the two label listings.
-/
import GripProofs.Lemmas.C03Nbr

namespace Grip.Props.C03.Lemmas
open Grip Grip.C03 Grip.Props.C03
open Grip.C03.Spec (AG VRec ERec)

variable {m : KV} {f : List String} {a : AG}

theorem vwl_mem (h : Inv m f a) (g label : String) (z : VOut) :
    z ∈ verticesWithLabel m g label ↔ a.getV g z.gid = some ⟨z.label, z.data⟩ ∧ z.label = label := by
  unfold verticesWithLabel
  rw [List.mem_filterMap]
  constructor
  · rintro ⟨⟨k, v⟩, hp, hz⟩
    cases k <;> simp only [reduceCtorEq] at hz
    rename_i fl t doc
    split at hz
    · cases hv : getVertex m g doc with
      | none => simp [hv] at hz
      | some w =>
        simp only [hv] at hz
        split at hz
        · rename_i hl
          simp only [Option.some.injEq] at hz; subst hz
          exact ⟨((getVertex_some_iff h g doc w).1 hv).1 ▸ ((getVertex_some_iff h g doc w).1 hv).2, hl⟩
        · simp at hz
    · simp at hz
  · rintro ⟨hr, hl⟩
    obtain ⟨he, _⟩ := h.vindex g z.gid _ hr
    simp only at he
    cases hv : m.get (.entry (labelField g "v") z.label z.gid) with
    | none => simp [hv] at he
    | some v =>
      refine ⟨(.entry (labelField g "v") z.label z.gid, v), mem_of_alGet hv, ?_⟩
      have hgv : getVertex m g z.gid = some z := (getVertex_some_iff h g z.gid z).2 ⟨rfl, hr⟩
      simp [hl, hgv]

theorem vwl_nodup (h : Inv m f a) (g label : String) : (verticesWithLabel m g label).Nodup := by
  unfold verticesWithLabel
  apply nodup_filterMap _ h.nodup.nodup
  have key : ∀ (p : SKey × Val) (z : VOut), p ∈ m →
      (match p.1 with
        | .entry f t doc => if f = labelField g "v" ∧ t = label then
            (match getVertex m g doc with
             | some v => if v.label = label then some v else none
             | none => none)
          else none
        | _ => none) = some z → p.1 = .entry (labelField g "v") label z.gid := by
    rintro ⟨k, v⟩ z hp hz
    cases k <;> simp only [reduceCtorEq] at hz
    rename_i fl t doc
    split at hz
    · rename_i c
      cases hv : getVertex m g doc with
      | none => simp [hv] at hz
      | some w =>
        simp only [hv] at hz
        split at hz
        · simp only [Option.some.injEq] at hz; subst hz
          have := ((getVertex_some_iff h g doc w).1 hv).1
          simp only [c.1, c.2, this]
        · simp at hz
    · simp at hz
  rintro ⟨k1, v1⟩ hp1 ⟨k2, v2⟩ hp2 z h1 h2
  have e1 := key _ z hp1 h1
  have e2 := key _ z hp2 h2
  simp only at e1 e2
  subst e1 e2
  have g1 := (KV.mem_iff_get h.nodup _ _).1 hp1
  have g2 := (KV.mem_iff_get h.nodup _ _).1 hp2
  rw [g1] at g2; simp at g2; rw [g2]

theorem verticesWithLabel_perm (h : Inv m f a) (g label : String) :
    (verticesWithLabel m g label).Perm (Spec.verticesWithLabel a g label) := by
  apply perm_of_nodup_mem_iff (vwl_nodup h g label)
  · unfold Spec.verticesWithLabel
    exact List.Nodup.sublist List.filter_sublist (spec_vertexList_nodup h.vnodup g)
  · intro z
    rw [vwl_mem h]; unfold Spec.verticesWithLabel
    rw [List.mem_filter, spec_vertexList_mem h.vnodup]; simp

theorem listVertexLabels_mem (h : Inv m f a) (g l : String) :
    l ∈ listVertexLabels m g ↔ l ∈ Spec.listVertexLabels a g := by
  unfold Spec.listVertexLabels
  rw [List.mem_eraseDups, List.mem_map]
  unfold listVertexLabels
  rw [List.mem_filterMap]
  constructor
  · rintro ⟨⟨k, v⟩, hp, hz⟩
    cases k <;> simp only [reduceCtorEq] at hz
    rename_i fl t
    split at hz
    · rename_i c
      simp only [Option.some.injEq] at hz; subst hz
      have hne : verticesWithLabel m g t ≠ [] := by
        intro e; rw [e] at c; simp at c
      obtain ⟨z, hz⟩ := List.exists_mem_of_ne_nil _ hne
      obtain ⟨hr, hl⟩ := (vwl_mem h g t z).1 hz
      exact ⟨z, (spec_vertexList_mem h.vnodup g z).2 hr, hl⟩
    · simp at hz
  · rintro ⟨z, hz, hl⟩
    have hr := (spec_vertexList_mem h.vnodup g z).1 hz
    obtain ⟨_, ht⟩ := h.vindex g z.gid _ hr
    simp only at ht
    cases hv : m.get (.term (labelField g "v") z.label) with
    | none => simp [hv] at ht
    | some v =>
      refine ⟨(.term (labelField g "v") z.label, v), mem_of_alGet hv, ?_⟩
      have hin : z ∈ verticesWithLabel m g z.label := (vwl_mem h g z.label z).2 ⟨hr, rfl⟩
      have hne : ¬ verticesWithLabel m g z.label = [] := by
        intro hc; rw [hc] at hin; simp at hin
      subst hl
      simp [hne]

/-! ### edges -/

theorem ewl_mem (h : Inv m f a) (g label : String) (z : EOut) :
    z ∈ edgesWithLabelIdx m g label ↔
      a.getE g z.gid = some ⟨z.frm, z.to, z.label, z.data⟩ ∧ z.label = label := by
  unfold edgesWithLabelIdx
  rw [List.mem_filterMap]
  constructor
  · rintro ⟨⟨k, v⟩, hp, hz⟩
    cases k <;> simp only [reduceCtorEq] at hz
    rename_i fl t doc
    split at hz
    · cases hv : getEdge m g doc with
      | none => simp [hv] at hz
      | some w =>
        simp only [hv] at hz
        split at hz
        · rename_i hl
          simp only [Option.some.injEq] at hz; subst hz
          exact ⟨((getEdge_some_iff h g doc w).1 hv).1 ▸ ((getEdge_some_iff h g doc w).1 hv).2, hl⟩
        · simp at hz
    · simp at hz
  · rintro ⟨hr, hl⟩
    obtain ⟨he, _⟩ := h.eindex g z.gid _ hr
    simp only at he
    cases hv : m.get (.entry (labelField g "e") z.label z.gid) with
    | none => simp [hv] at he
    | some v =>
      refine ⟨(.entry (labelField g "e") z.label z.gid, v), mem_of_alGet hv, ?_⟩
      have hgv : getEdge m g z.gid = some z := (getEdge_some_iff h g z.gid z).2 ⟨rfl, hr⟩
      simp [hl, hgv]

theorem listEdgeLabels_mem (h : Inv m f a) (g l : String) :
    l ∈ listEdgeLabels m g ↔ l ∈ Spec.listEdgeLabels a g := by
  unfold Spec.listEdgeLabels
  rw [List.mem_eraseDups, List.mem_map]
  unfold listEdgeLabels
  rw [List.mem_filterMap]
  constructor
  · rintro ⟨⟨k, v⟩, hp, hz⟩
    cases k <;> simp only [reduceCtorEq] at hz
    rename_i fl t
    split at hz
    · rename_i c
      simp only [Option.some.injEq] at hz; subst hz
      have hne : edgesWithLabelIdx m g t ≠ [] := by
        intro e; rw [e] at c; simp at c
      obtain ⟨z, hz⟩ := List.exists_mem_of_ne_nil _ hne
      obtain ⟨hr, hl⟩ := (ewl_mem h g t z).1 hz
      exact ⟨z, (spec_edgeList_mem h.enodup g z).2 hr, hl⟩
    · simp at hz
  · rintro ⟨z, hz, hl⟩
    have hr := (spec_edgeList_mem h.enodup g z).1 hz
    obtain ⟨_, ht⟩ := h.eindex g z.gid _ hr
    simp only at ht
    cases hv : m.get (.term (labelField g "e") z.label) with
    | none => simp [hv] at ht
    | some v =>
      refine ⟨(.term (labelField g "e") z.label, v), mem_of_alGet hv, ?_⟩
      have hin : z ∈ edgesWithLabelIdx m g z.label := (ewl_mem h g z.label z).2 ⟨hr, rfl⟩
      have hne : ¬ edgesWithLabelIdx m g z.label = [] := by
        intro hc; rw [hc] at hin; simp at hin
      subst hl
      simp [hne]

end Grip.Props.C03.Lemmas
