/-
  Lemmas for C05: a path of a mediating shape decides exactly as the SPEC prescribes, for
  arbitrary tables, credential checkers, policies and requests.
-/
import Grip.Model.C05
import Grip.Model.C05Check
import Grip.Spec.C05

namespace Grip.Props.C05.Lemmas
open Grip Grip.C05 Grip.C05.Spec

theorem fieldOf_graph (r : Req) (ty : String) (h : r.ty = ty) :
    fieldOf r ty "Graph" = some (r.graph.getD "") := by
  simp [fieldOf, h]

/-- graph named by a well-formed request of a type with a Graph field -/
theorem graphOf_some {T : Tables} {ty : String} {r : Req} (h : Req.wf T ty r)
    (hg : hasGraph T ty = some true) : r.graph.getD "" = graphOf r := by
  have h2 := h.2
  rw [hg] at h2
  cases hgr : r.graph with
  | none => simp [hgr] at h2
  | some g => simp [graphOf, hgr]

theorem graphOf_none {T : Tables} {ty : String} {r : Req} (h : Req.wf T ty r)
    (hg : hasGraph T ty = some false) : graphOf r = "*" := by
  have h2 := h.2
  rw [hg] at h2
  cases hgr : r.graph with
  | none => simp [graphOf, hgr]
  | some g => simp [hgr] at h2

/-- the unary interceptor -/
theorem run_idealUnary (T : Tables) (p : Caller) (full : String) (op : Op) (g : Graph)
    (hmap : T.methodMap.lookup full = some op)
    (hgraph : unaryGraphOf T full p.req = .ok g) :
    ofResult (run T (p.call full false false) idealUnary {}) =
      (match p.validate p.md with
       | none => ⟨.unauthenticated, none⟩
       | some u => if p.enforce u g op then ⟨.ok, some [p.req]⟩ else ⟨.denied, none⟩) := by
  simp only [idealUnary, run, Caller.call, errOfCode]
  cases hv : p.validate p.md with
  | none => simp [ofResult]
  | some u =>
    simp only [hmap, hgraph, evalG, evalO]
    by_cases he : p.enforce u g op = true
    · simp [he, ofResult]
    · simp [he, ofResult]

theorem run_idealServerGraph (T : Tables) (p : Caller) (full ty : String) (op : Op)
    (hty : p.req.ty = ty) :
    ofResult (run T (p.call full true false) (idealServerGraph ty op) {}) =
      (match p.validate p.md with
       | none => ⟨.unauthenticated, none⟩
       | some u => if p.enforce u (p.req.graph.getD "") op then ⟨.ok, some [p.req]⟩ else ⟨.denied, none⟩) := by
  simp only [idealServerGraph, run, Caller.call, errOfCode]
  cases hv : p.validate p.md with
  | none => simp [ofResult]
  | some u =>
    simp only [hty, beq_self_eq_true, if_true, evalG, evalO, Option.getD_some, fieldOf_graph _ _ hty]
    by_cases he : p.enforce u (p.req.graph.getD "") op = true
    · simp [he, ofResult]
    · simp [he, ofResult]

theorem run_idealServerStar (T : Tables) (p : Caller) (full : String) (op : Op) :
    ofResult (run T (p.call full true false) (idealServerStar op) {}) =
      (match p.validate p.md with
       | none => ⟨.unauthenticated, none⟩
       | some u => if p.enforce u "*" op then ⟨.ok, some [p.req]⟩ else ⟨.denied, none⟩) := by
  simp only [idealServerStar, run, Caller.call, errOfCode]
  cases hv : p.validate p.md with
  | none => simp [ofResult]
  | some u =>
    simp only [evalG, evalO]
    by_cases he : p.enforce u "*" op = true
    · simp [he, ofResult]
    · simp [he, ofResult]

theorem run_idealClient (T : Tables) (p : Caller) (full ty : String)
    (hb : T.bulk = idealBulk ty) (hel : ∀ e ∈ p.elems, e.ty = ty) :
    ofResult (run T (p.call full false true) idealClient {}) =
      (match p.validate p.md with
       | none => ⟨.unauthenticated, none⟩
       | some u => ⟨.ok, some (p.elems.filter (fun e => p.enforce u (e.graph.getD "") .write))⟩) := by
  simp only [idealClient, run, Caller.call, errOfCode]
  cases hv : p.validate p.md with
  | none => simp [ofResult]
  | some u =>
    simp only [bulkRun, hb, idealBulk, evalO, ofResult, if_true]
    congr 2
    apply List.filter_congr
    intro e he
    simp [fieldOf_graph e ty (hel e he)]

theorem unaryGraphOf_field {T : Tables} {full ty : String} {r : Req}
    (hc : unaryCaseOf T full = some (.field ty "Graph")) (hty : r.ty = ty) :
    unaryGraphOf T full r = .ok (r.graph.getD "") := by
  unfold unaryCaseOf at hc
  obtain ⟨c, hf, hsrc⟩ := Option.map_eq_some_iff.mp hc
  unfold unaryGraphOf
  rw [hf]
  simp only [hsrc, fieldOf_graph r ty hty]

theorem unaryGraphOf_const {T : Tables} {full g : String} {r : Req}
    (hc : unaryCaseOf T full = some (.const g)) :
    unaryGraphOf T full r = .ok g := by
  unfold unaryCaseOf at hc
  obtain ⟨c, hf, hsrc⟩ := Option.map_eq_some_iff.mp hc
  unfold unaryGraphOf
  rw [hf]
  simp only [hsrc]

/-- MAIN LEMMA: a completely tabled method is decided by the grpc interceptor chain exactly as
    the SPEC prescribes — for arbitrary tables, credentials, policies and requests. -/
theorem grpc_meets_spec (T : Tables) (m : MethodDesc) (op : Op) (hop : opOf m.full = some op)
    (hok : methodOk T m = true) (p : Caller) (hwf : p.wf T m) :
    ofResult (interceptGrpc T m p) = decision p op m.kind := by
  unfold methodOk at hok
  rw [hop] at hok
  cases hg : hasGraph T m.reqType with
  | none => simp [hg] at hok
  | some b =>
    simp only [hg, Bool.and_eq_true, decide_eq_true_eq] at hok
    obtain ⟨hmap, hk⟩ := hok
    unfold kindOk at hk
    cases hkind : m.kind with
    | unary =>
      simp only [hkind, Bool.and_eq_true, decide_eq_true_eq] at hk
      obtain ⟨hprog, hcase⟩ := hk
      simp only [interceptGrpc, hkind, hprog, decision]
      cases b with
      | true =>
        simp only [if_true] at hcase
        rw [run_idealUnary T p m.full op _ hmap (unaryGraphOf_field hcase hwf.1.1), graphOf_some hwf.1 hg]
        cases p.validate p.md <;> rfl
      | false =>
        simp only [Bool.false_eq_true, if_false] at hcase
        rw [run_idealUnary T p m.full op _ hmap (unaryGraphOf_const hcase), graphOf_none hwf.1 hg]
        cases p.validate p.md <;> rfl
    | serverStream =>
      simp only [hkind, decide_eq_true_eq] at hk
      simp only [interceptGrpc, hkind, hk, decision]
      cases b with
      | true =>
        simp only [if_true]
        rw [run_idealServerGraph T p m.full m.reqType op hwf.1.1, graphOf_some hwf.1 hg]
        cases p.validate p.md <;> rfl
      | false =>
        simp only [Bool.false_eq_true, if_false]
        rw [run_idealServerStar T p m.full op, graphOf_none hwf.1 hg]
        cases p.validate p.md <;> rfl
    | clientStream =>
      simp only [hkind, Bool.and_eq_true, decide_eq_true_eq] at hk
      obtain ⟨⟨⟨hprog, hbulk⟩, hb⟩, hw⟩ := hk
      subst hw
      subst hb
      simp only [interceptGrpc, hkind, hprog, decision]
      rw [run_idealClient T p m.full m.reqType hbulk (fun e he => (hwf.2 e he).1)]
      cases hv : p.validate p.md with
      | none => rfl
      | some u =>
        simp only
        congr 2
        apply List.filter_congr
        intro e he
        rw [graphOf_some (hwf.2 e he) hg]
    | bidi => simp [hkind] at hk

/-- A shim that enters the same interceptor with the same info behaves like grpc, up to the
    error class when it discards the interceptor's error. -/
theorem gateway_eq_grpc (T : Tables) (m : MethodDesc) (hs : shimOk T m = true)
    (hr : shimReportsErrors T m = true) (p : Caller) :
    interceptGateway T m p = interceptGrpc T m p := by
  unfold shimOk at hs
  unfold shimReportsErrors at hr
  unfold interceptGateway
  cases hf : gwFind T m with
  | none => simp [hf] at hs
  | some g =>
    simp only [hf, Bool.and_eq_true, decide_eq_true_eq] at hs hr
    obtain ⟨hfull, hk⟩ := hs
    simp only [Bool.not_eq_true'] at hr
    cases hkind : m.kind with
    | unary =>
      simp only [hkind] at hk
      simp [interceptGrpc, hkind, hk, hfull]
    | serverStream =>
      simp only [hkind, Bool.and_eq_true, Bool.not_eq_true', decide_eq_true_eq] at hk
      obtain ⟨⟨⟨⟨h1, h2⟩, h3⟩, h4⟩, _⟩ := hk
      simp [interceptGrpc, hkind, h1, h2, h3, h4, hfull, hr]
    | clientStream =>
      simp only [hkind, Bool.and_eq_true, Bool.not_eq_true', decide_eq_true_eq] at hk
      obtain ⟨⟨⟨⟨h1, h2⟩, h3⟩, h4⟩, _⟩ := hk
      simp [interceptGrpc, hkind, h1, h2, h3, h4, hfull, hr]
    | bidi => simp [hkind] at hk

/-- Without the error-reporting hypothesis: whether and with what the handler runs is the same
    on both transports (only the error class can differ: `hang`). -/
theorem gateway_handled_eq_grpc (T : Tables) (m : MethodDesc) (hs : shimOk T m = true) (p : Caller) :
    (interceptGateway T m p).handled = (interceptGrpc T m p).handled := by
  unfold shimOk at hs
  unfold interceptGateway
  cases hf : gwFind T m with
  | none => simp [hf] at hs
  | some g =>
    simp only [hf, Bool.and_eq_true, decide_eq_true_eq] at hs
    obtain ⟨hfull, hk⟩ := hs
    cases hkind : m.kind with
    | unary =>
      simp only [hkind] at hk
      simp [interceptGrpc, hkind, hk, hfull]
    | serverStream =>
      simp only [hkind, Bool.and_eq_true, Bool.not_eq_true', decide_eq_true_eq] at hk
      obtain ⟨⟨⟨⟨h1, h2⟩, h3⟩, h4⟩, _⟩ := hk
      simp only [interceptGrpc, hkind, h1, h2, h3, h4, hfull, Bool.false_eq_true, if_false, if_true]
      split <;> rfl
    | clientStream =>
      simp only [hkind, Bool.and_eq_true, Bool.not_eq_true', decide_eq_true_eq] at hk
      obtain ⟨⟨⟨⟨h1, h2⟩, h3⟩, h4⟩, _⟩ := hk
      simp only [interceptGrpc, hkind, h1, h2, h3, h4, hfull, Bool.false_eq_true, if_false, if_true]
      split <;> rfl
    | bidi => simp [hkind] at hk

/-- When the handler runs, the shim's result is grpc's result (nothing was refused, so no error
    could be lost). -/
theorem gateway_eq_grpc_of_handled (T : Tables) (m : MethodDesc) (hs : shimOk T m = true) (p : Caller)
    (hh : (interceptGrpc T m p).handled.isSome = true) :
    interceptGateway T m p = interceptGrpc T m p := by
  unfold shimOk at hs
  unfold interceptGateway
  cases hf : gwFind T m with
  | none => simp [hf] at hs
  | some g =>
    simp only [hf, Bool.and_eq_true, decide_eq_true_eq] at hs
    obtain ⟨hfull, hk⟩ := hs
    cases hkind : m.kind with
    | unary =>
      simp only [hkind] at hk
      simp [interceptGrpc, hkind, hk, hfull]
    | serverStream =>
      simp only [hkind, Bool.and_eq_true, Bool.not_eq_true', decide_eq_true_eq] at hk
      obtain ⟨⟨⟨⟨h1, h2⟩, h3⟩, h4⟩, _⟩ := hk
      simp only [interceptGrpc, hkind] at hh
      simp only [interceptGrpc, hkind, h1, h2, h3, h4, hfull, Bool.false_eq_true, if_false, if_true]
      cases hr : (run T (p.call m.full true false) (streamProg T m.full true false) {}).handled with
      | none => simp [hr] at hh
      | some rs => simp [hr]
    | clientStream =>
      simp only [hkind, Bool.and_eq_true, Bool.not_eq_true', decide_eq_true_eq] at hk
      obtain ⟨⟨⟨⟨h1, h2⟩, h3⟩, h4⟩, _⟩ := hk
      simp only [interceptGrpc, hkind] at hh
      simp only [interceptGrpc, hkind, h1, h2, h3, h4, hfull, Bool.false_eq_true, if_false, if_true]
      cases hr : (run T (p.call m.full false true) (streamProg T m.full false true) {}).handled with
      | none => simp [hr] at hh
      | some rs => simp [hr]
    | bidi => simp [hkind] at hk

/-! ### consequences of the SPEC's decision -/

theorem decision_handled (p : Caller) (op : Op) (k : Kind) (hk : k ≠ .clientStream) (rs : List Req)
    (h : (decision p op k).handled = some rs) : rs = [p.req] ∧ Granted p (graphOf p.req) op := by
  unfold decision at h
  cases hv : p.validate p.md with
  | none => simp [hv] at h
  | some u =>
    by_cases he : p.enforce u (graphOf p.req) op = true
    · cases k <;> simp_all [Granted]
    · cases k <;> simp_all

theorem decision_handled_client (p : Caller) (op : Op) (rs : List Req)
    (h : (decision p op .clientStream).handled = some rs) :
    ∃ u, p.validate p.md = some u ∧ rs = p.elems.filter (fun e => p.enforce u (graphOf e) op) := by
  unfold decision at h
  cases hv : p.validate p.md with
  | none => simp [hv] at h
  | some u => simp [hv] at h; exact ⟨u, rfl, h.symm⟩

theorem decision_refused (p : Caller) (op : Op) (k : Kind) (hk : k ≠ .clientStream)
    (h : ¬ Granted p (graphOf p.req) op) :
    (decision p op k).handled = none ∧
      ((decision p op k).err = .unauthenticated ∨ (decision p op k).err = .denied) := by
  unfold decision
  cases hv : p.validate p.md with
  | none => simp
  | some u =>
    have he : ¬ p.enforce u (graphOf p.req) op = true := fun he => h ⟨u, hv, he⟩
    cases k <;> simp_all

theorem decision_unauthenticated (p : Caller) (op : Op) (k : Kind) (h : p.validate p.md = none) :
    decision p op k = ⟨.unauthenticated, none⟩ := by
  simp [decision, h]

theorem decision_null (p : Caller) (op : Op) (k : Kind)
    (hv : p.validate = nullValidate) (he : p.enforce = nullEnforce) :
    decision p op k = ⟨.ok, some (if k = .clientStream then p.elems else [p.req])⟩ := by
  unfold decision
  rw [hv, he]
  cases k <;> simp [nullValidate, nullEnforce]

end Grip.Props.C05.Lemmas
