import Grip.Model.C12Multi
import GripProofs.Lemmas.C12LiveMulti
import GripProofs.Lemmas.C12LiveMultiCons
import GripProofs.Lemmas.C12Live

/-! Termination measure for a mark fed by several jumps: step budgets of the travelers, remaining
    hops of the signal copies, and the rank `(D+2)·ticks + shutRank` (`D` = hops of one signal). -/
set_option linter.unusedSimpArgs false
namespace Grip.Props.C12.Multi.Lemmas
open Grip.C12 (Msg Phase)
open Grip.C12.Multi
open Grip.Props.C12.Lemmas (sum_map_congr)

variable {T : Type}

/-! ### step budgets -/

/-- Goroutine steps (stage moves, queue moves, receives at the mark) a traveler that still has the
    main-line stages `rest` before it will cause; `R` = budget of a traveler that is in a queue's
    output channel. -/
def tcostM (R : T → Nat) : List (MStage T) → T → Nat
  | [], _ => 0
  | .body f :: rest, t => 1 + ((f t).map (tcostM R rest)).sum
  | .jump c e :: rest, t => 1 + (if c t then 2 + R t else 0) + (if e then tcostM R rest t else 0)

def tunrollM (sys : List (MStage T)) : Nat → T → Nat
  | 0, _ => 0
  | k + 1, t => 1 + tcostM (tunrollM sys k) sys t

def TRM (sys : List (MStage T)) (μ : T → Nat) (t : T) : Nat := tunrollM sys (μ t + 1) t

theorem tcostM_congr {R R' : T → Nat} : ∀ (sys : List (MStage T)) (t : T),
    (∀ t' ∈ thruM sys t, R t' = R' t') → tcostM R sys t = tcostM R' sys t
  | [], _, _ => rfl
  | .body f :: rest, t, h => by
    simp only [tcostM]
    congr 1
    apply sum_map_congr
    intro u hu
    apply tcostM_congr rest u
    intro t' ht'
    apply h
    simp only [thruM, List.mem_flatMap]
    exact ⟨u, hu, ht'⟩
  | .jump c e :: rest, t, h => by
    simp only [tcostM]
    congr 1
    · congr 1
      cases hc : c t with
      | false => simp
      | true => simpa using h t (by simp [thruM, hc])
    · cases e with
      | false => rfl
      | true =>
        simp only [if_true]
        apply tcostM_congr rest t
        intro t' ht'
        apply h
        simp [thruM, ht']

theorem tunrollM_indep {sys : List (MStage T)} {μ : T → Nat} (hb : BoundedM sys μ) :
    ∀ (n m : Nat) (t : T), μ t < n → μ t < m → tunrollM sys n t = tunrollM sys m t := by
  intro n
  induction n with
  | zero => intro m t h; omega
  | succ n ih =>
    intro m t hn hm
    cases m with
    | zero => omega
    | succ m =>
      simp only [tunrollM]
      congr 1
      apply tcostM_congr
      intro t' ht'
      have := hb t t' ht'
      exact ih m t' (by omega) (by omega)

theorem TRM_eq {sys : List (MStage T)} {μ : T → Nat} (hb : BoundedM sys μ) (t : T) :
    TRM sys μ t = 1 + tcostM (TRM sys μ) sys t := by
  show tunrollM sys (μ t + 1) t = 1 + tcostM (TRM sys μ) sys t
  have e : tunrollM sys (μ t + 1) t = 1 + tcostM (tunrollM sys (μ t)) sys t := rfl
  rw [e]
  congr 1
  apply tcostM_congr
  intro t' ht'
  have := hb t t' ht'
  show tunrollM sys (μ t) t' = tunrollM sys (μ t' + 1) t'
  exact tunrollM_indep hb _ _ t' this (by omega)

/-! ### the rank -/

def wtMsgM (R : T → Nat) (sys : List (MStage T)) : Chan × Msg T → Nat
  | (.main i, .trav t) => tcostM R (sys.drop i) t
  | (.side _ k, .trav t) => (2 - k) + R t
  | (_, .sig _) => 0

def wtWM (R : T → Nat) (sys : List (MStage T)) (W : List (Chan × Msg T)) : Nat :=
  (W.map (wtMsgM R sys)).sum

def ticksM (R : T → Nat) (sys : List (MStage T)) (s : State T) : Nat :=
  (if s.phase = .open then 1 else 0) + (s.inp.map R).sum + wtWM R sys s.W

/-- hops of a signal (and of the copies it spawns) from the head of `rest` to the mark. -/
def sd : List (MStage T) → Nat
  | [] => 0
  | .body _ :: r => 1 + sd r
  | .jump _ _ :: r => 4 + sd r

def sdist (sys : List (MStage T)) : Chan → Nat
  | .main i => sd (sys.drop i)
  | .side _ k => (2 - k) + 1

def sigD (sys : List (MStage T)) : List (Chan × Msg T) → Nat
  | [] => 0
  | (c, .sig _) :: r => sdist sys c + sigD sys r
  | (_, .trav _) :: r => sigD sys r

def shutRankM (sys : List (MStage T)) (s : State T) : Nat :=
  sigD sys s.W + (if s.signalOutdated then sd sys + 1 else 0)
    + (if s.signalActive then 0 else sd sys + 1) + (if s.phase = .closed then 0 else 1)

def rankM (R : T → Nat) (sys : List (MStage T)) (s : State T) : Nat :=
  (sd sys + 2) * ticksM R sys s + shutRankM sys s

theorem wtWM_append (R : T → Nat) (sys : List (MStage T)) (A B : List (Chan × Msg T)) :
    wtWM R sys (A ++ B) = wtWM R sys A + wtWM R sys B := by
  simp [wtWM, List.sum_append]

theorem wtWM_cons (R : T → Nat) (sys : List (MStage T)) (x : Chan × Msg T) (B : List (Chan × Msg T)) :
    wtWM R sys (x :: B) = wtMsgM R sys x + wtWM R sys B := by
  simp [wtWM]

theorem wtWM_nil (R : T → Nat) (sys : List (MStage T)) : wtWM R sys ([] : List (Chan × Msg T)) = 0 := rfl

theorem sigD_append (sys : List (MStage T)) (A B : List (Chan × Msg T)) :
    sigD sys (A ++ B) = sigD sys A + sigD sys B := by
  induction A with
  | nil => simp [sigD]
  | cons x r ih =>
    obtain ⟨c, m⟩ := x
    cases m <;> simp [sigD, ih] <;> omega

theorem wtWM_outMain (R : T → Nat) (sys : List (MStage T)) (j : Nat) (ts : List T) :
    wtWM R sys (outMain sys.length j ts) = (ts.map (tcostM R (sys.drop j))).sum := by
  unfold outMain
  by_cases h : j < sys.length
  · simp only [h, if_true]
    induction ts with
    | nil => rfl
    | cons a r ih => rw [List.map_cons, wtWM_cons, ih]; simp [wtMsgM]
  · simp only [h, if_false, wtWM_nil]
    rw [List.drop_eq_nil_of_le (by omega)]
    induction ts with
    | nil => rfl
    | cons a r ih => rw [List.map_cons, List.sum_cons, ← ih]; rfl

theorem sigD_outMain (sys : List (MStage T)) (j : Nat) (ts : List T) :
    sigD sys (outMain sys.length j ts) = 0 := by
  unfold outMain
  split
  · induction ts with
    | nil => rfl
    | cons a r ih => simpa [sigD] using ih
  · rfl

theorem sigD_sigMain (sys : List (MStage T)) (j k : Nat) :
    sigD sys (sigMain sys.length j k : List (Chan × Msg T)) = sd (sys.drop j) := by
  unfold sigMain
  by_cases h : j < sys.length
  · simp [h, sigD, sdist]
  · simp only [h, if_false, sigD]
    rw [List.drop_eq_nil_of_le (by omega)]; rfl

theorem wtWM_sigMain (R : T → Nat) (sys : List (MStage T)) (j k : Nat) :
    wtWM R sys (sigMain sys.length j k) = 0 := by
  unfold sigMain
  split <;> simp [wtWM, wtMsgM]

theorem rankM_arith {n a a' b b' : Nat} (ha : a' + 1 ≤ a) (hb : b' ≤ b + (n + 1)) :
    (n + 2) * a' + b' < (n + 2) * a + b := by
  have h1 : (n + 2) * (a' + 1) ≤ (n + 2) * a := Nat.mul_le_mul_left _ ha
  rw [Nat.mul_succ] at h1
  omega

theorem rankM_arith0 {n a a' b b' : Nat} (ha : a' = a) (hb : b' < b) :
    (n + 2) * a' + b' < (n + 2) * a + b := by
  subst ha; omega

/-- A *quiet* step: the mark finds the jump input it polls empty (or the position is not a jump),
    or ends a loop iteration in which it had nothing to decide; only its loop variables change. -/
def Quiet (sys : List (MStage T)) (l : Label) (s s' : State T) : Prop :=
  l = .mark ∧ s' = { s with scan := s'.scan, jf := s'.jf } ∧
    ((s.scan < sys.length ∧ s'.scan = s.scan + 1 ∧ s'.jf = s.jf ∧
        (isJump sys s.scan = false ∨ ∀ x ∈ s.W, x.1 ≠ Chan.side s.scan 2)) ∨
     (s.scan = sys.length ∧ s'.scan = 0 ∧ s'.jf = false))

theorem quiet_rank_eq {sys : List (MStage T)} {R : T → Nat} {l : Label} {s s' : State T}
    (h : Quiet sys l s s') : rankM R sys s' = rankM R sys s := by
  obtain ⟨_, he, _⟩ := h
  rw [he]
  rfl

/-- **The ranking lemma, several jumps.**  Every step strictly lowers `rankM` or is quiet. -/
theorem rankM_step {sys : List (MStage T)} {R : T → Nat} (hR : ∀ t, R t = 1 + tcostM R sys t)
    {l : Label} {s s' : State T} (inv : MInv sys s) (hs : Step sys l s s') :
    rankM R sys s' < rankM R sys s ∨ Quiet sys l s s' := by
  cases hs with
  | @bodyTrav _ A B i t f hW hA hst =>
    left
    apply rankM_arith
    · simp only [ticksM, hW, wtWM_append, wtWM_cons, wtWM_outMain]
      have e : wtMsgM R sys (Chan.main i, Msg.trav t)
          = 1 + ((f t).map (tcostM R (sys.drop (i + 1)))).sum := by
        simp [wtMsgM, drop_of_getElem? hst, tcostM]
      rw [e]; omega
    · simp only [shutRankM, hW, sigD_append, sigD, sigD_outMain]
      omega
  | @jumpTrav _ A B i t c e hW hA hst =>
    left
    apply rankM_arith
    · simp only [ticksM, hW, wtWM_append, wtWM_cons, wtWM_outMain]
      have e1 : wtMsgM R sys (Chan.main i, Msg.trav t)
          = 1 + (if c t then 2 + R t else 0) + (if e then tcostM R (sys.drop (i + 1)) t else 0) := by
        simp [wtMsgM, drop_of_getElem? hst, tcostM]
      have e2 : wtWM R sys (if c t then [(Chan.side i 0, Msg.trav t)] else [])
          = (if c t then 2 + R t else 0) := by
        cases c t <;> simp [wtWM, wtMsgM]
      have e3 : ((if e then [t] else []).map (tcostM R (sys.drop (i + 1)))).sum
          = (if e then tcostM R (sys.drop (i + 1)) t else 0) := by
        cases e <;> simp
      rw [e1, e2, e3]; omega
    · have e2 : sigD sys (if c t then [(Chan.side i 0, Msg.trav t)] else []) = 0 := by
        cases c t <;> simp [sigD]
      simp only [shutRankM, hW, sigD_append, sigD, sigD_outMain, e2]
      omega
  | @bodySig _ A B i k f hW hA hst =>
    left
    apply rankM_arith0
    · simp [ticksM, hW, wtWM_append, wtWM_cons, wtMsgM, wtWM_sigMain]
    · simp only [shutRankM, hW, sigD_append, sigD, sigD_sigMain, sdist, drop_of_getElem? hst, sd]
      omega
  | @jumpSig _ A B i k c e hW hA hst =>
    left
    apply rankM_arith0
    · simp [ticksM, hW, wtWM_append, wtWM_cons, wtMsgM, wtWM_sigMain]
    · simp only [shutRankM, hW, sigD_append, sigD, sigD_sigMain, sdist, drop_of_getElem? hst, sd]
      omega
  | @queue _ A B j k m hW hA hk =>
    left
    cases m with
    | trav t =>
      apply rankM_arith
      · simp only [ticksM, hW, wtWM_append, wtWM_cons, wtWM_nil, wtMsgM]
        omega
      · simp only [shutRankM, hW, sigD_append, sigD]
        omega
    | sig q =>
      apply rankM_arith0
      · simp [ticksM, hW, wtWM_append, wtWM_cons, wtMsgM, wtWM_nil]
      · simp only [shutRankM, hW, sigD_append, sigD, sdist]
        omega
  | @openRecv _ A B m hp hj hW hA =>
    left
    have ha := inv.openFlags hp
    cases m with
    | sig k =>
      have := (inv.inactive ha).2 (Chan.side s.scan 2, Msg.sig k) (by rw [hW]; simp)
      simp [isSig] at this
    | trav t =>
      apply rankM_arith
      · simp only [ticksM, hW, wtWM_append, wtWM_cons, wtWM_nil, wtMsgM, List.drop_zero]
        have := hR t
        omega
      · simp only [shutRankM, hW, sigD_append, sigD]
        omega
  | openSkip hp hlt hc => exact Or.inr ⟨rfl, rfl, Or.inl ⟨hlt, rfl, rfl, hc⟩⟩
  | @openIn _ t r hp hsc hjf hI =>
    left
    apply rankM_arith
    · simp only [ticksM, hI, List.map_cons, List.sum_cons, wtWM_append, wtWM_cons, wtWM_nil, wtMsgM,
        List.drop_zero]
      have := hR t
      omega
    · simp only [shutRankM, sigD_append, sigD]
      omega
  | openClose hp hsc hjf hI =>
    left
    apply rankM_arith
    · simp [ticksM, hp]; omega
    · simp only [shutRankM, hp]
      simp
  | openNext hp hsc hjf => exact Or.inr ⟨rfl, rfl, Or.inr ⟨hsc, rfl, rfl⟩⟩
  | @closeTrav _ A B t hp hj hW hA =>
    left
    apply rankM_arith
    · simp only [ticksM, hW, wtWM_append, wtWM_cons, wtWM_nil, wtMsgM, List.drop_zero]
      have := hR t
      omega
    · simp only [shutRankM, hW, sigD_append, sigD]
      cases s.signalActive <;> cases s.signalOutdated <;> simp <;> omega
  | @closeSig _ A B k hp hj hW hA =>
    left
    apply rankM_arith0
    · simp [ticksM, hW, wtWM_append, wtWM_cons, wtMsgM]
    · simp only [shutRankM, hW, sigD_append, sigD, sdist]
      omega
  | closeSkip hp hlt hc => exact Or.inr ⟨rfl, rfl, Or.inl ⟨hlt, rfl, rfl, hc⟩⟩
  | closeNext hp hsc hjf => exact Or.inr ⟨rfl, rfl, Or.inr ⟨hsc, rfl, rfl⟩⟩
  | closeDecide hp hsc hjf =>
    unfold markDecide
    split
    · next hc =>
      left
      apply rankM_arith0
      · simp [ticksM, hp, wtWM_append, wtWM_cons, wtWM_nil, wtMsgM]
      · simp only [shutRankM, sigD_append, sigD, sdist, List.drop_zero, hp]
        cases ha : s.signalActive with
        | false =>
          have := inv.flags ha
          simp [this]
        | true =>
          simp only [ha, Bool.not_true, Bool.false_and, Bool.false_or, Bool.and_eq_true] at hc
          simp [hc.1]
    · split
      · left
        apply rankM_arith0
        · simp [ticksM, hp]
        · simp [shutRankM, hp]
      · exact Or.inr ⟨rfl, by simp [hjf], Or.inr ⟨hsc, rfl, hjf⟩⟩

end Grip.Props.C12.Multi.Lemmas
