/-
  Lemmas.C01Distinct — `distinct` keeps exactly one row per key value: the keys of its output are
  pairwise different, every key of the input that is defined occurs, every output row has a key;
  hence the NUMBER of rows is the number of distinct keys (the same for every order of the input),
  and when the key tells the rows apart the result itself is the same multiset for every order.
  Core Lean only.
-/
import Grip.Model.Eval

namespace Grip.Props.C01.Lemmas
open Grip

/-- the keys of the rows that have one -/
def keysOf (fs : List String) (ts : List Traveler) : List (List JV) := ts.filterMap (distinctKey fs)

theorem keysOf_cons_none {fs t ts} (h : distinctKey fs t = none) : keysOf fs (t :: ts) = keysOf fs ts := by
  simp [keysOf, h]

theorem keysOf_cons_some {fs t ts k} (h : distinctKey fs t = some k) :
    keysOf fs (t :: ts) = k :: keysOf fs ts := by
  simp [keysOf, h]

/-- The invariant of the scan: with `seen` the keys met so far, the rows kept from `ts` all have a
    key, their keys are pairwise different, and they are exactly the keys of `ts` not in `seen`. -/
theorem distinctGo_keys (fs : List String) : ∀ (seen : List (List JV)) (ts : List Traveler),
    (∀ t ∈ distinctGo fs seen ts, ∃ k, distinctKey fs t = some k) ∧
    (keysOf fs (distinctGo fs seen ts)).Nodup ∧
    (∀ k, k ∈ keysOf fs (distinctGo fs seen ts) ↔ (k ∈ keysOf fs ts ∧ k ∉ seen))
  | seen, [] => by simp [distinctGo, keysOf]
  | seen, t :: ts => by
    cases hk : distinctKey fs t with
    | none =>
      have ih := distinctGo_keys fs seen ts
      have e : distinctGo fs seen (t :: ts) = distinctGo fs seen ts := by simp [distinctGo, hk]
      rw [e, keysOf_cons_none hk]
      exact ih
    | some k =>
      by_cases hs : seen.contains k = true
      · have ih := distinctGo_keys fs seen ts
        have hmem : k ∈ seen := List.contains_iff_mem.1 hs
        have e : distinctGo fs seen (t :: ts) = distinctGo fs seen ts := by
          rw [distinctGo]; simp only [hk]; simp [hmem]
        rw [e, keysOf_cons_some hk]
        refine ⟨ih.1, ih.2.1, fun k' => ?_⟩
        rw [ih.2.2 k']
        constructor
        · rintro ⟨h1, h2⟩; exact ⟨List.mem_cons_of_mem _ h1, h2⟩
        · rintro ⟨h1, h2⟩
          rcases List.mem_cons.1 h1 with rfl | h1
          · exact absurd hmem h2
          · exact ⟨h1, h2⟩
      · have ih := distinctGo_keys fs (k :: seen) ts
        have hnot : k ∉ seen := fun h => hs (List.contains_iff_mem.2 h)
        have e : distinctGo fs seen (t :: ts) = t :: distinctGo fs (k :: seen) ts := by
          rw [distinctGo]; simp only [hk]; simp [hnot]
        rw [e, keysOf_cons_some hk, keysOf_cons_some hk]
        refine ⟨?_, ?_, fun k' => ?_⟩
        · intro t' ht'
          rcases List.mem_cons.1 ht' with rfl | ht'
          · exact ⟨k, hk⟩
          · exact ih.1 t' ht'
        · rw [List.nodup_cons]
          refine ⟨fun hin => ?_, ih.2.1⟩
          have := ((ih.2.2 k).1 hin).2
          exact this (List.mem_cons_self)
        · simp only [List.mem_cons, ih.2.2 k', not_or]
          by_cases hkk : k' = k
          · subst hkk; simp [hnot]
          · simp [hkk]

theorem length_filterMap_of_all_some {α β} (f : α → Option β) :
    ∀ (l : List α), (∀ a ∈ l, ∃ b, f a = some b) → (l.filterMap f).length = l.length
  | [], _ => rfl
  | a :: l, h => by
    obtain ⟨b, hb⟩ := h a (by simp)
    simp only [List.filterMap_cons, hb, List.length_cons]
    rw [length_filterMap_of_all_some f l (fun x hx => h x (List.mem_cons_of_mem _ hx))]

/-- The number of rows kept = the number of keys kept. -/
theorem distinctGo_length (fs : List String) (seen : List (List JV)) (ts : List Traveler) :
    (distinctGo fs seen ts).length = (keysOf fs (distinctGo fs seen ts)).length :=
  (length_filterMap_of_all_some _ _ (distinctGo_keys fs seen ts).1).symm

/-- The kept keys of two orders of one input are permutations of one another. -/
theorem distinctGo_keys_perm (fs : List String) (seen : List (List JV)) {xs ys : List Traveler}
    (h : xs.Perm ys) : (keysOf fs (distinctGo fs seen xs)).Perm (keysOf fs (distinctGo fs seen ys)) := by
  have hx := distinctGo_keys fs seen xs
  have hy := distinctGo_keys fs seen ys
  rw [List.perm_ext_iff_of_nodup hx.2.1 hy.2.1]
  intro k
  rw [hx.2.2 k, hy.2.2 k]
  have : k ∈ keysOf fs xs ↔ k ∈ keysOf fs ys := (h.filterMap (distinctKey fs)).mem_iff
  rw [this]

theorem distinctGo_sublist' (fs : List String) : ∀ (seen : List (List JV)) (ts : List Traveler),
    (distinctGo fs seen ts).Sublist ts
  | _, [] => by simp [distinctGo]
  | seen, t :: ts => by
    unfold distinctGo
    split
    · exact (distinctGo_sublist' fs seen ts).cons t
    · split
      · exact (distinctGo_sublist' fs seen ts).cons t
      · exact (distinctGo_sublist' fs _ ts).cons_cons t

/-- When rows of the input with equal keys are equal rows, the rows kept are pairwise different
    and are exactly the rows of the input that have a key not seen before. -/
theorem distinctGo_rows_of_inj (fs : List String) (seen : List (List JV)) (ts : List Traveler)
    (hinj : ∀ a ∈ ts, ∀ b ∈ ts, distinctKey fs a = distinctKey fs b → distinctKey fs a ≠ none → a = b) :
    (distinctGo fs seen ts).Nodup ∧
    (∀ t, t ∈ distinctGo fs seen ts ↔ (t ∈ ts ∧ ∃ k, distinctKey fs t = some k ∧ k ∉ seen)) := by
  have hk := distinctGo_keys fs seen ts
  have hsub := distinctGo_sublist' fs seen ts
  constructor
  · -- a list whose image under a function into options (all defined) has no duplicates has none
    have : ∀ (l : List Traveler), (∀ a ∈ l, ∃ k, distinctKey fs a = some k) → (keysOf fs l).Nodup → l.Nodup := by
      intro l
      induction l with
      | nil => intro _ _; exact List.nodup_nil
      | cons a l ih =>
        intro hall hnd
        obtain ⟨k, hka⟩ := hall a (by simp)
        rw [keysOf_cons_some hka, List.nodup_cons] at hnd
        rw [List.nodup_cons]
        refine ⟨fun hin => hnd.1 ?_, ih (fun x hx => hall x (List.mem_cons_of_mem _ hx)) hnd.2⟩
        exact List.mem_filterMap.2 ⟨a, hin, hka⟩
    exact this _ hk.1 hk.2.1
  · intro t
    constructor
    · intro ht
      obtain ⟨k, hkt⟩ := hk.1 t ht
      have hin : k ∈ keysOf fs (distinctGo fs seen ts) := List.mem_filterMap.2 ⟨t, ht, hkt⟩
      exact ⟨hsub.mem ht, k, hkt, ((hk.2.2 k).1 hin).2⟩
    · rintro ⟨hts, k, hkt, hns⟩
      have hin : k ∈ keysOf fs (distinctGo fs seen ts) :=
        (hk.2.2 k).2 ⟨List.mem_filterMap.2 ⟨t, hts, hkt⟩, hns⟩
      obtain ⟨t', ht', hkt'⟩ := List.mem_filterMap.1 hin
      have : t' = t := hinj t' (hsub.mem ht') t hts (by rw [hkt', hkt]) (by rw [hkt']; simp)
      exact this ▸ ht'

end Grip.Props.C01.Lemmas
