/-
  Lemmas for C19Feed: the small-step fan-out of aggregate.Process with failing workers.
    §0 basics (`upd`, `ctxDone`, `pend`)
    §1 the executable `step?`/`run`/`stuckB` agree with `Step`/`Reach`/`Stuck`
    §2 the measure
    §3 invariants (for every variant)
    §4 what a state in which nothing can move looks like
    §5 lists: where the first bad row sits in a prefix of the input
    §6 early-returning workers: how many rows a channel can have received
  (the construction of executions is in GripProofs.Lemmas.C19FeedSched)
-/
import Grip.Model.C19Feed
import GripProofs.Lemmas.C07

namespace Grip.Props.C19.FeedLemmas
open Grip.C07 (Reach)
open Grip.C19.Feed Grip.Props.C07.Lemmas

/-! ## §0 basics -/

@[simp] theorem upd_same {β : Type} (f : Nat → β) (i : Nat) (v : β) : upd f i v i = v := by simp [upd]

theorem upd_other {β : Type} (f : Nat → β) {i j : Nat} (v : β) (h : j ≠ i) : upd f i v j = f j := by
  simp [upd, h]

theorem ctxDone_iff {α : Type} (cfg : Cfg α) (s : St α) :
    ctxDone cfg s = true ↔ ∃ j, j < cfg.k ∧ (s.ws j).failed = true ∧ (s.ws j).stopped = true := by
  simp [ctxDone, List.any_eq_true, List.mem_range]

/-- the part of the held row that channel `j` has still to receive -/
def pend {α : Type} : Option (α × Nat) → Nat → List α
  | none, _ => []
  | some (t, i), j => if i ≤ j then [t] else []

theorem pend_length_le {α : Type} (h : Option (α × Nat)) (j : Nat) : (pend h j).length ≤ 1 := by
  cases h with
  | none => simp [pend]
  | some p => obtain ⟨t, i⟩ := p; simp only [pend]; split <;> simp

/-- channels are served in increasing order: a later channel has at least as much pending -/
theorem pend_mono {α : Type} (h : Option (α × Nat)) {j j' : Nat} (hjj : j ≤ j') :
    (pend h j).length ≤ (pend h j').length := by
  cases h with
  | none => simp [pend]
  | some p =>
    obtain ⟨t, i⟩ := p
    simp only [pend]
    by_cases h1 : i ≤ j
    · have h2 : i ≤ j' := by omega
      simp [h1, h2]
    · simp [h1]

/-! ## §1 executable form -/

theorem step?_sound {α : Type} {cfg : Cfg α} {s s' : St α} {m : Move} (h : step? cfg s m = some s') :
    Step cfg s s' := by
  cases m with
  | take =>
    simp only [step?] at h
    split at h
    · rename_i t ts hh ht
      split at h
      · rename_i hc
        cases h
        exact Step.take hc.1 hc.2 hh ht
      · cases h
    · cases h
  | send =>
    simp only [step?] at h
    split at h
    · rename_i t i hh
      split at h
      · rename_i hc
        cases h
        exact Step.send hc.1 hc.2.1 hh hc.2.2.1 hc.2.2.2
      · cases h
    · cases h
  | done =>
    simp only [step?] at h
    split at h
    · rename_i t i hh
      split at h
      · rename_i hc
        cases h
        exact Step.done hc.1 hc.2.1 hh hc.2.2
      · cases h
    · cases h
  | notice =>
    simp only [step?] at h
    split at h
    · rename_i t i hh
      split at h
      · rename_i hc
        cases h
        exact Step.notice hc.1 hc.2.1 hc.2.2.1 hh hc.2.2.2.1 hc.2.2.2.2
      · cases h
    · cases h
  | close =>
    simp only [step?] at h
    split at h
    · rename_i hc
      cases h
      exact Step.close hc.1 hc.2
    · cases h
  | work j =>
    simp only [step?] at h
    split at h
    · rename_i x xs hb
      split at h
      · rename_i hc
        cases h
        exact Step.work hc.1 hc.2 hb
      · cases h
    · cases h

theorem mem_allMoves_work {k j : Nat} (h : j < k) : Move.work j ∈ allMoves k := by
  simp [allMoves, List.mem_range]
  exact h

theorem step?_complete {α : Type} {cfg : Cfg α} {s s' : St α} (h : Step cfg s s') :
    ∃ m, m ∈ allMoves cfg.k ∧ step? cfg s m = some s' := by
  cases h with
  | take hc ha hh ht => exact ⟨.take, by simp [allMoves], by simp [step?, hh, ht, hc, ha]⟩
  | send hc ha hh hi hr => exact ⟨.send, by simp [allMoves], by simp [step?, hh, hc, ha, hi, hr]⟩
  | done hc ha hh hi => exact ⟨.done, by simp [allMoves], by simp [step?, hh, hc, ha, hi]⟩
  | notice hw hc ha hh hi hd => exact ⟨.notice, by simp [allMoves], by simp [step?, hh, hw, hc, ha, hi, hd]⟩
  | close hc hor => exact ⟨.close, by simp [allMoves], by simp [step?, hc, hor]⟩
  | work hj hs hb => exact ⟨.work _, mem_allMoves_work hj, by simp [step?, hb, hj, hs]⟩

theorem run_reach {α : Type} {cfg : Cfg α} (ms : List Move) {s s' : St α} (h : run cfg s ms = some s') :
    Reach (Step cfg) s s' := by
  induction ms generalizing s with
  | nil => simp only [run] at h; cases h; exact Reach.refl _
  | cons m ms ih =>
    simp only [run] at h
    split at h
    · rename_i u hu
      exact reach_head (step?_sound hu) (ih h)
    · cases h

theorem checkRun_witness {α : Type} {cfg : Cfg α} {s : St α} {ms : List Move} {P : St α → Bool}
    (h : checkRun cfg s ms P = true) : ∃ s', Reach (Step cfg) s s' ∧ P s' = true := by
  simp only [checkRun] at h
  split at h
  · rename_i s' hr
    exact ⟨s', run_reach ms hr, h⟩
  · cases h

theorem stuckB_sound {α : Type} {cfg : Cfg α} {s : St α} (h : stuckB cfg s = true) : Stuck cfg s := by
  intro s' hs
  obtain ⟨m, hm, he⟩ := step?_complete hs
  simp only [stuckB, List.all_eq_true] at h
  have := h m hm
  rw [he] at this
  cases this

/-! ## §2 the measure -/

theorem bufSum_congr {α : Type} (f g : Nat → Wk α) (k : Nat) (h : ∀ j, j < k → (g j).buf.length = (f j).buf.length) :
    bufSum g k = bufSum f k := by
  induction k with
  | zero => rfl
  | succ k ih =>
    simp only [bufSum]
    rw [ih (fun j hj => h j (by omega)), h k (by omega)]

theorem bufSum_upd {α : Type} (f : Nat → Wk α) (i k : Nat) (w : Wk α) (hi : i < k) :
    bufSum (upd f i w) k + (f i).buf.length = bufSum f k + w.buf.length := by
  induction k with
  | zero => omega
  | succ k ih =>
    simp only [bufSum]
    by_cases h : i = k
    · subst h
      rw [upd_same, bufSum_congr f (upd f i w) i (fun j hj => by rw [upd_other _ _ (by omega)])]
      omega
    · have := ih (by omega)
      rw [upd_other _ _ (fun e => h e.symm)]
      omega

theorem mu_dec {α : Type} {cfg : Cfg α} {s s' : St α} (h : Step cfg s s') : mu cfg s' < mu cfg s := by
  cases h with
  | take hc ha hh ht =>
    rename_i t ts
    simp only [mu, hc, ha, hh, ht, holdCost, List.length_cons]
    have : (ts.length + 1) * (2 * cfg.k + 2) = ts.length * (2 * cfg.k + 2) + (2 * cfg.k + 2) := by
      rw [Nat.add_mul]; omega
    rw [this]
    simp
    omega
  | send hc ha hh hi hr =>
    rename_i t i
    have := bufSum_upd s.ws i cfg.k { s.ws i with buf := (s.ws i).buf ++ [t] } hi
    simp only [List.length_append, List.length_cons, List.length_nil] at this
    simp only [mu, hc, ha, hh, holdCost]
    omega
  | done hc ha hh hi =>
    simp only [mu, hc, ha, hh, holdCost]
    omega
  | notice hw hc ha hh hi hd =>
    simp only [mu, hc, ha, hh, holdCost]
    simp
  | close hc hor =>
    simp only [mu, hc]
    simp
  | work hj hs hb =>
    rename_i j x xs
    have := bufSum_upd s.ws j cfg.k (consume cfg j (s.ws j) x xs) hj
    have h1 : (consume cfg j (s.ws j) x xs).buf.length = xs.length := rfl
    have h2 : (s.ws j).buf.length = xs.length + 1 := by rw [hb]; rfl
    simp only [mu]
    omega

theorem mu_init {α : Type} (cfg : Cfg α) (input : List α) : mu cfg (init input) = bound cfg.k input.length := by
  have : ∀ k, bufSum (fun _ => ({} : Wk α)) k = 0 := by
    intro k; induction k with
    | zero => rfl
    | succ k ih => simp [bufSum, ih]
  simp [mu, init, holdCost, bound, this]

/-- every execution is finite: no more than `bound` steps -/
theorem run_le_bound {α : Type} (cfg : Cfg α) (input : List α) (r : Nat → St α) (n : Nat)
    (h0 : r 0 = init input) (hr : ∀ i, i < n → Step cfg (r i) (r (i + 1))) : n ≤ bound cfg.k input.length := by
  have := run_bounded (Step cfg) (mu cfg) (fun _ _ h => mu_dec h) r n hr
  rw [h0, mu_init] at this
  omega

/-- from every state a state in which nothing can move is reachable -/
theorem exists_stuck {α : Type} (cfg : Cfg α) (s : St α) : ∃ t, Reach (Step cfg) s t ∧ Stuck cfg t :=
  exists_terminal (Step cfg) (mu cfg) (fun _ _ h => mu_dec h) (mu cfg s) s (Nat.le_refl _)

/-! ## §3 invariants, for every variant -/

/-- `rows`: what channel `j` has received, what the feeder still holds for it and what it has not
    taken yet make up the input (after `notice` the rest is what is drained and dropped);
    `stop`: only a worker that failed returns early, and only in the early-return variants;
    `fail`: a worker that failed has consumed a bad row; `abrt`: the feeder takes the `ctx.Done()`
    branch only if it watches `ctx` and a failed worker has returned;
    `live`/`clean`: an early-returning worker consumes nothing after its first bad row. -/
structure Inv {α : Type} (cfg : Cfg α) (input : List α) (s : St α) : Prop where
  rows : ∀ j, j < cfg.k → (s.ws j).seen ++ (s.ws j).buf ++ pend s.hold j ++ s.todo = input
  room : ∀ j, j < cfg.k → (s.ws j).buf.length ≤ cfg.cap
  fin : s.closed = true → s.abort = true ∨ (s.hold = none ∧ s.todo = [])
  stop : ∀ j, j < cfg.k → (s.ws j).stopped = true → (s.ws j).failed = true ∧ cfg.drainAfterError = false
  fail : ∀ j, j < cfg.k → (s.ws j).failed = true → ∃ x, x ∈ (s.ws j).seen ∧ cfg.bad j x = true
  mark : ∀ j, j < cfg.k → ∀ x, x ∈ (s.ws j).seen → cfg.bad j x = true → (s.ws j).failed = true
  abrt : s.abort = true → cfg.feederWatchesCtx = true ∧ ctxDone cfg s = true
  live : ∀ j, j < cfg.k → cfg.drainAfterError = false → (s.ws j).stopped = false →
    ∀ x, x ∈ (s.ws j).seen → cfg.bad j x = false
  clean : ∀ j, j < cfg.k → cfg.drainAfterError = false → ∀ x, x ∈ (s.ws j).seen.dropLast → cfg.bad j x = false

theorem inv_init {α : Type} (cfg : Cfg α) (input : List α) : Inv cfg input (init input) where
  rows := by intro j _; simp [init, pend]
  room := by intro j _; simp [init]
  fin := by intro h; cases h
  stop := by intro j _ h; cases h
  fail := by intro j _ h; cases h
  mark := by intro j _ x hx; simp [init] at hx
  abrt := by intro h; cases h
  live := by intro j _ _ _ x hx; simp [init] at hx
  clean := by intro j _ _ x hx; simp [init] at hx

theorem ctxDone_mono {α : Type} {cfg : Cfg α} {s s' : St α}
    (h : ∀ j, j < cfg.k → (s.ws j).failed = true → (s.ws j).stopped = true →
      (s'.ws j).failed = true ∧ (s'.ws j).stopped = true)
    (hd : ctxDone cfg s = true) : ctxDone cfg s' = true := by
  rw [ctxDone_iff] at hd ⊢
  obtain ⟨j, hj, hf, hs⟩ := hd
  exact ⟨j, hj, h j hj hf hs⟩

theorem inv_step {α : Type} {cfg : Cfg α} {input : List α} {s s' : St α} (h : Inv cfg input s)
    (hst : Step cfg s s') : Inv cfg input s' := by
  cases hst with
  | take hc ha hh ht =>
    refine ⟨?_, h.room, ?_, h.stop, h.fail, h.mark, ?_, h.live, h.clean⟩
    · intro j hj
      have := h.rows j hj
      rw [hh, ht] at this
      simpa [pend] using this
    · intro hc'; exact absurd (hc.symm.trans hc') (by simp)
    · intro ha'; exact absurd (ha.symm.trans ha') (by simp)
  | send hc ha hh hi hr =>
    rename_i t i
    have hsame : ∀ j, (upd s.ws i { s.ws i with buf := (s.ws i).buf ++ [t] } j).seen = (s.ws j).seen ∧
        (upd s.ws i { s.ws i with buf := (s.ws i).buf ++ [t] } j).failed = (s.ws j).failed ∧
        (upd s.ws i { s.ws i with buf := (s.ws i).buf ++ [t] } j).stopped = (s.ws j).stopped := by
      intro j
      by_cases hji : j = i
      · subst hji; simp
      · simp [upd_other _ _ hji]
    refine ⟨?_, ?_, ?_, ?_, ?_, ?_, ?_, ?_, ?_⟩
    · intro j hj
      have := h.rows j hj
      rw [hh] at this
      by_cases hji : j = i
      · subst hji
        have hn : ¬ j + 1 ≤ j := by omega
        simp only [upd_same]
        simpa [pend, hn] using this
      · simp only [upd_other _ _ hji]
        have e : pend (some (t, i + 1)) j = pend (some (t, i)) j := by
          simp only [pend]
          by_cases h1 : i ≤ j
          · have : i + 1 ≤ j := by omega
            simp [h1, this]
          · have : ¬ i + 1 ≤ j := by omega
            simp [h1, this]
        rw [e]; exact this
    · intro j hj
      by_cases hji : j = i
      · subst hji
        simp only [upd_same, List.length_append, List.length_cons, List.length_nil]
        omega
      · simp only [upd_other _ _ hji]; exact h.room j hj
    · intro hc'; exact absurd (hc.symm.trans hc') (by simp)
    · intro j hj; rw [(hsame j).2.2, (hsame j).2.1]; exact h.stop j hj
    · intro j hj; rw [(hsame j).2.1, (hsame j).1]; exact h.fail j hj
    · intro j hj; rw [(hsame j).2.1, (hsame j).1]; exact h.mark j hj
    · intro ha'; exact absurd (ha.symm.trans ha') (by simp)
    · intro j hj; rw [(hsame j).2.2, (hsame j).1]; exact h.live j hj
    · intro j hj; rw [(hsame j).1]; exact h.clean j hj
  | done hc ha hh hi =>
    rename_i t i
    refine ⟨?_, h.room, ?_, h.stop, h.fail, h.mark, ?_, h.live, h.clean⟩
    · intro j hj
      have := h.rows j hj
      rw [hh] at this
      have e : pend (some (t, i)) j = [] := by
        have : ¬ i ≤ j := by omega
        simp [pend, this]
      rw [e] at this
      simpa [pend] using this
    · intro hc'; exact absurd (hc.symm.trans hc') (by simp)
    · intro ha'; exact absurd (ha.symm.trans ha') (by simp)
  | notice hw hc ha hh hi hd =>
    refine ⟨h.rows, h.room, ?_, h.stop, h.fail, h.mark, ?_, h.live, h.clean⟩
    · intro hc'; exact absurd (hc.symm.trans hc') (by simp)
    · intro _; exact ⟨hw, hd⟩
  | close hc hor =>
    exact ⟨h.rows, h.room, fun _ => hor, h.stop, h.fail, h.mark, h.abrt, h.live, h.clean⟩
  | work hj0 hs0 hb =>
    rename_i j0 x xs
    refine ⟨?_, ?_, h.fin, ?_, ?_, ?_, ?_, ?_, ?_⟩
    · intro j hj
      have := h.rows j hj
      by_cases hji : j = j0
      · subst hji
        rw [hb] at this
        simp only [upd_same, consume]
        simpa using this
      · simp only [upd_other _ _ hji]; exact this
    · intro j hj
      have := h.room j hj
      by_cases hji : j = j0
      · subst hji
        rw [hb] at this
        simp only [upd_same, consume]
        simp only [List.length_cons] at this
        omega
      · simp only [upd_other _ _ hji]; exact this
    · intro j hj
      by_cases hji : j = j0
      · subst hji
        simp only [upd_same, consume]
        intro hst
        simp only [Bool.and_eq_true, Bool.not_eq_true'] at hst
        exact ⟨by simp [hst.2], hst.1⟩
      · simp only [upd_other _ _ hji]; exact h.stop j hj
    · intro j hj
      by_cases hji : j = j0
      · subst hji
        simp only [upd_same, consume]
        intro hf
        simp only [Bool.or_eq_true] at hf
        rcases hf with hf | hf
        · obtain ⟨y, hy, hby⟩ := h.fail j hj hf
          exact ⟨y, List.mem_append_left _ hy, hby⟩
        · exact ⟨x, by simp, hf⟩
      · simp only [upd_other _ _ hji]; exact h.fail j hj
    · intro j hj
      by_cases hji : j = j0
      · subst hji
        simp only [upd_same, consume]
        intro y hy hby
        rcases List.mem_append.1 hy with hy | hy
        · simp [h.mark j hj y hy hby]
        · simp only [List.mem_singleton] at hy; subst hy; simp [hby]
      · simp only [upd_other _ _ hji]; exact h.mark j hj
    · intro ha
      obtain ⟨hw, hd⟩ := h.abrt ha
      refine ⟨hw, ctxDone_mono ?_ hd⟩
      intro j hj hf hst
      have hji : j ≠ j0 := by
        intro e; subst e; rw [hs0] at hst; cases hst
      simp only [upd_other _ _ hji]
      exact ⟨hf, hst⟩
    · intro j hj hd
      by_cases hji : j = j0
      · subst hji
        simp only [upd_same, consume]
        intro hst y hy
        simp only [hd, Bool.not_false, Bool.true_and] at hst
        rcases List.mem_append.1 hy with hy | hy
        · exact h.live j hj hd hs0 y hy
        · simp only [List.mem_singleton] at hy; subst hy; exact hst
      · simp only [upd_other _ _ hji]; exact h.live j hj hd
    · intro j hj hd
      by_cases hji : j = j0
      · subst hji
        simp only [upd_same, consume, List.dropLast_concat]
        exact h.live j hj hd hs0
      · simp only [upd_other _ _ hji]; exact h.clean j hj hd

theorem inv_reach {α : Type} {cfg : Cfg α} {input : List α} {s : St α}
    (h : Reach (Step cfg) (init input) s) : Inv cfg input s :=
  reach_inv (Inv cfg input) (fun _ _ hi hs => inv_step hi hs) h (inv_init cfg input)

/-! ## §4 a state in which nothing can move -/

/-- either the feeder has returned, or it is blocked in a plain send to the full channel of a worker
    that has returned early (and is not allowed, or not able, to take the `ctx.Done()` branch) -/
theorem stuck_shape {α : Type} {cfg : Cfg α} {s : St α} (hcap : 1 ≤ cfg.cap) (hs : Stuck cfg s) :
    s.closed = true ∨
    (s.abort = false ∧ ∃ t i, s.hold = some (t, i) ∧ i < cfg.k ∧ (s.ws i).stopped = true ∧
      cfg.cap ≤ (s.ws i).buf.length ∧ ¬ (cfg.feederWatchesCtx = true ∧ ctxDone cfg s = true)) := by
  cases hc : s.closed with
  | true => exact Or.inl rfl
  | false =>
    right
    cases ha : s.abort with
    | true => exact absurd (Step.close hc (Or.inl ha)) (hs _)
    | false =>
      refine ⟨rfl, ?_⟩
      cases hh : s.hold with
      | none =>
        cases ht : s.todo with
        | nil => exact absurd (Step.close hc (Or.inr ⟨hh, ht⟩)) (hs _)
        | cons t ts => exact absurd (Step.take hc ha hh ht) (hs _)
      | some p =>
        obtain ⟨t, i⟩ := p
        by_cases hi : i < cfg.k
        · by_cases hr : (s.ws i).buf.length < cfg.cap
          · exact absurd (Step.send hc ha hh hi hr) (hs _)
          · cases hst : (s.ws i).stopped with
            | false =>
              cases hb : (s.ws i).buf with
              | nil => rw [hb] at hr; simp at hr; omega
              | cons x xs => exact absurd (Step.work hi hst hb) (hs _)
            | true =>
              refine ⟨t, i, rfl, hi, hst, by omega, ?_⟩
              rintro ⟨hw, hd⟩
              exact absurd (Step.notice hw hc ha hh hi hd) (hs _)
        · exact absurd (Step.done hc ha hh (by omega)) (hs _)

/-- every worker that is still reading has emptied its channel -/
theorem stuck_bufs {α : Type} {cfg : Cfg α} {s : St α} (hs : Stuck cfg s) (j : Nat) (hj : j < cfg.k)
    (hst : (s.ws j).stopped = false) : (s.ws j).buf = [] := by
  cases hb : (s.ws j).buf with
  | nil => rfl
  | cons x xs => exact absurd (Step.work hj hst hb) (hs _)

/-- lengths: what two channels have received differs by what the feeder still holds for them -/
theorem sent_length {α : Type} {cfg : Cfg α} {input : List α} {s : St α} (h : Inv cfg input s)
    (j : Nat) (hj : j < cfg.k) :
    (s.ws j).seen.length + (s.ws j).buf.length + (pend s.hold j).length + s.todo.length = input.length := by
  have := congrArg List.length (h.rows j hj)
  simp only [List.length_append] at this
  omega

/-! ## §5 lists: where the first bad row sits -/

/-- a prefix of `pre ++ b :: post` that has no bad row except possibly its last one does not reach
    beyond the bad row `b` -/
theorem prefix_clean_length {α : Type} {bad : α → Bool} {seen rest pre post : List α} {b : α}
    (e : seen ++ rest = pre ++ b :: post) (hb : bad b = true)
    (hclean : ∀ x, x ∈ seen.dropLast → bad x = false) : seen.length ≤ pre.length + 1 := by
  rcases List.append_eq_append_iff.1 e with ⟨a', h1, _⟩ | ⟨c', h1, h2⟩
  · rw [h1, List.length_append]; omega
  · cases c' with
    | nil => rw [h1]; simp
    | cons b' c'' =>
      simp only [List.cons_append, List.cons.injEq] at h2
      obtain ⟨hbb, _⟩ := h2
      subst hbb
      cases c'' with
      | nil => rw [h1]; simp
      | cons y ys =>
        exfalso
        have hmem : b ∈ seen.dropLast := by
          rw [h1, List.dropLast_append_of_ne_nil (by simp), List.dropLast_cons_of_ne_nil (by simp)]
          simp
        rw [hclean b hmem] at hb
        cases hb

/-- a prefix of `pre ++ b :: post` that contains a bad row, when `pre` has none, reaches `b` -/
theorem prefix_bad_length {α : Type} {bad : α → Bool} {seen rest pre post : List α} {b : α}
    (e : seen ++ rest = pre ++ b :: post) (hpre : ∀ x, x ∈ pre → bad x = false)
    (hx : ∃ x, x ∈ seen ∧ bad x = true) : pre.length + 1 ≤ seen.length := by
  obtain ⟨x, hxs, hbx⟩ := hx
  rcases List.append_eq_append_iff.1 e with ⟨a', h1, _⟩ | ⟨c', h1, h2⟩
  · have := hpre x (by rw [h1]; exact List.mem_append_left _ hxs)
    rw [this] at hbx; cases hbx
  · cases c' with
    | nil =>
      rw [h1, List.append_nil] at hxs
      have := hpre x hxs
      rw [this] at hbx; cases hbx
    | cons b' c'' => rw [h1]; simp

theorem split_at {α : Type} (l : List α) (m : Nat) (h : m < l.length) :
    ∃ t rest, l = l.take m ++ t :: rest ∧ l.take (m + 1) = l.take m ++ [t] := by
  induction l generalizing m with
  | nil => simp at h
  | cons x xs ih =>
    cases m with
    | zero => exact ⟨x, xs, by simp, by simp⟩
    | succ m =>
      obtain ⟨t, rest, h1, h2⟩ := ih m (by simpa using h)
      refine ⟨t, rest, ?_, ?_⟩
      · simp only [List.take_succ_cons, List.cons_append]; rw [← h1]
      · simp only [List.take_succ_cons, List.cons_append]; rw [h2]

/-! ## §6 early-returning workers: how far the rows get -/

/-- a worker that returns at its first bad row `b` (at position `pre.length`) never consumes more
    than `pre ++ [b]` — whatever the other workers do -/
theorem seen_le_first_bad {α : Type} {cfg : Cfg α} {pre post : List α} {b : α} {s : St α} {i : Nat}
    (h : Inv cfg (pre ++ b :: post) s) (hd : cfg.drainAfterError = false) (hi : i < cfg.k)
    (hb : cfg.bad i b = true) : (s.ws i).seen.length ≤ pre.length + 1 := by
  have e := h.rows i hi
  rw [List.append_assoc, List.append_assoc] at e
  exact prefix_clean_length (bad := cfg.bad i) e hb (h.clean i hi hd)

/-- … so its channel never receives more than `cap` rows after the bad one, and no channel receives
    more than one row more than that one -/
theorem sent_upper {α : Type} {cfg : Cfg α} {pre post : List α} {b : α} {s : St α} {i : Nat}
    (h : Inv cfg (pre ++ b :: post) s) (hd : cfg.drainAfterError = false) (hi : i < cfg.k)
    (hb : cfg.bad i b = true) (j : Nat) (hj : j < cfg.k) :
    (s.ws j).seen.length + (s.ws j).buf.length ≤ pre.length + 1 + cfg.cap + (if j < i then 1 else 0) := by
  have h1 := sent_length h j hj
  have h2 := sent_length h i hi
  have h3 := seen_le_first_bad h hd hi hb
  have h4 := h.room i hi
  have h5 := pend_length_le s.hold i
  by_cases hji : j < i
  · simp only [hji, if_true]
    omega
  · simp only [hji, if_false]
    have := pend_mono s.hold (j := i) (j' := j) (by omega)
    omega

end Grip.Props.C19.FeedLemmas
