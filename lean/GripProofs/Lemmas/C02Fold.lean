/-
  Lemmas for C02, part 4: the whole rewritten plan against the whole literal traversal (fold level).
-/
import Grip.Model.C02
import Grip.Spec.C02
import GripProofs.Lemmas.C02Opt
import GripProofs.Lemmas.C02Plan

namespace Grip.Props.C02.Lemmas
open Grip Grip.C02 Grip.C08 Grip.Spec.C02

variable (numOf : String → Option Int) (g : AGraph)

theorem step_perm_free (from_ : DataType) (s : Stmt) (h : orderFree s = true) {xs ys : List Traveler}
    (hp : xs.Perm ys) : (evalStepT numOf g from_ s xs).Perm (evalStepT numOf g from_ s ys) := by
  cases s <;> simp [orderFree] at h <;> simp only [evalStepT] <;>
    first
      | exact hp
      | exact hp.flatMap_right _
      | exact hp.filter _
      | exact hp.map _
      | exact (hp.flatMap_right _).append (hp.flatMap_right _)
      | (rw [hp.length_eq])

theorem evalFrom_perm : ∀ (rest : List Stmt) (st : TState) (xs ys : List Traveler),
    rest.all orderFree = true → xs.Perm ys →
    (evalFrom numOf g st xs rest).Perm (evalFrom numOf g st ys rest)
  | [], _, _, _, _, hp => by simpa [evalFrom] using hp
  | s :: rest, st, xs, ys, hall, hp => by
    simp only [List.all_cons, Bool.and_eq_true] at hall
    simp only [evalFrom]
    cases typeStep st s with
    | error e => simp
    | ok st' => exact evalFrom_perm rest st' _ _ hall.2 (step_perm_free numOf g st.last s hall.1 hp)

theorem evalFromX_eq : ∀ (l : List Stmt) (st : TState) (i : Nat) (ts : List Traveler),
    l.all orderFree = true →
    evalFromX (fun _ => evalStepP numOf g) st i ts l = evalFrom numOf g st ts l
  | [], _, _, _, _ => rfl
  | s :: l, st, i, ts, hall => by
    simp only [List.all_cons, Bool.and_eq_true] at hall
    simp only [evalFromX, evalFrom]
    have hs : evalStepP numOf g st.last s ts = evalStepT numOf g st.last s ts := by
      cases s <;> simp [orderFree] at hall <;> rfl
    rw [hs]
    cases typeStep st s with
    | error e => rfl
    | ok st' => exact evalFromX_eq l st' (i + 1) _ hall.2

/-- The predicate of a leading filter. -/
def leadPred : Stmt → Traveler → Bool
  | .hasId ids => keepHasId ids
  | .hasLabel ls => keepHasLabel ls
  | .has x => keepHas numOf x
  | _ => fun _ => true

theorem lead_step (s : Stmt) (hc : ∀ h : classify s = .stop, False) (from_ : DataType)
    (ts : List Traveler) : evalStepT numOf g from_ s ts = ts.filter (leadPred numOf s) := by
  cases s <;> first | (exfalso; exact hc rfl) | rfl

theorem lead_type (s : Stmt) (hc : ∀ h : classify s = .stop, False) (st st' : TState)
    (h : typeStep st s = .ok st') : st' = st := by
  cases s <;> first | (exfalso; exact hc rfl) | skip
  all_goals
    simp only [typeStep, needElement] at h
    split at h
    · simp at h
    · first
        | (simp only [Except.ok.injEq] at h; exact h.symm)
        | (split at h
           · simp at h
           · simp only [Except.ok.injEq] at h; exact h.symm)

theorem firstIdx_class (want : Lead → Bool) : ∀ (tail : List Stmt) (k : Nat),
    firstIdx want tail = some k → want (classify (tail.getD k .unknown)) = true
      ∧ (∀ h : classify (tail.getD k .unknown) = .stop, False)
  | [], k, h => by simp [firstIdx] at h
  | s :: rest, k, h => by
    unfold firstIdx at h
    split at h
    · simp at h
    · rename_i hns
      split at h
      · rename_i hw
        simp only [Option.some.injEq] at h
        subst h
        exact ⟨by simpa using hw, fun hh => hns hh⟩
      · cases hr : firstIdx want rest with
        | none => simp [hr] at h
        | some k' =>
          simp only [hr, Option.map_some, Option.some.injEq] at h
          subst h
          simpa using firstIdx_class want rest k' hr

/-- Removing the leading filter at the index the scan found, and starting from rows that are (up
    to order) the rows that filter keeps, gives (up to order) the same result. -/
theorem erase_perm (want : Lead → Bool) : ∀ (tail : List Stmt) (k : Nat) (st stf : TState)
    (xs ys : List Traveler),
    firstIdx want tail = some k → tail.all orderFree = true →
    ys.Perm (xs.filter (leadPred numOf (tail.getD k .unknown))) →
    typeFold st tail = .ok stf →
    (evalFrom numOf g st ys (tail.eraseIdx k)).Perm (evalFrom numOf g st xs tail)
      ∧ typeFold st (tail.eraseIdx k) = .ok stf
  | [], k, _, _, _, _, h, _, _, _ => by simp [firstIdx] at h
  | s :: rest, k, st, stf, xs, ys, h, hall, hp, ht => by
    simp only [List.all_cons, Bool.and_eq_true] at hall
    unfold firstIdx at h
    split at h
    · simp at h
    · rename_i hns
      have hns' : ∀ h : classify s = .stop, False := fun hh => hns hh
      simp only [typeFold] at ht
      cases hs : typeStep st s with
      | error e => simp [hs] at ht
      | ok st' =>
        have hst := lead_type s hns' st st' hs
        rw [hst] at hs
        simp only [hs] at ht
        split at h
        · simp only [Option.some.injEq] at h
          subst h
          simp only [List.getD_cons_zero] at hp
          simp only [List.eraseIdx_cons_zero, evalFrom, hs, lead_step numOf g s hns']
          exact ⟨evalFrom_perm numOf g rest _ _ _ hall.2 hp, ht⟩
        · cases hr : firstIdx want rest with
          | none => simp [hr] at h
          | some k' =>
            simp only [hr, Option.map_some, Option.some.injEq] at h
            subst h
            simp only [List.getD_cons_succ] at hp
            simp only [List.eraseIdx_cons_succ, evalFrom, typeFold, hs, lead_step numOf g s hns']
            have hp' : (ys.filter (leadPred numOf s)).Perm
                ((xs.filter (leadPred numOf s)).filter (leadPred numOf (rest.getD k' .unknown))) := by
              have := hp.filter (leadPred numOf s)
              rw [List.filter_filter] at this
              rw [List.filter_filter]
              have hfun : (fun a => leadPred numOf s a && leadPred numOf (rest.getD k' .unknown) a)
                  = (fun a => leadPred numOf (rest.getD k' .unknown) a && leadPred numOf s a) := by
                funext a; exact Bool.and_comm _ _
              rw [hfun] at this
              exact this
            exact erase_perm want rest k' st stf _ _ hr hall.2 hp' ht

end Grip.Props.C02.Lemmas

namespace Grip.Props.C02.Lemmas
open Grip Grip.C02 Grip.C08 Grip.Spec.C02

variable (numOf : String → Option Int) (g : AGraph)

theorem all_eraseIdx (tail : List Stmt) (k : Nat) (h : tail.all orderFree = true) :
    (tail.eraseIdx k).all orderFree = true := by
  rw [List.all_eq_true] at h ⊢
  intro s hs
  exact h s (List.mem_of_mem_eraseIdx hs)

theorem leadPred_id (s : Stmt) (ids : List String) (hc : Lead.isId (classify s) = true)
    (hv : idVals s = some ids) (hne : ids ≠ []) : leadPred numOf s = keepHasId ids := by
  cases s <;> try (simp [classify, Lead.isId] at hc; done)
  · rename_i x
    cases x <;> try (simp [classify, Lead.isId] at hc; done)
    rename_i k c a
    have hcur : keyIsCurrent k = true := by
      by_cases h : keyIsCurrent k = true
      · exact h
      · simp [classify, h, Lead.isId] at hc
    have hp : Path.jsonPathOf k = ["gid"] := by
      simp only [classify, hcur, if_true] at hc
      split at hc
      · assumption
      · simp [Lead.isId] at hc
      · simp [Lead.isId] at hc
    funext t
    simp only [leadPred, keepHas, evalHas, keepHasId, value_gid t k hcur hp]
    exact extract_sound numOf k c a ids (by simpa [idVals] using hv) hne (curId t)
  · simp only [idVals, Option.some.injEq] at hv
    subst hv
    rfl

/-- every row of a `V()` start has a current element -/
theorem stepV_cur_isSome (g : AGraph) (ids : List String) (t0 t : Traveler) (h : t ∈ stepV g ids t0) :
    t.cur.isSome = true := by
  unfold stepV at h
  split at h <;>
  · obtain ⟨v, _, rfl⟩ := List.mem_map.1 h
    rfl

/-- On a row WITH a current element (a row without one is dropped by `hasLabel` whatever the
    labels are, but kept by `has(eq(_label, ""))`: the two spellings differ exactly there). -/
theorem leadPred_label (s : Stmt) (ls : List String) (hc : Lead.isLabel (classify s) = true)
    (hv : labelVals s = some ls) (hne : ls ≠ []) (t : Traveler) (hcur : t.cur.isSome = true) :
    leadPred numOf s t = keepHasLabel ls t := by
  cases s <;> try (simp [classify, Lead.isLabel] at hc; done)
  · rename_i x
    cases x <;> try (simp [classify, Lead.isLabel] at hc; done)
    rename_i k c a
    have hcur' : keyIsCurrent k = true := by
      by_cases h : keyIsCurrent k = true
      · exact h
      · simp [classify, h, Lead.isLabel] at hc
    have hp : Path.jsonPathOf k = ["label"] := by
      simp only [classify, hcur', if_true] at hc
      split at hc
      · simp [Lead.isLabel] at hc
      · assumption
      · simp [Lead.isLabel] at hc
    simp only [leadPred, keepHas, evalHas, keepHasLabel, value_label t k hcur' hp, hcur, Bool.true_and]
    exact extract_sound numOf k c a ls (by simpa [labelVals] using hv) hne (curLabel t)
  · simp only [labelVals, Option.some.injEq] at hv
    subst hv
    rfl

theorem dedup_ne_nil (xs : List String) (h : (dedup xs).isEmpty = false) : xs ≠ [] := by
  intro hx; subst hx; simp [dedup] at h

theorem unchanged_ok (tail : List Stmt) (hall : tail.all orderFree = true) :
    (evalPlan numOf g (.V [] :: tail)).Perm (evalFrom numOf g {} [Traveler.seed] (.V [] :: tail)) := by
  unfold evalPlan
  rw [evalFromX_eq numOf g _ _ _ _ (by simpa [orderFree] using hall)]

theorem rewriteLabel_preserves (hg : g.WellFormed) (tail plan : List Stmt) (stf : TState)
    (hall : tail.all orderFree = true) (hr : rewriteLabel tail = some plan)
    (ht : typeFold {} (.V [] :: tail) = .ok stf) :
    typeFold {} plan = .ok stf
      ∧ (evalPlan numOf g plan).Perm (evalFrom numOf g {} [Traveler.seed] (.V [] :: tail)) := by
  unfold rewriteLabel at hr
  split at hr
  · simp only [Option.some.injEq] at hr; subst hr
    exact ⟨ht, unchanged_ok numOf g tail hall⟩
  · rename_i k hk
    split at hr
    · simp at hr
    · rename_i ls hls
      simp only at hr
      split at hr
      · simp only [Option.some.injEq] at hr; subst hr
        exact ⟨ht, unchanged_ok numOf g tail hall⟩
      · rename_i hne
        simp only [Option.some.injEq] at hr; subst hr
        have hne' : (dedup ls).isEmpty = false := by simpa using hne
        obtain ⟨hcl, _⟩ := firstIdx_class Lead.isLabel tail k hk
        have hpred := leadPred_label numOf (tail.getD k .unknown) ls hcl hls (dedup_ne_nil ls hne')
        have ht' : typeFold { last := .vertex, marks := [] } tail = .ok stf := by
          simpa [typeFold, typeStep] using ht
        have hperm : ([Traveler.seed].flatMap (stepIndex g (dedup ls))).Perm
            (([Traveler.seed].flatMap (stepV g [])).filter (leadPred numOf (tail.getD k .unknown))) := by
          rw [List.filter_congr (fun t ht => hpred t (by
            obtain ⟨t0, _, ht0⟩ := List.mem_flatMap.1 ht
            exact stepV_cur_isSome g [] t0 t ht0))]
          simpa using (stepIndex_filter_perm g hg ls Traveler.seed).symm
        obtain ⟨h1, h2⟩ := erase_perm numOf g Lead.isLabel tail k _ stf _ _ hk hall hperm ht'
        refine ⟨by simpa [typeFold, typeStep] using h2, ?_⟩
        have e1 : evalPlan numOf g (.lookupVertsIndex (dedup ls) :: tail.eraseIdx k)
            = evalFromX (fun _ => evalStepP numOf g) { last := .vertex, marks := [] } 1
                ([Traveler.seed].flatMap (stepIndex g (dedup ls))) (tail.eraseIdx k) := by
          simp [evalPlan, evalFromX, typeStep, evalStepP]
        have e2 : evalFrom numOf g {} [Traveler.seed] (.V [] :: tail)
            = evalFrom numOf g { last := .vertex, marks := [] } ([Traveler.seed].flatMap (stepV g [])) tail := by
          simp [evalFrom, typeStep, evalStepT]
        rw [e1, e2, evalFromX_eq numOf g _ _ _ _ (all_eraseIdx tail k hall)]
        exact h1

theorem rewriteTail_preserves (hg : g.WellFormed) (tail plan : List Stmt) (stf : TState)
    (hall : tail.all orderFree = true) (hr : rewriteTail tail = some plan)
    (ht : typeFold {} (.V [] :: tail) = .ok stf) :
    typeFold {} plan = .ok stf
      ∧ (evalPlan numOf g plan).Perm (evalFrom numOf g {} [Traveler.seed] (.V [] :: tail)) := by
  unfold rewriteTail at hr
  split at hr
  · exact rewriteLabel_preserves numOf g hg tail plan stf hall hr ht
  · rename_i k hk
    split at hr
    · simp at hr
    · rename_i ids hids
      simp only at hr
      split at hr
      · exact rewriteLabel_preserves numOf g hg tail plan stf hall hr ht
      · rename_i hne
        simp only [Option.some.injEq] at hr; subst hr
        have hne' : (dedup ids).isEmpty = false := by simpa using hne
        obtain ⟨hcl, _⟩ := firstIdx_class Lead.isId tail k hk
        have hpred := leadPred_id numOf (tail.getD k .unknown) ids hcl hids (dedup_ne_nil ids hne')
        have ht' : typeFold { last := .vertex, marks := [] } tail = .ok stf := by
          simpa [typeFold, typeStep] using ht
        have hperm : ([Traveler.seed].flatMap (stepV g (dedup ids))).Perm
            (([Traveler.seed].flatMap (stepV g [])).filter (leadPred numOf (tail.getD k .unknown))) := by
          rw [hpred]
          simpa using (stepV_filter_perm g hg ids hne' Traveler.seed).symm
        obtain ⟨h1, h2⟩ := erase_perm numOf g Lead.isId tail k _ stf _ _ hk hall hperm ht'
        refine ⟨by simpa [typeFold, typeStep] using h2, ?_⟩
        have e1 : evalPlan numOf g (.V (dedup ids) :: tail.eraseIdx k)
            = evalFromX (fun _ => evalStepP numOf g) { last := .vertex, marks := [] } 1
                ([Traveler.seed].flatMap (stepV g (dedup ids))) (tail.eraseIdx k) := by
          simp [evalPlan, evalFromX, typeStep, evalStepP, evalStepT]
        have e2 : evalFrom numOf g {} [Traveler.seed] (.V [] :: tail)
            = evalFrom numOf g { last := .vertex, marks := [] } ([Traveler.seed].flatMap (stepV g [])) tail := by
          simp [evalFrom, typeStep, evalStepT]
        rw [e1, e2, evalFromX_eq numOf g _ _ _ _ (all_eraseIdx tail k hall)]
        exact h1

end Grip.Props.C02.Lemmas

namespace Grip.Props.C02.Lemmas
open Grip Grip.C02 Grip.C08 Grip.Spec.C02

variable (numOf : String → Option Int) (g : AGraph)

theorem typeFold_append_inv : ∀ (a b : List Stmt) (st stf : TState),
    typeFold st (a ++ b) = .ok stf → ∃ stm, typeFold st a = .ok stm ∧ typeFold stm b = .ok stf
  | [], b, st, stf, h => ⟨st, rfl, by simpa using h⟩
  | s :: a, b, st, stf, h => by
    simp only [List.cons_append, typeFold] at h ⊢
    cases hs : typeStep st s with
    | error e => simp [hs] at h
    | ok st' =>
      simp only [hs] at h ⊢
      exact typeFold_append_inv a b st' stf h

theorem has_type (st st' : TState) (x : HasE) (h : typeStep st (.has x) = .ok st') (y : HasE) :
    typeStep st (.has y) = .ok st ∧ st' = st := by
  simp only [typeStep, needElement] at h ⊢
  split at h
  · simp at h
  · rename_i hne
    simp only [Except.ok.injEq] at h
    simp [hne, h.symm]

/-- `has(and(e₁…eₙ))` and `has(e₁)…has(eₙ)` are the same filter. -/
theorem flatten_has (st : TState) (hst : ∀ y, typeStep st (.has y) = .ok st) :
    ∀ (es : List HasE) (ts : List Traveler) (post : List Stmt),
      evalFrom numOf g st ts (es.map .has ++ post)
        = evalFrom numOf g st (ts.filter (keepHas numOf (.and es))) post
      ∧ typeFold st (es.map .has ++ post) = typeFold st post
  | [], ts, post => by
    refine ⟨?_, rfl⟩
    have : ts.filter (keepHas numOf (.and [])) = ts := by
      simp [keepHas, evalHas, evalHasList, allTrue]
    simp [this]
  | x :: xs, ts, post => by
    obtain ⟨ih1, ih2⟩ := flatten_has st hst xs (ts.filter (keepHas numOf x)) post
    refine ⟨?_, ?_⟩
    · simp only [List.map_cons, List.cons_append, evalFrom, hst x, evalStepT]
      rw [ih1, List.filter_filter]
      congr 1
      apply List.filter_congr
      intro t _
      simp only [keepHas, evalHas, evalHasList, allTrue]
      cases evalHas numOf t.value x <;> simp
    · simp only [List.map_cons, List.cons_append, typeFold, hst x]
      exact ih2

theorem opt_other (stmts : List Stmt) (h : ∀ tail, stmts ≠ .V [] :: tail) :
    indexStartOptimize stmts = some stmts := by
  unfold indexStartOptimize
  split
  · rename_i tail; exact absurd rfl (h tail)
  · rfl

theorem all_flat (pre : List Stmt) (es : List HasE) (post : List Stmt)
    (h : (Stmt.V [] :: (pre ++ Stmt.has (.and es) :: post)).all orderFree = true) :
    (Stmt.V [] :: (pre ++ (es.map Stmt.has ++ post))).all orderFree = true := by
  simp only [List.all_cons, List.all_append, Bool.and_eq_true, List.all_map] at h ⊢
  refine ⟨h.1, h.2.1, ?_, h.2.2.2⟩
  rw [List.all_eq_true]
  intro x _
  rfl

/-- The whole rewrite, including the and-flattening recursion (induction on its measure). -/
theorem opt_preserves (hg : g.WellFormed) : ∀ (n : Nat) (stmts plan : List Stmt) (stf : TState),
    pipeW stmts ≤ n → stmts.all orderFree = true → indexStartOptimize stmts = some plan →
    typeFold {} stmts = .ok stf →
    typeFold {} plan = .ok stf
      ∧ (evalPlan numOf g plan).Perm (evalFrom numOf g {} [Traveler.seed] stmts) := by
  intro n
  induction n with
  | zero =>
    intro stmts plan stf hn hall hopt ht
    by_cases hv : ∃ tail, stmts = .V [] :: tail
    · obtain ⟨tail, rfl⟩ := hv
      cases hs : splitAtAnd tail with
      | none =>
        rw [opt_noAnd tail hs] at hopt
        exact rewriteTail_preserves numOf g hg tail plan stf (by simpa [orderFree] using hall) hopt ht
      | some p =>
        obtain ⟨pre, es, post⟩ := p
        have := splitAtAnd_eq hs
        subst this
        simp only [pipeW, pipeW_append, stmtW, hasSize] at hn
        omega
    · have hv' : ∀ tail, stmts ≠ .V [] :: tail := fun tail h => hv ⟨tail, h⟩
      rw [opt_other stmts hv'] at hopt
      simp only [Option.some.injEq] at hopt; subst hopt
      refine ⟨ht, ?_⟩
      unfold evalPlan
      rw [evalFromX_eq numOf g _ _ _ _ hall]
  | succ n ih =>
    intro stmts plan stf hn hall hopt ht
    by_cases hv : ∃ tail, stmts = .V [] :: tail
    · obtain ⟨tail, rfl⟩ := hv
      cases hs : splitAtAnd tail with
      | none =>
        rw [opt_noAnd tail hs] at hopt
        exact rewriteTail_preserves numOf g hg tail plan stf (by simpa [orderFree] using hall) hopt ht
      | some p =>
        obtain ⟨pre, es, post⟩ := p
        rw [opt_and tail pre es post hs] at hopt
        have htl := splitAtAnd_eq hs
        subst htl
        have hlt : pipeW (.V [] :: (pre ++ (es.map .has ++ post))) ≤ n := by
          simp only [pipeW, pipeW_append, hasSizeL_map_le, stmtW, hasSize] at hn ⊢
          omega
        -- types and rows of the flattened pipeline equal those of the original
        have hsplit : (Stmt.V [] :: (pre ++ Stmt.has (.and es) :: post))
            = (Stmt.V [] :: pre) ++ (Stmt.has (.and es) :: post) := by simp
        have hsplit' : (Stmt.V [] :: (pre ++ (es.map Stmt.has ++ post)))
            = (Stmt.V [] :: pre) ++ (es.map Stmt.has ++ post) := by simp
        rw [hsplit] at ht
        obtain ⟨stm, hta, htb⟩ := typeFold_append_inv _ _ _ _ ht
        simp only [typeFold] at htb
        cases hstep : typeStep stm (.has (.and es)) with
        | error e => simp [hstep] at htb
        | ok stm' =>
          have hty := has_type stm stm' (.and es) hstep
          have hst : ∀ y, typeStep stm (.has y) = .ok stm := fun y => (hty y).1
          have hflat := flatten_has numOf g stm hst es
          have ht2 : typeFold {} (.V [] :: (pre ++ (es.map .has ++ post))) = .ok stf := by
            rw [hsplit', typeFold_append _ _ _ _ hta, (hflat [] post).2]
            simpa [hstep, (hty (.and es)).2] using htb
          obtain ⟨r1, r2⟩ := ih _ plan stf hlt (all_flat pre es post hall) hopt ht2
          refine ⟨r1, ?_⟩
          have heq : evalFrom numOf g {} [Traveler.seed] (.V [] :: (pre ++ (es.map .has ++ post)))
              = evalFrom numOf g {} [Traveler.seed] (.V [] :: (pre ++ Stmt.has (.and es) :: post)) := by
            rw [hsplit, hsplit', evalFrom_append numOf g _ _ _ _ _ hta,
              evalFrom_append numOf g _ _ _ _ _ hta, (hflat _ post).1]
            simp [evalFrom, hst, evalStepT]
          rw [← heq]
          exact r2
    · have hv' : ∀ tail, stmts ≠ .V [] :: tail := fun tail h => hv ⟨tail, h⟩
      rw [opt_other stmts hv'] at hopt
      simp only [Option.some.injEq] at hopt; subst hopt
      refine ⟨ht, ?_⟩
      unfold evalPlan
      rw [evalFromX_eq numOf g _ _ _ _ hall]

end Grip.Props.C02.Lemmas

namespace Grip.Props.C02.Lemmas
open Grip Grip.C02 Grip.C08 Grip.Spec.C02

theorem rewriteLabel_ne_nil (tail plan : List Stmt) (h : rewriteLabel tail = some plan) : plan ≠ [] := by
  unfold rewriteLabel at h
  split at h
  · simp only [Option.some.injEq] at h; subst h; simp
  · split at h
    · simp at h
    · simp only at h
      split at h <;> (simp only [Option.some.injEq] at h; subst h; simp)

theorem rewriteTail_ne_nil (tail plan : List Stmt) (h : rewriteTail tail = some plan) : plan ≠ [] := by
  unfold rewriteTail at h
  split at h
  · exact rewriteLabel_ne_nil tail plan h
  · split at h
    · simp at h
    · simp only at h
      split at h
      · exact rewriteLabel_ne_nil tail plan h
      · simp only [Option.some.injEq] at h; subst h; simp

/-- A non-empty pipeline has a non-empty plan. -/
theorem opt_ne_nil : ∀ (n : Nat) (stmts plan : List Stmt), pipeW stmts ≤ n → stmts ≠ [] →
    indexStartOptimize stmts = some plan → plan ≠ [] := by
  intro n
  induction n with
  | zero =>
    intro stmts plan hn hne hopt
    by_cases hv : ∃ tail, stmts = .V [] :: tail
    · obtain ⟨tail, rfl⟩ := hv
      cases hs : splitAtAnd tail with
      | none => rw [opt_noAnd tail hs] at hopt; exact rewriteTail_ne_nil tail plan hopt
      | some p =>
        obtain ⟨pre, es, post⟩ := p
        have := splitAtAnd_eq hs
        subst this
        simp only [pipeW, pipeW_append, stmtW, hasSize] at hn
        omega
    · have hv' : ∀ tail, stmts ≠ .V [] :: tail := fun tail h => hv ⟨tail, h⟩
      rw [opt_other stmts hv'] at hopt
      simp only [Option.some.injEq] at hopt; subst hopt; exact hne
  | succ n ih =>
    intro stmts plan hn hne hopt
    by_cases hv : ∃ tail, stmts = .V [] :: tail
    · obtain ⟨tail, rfl⟩ := hv
      cases hs : splitAtAnd tail with
      | none => rw [opt_noAnd tail hs] at hopt; exact rewriteTail_ne_nil tail plan hopt
      | some p =>
        obtain ⟨pre, es, post⟩ := p
        rw [opt_and tail pre es post hs] at hopt
        have htl := splitAtAnd_eq hs
        subst htl
        have hlt : pipeW (.V [] :: (pre ++ (es.map .has ++ post))) ≤ n := by
          simp only [pipeW, pipeW_append, hasSizeL_map_le, stmtW, hasSize] at hn ⊢
          omega
        exact ih _ plan hlt (by simp) hopt
    · have hv' : ∀ tail, stmts ≠ .V [] :: tail := fun tail h => hv ⟨tail, h⟩
      rw [opt_other stmts hv'] at hopt
      simp only [Option.some.injEq] at hopt; subst hopt; exact hne

end Grip.Props.C02.Lemmas
