/-
  Reopen transparency: `FieldsSync` (the in-memory field registry mirrors the persisted field keys)
  is an invariant; two states with the same persisted map and the same registry membership (`Sim`)
  answer every call alike and stay related; a reopened in-sync state is `Sim` to itself.
-/
import GripProofs.Lemmas.C04Writes

namespace Grip.Props.C04.Lemmas
open Grip.C03 Grip.C04 Grip.C04.Spec

def FieldsSync (s : KState) : Prop := ∀ f, s.fields.contains f = s.kv.has (.field f)

def Sim (s t : KState) : Prop := s.kv = t.kv ∧ ∀ f, s.fields.contains f = t.fields.contains f

theorem persisted_contains (m : KV) (f : String) : (persistedFields m).contains f = m.has (.field f) := by
  rw [Bool.eq_iff_iff, has_iff, List.contains_iff_mem]
  unfold persistedFields
  rw [List.mem_filterMap]
  constructor
  · rintro ⟨p, hp, hf⟩
    obtain ⟨k, v⟩ := p
    cases k <;> simp at hf
    subst hf; exact ⟨v, hp⟩
  · rintro ⟨v, hv⟩; exact ⟨(.field f, v), hv, rfl⟩

theorem touch_kv (s : KState) (g : String) : (s.touch g).kv = s.kv := rfl
theorem touch_fields (s : KState) (g : String) : (s.touch g).fields = s.fields := rfl

theorem foldl_touch_kv (gs : List String) (s : KState) :
    (gs.foldl (fun t g => t.touch g) s).kv = s.kv ∧ (gs.foldl (fun t g => t.touch g) s).fields = s.fields := by
  induction gs generalizing s with
  | nil => exact ⟨rfl, rfl⟩
  | cons g gs ih => rw [List.foldl_cons]; exact ⟨(ih _).1.trans rfl, (ih _).2.trans rfl⟩

theorem reopen_kv (s : KState) : (reopen s).kv = s.kv := (foldl_touch_kv _ _).1
theorem reopen_fields (s : KState) : (reopen s).fields = persistedFields s.kv := (foldl_touch_kv _ _).2

theorem sync_reopen (s : KState) : FieldsSync (reopen s) := by
  intro f; rw [reopen_kv, reopen_fields, persisted_contains]

theorem sim_reopen_self (s : KState) (h : FieldsSync s) : Sim (reopen s) s :=
  ⟨reopen_kv s, fun f => by rw [reopen_fields, persisted_contains, h f]⟩

theorem sim_reopen (s t : KState) (h : Sim s t) : Sim (reopen s) (reopen t) :=
  ⟨by rw [reopen_kv, reopen_kv, h.1], fun f => by rw [reopen_fields, reopen_fields, h.1]⟩

/-! ### the insert loop only asks the registry for membership, and never touches field keys -/

theorem addDoc_congr (fs1 fs2 : List String) (h : ∀ f, fs1.contains f = fs2.contains f)
    (m : KV) (g kind label docId : String) : addDoc fs1 m g kind label docId = addDoc fs2 m g kind label docId := by
  unfold addDoc; rw [h]

theorem insertElem_congr (fs1 fs2 : List String) (h : ∀ f, fs1.contains f = fs2.contains f)
    (m : KV) (g : String) (x : ElemIn) : insertElem fs1 m g x = insertElem fs2 m g x := by
  cases x <;> simp only [insertElem, insertVertex, insertEdge, addDoc_congr fs1 fs2 h]

theorem insertAll_congr (fs1 fs2 : List String) (h : ∀ f, fs1.contains f = fs2.contains f)
    (g : String) (xs : List ElemIn) (m : KV) : insertAll fs1 g m xs = insertAll fs2 g m xs := by
  induction xs generalizing m with
  | nil => rfl
  | cons x xs ih => simp only [insertAll, insertElem_congr fs1 fs2 h, ih]

theorem addDoc_has_field (fs : List String) (m : KV) (g kind label docId f : String) :
    (addDoc fs m g kind label docId).has (.field f) = m.has (.field f) := by
  unfold addDoc; split <;> simp [has_set]

theorem insertElem_has_field (fs : List String) (m : KV) (g : String) (x : ElemIn) (f : String) :
    (insertElem fs m g x).1.has (.field f) = m.has (.field f) := by
  cases x with
  | v x => simp only [insertElem, insertVertex]; split <;> simp [addDoc_has_field, has_set]
  | e x => simp only [insertElem, insertEdge]; split <;> simp [addDoc_has_field, has_set]

theorem insertAll_has_field (fs : List String) (g : String) (xs : List ElemIn) (m : KV) (f : String) :
    (insertAll fs g m xs).1.has (.field f) = m.has (.field f) := by
  induction xs generalizing m with
  | nil => rfl
  | cons x xs ih =>
    simp only [insertAll]
    rw [ih, insertElem_has_field]

theorem mem_delVKeys_not_field (m : KV) (g id f : String) : SKey.field f ∉ delVKeys m g id := by
  unfold delVKeys
  intro h
  rw [List.mem_append] at h
  rcases h with h | h <;>
  · rw [List.mem_flatten] at h
    obtain ⟨l, hl, hf⟩ := h
    rw [List.mem_filterMap] at hl
    obtain ⟨p, _, hp⟩ := hl
    split at hp
    · split at hp
      · cases hp; simp at hf
      · cases hp
    · cases hp

/-- After RemoveField on every field of `fs`, a field key survives iff it was not in `fs`. -/
theorem removeFields_has_field (fs : List String) (m : KV) (f : String) :
    (applyAll (fs.flatMap removeFieldW) m).has (.field f) = (!fs.contains f && m.has (.field f)) := by
  induction fs generalizing m with
  | nil => simp [applyAll]
  | cons f' fs ih =>
    rw [List.flatMap_cons, applyAll_append, ih]
    simp only [removeFieldW, applyAll, List.foldl_cons, List.foldl_nil, AW.apply, has_del, has_delWhere, Pat.test,
      List.contains_cons]
    by_cases h : f = f'
    · simp [h]
    · have hb : (f == f') = false := by simp [h]
      simp [h, hb]

/-! ### AddGraph = (sweep of an unlisted name) then registration and the graph key -/

/-- AddGraph after validation and the sweep: Touch, two AddField, Set(graph key). -/
def addGraphCore (s : KState) (g : String) : KState :=
  let s := s.touch g
  let fs := [labelField g "v", labelField g "e"]
  let s := { s with fields := fs ++ s.fields.filter (fun f => !fs.contains f),
                    kv := (s.kv.set (.field (labelField g "v")) .unit).set (.field (labelField g "e")) .unit }
  { s with kv := s.kv.set (.graph g) .unit }

theorem step_addGraph (s : KState) (g : String) :
    step s (.addGraph g) = if !validName g then (s, .err) else
      (addGraphCore (if hasGraph s g then s else sweepGraph s g) g, .ok) := rfl

theorem contains_filter (l : List String) (q : String → Bool) (f : String) :
    (l.filter q).contains f = (q f && l.contains f) := by
  rw [Bool.eq_iff_iff]
  simp [List.contains_eq_mem, List.mem_filter, and_comm]

theorem sweepGraph_has_field (s : KState) (g f : String) :
    (sweepGraph s g).kv.has (.field f) = (!(graphFields s.kv g).contains f && s.kv.has (.field f)) := by
  rw [← sweepW_kv]
  unfold sweepW
  rw [applyAll_append, removeFields_has_field]
  simp [applyAll, AW.apply, has_delWhere, Pat.test]

theorem sync_sweep (s : KState) (g : String) (h : FieldsSync s) : FieldsSync (sweepGraph s g) := by
  intro f
  rw [sweepGraph_has_field, sweepGraph_fields, contains_filter, h f]

theorem sim_sweep (s t : KState) (g : String) (h : Sim s t) : Sim (sweepGraph s g) (sweepGraph t g) := by
  obtain ⟨hkv, hfs⟩ := h
  refine ⟨?_, fun f => ?_⟩
  · rw [← sweepW_kv, ← sweepW_kv, hkv]
  · rw [sweepGraph_fields, sweepGraph_fields, contains_filter, contains_filter, hkv, hfs]

theorem sync_addGraphCore (s : KState) (g : String) (h : FieldsSync s) : FieldsSync (addGraphCore s g) := by
  intro f
  have hf : decide (f ∈ s.fields) = s.kv.has (.field f) := by rw [← List.contains_eq_mem]; exact h f
  simp only [addGraphCore, KState.touch, has_set]
  rw [Bool.eq_iff_iff]
  simp only [List.contains_iff_mem, List.mem_append, List.mem_filter, List.mem_cons, List.not_mem_nil, or_false,
    Bool.or_eq_true, decide_eq_true_eq, SKey.field.injEq, Bool.not_eq_true', reduceCtorEq, false_or]
  have hf' : f ∈ s.fields ↔ s.kv.has (.field f) = true := by rw [← hf]; simp
  rw [hf']
  by_cases h1 : f = labelField g "v"
  · simp [h1]
  · by_cases h2 : f = labelField g "e"
    · simp [h2]
    · have h1' : ¬ labelField g "v" = f := fun e => h1 e.symm
      have h2' : ¬ labelField g "e" = f := fun e => h2 e.symm
      simp [h1, h2, h1', h2']

theorem sim_addGraphCore (s t : KState) (g : String) (h : Sim s t) : Sim (addGraphCore s g) (addGraphCore t g) := by
  obtain ⟨hkv, hfs⟩ := h
  refine ⟨by simp only [addGraphCore, KState.touch, hkv], fun f => ?_⟩
  simp only [addGraphCore, KState.touch, List.contains_append, contains_filter, hfs]

theorem step_delGraph_fields (s : KState) (g : String) :
    (step s (.delGraph g)).1.fields = s.fields.filter (fun f => !(graphFields s.kv g).contains f) := by
  have e : graphFields s.kv g = List.filter (fun f => decide (fieldGraph f = g))
      (persistedFields (((((s.kv.delWhere (Pat.test (.edges g))).delWhere (Pat.test (.verts g))).delWhere
        (Pat.test (.srcs g))).delWhere (Pat.test (.dsts g))).del (.graph g))) := by
    unfold graphFields
    rw [persistedFields_del _ _ (by intro f; simp)]
    repeat rw [persistedFields_delWhere _ _ (by intro f; rfl)]
  rw [e]
  simp only [test_edges, test_verts, test_srcs, test_dsts]
  rfl

theorem sync_step (s : KState) (op : Op) (h : FieldsSync s) : FieldsSync (step s op).1 := by
  intro f
  have hkv := step_eq_writes s op
  rw [← hkv]
  have hf : decide (f ∈ s.fields) = s.kv.has (.field f) := by rw [← List.contains_eq_mem]; exact h f
  cases op with
  | addGraph g =>
    rw [hkv, step_addGraph]
    by_cases hv : validName g = true
    · simp only [hv, Bool.not_true, Bool.false_eq_true, if_false]
      by_cases hg : hasGraph s g = true
      · simp only [hg, if_true]; exact sync_addGraphCore s g h f
      · simp only [hg, Bool.false_eq_true, if_false]; exact sync_addGraphCore _ g (sync_sweep s g h) f
    · simp only [hv, Bool.not_false, if_true]; exact h f
  | delGraph g =>
    rw [writes_delGraph, applyAll_append, removeFields_has_field]
    simp only [applyAll, List.foldl_cons, List.foldl_nil, AW.apply, has_del, has_delWhere, Pat.test]
    rw [step_delGraph_fields]
    have hfs : ∀ (fs : List String), (s.fields.filter (fun f => !fs.contains f)).contains f = (!fs.contains f && s.fields.contains f) := by
      intro fs
      rw [Bool.eq_iff_iff]
      simp [List.contains_eq_mem, List.mem_filter, and_comm]
    rw [hfs, h f]
    simp
  | addV g vs =>
    unfold writes addW step addElems
    by_cases hg : hasGraph s g = true
    · simp only [hg, Bool.not_true, Bool.false_eq_true, if_false, applyAll, List.foldl_cons, List.foldl_nil, AW.apply,
        insertAll_has_field]
      generalize insertAll s.fields g s.kv _ = r
      obtain ⟨m, anyOk, anyErr⟩ := r
      by_cases ha : anyOk = true <;> simp [ha, KState.touch, hf]
    · simp [hg, applyAll, hf]
  | addE g es =>
    unfold writes addW step addElems
    by_cases hg : hasGraph s g = true
    · simp only [hg, Bool.not_true, Bool.false_eq_true, if_false, applyAll, List.foldl_cons, List.foldl_nil, AW.apply,
        insertAll_has_field]
      generalize insertAll s.fields g s.kv _ = r
      obtain ⟨m, anyOk, anyErr⟩ := r
      by_cases ha : anyOk = true <;> simp [ha, KState.touch, hf]
    · simp [hg, applyAll, hf]
  | bulk g xs =>
    unfold writes addW step addElems
    by_cases hg : hasGraph s g = true
    · simp only [hg, Bool.not_true, Bool.false_eq_true, if_false, applyAll, List.foldl_cons, List.foldl_nil, AW.apply,
        insertAll_has_field]
      generalize insertAll s.fields g s.kv _ = r
      obtain ⟨m, anyOk, anyErr⟩ := r
      by_cases ha : anyOk = true <;> simp [ha, KState.touch, hf]
    · simp [hg, applyAll, hf]
  | delV g id =>
    unfold writes step
    by_cases hg : hasGraph s g = true
    · simp only [hg, Bool.not_true, Bool.false_eq_true, if_false, applyAll, List.foldl_cons, List.foldl_nil, AW.apply,
        has_delKeys, KState.touch, List.mem_cons]
      simp [mem_delVKeys_not_field, hf]
    · simp [hg, applyAll, hf]
  | delE g eid =>
    unfold writes step
    by_cases hg : hasGraph s g = true
    · simp only [hg, Bool.not_true, Bool.false_eq_true, if_false]
      cases hl : lastByBytes (edgeRecords s.kv g eid) with
      | none => simp [applyAll, hf]
      | some p =>
        obtain ⟨k, v⟩ := p
        cases k <;> simp [applyAll, AW.apply, has_delKeys, KState.touch, hf]
    · simp [hg, applyAll, hf]

theorem addElems_sim (s t : KState) (h : Sim s t) (g : String) (xs : List ElemIn) :
    Sim (addElems s g xs).1 (addElems t g xs).1 ∧ (addElems s g xs).2 = (addElems t g xs).2 := by
  obtain ⟨hkv, hfs⟩ := h
  unfold addElems hasGraph
  rw [hkv, insertAll_congr s.fields t.fields hfs]
  by_cases hg : t.kv.has (.graph g) = true
  · simp only [hg, Bool.not_true, Bool.false_eq_true, if_false]
    generalize insertAll t.fields g t.kv xs = r
    obtain ⟨m, anyOk, anyErr⟩ := r
    by_cases ha : anyOk = true
    · simp only [ha, if_true]; exact ⟨⟨rfl, hfs⟩, by first | rfl | trivial⟩
    · simp only [ha]; exact ⟨⟨rfl, hfs⟩, by first | rfl | trivial⟩
  · simp only [hg, Bool.not_false, if_true]; exact ⟨⟨hkv, hfs⟩, by first | rfl | trivial⟩

theorem sim_step (s t : KState) (op : Op) (h : Sim s t) :
    Sim (step s op).1 (step t op).1 ∧ (step s op).2 = (step t op).2 := by
  cases op with
  | addV g vs => exact addElems_sim s t h g _
  | addE g es => exact addElems_sim s t h g _
  | bulk g xs => exact addElems_sim s t h g _
  | addGraph g =>
    rw [step_addGraph, step_addGraph]
    have hg : hasGraph s g = hasGraph t g := by unfold hasGraph; rw [h.1]
    by_cases hv : validName g = true
    · simp only [hv, Bool.not_true, Bool.false_eq_true, if_false, hg]
      refine ⟨?_, trivial⟩
      by_cases hg' : hasGraph t g = true
      · simp only [hg', if_true]; exact sim_addGraphCore s t g h
      · simp only [hg', Bool.false_eq_true, if_false]; exact sim_addGraphCore _ _ g (sim_sweep s t g h)
    · simp only [hv, Bool.not_false, if_true]; exact ⟨h, trivial⟩
  | delGraph g =>
    obtain ⟨hkv, hfs⟩ := h
    have e1 := step_eq_writes s (.delGraph g)
    have e2 := step_eq_writes t (.delGraph g)
    refine ⟨⟨?_, fun f => ?_⟩, by first | rfl | trivial⟩
    · rw [← e1, ← e2, writes_delGraph, writes_delGraph, hkv]
    · rw [step_delGraph_fields, step_delGraph_fields, contains_filter, contains_filter, hkv, hfs]
  | delV g id =>
    obtain ⟨hkv, hfs⟩ := h
    unfold step hasGraph
    rw [hkv]
    by_cases hg : t.kv.has (.graph g) = true
    · simp only [hg, Bool.not_true, Bool.false_eq_true, if_false, KState.touch]; exact ⟨⟨rfl, hfs⟩, by first | rfl | trivial⟩
    · simp only [hg, Bool.not_false, if_true]; exact ⟨⟨hkv, hfs⟩, by first | rfl | trivial⟩
  | delE g eid =>
    obtain ⟨hkv, hfs⟩ := h
    unfold step hasGraph
    rw [hkv]
    by_cases hg : t.kv.has (.graph g) = true
    · simp only [hg, Bool.not_true, Bool.false_eq_true, if_false]
      cases hl : lastByBytes (edgeRecords t.kv g eid) with
      | none => exact ⟨⟨hkv, hfs⟩, by first | rfl | trivial⟩
      | some p =>
        obtain ⟨k, v⟩ := p
        cases k <;> first | exact ⟨⟨hkv, hfs⟩, by first | rfl | trivial⟩ | exact ⟨⟨rfl, hfs⟩, by first | rfl | trivial⟩
    · simp only [hg, Bool.not_false, if_true]; exact ⟨⟨hkv, hfs⟩, by first | rfl | trivial⟩

theorem sync_ev (s : KState) (e : Ev) (h : FieldsSync s) : FieldsSync (evStep s e) := by
  cases e with
  | op o => exact sync_step s o h
  | reopen => exact sync_reopen s

theorem sync_run (h : List Ev) (s : KState) (hs : FieldsSync s) : FieldsSync (runEv s h) := by
  induction h generalizing s with
  | nil => exact hs
  | cons e h ih => exact ih _ (sync_ev s e hs)

theorem sim_ev (s t : KState) (e : Ev) (h : Sim s t) : Sim (evStep s e) (evStep t e) := by
  cases e with
  | op o => exact (sim_step s t o h).1
  | reopen => exact sim_reopen s t h

theorem sim_run (h : List Ev) (s t : KState) (hs : Sim s t) :
    Sim (runEv s h) (runEv t h) ∧ results s h = results t h := by
  induction h generalizing s t with
  | nil => exact ⟨hs, rfl⟩
  | cons e h ih =>
    cases e with
    | op o =>
      have := sim_step s t o hs
      refine ⟨(ih _ _ this.1).1, ?_⟩
      simp only [results, this.2, (ih _ _ this.1).2]
    | reopen =>
      refine ⟨(ih _ _ (sim_reopen s t hs)).1, ?_⟩
      simp only [results, (ih _ _ (sim_reopen s t hs)).2]

theorem runEv_append (a b : List Ev) (s : KState) : runEv s (a ++ b) = runEv (runEv s a) b := by
  unfold runEv; rw [List.foldl_append]

theorem results_append (a b : List Ev) (s : KState) : results s (a ++ b) = results s a ++ results (runEv s a) b := by
  induction a generalizing s with
  | nil => rfl
  | cons e a ih =>
    cases e with
    | op o => simp only [List.cons_append, results, ih, runEv, List.foldl_cons, evStep]
    | reopen => simp only [List.cons_append, results, ih, runEv, List.foldl_cons, evStep]

end Grip.Props.C04.Lemmas
