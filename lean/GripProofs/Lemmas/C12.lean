import Grip.Spec.C12

namespace Grip.Props.C12.Lemmas
open Grip.C12

variable {T : Type}

theorem iterate_nil (L : Loop T) (n : Nat) : iterate L n [] = [] := by
  induction n with
  | zero => rfl
  | succ n ih => simp [iterate, Loop.emitOf, ih]

end Grip.Props.C12.Lemmas
