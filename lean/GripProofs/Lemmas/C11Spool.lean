/-
  Lemmas for Grip.Props.C11 (small-step spool model, Grip.Model.C11Spool): the inductive
  invariant of the goroutine / reader / restart system, for every variant at once.
-/
import Grip.Model.C11Spool

namespace Grip.C11.Spool
open Grip.C11 (JobState)
variable {α : Type}

@[simp, grind =] theorem Tail.pending_clean : (Tail.clean : Tail α).pending = [] := rfl
@[simp, grind =] theorem Tail.pending_noNl (r : α) : (Tail.noNl r).pending = [r] := rfl
@[simp, grind =] theorem Tail.pending_cut (r : α) : (Tail.cut r).pending = [r] := rfl
@[simp] theorem Tail.read_clean : (Tail.clean : Tail α).read = [] := rfl

@[simp, grind =] theorem Variant.buffered_direct : Variant.direct.buffered = false := rfl
@[simp, grind =] theorem Variant.buffered_directOld : Variant.directOld.buffered = false := rfl
@[simp, grind =] theorem Variant.buffered_flushAfter (c : Option Nat) : (Variant.flushAfter c).buffered = true := rfl
@[simp, grind =] theorem Variant.buffered_flushBefore (c : Option Nat) : (Variant.flushBefore c).buffered = true := rfl
@[simp, grind =] theorem Variant.safe_direct : Variant.direct.safe = true := rfl
@[simp, grind =] theorem Variant.safe_directOld : Variant.directOld.safe = true := rfl
@[simp, grind =] theorem Variant.safe_flushAfter (c : Option Nat) : (Variant.flushAfter c).safe = false := rfl
@[simp, grind =] theorem Variant.safe_flushBefore (c : Option Nat) : (Variant.flushBefore c).safe = true := rfl

@[simp, grind =] theorem Variant.statusFirst_direct : Variant.direct.statusFirst = true := rfl
@[simp, grind =] theorem Variant.statusFirst_directOld : Variant.directOld.statusFirst = false := rfl
@[simp, grind =] theorem Variant.statusFirst_flushAfter (c : Option Nat) :
    (Variant.flushAfter c).statusFirst = true := rfl
@[simp, grind =] theorem Variant.statusFirst_flushBefore (c : Option Nat) :
    (Variant.flushBefore c).statusFirst = true := rfl

theorem Variant.buffered_eq_false {v : Variant} : v.buffered = false ↔ v = .direct ∨ v = .directOld := by
  cases v <;> simp [Variant.buffered]

/-- an unbuffered writer is safe for the rows -/
theorem Variant.safe_of_unbuffered {v : Variant} (h : v.buffered = false) : v.safe = true := by
  cases v <;> simp_all

theorem Variant.full_of_unbuffered {v : Variant} (h : v.buffered = false) (n : Nat) :
    v.full n = false := by
  cases v <;> simp_all [Variant.full, Variant.cap?]

/-! ### the invariant -/

/-- Between two rows: the file ends on a row boundary, or (buffered writer only) on a cut row;
    an unbuffered writer has nothing buffered. -/
def Quiet (v : Variant) (s : St α) : Prop :=
  (s.tail = .clean ∨ (v.buffered = true ∧ ∃ r, s.tail = .cut r)) ∧
  (v.buffered = false → s.buffer = [])

/-- The loop is over: every row was counted and handed to the writer; in a safe variant all of
    them are in the file. -/
def Late (v : Variant) (s : St α) : Prop :=
  s.count = s.flushed.length ∧ s.todo = [] ∧ Quiet v s ∧
  (v.safe = true → s.buffer = [] ∧ s.tail = .clean)

/-- How the goroutine ended: COMPLETE with the status file written, or ERROR without one. -/
def Ended (s : St α) : Prop :=
  (s.state = .complete ∧ s.statusFile = some (some (.complete, s.count))) ∨
  (s.state = .error ∧ s.statusFile = none)

def Final (s : St α) : Prop :=
  s.todo = [] ∧ s.buffer = [] ∧ s.tail = .clean ∧ s.count = s.file.length ∧ Ended s

/-- What is known at each program point. -/
def PcFacts (v : Variant) (s : St α) : Prop :=
  match s.pc with
  | .start => s.state = .queued ∧ s.count = 0 ∧ s.file = [] ∧ s.tail = .clean ∧ s.buffer = [] ∧
      s.statusFile = none
  | .fetch => s.state = .running ∧ s.statusFile = none ∧ s.count = s.flushed.length ∧ Quiet v s
  | .newline r => v.buffered = false ∧ s.state = .running ∧ s.statusFile = none ∧ s.tail = .noNl r ∧
      s.buffer = [] ∧ s.count = s.file.length
  | .addCount => s.state = .running ∧ s.statusFile = none ∧ s.count + 1 = s.flushed.length ∧
      Quiet v s
  | .flushPre => (∃ c, v = .flushBefore c) ∧ s.state = .running ∧ s.statusFile = none ∧
      s.count = s.flushed.length ∧ s.todo = [] ∧ Quiet v s
  | .create => s.state = .running ∧ s.statusFile = none ∧ Late v s
  | .setComplete => s.state = .running ∧ Late v s ∧
      s.statusFile = (if v.statusFirst = true then some (some (.complete, s.count)) else some none)
  | .writeStatus => s.statusFile = some none ∧ Late v s ∧
      s.state = (if v.statusFirst = true then .running else .complete)
  | .flushPost => (∃ c, v = .flushAfter c) ∧ s.todo = [] ∧ s.count = s.flushed.length ∧
      Quiet v s ∧ Ended s
  | .close => Final s
  | .done => Final s
  | .dead => (s.present = true → s.statusFile = some (some (s.state, s.count))) ∧
      (s.present = false → s.state = .queued ∧ s.count = 0 ∧ ∀ x, s.statusFile ≠ some (some x))

structure Inv (v : Variant) (input : List α) (s : St α) : Prop where
  /-- while the goroutine lives, no row is lost: file, owed remainder, buffer, undelivered rows -/
  live : s.pc ≠ .dead → s.present = true ∧ s.flushed ++ s.todo = input
  /-- what is on disk is a prefix of the input, always -/
  pre : s.file ++ s.tail.pending <+: input
  pcf : PcFacts v s
  /-- a written status file says COMPLETE with the right count; in a safe variant the results
      file is complete by then -/
  disk : ∀ st n, s.statusFile = some (some (st, n)) →
    st = .complete ∧ n = input.length ∧ (v.safe = true → s.file = input ∧ s.tail = .clean)

theorem inv_init (v : Variant) (input : List α) : Inv v input (init input) := by
  refine ⟨?_, ?_, ?_, ?_⟩
  · intro _; exact ⟨rfl, rfl⟩
  · exact List.nil_prefix
  · simp [PcFacts, init]
  · intro st n h; simp [init] at h

theorem pre_of_live {input : List α} {s : St α} (h : s.flushed ++ s.todo = input) :
    s.file ++ s.tail.pending <+: input :=
  ⟨s.buffer ++ s.todo, by simpa [St.flushed, List.append_assoc] using h⟩

theorem Inv.mk_live {v : Variant} {input : List α} {s : St α} (hpr : s.present = true)
    (hl : s.flushed ++ s.todo = input) (hf : PcFacts v s)
    (hd : ∀ st n, s.statusFile = some (some (st, n)) →
      st = .complete ∧ n = input.length ∧ (v.safe = true → s.file = input ∧ s.tail = .clean)) :
    Inv v input s :=
  ⟨fun _ => ⟨hpr, hl⟩, pre_of_live hl, hf, hd⟩

set_option linter.unusedSimpArgs false

/-- closes the four obligations of `Inv.mk_live` for a concrete successor state -/
local macro "spool_auto" : tactic =>
  `(tactic| (apply Inv.mk_live <;>
      (simp_all [PcFacts, St.flushed, St.flush, Quiet, Late, Final, Ended,
        Variant.epilogue, Variant.afterLoop, Variant.afterCreate, Variant.afterWriteStatus,
        Variant.afterSetComplete, Variant.writtenState] <;> try omega)))

theorem Inv.spool {v : Variant} {input : List α} {s s' : St α} (h : Inv v input s)
    (hs : spoolStep v s = some s') : Inv v input s' := by
  obtain ⟨hl, hp, hf, hd⟩ := h
  obtain ⟨todo, file, tail, buffer, present, state, count, statusFile, pc⟩ := s
  unfold spoolStep at hs
  dsimp only at hs hl hp hf hd
  split at hs
  all_goals
    simp only [PcFacts] at hf
    try simp only [ne_eq, reduceCtorEq, not_false_eq_true, forall_const] at hl
    try
      have hlen := congrArg List.length hl.2
      simp only [St.flushed, List.length_append, List.length_nil, List.length_cons] at hlen
  · -- start
    cases hs; spool_auto
  · -- fetch
    split at hs
    · cases hs; cases v <;> spool_auto
    · split at hs
      · cases hs
        unfold bufWrite
        split <;> spool_auto
      · cases hs; spool_auto
  · -- newline
    cases hs; spool_auto
  · -- addCount
    cases hs; spool_auto
  · -- flushPre
    cases hs; spool_auto
  · -- create
    cases hs; cases v <;> spool_auto
  · -- setComplete
    cases hs; cases v <;> spool_auto
  · -- writeStatus
    cases hs; cases v <;> spool_auto
  · -- flushPost
    cases hs
    simp only [Ended, St.flushed] at hf
    rcases hf with ⟨⟨c, rfl⟩, rfl, hc, hq, ⟨rfl, rfl⟩ | ⟨rfl, rfl⟩⟩ <;> subst hc <;> spool_auto
  · -- close
    cases hs; spool_auto
  · cases hs
  · cases hs

theorem Inv.cut {v : Variant} {input : List α} {s s' : St α} (h : Inv v input s)
    (hs : cutStep v s = some s') : Inv v input s' := by
  obtain ⟨hl, hp, hf, hd⟩ := h
  obtain ⟨todo, file, tail, buffer, present, state, count, statusFile, pc⟩ := s
  unfold cutStep at hs
  dsimp only at hs hl hp hf hd
  split at hs
  · simp only [PcFacts] at hf
    simp only [ne_eq, reduceCtorEq, not_false_eq_true, forall_const] at hl
    have hlen := congrArg List.length hl.2
    simp only [St.flushed, List.length_append, List.length_nil, List.length_cons] at hlen
    split at hs
    · cases hs
      unfold bufWriteCut
      spool_auto
    · cases hs
  · cases hs

theorem Inv.fail {v : Variant} {input : List α} {s s' : St α} (h : Inv v input s)
    (hs : failStep v s = some s') : Inv v input s' := by
  obtain ⟨hl, hp, hf, hd⟩ := h
  obtain ⟨todo, file, tail, buffer, present, state, count, statusFile, pc⟩ := s
  unfold failStep at hs
  dsimp only at hs hl hp hf hd
  split at hs
  · simp only [PcFacts] at hf
    simp only [ne_eq, reduceCtorEq, not_false_eq_true, forall_const] at hl
    have hlen := congrArg List.length hl.2
    simp only [St.flushed, List.length_append, List.length_nil, List.length_cons] at hlen
    cases hs
    cases v <;> spool_auto
  · cases hs

theorem Inv.restart {v : Variant} {input : List α} {s : St α} (h : Inv v input s) :
    Inv v input (Spool.restart s) := by
  obtain ⟨hl, hp, hf, hd⟩ := h
  unfold Spool.restart
  split
  · rename_i st n hsf
    refine ⟨fun h => absurd rfl h, hp, ?_, hd⟩
    simp [PcFacts, hsf]
  · rename_i hno
    refine ⟨fun h => absurd rfl h, hp, ?_, hd⟩
    simp only [PcFacts, Bool.false_eq_true, false_implies, true_and, forall_const]
    exact fun x hx => hno x.1 x.2 hx

theorem Inv.step {v : Variant} {input : List α} {s s' : St α} {o : Obs α} (l : Label)
    (h : Inv v input s) (hs : step v l s = some (s', o)) : Inv v input s' := by
  cases l <;> simp only [Spool.step, Option.map_eq_some_iff, Prod.mk.injEq, Option.some.injEq] at hs
  · obtain ⟨a, ha, rfl, _⟩ := hs; exact h.spool ha
  · obtain ⟨a, ha, rfl, _⟩ := hs; exact h.cut ha
  · obtain ⟨a, ha, rfl, _⟩ := hs; exact h.fail ha
  · obtain ⟨rfl, _⟩ := hs; exact h
  · obtain ⟨rfl, _⟩ := hs; exact h
  · obtain ⟨rfl, _⟩ := hs; exact h.restart

theorem Reachable.inv {v : Variant} {input : List α} {s : St α} (h : Reachable v input s) :
    Inv v input s := by
  induction h with
  | init => exact inv_init v input
  | step l _ hs ih => exact ih.step l hs

/-! ### what the invariant says to a reader -/

/-- In a safe variant COMPLETE means: the job is there, every row is in the file as a whole
    line, and every row is counted. -/
theorem Inv.complete_all {v : Variant} {input : List α} {s : St α} (h : Inv v input s)
    (hv : v.safe = true) (hc : s.state = .complete) :
    s.present = true ∧ s.file = input ∧ s.tail = .clean ∧ s.count = input.length := by
  obtain ⟨hl, hp, hf, hd⟩ := h
  obtain ⟨todo, file, tail, buffer, present, state, count, statusFile, pc⟩ := s
  dsimp only at hc hl hp hf hd ⊢
  subst hc
  cases pc
  all_goals
    simp only [PcFacts, Late, Final, Ended] at hf
    try simp only [ne_eq, reduceCtorEq, not_false_eq_true, forall_const] at hl
  case writeStatus =>
    obtain ⟨_, ⟨hcnt, rfl, _, hs⟩, _⟩ := hf
    obtain ⟨rfl, rfl⟩ := hs hv
    simp [St.flushed] at hl hcnt
    simp [hl, hcnt]
  case flushPost =>
    obtain ⟨⟨c, rfl⟩, _⟩ := hf
    simp at hv
  case close =>
    obtain ⟨rfl, rfl, rfl, hcnt, _⟩ := hf
    simp [St.flushed] at hl hcnt
    simp [hl, hcnt]
  case done =>
    obtain ⟨rfl, rfl, rfl, hcnt, _⟩ := hf
    simp [St.flushed] at hl hcnt
    simp [hl, hcnt]
  case dead =>
    cases present
    · simp at hf
    · have hsf := hf.1 rfl
      obtain ⟨_, rfl, hfile⟩ := hd _ _ hsf
      obtain ⟨rfl, rfl⟩ := hfile hv
      simp
  all_goals exact absurd hf (by simp)

/-- The repaired order (status file before the state change; ANY buffering): an in-memory
    COMPLETE means the status file is already written, and says COMPLETE with the full count. -/
theorem Inv.complete_status {v : Variant} {input : List α} {s : St α} (h : Inv v input s)
    (hv : v.statusFirst = true) (hc : s.state = .complete) :
    s.present = true ∧ s.count = input.length ∧
    s.statusFile = some (some (.complete, input.length)) := by
  obtain ⟨hl, hp, hf, hd⟩ := h
  obtain ⟨todo, file, tail, buffer, present, state, count, statusFile, pc⟩ := s
  dsimp only at hc hl hp hf hd ⊢
  subst hc
  cases pc
  all_goals
    simp only [PcFacts, Late, Final, Ended, hv, if_true] at hf
    try simp only [ne_eq, reduceCtorEq, not_false_eq_true, forall_const] at hl
  case flushPost =>
    obtain ⟨_, rfl, hcnt, _, he⟩ := hf
    have hlen := congrArg List.length hl.2
    simp only [List.append_nil] at hlen
    have hn : count = input.length := by omega
    subst hn
    refine ⟨hl.1, rfl, ?_⟩
    simpa using he
  case close =>
    obtain ⟨rfl, rfl, rfl, hcnt, he⟩ := hf
    have hlen := congrArg List.length hl.2
    simp only [St.flushed, Tail.pending_clean, List.append_nil] at hlen
    have hn : count = input.length := by omega
    subst hn
    refine ⟨hl.1, rfl, ?_⟩
    simpa using he
  case done =>
    obtain ⟨rfl, rfl, rfl, hcnt, he⟩ := hf
    have hlen := congrArg List.length hl.2
    simp only [St.flushed, Tail.pending_clean, List.append_nil] at hlen
    have hn : count = input.length := by omega
    subst hn
    refine ⟨hl.1, rfl, ?_⟩
    simpa using he
  case dead =>
    cases present
    · simp at hf
    · have hsf := hf.1 rfl
      obtain ⟨_, rfl, _⟩ := hd _ _ hsf
      exact ⟨rfl, rfl, hsf⟩
  all_goals exact absurd hf (by simp)

/-- A written status file is never touched again: `os.Create` and `statusFile.Write` each run
    once, before it is written. -/
theorem Inv.status_stable {v : Variant} {input : List α} {s s' : St α} {o : Obs α} {l : Label}
    {x : JobState × Nat} (h : Inv v input s) (hx : s.statusFile = some (some x))
    (hs : Spool.step v l s = some (s', o)) : s'.statusFile = some (some x) := by
  have hf := h.pcf
  obtain ⟨todo, file, tail, buffer, present, state, count, statusFile, pc⟩ := s
  dsimp only at hx hf
  subst hx
  cases l <;> simp only [Spool.step, Option.map_eq_some_iff, Prod.mk.injEq, Option.some.injEq] at hs
  · obtain ⟨a, ha, rfl, _⟩ := hs
    unfold spoolStep at ha
    dsimp only at ha
    split at ha
    case h_2 =>
      split at ha
      · cases ha; rfl
      · split at ha
        · cases ha
          unfold bufWrite
          split <;> rfl
        · cases ha; rfl
    all_goals first
      | (cases ha; done)
      | (exfalso; simp [PcFacts] at hf; done)
      | (cases ha; rfl)
  · obtain ⟨a, ha, rfl, _⟩ := hs
    unfold cutStep at ha
    dsimp only at ha
    split at ha
    · split at ha
      · cases ha; rfl
      · cases ha
    · cases ha
  · obtain ⟨a, ha, rfl, _⟩ := hs
    unfold failStep at ha
    dsimp only at ha
    split at ha
    · cases ha; rfl
    · cases ha
  · obtain ⟨rfl, _⟩ := hs; rfl
  · obtain ⟨rfl, _⟩ := hs; rfl
  · obtain ⟨rfl, _⟩ := hs
    simp [Spool.restart]

/-- The repaired order: COMPLETE is final — no step of the goroutine, no reader and no restart
    takes it back. -/
theorem Inv.complete_stable {v : Variant} {input : List α} {s s' : St α} {o : Obs α} {l : Label}
    (h : Inv v input s) (hv : v.statusFirst = true) (hc : s.state = .complete)
    (hs : Spool.step v l s = some (s', o)) : s'.state = .complete := by
  have hsf := (h.complete_status hv hc).2.2
  have hf := h.pcf
  obtain ⟨todo, file, tail, buffer, present, state, count, statusFile, pc⟩ := s
  dsimp only at hc hsf hf
  subst hc hsf
  cases l <;> simp only [Spool.step, Option.map_eq_some_iff, Prod.mk.injEq, Option.some.injEq] at hs
  · obtain ⟨a, ha, rfl, _⟩ := hs
    unfold spoolStep at ha
    dsimp only at ha
    split at ha
    all_goals first
      | (cases ha; done)
      | (exfalso; simp [PcFacts, hv] at hf; done)
      | (cases ha; rfl)
  · obtain ⟨a, ha, rfl, _⟩ := hs
    unfold cutStep at ha
    dsimp only at ha
    split at ha
    · exact absurd hf (by simp [PcFacts])
    · cases ha
  · obtain ⟨a, ha, rfl, _⟩ := hs
    unfold failStep at ha
    dsimp only at ha
    split at ha
    · exact absurd hf (by simp [PcFacts])
    · cases ha
  · obtain ⟨rfl, _⟩ := hs; rfl
  · obtain ⟨rfl, _⟩ := hs; rfl
  · obtain ⟨rfl, _⟩ := hs
    simp [Spool.restart]

/-- Nothing is buffered and no row is cut. -/
def Unbuf (s : St α) : Prop := s.buffer = [] ∧ ∀ r, s.tail ≠ .cut r

theorem Unbuf.step {v : Variant} {s s' : St α} {o : Obs α} (l : Label) (hv : v.buffered = false)
    (h : Unbuf s) (hs : step v l s = some (s', o)) : Unbuf s' := by
  obtain ⟨todo, file, tail, buffer, present, state, count, statusFile, pc⟩ := s
  obtain ⟨hb, ht⟩ := h
  dsimp only at hb ht
  cases l <;> simp only [Spool.step, Option.map_eq_some_iff, Prod.mk.injEq, Option.some.injEq] at hs
  · obtain ⟨a, ha, rfl, _⟩ := hs
    unfold spoolStep at ha
    dsimp only at ha
    split at ha
    case h_2 =>
      split at ha
      · cases ha; exact ⟨hb, ht⟩
      · simp only [hv, Bool.false_eq_true, if_false] at ha
        cases ha; exact ⟨hb, by simp⟩
    all_goals first
      | cases ha; done
      | (cases ha; exact ⟨hb, ht⟩)
      | (cases ha; exact ⟨hb, by simp⟩)
      | (cases ha; exact ⟨rfl, by simp [St.flush]⟩)
  · obtain ⟨a, ha, rfl, _⟩ := hs
    unfold cutStep at ha
    dsimp only at ha
    split at ha
    · simp [hv] at ha
    · cases ha
  · obtain ⟨a, ha, rfl, _⟩ := hs
    unfold failStep at ha
    dsimp only at ha
    split at ha
    · cases ha; exact ⟨hb, ht⟩
    · cases ha
  · obtain ⟨rfl, _⟩ := hs; exact ⟨hb, ht⟩
  · obtain ⟨rfl, _⟩ := hs; exact ⟨hb, ht⟩
  · obtain ⟨rfl, _⟩ := hs
    unfold Spool.restart
    split <;> exact ⟨rfl, ht⟩

theorem Reachable.unbuf {v : Variant} {input : List α} {s : St α} (hv : v.buffered = false)
    (h : Reachable v input s) : Unbuf s := by
  induction h with
  | init => exact ⟨rfl, fun r h => by cases h⟩
  | step l _ hs ih => exact ih.step l hv hs

/-- Once the goroutine is past the status write and the state change (any variant), a COMPLETE
    job has its status file on disk. -/
theorem Inv.final_status {v : Variant} {input : List α} {s : St α} (h : Inv v input s)
    (hpc : s.pc = .close ∨ s.pc = .done) (hc : s.state = .complete) :
    s.statusFile = some (some (.complete, s.count)) ∧ s.file = input ∧ s.tail = .clean := by
  obtain ⟨hl, hp, hf, hd⟩ := h
  obtain ⟨todo, file, tail, buffer, present, state, count, statusFile, pc⟩ := s
  dsimp only at hpc hl hf hc ⊢
  subst hc
  rcases hpc with rfl | rfl
  all_goals
    simp only [PcFacts, Final, Ended] at hf
    obtain ⟨rfl, rfl, rfl, _, he⟩ := hf
    have hin := (hl (by simp)).2
    simp [St.flushed] at hin
    simpa [hin] using he

/-- An unbuffered writer (old or repaired order): the count never runs ahead of the file; it lags
    by at most one row while the goroutine lives. -/
theorem Inv.direct_count {v : Variant} {input : List α} {s : St α} (h : Inv v input s)
    (hv : v.buffered = false) (hu : Unbuf s) :
    s.count ≤ s.file.length ∧ (s.pc ≠ .dead → s.file.length ≤ s.count + 1) := by
  have hsafe := Variant.safe_of_unbuffered hv
  obtain ⟨hl, hp, hf, hd⟩ := h
  obtain ⟨todo, file, tail, buffer, present, state, count, statusFile, pc⟩ := s
  obtain ⟨hb, ht⟩ := hu
  dsimp only at hl hp hf hd hb ht ⊢
  subst hb
  cases pc
  all_goals
    simp only [PcFacts, Late, Final, Ended, Quiet, St.flushed] at hf
    try simp only [ne_eq, reduceCtorEq, not_false_eq_true, forall_const] at hl
  case dead =>
    cases present
    · simp at hf
      simp [hf]
    · have hsf := hf.1 rfl
      obtain ⟨_, rfl, hfile⟩ := hd _ _ hsf
      obtain ⟨rfl, rfl⟩ := hfile hsafe
      simp
  all_goals try simp at hf
  all_goals grind

/-- In the window of the repaired order (status file written, state change still to come) the
    job is RUNNING with the full count. -/
theorem Inv.at_setComplete {v : Variant} {input : List α} {s : St α} (h : Inv v input s)
    (hv : v.statusFirst = true) (hpc : s.pc = .setComplete) :
    s.present = true ∧ s.state = .running ∧ s.count = input.length ∧
    s.statusFile = some (some (.complete, input.length)) := by
  obtain ⟨hl, hp, hf, hd⟩ := h
  obtain ⟨todo, file, tail, buffer, present, state, count, statusFile, pc⟩ := s
  dsimp only at hpc hl hf ⊢
  subst hpc
  simp only [PcFacts, Late, hv, if_true] at hf
  obtain ⟨hst, ⟨hcnt, htodo, _⟩, hsf⟩ := hf
  obtain ⟨hpr, hin⟩ := hl (by simp)
  subst htodo
  have hn : count = input.length := by rw [hcnt, ← hin]; simp
  subst hn
  exact ⟨hpr, hst, rfl, hsf⟩

/-- The repaired order: the status file is written while the job does not (yet) say COMPLETE
    only in ONE place — between `statusFile.Write` and `setState(COMPLETE)`. -/
theorem Inv.written_not_complete {v : Variant} {input : List α} {s : St α} (h : Inv v input s)
    (hv : v.statusFirst = true) {x : JobState × Nat} (hx : s.statusFile = some (some x))
    (hc : s.state ≠ .complete) : s.pc = .setComplete := by
  obtain ⟨hl, hp, hf, hd⟩ := h
  obtain ⟨todo, file, tail, buffer, present, state, count, statusFile, pc⟩ := s
  dsimp only at hc hx hl hp hf hd ⊢
  subst hx
  cases pc
  all_goals simp only [PcFacts, Late, Final, Ended, hv, if_true] at hf
  case setComplete => rfl
  case dead =>
    cases present
    · exact absurd rfl ((hf.2 rfl).2.2 x)
    · have hsf := hf.1 rfl
      exact absurd (hd _ _ hsf).1 hc
  all_goals (exfalso; revert hf; simp [hc])

/-! ### runs of the goroutine -/

theorem Reachable.spool {v : Variant} {input : List α} {s s' : St α} (h : Reachable v input s)
    (hs : spoolStep v s = some s') : Reachable v input s' :=
  h.step (o := .silent) .spool (by simp [Spool.step, hs])

/-- the state at the loop head of the unbuffered goroutine -/
def loopSt (todo file : List α) (count : Nat) : St α :=
  { todo := todo, file := file, state := .running, count := count, pc := .fetch }

theorem Reachable.loop_direct {v : Variant} (hv : v.buffered = false) {input : List α} :
    ∀ (rs file : List α) (n : Nat),
    Reachable v input (loopSt rs file n) →
    Reachable v input (loopSt [] (file ++ rs) (n + rs.length))
  | [], file, n, h => by simpa using h
  | r :: rs, file, n, h => by
    have h1 : Reachable v input
        { loopSt rs file n with tail := .noNl r, pc := .newline r } :=
      h.spool (by simp [spoolStep, loopSt, hv])
    have h2 : Reachable v input { loopSt rs (file ++ [r]) n with pc := .addCount } :=
      h1.spool rfl
    have h3 : Reachable v input (loopSt rs (file ++ [r]) (n + 1)) := h2.spool rfl
    have h4 := Reachable.loop_direct hv rs (file ++ [r]) (n + 1) h3
    simpa [List.append_assoc, Nat.add_assoc, Nat.add_comm 1] using h4

/-- the unbuffered goroutine after its loop, before `os.Create(statusPath)` -/
def loopEndSt (input : List α) : St α :=
  { todo := [], file := input, state := .running, count := input.length, pc := .create }

theorem reachable_loopEnd {v : Variant} (hv : v.buffered = false) (input : List α) :
    Reachable v input (loopEndSt input) := by
  have h0 : Reachable v input (loopSt input [] 0) := Reachable.init.spool rfl
  have h1 := Reachable.loop_direct hv input [] 0 h0
  simp only [List.nil_append, Nat.zero_add] at h1
  exact h1.spool (by cases v <;> first | rfl | simp at hv)

/-- the state of the unbuffered goroutine once it has returned (old and repaired order alike) -/
def doneSt (input : List α) : St α :=
  { todo := [], file := input, state := .complete, count := input.length,
    statusFile := some (some (.complete, input.length)), pc := .done }

/-- THE ORDER BEFORE FIX 3895728: the unbuffered goroutine right after `setState(COMPLETE)`: the
    status file exists, empty -/
def unwrittenSt (input : List α) : St α :=
  { todo := [], file := input, state := .complete, count := input.length,
    statusFile := some none, pc := .writeStatus }

/-- the order before fix 3895728: the window is reachable for every input -/
theorem reachable_unwritten (input : List α) : Reachable .directOld input (unwrittenSt input) :=
  ((reachable_loopEnd rfl input).spool rfl).spool rfl

/-- the order before fix 3895728: left alone, the goroutine runs to the same end -/
theorem reachable_done_old (input : List α) : Reachable .directOld input (doneSt input) :=
  ((reachable_unwritten input).spool rfl).spool rfl

/-- The repaired order: the unbuffered goroutine right after `statusFile.Write`, before
    `setState(COMPLETE)`: the status file says COMPLETE, the job still says RUNNING. -/
def windowSt (input : List α) : St α :=
  { todo := [], file := input, state := .running, count := input.length,
    statusFile := some (some (.complete, input.length)), pc := .setComplete }

theorem reachable_window (input : List α) : Reachable .direct input (windowSt input) :=
  ((reachable_loopEnd rfl input).spool rfl).spool rfl

/-- The unbuffered goroutine (repaired order), left alone, runs to the end: all rows in the
    file, the status file written, COMPLETE. -/
theorem reachable_done (input : List α) : Reachable .direct input (doneSt input) :=
  ((reachable_window input).spool rfl).spool rfl

/-- the state at the loop head of a buffered goroutine that has not spilled -/
def bufLoopSt (todo buffer : List α) (count : Nat) : St α :=
  { todo := todo, buffer := buffer, state := .running, count := count, pc := .fetch }

/-- the rows fit: a buffer of capacity `cap` never spills on `n` rows -/
def Fits (cap : Option Nat) (n : Nat) : Prop := ∀ c, cap = some c → n ≤ c

theorem full_of_fits {cap : Option Nat} {n k : Nat} (hf : Fits cap n) (hk : k < n) :
    (Variant.flushAfter cap).full k = false := by
  cases cap with
  | none => rfl
  | some c =>
    have := hf c rfl
    simp only [Variant.full, Variant.cap?, decide_eq_false_iff_not]
    omega

theorem Reachable.loop_buffered {input : List α} {cap : Option Nat} : ∀ (rs buf : List α) (n : Nat),
    Fits cap (buf.length + rs.length) →
    Reachable (.flushAfter cap) input (bufLoopSt rs buf n) →
    Reachable (.flushAfter cap) input (bufLoopSt [] (buf ++ rs) (n + rs.length))
  | [], buf, n, _, h => by simpa using h
  | r :: rs, buf, n, hf, h => by
    have hfull : (Variant.flushAfter cap).full buf.length = false :=
      full_of_fits hf (by simp)
    have h1 : Reachable (.flushAfter cap) input
        { bufLoopSt rs (buf ++ [r]) n with pc := .addCount } :=
      h.spool (by simp [spoolStep, bufLoopSt, bufWrite, hfull])
    have h2 : Reachable (.flushAfter cap) input (bufLoopSt rs (buf ++ [r]) (n + 1)) := h1.spool rfl
    have h3 := Reachable.loop_buffered rs (buf ++ [r]) (n + 1)
      (by simpa [Nat.add_assoc, Nat.add_comm 1] using hf) h2
    simpa [List.append_assoc, Nat.add_assoc, Nat.add_comm 1] using h3

/-- the regressed goroutine right after `statusFile.Write`, when nothing has spilled: the status
    file says COMPLETE with the full count, the results file is empty -/
def bufWindowSt (input : List α) : St α :=
  { todo := [], buffer := input, state := .running, count := input.length,
    statusFile := some (some (.complete, input.length)), pc := .setComplete }

theorem reachable_bufWindow {cap : Option Nat} (input : List α) (hf : Fits cap input.length) :
    Reachable (.flushAfter cap) input (bufWindowSt input) := by
  have h0 : Reachable (.flushAfter cap) input (bufLoopSt input [] 0) := Reachable.init.spool rfl
  have h1 := Reachable.loop_buffered input [] 0 (by simpa using hf) h0
  simp only [List.nil_append, Nat.zero_add] at h1
  exact ((h1.spool rfl).spool rfl).spool rfl

/-- the regressed goroutine right after `setState(COMPLETE)`, when nothing has spilled -/
def servedNothingSt (input : List α) : St α :=
  { todo := [], buffer := input, state := .complete, count := input.length,
    statusFile := some (some (.complete, input.length)), pc := .flushPost }

theorem reachable_servedNothing {cap : Option Nat} (input : List α) (hf : Fits cap input.length) :
    Reachable (.flushAfter cap) input (servedNothingSt input) :=
  (reachable_bufWindow input hf).spool rfl

/-! ### a job that fits in the buffer reaches the file only at the deferred flush -/

/-- Until the deferred `Flush` (after which the goroutine is at `close` / `done`) or a crash,
    the results file is empty. -/
def NoSpill (input : List α) (s : St α) : Prop :=
  s.pc = .close ∨ s.pc = .done ∨ s.pc = .dead ∨
  (s.file = [] ∧ s.tail = .clean ∧ s.buffer.length + s.todo.length ≤ input.length)

theorem NoSpill.step {cap : Option Nat} {input : List α} {s s' : St α} {o : Obs α} (l : Label)
    (hfit : Fits cap input.length) (hi : Inv (.flushAfter cap) input s) (h : NoSpill input s)
    (hs : step (.flushAfter cap) l s = some (s', o)) : NoSpill input s' := by
  have hf := hi.pcf
  obtain ⟨todo, file, tail, buffer, present, state, count, statusFile, pc⟩ := s
  unfold NoSpill at h
  dsimp only at h hf
  cases l <;> simp only [Spool.step, Option.map_eq_some_iff, Prod.mk.injEq, Option.some.injEq] at hs
  · obtain ⟨a, ha, rfl, _⟩ := hs
    unfold spoolStep at ha
    dsimp only at ha
    split at ha
    case h_2 =>
      -- fetch
      simp only [reduceCtorEq, false_or] at h
      obtain ⟨rfl, rfl, hlen⟩ := h
      split at ha
      · cases ha
        exact .inr (.inr (.inr ⟨rfl, rfl, hlen⟩))
      · rename_i r rest
        have hfull : (Variant.flushAfter cap).full buffer.length = false :=
          full_of_fits hfit (by simp at hlen; omega)
        simp only [Variant.buffered_flushAfter, if_true, bufWrite, hfull, Bool.false_eq_true,
          if_false, Option.some.injEq] at ha
        subst ha
        refine .inr (.inr (.inr ⟨rfl, rfl, ?_⟩))
        simp at hlen ⊢; omega
    case h_3 =>
      -- newline: not a program point of a buffered goroutine
      simp [PcFacts] at hf
    case h_5 =>
      -- flushPre: only in the flushBefore variant
      simp [PcFacts] at hf
    case h_9 => cases ha; exact .inl rfl
    case h_10 => cases ha; exact .inr (.inl rfl)
    case h_11 => cases ha
    case h_12 => cases ha
    all_goals
      simp only [reduceCtorEq, false_or] at h
      cases ha
      exact .inr (.inr (.inr h))
  · obtain ⟨a, ha, rfl, _⟩ := hs
    unfold cutStep at ha
    dsimp only at ha
    split at ha
    · simp only [reduceCtorEq, false_or] at h
      obtain ⟨rfl, rfl, hlen⟩ := h
      have hfull : (Variant.flushAfter cap).full buffer.length = false :=
        full_of_fits hfit (by simp at hlen; omega)
      simp [hfull] at ha
    · cases ha
  · obtain ⟨a, ha, rfl, _⟩ := hs
    unfold failStep at ha
    dsimp only at ha
    split at ha
    · simp only [reduceCtorEq, false_or] at h
      cases ha
      exact .inr (.inr (.inr h))
    · cases ha
  · obtain ⟨rfl, _⟩ := hs; exact h
  · obtain ⟨rfl, _⟩ := hs; exact h
  · obtain ⟨rfl, _⟩ := hs
    refine .inr (.inr (.inl ?_))
    unfold Spool.restart
    split <;> rfl

theorem Reachable.noSpill {cap : Option Nat} {input : List α} {s : St α}
    (hfit : Fits cap input.length) (h : Reachable (.flushAfter cap) input s) : NoSpill input s := by
  induction h with
  | init =>
    refine .inr (.inr (.inr ⟨rfl, rfl, ?_⟩))
    show ([] : List α).length + input.length ≤ input.length
    simp
  | step l hr hs ih => exact ih.step l hfit hr.inv hs

/-! ### schedules -/

/-- A schedule that runs from a reachable state ends in a reachable state, and each of its
    observations was made by one step from a reachable state. -/
theorem run_reachable {v : Variant} {input : List α} : ∀ (ls : List Label) (s0 s : St α)
    (os : List (Obs α)), Reachable v input s0 → run v ls s0 = some (s, os) →
    Reachable v input s ∧
      ∀ o ∈ os, ∃ l s1 s1', Reachable v input s1 ∧ step v l s1 = some (s1', o)
  | [], s0, s, os, h0, hr => by
    simp only [run, Option.some.injEq, Prod.mk.injEq] at hr
    obtain ⟨rfl, rfl⟩ := hr
    exact ⟨h0, fun o ho => by cases ho⟩
  | l :: ls, s0, s, os, h0, hr => by
    simp only [run] at hr
    split at hr
    · cases hr
    · rename_i s1 o1 hstep
      split at hr
      · cases hr
      · rename_i s2 os2 hrun
        simp only [Option.some.injEq, Prod.mk.injEq] at hr
        obtain ⟨rfl, rfl⟩ := hr
        have ih := run_reachable ls s1 s2 os2 (h0.step l hstep) hrun
        refine ⟨ih.1, fun o ho => ?_⟩
        rcases List.mem_cons.mp ho with rfl | ho
        · exact ⟨l, s0, s1, h0, hstep⟩
        · exact ih.2 o ho

/-- rows are only ever handed out by `Stream`, for a job that is there and COMPLETE -/
theorem step_rows {v : Variant} {l : Label} {s s' : St α} {ls : List (Line α)}
    (h : step v l s = some (s', .rows ls)) :
    s.present = true ∧ s.state = .complete ∧ ls = s.readFile := by
  cases l <;> simp only [Spool.step, Option.map_eq_some_iff, Prod.mk.injEq, Option.some.injEq,
    reduceCtorEq, and_false, exists_false] at h
  · obtain ⟨_, h⟩ := h
    unfold getStatus at h
    split at h <;> cases h
  · obtain ⟨_, h⟩ := h
    unfold stream at h
    split at h
    · split at h
      · cases h; exact ⟨‹_›, ‹_›, rfl⟩
      · cases h
    · cases h

/-- a status is only ever handed out by `Status`: state and count of one instant -/
theorem step_status {v : Variant} {l : Label} {s s' : St α} {st : JobState} {n : Nat}
    (h : step v l s = some (s', .status st n)) :
    s.present = true ∧ st = s.state ∧ n = s.count := by
  cases l <;> simp only [Spool.step, Option.map_eq_some_iff, Prod.mk.injEq, Option.some.injEq,
    reduceCtorEq, and_false, exists_false] at h
  · obtain ⟨_, h⟩ := h
    unfold getStatus at h
    split at h
    · cases h; exact ⟨‹_›, rfl, rfl⟩
    · cases h
  · obtain ⟨_, h⟩ := h
    unfold stream at h
    split at h
    · split at h <;> cases h
    · cases h

/-- what a step can answer: nothing, or `Status` / `Stream` of the state it started from -/
theorem step_obs {v : Variant} {l : Label} {s s' : St α} {o : Obs α}
    (h : step v l s = some (s', o)) : o = .silent ∨ o = getStatus s ∨ o = stream s := by
  cases l <;> simp only [Spool.step, Option.map_eq_some_iff, Prod.mk.injEq, Option.some.injEq] at h
  · obtain ⟨_, _, _, h⟩ := h; exact .inl h.symm
  · obtain ⟨_, _, _, h⟩ := h; exact .inl h.symm
  · obtain ⟨_, _, _, h⟩ := h; exact .inl h.symm
  · exact .inr (.inl h.2.symm)
  · exact .inr (.inr h.2.symm)
  · exact .inl h.2.symm

/-- The repaired order: a schedule that starts in a reachable state where the job is COMPLETE
    ends in one, and each of its observations was made by one step from such a state. -/
theorem run_complete {v : Variant} {input : List α} (hv : v.statusFirst = true) :
    ∀ (ls : List Label) (s0 s : St α) (os : List (Obs α)), Reachable v input s0 →
    s0.state = .complete → run v ls s0 = some (s, os) →
    Reachable v input s ∧ s.state = .complete ∧
      ∀ o ∈ os, ∃ l s1 s1', Reachable v input s1 ∧ s1.state = .complete ∧
        step v l s1 = some (s1', o)
  | [], s0, s, os, h0, hc, hr => by
    simp only [run, Option.some.injEq, Prod.mk.injEq] at hr
    obtain ⟨rfl, rfl⟩ := hr
    exact ⟨h0, hc, fun o ho => by cases ho⟩
  | l :: ls, s0, s, os, h0, hc, hr => by
    simp only [run] at hr
    split at hr
    · cases hr
    · rename_i s1 o1 hstep
      split at hr
      · cases hr
      · rename_i s2 os2 hrun
        simp only [Option.some.injEq, Prod.mk.injEq] at hr
        obtain ⟨rfl, rfl⟩ := hr
        have ih := run_complete hv ls s1 s2 os2 (h0.step l hstep)
          (h0.inv.complete_stable hv hc hstep) hrun
        refine ⟨ih.1, ih.2.1, fun o ho => ?_⟩
        rcases List.mem_cons.mp ho with rfl | ho
        · exact ⟨l, s0, s1, h0, hc, hstep⟩
        · exact ih.2.2 o ho

end Grip.C11.Spool
