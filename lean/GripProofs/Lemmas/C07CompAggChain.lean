/-
  Lemmas for C07, composition: a measure in ℕ for `prefix · aggregate(k) · suffix`, where the
  prefix is a well-behaved component with a measure in ℕ whose output stream is determined (`Det`,
  e.g. a chain of stages) and the suffix any well-behaved component with a measure in ℕ.

  The aggregate stage has no measure that is additive in its input (what a worker emits is an
  arbitrary function of ALL it has read); the measure of the composition therefore looks ahead:
  `F` is the stream without signals that the prefix will have delivered in the end, and the
  invariant `PasInv` says that what every worker has received, plus what is on its way inside the
  aggregate stage, plus what the prefix will still deliver (`Det.fut`), is `F`.
-/
import GripProofs.Lemmas.C07CompDet
import GripProofs.Lemmas.C07CompAggN

namespace Grip.Props.C07.Lemmas
open Grip.C07

/-- prefix · aggregate · suffix -/
def pasComp {α : Type} (P S : Comp α) (cap : Nat) (sig : α → Bool) : Comp α :=
  P.seq ((aggC α cap sig).seq S)

def pasLaws {α : Type} {P S : Comp α} (NP : GoodN P) (NS : GoodN S) (cap : Nat) (hcap : 0 < cap)
    (sig : α → Bool) : Laws (pasComp P S cap sig) :=
  Laws.seq NP.toLaws (Laws.seq (aggLaws α cap hcap sig) NS.toLaws)

def preOf {α : Type} {P S : Comp α} {cap : Nat} {sig : α → Bool} (s : SysS (pasComp P S cap sig)) : P.σ :=
  (s.st : P.σ × (AggS α × S.σ)).1
def aggOf {α : Type} {P S : Comp α} {cap : Nat} {sig : α → Bool} (s : SysS (pasComp P S cap sig)) : AggS α :=
  (s.st : P.σ × (AggS α × S.σ)).2.1
def sufOf {α : Type} {P S : Comp α} {cap : Nat} {sig : α → Bool} (s : SysS (pasComp P S cap sig)) : S.σ :=
  (s.st : P.σ × (AggS α × S.σ)).2.2

structure PasInv {α : Type} {P S : Comp α} (NP : GoodN P) (DP : Det P NP.toLaws) (NS : GoodN S)
    (cap : Nat) (hcap : 0 < cap) (sig : α → Bool) (k : Nat) (F : List α)
    (s : SysS (pasComp P S cap sig)) : Prop where
  sys : SysInv (pasLaws NP NS cap hcap sig) s
  len : (aggOf s).ws.length = k
  pro : ∃ D, AggPro sig F (DP.fut (preOf s) s.todo) (aggOf s) D

/-- the measure: what is still at the source and inside the prefix is weighted by what a traveler
    costs when it enters the aggregate stage; the aggregate stage by the prophecy `F` and by what
    its results cost in the suffix -/
def pasW {α : Type} {P S : Comp α} (NP : GoodN P) (NS : GoodN S) {cap : Nat} (sig : α → Bool) (k : Nat)
    (F : List α) (s : SysS (pasComp P S cap sig)) : Nat :=
  sumMap (fun x => 1 + NP.wi (aggInCost sig k (NS.wi d0)) x) s.todo + (if s.srcClosed then 0 else 1)
  + NP.w (aggInCost sig k (NS.wi d0)) (preOf s) + aggW sig (NS.wi d0) F (aggOf s) + NS.w d0 (sufOf s)

/-- arithmetic of the measure after the state has been taken apart -/
macro "pas_arith" : tactic =>
  `(tactic| (dsimp only [pasW, preOf, aggOf, sufOf, pasComp, Comp.seq, aggC, sumMap] at *; omega))

theorem pas_step {α : Type} {P S : Comp α} (NP : GoodN P) (DP : Det P NP.toLaws) (NS : GoodN S)
    (cap : Nat) (hcap : 0 < cap) (sig : α → Bool) (k : Nat) (F : List α)
    {s s' : SysS (pasComp P S cap sig)} (hi : PasInv NP DP NS cap hcap sig k F s)
    (h : SysStep (pasComp P S cap sig) s s') :
    PasInv NP DP NS cap hcap sig k F s' ∧ pasW NP NS sig k F s' < pasW NP NS sig k F s := by
  have hsys' := sys_inv_step _ hi.sys h
  obtain ⟨hsys, hlen, D, hpro⟩ := hi
  rcases s with ⟨todo, sc, ⟨p, a, q⟩⟩
  obtain ⟨⟨hp, ⟨ha, hq, hl2⟩, hl1⟩, hcl, htd⟩ := hsys
  have ha' : AggInv a := ha
  have hl1' : a.inClosed = P.ended p := hl1
  have hl2' : S.closed q = a.done := hl2
  have hcl' : P.closed p = sc := hcl
  have htd' : sc = true → todo = [] := htd
  have hlen' : a.ws.length = k := hlen
  have hpro' : AggPro sig F (DP.fut p todo) a D := hpro
  have htodo : a.fedClosed = true → DP.fut p todo = [] := by
    intro hf
    have h1 : P.ended p = true := by rw [← hl1']; exact (ha'.fed hf).2.2
    have h2 : sc = true := by rw [← hcl']; exact NP.ended_closed hp h1
    rw [htd' h2]
    exact DP.fut_ended hp h1
  have hopenP : todo ≠ [] ∨ sc = false → P.closed p = false := by
    intro h
    rw [hcl']
    rcases h with h | h
    · cases hs : sc with
      | false => rfl
      | true => exact absurd (htd' hs) h
    · exact h
  cases h with
  | @feed t ts ht hr =>
    have ht' : todo = t :: ts := ht
    subst ht'
    have hr' : P.room p := hr
    have hopen := hopenP (Or.inl (by simp))
    have hw := NP.w_put (d := aggInCost sig k (NS.wi d0)) t hp hopen hr'
    refine ⟨⟨hsys', hlen', D, ?_⟩, ?_⟩
    · show AggPro sig F (DP.fut (P.put t p) ts) a D
      rw [DP.fut_put t ts hp]; exact hpro'
    · pas_arith
  | shut ht hs =>
    have ht' : todo = [] := ht
    have hs' : sc = false := hs
    subst ht' hs'
    have hw := NP.w_shut (d := aggInCost sig k (NS.wi d0)) hp (hopenP (Or.inr rfl))
    refine ⟨⟨hsys', hlen', D, ?_⟩, ?_⟩
    · show AggPro sig F (DP.fut (P.shut p) []) a D
      rw [DP.fut_shut [] hp]; exact hpro'
    · dsimp only [pasW, preOf, aggOf, sufOf, pasComp, Comp.seq, aggC, sumMap] at *
      simp only [if_true, Bool.false_eq_true, if_false]
      omega
  | @tau u h =>
    cases h with
    | @left _ p' _ h =>
      have hw := NP.w_tau (d := aggInCost sig k (NS.wi d0)) hp h
      refine ⟨⟨hsys', hlen', D, ?_⟩, ?_⟩
      · show AggPro sig F (DP.fut p' todo) a D
        rw [DP.fut_tau todo hp h]; exact hpro'
      · pas_arith
    | @pass _ p' _ y h hr =>
      have hw := NP.w_out (d := aggInCost sig k (NS.wi d0)) hp h
      have hput := aggW_put sig (NS.wi d0) F a y
      rw [hlen'] at hput
      have hfut := DP.fut_out todo hp h
      refine ⟨⟨hsys', hlen', D, ?_⟩, ?_⟩
      · show AggPro sig F (DP.fut p' todo) { a with inbuf := a.inbuf ++ [y] } D
        rw [hfut] at hpro'
        exact pro_put hpro'
      · pas_arith
    | @close _ p' _ h =>
      have hw := NP.w_fin (d := aggInCost sig k (NS.wi d0)) hp h
      refine ⟨⟨hsys', hlen', D, ?_⟩, ?_⟩
      · show AggPro sig F (DP.fut p' todo) { a with inClosed := true } D
        rw [DP.fut_fin todo hp h]
        exact ⟨hpro'.keys, hpro'.rest⟩
      · have : aggW sig (NS.wi d0) F { a with inClosed := true } = aggW sig (NS.wi d0) F a := rfl
        pas_arith
    | @right _ _ u2 h =>
      cases h with
      | @left _ a' _ h =>
        have hw := aggW_tau (dS := NS.wi d0) ha' hpro' htodo h
        obtain ⟨D', hp'⟩ := pro_tau hpro' h
        refine ⟨⟨hsys', by show a'.ws.length = k; rw [agg_len_tau h]; exact hlen', D', hp'⟩, ?_⟩
        pas_arith
      | @right _ _ q' h =>
        have hw := NS.w_tau (d := d0) hq h
        refine ⟨⟨hsys', hlen', D, hpro'⟩, ?_⟩
        pas_arith
      | @pass _ a' _ y h hr =>
        have hw := aggW_out (sig := sig) (dS := NS.wi d0) (F := F) h
        have hopen : S.closed q = false := by rw [hl2']; exact agg_live_out ha' h
        have hput := NS.w_put (d := d0) y hq hopen hr
        refine ⟨⟨hsys', by show a'.ws.length = k; rw [agg_len_out h]; exact hlen', D, pro_out hpro' h⟩, ?_⟩
        pas_arith
      | @close _ a' _ h =>
        have hw := aggW_fin (sig := sig) (dS := NS.wi d0) (F := F) h
        have hopen : S.closed q = false := by
          rw [hl2']; cases h with | mk _ _ hd => exact hd
        have hput := NS.w_shut (d := d0) hq hopen
        have hl : a'.ws.length = a.ws.length := by cases h with | mk _ _ _ => rfl
        refine ⟨⟨hsys', by show a'.ws.length = k; rw [hl]; exact hlen', D, pro_fin hpro' h⟩, ?_⟩
        pas_arith
  | @out y u h =>
    cases h with
    | mk h =>
      cases h with
      | @mk _ _ q' _ h =>
        have hw := NS.w_out (d := d0) hq h
        refine ⟨⟨hsys', hlen', D, hpro'⟩, ?_⟩
        pas_arith
  | @fin u h =>
    cases h with
    | mk h =>
      cases h with
      | @mk _ _ q' h =>
        have hw := NS.w_fin (d := d0) hq h
        refine ⟨⟨hsys', hlen', D, hpro'⟩, ?_⟩
        pas_arith

theorem aggPro_init {α : Type} (sig : α → Bool) (aggs : List (Nat × (List α → List α))) (xs : List α) :
    AggPro sig (nonsig sig xs) xs (aggInit aggs) [] := by
  refine ⟨?_, ?_⟩
  · simp [aggInit, pendI, pendT, wkKey, List.map_map, Function.comp_def]
    exact List.map_const' ..
  · simp [aggInit, pendT]

theorem pas_inv_init {α : Type} {P S : Comp α} (NP : GoodN P) (DP : Det P NP.toLaws) (NS : GoodN S)
    (cap : Nat) (hcap : 0 < cap) (sig : α → Bool) (aggs : List (Nat × (List α → List α)))
    (hne : aggs ≠ []) (hapos : ∀ a ∈ aggs, 0 < a.1) (p0 : P.σ) (q0 : S.σ) (input : List α)
    (hp : NP.inv p0) (hq : NS.inv q0) (hpc : P.closed p0 = false) (hqc : S.closed q0 = false)
    (hpe : P.ended p0 = false) :
    PasInv NP DP NS cap hcap sig aggs.length (nonsig sig (DP.fut p0 input))
      (sysInit (pasComp P S cap sig) input (p0, (aggInit aggs, q0))) := by
  refine ⟨sys_inv_init _ input _ ⟨hp, ⟨aggInv_init aggs hne hapos, hq, ?_⟩, ?_⟩ hpc, ?_, [],
    aggPro_init sig aggs (DP.fut p0 input)⟩
  · show S.closed q0 = false; exact hqc
  · show false = P.ended p0; rw [hpe]
  · show (aggInit aggs).ws.length = aggs.length; simp [aggInit]

/-- no execution of `prefix · aggregate · suffix` has more than `pasW` steps -/
theorem pas_bounded {α : Type} {P S : Comp α} (NP : GoodN P) (DP : Det P NP.toLaws) (NS : GoodN S)
    (cap : Nat) (hcap : 0 < cap) (sig : α → Bool) (aggs : List (Nat × (List α → List α)))
    (hne : aggs ≠ []) (hapos : ∀ a ∈ aggs, 0 < a.1) (p0 : P.σ) (q0 : S.σ) (input : List α)
    (hp : NP.inv p0) (hq : NS.inv q0) (hpc : P.closed p0 = false) (hqc : S.closed q0 = false)
    (hpe : P.ended p0 = false)
    (run : Nat → SysS (pasComp P S cap sig)) (n : Nat)
    (hr0 : run 0 = sysInit (pasComp P S cap sig) input (p0, (aggInit aggs, q0)))
    (hrun : ∀ i, i < n → SysStep (pasComp P S cap sig) (run i) (run (i + 1))) :
    n ≤ pasW NP NS sig aggs.length (nonsig sig (DP.fut p0 input))
          (sysInit (pasComp P S cap sig) input (p0, (aggInit aggs, q0))) := by
  have hinit := pas_inv_init NP DP NS cap hcap sig aggs hne hapos p0 q0 input hp hq hpc hqc hpe
  have := (run_bounded_inv (SysStep (pasComp P S cap sig))
    (PasInv NP DP NS cap hcap sig aggs.length (nonsig sig (DP.fut p0 input)))
    (pasW NP NS sig aggs.length (nonsig sig (DP.fut p0 input)))
    (fun a b hi hs => (pas_step NP DP NS cap hcap sig _ _ hi hs).1)
    (fun a b hi hs => (pas_step NP DP NS cap hcap sig _ _ hi hs).2)
    run n (by rw [hr0]; exact hinit) hrun).2
  rw [hr0] at this
  omega

end Grip.Props.C07.Lemmas
