/-
  Lemmas for C07, the cycle of a mark/jump loop (Grip.Model.C07Loop).

    §1  what a step leaves unchanged (fan-out factors, capacities);
    §2  the potential: every move of the stages lowers `phi` by `e` plus the potential of what
        the jump lets go of (`bstep_phi`); every step of the cycle lowers `psi` by exactly `e`
        (`step_psi`) — for every queue capacity;
    §3  the executable successor function is the transition relation (`step_iff_succs`);
    §4  progress: with capacities ≥ 1 the stages can move unless they are all empty
        (`bstep_progress`); with the unbounded queue the cycle can move unless it is final;
    §5  sums: potentials in closed form, the expected result stream;
    §6  runs of exactly `n` steps.
-/
import Grip.Model.C07Loop
import GripProofs.Lemmas.C07

namespace Grip.Props.C07.Lemmas.Loop
open Grip.C07 (Reach sumMap)
open Grip.C07.Loop

/-! ### §1 what a step leaves unchanged -/

def capsOf (cs : List Cell) : List Nat := cs.map (·.cap)

theorem bstep_fans {cs cs' : List Cell} {a : Option Trav} (h : BStep cs a cs') : fansOf cs' = fansOf cs := by
  induction h with
  | take _ _ => simp [fansOf]
  | emit _ _ => simp [fansOf]
  | offer _ => simp [fansOf]
  | tail _ ih => simp [fansOf] at ih ⊢; exact ih

theorem bstep_caps {cs cs' : List Cell} {a : Option Trav} (h : BStep cs a cs') : capsOf cs' = capsOf cs := by
  induction h with
  | take _ _ => simp [capsOf]
  | emit _ _ => simp [capsOf]
  | offer _ => simp [capsOf]
  | tail _ ih => simp [capsOf] at ih ⊢; exact ih

theorem bstep_ne_nil {cs cs' : List Cell} {a : Option Trav} (h : BStep cs a cs') : cs ≠ [] ∧ cs' ≠ [] := by
  cases h <;> simp

theorem headPut_fans (t : Trav) (cs : List Cell) : fansOf (headPut t cs) = fansOf cs := by
  cases cs <;> simp [headPut, fansOf]

theorem headPut_caps (t : Trav) (cs : List Cell) : capsOf (headPut t cs) = capsOf cs := by
  cases cs <;> simp [headPut, capsOf]

theorem step_fans {P : Params} {s s' : State} (h : Step P s s') : fansOf s'.cells = fansOf s.cells := by
  cases h with
  | markIn _ _ => exact headPut_fans _ _
  | markQ _ _ => exact headPut_fans _ _
  | body hb => exact bstep_fans hb
  | jumpBack hb _ _ => exact bstep_fans hb
  | exit hb _ => exact bstep_fans hb

theorem step_caps {P : Params} {s s' : State} (h : Step P s s') : capsOf s'.cells = capsOf s.cells := by
  cases h with
  | markIn _ _ => exact headPut_caps _ _
  | markQ _ _ => exact headPut_caps _ _
  | body hb => exact bstep_caps hb
  | jumpBack hb _ _ => exact bstep_caps hb
  | exit hb _ => exact bstep_caps hb

/-! ### §2 the potential -/

theorem sumMap_replicate {α : Type} (g : α → Nat) (k : Nat) (x : α) :
    sumMap g (List.replicate k x) = k * g x := by
  induction k with
  | zero => simp [sumMap]
  | succ k ih => simp [List.replicate, sumMap, ih, Nat.succ_mul, Nat.add_comm]

/-- what the jump lets go of is worth `D y` -/
def actVal (D : Trav → Nat) : Option Trav → Nat
  | none => 0
  | some y => D y

/-- every move of the stages lowers the potential by the price of a move plus the potential of
    what leaves the last cell -/
theorem bstep_phi (e : Nat) (D : Trav → Nat) {cs cs' : List Cell} {a : Option Trav} (h : BStep cs a cs') :
    phi e D cs = phi e D cs' + e + actVal D a := by
  induction h with
  | @take c x xs r hh hb =>
    simp only [phi, hh, hb, sumMap, sumMap_replicate, potv, actVal]
    generalize c.fan * (e + potv e (fansOf r) (D x)) = A
    omega
  | @emit c d y ys r hh hroom =>
    simp only [phi, hh, sumMap, sumMap_append, fansOf, List.map_cons, actVal]
    omega
  | @offer c y ys hh =>
    simp only [phi, hh, sumMap, fansOf, List.map_nil, potv, actVal]
    omega
  | @tail c a r r' hs ih =>
    have hf := bstep_fans hs
    simp only [phi, hf, ih]
    omega

theorem phi_headPut (e : Nat) (D : Trav → Nat) (t : Trav) {cs : List Cell} (h : cs ≠ []) :
    phi e D (headPut t cs) = phi e D cs + potv e (fansOf cs) (D t) := by
  cases cs with
  | nil => exact absurd rfl h
  | cons c r =>
    simp only [headPut, phi, sumMap_append, sumMap, fansOf, List.map_cons]
    omega

theorem headRoom_ne_nil {cs : List Cell} (h : headRoom cs) : cs ≠ [] := by
  cases cs with
  | nil => exact absurd h (by simp [headRoom])
  | cons c r => simp

theorem trav_eta_zero {t : Trav} (h : t.passes = 0) : (⟨t.id, 0⟩ : Trav) = t := by
  cases t; simp at h; simp [h]

theorem dT_zero (e : Nat) (g : Trav → Nat) (emit : Bool) (fans : List Nat) {t : Trav} (h : t.passes = 0) :
    dT e g emit fans t = g t := by
  simp [dT, h, dOf, trav_eta_zero h]

theorem dT_pos (e : Nat) (g : Trav → Nat) (emit : Bool) (fans : List Nat) {t : Trav} (h : 0 < t.passes) :
    dT e g emit fans t = (if emit then g t else 0) + wQ e g emit fans t.back := by
  obtain ⟨id, p⟩ := t
  cases p with
  | zero => exact absurd h (by simp)
  | succ p => simp [dT, dOf, wQ, Trav.back]

/-- every step of the cycle lowers the potential by exactly the price of a move: whatever the
    capacities, whatever the capacity of the queue -/
theorem step_psi {P : Params} (e : Nat) (g : Trav → Nat) {s s' : State} (h : Step P s s') :
    psi P.emit e g s = psi P.emit e g s' + e := by
  have hf := step_fans h
  cases h with
  | @markIn t ts hi hr =>
    simp only [psi, hf, hi, sumMap, phi_headPut _ _ _ (headRoom_ne_nil hr), wQ] at hf ⊢
    omega
  | @markQ t ts hq hr =>
    simp only [psi, hf, hq, sumMap, phi_headPut _ _ _ (headRoom_ne_nil hr), wQ] at hf ⊢
    omega
  | @body cs hb =>
    have := bstep_phi e (dT e g P.emit (fansOf s.cells)) hb
    simp only [psi, hf, this, actVal] at hf ⊢
    omega
  | @jumpBack t cs hb hp hroom =>
    have := bstep_phi e (dT e g P.emit (fansOf s.cells)) hb
    simp only [psi, hf, this, actVal, dT_pos e g P.emit _ hp, sumMap_append, sumMap] at hf ⊢
    cases P.emit <;> simp [sumMap_append, sumMap] <;> omega
  | @exit t cs hb hp =>
    have := bstep_phi e (dT e g P.emit (fansOf s.cells)) hb
    simp only [psi, hf, this, actVal, dT_zero e g P.emit _ hp, sumMap_append, sumMap] at hf ⊢
    omega

theorem step_mu {P : Params} {s s' : State} (h : Step P s s') : mu s = mu s' + 1 := by
  cases P with
  | mk qcap emit =>
    cases emit with
    | false => exact step_psi (P := ⟨qcap, false⟩) 1 (fun _ => 0) h
    | true =>
      -- the measure does not look at `emit`: the same step is a step of the system without it
      have h' : ∃ s'', Step ⟨qcap, false⟩ s s'' ∧ mu s'' = mu s' := by
        cases h with
        | markIn hi hr => exact ⟨_, Step.markIn hi hr, rfl⟩
        | markQ hq hr => exact ⟨_, Step.markQ hq hr, rfl⟩
        | body hb => exact ⟨_, Step.body hb, rfl⟩
        | jumpBack hb hp hroom =>
          refine ⟨_, Step.jumpBack hb hp hroom, ?_⟩
          simp [mu, psi, sumMap_append, sumMap]
        | exit hb hp =>
          exact ⟨_, Step.exit hb hp, rfl⟩
      obtain ⟨s'', hs, he⟩ := h'
      rw [← he]
      exact step_psi (P := ⟨qcap, false⟩) 1 (fun _ => 0) hs

/-! ### §3 the executable successor function is the transition relation -/

theorem bstep_mem_bsuccs {cs cs' : List Cell} {a : Option Trav} (h : BStep cs a cs') : (a, cs') ∈ bsuccs cs := by
  induction h with
  | @take c x xs r hh hb => simp [bsuccs, hh, hb]
  | @emit c d y ys r hh hroom => simp [bsuccs, hh, hroom]
  | @offer c y ys hh => simp [bsuccs, hh]
  | @tail c a r r' hs ih =>
    simp only [bsuccs, List.mem_append, List.mem_map]
    exact Or.inr ⟨_, ih, rfl⟩

theorem bsuccs_bstep : ∀ (cs cs' : List Cell) (a : Option Trav), (a, cs') ∈ bsuccs cs → BStep cs a cs' := by
  intro cs
  induction cs with
  | nil => intro cs' a h; simp [bsuccs] at h
  | cons c r ih =>
    intro cs' a h
    simp only [bsuccs, List.mem_append, List.mem_map] at h
    rcases h with (h | h) | h
    · -- take
      cases hh : c.hand with
      | cons y ys => simp [hh] at h
      | nil =>
        cases hb : c.buf with
        | nil => simp [hh, hb] at h
        | cons x xs =>
          simp [hh, hb] at h
          obtain ⟨rfl, rfl⟩ := h
          exact BStep.take hh hb
    · -- emit / offer
      cases hh : c.hand with
      | nil => simp [hh] at h
      | cons y ys =>
        cases r with
        | nil =>
          simp [hh] at h
          obtain ⟨rfl, rfl⟩ := h
          exact BStep.offer hh
        | cons d r' =>
          by_cases hroom : d.buf.length < d.cap
          · simp [hh, hroom] at h
            obtain ⟨rfl, rfl⟩ := h
            exact BStep.emit hh hroom
          · simp [hh, hroom] at h
    · obtain ⟨p, hp, heq⟩ := h
      cases heq
      exact BStep.tail (ih _ _ hp)

theorem bstep_iff_bsuccs {cs cs' : List Cell} {a : Option Trav} : BStep cs a cs' ↔ (a, cs') ∈ bsuccs cs :=
  ⟨bstep_mem_bsuccs, bsuccs_bstep _ _ _⟩

theorem step_mem_succs {P : Params} {s s' : State} (h : Step P s s') : s' ∈ succs P s := by
  cases h with
  | @markIn t ts hi hr => simp [succs, markSuccs, hr, hi]
  | @markQ t ts hq hr => simp [succs, markSuccs, hr, hq]
  | @body cs hb =>
    simp only [succs, List.mem_append, List.mem_filterMap]
    exact Or.inr ⟨_, bstep_mem_bsuccs hb, by simp [lift]⟩
  | @jumpBack t cs hb hp hroom =>
    simp only [succs, List.mem_append, List.mem_filterMap]
    exact Or.inr ⟨_, bstep_mem_bsuccs hb, by simp [lift, Nat.pos_iff_ne_zero.mp hp, hroom]⟩
  | @exit t cs hb hp =>
    simp only [succs, List.mem_append, List.mem_filterMap]
    exact Or.inr ⟨_, bstep_mem_bsuccs hb, by simp [lift, hp]⟩

theorem succs_step {P : Params} {s s' : State} (h : s' ∈ succs P s) : Step P s s' := by
  simp only [succs, List.mem_append, List.mem_filterMap] at h
  rcases h with h | ⟨p, hp, hl⟩
  · unfold markSuccs at h
    by_cases hr : headRoom s.cells
    · simp only [hr, if_true, List.mem_append] at h
      rcases h with h | h
      · cases hi : s.input with
        | nil => simp [hi] at h
        | cons t ts => simp [hi] at h; subst h; exact Step.markIn hi hr
      · cases hq : s.queue with
        | nil => simp [hq] at h
        | cons t ts => simp [hq] at h; subst h; exact Step.markQ hq hr
    · simp [hr] at h
  · obtain ⟨a, cs⟩ := p
    have hb := bsuccs_bstep _ _ _ hp
    cases a with
    | none => simp [lift] at hl; subst hl; exact Step.body hb
    | some t =>
      by_cases h0 : t.passes = 0
      · simp [lift, h0] at hl; subst hl; exact Step.exit hb h0
      · by_cases hroom : qRoom P.qcap s.queue
        · simp [lift, h0, hroom] at hl; subst hl
          exact Step.jumpBack hb (Nat.pos_of_ne_zero h0) hroom
        · simp [lift, h0, hroom] at hl

theorem step_iff_succs {P : Params} {s s' : State} : Step P s s' ↔ s' ∈ succs P s :=
  ⟨step_mem_succs, succs_step⟩

theorem stuck_iff {P : Params} {s : State} : Stuck P s ↔ succs P s = [] := by
  constructor
  · intro h
    cases hs : succs P s with
    | nil => rfl
    | cons s' r => exact absurd (succs_step (by rw [hs]; simp)) (h s')
  · intro h s' hs
    have := step_mem_succs hs
    rw [h] at this
    simp at this

instance (P : Params) (s : State) : Decidable (Stuck P s) := decidable_of_iff _ stuck_iff.symm

theorem runPicks_reach (P : Params) : ∀ (is : List Nat) (s s' : State), runPicks P is s = some s' →
    Reach (Step P) s s' := by
  intro is
  induction is with
  | nil => intro s s' h; simp [runPicks] at h; subst h; exact Reach.refl _
  | cons i is ih =>
    intro s s' h
    simp only [runPicks] at h
    cases hg : (succs P s)[i]? with
    | none => simp [hg] at h
    | some u =>
      simp only [hg] at h
      exact reach_head (succs_step (List.mem_of_getElem? hg)) (ih _ _ h)

theorem runFirst_reach (P : Params) : ∀ (n : Nat) (s : State), Reach (Step P) s (runFirst P n s) := by
  intro n
  induction n with
  | zero => intro s; exact Reach.refl _
  | succ n ih =>
    intro s
    simp only [runFirst]
    cases hs : succs P s with
    | nil => exact Reach.refl _
    | cons u r => exact reach_head (succs_step (by rw [hs]; simp)) (ih u)

theorem runLast_reach (P : Params) : ∀ (n : Nat) (s : State), Reach (Step P) s (runLast P n s) := by
  intro n
  induction n with
  | zero => intro s; exact Reach.refl _
  | succ n ih =>
    intro s
    simp only [runLast]
    cases hs : (succs P s).getLast? with
    | none => exact Reach.refl _
    | some u => exact reach_head (succs_step (List.mem_of_getLast? hs)) (ih u)

/-! ### §4 progress -/

def AllEmpty (cs : List Cell) : Prop := ∀ c ∈ cs, c.buf = [] ∧ c.hand = []

/-- with capacities ≥ 1 the stages can move unless every channel and every hand is empty: the
    LAST stage that holds anything has an empty channel in front of it (or is the jump) -/
theorem bstep_progress : ∀ (cs : List Cell), (∀ c ∈ cs, 0 < c.cap) →
    (∃ a cs', BStep cs a cs') ∨ AllEmpty cs := by
  intro cs
  induction cs with
  | nil => intro _; exact Or.inr (by intro c hc; simp at hc)
  | cons c r ih =>
    intro hcap
    rcases ih (fun d hd => hcap d (List.mem_cons_of_mem _ hd)) with ⟨a, r', hs⟩ | hempty
    · exact Or.inl ⟨a, c :: r', BStep.tail hs⟩
    · cases hh : c.hand with
      | cons y ys =>
        cases r with
        | nil => exact Or.inl ⟨_, _, BStep.offer hh⟩
        | cons d r' =>
          have hd := hempty d (by simp)
          have hc := hcap d (by simp)
          exact Or.inl ⟨_, _, BStep.emit hh (by rw [hd.1]; exact hc)⟩
      | nil =>
        cases hb : c.buf with
        | cons x xs => exact Or.inl ⟨_, _, BStep.take hh hb⟩
        | nil =>
          refine Or.inr ?_
          intro d hd
          rcases List.mem_cons.mp hd with rfl | hd
          · exact ⟨hb, hh⟩
          · exact hempty d hd

/-- with the unbounded queue: a state whose capacities are ≥ 1 can move unless it is final -/
theorem step_progress {emit : Bool} {s : State} (hne : s.cells ≠ []) (hcap : ∀ c ∈ s.cells, 0 < c.cap)
    (hnf : ¬ Final s) : ∃ s', Step ⟨none, emit⟩ s s' := by
  rcases bstep_progress s.cells hcap with ⟨a, cs', hb⟩ | hempty
  · cases a with
    | none => exact ⟨_, Step.body hb⟩
    | some t =>
      by_cases h0 : t.passes = 0
      · exact ⟨_, Step.exit hb h0⟩
      · exact ⟨_, Step.jumpBack hb (Nat.pos_of_ne_zero h0) (by simp [qRoom])⟩
  · have hroom : headRoom s.cells := by
      cases hc : s.cells with
      | nil => exact absurd hc hne
      | cons c r =>
        have h1 := hempty c (by rw [hc]; simp)
        have h2 := hcap c (by rw [hc]; simp)
        simp only [headRoom, h1.1]
        exact h2
    cases hi : s.input with
    | cons t ts => exact ⟨_, Step.markIn hi hroom⟩
    | nil =>
      cases hq : s.queue with
      | cons t ts => exact ⟨_, Step.markQ hq hroom⟩
      | nil => exact absurd ⟨hi, hq, hempty⟩ hnf

/-- well-formedness carried along every execution: there is a jump, capacities are ≥ 1 -/
def WF (s : State) : Prop := s.cells ≠ [] ∧ ∀ c ∈ s.cells, 0 < c.cap

theorem wf_of_caps {s : State} : WF s ↔ (capsOf s.cells ≠ [] ∧ ∀ k ∈ capsOf s.cells, 0 < k) := by
  simp [WF, capsOf]

theorem wf_step {P : Params} {s s' : State} (h : Step P s s') (hw : WF s) : WF s' := by
  rw [wf_of_caps] at hw ⊢
  rw [step_caps h]
  exact hw

theorem wf_init {stages : List (Nat × Nat)} {jcap : Nat} {input : List Trav}
    (hc : ∀ st ∈ stages, 0 < st.1) (hj : 0 < jcap) : WF (init stages jcap input) := by
  constructor
  · simp [init]
  · intro c hc'
    simp only [init, List.mem_append, List.mem_map, List.mem_singleton] at hc'
    rcases hc' with ⟨st, hst, rfl⟩ | rfl
    · exact hc st hst
    · exact hj

theorem wf_reach {P : Params} {s s' : State} (h : Reach (Step P) s s') (hw : WF s) : WF s' :=
  reach_inv WF (fun _ _ ha hs => wf_step hs ha) h hw

theorem allEmpty_bsuccs : ∀ (cs : List Cell), AllEmpty cs → bsuccs cs = [] := by
  intro cs
  induction cs with
  | nil => intro _; rfl
  | cons c r ih =>
    intro h
    have hc := h c (by simp)
    simp [bsuccs, hc.1, hc.2, ih (fun d hd => h d (List.mem_cons_of_mem _ hd))]

/-- a first channel of capacity 0 never has room (the model does not describe the rendezvous of an
    unbuffered Go channel): nothing ever enters the cycle -/
theorem init_allEmpty (stages : List (Nat × Nat)) (jcap : Nat) (input : List Trav) :
    AllEmpty (init stages jcap input).cells := by
  intro c hc
  simp only [init, List.mem_append, List.mem_map, List.mem_singleton] at hc
  rcases hc with ⟨st, _, rfl⟩ | rfl <;> simp [mkCell]

theorem first_cap_zero_stuck (P : Params) (f : Nat) (rest : List (Nat × Nat)) (jcap : Nat) (input : List Trav) :
    Stuck P (init ((0, f) :: rest) jcap input) := by
  rw [stuck_iff]
  have he := init_allEmpty ((0, f) :: rest) jcap input
  simp only [succs, allEmpty_bsuccs _ he]
  simp [markSuccs, init, headRoom, mkCell]

/-! ### §5 sums: potentials in closed form, the expected result stream -/

theorem potv_zero (ks : List Nat) (dv : Nat) : potv 0 ks dv = prodL ks * dv := by
  induction ks with
  | nil => simp [potv, prodL]
  | cons k ks ih => simp [potv, prodL, ih, Nat.mul_assoc]

theorem dOf_steps (emit : Bool) (fans : List Nat) (id p : Nat) :
    dOf 1 (fun _ => 0) emit fans id p = passCost fans p := by
  induction p with
  | zero => simp [dOf, passCost]
  | succ p ih => simp [dOf, passCost, ih]

theorem wQ_steps (emit : Bool) (fans : List Nat) (t : Trav) :
    wQ 1 (fun _ => 0) emit fans t = travCost fans t := by
  simp [wQ, dT, dOf_steps, travCost]

theorem sumMap_congr {α : Type} {g h : α → Nat} (l : List α) (hgh : ∀ x ∈ l, g x = h x) :
    sumMap g l = sumMap h l := by
  induction l with
  | nil => rfl
  | cons x xs ih =>
    simp only [sumMap]
    rw [hgh x (by simp), ih (fun y hy => hgh y (List.mem_cons_of_mem _ hy))]

theorem sumMap_zero {α : Type} (l : List α) : sumMap (fun _ => 0) l = 0 := by
  induction l with
  | nil => rfl
  | cons x xs ih => simp [sumMap, ih]

theorem phi_allEmpty (e : Nat) (D : Trav → Nat) : ∀ (cs : List Cell), AllEmpty cs → phi e D cs = 0 := by
  intro cs
  induction cs with
  | nil => intro _; rfl
  | cons c r ih =>
    intro h
    have hc := h c (by simp)
    simp [phi, hc.1, hc.2, sumMap, ih (fun d hd => h d (List.mem_cons_of_mem _ hd))]

theorem init_fans (stages : List (Nat × Nat)) (jcap : Nat) (input : List Trav) :
    fansOf (init stages jcap input).cells = cycleFans stages := by
  simp [init, fansOf, cycleFans, mkCell, Function.comp_def]

theorem psi_init (emit : Bool) (e : Nat) (g : Trav → Nat) (stages : List (Nat × Nat)) (jcap : Nat)
    (input : List Trav) :
    psi emit e g (init stages jcap input) = sumMap (wQ e g emit (cycleFans stages)) input := by
  have h1 := phi_allEmpty e (dT e g emit (cycleFans stages)) _ (init_allEmpty stages jcap input)
  simp only [psi, init_fans, h1]
  simp [init, sumMap]

theorem psi_final (emit : Bool) (e : Nat) (g : Trav → Nat) {s : State} (h : Final s) :
    psi emit e g s = sumMap g s.out := by
  obtain ⟨hi, hq, hc⟩ := h
  simp [psi, hi, hq, sumMap, phi_allEmpty _ _ _ hc]

theorem mu_init (stages : List (Nat × Nat)) (jcap : Nat) (input : List Trav) :
    mu (init stages jcap input) = loopBound stages input := by
  simp only [mu, psi_init, loopBound]
  exact sumMap_congr _ (fun t _ => wQ_steps _ _ t)

theorem mu_final {s : State} (h : Final s) : mu s = 0 := by
  simp [mu, psi_final _ _ _ h, sumMap_zero]

/-- a state with no work left cannot move (whatever the queue) -/
theorem final_stuck {P : Params} {s : State} (h : Final s) : Stuck P s := by
  intro s' hs
  have := step_mu hs
  rw [mu_final h] at this
  omega

theorem sumMap_repeatL {α : Type} (g : α → Nat) (n : Nat) (l : List α) :
    sumMap g (repeatL n l) = n * sumMap g l := by
  induction n with
  | zero => simp [repeatL, sumMap]
  | succ n ih => simp [repeatL, sumMap_append, ih, Nat.succ_mul, Nat.add_comm]

theorem sumMap_flatMap {α β : Type} (g : β → Nat) (f : α → List β) (l : List α) :
    sumMap g (l.flatMap f) = sumMap (fun x => sumMap g (f x)) l := by
  induction l with
  | nil => simp [sumMap]
  | cons x xs ih => simp [List.flatMap_cons, sumMap_append, sumMap, ih]

/-- the `g`-weight of what one traveler contributes, iteratively, is its potential at price 0 -/
theorem sumMap_expectFrom (g : Trav → Nat) (emit : Bool) (fans : List Nat) (id p : Nat) :
    sumMap g (expectFrom emit (prodL fans) id p) = dOf 0 g emit fans id p := by
  induction p with
  | zero => simp [expectFrom, dOf, sumMap]
  | succ p ih =>
    simp only [expectFrom, dOf, sumMap_append, sumMap_repeatL, ih, potv_zero, Nat.zero_add]
    cases emit <;> simp [sumMap]

theorem sumMap_expected (g : Trav → Nat) (emit : Bool) (stages : List (Nat × Nat)) (input : List Trav) :
    sumMap g (expected emit stages input) = sumMap (wQ 0 g emit (cycleFans stages)) input := by
  simp only [expected, sumMap_flatMap]
  apply sumMap_congr
  intro t _
  simp [sumMap_repeatL, sumMap_expectFrom, wQ, dT, potv_zero]

theorem sumMap_one {α : Type} (l : List α) : sumMap (fun _ => 1) l = l.length := by
  induction l with
  | nil => rfl
  | cons x xs ih => simp [sumMap, ih, Nat.add_comm]

theorem sumMap_count (a : Trav) (l : List Trav) : sumMap (fun o => if o = a then 1 else 0) l = l.count a := by
  induction l with
  | nil => rfl
  | cons x xs ih =>
    by_cases h : x = a
    · simp [sumMap, ih, h, Nat.add_comm]
    · simp [sumMap, ih, h]

theorem expectFrom_length (emit : Bool) (F id p : Nat) :
    (expectFrom emit F id p).length = expectCount emit F p := by
  induction p with
  | zero => simp [expectFrom, expectCount]
  | succ p ih =>
    have hr : ∀ (n : Nat) (l : List Trav), (repeatL n l).length = n * l.length := by
      intro n l; rw [← sumMap_one, sumMap_repeatL, sumMap_one]
    simp only [expectFrom, expectCount, List.length_append, hr, ih]
    cases emit <;> simp

theorem expected_length (emit : Bool) (stages : List (Nat × Nat)) (input : List Trav) :
    (expected emit stages input).length = expectedCount emit stages input := by
  rw [← sumMap_one, expected, sumMap_flatMap, expectedCount]
  apply sumMap_congr
  intro t _
  rw [sumMap_one, ← sumMap_one, sumMap_repeatL, sumMap_one, expectFrom_length]

/-! ### §6 runs -/

/-- a run of `k` steps lowers the measure by exactly `k` -/
theorem run_exact {P : Params} (run : Nat → State) (k : Nat)
    (hrun : ∀ i, i < k → Step P (run i) (run (i + 1))) : mu (run k) + k = mu (run 0) := by
  induction k with
  | zero => simp
  | succ k ih =>
    have h1 := ih (fun i hi => hrun i (by omega))
    have h2 := step_mu (hrun k (by omega))
    omega

theorem run_reach {P : Params} (run : Nat → State) (k : Nat)
    (hrun : ∀ i, i < k → Step P (run i) (run (i + 1))) : Reach (Step P) (run 0) (run k) := by
  induction k with
  | zero => exact Reach.refl _
  | succ k ih => exact Reach.step (ih (fun i hi => hrun i (by omega))) (hrun k (by omega))

theorem reach_psi {P : Params} (g : Trav → Nat) {s s' : State} (h : Reach (Step P) s s') :
    psi P.emit 0 g s' = psi P.emit 0 g s := by
  induction h with
  | refl => rfl
  | step _ hs ih => rw [← ih]; have := step_psi 0 g hs; omega

theorem reach_mu_le {P : Params} {s s' : State} (h : Reach (Step P) s s') : mu s' ≤ mu s := by
  induction h with
  | refl => exact Nat.le_refl _
  | step _ hs ih => have := step_mu hs; omega

end Grip.Props.C07.Lemmas.Loop
