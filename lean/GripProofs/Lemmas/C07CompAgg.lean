/-
  Lemmas for C07, composition: `aggregate.Process` with any number k ≥ 1 of aggregations, embedded
  in a pipeline (Grip.Model.C07Comp §4), is a well-behaved component (`Good`): invariant, local
  progress, and a well-founded measure (lexicographic: feeder work, reading work, emitting work —
  what a worker emits after it has read everything is an arbitrary function of what it has read,
  so no measure in ℕ that is additive in the input exists for this stage).
-/
import GripProofs.Lemmas.C07Comp

namespace Grip.Props.C07.Lemmas
open Grip.C07

/-! ### lists with one element replaced -/

theorem mem_replace {β : Type} {l r : List β} {w w' v : β} (h : v ∈ l ++ w' :: r) :
    v = w' ∨ v ∈ l ++ w :: r := by
  simp only [List.mem_append, List.mem_cons] at h ⊢
  rcases h with h | h | h
  · exact Or.inr (Or.inl h)
  · exact Or.inl h
  · exact Or.inr (Or.inr (Or.inr h))

theorem mem_mid {β : Type} (l r : List β) (w : β) : w ∈ l ++ w :: r := by simp

theorem sumMap_replace {β : Type} (g : β → Nat) (l r : List β) (w w' : β) :
    sumMap g (l ++ w' :: r) + g w = sumMap g (l ++ w :: r) + g w' := by
  simp only [sumMap_append, sumMap]
  omega

theorem split_at {β : Type} : ∀ (ws : List β) (i : Nat), i < ws.length →
    ∃ l w r, ws = l ++ w :: r ∧ l.length = i := by
  intro ws
  induction ws with
  | nil => intro i h; simp at h
  | cons a ws ih =>
    intro i h
    cases i with
    | zero => exact ⟨[], a, ws, rfl, rfl⟩
    | succ i =>
      obtain ⟨l, w, r, he, hl⟩ := ih i (by simp at h; omega)
      exact ⟨a :: l, w, r, by rw [he]; rfl, by simp [hl]⟩

/-! ### invariant -/

def WkInv {α : Type} (fed : Bool) (w : Wk α) : Prop :=
  0 < w.cap ∧ w.chClosed = fed ∧ (w.ph ≠ .reading → w.chClosed = true ∧ w.buf = [])

structure AggInv {α : Type} (s : AggS α) : Prop where
  ne : s.ws ≠ []
  wk : ∀ w ∈ s.ws, WkInv s.fedClosed w
  fed : s.fedClosed = true → s.fh = .idle ∧ s.inbuf = [] ∧ s.inClosed = true
  dn : s.done = true → s.fedClosed = true ∧ ∀ w ∈ s.ws, w.ph = .stopped
  idx : ∀ t i, s.fh = .fan t i → i < s.ws.length

theorem wkstep_inv {α : Type} {fed : Bool} {w w' : Wk α} {a : Act α} (hi : WkInv fed w)
    (h : WkStep w a w') : WkInv fed w' := by
  obtain ⟨h1, h2, h3⟩ := hi
  cases h with
  | read hp hb => exact ⟨h1, h2, fun hne => absurd hp hne⟩
  | compute hp hb hc => exact ⟨h1, h2, fun _ => ⟨hc, hb⟩⟩
  | emit hp hh => exact ⟨h1, h2, fun _ => h3 (by rw [hp]; simp)⟩
  | stop hp hh => exact ⟨h1, h2, fun _ => h3 (by rw [hp]; simp)⟩

theorem wkstep_live {α : Type} {w w' : Wk α} {a : Act α} (h : WkStep w a w') : w.ph ≠ .stopped := by
  cases h with
  | read hp _ => rw [hp]; simp
  | compute hp _ _ => rw [hp]; simp
  | emit hp _ => rw [hp]; simp
  | stop hp _ => rw [hp]; simp

theorem agg_feeding {α : Type} {s : AggS α} (hi : AggInv s)
    (h : s.fh ≠ .idle ∨ s.inbuf ≠ [] ∨ s.inClosed = false) : s.fedClosed = false ∧ s.done = false := by
  have hf : s.fedClosed = false := by
    cases hf : s.fedClosed with
    | false => rfl
    | true =>
      obtain ⟨h1, h2, h3⟩ := hi.fed hf
      rcases h with h | h | h
      · exact absurd h1 h
      · exact absurd h2 h
      · rw [h3] at h; cases h
  refine ⟨hf, ?_⟩
  cases hd : s.done with
  | false => rfl
  | true => have := (hi.dn hd).1; rw [hf] at this; cases this

/-- a worker moves: the state stays well formed -/
theorem agg_inv_work {α : Type} {s : AggS α} {l r : List (Wk α)} {w w' : Wk α} {a : Act α}
    (hi : AggInv s) (hws : s.ws = l ++ w :: r) (h : WkStep w a w') :
    AggInv { s with ws := l ++ w' :: r } := by
  have hw : w ∈ s.ws := by rw [hws]; exact mem_mid l r w
  have hd : s.done = false := by
    cases hd : s.done with
    | false => rfl
    | true => exact absurd ((hi.dn hd).2 w hw) (wkstep_live h)
  exact { ne := by simp
          wk := fun v hv => by
            rcases mem_replace (w := w) hv with hv | hv
            · subst hv; exact wkstep_inv (hi.wk w hw) h
            · exact hi.wk v (by rw [hws]; exact hv)
          fed := hi.fed
          dn := fun h' => by
            have h'' : s.done = true := h'
            rw [hd] at h''; cases h''
          idx := fun t i hfh => by
            have := hi.idx t i hfh
            rw [hws] at this
            simpa using this }

theorem agg_inv_tau {α : Type} {sig : α → Bool} {s s' : AggS α} (hi : AggInv s) (h : AggTau sig s s') :
    AggInv s' := by
  cases h with
  | @take t ts hfh hb =>
    obtain ⟨hf, hd⟩ := agg_feeding hi (Or.inr (Or.inl (by rw [hb]; simp)))
    exact { ne := hi.ne, wk := hi.wk
            fed := fun h => by rw [hf] at h; cases h
            dn := fun h => by rw [hd] at h; cases h
            idx := fun t' i h => by
              have hpos : 0 < s.ws.length := List.length_pos_iff.mpr hi.ne
              by_cases hs : sig t = true
              · simp [hs] at h
              · simp [hs] at h
                show i < s.ws.length
                omega }
  | @push t i l r w hfh hws hl hroom =>
    obtain ⟨hf, hd⟩ := agg_feeding hi (Or.inl (by rw [hfh]; simp))
    have hw : w ∈ s.ws := by rw [hws]; exact mem_mid l r w
    have hwi := hi.wk w hw
    exact { ne := by simp
            wk := fun v hv => by
              rcases mem_replace (w := w) hv with hv | hv
              · subst hv
                refine ⟨hwi.1, hwi.2.1, fun hne => ?_⟩
                have := (hwi.2.2 hne).1
                rw [hwi.2.1, hf] at this
                cases this
              · exact hi.wk v (by rw [hws]; exact hv)
            fed := fun h => by rw [hf] at h; cases h
            dn := fun h => by rw [hd] at h; cases h
            idx := fun t' j h => by
              by_cases hr : r = []
              · simp [hr] at h
              · simp only [hr, if_false] at h
                cases h
                have : 0 < r.length := List.length_pos_iff.mpr hr
                simp
                omega }
  | @closeFeed hfh hb hc hf =>
    have hd : s.done = false := by
      cases hd : s.done with
      | false => rfl
      | true => have := (hi.dn hd).1; rw [hf] at this; cases this
    exact { ne := by
              intro h
              have h' : closeAll s.ws = [] := h
              simp [closeAll] at h'
              exact hi.ne h'
            wk := fun v hv => by
              have hv' : v ∈ closeAll s.ws := hv
              simp only [closeAll, List.mem_map] at hv'
              obtain ⟨w, hw, he⟩ := hv'
              subst he
              obtain ⟨h1, h2, h3⟩ := hi.wk w hw
              exact ⟨h1, rfl, fun hne => ⟨rfl, (h3 hne).2⟩⟩
            fed := fun _ => ⟨hfh, hb, hc⟩
            dn := fun h => by rw [hd] at h; cases h
            idx := fun t' i h => by rw [hfh] at h; cases h }
  | @work l r w w' hws h => exact agg_inv_work hi hws h

theorem agg_inv_out {α : Type} {s s' : AggS α} {y : α} (hi : AggInv s) (h : AggOut s y s') : AggInv s' := by
  cases h with
  | @sigOut hfh =>
    exact { ne := hi.ne, wk := hi.wk
            fed := fun h => ⟨rfl, (hi.fed h).2⟩
            dn := hi.dn
            idx := fun t' i h => by cases h }
  | @work l r w w' hws h => exact agg_inv_work hi hws h

theorem agg_inv_fin {α : Type} {s s' : AggS α} (hi : AggInv s) (h : AggFin s s') : AggInv s' := by
  cases h with
  | mk hf hall hd =>
    exact { ne := hi.ne, wk := hi.wk, fed := hi.fed, dn := fun _ => ⟨hf, hall⟩, idx := hi.idx }

theorem agg_inv_put {α : Type} {s : AggS α} (x : α) (hi : AggInv s) (hc : s.inClosed = false) :
    AggInv { s with inbuf := s.inbuf ++ [x] } := by
  obtain ⟨hf, hd⟩ := agg_feeding hi (Or.inr (Or.inr hc))
  exact { ne := hi.ne, wk := hi.wk
          fed := fun h => by rw [hf] at h; cases h
          dn := fun h => by rw [hd] at h; cases h
          idx := hi.idx }

theorem agg_inv_shut {α : Type} {s : AggS α} (hi : AggInv s) (hc : s.inClosed = false) :
    AggInv { s with inClosed := true } := by
  obtain ⟨hf, hd⟩ := agg_feeding hi (Or.inr (Or.inr hc))
  exact { ne := hi.ne, wk := hi.wk
          fed := fun h => by rw [hf] at h; cases h
          dn := fun h => by rw [hd] at h; cases h
          idx := hi.idx }

/-! ### flags -/

theorem agg_flags_tau {α : Type} {sig : α → Bool} {s s' : AggS α} (h : AggTau sig s s') :
    s'.inClosed = s.inClosed ∧ s'.done = s.done := by
  cases h <;> exact ⟨rfl, rfl⟩

theorem agg_flags_out {α : Type} {s s' : AggS α} {y : α} (h : AggOut s y s') :
    s'.inClosed = s.inClosed ∧ s'.done = s.done := by
  cases h <;> exact ⟨rfl, rfl⟩

theorem agg_live_out {α : Type} {s s' : AggS α} {y : α} (hi : AggInv s) (h : AggOut s y s') :
    s.done = false := by
  cases hd : s.done with
  | false => rfl
  | true =>
    obtain ⟨h1, h2⟩ := hi.dn hd
    cases h with
    | @sigOut hfh => have := (hi.fed h1).1; rw [hfh] at this; cases this
    | @work l r w w' hws h =>
      exact absurd (h2 w (by rw [hws]; exact mem_mid l r w)) (wkstep_live h)

/-! ### progress -/

/-- a worker that has not returned and whose channel is full or closed can move -/
theorem wk_moves {α : Type} {w : Wk α} (hns : w.ph ≠ .stopped)
    (hb : w.chClosed = true ∨ w.buf ≠ []) : ∃ a w', WkStep w a w' := by
  cases hp : w.ph with
  | stopped => exact absurd hp hns
  | emitting =>
    cases hh : w.hand with
    | nil => exact ⟨_, _, WkStep.stop hp hh⟩
    | cons y ys => exact ⟨_, _, WkStep.emit hp hh⟩
  | reading =>
    cases hbuf : w.buf with
    | cons x xs => exact ⟨_, _, WkStep.read hp hbuf⟩
    | nil =>
      rcases hb with hc | hne
      · exact ⟨_, _, WkStep.compute hp hbuf hc⟩
      · exact absurd hbuf hne

theorem agg_progress {α : Type} {sig : α → Bool} {cap : Nat} (hcap : 0 < cap) {s : AggS α}
    (hi : AggInv s) (he : s.done = false) :
    (∃ s', AggTau sig s s') ∨ (∃ y s', AggOut s y s') ∨ (∃ s', AggFin s s') ∨
      (s.inbuf.length < cap ∧ s.inClosed = false) := by
  have lift : ∀ (l r : List (Wk α)) (w : Wk α), s.ws = l ++ w :: r → (∃ a w', WkStep w a w') →
      (∃ s', AggTau sig s s') ∨ (∃ y s', AggOut s y s') := by
    intro l r w hws ⟨a, w', hst⟩
    cases a with
    | tau => exact Or.inl ⟨_, AggTau.work hws hst⟩
    | out y => exact Or.inr ⟨y, _, AggOut.work hws hst⟩
    | fin => cases hst
  cases hfh : s.fh with
  | sig t => exact Or.inr (Or.inl ⟨t, _, AggOut.sigOut hfh⟩)
  | fan t i =>
    obtain ⟨hf, _⟩ := agg_feeding hi (Or.inl (by rw [hfh]; simp))
    obtain ⟨l, w, r, hws, hl⟩ := split_at s.ws i (hi.idx t i hfh)
    by_cases hroom : w.buf.length < w.cap
    · exact Or.inl ⟨_, AggTau.push hfh hws hl hroom⟩
    · have hwi := hi.wk w (by rw [hws]; exact mem_mid l r w)
      have hne : w.buf ≠ [] := by
        intro hb
        rw [hb] at hroom
        exact hroom hwi.1
      have hns : w.ph ≠ .stopped := by
        intro hp
        have := (hwi.2.2 (by rw [hp]; simp)).2
        exact hne this
      rcases lift l r w hws (wk_moves hns (Or.inr hne)) with h | h
      · exact Or.inl h
      · exact Or.inr (Or.inl h)
  | idle =>
    cases hb : s.inbuf with
    | cons t ts => exact Or.inl ⟨_, AggTau.take hfh hb⟩
    | nil =>
      cases hc : s.inClosed with
      | false => exact Or.inr (Or.inr (Or.inr ⟨by simp; exact hcap, rfl⟩))
      | true =>
        cases hf : s.fedClosed with
        | false => exact Or.inl ⟨_, AggTau.closeFeed hfh hb hc hf⟩
        | true =>
          by_cases hall : ∀ w ∈ s.ws, w.ph = .stopped
          · exact Or.inr (Or.inr (Or.inl ⟨_, AggFin.mk hf hall he⟩))
          · have : ∃ w, w ∈ s.ws ∧ w.ph ≠ .stopped := by
              apply Classical.byContradiction
              intro hno
              apply hall
              intro w hw
              apply Classical.byContradiction
              intro hp
              exact hno ⟨w, hw, hp⟩
            obtain ⟨w, hw, hns⟩ := this
            obtain ⟨l, r, hws⟩ := List.append_of_mem hw
            have hwi := hi.wk w hw
            rcases lift l r w hws (wk_moves hns (Or.inl (by rw [hwi.2.1, hf]))) with h | h
            · exact Or.inl h
            · exact Or.inr (Or.inl h)

def aggLaws (α : Type) (cap : Nat) (hcap : 0 < cap) (sig : α → Bool) : Laws (aggC α cap sig) where
  inv := AggInv
  inv_tau := fun hi h => agg_inv_tau hi h
  inv_out := fun hi h => agg_inv_out hi h
  inv_fin := fun hi h => agg_inv_fin hi h
  inv_put := fun x hi hc _ => agg_inv_put x hi hc
  inv_shut := fun hi hc => agg_inv_shut hi hc
  closed_tau := fun _ h => (agg_flags_tau h).1
  closed_out := fun _ h => (agg_flags_out h).1
  closed_fin := fun {s s'} _ h => by cases h; rfl
  closed_put := fun _ _ => rfl
  closed_shut := fun _ => rfl
  ended_tau := fun _ h => (agg_flags_tau h).2
  ended_out := fun _ h => (agg_flags_out h).2
  ended_fin := fun {s s'} _ h => by cases h; rfl
  ended_put := fun _ _ => rfl
  ended_shut := fun _ => rfl
  live_out := fun hi h => agg_live_out hi h
  live_fin := fun {s s'} _ h => by cases h with | mk _ _ hd => exact hd
  ended_closed := fun {s} hi he => (hi.fed (hi.dn he).1).2.2
  progress := fun hi he => agg_progress hcap hi he

/-! ### the well-founded measure -/

def lex3 (a b : Nat × Nat × Nat) : Prop :=
  Prod.Lex (fun m n : Nat => m < n) (Prod.Lex (fun m n : Nat => m < n) (fun m n : Nat => m < n)) a b

theorem lex3_wf : WellFounded lex3 :=
  (Prod.lex ⟨fun m n : Nat => m < n, Nat.lt_wfRel.wf⟩
    (Prod.lex ⟨fun m n : Nat => m < n, Nat.lt_wfRel.wf⟩ ⟨fun m n : Nat => m < n, Nat.lt_wfRel.wf⟩)).wf

theorem lex3_1 {a b c a' b' c' : Nat} (h : a' < a) : lex3 (a', b', c') (a, b, c) :=
  Prod.Lex.left _ _ h

theorem lex3_2 {a b c a' b' c' : Nat} (ha : a' = a) (h : b' < b) : lex3 (a', b', c') (a, b, c) := by
  subst ha; exact Prod.Lex.right _ (Prod.Lex.left _ _ h)

theorem lex3_3 {a b c a' b' c' : Nat} (ha : a' = a) (hb : b' = b) (h : c' < c) :
    lex3 (a', b', c') (a, b, c) := by
  subst ha; subst hb; exact Prod.Lex.right _ (Prod.Lex.right _ h)

def fhRank {α : Type} (k : Nat) : FH α → Nat
  | .idle => 0
  | .sig _ => 1
  | .fan _ i => k + 1 - i

def wkB {α : Type} (w : Wk α) : Nat := if w.ph = .reading then w.buf.length + 1 else 0
def wkC {α : Type} (w : Wk α) : Nat := if w.ph = .emitting then w.hand.length + 1 else 0

/-- feeder work; reading work; emitting work -/
def aggM {α : Type} (s : AggS α) : Nat × Nat × Nat :=
  (sumMap (fun _ => s.ws.length + 2) s.inbuf + fhRank s.ws.length s.fh + (if s.fedClosed then 0 else 1),
   sumMap wkB s.ws,
   sumMap wkC s.ws + (if s.done then 0 else 1))

theorem wkstep_dec {α : Type} {w w' : Wk α} {a : Act α} (h : WkStep w a w') :
    wkB w' < wkB w ∨ (wkB w' = wkB w ∧ wkC w' < wkC w) := by
  cases h with
  | read hp hb => exact Or.inl (by simp [wkB, hp, hb])
  | compute hp hb hc => exact Or.inl (by simp [wkB, hp])
  | emit hp hh => exact Or.inr ⟨by simp [wkB, hp], by simp [wkC, hp, hh]⟩
  | stop hp hh => exact Or.inr ⟨by simp [wkB, hp], by simp [wkC, hp]⟩

theorem aggM_work {α : Type} {s : AggS α} {l r : List (Wk α)} {w w' : Wk α} {a : Act α}
    (hws : s.ws = l ++ w :: r) (h : WkStep w a w') :
    lex3 (aggM { s with ws := l ++ w' :: r }) (aggM s) := by
  have hlen : (l ++ w' :: r).length = s.ws.length := by rw [hws]; simp
  have hB := sumMap_replace wkB l r w w'
  have hC := sumMap_replace wkC l r w w'
  rcases wkstep_dec h with hd | ⟨he, hd⟩
  · apply lex3_2
    · simp only [hlen]
    · show sumMap wkB (l ++ w' :: r) < sumMap wkB s.ws
      rw [hws]; omega
  · apply lex3_3
    · simp only [hlen]
    · show sumMap wkB (l ++ w' :: r) = sumMap wkB s.ws
      rw [hws]; omega
    · show sumMap wkC (l ++ w' :: r) + _ < sumMap wkC s.ws + _
      rw [hws]
      have : ∀ n : Nat, sumMap wkC (l ++ w' :: r) + n < sumMap wkC (l ++ w :: r) + n := fun n => by omega
      exact this _

theorem aggM_tau {α : Type} {sig : α → Bool} {s s' : AggS α} (hi : AggInv s) (h : AggTau sig s s') :
    lex3 (aggM s') (aggM s) := by
  cases h with
  | @take t ts hfh hb =>
    apply lex3_1
    by_cases hs : sig t = true
    · simp [hfh, hb, hs, sumMap, fhRank]
      omega
    · simp [hfh, hb, hs, sumMap, fhRank]
      omega
  | @push t i l r w hfh hws hl hroom =>
    apply lex3_1
    have hlen : (l ++ { w with buf := w.buf ++ [t] } :: r).length = s.ws.length := by rw [hws]; simp
    have hidx := hi.idx t i hfh
    simp only [hlen, hfh, fhRank]
    by_cases hr : r = []
    · simp [hr]; omega
    · simp [hr]; omega
  | @closeFeed hfh hb hc hf =>
    apply lex3_1
    have hlen : (closeAll s.ws).length = s.ws.length := by simp [closeAll]
    simp [hlen, hfh, hb, hf, sumMap, fhRank]
  | @work l r w w' hws h => exact aggM_work hws h

theorem aggM_out {α : Type} {s s' : AggS α} {y : α} (h : AggOut s y s') : lex3 (aggM s') (aggM s) := by
  cases h with
  | @sigOut hfh => apply lex3_1; simp [hfh, fhRank]
  | @work l r w w' hws h => exact aggM_work hws h

theorem aggM_fin {α : Type} {s s' : AggS α} (h : AggFin s s') : lex3 (aggM s') (aggM s) := by
  cases h with
  | mk hf hall hd => exact lex3_3 rfl rfl (by simp [hd])

/-- `aggregate` with any number of aggregations between its neighbours -/
def aggGood (α : Type) (cap : Nat) (hcap : 0 < cap) (sig : α → Bool) : Good (aggC α cap sig) :=
  { aggLaws α cap hcap sig with
    rel := fun a b => lex3 (aggM a) (aggM b)
    wf := InvImage.wf aggM lex3_wf
    dec_tau := fun hi h => aggM_tau hi h
    dec_out := fun _ h => aggM_out h
    dec_fin := fun _ h => aggM_fin h }

theorem aggInv_init {α : Type} (aggs : List (Nat × (List α → List α))) (hne : aggs ≠ [])
    (hpos : ∀ a ∈ aggs, 0 < a.1) : AggInv (aggInit aggs) :=
  { ne := by
      cases aggs with
      | nil => exact absurd rfl hne
      | cons a r => simp [aggInit]
    wk := fun w hw => by
      simp only [aggInit, List.mem_map] at hw
      obtain ⟨a, ha, he⟩ := hw
      subst he
      exact ⟨hpos a ha, rfl, fun h => absurd rfl h⟩
    fed := fun h => by simp [aggInit] at h
    dn := fun h => by simp [aggInit] at h
    idx := fun t i h => by simp [aggInit] at h }

end Grip.Props.C07.Lemmas
