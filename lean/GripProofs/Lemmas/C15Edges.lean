/-
  Lemmas for C15, edges: per edge type the gripper scans answer what a filter of the materialised
  edges answers; the per-prefix loops regroup to the edge-type loop.
-/
import Grip.Model.C15
import Grip.Spec.C15
import GripProofs.Lemmas.C15

namespace Grip.Props.C15.Lemmas
open Grip Grip.C15 Grip.Spec.C15

theorem flatMap_congr' {α β} (l : List α) (f g : α → List β) (h : ∀ a ∈ l, f a = g a) :
    l.flatMap f = l.flatMap g := by
  induction l with
  | nil => rfl
  | cons a l ih =>
    simp only [List.flatMap_cons]
    rw [h a List.mem_cons_self, ih (fun x hx => h x (List.mem_cons_of_mem _ hx))]

theorem listEdge_out (e : EType) (r : TRow) : listEdge (outSource e) r = specEdge e r := by
  simp only [listEdge, specEdge, outSource, ESource.genID]
  cases fieldString r.data e.toField <;> cases fieldString r.data e.fromField <;> simp
  rename_i d f
  by_cases hd : d = "" <;> by_cases hf : f = "" <;> simp [hd, hf]

/-- PrefixFree gives pairwise different prefixes. -/
theorem prefixes_nodup (m : Mapping) (h : PrefixFree m) : (m.verts.map (·.pfx)).Nodup := by
  unfold PrefixFree at h
  rw [List.Nodup, List.pairwise_map]
  refine h.imp ?_
  intro a b hab heq
  have : hasPfx a.pfx b.pfx = true := by
    rw [heq]; simp [hasPfx]
  simp [hab.1] at this

theorem srcOrder_nodup (m : Mapping) (h : PrefixFree m) : (srcOrder m).Nodup :=
  (prefixes_nodup m h).filter _

theorem frm_mem_srcOrder (m : Mapping) (hd : EndsDeclared m) : ∀ e ∈ m.edges, e.frm ∈ srcOrder m := by
  intro e he
  simp only [srcOrder, List.mem_filter, List.any_eq_true]
  exact ⟨(hd e he).1, e, he, by simp⟩

theorem to_mem_srcOrder (m : Mapping) (hd : EndsDeclared m) : ∀ e ∈ m.edges, e.to ∈ srcOrder m := by
  intro e he
  simp only [srcOrder, List.mem_filter, List.any_eq_true]
  exact ⟨(hd e he).2, e, he, by simp⟩

/-- GetEdgeList enumerates the materialised edges (grouped by source prefix). -/
theorem edgeList_perm (t : Tables) (m : Mapping) (h : PrefixFree m) (hd : EndsDeclared m) :
    (tgEdgeList t m).Perm (materialise t m).edges := by
  have e1 : tgEdgeList t m = (srcOrder m).flatMap (fun p =>
      (m.edges.filter (fun e => e.frm == p)).flatMap (fun e => (t.rows e.table).filterMap (specEdge e))) := by
    simp only [tgEdgeList, outSources, List.flatMap_map]
    apply flatMap_congr'
    intro p _
    apply flatMap_congr'
    intro e _
    simp only [outSource]
    congr 1
    funext r
    exact listEdge_out e r
  rw [e1]
  exact regroup (srcOrder m) (srcOrder_nodup m h) (fun e : EType => e.frm) _ m.edges (frm_mem_srcOrder m hd)

/-! ### out-edges / in-edges of a vertex id -/

/-- One link row, outbound: keeping the materialised edge when it starts at `key` (and its label is
    asked for) is what GetOutEdgeChannel makes of the row when the row is found by
    `fromField = key − prefix`. -/
theorem out_row (e : EType) (key : String) (labels : List String) (r : TRow) :
    (specEdge e r).filter (fun x => x.frm == key && AGraph.labelOk labels x.label) =
      if hasPfx e.frm key && (dropPfx e.frm key != "") && AGraph.labelOk labels e.label then
        (if fieldString r.data e.fromField == some (dropPfx e.frm key) then
          outEdgeOf (outSource e) (dropPfx e.frm key) r else none)
      else none := by
  simp only [specEdge, outEdgeOf, outSource, ESource.genID]
  cases hf : fieldString r.data e.fromField with
  | none => simp
  | some f =>
    cases hd : fieldString r.data e.toField with
    | none => simp
    | some d =>
      by_cases hfe : f = ""
      · subst hfe
        simp
        intro _ h1 _ h2
        exact absurd h2 h1
      · by_cases hde : d = ""
        · subst hde; simp
        · by_cases hp : hasPfx e.frm key = true
          · by_cases hfk : f = dropPfx e.frm key
            · subst hfk
              by_cases hl : AGraph.labelOk labels e.label = true <;>
                simp [hp, hfe, hde, hl, Option.filter, pfx_append_beq]
            · simp [hp, hfe, hde, hfk, Option.filter, pfx_append_beq]
          · simp [hp, hfe, hde, Option.filter, pfx_append_beq]

/-- One link row, inbound (the flipped source). -/
theorem in_row (e : EType) (key : String) (labels : List String) (r : TRow) :
    (specEdge e r).filter (fun x => x.to == key && AGraph.labelOk labels x.label) =
      if hasPfx e.to key && (dropPfx e.to key != "") && AGraph.labelOk labels e.label then
        (if fieldString r.data e.toField == some (dropPfx e.to key) then
          inEdgeOf (inSource e) (dropPfx e.to key) r else none)
      else none := by
  simp only [specEdge, inEdgeOf, inSource, ESource.genID]
  cases hd : fieldString r.data e.toField with
  | none => cases fieldString r.data e.fromField <;> simp
  | some d =>
    cases hf : fieldString r.data e.fromField with
    | none => simp
    | some f =>
      by_cases hde : d = ""
      · subst hde
        simp
        intro _ h1 _ h2
        exact absurd h2 h1
      · by_cases hfe : f = ""
        · subst hfe; simp
        · by_cases hp : hasPfx e.to key = true
          · by_cases hdk : d = dropPfx e.to key
            · subst hdk
              by_cases hl : AGraph.labelOk labels e.label = true <;>
                simp [hp, hfe, hde, hl, Option.filter, pfx_append_beq]
            · simp [hp, hfe, hde, hdk, Option.filter, pfx_append_beq]
          · simp [hp, hfe, hde, Option.filter, pfx_append_beq]

/-- The adjacency loop of one prefix group, outbound. -/
theorem out_group (t : Tables) (m : Mapping) (key : String) (labels : List String) (p : String) :
    (if hasPfx p key then
        (if dropPfx p key != "" then
          (outSources m p).flatMap (fun es =>
            if AGraph.labelOk labels es.label then
              (t.rowsByField es.table es.fromField (dropPfx p key)).filterMap (outEdgeOf es (dropPfx p key))
            else [])
        else [])
      else []) =
    (m.edges.filter (fun e => e.frm == p)).flatMap (fun e =>
      ((t.rows e.table).filterMap (specEdge e)).filter
        (fun x => x.frm == key && AGraph.labelOk labels x.label)) := by
  have hR : ∀ e ∈ m.edges.filter (fun e => e.frm == p),
      ((t.rows e.table).filterMap (specEdge e)).filter
        (fun x => x.frm == key && AGraph.labelOk labels x.label) =
      (if hasPfx p key then
        (if dropPfx p key != "" then
          (if AGraph.labelOk labels e.label then
            (t.rowsByField e.table e.fromField (dropPfx p key)).filterMap
              (outEdgeOf (outSource e) (dropPfx p key))
          else [])
        else [])
      else []) := by
    intro e he
    have hep : e.frm = p := by simpa using (List.mem_filter.1 he).2
    subst hep
    rw [List.filter_filterMap]
    simp only [out_row, Tables.rowsByField, List.filterMap_filter]
    cases hasPfx e.frm key <;> cases (dropPfx e.frm key != "") <;>
      cases AGraph.labelOk labels e.label <;> simp
  rw [flatMap_congr' _ _ _ hR]
  simp only [outSources, List.flatMap_map, outSource]
  cases hasPfx p key <;> cases (dropPfx p key != "") <;> (simp <;> rfl)

theorem in_group (t : Tables) (m : Mapping) (key : String) (labels : List String) (p : String) :
    (if hasPfx p key then
        (if dropPfx p key != "" then
          (inSources m p).flatMap (fun es =>
            if AGraph.labelOk labels es.label then
              (t.rowsByField es.table es.fromField (dropPfx p key)).filterMap (inEdgeOf es (dropPfx p key))
            else [])
        else [])
      else []) =
    (m.edges.filter (fun e => e.to == p)).flatMap (fun e =>
      ((t.rows e.table).filterMap (specEdge e)).filter
        (fun x => x.to == key && AGraph.labelOk labels x.label)) := by
  have hR : ∀ e ∈ m.edges.filter (fun e => e.to == p),
      ((t.rows e.table).filterMap (specEdge e)).filter
        (fun x => x.to == key && AGraph.labelOk labels x.label) =
      (if hasPfx p key then
        (if dropPfx p key != "" then
          (if AGraph.labelOk labels e.label then
            (t.rowsByField e.table e.toField (dropPfx p key)).filterMap
              (inEdgeOf (inSource e) (dropPfx p key))
          else [])
        else [])
      else []) := by
    intro e he
    have hep : e.to = p := by simpa using (List.mem_filter.1 he).2
    subst hep
    rw [List.filter_filterMap]
    simp only [in_row, Tables.rowsByField, List.filterMap_filter]
    cases hasPfx e.to key <;> cases (dropPfx e.to key != "") <;>
      cases AGraph.labelOk labels e.label <;> simp
  rw [flatMap_congr' _ _ _ hR]
  simp only [inSources, List.flatMap_map, inSource]
  cases hasPfx p key <;> cases (dropPfx p key != "") <;> (simp <;> rfl)

theorem outEdges_perm (t : Tables) (m : Mapping) (h : PrefixFree m) (hd : EndsDeclared m)
    (key : String) (labels : List String) :
    (tgOutEdges t m key labels).Perm ((materialise t m).outEdges key labels) := by
  have e1 : tgOutEdges t m key labels = (srcOrder m).flatMap (fun p =>
      (m.edges.filter (fun e => e.frm == p)).flatMap (fun e =>
        ((t.rows e.table).filterMap (specEdge e)).filter
          (fun x => x.frm == key && AGraph.labelOk labels x.label))) := by
    simp only [tgOutEdges, adjScan]
    apply flatMap_congr'
    intro p _
    exact out_group t m key labels p
  rw [e1]
  simp only [AGraph.outEdges, materialise, List.filter_flatMap]
  exact regroup (srcOrder m) (srcOrder_nodup m h) (fun e : EType => e.frm) _ m.edges (frm_mem_srcOrder m hd)

theorem inEdges_perm (t : Tables) (m : Mapping) (h : PrefixFree m) (hd : EndsDeclared m)
    (key : String) (labels : List String) :
    (tgInEdges t m key labels).Perm ((materialise t m).inEdges key labels) := by
  have e1 : tgInEdges t m key labels = (srcOrder m).flatMap (fun p =>
      (m.edges.filter (fun e => e.to == p)).flatMap (fun e =>
        ((t.rows e.table).filterMap (specEdge e)).filter
          (fun x => x.to == key && AGraph.labelOk labels x.label))) := by
    simp only [tgInEdges, adjScan]
    apply flatMap_congr'
    intro p _
    exact in_group t m key labels p
  rw [e1]
  simp only [AGraph.inEdges, materialise, List.filter_flatMap]
  exact regroup (srcOrder m) (srcOrder_nodup m h) (fun e : EType => e.to) _ m.edges (to_mem_srcOrder m hd)

theorem outVerts_perm (t : Tables) (m : Mapping) (h : PrefixFree m) (hd : EndsDeclared m)
    (key : String) (labels : List String) :
    (tgOutVerts t m key labels).Perm ((materialise t m).outVerts key labels) := by
  simp only [tgOutVerts, AGraph.outVerts, vertexChan_eq t m h]
  rw [← flatMap_toList_eq_filterMap]
  exact (outEdges_perm t m h hd key labels).flatMap_right _

theorem inVerts_perm (t : Tables) (m : Mapping) (h : PrefixFree m) (hd : EndsDeclared m)
    (key : String) (labels : List String) :
    (tgInVerts t m key labels).Perm ((materialise t m).inVerts key labels) := by
  simp only [tgInVerts, AGraph.inVerts, vertexChan_eq t m h]
  rw [← flatMap_toList_eq_filterMap]
  exact (inEdges_perm t m h hd key labels).flatMap_right _

end Grip.Props.C15.Lemmas
