/-
  Lemmas for C02, part 3: forward simulation between the literal execution of a plan
  (`evalPlan`) and the execution with load elision (`evalElided`) followed by `Convert`'s reload.
-/
import Grip.Model.C02
import GripProofs.Lemmas.C02Analysis

namespace Grip.Props.C02.Lemmas
open Grip Grip.C02

set_option linter.unusedSimpArgs false

/-! ### pointwise related lists -/

inductive F2 {α β : Type} (R : α → β → Prop) : List α → List β → Prop
  | nil : F2 R [] []
  | cons {a b l l'} : R a b → F2 R l l' → F2 R (a :: l) (b :: l')

namespace F2
variable {α β γ δ : Type} {R : α → β → Prop} {S : γ → δ → Prop}

theorem mono {R' : α → β → Prop} {l l'} (h : F2 R l l') (hi : ∀ a b, R a b → R' a b) : F2 R' l l' := by
  induction h with
  | nil => exact .nil
  | cons hr _ ih => exact .cons (hi _ _ hr) ih

theorem length_eq {l l'} (h : F2 R l l') : l.length = l'.length := by
  induction h with
  | nil => rfl
  | cons _ _ ih => simp [ih]

theorem append {l₁ l₁' l₂ l₂'} (h₁ : F2 R l₁ l₁') (h₂ : F2 R l₂ l₂') : F2 R (l₁ ++ l₂) (l₁' ++ l₂') := by
  induction h₁ with
  | nil => simpa using h₂
  | cons hr _ ih => exact .cons hr ih

theorem flatMap {l l'} {f : α → List γ} {f' : β → List δ} (h : F2 R l l')
    (hf : ∀ a b, R a b → F2 S (f a) (f' b)) : F2 S (l.flatMap f) (l'.flatMap f') := by
  induction h with
  | nil => exact .nil
  | cons hr _ ih => simp only [List.flatMap_cons]; exact (hf _ _ hr).append ih

theorem map {l l'} {f : α → γ} {f' : β → δ} (h : F2 R l l')
    (hf : ∀ a b, R a b → S (f a) (f' b)) : F2 S (l.map f) (l'.map f') := by
  induction h with
  | nil => exact .nil
  | cons hr _ ih => exact .cons (hf _ _ hr) ih

theorem filter {l l'} {p : α → Bool} {p' : β → Bool} (h : F2 R l l')
    (hp : ∀ a b, R a b → p a = p' b) : F2 R (l.filter p) (l'.filter p') := by
  induction h with
  | nil => exact .nil
  | cons hr _ ih =>
    rename_i a b l l' _
    simp only [List.filter_cons, hp _ _ hr]
    split
    · exact .cons hr ih
    · exact ih

theorem take {l l'} (n : Nat) (h : F2 R l l') : F2 R (l.take n) (l'.take n) := by
  induction h generalizing n with
  | nil => simpa using .nil
  | cons hr _ ih =>
    cases n with
    | zero => simpa using .nil
    | succ n => simp only [List.take_succ_cons]; exact .cons hr (ih n)

theorem drop {l l'} (n : Nat) (h : F2 R l l') : F2 R (l.drop n) (l'.drop n) := by
  induction h generalizing n with
  | nil => simpa using .nil
  | cons hr h' ih =>
    cases n with
    | zero => simpa using .cons hr h'
    | succ n => simpa using ih n

theorem map_eq {l l'} {f : α → γ} {f' : β → γ} (h : F2 R l l')
    (hf : ∀ a b, R a b → f a = f' b) : l.map f = l'.map f' := by
  induction h with
  | nil => rfl
  | cons hr _ ih => simp [hf _ _ hr, ih]

theorem of_map_same {f : γ → α} {f' : γ → β} (L : List γ) (h : ∀ x ∈ L, R (f x) (f' x)) :
    F2 R (L.map f) (L.map f') := by
  induction L with
  | nil => exact .nil
  | cons x xs ih =>
    exact .cons (h x (by simp)) (ih (fun y hy => h y (by simp [hy])))

theorem any_eq {l l'} {p : α → Bool} {p' : β → Bool} (h : F2 R l l')
    (hp : ∀ a b, R a b → p a = p' b) : l.any p = l'.any p' := by
  induction h with
  | nil => rfl
  | cons hr _ ih => simp [hp _ _ hr, ih]

end F2

/-! ### the element and traveler relations -/

/-- The stored element with this id is `e` (so `Convert`'s reload gives `e` back).  Only
    vertices and edges are ever reloaded. -/
def stored (g : AGraph) (ty : DataType) (e : Elem) : Prop :=
  match ty with
  | .vertex => (g.getVertex e.gid).map vertexElem = some e
  | .edge => (g.getEdge e.gid).map edgeElem = some e
  | _ => True

/-- `e'` is an unloaded stand-in for `e`. -/
def Deg (e e' : Elem) : Prop :=
  e'.loaded = false ∧ e'.gid = e.gid ∧ e'.label = e.label ∧ e'.frm = e.frm ∧ e'.to = e.to

/-- Current elements: literal `e`, elided `e'`; `b` = "the data of this element may be read". -/
def CurSim (g : AGraph) (ty : DataType) (b : Bool) (e e' : Elem) : Prop :=
  e.loaded = true ∧ (e' = e ∨ (b = false ∧ Deg e e' ∧ stored g ty e))

def MarkSim (b : Bool) (e e' : Elem) : Prop :=
  e.loaded = true ∧ (e' = e ∨ (b = false ∧ Deg e e'))

def OptR (R : Elem → Elem → Prop) : Option Elem → Option Elem → Prop
  | none, none => True
  | some e, some e' => R e e'
  | _, _ => False

def MarkRel (bm : String → Bool) (p p' : String × Option Elem) : Prop :=
  p'.1 = p.1 ∧ OptR (MarkSim (bm p.1)) p.2 p'.2

structure TSim (g : AGraph) (bm : String → Bool) (ty : DataType) (b : Bool) (t t' : Traveler) : Prop where
  path : t'.path = t.path
  count : t'.count = t.count
  render : t'.render = t.render
  sel : t'.sel = t.sel
  agg : t'.agg = t.agg
  cur : OptR (CurSim g ty b) t.cur t'.cur
  marks : F2 (MarkRel bm) t.marks t'.marks
  selLoaded : ∀ l, t.sel = some l → ∀ kv ∈ l, kv.2.loaded = true

theorem optR_cur_true {g ty a a'} (h : OptR (CurSim g ty true) a a') : a' = a := by
  cases a <;> cases a' <;> simp [OptR, CurSim] at h ⊢
  exact h.2

theorem optR_mark_true {a a'} (h : OptR (MarkSim true) a a') : a' = a := by
  cases a <;> cases a' <;> simp [OptR, MarkSim] at h ⊢
  exact h.2

theorem optR_cur_ids {g ty b a a'} (h : OptR (CurSim g ty b) a a') :
    a'.map (·.gid) = a.map (·.gid) ∧ a'.map (·.label) = a.map (·.label) ∧
    a'.map (·.frm) = a.map (·.frm) ∧ a'.map (·.to) = a.map (·.to) := by
  cases a <;> cases a' <;> simp [OptR, CurSim] at h ⊢
  rcases h with ⟨_, rfl | ⟨_, hd, _⟩⟩
  · simp
  · exact ⟨hd.2.1, hd.2.2.1, hd.2.2.2.1, hd.2.2.2.2⟩

theorem optR_cur_refl {g ty b a} (h : ∀ e, a = some e → e.loaded = true) : OptR (CurSim g ty b) a a := by
  cases a with
  | none => simp [OptR]
  | some e => exact ⟨h e rfl, Or.inl rfl⟩

theorem optR_cur_to_mark {g ty b bm a a'} (h : OptR (CurSim g ty b) a a') (hb : bm = true → b = true) :
    OptR (MarkSim bm) a a' := by
  cases a <;> cases a' <;> simp [OptR] at h ⊢
  rcases h with ⟨hl, rfl | ⟨hb', hd, _⟩⟩
  · exact ⟨hl, Or.inl rfl⟩
  · refine ⟨hl, Or.inr ⟨?_, hd⟩⟩
    cases bm
    · rfl
    · rw [hb rfl] at hb'; cases hb'

theorem optR_mark_loaded {b a a'} (h : OptR (MarkSim b) a a') : ∀ e, a = some e → e.loaded = true := by
  intro e he
  subst he
  cases a' <;> simp [OptR] at h
  exact h.1

theorem optR_cur_retype {g ty ty' b a a'} (h : OptR (CurSim g ty b) a a')
    (hs : ∀ e, stored g ty e → stored g ty' e) : OptR (CurSim g ty' b) a a' := by
  cases a <;> cases a' <;> simp [OptR] at h ⊢
  rcases h with ⟨hl, rfl | ⟨hb', hd, hst⟩⟩
  · exact ⟨hl, Or.inl rfl⟩
  · exact ⟨hl, Or.inr ⟨hb', hd, hs _ hst⟩⟩


/-! ### marks -/

theorem getMark_sim {bm : String → Bool} {l l' : List (String × Option Elem)} (h : F2 (MarkRel bm) l l')
    (m : String) :
    OptR (MarkSim (bm m))
      (match l.find? (·.1 == m) with | some (_, e) => e | none => none)
      (match l'.find? (·.1 == m) with | some (_, e) => e | none => none) := by
  induction h with
  | nil => simp [OptR]
  | cons hr _ ih =>
    rename_i p p' l l' _
    obtain ⟨k, e⟩ := p
    obtain ⟨k', e'⟩ := p'
    obtain ⟨hk, he⟩ := hr
    simp only at hk he
    subst hk
    simp only [List.find?_cons]
    by_cases hkm : (k' == m) = true
    · simp only [hkm]
      have : k' = m := eq_of_beq hkm
      subst this
      exact he
    · simp only [hkm]
      exact ih

theorem TSim.getMark {g bm ty b t t'} (h : TSim g bm ty b t t') (m : String) :
    OptR (MarkSim (bm m)) (t.getMark m) (t'.getMark m) := getMark_sim h.marks m

theorem TSim.getMark_eq {g bm ty b t t'} (h : TSim g bm ty b t t') (m : String) (hm : bm m = true) :
    t'.getMark m = t.getMark m := by
  have := h.getMark m
  rw [hm] at this
  exact optR_mark_true this

theorem setMark_sim {bm : String → Bool} {l l' : List (String × Option Elem)} (h : F2 (MarkRel bm) l l')
    (m : String) (r r' : Option Elem) (hr : OptR (MarkSim (bm m)) r r') :
    F2 (MarkRel bm) (Traveler.setMark l m r) (Traveler.setMark l' m r') := by
  unfold Traveler.setMark
  have hany : l.any (·.1 == m) = l'.any (·.1 == m) :=
    h.any_eq (fun a b hab => by rw [hab.1])
  rw [hany]
  split
  · apply h.map
    intro a b hab
    rw [hab.1]
    split
    · exact ⟨rfl, hr⟩
    · exact hab
  · exact h.append (.cons ⟨rfl, hr⟩ .nil)

/-! ### reading fields -/

theorem TSim.cur_eq {g bm ty t t'} (h : TSim g bm ty true t t') : t'.cur = t.cur := optR_cur_true h.cur

theorem TSim.cur_isSome_eq {g bm ty b t t'} (h : TSim g bm ty b t t') : t'.cur.isSome = t.cur.isSome := by
  have h' := h.cur
  cases hc : t.cur <;> cases hc' : t'.cur <;> simp [hc, hc', OptR] at h' ⊢

theorem TSim.doc_eq {g bm ty b t t'} (h : TSim g bm ty b t t') (f : String)
    (hc : keyIsCurrent f = true → b = true) (hm : bm (nsName f) = true) : t'.doc f = t.doc f := by
  unfold Traveler.doc
  unfold keyIsCurrent nsName at hc
  unfold nsName at hm
  cases hns : Path.namespaceOf f with
  | none =>
    simp only [hns, beq_self_eq_true, forall_const] at hc
    subst hc
    simp only [h.cur_eq]
  | some ns =>
    simp only [hns] at hc hm
    simp only
    by_cases hcur : (ns == currentNamespace) = true
    · have := hc hcur
      subst this
      simp [hcur, h.cur_eq]
    · simp [hcur, h.getMark_eq ns hm]

theorem TSim.value_eq {g bm ty b t t'} (h : TSim g bm ty b t t') (f : String)
    (hc : keyIsCurrent f = true → b = true) (hm : bm (nsName f) = true) : t'.value f = t.value f := by
  unfold Traveler.value
  rw [h.doc_eq f hc hm]

theorem TSim.fieldExists_eq {g bm ty b t t'} (h : TSim g bm ty b t t') (f : String)
    (hc : keyIsCurrent f = true → b = true) (hm : bm (nsName f) = true) :
    t'.fieldExists f = t.fieldExists f := by
  unfold Traveler.fieldExists
  rw [h.doc_eq f hc hm]

mutual
  theorem evalHas_congr (numOf : String → Option Int) (look look' : String → JV) :
      ∀ x : C08.HasE, (∀ k ∈ hasKeys x, look k = look' k) → evalHas numOf look x = evalHas numOf look' x
    | .cond k c a, h => by
        simp only [evalHas]
        rw [h k (by simp [hasKeys])]
    | .and es, h => by
        simp only [evalHas]
        rw [evalHasList_congr numOf look look' es (by simpa [hasKeys] using h)]
    | .or es, h => by
        simp only [evalHas]
        rw [evalHasList_congr numOf look look' es (by simpa [hasKeys] using h)]
    | .not x, h => by
        simp only [evalHas]
        rw [evalHas_congr numOf look look' x (by simpa [hasKeys] using h)]
    | .none, _ => by simp [evalHas]
  theorem evalHasList_congr (numOf : String → Option Int) (look look' : String → JV) :
      ∀ xs : List C08.HasE, (∀ k ∈ hasKeysL xs, look k = look' k) →
        evalHasList numOf look xs = evalHasList numOf look' xs
    | [], _ => by simp [evalHasList]
    | x :: xs, h => by
        simp only [evalHasList]
        rw [evalHas_congr numOf look look' x (fun k hk => h k (by simp [hasKeysL, hk])),
          evalHasList_congr numOf look look' xs (fun k hk => h k (by simp [hasKeysL, hk]))]
end

mutual
  theorem renderT_congr (t t' : Traveler) :
      ∀ tpl : JV, (∀ f ∈ templateRefs tpl, t.value f = t'.value f) → renderT t tpl = renderT t' tpl
    | .str s, h => by
        simp only [renderT]
        exact h s (by simp [templateRefs])
    | .obj kvs, h => by
        simp only [renderT]
        rw [renderObj_congr t t' kvs (by simpa [templateRefs] using h)]
    | .arr xs, h => by
        simp only [renderT]
        rw [renderArr_congr t t' xs (by simpa [templateRefs] using h)]
    | .null, _ => by simp [renderT]
    | .bool _, _ => by simp [renderT]
    | .num _, _ => by simp [renderT]
  theorem renderObj_congr (t t' : Traveler) :
      ∀ kvs : List (String × JV), (∀ f ∈ templateRefs.refsObj kvs, t.value f = t'.value f) →
        renderT.renderObj t kvs = renderT.renderObj t' kvs
    | [], _ => by simp [renderT.renderObj]
    | (k, v) :: rest, h => by
        simp only [renderT.renderObj]
        rw [renderT_congr t t' v (fun f hf => h f (by simp [templateRefs.refsObj, hf])),
          renderObj_congr t t' rest (fun f hf => h f (by simp [templateRefs.refsObj, hf]))]
  theorem renderArr_congr (t t' : Traveler) :
      ∀ xs : List JV, (∀ f ∈ templateRefs.refsArr xs, t.value f = t'.value f) →
        renderT.renderArr t xs = renderT.renderArr t' xs
    | [], _ => by simp [renderT.renderArr]
    | v :: rest, h => by
        simp only [renderT.renderArr]
        rw [renderT_congr t t' v (fun f hf => h f (by simp [templateRefs.refsArr, hf])),
          renderArr_congr t t' rest (fun f hf => h f (by simp [templateRefs.refsArr, hf]))]
end


/-! ### the graph: a listed element is the stored element with its id -/

theorem find_gid_of_mem (l : List Elem) (hn : (l.map (·.gid)).Nodup) (v : Elem) (hv : v ∈ l) :
    l.find? (·.gid == v.gid) = some v := by
  induction l with
  | nil => simp at hv
  | cons x xs ih =>
    simp only [List.map_cons, List.nodup_cons] at hn
    rcases List.mem_cons.1 hv with rfl | hv'
    · simp
    · have hne : x.gid ≠ v.gid := by
        intro he
        exact hn.1 (he ▸ List.mem_map.2 ⟨v, hv', rfl⟩)
      rw [List.find?_cons]
      have : (x.gid == v.gid) = false := by simpa using hne
      simp only [this]
      exact ih hn.2 hv'

theorem stored_vertexElem (g : AGraph) (hg : g.WellFormed) (v : Elem) (hv : v ∈ g.verts) :
    stored g .vertex (vertexElem v) := by
  show (g.getVertex v.gid).map vertexElem = some (vertexElem v)
  unfold AGraph.getVertex
  rw [find_gid_of_mem g.verts hg.1 v hv]
  rfl

theorem stored_edgeElem (g : AGraph) (hg : g.WellFormed) (e : Elem) (he : e ∈ g.edges) :
    stored g .edge (edgeElem e) := by
  show (g.getEdge e.gid).map edgeElem = some (edgeElem e)
  unfold AGraph.getEdge
  rw [find_gid_of_mem g.edges hg.2 e he]
  rfl

theorem getVertex_mem {g : AGraph} {id : String} {v : Elem} (h : g.getVertex id = some v) : v ∈ g.verts :=
  List.mem_of_find?_eq_some h

theorem getEdge_mem {g : AGraph} {id : String} {v : Elem} (h : g.getEdge id = some v) : v ∈ g.edges :=
  List.mem_of_find?_eq_some h

theorem degrade_sim (g : AGraph) (ty : DataType) (e : Elem) (hl : e.loaded = true) (hs : stored g ty e)
    (isv b h : Bool) : CurSim g ty b e (degrade isv b h e) := by
  unfold degrade
  cases b
  · cases h
    · cases isv
      · exact ⟨hl, Or.inl rfl⟩
      · exact ⟨hl, Or.inr ⟨rfl, ⟨rfl, rfl, rfl, rfl, rfl⟩, hs⟩⟩
    · exact ⟨hl, Or.inr ⟨rfl, ⟨rfl, rfl, rfl, rfl, rfl⟩, hs⟩⟩
  · exact ⟨hl, Or.inl rfl⟩

/-- A traveler produced by `AddCurrent`-like construction from related travelers. -/
theorem TSim.mk_cur {g bm ty b ty1 b1 t t'} (h : TSim g bm ty b t t') (r r' : Option Elem)
    (hr : OptR (CurSim g ty1 b1) r r') (p : PathEl) :
    TSim g bm ty1 b1 { cur := r, marks := t.marks, path := t.path ++ [p] }
      { cur := r', marks := t'.marks, path := t'.path ++ [p] } :=
  { path := by simp [h.path], count := rfl, render := rfl, sel := rfl, agg := rfl, cur := hr,
    marks := h.marks, selLoaded := by intro l hl; simp at hl }

theorem TSim.addCurrent_same {g bm ty b ty1 b1 t t'} (h : TSim g bm ty b t t') (r : Option Elem)
    (hr : ∀ e, r = some e → e.loaded = true) :
    TSim g bm ty1 b1 (t.addCurrent r) (t'.addCurrent r) :=
  h.mk_cur r r (optR_cur_refl hr) _

theorem lookupV_sim {g bm ty b t t'} (hg : g.WellFormed) (h : TSim g bm ty b t t') (L : List Elem)
    (hL : ∀ v ∈ L, v ∈ g.verts) (isv b1 hn : Bool) :
    F2 (TSim g bm .vertex b1) (L.map fun v => t.addCurrent (some (vertexElem v)))
      ((L.map fun v => t'.addCurrent (some (vertexElem v))).map (degCur (degrade isv b1 hn))) := by
  rw [List.map_map]
  apply F2.of_map_same
  intro v hv
  exact h.mk_cur (some (vertexElem v)) (some (degrade isv b1 hn (vertexElem v)))
    (degrade_sim g .vertex (vertexElem v) rfl (stored_vertexElem g hg v (hL v hv)) isv b1 hn) _

theorem lookupE_sim {g bm ty b t t'} (hg : g.WellFormed) (h : TSim g bm ty b t t') (L : List Elem)
    (hL : ∀ v ∈ L, v ∈ g.edges) (isv b1 hn : Bool) :
    F2 (TSim g bm .edge b1) (L.map fun v => t.addCurrent (some (edgeElem v)))
      ((L.map fun v => t'.addCurrent (some (edgeElem v))).map (degCur (degrade isv b1 hn))) := by
  rw [List.map_map]
  apply F2.of_map_same
  intro v hv
  exact h.mk_cur (some (edgeElem v)) (some (degrade isv b1 hn (edgeElem v)))
    (degrade_sim g .edge (edgeElem v) rfl (stored_edgeElem g hg v (hL v hv)) isv b1 hn) _

theorem TSim.curId_eq {g bm ty b t t'} (h : TSim g bm ty b t t') : curId t' = curId t := by
  unfold curId; rw [(optR_cur_ids h.cur).1]
theorem TSim.curLabel_eq {g bm ty b t t'} (h : TSim g bm ty b t t') : curLabel t' = curLabel t := by
  unfold curLabel; rw [(optR_cur_ids h.cur).2.1]
theorem TSim.curFrom_eq {g bm ty b t t'} (h : TSim g bm ty b t t') : curFrom t' = curFrom t := by
  unfold curFrom; rw [(optR_cur_ids h.cur).2.2.1]
theorem TSim.curTo_eq {g bm ty b t t'} (h : TSim g bm ty b t t') : curTo t' = curTo t := by
  unfold curTo; rw [(optR_cur_ids h.cur).2.2.2]

theorem mem_filterMap_getVertex {g : AGraph} {α : Type} {l : List α} {f : α → String} {v : Elem}
    (h : v ∈ l.filterMap (fun a => g.getVertex (f a))) : v ∈ g.verts := by
  obtain ⟨a, _, ha⟩ := List.mem_filterMap.1 h
  exact getVertex_mem ha

theorem stepV_sim {g bm ty b t t'} (hg : g.WellFormed) (h : TSim g bm ty b t t') (ids : List String)
    (isv b1 hn : Bool) :
    F2 (TSim g bm .vertex b1) (stepV g ids t) ((stepV g ids t').map (degCur (degrade isv b1 hn))) := by
  unfold stepV
  split
  · exact lookupV_sim hg h _ (fun v hv => hv) _ _ _
  · exact lookupV_sim hg h _ (fun v hv => mem_filterMap_getVertex (f := id) hv) _ _ _

theorem stepEdges_sim {g bm ty b t t'} (hg : g.WellFormed) (h : TSim g bm ty b t t') (ids : List String)
    (isv b1 hn : Bool) :
    F2 (TSim g bm .edge b1) (Grip.stepE g ids t) ((Grip.stepE g ids t').map (degCur (degrade isv b1 hn))) := by
  unfold Grip.stepE
  split
  · exact lookupE_sim hg h _ (fun v hv => hv) _ _ _
  · refine lookupE_sim hg h _ (fun v hv => ?_) _ _ _
    obtain ⟨a, _, ha⟩ := List.mem_filterMap.1 hv
    exact getEdge_mem ha

theorem stepOut_sim {g bm ty b t t'} (hg : g.WellFormed) (h : TSim g bm ty b t t') (from_ : DataType)
    (ls : List String) (isv b1 hn : Bool) :
    F2 (TSim g bm .vertex b1) (stepOut g from_ ls t)
      ((stepOut g from_ ls t').map (degCur (degrade isv b1 hn))) := by
  unfold stepOut
  rw [h.curTo_eq, h.curId_eq]
  split
  · refine lookupV_sim hg h _ (fun v hv => ?_) _ _ _
    exact getVertex_mem (Option.mem_toList.1 hv)
  · exact lookupV_sim hg h _ (fun v hv => mem_filterMap_getVertex hv) _ _ _

theorem stepIn_sim {g bm ty b t t'} (hg : g.WellFormed) (h : TSim g bm ty b t t') (from_ : DataType)
    (ls : List String) (isv b1 hn : Bool) :
    F2 (TSim g bm .vertex b1) (stepIn g from_ ls t)
      ((stepIn g from_ ls t').map (degCur (degrade isv b1 hn))) := by
  unfold stepIn
  rw [h.curFrom_eq, h.curId_eq]
  split
  · refine lookupV_sim hg h _ (fun v hv => ?_) _ _ _
    exact getVertex_mem (Option.mem_toList.1 hv)
  · exact lookupV_sim hg h _ (fun v hv => mem_filterMap_getVertex hv) _ _ _

theorem stepOutE_sim {g bm ty b t t'} (hg : g.WellFormed) (h : TSim g bm ty b t t')
    (ls : List String) (isv b1 hn : Bool) :
    F2 (TSim g bm .edge b1) (stepOutE g ls t) ((stepOutE g ls t').map (degCur (degrade isv b1 hn))) := by
  unfold stepOutE
  rw [h.curId_eq]
  exact lookupE_sim hg h _ (fun v hv => (List.mem_filter.1 hv).1) _ _ _

theorem stepInE_sim {g bm ty b t t'} (hg : g.WellFormed) (h : TSim g bm ty b t t')
    (ls : List String) (isv b1 hn : Bool) :
    F2 (TSim g bm .edge b1) (stepInE g ls t) ((stepInE g ls t').map (degCur (degrade isv b1 hn))) := by
  unfold stepInE
  rw [h.curId_eq]
  exact lookupE_sim hg h _ (fun v hv => (List.mem_filter.1 hv).1) _ _ _

theorem stepIndex_sim {g bm ty b t t'} (hg : g.WellFormed) (h : TSim g bm ty b t t')
    (ls : List String) (isv b1 hn : Bool) :
    F2 (TSim g bm .vertex b1) (stepIndex g ls t) ((stepIndex g ls t').map (degCur (degrade isv b1 hn))) := by
  unfold stepIndex
  refine lookupV_sim hg h _ (fun v hv => ?_) _ _ _
  obtain ⟨l, _, hl⟩ := List.mem_flatMap.1 hv
  exact mem_filterMap_getVertex (f := id) hl

/-- Lifting a per-traveler lookup to the stream, with the degradation applied afterwards. -/
theorem flatMap_deg_sim {R : Traveler → Traveler → Prop} {S : Traveler → Traveler → Prop}
    {ts ts' : List Traveler} (h : F2 R ts ts') (f : Traveler → List Traveler) (d : Traveler → Traveler)
    (hf : ∀ t t', R t t' → F2 S (f t) ((f t').map d)) :
    F2 S (ts.flatMap f) ((ts'.flatMap f).map d) := by
  rw [List.map_flatMap]
  exact h.flatMap hf


/-! ### the other statements, one traveler at a time -/

theorem TSim.retype {g bm ty ty' b b' t t'} (h : TSim g bm ty b t t')
    (hs : ∀ e, stored g ty e → stored g ty' e) (hb : b' = b) : TSim g bm ty' b' t t' := by
  subst hb
  exact { h with cur := optR_cur_retype h.cur hs }

theorem stepAs_sim {g bm ty b t t'} (h : TSim g bm ty b t t') (n : String) (hb : bm n = true → b = true) :
    TSim g bm ty b (stepAs n t) (stepAs n t') :=
  { path := h.path, count := h.count, render := h.render, sel := h.sel, agg := h.agg, cur := h.cur,
    marks := setMark_sim h.marks n _ _ (optR_cur_to_mark h.cur hb),
    selLoaded := h.selLoaded }

theorem stepSelect_one_sim {g bm ty b ty1 b1 t t'} (h : TSim g bm ty b t t') (m : String)
    (hm : bm m = true) : TSim g bm ty1 b1 (stepSelect [m] t) (stepSelect [m] t') := by
  simp only [stepSelect]
  rw [h.getMark_eq m hm]
  exact h.addCurrent_same _ (optR_mark_loaded (h.getMark m))

theorem stepSelect_many_sim {g bm ty b ty1 b1 t t'} (h : TSim g bm ty b t t') (m1 m2 : String)
    (rest : List String) (hm : ∀ m ∈ m1 :: m2 :: rest, bm m = true) :
    TSim g bm ty1 b1 (stepSelect (m1 :: m2 :: rest) t) (stepSelect (m1 :: m2 :: rest) t') := by
  simp only [stepSelect]
  have heq : (m1 :: m2 :: rest).eraseDups.map (fun m => (m, (t'.getMark m).getD {})) =
      (m1 :: m2 :: rest).eraseDups.map (fun m => (m, (t.getMark m).getD {})) := by
    apply List.map_congr_left
    intro m hmm
    rw [h.getMark_eq m (hm m (List.mem_eraseDups.1 hmm))]
  refine { path := rfl, count := rfl, render := rfl, sel := by simp only [heq], agg := rfl,
           cur := by simp [OptR], marks := .nil, selLoaded := ?_ }
  intro l hl kv hkv
  simp only [Option.some.injEq] at hl
  subst hl
  obtain ⟨m, _, rfl⟩ := List.mem_map.1 hkv
  simp only
  cases hg : t.getMark m with
  | none => rfl
  | some e => exact optR_mark_loaded (h.getMark m) e hg

/-- The element `fields` builds from the current one. -/
def fieldsCur (keys : List String) (c : Option Elem) : Elem :=
  let (incl, excl) := fieldKeys keys
  let cur := c.getD {}
  let cde := if excl.isEmpty then cur else excludeFields cur excl
  let data0 : JV := if excl.isEmpty then .obj [] else cde.data
  let ode : Elem := { gid := cde.gid, label := cde.label, frm := cde.frm, to := cde.to, data := data0 }
  if incl.isEmpty then ode else { ode with data := includeFields cde incl }

theorem stepFields_none (keys : List String) (t : Traveler) (h : t.cur = none) :
    stepFields keys t = t := by
  unfold stepFields
  rw [h]

theorem stepFields_eq (keys : List String) (t : Traveler) (c : Elem) (h : t.cur = some c) :
    stepFields keys t = { cur := some (fieldsCur keys (some c)), marks := t.marks, path := [PathEl.vertex ""] } := by
  unfold stepFields fieldsCur
  rw [h]
  rfl

theorem fieldsCur_loaded (keys : List String) (c : Option Elem) : (fieldsCur keys c).loaded = true := by
  unfold fieldsCur
  obtain ⟨incl, excl⟩ := fieldKeys keys
  simp only
  split <;> rfl

theorem stepFields_sim {g bm ty t t'} (h : TSim g bm ty true t t') (keys : List String) (b1 : Bool) :
    TSim g bm ty b1 (stepFields keys t) (stepFields keys t') := by
  have hc := h.cur_eq
  cases hcur : t.cur with
  | none =>
    -- a row without a current element is passed on as it is
    rw [stepFields_none keys t hcur, stepFields_none keys t' (hc.trans hcur)]
    exact { path := h.path, count := h.count, render := h.render, sel := h.sel, agg := h.agg,
            cur := by rw [hcur, hc.trans hcur]; trivial, marks := h.marks, selLoaded := h.selLoaded }
  | some c =>
    rw [stepFields_eq keys t c hcur, stepFields_eq keys t' c (hc.trans hcur)]
    exact { path := rfl, count := rfl, render := rfl, sel := rfl, agg := rfl,
            cur := ⟨fieldsCur_loaded _ _, Or.inl rfl⟩, marks := h.marks,
            selLoaded := by intro l hl; simp at hl }

theorem setField_loaded (o : Elem) (f : String) (x : JV) : (setField o f x).loaded = o.loaded := by
  unfold setField
  simp only
  repeat' split
  all_goals rfl

theorem stepUnwind_sim {g bm ty t t'} (h : TSim g bm ty true t t') (f : String) (b1 : Bool)
    (hv : t'.value f = t.value f) :
    F2 (TSim g bm ty b1) (stepUnwind f t) (stepUnwind f t') := by
  unfold stepUnwind
  rw [h.cur_eq, hv]
  cases hc : t.cur with
  | none =>
    -- no current element: the traveler is passed on as it is; with no element the loaded flag of
    -- the relation is vacuous
    have hc' : t'.cur = none := by rw [h.cur_eq, hc]
    exact .cons { path := h.path, count := h.count, render := h.render, sel := h.sel, agg := h.agg,
                  cur := by rw [hc, hc']; trivial, marks := h.marks, selLoaded := h.selLoaded } .nil
  | some cur =>
    simp only
    apply F2.of_map_same
    intro i _
    apply h.addCurrent_same
    intro e he
    simp only [Option.some.injEq] at he
    subst he
    rw [setField_loaded]

theorem stepRender_sim {g bm ty b ty1 b1 t t'} (_h : TSim g bm ty b t t') (tpl : JV)
    (hv : ∀ f ∈ templateRefs tpl, t.value f = t'.value f) :
    TSim g bm ty1 b1 (stepRender tpl t) (stepRender tpl t') := by
  unfold stepRender
  rw [renderT_congr t t' tpl hv]
  exact { path := rfl, count := rfl, render := rfl, sel := rfl, agg := rfl,
          cur := by simp [OptR], marks := .nil, selLoaded := by intro l hl; simp at hl }

theorem count_sim {g bm ty1 b1} (n : Nat) :
    F2 (TSim g bm ty1 b1) [{ count := n }] [{ count := n }] :=
  .cons { path := rfl, count := rfl, render := rfl, sel := rfl, agg := rfl,
          cur := by simp [OptR], marks := .nil, selLoaded := by intro l hl; simp at hl } .nil

theorem rangeGo_sim {R : Traveler → Traveler → Prop} {ts ts'} (h : F2 R ts ts') (a b : Int) (i : Nat) :
    F2 R (rangeGo a b i ts) (rangeGo a b i ts') := by
  induction h generalizing i with
  | nil => exact .nil
  | cons hr _ ih =>
    simp only [rangeGo]
    split
    · exact .cons hr (ih _)
    · exact ih _

theorem distinctGo_sim {R : Traveler → Traveler → Prop} {ts ts'} (h : F2 R ts ts') (fs : List String)
    (hk : ∀ t t', R t t' → distinctKey fs t' = distinctKey fs t) (seen : List (List JV)) :
    F2 R (distinctGo fs seen ts) (distinctGo fs seen ts') := by
  induction h generalizing seen with
  | nil => exact .nil
  | cons hr _ ih =>
    simp only [distinctGo, hk _ _ hr]
    split
    · exact ih _
    · split
      · exact ih _
      · exact .cons hr (ih _)

theorem TSim.all_fieldExists_eq {g bm ty b t t'} (h : TSim g bm ty b t t') (fs : List String)
    (hc : ∀ f ∈ fs, keyIsCurrent f = true → b = true) (hm : ∀ f ∈ fs, bm (nsName f) = true) :
    fs.all t'.fieldExists = fs.all t.fieldExists := by
  rw [Bool.eq_iff_iff, List.all_eq_true, List.all_eq_true]
  constructor
  · intro hh f hf; rw [← h.fieldExists_eq f (hc f hf) (hm f hf)]; exact hh f hf
  · intro hh f hf; rw [h.fieldExists_eq f (hc f hf) (hm f hf)]; exact hh f hf

theorem distinctKey_eq {g bm ty b t t'} (h : TSim g bm ty b t t') (fs : List String)
    (hc : ∀ f ∈ fs, keyIsCurrent f = true → b = true) (hm : ∀ f ∈ fs, bm (nsName f) = true) :
    distinctKey fs t' = distinctKey fs t := by
  unfold distinctKey
  have h1 : fs.all t'.fieldExists = fs.all t.fieldExists := h.all_fieldExists_eq fs hc hm
  have h2 : fs.map t'.value = fs.map t.value := by
    apply List.map_congr_left
    intro f hf
    exact h.value_eq f (hc f hf) (hm f hf)
  rw [h1, h2]


/-! ### `distinct` without fields: the key is the element id -/

/-- The two facts about the string constant `"_gid"` the proof needs (`String.splitOn` does not
    reduce in the kernel; the driver's self-test evaluates them). -/
def GidFacts : Prop := keyIsCurrent "_gid" = true ∧ Path.jsonPathOf "_gid" = ["gid"]

theorem doc_of_current (t : Traveler) (f : String) (h : keyIsCurrent f = true) : t.doc f = elemDict t.cur := by
  unfold keyIsCurrent nsName at h
  unfold Traveler.doc
  cases hns : Path.namespaceOf f with
  | none => rfl
  | some ns =>
    simp only [hns] at h
    simp [h]

theorem elemDict_gid (c : Option Elem) :
    (elemDict c).getPath? ["gid"] = some (.str ((c.map (·.gid)).getD "")) := by
  cases c with
  | none => simp [elemDict, Path.nilDict, JV.getPath?, JV.member, JV.getKey?, List.find?]
  | some e => simp [elemDict, Path.toDict, JV.getPath?, JV.member, JV.getKey?, List.find?]

theorem gid_lookup_eq {g bm ty b t t'} (hf : GidFacts) (h : TSim g bm ty b t t') :
    Path.lookupDoc (t'.doc "_gid") "_gid" = Path.lookupDoc (t.doc "_gid") "_gid" := by
  rw [doc_of_current t _ hf.1, doc_of_current t' _ hf.1]
  unfold Path.lookupDoc
  rw [hf.2]
  simp only
  rw [elemDict_gid, elemDict_gid, (optR_cur_ids h.cur).1]

theorem distinctKey_gid_eq {g bm ty b t t'} (hf : GidFacts) (h : TSim g bm ty b t t') :
    distinctKey ["_gid"] t' = distinctKey ["_gid"] t := by
  have hl := gid_lookup_eq hf h
  unfold distinctKey
  simp only [List.all_cons, List.all_nil, List.map_cons, List.map_nil, Traveler.fieldExists,
    Traveler.value, hl]

/-! ### typing facts -/

theorem moveToVertex_last {st st1 : TState} (h : moveToVertex st = .ok st1) : st1.last = .vertex := by
  unfold moveToVertex at h
  repeat' split at h
  all_goals simp at h
  all_goals rw [← h]

theorem moveToEdge_last {st st1 : TState} (h : moveToEdge st = .ok st1) : st1.last = .edge := by
  unfold moveToEdge at h
  split at h
  · simp at h
  · simp at h; rw [← h]

theorem needElement_ok {st st1 : TState} {k : Except TypeErr TState} (h : needElement st k = .ok st1) :
    k = .ok st1 := by
  unfold needElement at h
  split at h
  · simp at h
  · exact h

theorem typeStep_as_last {st st1 : TState} {n : String} (h : typeStep st (.as_ n) = .ok st1) :
    st1.last = st.last := by
  simp only [typeStep] at h
  repeat' split at h
  all_goals simp at h
  all_goals rw [← h]

/-! ### one statement on related streams -/

def nextC (c : Nat) (s : Stmt) : Nat := if startsStep s.kind then c + 1 else c

def bmOf (need : Nat → Bool) (ms : String → List Nat) (m : String) : Bool := (ms m).all need

theorem bmOf_true {need : Nat → Bool} {ms : String → List Nat} {m : String}
    (h : ∀ a ∈ ms m, need a = true) : bmOf need ms m = true := List.all_eq_true.2 h

theorem step_sim (numOf : String → Option Int) (g : AGraph) (hg : g.WellFormed) (need : Nat → Bool)
    (ms : String → List Nat) (load hon : Nat → Bool) (i c : Nat) (s : Stmt) (st st1 : TState)
    (hstep : typeStep st s = .ok st1)
    (hgood : Good need ms s (nextC c s))
    (has : ∀ n, s = .as_ n → nextC c s ∈ ms n)
    (hdoc : s.kind.documented = true ∨ s.kind = .lookupVertsIndex)
    (hnd : s = .distinct [] → GidFacts)
    (hload : load i = need (nextC c s))
    {ts ts' : List Traveler} (h : F2 (TSim g (bmOf need ms) st.last (need c)) ts ts') :
    F2 (TSim g (bmOf need ms) st1.last (need (nextC c s)))
      (evalStepP numOf g st.last s ts) (C02.stepE numOf g load hon i st.last s ts') := by
  cases s with
  | V ids =>
    have h1 : st1.last = .vertex := by
      simp only [typeStep] at hstep
      split at hstep
      · simp at hstep
      · simp at hstep; rw [← hstep]
    rw [h1]
    simp only [C02.stepE, evalStepP, evalStepT, isLookup, isV, hload, if_true]
    exact flatMap_deg_sim h _ _ (fun t t' ht => stepV_sim hg ht ids _ _ _)
  | E ids =>
    have h1 : st1.last = .edge := by
      simp only [typeStep] at hstep
      split at hstep
      · simp at hstep
      · simp at hstep; rw [← hstep]
    rw [h1]
    simp only [C02.stepE, evalStepP, evalStepT, isLookup, isV, hload, if_true]
    exact flatMap_deg_sim h _ _ (fun t t' ht => stepEdges_sim hg ht ids _ _ _)
  | out ls =>
    rw [moveToVertex_last hstep]
    simp only [C02.stepE, evalStepP, evalStepT, isLookup, isV, hload, if_true]
    exact flatMap_deg_sim h _ _ (fun t t' ht => stepOut_sim hg ht _ ls _ _ _)
  | in_ ls =>
    rw [moveToVertex_last hstep]
    simp only [C02.stepE, evalStepP, evalStepT, isLookup, isV, hload, if_true]
    exact flatMap_deg_sim h _ _ (fun t t' ht => stepIn_sim hg ht _ ls _ _ _)
  | both ls =>
    rw [moveToVertex_last hstep]
    simp only [C02.stepE, evalStepP, evalStepT, isLookup, isV, hload, if_true, List.map_append]
    exact (flatMap_deg_sim h _ _ (fun t t' ht => stepIn_sim hg ht _ ls _ _ _)).append
      (flatMap_deg_sim h _ _ (fun t t' ht => stepOut_sim hg ht _ ls _ _ _))
  | outE ls =>
    rw [moveToEdge_last hstep]
    simp only [C02.stepE, evalStepP, evalStepT, isLookup, isV, hload, if_true]
    exact flatMap_deg_sim h _ _ (fun t t' ht => stepOutE_sim hg ht ls _ _ _)
  | inE ls =>
    rw [moveToEdge_last hstep]
    simp only [C02.stepE, evalStepP, evalStepT, isLookup, isV, hload, if_true]
    exact flatMap_deg_sim h _ _ (fun t t' ht => stepInE_sim hg ht ls _ _ _)
  | bothE ls =>
    rw [moveToEdge_last hstep]
    simp only [C02.stepE, evalStepP, evalStepT, isLookup, isV, hload, if_true, List.map_append]
    exact (flatMap_deg_sim h _ _ (fun t t' ht => stepInE_sim hg ht ls _ _ _)).append
      (flatMap_deg_sim h _ _ (fun t t' ht => stepOutE_sim hg ht ls _ _ _))
  | lookupVertsIndex ls =>
    have h1 : st1.last = .vertex := by
      simp only [typeStep, Except.ok.injEq] at hstep
      rw [← hstep]
    rw [h1]
    simp only [C02.stepE, evalStepP, isLookup, isV, hload, if_true]
    exact flatMap_deg_sim h _ _ (fun t t' ht => stepIndex_sim hg ht ls _ _ _)
  | has x =>
    have h1 := needElement_ok hstep
    simp only [Except.ok.injEq] at h1
    subst h1
    simp only [C02.stepE, evalStepP, evalStepT, isLookup]
    apply h.filter
    intro t t' ht
    unfold keepHas
    apply evalHas_congr
    intro k hk
    exact (ht.value_eq k (hgood.refCur k hk) (bmOf_true (hgood.refMark k hk))).symm
  | hasKey ks =>
    have h1 := needElement_ok hstep
    split at h1
    · simp at h1
    simp only [Except.ok.injEq] at h1
    subst h1
    simp only [C02.stepE, evalStepP, evalStepT, isLookup]
    apply h.filter
    intro t t' ht
    unfold keepHasKey
    exact (ht.all_fieldExists_eq ks (fun f hf => hgood.refCur f hf)
      (fun f hf => bmOf_true (hgood.refMark f hf))).symm
  | hasLabel ls =>
    have h1 := needElement_ok hstep
    split at h1
    · simp at h1
    simp only [Except.ok.injEq] at h1
    subst h1
    simp only [C02.stepE, evalStepP, evalStepT, isLookup]
    apply h.filter
    intro t t' ht
    unfold keepHasLabel
    rw [ht.curLabel_eq, ht.cur_isSome_eq]
  | hasId ids =>
    have h1 := needElement_ok hstep
    split at h1
    · simp at h1
    simp only [Except.ok.injEq] at h1
    subst h1
    simp only [C02.stepE, evalStepP, evalStepT, isLookup]
    apply h.filter
    intro t t' ht
    unfold keepHasId
    rw [ht.curId_eq]
  | as_ n =>
    rw [typeStep_as_last hstep]
    simp only [C02.stepE, evalStepP, evalStepT, isLookup]
    apply h.map
    intro t t' ht
    apply stepAs_sim ht n
    intro hb
    exact List.all_eq_true.1 hb _ (has n rfl)
  | select marks =>
    have h1 := needElement_ok hstep
    simp only [C02.stepE, evalStepP, evalStepT, isLookup]
    match marks, h1, hgood with
    | [], h1, _ => simp at h1
    | [m], _, hgood =>
      apply h.map
      intro t t' ht
      exact stepSelect_one_sim ht m (bmOf_true (hgood.sel [m] rfl m (by simp)))
    | m1 :: m2 :: rest, _, hgood =>
      apply h.map
      intro t t' ht
      exact stepSelect_many_sim ht m1 m2 rest
        (fun m hm => bmOf_true (hgood.sel (m1 :: m2 :: rest) rfl m hm))
  | limit n =>
    simp only [typeStep, Except.ok.injEq] at hstep
    subst hstep
    simp only [C02.stepE, evalStepP, evalStepT, isLookup]
    exact h.take n
  | skip n =>
    simp only [typeStep, Except.ok.injEq] at hstep
    subst hstep
    simp only [C02.stepE, evalStepP, evalStepT, isLookup]
    exact h.drop n
  | range a b =>
    simp only [typeStep, Except.ok.injEq] at hstep
    subst hstep
    simp only [C02.stepE, evalStepP, evalStepT, isLookup, stepRange]
    exact rangeGo_sim h a b 0
  | distinct fs =>
    have h1 := needElement_ok hstep
    simp only [Except.ok.injEq] at h1
    subst h1
    simp only [C02.stepE, evalStepP, evalStepT, isLookup, stepDistinct]
    cases fs with
    | nil =>
      simp only [List.isEmpty_nil, if_true]
      apply distinctGo_sim h
      intro t t' ht
      exact distinctKey_gid_eq (hnd rfl) ht
    | cons f fs =>
      simp only [List.isEmpty_cons]
      apply distinctGo_sim h
      intro t t' ht
      exact distinctKey_eq ht _ (fun f hf => hgood.refCur f hf)
        (fun f hf => bmOf_true (hgood.refMark f hf))
  | fields ks =>
    have h1 := needElement_ok hstep
    simp only [Except.ok.injEq] at h1
    subst h1
    have hn : need c = true := hgood.readsCur rfl
    simp only [C02.stepE, evalStepP, evalStepT, isLookup]
    rw [hn] at h
    apply h.map
    intro t t' ht
    exact stepFields_sim ht ks _
  | unwind f =>
    simp only [typeStep, Except.ok.injEq] at hstep
    subst hstep
    have hn : need c = true := hgood.readsCur rfl
    simp only [C02.stepE, evalStepP, evalStepT, isLookup]
    rw [hn] at h
    apply h.flatMap
    intro t t' ht
    exact stepUnwind_sim ht f _
      (ht.value_eq f (fun _ => rfl) (bmOf_true (hgood.refMark f (by simp [fieldRefs]))))
  | count =>
    simp only [C02.stepE, evalStepP, evalStepT, isLookup]
    rw [h.length_eq]
    exact count_sim _
  | render tpl =>
    simp only [C02.stepE, evalStepP, evalStepT, isLookup]
    apply h.map
    intro t t' ht
    exact stepRender_sim ht tpl
      (fun f hf => (ht.value_eq f (hgood.refCur f hf) (bmOf_true (hgood.refMark f hf))).symm)
  | path tpl =>
    have h1 := needElement_ok hstep
    simp only [Except.ok.injEq] at h1
    subst h1
    simp only [C02.stepE, evalStepP, evalStepT, isLookup]
    exact h.mono (fun t t' ht => ht.retype (ty' := .path) (by intro e _; simp [stored]) rfl)
  | inNull _ => simp [Stmt.kind, Kind.documented] at hdoc
  | outNull _ => simp [Stmt.kind, Kind.documented] at hdoc
  | inENull _ => simp [Stmt.kind, Kind.documented] at hdoc
  | outENull _ => simp [Stmt.kind, Kind.documented] at hdoc
  | aggregate _ => simp [Stmt.kind, Kind.documented] at hdoc
  | mark _ => simp [Stmt.kind, Kind.documented] at hdoc
  | jump _ _ _ => simp [Stmt.kind, Kind.documented] at hdoc
  | set _ _ => simp [Stmt.kind, Kind.documented] at hdoc
  | increment _ _ => simp [Stmt.kind, Kind.documented] at hdoc
  | engineCustom _ _ => simp [Stmt.kind, Kind.documented] at hdoc
  | unknown => simp [Stmt.kind, Kind.documented] at hdoc


/-! ### `Convert` with reload on related travelers -/

theorem reload_sim_v {g b e e'} (h : CurSim g .vertex b e e') : reload g .vertex e' = some e := by
  obtain ⟨hl, rfl | ⟨_, hd, hs⟩⟩ := h
  · simp [reload, hl]
  · simp only [reload, hd.1, hd.2.1]
    exact hs

theorem reload_sim_e {g b e e'} (h : CurSim g .edge b e e') : reload g .edge e' = some e := by
  obtain ⟨hl, rfl | ⟨_, hd, hs⟩⟩ := h
  · simp [reload, hl]
  · simp only [reload, hd.1, hd.2.1]
    exact hs

theorem reloadT_sel {g bm b t t'} (st : TState) (h : TSim g bm st.last b t t') :
    (reloadT g st t').sel = t.sel := by
  simp only [reloadT, h.sel]
  cases hs : t.sel with
  | none => rfl
  | some l =>
    simp only [Option.map_some, Option.some.injEq]
    conv => rhs; rw [← List.map_id l]
    apply List.map_congr_left
    intro kv hkv
    have := h.selLoaded l hs kv hkv
    simp [reload, this]

theorem convert_sim {g bm b t t'} (st : TState) (h : TSim g bm st.last b t t') :
    convertE g st t' = convert st t := by
  have hsel := reloadT_sel st h
  have hc := h.cur
  unfold convertE convert
  cases hl : st.last with
  | vertex =>
    rw [hl] at hc
    simp only [reloadT, hl]
    congr 1
    cases hc1 : t.cur <;> cases hc2 : t'.cur <;> simp [hc1, hc2, OptR] at hc ⊢
    exact reload_sim_v hc
  | edge =>
    rw [hl] at hc
    simp only [reloadT, hl]
    congr 1
    cases hc1 : t.cur <;> cases hc2 : t'.cur <;> simp [hc1, hc2, OptR] at hc ⊢
    exact reload_sim_e hc
  | count => simp only [reloadT, h.count]
  | selection => simp only [hsel]
  | render => simp only [reloadT, h.render]
  | path => simp only [reloadT, h.path]
  | aggregation => simp only [reloadT, h.agg]
  | noData => rfl

/-! ### the fold -/

theorem stepIdsFrom_length (c : Nat) (l : List Stmt) : (stepIdsFrom c l).length = l.length := by
  induction l generalizing c with
  | nil => rfl
  | cons s r ih => simp [stepIdsFrom, ih]

theorem sim_from (numOf : String → Option Int) (g : AGraph) (hg : g.WellFormed) (need : Nat → Bool)
    (ms : String → List Nat) (load hon : Nat → Bool) :
    ∀ (suf : List Stmt) (c : Nat) (st : TState) (i : Nat) (ts ts' : List Traveler) (stf : TState),
      (∀ sk ∈ suf.zip (stepIdsFrom c suf),
        Good need ms sk.1 sk.2 ∧ ∀ n, sk.1 = .as_ n → sk.2 ∈ ms n) →
      (∀ s ∈ suf, (s.kind.documented = true ∨ s.kind = .lookupVertsIndex) ∧ (s = .distinct [] → GidFacts)) →
      (∀ j, j < suf.length → load (i + j) = need ((stepIdsFrom c suf).getD j 0)) →
      F2 (TSim g (bmOf need ms) st.last (need c)) ts ts' →
      typeFold st suf = .ok stf →
      (evalFromX (C02.stepE numOf g load hon) st i ts' suf).map (convertE g stf)
        = (evalFromX (fun _ => evalStepP numOf g) st i ts suf).map (convert stf)
  | [], c, st, i, ts, ts', stf, _, _, _, h, ht => by
      simp only [typeFold, Except.ok.injEq] at ht
      subst ht
      simp only [evalFromX]
      exact (h.map_eq (fun t t' htt => (convert_sim st htt).symm)).symm
  | s :: rest, c, st, i, ts, ts', stf, H1, Hd, H2, h, ht => by
      simp only [typeFold] at ht
      cases hs : typeStep st s with
      | error e => simp [hs] at ht
      | ok st1 =>
        simp only [hs] at ht
        simp only [evalFromX, hs]
        have hz : (s :: rest).zip (stepIdsFrom c (s :: rest))
            = (s, nextC c s) :: rest.zip (stepIdsFrom (nextC c s) rest) := rfl
        have hhead := H1 (s, nextC c s) (by rw [hz]; exact List.mem_cons_self)
        apply sim_from numOf g hg need ms load hon rest (nextC c s) st1 (i + 1) _ _ stf
        · intro sk hsk
          exact H1 sk (by rw [hz]; exact List.mem_cons_of_mem _ hsk)
        · intro s' hs'
          exact Hd s' (List.mem_cons_of_mem _ hs')
        · intro j hj
          have h2 := H2 (j + 1) (by simp only [List.length_cons]; omega)
          have e : i + 1 + j = i + (j + 1) := by omega
          rw [e, h2]
          rfl
        · exact step_sim numOf g hg need ms load hon i c s st st1 hs hhead.1 hhead.2
            (Hd s List.mem_cons_self).1 (Hd s List.mem_cons_self).2 (H2 0 (by simp)) h
        · exact ht

theorem seed_sim (g : AGraph) (bm : String → Bool) (ty : DataType) (b : Bool) :
    TSim g bm ty b Traveler.seed Traveler.seed :=
  { path := rfl, count := rfl, render := rfl, sel := rfl, agg := rfl, cur := by simp [Traveler.seed, OptR],
    marks := .nil, selLoaded := by intro l hl; simp [Traveler.seed] at hl }

/-- Load elision plus reload at output gives exactly the literal rows, on every backend `hon`,
    for plans made of the documented statements and `LookupVertsIndex`; `hgid` is only used for
    `distinct []` (whose key is the constant `"_gid"`). -/
theorem elided_eq_literal_gen (numOf : String → Option Int) (g : AGraph) (hg : g.WellFormed)
    (hon : Nat → Bool) (plan : List Stmt) (st : TState) (ht : typeFold {} plan = .ok st)
    (hdoc : ∀ s ∈ plan, s.kind.documented = true ∨ s.kind = .lookupVertsIndex)
    (hgid : ∀ s ∈ plan, s = .distinct [] → GidFacts) :
    (evalElided numOf g hon plan).map (convertE g st) = (evalPlan numOf g plan).map (convert st) := by
  unfold evalElided evalPlan
  refine sim_from numOf g hg (stepLoadData (stepOutputs plan))
    (markSteps (plan.zip (stepIds plan))) (flagAt (loadFlags plan)) hon plan 0 {} 0 _ _ st
    ?_ ?_ ?_ ?_ ht
  · intro sk hsk
    constructor
    · exact (passAll_good (markSteps (plan.zip (stepIds plan))) (plan.zip (stepIds plan)) sk hsk).mono
        (fun j hj => sn_imp _ j hj)
    · intro n hn
      exact List.mem_filterMap.2 ⟨sk, hsk, by simp [hn]⟩
  · intro s hs
    exact ⟨hdoc s hs, hgid s hs⟩
  · intro j hj
    have hlen : j < (stepIds plan).length := by
      rw [stepIds, stepIdsFrom_length]; exact hj
    show flagAt (loadFlags plan) (0 + j) = stepLoadData (stepOutputs plan) ((stepIds plan).getD j 0)
    simp [flagAt, loadFlags, List.getD_eq_getElem?_getD, List.getElem?_map, List.getElem?_eq_getElem hlen]
  · exact .cons (seed_sim _ _ _ _) .nil

/-- The simulation theorem: for plans made of the documented statements and `LookupVertsIndex`
    (`hdoc`), given the two evaluated facts about the string constant `"_gid"` (`hgid`). -/
theorem elided_eq_literal (numOf : String → Option Int) (g : AGraph) (hg : g.WellFormed)
    (hon : Nat → Bool) (plan : List Stmt) (st : TState) (ht : typeFold {} plan = .ok st)
    (hdoc : ∀ s ∈ plan, s.kind.documented = true ∨ s.kind = .lookupVertsIndex)
    (hgid : GidFacts) :
    (evalElided numOf g hon plan).map (convertE g st) = (evalPlan numOf g plan).map (convert st) :=
  elided_eq_literal_gen numOf g hg hon plan st ht hdoc (fun _ _ _ => hgid)

/-- The same without any string fact, for plans that do not contain `distinct []`. -/
theorem elided_eq_literal_partial (numOf : String → Option Int) (g : AGraph) (hg : g.WellFormed)
    (hon : Nat → Bool) (plan : List Stmt) (st : TState) (ht : typeFold {} plan = .ok st)
    (hdoc : ∀ s ∈ plan, s.kind.documented = true ∨ s.kind = .lookupVertsIndex)
    (hnd : ∀ s ∈ plan, s ≠ .distinct []) :
    (evalElided numOf g hon plan).map (convertE g st) = (evalPlan numOf g plan).map (convert st) :=
  elided_eq_literal_gen numOf g hg hon plan st ht hdoc (fun s hs h => absurd h (hnd s hs))

end Grip.Props.C02.Lemmas
