/-
  Lemmas for C07, composition: `aggregate.Process` with k aggregations STANDING ALONE (fed by a
  source that sends a list and closes, read by a client that keeps reading) — a measure in ℕ.

  What a worker emits is an arbitrary function `g` of everything it has read, so the measure has
  to know in advance what the worker WILL have read when its channel is closed: `F`, the input
  without its signal travelers.  The invariant `AggPro` carries that prophecy: what every worker
  has received (`seen ++ buf`), plus the traveler the feeder is distributing, plus what is still
  on its way, is `F`.
-/
import GripProofs.Lemmas.C07CompAgg
import GripProofs.Lemmas.C07CompChain

namespace Grip.Props.C07.Lemmas
open Grip.C07

def nonsig {α : Type} (sig : α → Bool) (xs : List α) : List α := xs.filter (fun x => !sig x)

/-- what a worker has received so far -/
def wkKey {α : Type} (w : Wk α) : List α := w.seen ++ w.buf

def pendI {α : Type} : FH α → Nat
  | .fan _ i => i
  | _ => 0

def pendT {α : Type} : FH α → List α
  | .fan t _ => [t]
  | _ => []

/-- the first `pendI` workers have received `D` and the traveler being distributed, the others `D`;
    together with what is still to come this is `F` -/
structure AggPro {α : Type} (sig : α → Bool) (F todo : List α) (a : AggS α) (D : List α) : Prop where
  keys : a.ws.map wkKey =
    List.replicate (pendI a.fh) (D ++ pendT a.fh) ++ List.replicate (a.ws.length - pendI a.fh) D
  rest : D ++ pendT a.fh ++ nonsig sig (a.inbuf ++ todo) = F

theorem wkKey_step {α : Type} {w w' : Wk α} {act : Act α} (h : WkStep w act w') : wkKey w' = wkKey w := by
  cases h with
  | read hp hb => simp [wkKey, hb]
  | compute _ _ _ => rfl
  | emit _ _ => rfl
  | stop _ _ => rfl

theorem pro_work {α : Type} {sig : α → Bool} {F todo D : List α} {a : AggS α} {l r : List (Wk α)}
    {w w' : Wk α} {act : Act α} (hp : AggPro sig F todo a D) (hws : a.ws = l ++ w :: r)
    (h : WkStep w act w') : AggPro sig F todo { a with ws := l ++ w' :: r } D := by
  have hk := wkKey_step h
  refine ⟨?_, hp.rest⟩
  have := hp.keys
  rw [hws] at this
  simp only [List.map_append, List.map_cons, List.length_append, List.length_cons, hk] at this ⊢
  exact this

theorem nonsig_cons_sig {α : Type} {sig : α → Bool} {t : α} (ts : List α) (h : sig t = true) :
    nonsig sig (t :: ts) = nonsig sig ts := by
  simp [nonsig, h]

theorem nonsig_cons_nonsig {α : Type} {sig : α → Bool} {t : α} (ts : List α) (h : ¬ sig t = true) :
    nonsig sig (t :: ts) = t :: nonsig sig ts := by
  simp [nonsig, h]

theorem pro_push {α : Type} {sig : α → Bool} {F todo D : List α} {a : AggS α} {l r : List (Wk α)}
    {w : Wk α} {t : α} {i : Nat} (hp : AggPro sig F todo a D) (hfh : a.fh = .fan t i)
    (hws : a.ws = l ++ w :: r) (hl : l.length = i) :
    ∃ D', AggPro sig F todo { a with fh := (if r = [] then .idle else .fan t (i + 1)),
                                      ws := l ++ { w with buf := w.buf ++ [t] } :: r } D' := by
  have keys := hp.keys
  have rest := hp.rest
  rw [hfh] at keys rest
  rw [hws] at keys
  simp only [pendI, pendT, List.map_append, List.map_cons, List.length_append, List.length_cons] at keys rest
  have hk : l.length + (r.length + 1) - i = r.length + 1 := by omega
  rw [hk, List.replicate_succ] at keys
  obtain ⟨h1, h2⟩ := List.append_inj keys (by simp [hl])
  injection h2 with hw hr
  have hw' : wkKey { w with buf := w.buf ++ [t] } = D ++ [t] := by
    simp only [wkKey] at hw ⊢
    rw [← List.append_assoc, hw]
  by_cases hr0 : r = []
  · subst hr0
    refine ⟨D ++ [t], ?_, ?_⟩
    · simp only [if_true, pendI, pendT, List.map_append, List.map_cons, List.map_nil, hw', h1,
        List.length_append, List.length_cons, List.length_nil, List.append_nil, hl]
      simp [List.replicate_succ']
    · simp only [if_true, pendT, List.append_nil]
      exact rest
  · refine ⟨D, ?_, ?_⟩
    · simp only [hr0, if_false, pendI, pendT, List.map_append, List.map_cons, hw', h1, hr,
        List.length_append, List.length_cons, hl]
      have : i + (r.length + 1) - (i + 1) = r.length := by omega
      rw [this, List.replicate_succ', List.append_assoc]
      rfl
    · simp only [hr0, if_false, pendT]
      exact rest

theorem pro_tau {α : Type} {sig : α → Bool} {F todo D : List α} {a a' : AggS α}
    (hp : AggPro sig F todo a D) (h : AggTau sig a a') : ∃ D', AggPro sig F todo a' D' := by
  cases h with
  | @take t ts hfh hb =>
    have keys := hp.keys
    have rest := hp.rest
    rw [hfh] at keys rest
    rw [hb] at rest
    simp only [pendI, pendT, List.append_nil, List.cons_append] at keys rest
    by_cases hs : sig t = true
    · refine ⟨D, ?_, ?_⟩
      · simp only [hs, if_true, pendI, pendT, List.append_nil]; exact keys
      · simp only [hs, if_true, pendT, List.append_nil]
        rw [nonsig_cons_sig _ hs] at rest; exact rest
    · refine ⟨D, ?_, ?_⟩
      · simp only [hs, pendI, pendT]
        simpa using keys
      · simp only [hs, pendT]
        rw [nonsig_cons_nonsig _ hs] at rest
        simpa using rest
  | @push t i l r w hfh hws hl hroom => exact pro_push hp hfh hws hl
  | @closeFeed hfh hb hc hf =>
    refine ⟨D, ?_, hp.rest⟩
    have := hp.keys
    simp only [closeAll, List.map_map, List.length_map] at this ⊢
    exact this
  | @work l r w w' hws h => exact ⟨D, pro_work hp hws h⟩

theorem pro_out {α : Type} {sig : α → Bool} {F todo D : List α} {a a' : AggS α} {y : α}
    (hp : AggPro sig F todo a D) (h : AggOut a y a') : AggPro sig F todo a' D := by
  cases h with
  | @sigOut hfh =>
    have keys := hp.keys
    have rest := hp.rest
    rw [hfh] at keys rest
    exact ⟨keys, rest⟩
  | @work l r w w' hws h => exact pro_work hp hws h

theorem pro_fin {α : Type} {sig : α → Bool} {F todo D : List α} {a a' : AggS α}
    (hp : AggPro sig F todo a D) (h : AggFin a a') : AggPro sig F todo a' D := by
  cases h with
  | mk _ _ _ => exact ⟨hp.keys, hp.rest⟩

theorem pro_put {α : Type} {sig : α → Bool} {F ts D : List α} {a : AggS α} {t : α}
    (hp : AggPro sig F (t :: ts) a D) : AggPro sig F ts { a with inbuf := a.inbuf ++ [t] } D := by
  refine ⟨hp.keys, ?_⟩
  have := hp.rest
  simp only [List.append_assoc, List.singleton_append] at this ⊢
  exact this

/-! ### the measure

  `dS y`: what a traveler `y` leaving the stage still costs behind it (0 when the client reads it). -/

def aggInCost {α : Type} (sig : α → Bool) (k : Nat) (dS : α → Nat) (x : α) : Nat :=
  1 + (if sig x then 1 + dS x else 2 * k)

/-- an item still at the source: sent, taken by the feeder, then passed on (a signal) or sent into
    and read from each of the `k` channels -/
def aggTodoCost {α : Type} (sig : α → Bool) (k : Nat) (dS : α → Nat) (x : α) : Nat :=
  1 + aggInCost sig k dS x

def aggFhCost {α : Type} (k : Nat) (dS : α → Nat) : FH α → Nat
  | .idle => 0
  | .sig t => 1 + dS t
  | .fan _ i => 2 * (k - i)

/-- a worker that is still reading will, in the end, emit `g F` -/
def wkCost {α : Type} (dS : α → Nat) (F : List α) (w : Wk α) : Nat :=
  match w.ph with
  | .reading => w.buf.length + sumMap (fun y => 1 + dS y) (w.g F) + 2
  | .emitting => sumMap (fun y => 1 + dS y) w.hand + 1
  | .stopped => 0

def aggW {α : Type} (sig : α → Bool) (dS : α → Nat) (F : List α) (a : AggS α) : Nat :=
  sumMap (aggInCost sig a.ws.length dS) a.inbuf + aggFhCost a.ws.length dS a.fh
  + (if a.fedClosed then 0 else 1) + sumMap (wkCost dS F) a.ws + (if a.done then 0 else 1)

theorem wkCost_step {α : Type} {dS : α → Nat} {F : List α} {w w' : Wk α} {act : Act α} (h : WkStep w act w')
    (hseen : w.ph = .reading → w.buf = [] → w.chClosed = true → w.seen = F) :
    wkCost dS F w' + actCost dS act < wkCost dS F w := by
  cases h with
  | read hp hb => simp [wkCost, hp, hb, actCost]
  | compute hp hb hc => simp [wkCost, hp, hb, hseen hp hb hc, actCost]
  | emit hp hh => simp [wkCost, hp, hh, actCost, sumMap]; omega
  | stop hp hh => simp [wkCost, hp, actCost]

theorem aggW_work {α : Type} {sig : α → Bool} {dS : α → Nat} {F : List α} {a : AggS α} {l r : List (Wk α)}
    {w w' : Wk α} {c : Nat} (hws : a.ws = l ++ w :: r) (h : wkCost dS F w' + c < wkCost dS F w) :
    aggW sig dS F { a with ws := l ++ w' :: r } + c < aggW sig dS F a := by
  have hlen : (l ++ w' :: r).length = a.ws.length := by rw [hws]; simp
  have hC := sumMap_replace (wkCost dS F) l r w w'
  simp only [aggW, hlen]
  rw [hws] at *
  omega

theorem pro_seen {α : Type} {sig : α → Bool} {F todo D : List α} {a : AggS α} {w : Wk α}
    (hi : AggInv a) (hp : AggPro sig F todo a D) (htodo : a.fedClosed = true → todo = [])
    (hw : w ∈ a.ws) (hb : w.buf = []) (hc : w.chClosed = true) : w.seen = F := by
  have hf : a.fedClosed = true := by rw [← (hi.wk w hw).2.1]; exact hc
  obtain ⟨hfh, hin, _⟩ := hi.fed hf
  have keys := hp.keys
  have rest := hp.rest
  rw [hfh] at keys rest
  rw [hin, htodo hf] at rest
  simp [pendT, nonsig] at rest
  simp only [pendI, pendT, List.replicate_zero, List.nil_append, Nat.sub_zero] at keys
  have hmem : wkKey w ∈ a.ws.map wkKey := List.mem_map_of_mem hw
  rw [keys] at hmem
  have := List.eq_of_mem_replicate hmem
  simp only [wkKey, hb, List.append_nil] at this
  rw [this, rest]

theorem sumMap_closeAll {α : Type} (dS : α → Nat) (F : List α) (ws : List (Wk α)) :
    sumMap (wkCost dS F) (closeAll ws) = sumMap (wkCost dS F) ws := by
  induction ws with
  | nil => rfl
  | cons w ws ih =>
    simp only [closeAll, List.map_cons, sumMap] at ih ⊢
    rw [ih]
    rfl

theorem aggW_tau {α : Type} {sig : α → Bool} {dS : α → Nat} {F todo D : List α} {a a' : AggS α}
    (hi : AggInv a) (hp : AggPro sig F todo a D) (htodo : a.fedClosed = true → todo = [])
    (h : AggTau sig a a') : aggW sig dS F a' < aggW sig dS F a := by
  cases h with
  | @take t ts hfh hb =>
    by_cases hs : sig t = true
    · simp [aggW, hfh, hb, hs, sumMap, aggInCost, aggFhCost]
      omega
    · simp [aggW, hfh, hb, hs, sumMap, aggInCost, aggFhCost]
      omega
  | @push t i l r w hfh hws hl hroom =>
    obtain ⟨hf, _⟩ := agg_feeding hi (Or.inl (by rw [hfh]; simp))
    have hwi := hi.wk w (by rw [hws]; exact mem_mid l r w)
    have hph : w.ph = .reading := by
      apply Classical.byContradiction
      intro hne
      have := (hwi.2.2 hne).1
      rw [hwi.2.1, hf] at this
      cases this
    have hlen : (l ++ { w with buf := w.buf ++ [t] } :: r).length = a.ws.length := by rw [hws]; simp
    have hk : a.ws.length = i + (r.length + 1) := by rw [hws]; simp [hl]
    have hC := sumMap_replace (wkCost dS F) l r w { w with buf := w.buf ++ [t] }
    have hcost : wkCost dS F { w with buf := w.buf ++ [t] } = wkCost dS F w + 1 := by
      simp [wkCost, hph]; omega
    simp only [aggW, hlen, hfh]
    rw [hws] at *
    by_cases hr : r = []
    · subst hr
      simp [aggFhCost] at *
      omega
    · have : 0 < r.length := List.length_pos_iff.mpr hr
      simp [hr, aggFhCost] at *
      omega
  | @closeFeed hfh hb hc hf =>
    have hlen : (closeAll a.ws).length = a.ws.length := by simp [closeAll]
    simp [aggW, hlen, hf, sumMap_closeAll]
  | @work l r w w' hws h =>
    have hw : w ∈ a.ws := by rw [hws]; exact mem_mid l r w
    have := aggW_work (sig := sig) hws (wkCost_step (dS := dS) h (fun _ hb hc => pro_seen hi hp htodo hw hb hc))
    simpa [actCost] using this

theorem aggW_out {α : Type} {sig : α → Bool} {dS : α → Nat} {F : List α} {a a' : AggS α} {y : α}
    (h : AggOut a y a') : aggW sig dS F a' + dS y < aggW sig dS F a := by
  cases h with
  | @sigOut hfh => simp only [aggW, hfh, aggFhCost]; omega
  | @work l r w w' hws h =>
    have hs : w.ph = .reading → w.buf = [] → w.chClosed = true → w.seen = F := by
      intro hp _ _
      cases h with
      | emit hp' _ => rw [hp'] at hp; cases hp
    have := aggW_work (sig := sig) hws (wkCost_step (dS := dS) h hs)
    simpa [actCost] using this

theorem aggW_fin {α : Type} {sig : α → Bool} {dS : α → Nat} {F : List α} {a a' : AggS α}
    (h : AggFin a a') : aggW sig dS F a' < aggW sig dS F a := by
  cases h with
  | mk _ _ hd => simp [aggW, hd]

theorem aggW_put {α : Type} (sig : α → Bool) (dS : α → Nat) (F : List α) (a : AggS α) (t : α) :
    aggW sig dS F { a with inbuf := a.inbuf ++ [t] } = aggW sig dS F a + aggInCost sig a.ws.length dS t := by
  simp only [aggW, sumMap_append, sumMap]
  omega

/-! ### the closed system: source, aggregate stage, client -/

def AggSysInv {α : Type} (cap : Nat) (hcap : 0 < cap) (sig : α → Bool) (F : List α)
    (s : SysS (aggC α cap sig)) : Prop :=
  SysInv (aggLaws α cap hcap sig) s ∧ ∃ D, AggPro sig F s.todo s.st D

def aggSysW {α : Type} {cap : Nat} (sig : α → Bool) (F : List α) (s : SysS (aggC α cap sig)) : Nat :=
  sumMap (aggTodoCost sig (AggS.ws s.st).length d0) s.todo + (if s.srcClosed then 0 else 1) + aggW sig d0 F s.st

theorem agg_len_tau {α : Type} {sig : α → Bool} {a a' : AggS α} (h : AggTau sig a a') :
    a'.ws.length = a.ws.length := by
  cases h with
  | take _ _ => rfl
  | push _ hws _ _ => rw [hws]; simp
  | closeFeed _ _ _ _ => simp [closeAll]
  | work hws _ => rw [hws]; simp

theorem agg_len_out {α : Type} {a a' : AggS α} {y : α} (h : AggOut a y a') :
    a'.ws.length = a.ws.length := by
  cases h with
  | sigOut _ => rfl
  | work hws _ => rw [hws]; simp

theorem aggsys_todo {α : Type} {cap : Nat} {hcap : 0 < cap} {sig : α → Bool} {s : SysS (aggC α cap sig)}
    (hi : SysInv (aggLaws α cap hcap sig) s) : AggS.fedClosed s.st = true → s.todo = [] := by
  intro hf
  obtain ⟨h1, h2, h3⟩ := hi
  have hinv : AggInv s.st := h1
  have hc : AggS.inClosed s.st = true := (hinv.fed hf).2.2
  have h2' : AggS.inClosed s.st = s.srcClosed := h2
  exact h3 (by rw [← h2']; exact hc)

theorem aggsys_inv_step {α : Type} {cap : Nat} {hcap : 0 < cap} {sig : α → Bool} {F : List α}
    {s s' : SysS (aggC α cap sig)} (hi : AggSysInv cap hcap sig F s) (h : SysStep (aggC α cap sig) s s') :
    AggSysInv cap hcap sig F s' := by
  obtain ⟨hs, D, hp⟩ := hi
  refine ⟨sys_inv_step _ hs h, ?_⟩
  cases h with
  | @feed t ts ht hr =>
    rw [ht] at hp
    exact ⟨D, pro_put hp⟩
  | shut ht hsc => exact ⟨D, hp.keys, hp.rest⟩
  | tau h => exact pro_tau hp h
  | out h => exact ⟨D, pro_out hp h⟩
  | fin h => exact ⟨D, pro_fin hp h⟩

theorem aggsys_dec {α : Type} {cap : Nat} {hcap : 0 < cap} {sig : α → Bool} {F : List α}
    {s s' : SysS (aggC α cap sig)} (hi : AggSysInv cap hcap sig F s) (h : SysStep (aggC α cap sig) s s') :
    aggSysW sig F s' < aggSysW sig F s := by
  obtain ⟨hs, D, hp⟩ := hi
  have hinv : AggInv s.st := hs.1
  have htodo := aggsys_todo hs
  cases h with
  | @feed t ts ht hr =>
    have := aggW_put sig d0 F s.st t
    simp only [aggSysW, ht, sumMap]
    show sumMap (aggTodoCost sig (AggS.ws s.st).length d0) ts + _ + aggW sig d0 F { s.st with inbuf := AggS.inbuf s.st ++ [t] } < _
    rw [this]
    simp only [aggTodoCost, aggInCost]
    omega
  | shut ht hsc =>
    simp only [aggSysW, hsc, ht, sumMap]
    show _ + _ + aggW sig d0 F { s.st with inClosed := true } < _
    simp [aggW]
  | @tau u h =>
    have := aggW_tau (dS := d0) hinv hp htodo h
    have hlen : (AggS.ws u).length = (AggS.ws s.st).length := agg_len_tau h
    simp only [aggSysW, hlen]
    omega
  | @out y u h =>
    have := aggW_out (sig := sig) (dS := d0) (F := F) h
    have hlen : (AggS.ws u).length = (AggS.ws s.st).length := agg_len_out h
    simp only [aggSysW, hlen]
    omega
  | @fin u h =>
    have := aggW_fin (sig := sig) (dS := d0) (F := F) h
    have hlen : (AggS.ws u).length = (AggS.ws s.st).length := by
      cases h with
      | mk _ _ _ => rfl
    simp only [aggSysW, hlen]
    omega

theorem aggsys_inv_init {α : Type} (cap : Nat) (hcap : 0 < cap) (sig : α → Bool) (input : List α)
    (aggs : List (Nat × (List α → List α))) (hne : aggs ≠ []) (hpos : ∀ a ∈ aggs, 0 < a.1) :
    AggSysInv cap hcap sig (nonsig sig input) (sysInit (aggC α cap sig) input (aggInit aggs)) := by
  refine ⟨sys_inv_init _ input _ (aggInv_init aggs hne hpos) rfl, [], ?_, ?_⟩
  · simp [sysInit, aggInit, pendI, pendT, wkKey, List.map_map, Function.comp_def]
    exact List.map_const' ..
  · simp [sysInit, aggInit, pendT]

end Grip.Props.C07.Lemmas
