/-
  Lemmas.C03Cor — lemmas for the corollaries: rejected elements, deletes of absent things,
  timestamps.
-/
import GripProofs.Lemmas.C03Lbl

namespace Grip.Props.C03
open Grip Grip.C03 Grip.C03.Spec Grip.Props.C03.Lemmas

/-- the validity test of the write API, per element -/
def validElem : ElemIn → Bool
  | .v x => validVertex x
  | .e x => validEdge x

/-- the graph an operation addresses -/
def opGraph : Op → String
  | .addGraph g => g
  | .delGraph g => g
  | .addV g _ => g
  | .addE g _ => g
  | .bulk g _ => g
  | .delV g _ => g
  | .delE g _ => g

/-- The operation is applied as a write to graph `g` (SPEC vocabulary): it created `g`, deleted
    `g`, accepted at least one element for the existing graph `g`, deleted a vertex on the existing
    graph `g`, or deleted an existing edge of `g`. -/
def Wrote (a : AG) : Op → String → Prop
  | .addGraph g0, g => g = g0 ∧ validName g0 = true
  | .delGraph g0, g => g = g0
  | .addV g0 vs, g => g = g0 ∧ g0 ∈ a.graphs ∧ (vs.map ElemIn.v).any validElem = true
  | .addE g0 es, g => g = g0 ∧ g0 ∈ a.graphs ∧ (es.map ElemIn.e).any validElem = true
  | .bulk g0 xs, g => g = g0 ∧ g0 ∈ a.graphs ∧ xs.any validElem = true
  | .delV g0 _, g => g = g0 ∧ g0 ∈ a.graphs
  | .delE g0 eid, g => g = g0 ∧ g0 ∈ a.graphs ∧ (a.getE g0 eid).isSome = true

namespace Lemmas

/-! ### rejected elements -/

theorem insertElem_snd (f : List String) (m : KV) (g : String) (x : ElemIn) :
    (insertElem f m g x).2 = validElem x := by
  cases x with
  | v x => simp only [insertElem, insertVertex, validElem]; split <;> simp_all
  | e x => simp only [insertElem, insertEdge, validElem]; split <;> simp_all

theorem putElem_snd (a : AG) (g : String) (x : ElemIn) : (putElem a g x).2 = validElem x := by
  cases x with
  | v x => simp only [putElem, validElem]; split <;> simp_all
  | e x => simp only [putElem, validElem]; split <;> simp_all

theorem insertElem_invalid (f : List String) (m : KV) (g : String) (x : ElemIn)
    (h : validElem x = false) : insertElem f m g x = (m, false) := by
  cases x with
  | v x => simp only [validElem] at h; simp [insertElem, insertVertex, h]
  | e x => simp only [validElem] at h; simp [insertElem, insertEdge, h]

theorem insertAll_all_invalid (f : List String) (g : String) (xs : List ElemIn) (m : KV)
    (h : ∀ x, x ∈ xs → validElem x = false) : insertAll f g m xs = (m, false, !xs.isEmpty) := by
  induction xs with
  | nil => rfl
  | cons x xs ih =>
    simp only [insertAll, insertElem_invalid f m g x (h x List.mem_cons_self),
      ih (fun y hy => h y (List.mem_cons_of_mem _ hy))]
    simp

theorem addElems_all_invalid (s : KState) (g : String) (xs : List ElemIn) (hne : xs ≠ [])
    (h : ∀ x, x ∈ xs → validElem x = false) : C03.addElems s g xs = (s, .err) := by
  unfold C03.addElems
  by_cases hg : hasGraph s g = true
  · simp only [hg, Bool.not_true, Bool.false_eq_true, ↓reduceIte, insertAll_all_invalid s.fields g xs s.kv h]
    cases xs with
    | nil => exact absurd rfl hne
    | cons _ _ => rfl
  · simp [hg]

theorem insertAll_anyOk (f : List String) (g : String) (xs : List ElemIn) :
    ∀ m : KV, (insertAll f g m xs).2.1 = xs.any validElem := by
  induction xs with
  | nil => intro m; rfl
  | cons x xs ih => intro m; simp only [insertAll, List.any_cons, ih, insertElem_snd]

theorem putAll_anyOk (g : String) (xs : List ElemIn) :
    ∀ a : AG, (putAll g a xs).2.1 = xs.any validElem := by
  induction xs with
  | nil => intro a; rfl
  | cons x xs ih => intro a; simp only [putAll, List.any_cons, ih, putElem_snd]

/-! ### timestamps -/

theorem addElems_stamps {s : KState} {a : AG} (h : Refines s a) (g : String) (xs : List ElemIn) :
    (C03.addElems s g xs).1.stamps = (Spec.addElems a g xs).1.stamps ∧
    (C03.addElems s g xs).1.clock = (Spec.addElems a g xs).1.clock := by
  unfold C03.addElems Spec.addElems
  rw [hasGraph_iff h]
  cases hgc : a.graphs.contains g with
  | false => simp [h.stamps, h.clock]
  | true =>
    simp only [Bool.not_true, Bool.false_eq_true, ↓reduceIte]
    rw [insertAll_anyOk, putAll_anyOk]
    have hs := putAll_stamps g xs a
    cases xs.any validElem with
    | false => simp [hs.1, hs.2, h.stamps, h.clock]
    | true => simp [KState.touch, AG.touch, hs.1, hs.2, h.stamps, h.clock]

/-- The timestamps of MODEL and SPEC move together, for every operation (no side condition). -/
theorem step_stamps {s : KState} {a : AG} (h : Refines s a) (op : Op) :
    (step s op).1.stamps = (specStep a op).1.stamps ∧ (step s op).1.clock = (specStep a op).1.clock := by
  cases op with
  | addGraph g =>
    unfold step specStep
    by_cases hv : validName g = true
    · -- the sweep leaves stamps and clock alone
      have hs : (if hasGraph s g = true then s else sweepGraph s g).stamps = s.stamps := by
        split <;> rfl
      have hc : (if hasGraph s g = true then s else sweepGraph s g).clock = s.clock := by
        split <;> rfl
      simp [hv, KState.touch, AG.touch, hs, hc, h.stamps, h.clock]
    · simp only [Bool.not_eq_true] at hv; simp [hv, h.stamps, h.clock]
  | delGraph g =>
    rw [step_delGraph]; unfold specStep
    simp [KState.touch, AG.touch, h.stamps, h.clock]
  | addV g vs => exact addElems_stamps h g _
  | addE g es => exact addElems_stamps h g _
  | bulk g xs => exact addElems_stamps h g xs
  | delV g id =>
    rw [step_delV, specStep_delV, hasGraph_iff h]
    cases a.graphs.contains g <;> simp [KState.touch, AG.touch, h.stamps, h.clock]
  | delE g eid =>
    rw [step_delE, specStep_delE, hasGraph_iff h, edgeRecords_eq h.inv]
    cases a.graphs.contains g with
    | false => simp [h.stamps, h.clock]
    | true =>
      cases a.getE g eid with
      | none => simp [lastByBytes, h.stamps, h.clock]
      | some r => simp [lastByBytes_singleton, KState.touch, AG.touch, h.stamps, h.clock]

theorem stamp_of_stamps_eq {a b : AG} (e : b.stamps = a.stamps) (g : String) : b.stamp g = a.stamp g := by
  simp [AG.stamp, e]

theorem stamp_touch_ne {a b : AG} (hle : ∀ p, p ∈ a.stamps → p.2 ≤ a.clock) (g0 : String)
    (e : b.stamps = (a.touch g0).stamps) (g : String) : b.stamp g ≠ a.stamp g ↔ g = g0 := by
  have hb : b.stamp g = if g = g0 then some (a.clock + 1) else a.stamp g := by
    simp only [AG.stamp, e, AG.touch, List.find?_cons]
    by_cases c : g = g0
    · subst c; simp
    · have c' : ¬ g0 = g := fun e => c e.symm
      simp only [c', decide_false, c, ↓reduceIte]
      rw [List.find?_filter]
      congr 2; funext p
      by_cases c2 : p.1 = g
      · simp [c2, c]
      · simp [c2]
  rw [hb]
  by_cases c : g = g0
  · simp only [c, ↓reduceIte, ne_eq, iff_true]
    intro e2
    simp only [AG.stamp] at e2
    cases hf : a.stamps.find? (fun p => p.1 = g0) with
    | none => simp [hf] at e2
    | some p =>
      simp only [hf, Option.map_some, Option.some.injEq] at e2
      have := hle p (List.mem_of_find?_eq_some hf)
      omega
  · simp [c]

/-- SPEC: the timestamp of `g` changes exactly when the operation is a write to `g`. -/
theorem spec_stamp_iff {a : AG} (hle : ∀ p, p ∈ a.stamps → p.2 ≤ a.clock) (op : Op) (g : String) :
    (specStep a op).1.stamp g ≠ a.stamp g ↔ Wrote a op g := by
  have addE : ∀ g0 xs, (Spec.addElems a g0 xs).1.stamp g ≠ a.stamp g ↔
      (g = g0 ∧ g0 ∈ a.graphs ∧ xs.any validElem = true) := by
    intro g0 xs
    unfold Spec.addElems
    by_cases hg : g0 ∈ a.graphs
    · have hg2 : a.graphs.contains g0 = true := by simpa using hg
      simp only [hg2, Bool.not_true, Bool.false_eq_true, ↓reduceIte, putAll_anyOk]
      have hs := putAll_stamps g0 xs a
      cases xs.any validElem with
      | false =>
        simp only [Bool.false_eq_true, ↓reduceIte, and_false, iff_false, ne_eq]
        exact fun hn => hn (stamp_of_stamps_eq hs.1 g)
      | true =>
        simp only [↓reduceIte, hg, and_self, and_true]
        apply stamp_touch_ne hle g0
        simp [AG.touch, hs.1, hs.2]
    · have hg2 : a.graphs.contains g0 = false := by simpa using hg
      simp [hg]
  cases op with
  | addGraph g0 =>
    unfold specStep Wrote
    by_cases hv : validName g0 = true
    · simp only [hv, Bool.not_true, Bool.false_eq_true, ↓reduceIte, and_true]
      exact stamp_touch_ne hle g0 rfl g
    · simp only [Bool.not_eq_true] at hv; simp [hv]
  | delGraph g0 =>
    unfold specStep Wrote
    exact stamp_touch_ne hle g0 rfl g
  | addV g0 vs => exact addE g0 _
  | addE g0 es => exact addE g0 _
  | bulk g0 xs => exact addE g0 xs
  | delV g0 id =>
    rw [specStep_delV]; unfold Wrote
    by_cases hg : g0 ∈ a.graphs
    · have hg2 : a.graphs.contains g0 = true := by simpa using hg
      simp only [hg2, Bool.not_true, Bool.false_eq_true, ↓reduceIte, hg, and_true]
      exact stamp_touch_ne hle g0 rfl g
    · have hg2 : a.graphs.contains g0 = false := by simpa using hg
      simp [hg]
  | delE g0 eid =>
    rw [specStep_delE]; unfold Wrote
    by_cases hg : g0 ∈ a.graphs
    · have hg2 : a.graphs.contains g0 = true := by simpa using hg
      simp only [hg2, Bool.not_true, Bool.false_eq_true, ↓reduceIte, hg, true_and]
      cases a.getE g0 eid with
      | none => simp
      | some r =>
        simp only [Option.isSome_some, and_true]
        exact stamp_touch_ne hle g0 rfl g
    · have hg2 : a.graphs.contains g0 = false := by simpa using hg
      simp [hg]

/-! ### deletes of absent things -/

theorem delE_absent {s : KState} {a : AG} (h : Refines s a) (g eid : String)
    (hr : a.getE g eid = none) : step s (.delE g eid) = (s, .err) ∧ specStep a (.delE g eid) = (a, .err) := by
  rw [step_delE, specStep_delE, edgeRecords_eq h.inv, hr]
  constructor
  · cases hasGraph s g <;> simp [lastByBytes]
  · cases a.graphs.contains g <;> simp

theorem delV_absent {s : KState} {a : AG} (h : Refines s a) (g id : String)
    (hg : g ∈ a.graphs)
    (hv : a.getV g id = none)
    (he : ∀ eid r, a.getE g eid = some r → r.frm ≠ id ∧ r.to ≠ id) :
    (step s (.delV g id)).1.kv = s.kv ∧
    (specStep a (.delV g id)).1.graphs = a.graphs ∧
    (specStep a (.delV g id)).1.verts = a.verts ∧
    (specStep a (.delV g id)).1.edges = a.edges := by
  have hg2 : a.graphs.contains g = true := by simpa using hg
  rw [step_delV, specStep_delV, hasGraph_iff h, hg2]
  simp only [Bool.not_true, Bool.false_eq_true, ↓reduceIte]
  refine ⟨?_, rfl, ?_, ?_⟩
  · have ho : outKeys s.kv g id = [] := by
      unfold outKeys
      rw [List.filterMap_eq_nil_iff]
      rintro ⟨k, v⟩ hp
      cases k <;> simp only
      rename_i g' sid did eid l
      split
      · rename_i c
        obtain ⟨rfl, rfl⟩ := c
        obtain ⟨data, h1, _, _⟩ := src_mem h.inv hp
        exact absurd rfl (he eid _ h1).1
      · rfl
    have hi : inKeys s.kv g id = [] := by
      unfold inKeys
      rw [List.filterMap_eq_nil_iff]
      rintro ⟨k, v⟩ hp
      cases k <;> simp only
      rename_i g' did sid eid l
      split
      · rename_i c
        obtain ⟨rfl, rfl⟩ := c
        obtain ⟨data, h1, _, _⟩ := dst_mem h.inv hp
        exact absurd rfl (he eid _ h1).2
      · rfl
    have hd : s.kv.del (.vertex g id) = s.kv := by
      apply KV.del_eq_self
      rw [h.inv.vertex, hv]; rfl
    simp [KState.touch, ho, hi, hd]
  · show a.verts.filter _ = a.verts
    rw [List.filter_eq_self]
    rintro ⟨⟨g', id'⟩, r⟩ hp
    have := alGet_of_mem h.inv.vnodup hp
    simp only [decide_eq_true_eq]
    intro e
    simp only [Prod.mk.injEq] at e
    obtain ⟨rfl, rfl⟩ := e
    rw [← AG.getV_eq, hv] at this; simp at this
  · show a.edges.filter _ = a.edges
    rw [List.filter_eq_self]
    rintro ⟨⟨g', eid⟩, r⟩ hp
    have := alGet_of_mem h.inv.enodup hp
    simp only [decide_eq_true_eq]
    rintro ⟨rfl, c⟩
    rw [← AG.getE_eq] at this
    have := he eid r this
    rcases c with c | c
    · exact this.1 c
    · exact this.2 c

end Lemmas
end Grip.Props.C03
