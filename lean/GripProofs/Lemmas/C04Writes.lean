/-
  step_eq_writes: applying the whole write list of an op gives the persisted map of C03's `step`.
-/
import GripProofs.Lemmas.C04KV

namespace Grip.Props.C04.Lemmas
open Grip.C03 Grip.C04

theorem test_edges (g : String) : Pat.test (.edges g) = (fun k => match k with | .edge g' _ _ _ _ => decide (g' = g) | _ => false) := by
  funext k; cases k <;> rfl
theorem test_verts (g : String) : Pat.test (.verts g) = (fun k => match k with | .vertex g' _ => decide (g' = g) | _ => false) := by
  funext k; cases k <;> rfl
theorem test_srcs (g : String) : Pat.test (.srcs g) = (fun k => match k with | .src g' _ _ _ _ => decide (g' = g) | _ => false) := by
  funext k; cases k <;> rfl
theorem test_dsts (g : String) : Pat.test (.dsts g) = (fun k => match k with | .dst g' _ _ _ _ => decide (g' = g) | _ => false) := by
  funext k; cases k <;> rfl
theorem test_terms (f : String) : Pat.test (.terms f) = (fun k => match k with | .term f' _ => decide (f' = f) | _ => false) := by
  funext k; cases k <;> rfl
theorem test_entries (f : String) : Pat.test (.entries f) = (fun k => match k with | .entry f' _ _ => decide (f' = f) | _ => false) := by
  funext k; cases k <;> rfl

theorem del_delWhere_comm (m : KV) (k : SKey) (p : SKey → Bool) :
    (m.del k).delWhere p = (m.delWhere p).del k := by
  unfold KV.del KV.delWhere
  rw [List.filter_filter, List.filter_filter]
  congr 1; funext q; exact Bool.and_comm _ _

/-- Filtering that keeps every field key does not change the persisted field list. -/
theorem persistedFields_filter (m : KV) (q : SKey × Val → Bool)
    (hq : ∀ p : SKey × Val, ∀ f, p.1 = .field f → q p = true) :
    persistedFields (m.filter q) = persistedFields m := by
  unfold persistedFields
  induction m with
  | nil => rfl
  | cons p m ih =>
    rw [List.filter_cons]
    by_cases hqp : q p = true
    · rw [if_pos hqp, List.filterMap_cons, List.filterMap_cons, ih]
    · rw [if_neg hqp, ih, List.filterMap_cons]
      cases hk : p.1 with
      | field f => exact absurd (hq p f hk) hqp
      | _ => simp

theorem persistedFields_delWhere (m : KV) (p : SKey → Bool) (hp : ∀ f, p (.field f) = false) :
    persistedFields (m.delWhere p) = persistedFields m := by
  unfold KV.delWhere
  apply persistedFields_filter
  intro q f hq; simp [hq, hp]

theorem persistedFields_del (m : KV) (k : SKey) (hk : ∀ f, k ≠ .field f) :
    persistedFields (m.del k) = persistedFields m := by
  unfold KV.del
  apply persistedFields_filter
  intro q f hq
  have : ¬ q.1 = k := by rw [hq]; exact fun e => hk f e.symm
  simp [this]

theorem applyAll_append (a b : List AW) (m : KV) : applyAll (a ++ b) m = applyAll b (applyAll a m) := by
  unfold applyAll; rw [List.foldl_append]

theorem applyAll_removeFields (fs : List String) (m : KV) :
    applyAll (fs.flatMap removeFieldW) m =
      fs.foldl (fun m f =>
        ((m.delWhere (fun k => match k with | .term f' _ => decide (f' = f) | _ => false)).delWhere
          (fun k => match k with | .entry f' _ _ => decide (f' = f) | _ => false)).del (.field f)) m := by
  induction fs generalizing m with
  | nil => rfl
  | cons f fs ih =>
    rw [List.flatMap_cons, applyAll_append, ih, List.foldl_cons]
    congr 1
    simp only [removeFieldW, applyAll, List.foldl_cons, List.foldl_nil, AW.apply, test_terms, test_entries]

/-- The sweep shared by DeleteGraph (after the graph key) and AddGraph of an unlisted name. -/
theorem sweepW_kv (s : KState) (g : String) : applyAll (sweepW s.kv g) s.kv = (sweepGraph s g).kv := by
  unfold sweepW sweepGraph
  rw [applyAll_append, applyAll_removeFields]
  simp only [applyAll, List.foldl_cons, List.foldl_nil, AW.apply, test_edges, test_verts, test_srcs, test_dsts]
  congr 1
  unfold graphFields
  congr 1
  symm
  change persistedFields (KV.delWhere _ _) = persistedFields s.kv
  repeat rw [persistedFields_delWhere _ _ (by intro f; rfl)]

theorem sweepGraph_fields (s : KState) (g : String) :
    (sweepGraph s g).fields = s.fields.filter (fun f => !(graphFields s.kv g).contains f) := by
  have e : graphFields s.kv g = List.filter (fun f => decide (fieldGraph f = g))
      (persistedFields ((((s.kv.delWhere (Pat.test (.edges g))).delWhere (Pat.test (.verts g))).delWhere
        (Pat.test (.srcs g))).delWhere (Pat.test (.dsts g)))) := by
    unfold graphFields
    repeat rw [persistedFields_delWhere _ _ (by intro f; rfl)]
  rw [e]
  simp only [test_edges, test_verts, test_srcs, test_dsts]
  rfl

theorem writes_delGraph (s : KState) (g : String) :
    writes s (.delGraph g) = [AW.del (.graph g), .delPat (.edges g), .delPat (.verts g), .delPat (.srcs g), .delPat (.dsts g)]
      ++ (graphFields s.kv g).flatMap removeFieldW := rfl

theorem step_eq_writes (s : KState) (op : Op) : applyAll (writes s op) s.kv = (step s op).1.kv := by
  cases op with
  | addGraph g =>
    unfold writes step
    by_cases h : validName g = true
    · by_cases hg : hasGraph s g = true
      · simp [h, hg, applyAll, AW.apply, KState.touch]
      · simp only [h, hg, Bool.not_true, Bool.false_eq_true, if_false, applyAll_append, sweepW_kv]
        simp [applyAll, AW.apply, KState.touch]
    · simp [h, applyAll]
  | delGraph g =>
    rw [writes_delGraph]
    unfold step
    rw [applyAll_append, applyAll_removeFields]
    simp only [applyAll, List.foldl_cons, List.foldl_nil, AW.apply, test_edges, test_verts, test_srcs, test_dsts,
      KState.touch, del_delWhere_comm]
    congr 1
    unfold graphFields
    congr 1
    symm
    change persistedFields (KV.del _ _) = persistedFields s.kv
    rw [persistedFields_del _ _ (by intro f; simp)]
    repeat rw [persistedFields_delWhere _ _ (by intro f; rfl)]
  | addV g vs =>
    unfold writes step addW addElems
    by_cases h : hasGraph s g = true
    · simp only [h, Bool.not_true, Bool.false_eq_true, if_false, applyAll, List.foldl_cons, List.foldl_nil, AW.apply]
      split <;> simp [KState.touch]
    · simp [h, applyAll]
  | addE g es =>
    unfold writes step addW addElems
    by_cases h : hasGraph s g = true
    · simp only [h, Bool.not_true, Bool.false_eq_true, if_false, applyAll, List.foldl_cons, List.foldl_nil, AW.apply]
      split <;> simp [KState.touch]
    · simp [h, applyAll]
  | bulk g xs =>
    unfold writes step addW addElems
    by_cases h : hasGraph s g = true
    · simp only [h, Bool.not_true, Bool.false_eq_true, if_false, applyAll, List.foldl_cons, List.foldl_nil, AW.apply]
      split <;> simp [KState.touch]
    · simp [h, applyAll]
  | delV g id =>
    unfold writes step
    by_cases h : hasGraph s g = true
    · simp only [h, Bool.not_true, Bool.false_eq_true, if_false, applyAll, List.foldl_cons, List.foldl_nil,
        AW.apply, delKeys, delVKeys, KState.touch]
      rfl
    · simp [h, applyAll]
  | delE g eid =>
    unfold writes step
    by_cases h : hasGraph s g = true
    · simp only [h, Bool.not_true, Bool.false_eq_true, if_false]
      cases hl : lastByBytes (edgeRecords s.kv g eid) with
      | none => simp [applyAll]
      | some p =>
        obtain ⟨k, v⟩ := p
        cases k <;> simp [applyAll, AW.apply, delKeys, KState.touch]
    · simp [h, applyAll]

end Grip.Props.C04.Lemmas
