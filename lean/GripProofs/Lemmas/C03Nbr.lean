/-
  Lemmas.C03Nbr — neighbours and incident edges: the adjacency keys of the MODEL list exactly
  the edges of the abstract graph (as a permutation), in both directions.
-/
import GripProofs.Lemmas.C03Obs

namespace Grip.Props.C03.Lemmas
open Grip Grip.C03 Grip.Props.C03
open Grip.C03.Spec (AG VRec ERec)

theorem filterMap_congr' {α γ : Type} {l : List α} {f g : α → Option γ}
    (h : ∀ x, x ∈ l → f x = g x) : l.filterMap f = l.filterMap g := by
  induction l with
  | nil => rfl
  | cons x l ih =>
    rw [List.filterMap_cons, List.filterMap_cons, h x List.mem_cons_self,
      ih (fun y hy => h y (List.mem_cons_of_mem _ hy))]

variable {m : KV} {f : List String} {a : AG}

/-- the record GetOutEdgeChannel / GetInEdgeChannel produce for one adjacency entry -/
def edgeOr (m : KV) (g eid s d l : String) : EOut :=
  match m.get (.edge g eid s d l) with
  | some (.edge data) => ⟨eid, l, s, d, data⟩
  | _ => ⟨"", "", "", "", .obj []⟩

/-- all src entries of graph `g`, as edges -/
def srcList (m : KV) (g : String) : List EOut :=
  m.filterMap (fun p => match p.1 with
    | .src g' s d eid l => if g' = g then some (edgeOr m g eid s d l) else none
    | _ => none)

/-- all dst entries of graph `g`, as edges -/
def dstList (m : KV) (g : String) : List EOut :=
  m.filterMap (fun p => match p.1 with
    | .dst g' d s eid l => if g' = g then some (edgeOr m g eid s d l) else none
    | _ => none)

theorem src_mem (h : Inv m f a) {g s d eid l : String} {v : Val} (hp : (SKey.src g s d eid l, v) ∈ m) :
    ∃ data, a.getE g eid = some ⟨s, d, l, data⟩ ∧ edgeOr m g eid s d l = ⟨eid, l, s, d, data⟩ ∧ v = .unit := by
  have hg := (KV.mem_iff_get h.nodup _ _).1 hp
  rw [h.src] at hg
  cases hd : edgeAt a g eid s d l with
  | none => simp [hd] at hg
  | some data =>
    simp only [hd, Option.map_some, Option.some.injEq] at hg
    have he : m.get (.edge g eid s d l) = some (.edge data) := by rw [h.edge, hd]; rfl
    exact ⟨data, edgeAt_some_iff.1 hd, by simp [edgeOr, he], hg.symm⟩

theorem dst_mem (h : Inv m f a) {g s d eid l : String} {v : Val} (hp : (SKey.dst g d s eid l, v) ∈ m) :
    ∃ data, a.getE g eid = some ⟨s, d, l, data⟩ ∧ edgeOr m g eid s d l = ⟨eid, l, s, d, data⟩ ∧ v = .unit := by
  have hg := (KV.mem_iff_get h.nodup _ _).1 hp
  rw [h.dst] at hg
  cases hd : edgeAt a g eid s d l with
  | none => simp [hd] at hg
  | some data =>
    simp only [hd, Option.map_some, Option.some.injEq] at hg
    have he : m.get (.edge g eid s d l) = some (.edge data) := by rw [h.edge, hd]; rfl
    exact ⟨data, edgeAt_some_iff.1 hd, by simp [edgeOr, he], hg.symm⟩

theorem srcList_mem (h : Inv m f a) (g : String) (z : EOut) :
    z ∈ srcList m g ↔ a.getE g z.gid = some ⟨z.frm, z.to, z.label, z.data⟩ := by
  unfold srcList
  rw [List.mem_filterMap]
  constructor
  · rintro ⟨⟨k, v⟩, hp, hz⟩
    cases k <;> simp at hz
    rename_i g' s d eid l
    obtain ⟨rfl, hz⟩ := hz
    obtain ⟨data, h1, h2, _⟩ := src_mem h hp
    rw [h2] at hz; subst hz; exact h1
  · intro hr
    obtain ⟨zi, zl, zf, zt, zd⟩ := z
    have hs : m.get (.src g zf zt zi zl) = some .unit := by
      rw [h.src, edgeAt_some_iff.2 hr]; rfl
    have hp := (KV.mem_iff_get h.nodup _ _).2 hs
    obtain ⟨data, h1, h2, _⟩ := src_mem h hp
    refine ⟨_, hp, ?_⟩
    simp only [↓reduceIte, h2]
    simp only at hr
    rw [hr] at h1; simp at h1; simp [h1]

theorem srcList_nodup (h : Inv m f a) (g : String) : (srcList m g).Nodup := by
  unfold srcList
  apply nodup_filterMap _ h.nodup.nodup
  rintro ⟨k1, v1⟩ hp1 ⟨k2, v2⟩ hp2 z h1 h2
  cases k1 <;> simp at h1
  cases k2 <;> simp at h2
  obtain ⟨rfl, h1⟩ := h1
  obtain ⟨rfl, h2⟩ := h2
  obtain ⟨data1, _, e1, rfl⟩ := src_mem h hp1
  obtain ⟨data2, _, e2, rfl⟩ := src_mem h hp2
  rw [e1] at h1; rw [e2] at h2
  subst h1
  simp at h2
  obtain ⟨rfl, rfl, rfl, rfl, rfl⟩ := h2
  rfl

theorem srcList_perm (h : Inv m f a) (g : String) : (srcList m g).Perm (Spec.edgeList a g) :=
  perm_of_nodup_mem_iff (srcList_nodup h g) (spec_edgeList_nodup h.enodup g)
    (fun z => by rw [srcList_mem h, spec_edgeList_mem h.enodup])

theorem dstList_mem (h : Inv m f a) (g : String) (z : EOut) :
    z ∈ dstList m g ↔ a.getE g z.gid = some ⟨z.frm, z.to, z.label, z.data⟩ := by
  unfold dstList
  rw [List.mem_filterMap]
  constructor
  · rintro ⟨⟨k, v⟩, hp, hz⟩
    cases k <;> simp at hz
    rename_i g' d s eid l
    obtain ⟨rfl, hz⟩ := hz
    obtain ⟨data, h1, h2, _⟩ := dst_mem h hp
    rw [h2] at hz; subst hz; exact h1
  · intro hr
    obtain ⟨zi, zl, zf, zt, zd⟩ := z
    have hs : m.get (.dst g zt zf zi zl) = some .unit := by
      rw [h.dst, edgeAt_some_iff.2 hr]; rfl
    have hp := (KV.mem_iff_get h.nodup _ _).2 hs
    obtain ⟨data, h1, h2, _⟩ := dst_mem h hp
    refine ⟨_, hp, ?_⟩
    simp only [↓reduceIte, h2]
    simp only at hr
    rw [hr] at h1; simp at h1; simp [h1]

theorem dstList_nodup (h : Inv m f a) (g : String) : (dstList m g).Nodup := by
  unfold dstList
  apply nodup_filterMap _ h.nodup.nodup
  rintro ⟨k1, v1⟩ hp1 ⟨k2, v2⟩ hp2 z h1 h2
  cases k1 <;> simp at h1
  cases k2 <;> simp at h2
  obtain ⟨rfl, h1⟩ := h1
  obtain ⟨rfl, h2⟩ := h2
  obtain ⟨data1, _, e1, rfl⟩ := dst_mem h hp1
  obtain ⟨data2, _, e2, rfl⟩ := dst_mem h hp2
  rw [e1] at h1; rw [e2] at h2
  subst h1
  simp at h2
  obtain ⟨rfl, rfl, rfl, rfl, rfl⟩ := h2
  rfl

theorem dstList_perm (h : Inv m f a) (g : String) : (dstList m g).Perm (Spec.edgeList a g) :=
  perm_of_nodup_mem_iff (dstList_nodup h g) (spec_edgeList_nodup h.enodup g)
    (fun z => by rw [dstList_mem h, spec_edgeList_mem h.enodup])

/-! ### the four traversal reads as functions of srcList / dstList -/

theorem outE_eq (h : Inv m f a) (g id : String) (labels : List String) :
    outE m g id labels = (srcList m g).filter (fun e => e.frm = id ∧ labelOk labels e.label) := by
  unfold outE srcList
  rw [List.filter_filterMap]
  apply filterMap_congr'
  rintro ⟨k, v⟩ hp
  cases k <;> simp
  rename_i g' s d eid l
  by_cases c : g' = g
  · subst c
    obtain ⟨data, _, h2, _⟩ := src_mem h hp
    have he : m.get (.edge g' eid s d l) = some (.edge data) := by
      unfold edgeOr at h2
      split at h2
      · rename_i d' hd; simp at h2; rw [hd, h2]
      · rename_i hno; exfalso
        cases hd : edgeAt a g' eid s d l with
        | none =>
          have := (KV.mem_iff_get h.nodup _ _).1 hp
          rw [h.src, hd] at this; simp at this
        | some d' => exact hno d' (by rw [h.edge, hd]; rfl)
    simp only [true_and, he, h2, Option.filter]
    by_cases c2 : s = id ∧ labelOk labels l = true <;> simp [c2]
  · simp [c]

theorem inE_eq (h : Inv m f a) (g id : String) (labels : List String) :
    inE m g id labels = (dstList m g).filter (fun e => e.to = id ∧ labelOk labels e.label) := by
  unfold inE dstList
  rw [List.filter_filterMap]
  apply filterMap_congr'
  rintro ⟨k, v⟩ hp
  cases k <;> simp
  rename_i g' d s eid l
  by_cases c : g' = g
  · subst c
    obtain ⟨data, _, h2, _⟩ := dst_mem h hp
    have he : m.get (.edge g' eid s d l) = some (.edge data) := by
      unfold edgeOr at h2
      split at h2
      · rename_i d' hd; simp at h2; rw [hd, h2]
      · rename_i hno; exfalso
        cases hd : edgeAt a g' eid s d l with
        | none =>
          have := (KV.mem_iff_get h.nodup _ _).1 hp
          rw [h.dst, hd] at this; simp at this
        | some d' => exact hno d' (by rw [h.edge, hd]; rfl)
    simp only [true_and, he, h2, Option.filter]
    by_cases c2 : d = id ∧ labelOk labels l = true <;> simp [c2]
  · simp [c]

theorem outV_eq (h : Inv m f a) (g id : String) (labels : List String) :
    outV m g id labels = (srcList m g).filterMap
      (fun e => if e.frm = id ∧ labelOk labels e.label then getVertex m g e.to else none) := by
  unfold outV srcList
  rw [List.filterMap_filterMap]
  apply filterMap_congr'
  rintro ⟨k, v⟩ hp
  cases k <;> simp
  rename_i g' s d eid l
  by_cases c : g' = g
  · subst c
    obtain ⟨data, _, h2, _⟩ := src_mem h hp
    simp [h2]
  · simp [c]

theorem inV_eq (h : Inv m f a) (g id : String) (labels : List String) :
    inV m g id labels = (dstList m g).filterMap
      (fun e => if e.to = id ∧ labelOk labels e.label then getVertex m g e.frm else none) := by
  unfold inV dstList
  rw [List.filterMap_filterMap]
  apply filterMap_congr'
  rintro ⟨k, v⟩ hp
  cases k <;> simp
  rename_i g' d s eid l
  by_cases c : g' = g
  · subst c
    obtain ⟨data, _, h2, _⟩ := dst_mem h hp
    simp [h2]
  · simp [c]

theorem outE_perm (h : Inv m f a) (g id : String) (labels : List String) :
    (outE m g id labels).Perm (Spec.outE a g id labels) := by
  rw [outE_eq h]; unfold Spec.outE
  exact (srcList_perm h g).filter _

theorem inE_perm (h : Inv m f a) (g id : String) (labels : List String) :
    (inE m g id labels).Perm (Spec.inE a g id labels) := by
  rw [inE_eq h]; unfold Spec.inE
  exact (dstList_perm h g).filter _

theorem outV_perm (h : Inv m f a) (g id : String) (labels : List String) :
    (outV m g id labels).Perm (Spec.outV a g id labels) := by
  rw [outV_eq h]; unfold Spec.outV
  have : (fun e : EOut => if e.frm = id ∧ labelOk labels e.label then getVertex m g e.to else none) =
      (fun e : EOut => if e.frm = id ∧ labelOk labels e.label then Spec.getVertex a g e.to else none) := by
    funext e; rw [getVertex_eq h]
  rw [this]
  exact (srcList_perm h g).filterMap _

theorem inV_perm (h : Inv m f a) (g id : String) (labels : List String) :
    (inV m g id labels).Perm (Spec.inV a g id labels) := by
  rw [inV_eq h]; unfold Spec.inV
  have : (fun e : EOut => if e.to = id ∧ labelOk labels e.label then getVertex m g e.frm else none) =
      (fun e : EOut => if e.to = id ∧ labelOk labels e.label then Spec.getVertex a g e.frm else none) := by
    funext e; rw [getVertex_eq h]
  rw [this]
  exact (dstList_perm h g).filterMap _

end Grip.Props.C03.Lemmas
