import Grip.Model.C19
import Grip.Spec.C19

/-
  C19 lemmas: the per-name channel map `aChans` and the filtering of the merged output by name.
-/
namespace Grip.Props.C19.Lemmas
open Grip Grip.C19

theorem getChan_setChan (n k : String) (q : List Elem) (m : Chans) :
    getChan (setChan n q m) k = if k = n then q else getChan m k := by
  induction m with
  | nil =>
    by_cases h : k = n
    · subst h; simp [setChan, getChan]
    · have h' : ¬ n = k := fun e => h e.symm
      simp [setChan, getChan, h, h']
  | cons p m ih =>
    obtain ⟨a, q'⟩ := p
    by_cases ha : a = n
    · subst ha
      by_cases hk : k = a
      · subst hk; simp [setChan, getChan]
      · simp [setChan, getChan, hk, Ne.symm hk]
    · by_cases hk : k = n
      · subst hk; simp [setChan, getChan, ha, ih]
      · by_cases hak : a = k
        · subst hak; simp [setChan, getChan, ha]
        · simp [setChan, getChan, ha, hk, hak, ih]

theorem getChan_send (m : Chans) (n k : String) (t : Elem) :
    getChan (send m n t) k = if k = n then getChan m n ++ [t] else getChan m k := by
  simp [send, getChan_setChan]

theorem getChan_mkChans_go (aggs : List Named) (m : Chans) (k : String) (h : getChan m k = []) :
    getChan (aggs.foldl (fun m a => setChan a.name [] m) m) k = [] := by
  induction aggs generalizing m with
  | nil => simpa
  | cons a as ih =>
    apply ih
    rw [getChan_setChan]
    split <;> simp [h]

theorem getChan_mkChans (aggs : List Named) (k : String) : getChan (mkChans aggs) k = [] :=
  getChan_mkChans_go aggs [] k rfl

theorem getChan_sendAll (aggs : List Named) (h : (aggs.map (·.name)).Nodup) (m : Chans) (t : Elem)
    (k : String) :
    getChan (aggs.foldl (fun m a => send m a.name t) m) k
      = if k ∈ aggs.map (·.name) then getChan m k ++ [t] else getChan m k := by
  induction aggs generalizing m with
  | nil => simp
  | cons a as ih =>
    simp only [List.map_cons, List.nodup_cons] at h
    simp only [List.foldl_cons, List.map_cons, List.mem_cons]
    rw [ih h.2, getChan_send]
    by_cases hk : k = a.name
    · subst hk
      simp [h.1]
    · simp [hk]

theorem getChan_broadcast_go (aggs : List Named) (h : (aggs.map (·.name)).Nodup) (ts : List Elem)
    (m : Chans) (k : String) :
    getChan (ts.foldl (fun m t => aggs.foldl (fun m a => send m a.name t) m) m) k
      = if k ∈ aggs.map (·.name) then getChan m k ++ ts else getChan m k := by
  induction ts generalizing m with
  | nil => simp
  | cons t ts ih =>
    simp only [List.foldl_cons]
    rw [ih, getChan_sendAll aggs h]
    by_cases hk : k ∈ aggs.map (·.name) <;> simp [hk]

/-- With unique names every aggregation's channel carries exactly the input, in order. -/
theorem getChan_broadcast (aggs : List Named) (h : (aggs.map (·.name)).Nodup) (ts : List Elem)
    (a : Named) (ha : a ∈ aggs) : getChan (broadcast aggs ts) a.name = ts := by
  have hk : a.name ∈ aggs.map (·.name) := List.mem_map.2 ⟨a, ha, rfl⟩
  simp [broadcast, getChan_broadcast_go aggs h, hk, getChan_mkChans]

theorem flatMap_congr' {α β : Type} (l : List α) (f g : α → List β) (h : ∀ a ∈ l, f a = g a) :
    l.flatMap f = l.flatMap g := by
  induction l with
  | nil => rfl
  | cons a l ih =>
    simp only [List.flatMap_cons]
    rw [h a (List.mem_cons_self ..), ih (fun b hb => h b (List.mem_cons_of_mem _ hb))]

theorem runOne_name (Q : List Int → Int → Int) (numOf : String → Option Int) (a : Named) (ts : List Elem) :
    ∀ r ∈ runOne Q numOf a ts, r.name = a.name := by
  intro r hr
  unfold runOne at hr
  cases hagg : a.agg <;> simp only [hagg] at hr <;> simp at hr
  all_goals first
    | (obtain ⟨_, _, _, rfl⟩ := hr; rfl)
    | (subst hr; rfl)

theorem rowsOf_all {n : String} (rs : List Row) (h : ∀ r ∈ rs, r.name = n) : rowsOf n rs = rs := by
  simp only [rowsOf]
  exact List.filter_eq_self.2 (fun r hr => by simp [h r hr])

theorem rowsOf_none {n : String} (rs : List Row) (h : ∀ r ∈ rs, r.name ≠ n) : rowsOf n rs = [] := by
  simp only [rowsOf]
  exact List.filter_eq_nil_iff.2 (fun r hr => by simp [h r hr])

theorem rowsOf_flatMap (Q : List Int → Int → Int) (numOf : String → Option Int) (ts : List Elem)
    (aggs : List Named) (h : (aggs.map (·.name)).Nodup) (a : Named) (ha : a ∈ aggs) :
    rowsOf a.name (aggs.flatMap fun b => runOne Q numOf b ts) = runOne Q numOf a ts := by
  induction aggs with
  | nil => cases ha
  | cons b bs ih =>
    simp only [List.map_cons, List.nodup_cons] at h
    have hsplit : rowsOf a.name ((b :: bs).flatMap fun b => runOne Q numOf b ts)
        = rowsOf a.name (runOne Q numOf b ts) ++ rowsOf a.name (bs.flatMap fun b => runOne Q numOf b ts) := by
      simp [rowsOf, List.flatMap_cons, List.filter_append]
    rw [hsplit]
    by_cases hn : b.name = a.name
    · -- then a = b: a cannot sit in the tail
      have hab : a = b := by
        rcases List.mem_cons.1 ha with e | hmem
        · exact e
        · exact absurd (List.mem_map.2 ⟨a, hmem, hn.symm⟩) h.1
      subst hab
      rw [rowsOf_all _ (runOne_name Q numOf a ts)]
      have : rowsOf a.name (bs.flatMap fun b => runOne Q numOf b ts) = [] := by
        apply rowsOf_none
        intro r hr
        obtain ⟨c, hc, hrc⟩ := List.mem_flatMap.1 hr
        rw [runOne_name Q numOf c ts r hrc]
        intro e
        exact h.1 (List.mem_map.2 ⟨c, hc, e⟩)
      rw [this, List.append_nil]
    · have hmem : a ∈ bs := by
        rcases List.mem_cons.1 ha with e | hmem
        · exact absurd (by rw [e]) hn
        · exact hmem
      rw [rowsOf_none _ (fun r hr => by rw [runOne_name Q numOf b ts r hr]; exact hn), List.nil_append]
      exact ih h.2 hmem

end Grip.Props.C19.Lemmas
