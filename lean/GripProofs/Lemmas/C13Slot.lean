/-
  Lemmas for C13 (slot discipline of the round-robin pool, Grip.Model.C13Slot):
    A. the merger loop in terms of heads / tails; number of passes; independence of the fuel
    B. the distributor loop = the closed form `Spec.deal` (item i goes to worker i mod w)
    C. structure lemmas for `deal` (one more item in front; one full block in front)
    D. the merger on these structures (rotation, blocks), the one-skip closed form
-/
import Grip.Model.C13Slot
import Grip.Spec.C13
import Grip.Spec.C13Slot
import GripProofs.Lemmas.C13Deal

namespace Grip.Props.C13.Lemmas
open Grip.C13.Slot Grip.C13.Spec

/-! ## A. the merger -/

/-- the next item of every stream that has one, in worker order -/
def heads {β : Type} (ws : List (List β)) : List β := ws.filterMap List.head?
/-- every stream without its next item -/
def tails {β : Type} (ws : List (List β)) : List (List β) := ws.map List.tail

@[simp] theorem heads_nil {β : Type} : heads ([] : List (List β)) = [] := rfl
@[simp] theorem tails_nil {β : Type} : tails ([] : List (List β)) = [] := rfl
@[simp] theorem heads_cons_nil {β : Type} (ws : List (List β)) : heads ([] :: ws) = heads ws := by
  simp [heads, List.filterMap_cons]
@[simp] theorem heads_cons_cons {β : Type} (y : β) (q : List β) (ws : List (List β)) :
    heads ((y :: q) :: ws) = y :: heads ws := by
  simp [heads]
@[simp] theorem tails_cons {β : Type} (l : List β) (ws : List (List β)) :
    tails (l :: ws) = l.tail :: tails ws := rfl
@[simp] theorem heads_append {β : Type} (a b : List (List β)) : heads (a ++ b) = heads a ++ heads b := by
  simp [heads]
@[simp] theorem tails_append {β : Type} (a b : List (List β)) : tails (a ++ b) = tails a ++ tails b := by
  simp [tails]
@[simp] theorem length_tails {β : Type} (ws : List (List β)) : (tails ws).length = ws.length := by
  simp [tails]

theorem mergePass_eq {β : Type} : ∀ ws : List (List β),
    mergePass ws = (heads ws, tails ws, !(heads ws).isEmpty)
  | [] => rfl
  | [] :: rest => by simp [mergePass, mergePass_eq rest]
  | (y :: q) :: rest => by simp [mergePass, mergePass_eq rest]

@[simp] theorem maxLen_nil {β : Type} : maxLen ([] : List (List β)) = 0 := rfl
@[simp] theorem maxLen_cons {β : Type} (l : List β) (ws : List (List β)) :
    maxLen (l :: ws) = max l.length (maxLen ws) := rfl

theorem maxLen_append {β : Type} (a b : List (List β)) : maxLen (a ++ b) = max (maxLen a) (maxLen b) := by
  induction a with
  | nil => simp
  | cons l a ih => simp only [List.cons_append, maxLen_cons, ih]; omega

theorem le_maxLen {β : Type} {ws : List (List β)} {l : List β} (h : l ∈ ws) : l.length ≤ maxLen ws := by
  induction ws with
  | nil => simp at h
  | cons l' ws ih =>
    simp at h ⊢
    rcases h with rfl | h
    · omega
    · have := ih h; omega

theorem maxLen_le_iff {β : Type} (ws : List (List β)) (k : Nat) :
    maxLen ws ≤ k ↔ ∀ l ∈ ws, l.length ≤ k := by
  induction ws with
  | nil => simp
  | cons l ws ih => simp [← ih]; omega

theorem maxLen_le_totalLen {β : Type} (ws : List (List β)) : maxLen ws ≤ totalLen ws := by
  induction ws with
  | nil => simp [totalLen]
  | cons l ws ih => simp [totalLen] at ih ⊢; omega

theorem maxLen_tails {β : Type} (ws : List (List β)) : maxLen (tails ws) = maxLen ws - 1 := by
  induction ws with
  | nil => simp
  | cons l ws ih => simp [ih]; omega

theorem heads_eq_nil_iff {β : Type} (ws : List (List β)) : heads ws = [] ↔ maxLen ws = 0 := by
  induction ws with
  | nil => simp
  | cons l ws ih =>
    cases l with
    | nil => simp [ih]
    | cons y q => simp

theorem heads_isEmpty_iff {β : Type} (ws : List (List β)) : (heads ws).isEmpty = true ↔ maxLen ws = 0 := by
  rw [List.isEmpty_iff, heads_eq_nil_iff]

/-- all streams drained -/
theorem maxLen_eq_zero_iff {β : Type} (ws : List (List β)) : maxLen ws = 0 ↔ ∀ l ∈ ws, l = [] := by
  have := maxLen_le_iff ws 0
  simp only [Nat.le_zero, List.length_eq_zero_iff] at this
  exact this

theorem tails_of_maxLen_zero {β : Type} (ws : List (List β)) (h : maxLen ws = 0) : tails ws = ws := by
  induction ws with
  | nil => rfl
  | cons l ws ih =>
    simp only [maxLen_cons] at h
    have hl : l = [] := List.length_eq_zero_iff.mp (by omega)
    subst hl
    simp [ih (by omega)]

/-- one step of the outer loop, in heads / tails form -/
theorem mergerLoop_succ {β : Type} (fuel : Nat) (ws : List (List β)) :
    mergerLoop (fuel + 1) ws =
      if maxLen ws = 0 then { out := [], passes := 1, closed := true, left := ws }
      else { out := heads ws ++ (mergerLoop fuel (tails ws)).out,
             passes := (mergerLoop fuel (tails ws)).passes + 1,
             closed := (mergerLoop fuel (tails ws)).closed,
             left := (mergerLoop fuel (tails ws)).left } := by
  simp only [mergerLoop, mergePass_eq]
  by_cases h : maxLen ws = 0
  · have h1 : heads ws = [] := (heads_eq_nil_iff ws).mpr h
    simp [h, h1, tails_of_maxLen_zero ws h]
  · have h1 : heads ws ≠ [] := fun e => h ((heads_eq_nil_iff ws).mp e)
    have h2 : (heads ws).isEmpty = false := by
      cases hh : heads ws with
      | nil => exact absurd hh h1
      | cons _ _ => rfl
    simp [h, h2]

/-- with enough fuel the loop ends by itself: `out` is closed, after exactly `maxLen + 1` passes
    (one per item of the longest stream, and the pass that finds nothing), all streams drained -/
theorem mergerLoop_closed {β : Type} : ∀ (fuel : Nat) (ws : List (List β)), maxLen ws < fuel →
    (mergerLoop fuel ws).closed = true ∧ (mergerLoop fuel ws).passes = maxLen ws + 1 ∧
    maxLen (mergerLoop fuel ws).left = 0 ∧ (mergerLoop fuel ws).left.length = ws.length := by
  intro fuel
  induction fuel with
  | zero => intro ws h; omega
  | succ k ih =>
    intro ws h
    rw [mergerLoop_succ]
    by_cases h0 : maxLen ws = 0
    · simp [h0]
    · have hk : maxLen (tails ws) < k := by rw [maxLen_tails]; omega
      obtain ⟨a, b, c, d⟩ := ih (tails ws) hk
      simp only [h0, if_false]
      refine ⟨a, ?_, c, by simpa using d⟩
      rw [b, maxLen_tails]; omega

/-- before that many passes the loop is still running -/
theorem mergerLoop_open {β : Type} : ∀ (fuel : Nat) (ws : List (List β)), fuel ≤ maxLen ws →
    (mergerLoop fuel ws).closed = false ∧ (mergerLoop fuel ws).passes = fuel ∧
    maxLen (mergerLoop fuel ws).left = maxLen ws - fuel := by
  intro fuel
  induction fuel with
  | zero => intro ws _; simp [mergerLoop]
  | succ k ih =>
    intro ws h
    rw [mergerLoop_succ]
    have h0 : maxLen ws ≠ 0 := by omega
    have hk : k ≤ maxLen (tails ws) := by rw [maxLen_tails]; omega
    obtain ⟨a, b, c⟩ := ih (tails ws) hk
    simp only [h0, if_false]
    refine ⟨a, by rw [b], ?_⟩
    rw [c, maxLen_tails]; omega

/-- more fuel than needed changes nothing -/
theorem mergerLoop_canon {β : Type} : ∀ (fuel : Nat) (ws : List (List β)), maxLen ws < fuel →
    mergerLoop fuel ws = mergerLoop (maxLen ws + 1) ws := by
  intro fuel
  induction fuel with
  | zero => intro ws h; omega
  | succ k ih =>
    intro ws h
    rw [mergerLoop_succ, mergerLoop_succ]
    by_cases h0 : maxLen ws = 0
    · simp [h0]
    · have hk : maxLen (tails ws) < k := by rw [maxLen_tails]; omega
      have e : maxLen ws = maxLen (tails ws) + 1 := by rw [maxLen_tails]; omega
      simp only [h0, if_false]
      rw [ih (tails ws) hk, ← e]

theorem mergeRun_eq {β : Type} (ws : List (List β)) : mergeRun ws = mergerLoop (maxLen ws + 1) ws :=
  mergerLoop_canon _ ws (by have := maxLen_le_totalLen ws; omega)

/-- the merger's complete output -/
def mergeAll {β : Type} (ws : List (List β)) : List β := (mergeRun ws).out

/-- the defining equation of the merge: a pass takes the heads; stop when there are none -/
theorem mergeAll_eq {β : Type} (ws : List (List β)) :
    mergeAll ws = if maxLen ws = 0 then [] else heads ws ++ mergeAll (tails ws) := by
  unfold mergeAll
  rw [mergeRun_eq, mergerLoop_succ]
  by_cases h0 : maxLen ws = 0
  · simp [h0]
  · have e : maxLen ws = maxLen (tails ws) + 1 := by rw [maxLen_tails]; omega
    simp only [h0, if_false]
    rw [mergeRun_eq, ← e]

theorem mergeAll_drained {β : Type} (ws : List (List β)) (h : maxLen ws = 0) : mergeAll ws = [] := by
  rw [mergeAll_eq]; simp [h]

theorem mergeAll_step {β : Type} (ws : List (List β)) : mergeAll ws = heads ws ++ mergeAll (tails ws) := by
  rw [mergeAll_eq]
  by_cases h0 : maxLen ws = 0
  · have h1 : heads ws = [] := (heads_eq_nil_iff ws).mpr h0
    have h2 : mergeAll (tails ws) = [] := mergeAll_drained _ (by rw [maxLen_tails]; omega)
    simp [h0, h1, h2]
  · simp [h0]

/-- the merge is `Spec.collect`, for any sufficient fuel -/
theorem mergeAll_eq_collect {β : Type} : ∀ (fuel : Nat) (ws : List (List β)), maxLen ws < fuel →
    mergeAll ws = collect fuel ws := by
  intro fuel
  induction fuel with
  | zero => intro ws h; omega
  | succ k ih =>
    intro ws h
    rw [mergeAll_eq]
    simp only [collect]
    by_cases h0 : maxLen ws = 0
    · have h1 : heads ws = [] := (heads_eq_nil_iff ws).mpr h0
      simp only [heads] at h1
      simp [h0, h1]
    · have h1 : heads ws ≠ [] := fun e => h0 ((heads_eq_nil_iff ws).mp e)
      have hk : maxLen (tails ws) < k := by rw [maxLen_tails]; omega
      have h2 : (List.filterMap List.head? ws).isEmpty = false := by
        cases hh : heads ws with
        | nil => exact absurd hh h1
        | cons _ _ => simp only [heads] at hh; simp [hh]
      simp only [h0, if_false, h2]
      rw [ih _ hk]; rfl

/-- the merger neither loses nor invents anything -/
theorem flatten_perm_heads_tails {β : Type} (ws : List (List β)) :
    ws.flatten.Perm (heads ws ++ (tails ws).flatten) := by
  induction ws with
  | nil => simp
  | cons l ws ih =>
    cases l with
    | nil => simpa using ih
    | cons y q =>
      simp only [List.flatten_cons, heads_cons_cons, tails_cons, List.tail_cons, List.cons_append]
      refine List.Perm.cons y ?_
      exact (List.Perm.append_left q ih).trans (List.perm_append_comm_assoc _ _ _)

theorem mergeAll_perm {β : Type} : ∀ (n : Nat) (ws : List (List β)), maxLen ws ≤ n →
    (mergeAll ws).Perm ws.flatten := by
  intro n
  induction n with
  | zero =>
    intro ws h
    have h0 : maxLen ws = 0 := by omega
    rw [mergeAll_drained ws h0]
    have : ws.flatten = [] := by
      rw [List.flatten_eq_nil_iff]; exact (maxLen_eq_zero_iff ws).mp h0
    rw [this]
  | succ k ih =>
    intro ws h
    rw [mergeAll_step]
    have hk : maxLen (tails ws) ≤ k := by rw [maxLen_tails]; omega
    exact (List.Perm.append_left _ (ih _ hk)).trans (flatten_perm_heads_tails ws).symm

/-- a pass over streams that all have an item -/
theorem heads_zipWith_cons {β : Type} : ∀ (c : List β) (T : List (List β)), c.length = T.length →
    heads (List.zipWith List.cons c T) = c ∧ tails (List.zipWith List.cons c T) = T
  | [], [], _ => by simp
  | [], _ :: _, h => by simp at h
  | _ :: _, [], h => by simp at h
  | y :: c, l :: T, h => by
    have := heads_zipWith_cons c T (by simpa using h)
    simp [this.1, this.2]

theorem mergeAll_zipWith_cons {β : Type} (c : List β) (T : List (List β)) (h : c.length = T.length) :
    mergeAll (List.zipWith List.cons c T) = c ++ mergeAll T := by
  rw [mergeAll_step, (heads_zipWith_cons c T h).1, (heads_zipWith_cons c T h).2]

/-- ROTATION: the merger's scan is cyclic — after the first workers `A` have been served, the
    scan goes on as a merger over the others followed by what remains of `A` -/
theorem mergeAll_rotate {β : Type} : ∀ (n : Nat) (A B : List (List β)), maxLen (A ++ B) ≤ n →
    mergeAll (A ++ B) = heads A ++ mergeAll (B ++ tails A) := by
  intro n
  induction n with
  | zero =>
    intro A B h
    rw [maxLen_append] at h
    have hA : maxLen A = 0 := by omega
    have hB : maxLen B = 0 := by omega
    rw [mergeAll_drained _ (by rw [maxLen_append]; omega),
        mergeAll_drained _ (by rw [maxLen_append, maxLen_tails]; omega),
        (heads_eq_nil_iff A).mpr hA]
    rfl
  | succ k ih =>
    intro A B h
    have hk : maxLen (tails A ++ tails B) ≤ k := by
      rw [← tails_append, maxLen_tails]; omega
    rw [mergeAll_step (A ++ B), mergeAll_step (B ++ tails A), tails_append, tails_append, heads_append,
        heads_append, ih _ _ hk]
    simp [List.append_assoc]

theorem mergeAll_rotate' {β : Type} (A B : List (List β)) :
    mergeAll (A ++ B) = heads A ++ mergeAll (B ++ tails A) :=
  mergeAll_rotate _ A B (Nat.le_refl _)

/-! ## B. the distributor loop is `Spec.deal` -/

theorem everyNth_cons {α : Type} (n : Nat) (y : α) (ys : List α) :
    everyNth n (y :: ys) = y :: everyNth n (ys.drop (n - 1)) := by
  rw [everyNth]

theorem everyNth_snoc {α : Type} (w : Nat) (hw : 0 < w) : ∀ (k : Nat) (ys : List α), ys.length ≤ k →
    ∀ x, everyNth w (ys ++ [x]) = if ys.length % w = 0 then everyNth w ys ++ [x] else everyNth w ys := by
  intro k
  induction k with
  | zero =>
    intro ys h x
    have : ys = [] := List.length_eq_zero_iff.mp (by omega)
    subst this
    simp [everyNth_cons, everyNth_nil]
  | succ k ih =>
    intro ys h x
    cases ys with
    | nil => simp [everyNth_cons, everyNth_nil]
    | cons y t =>
      simp only [List.cons_append, everyNth_cons, List.length_cons] at h ⊢
      by_cases hlt : w - 1 ≤ t.length
      · rw [List.drop_append_of_le_length hlt, ih (t.drop (w - 1)) (by simp [List.length_drop]; omega) x]
        have e1 : (t.drop (w - 1)).length = t.length + 1 - w := by simp [List.length_drop]; omega
        have e2 : (t.length + 1) % w = (t.length + 1 - w) % w := Nat.mod_eq_sub_mod (by omega)
        rw [e1, e2]
        by_cases hz : (t.length + 1 - w) % w = 0 <;> simp [hz]
      · have d1 : (t ++ [x]).drop (w - 1) = [] := List.drop_eq_nil_of_le (by simp; omega)
        have d2 : t.drop (w - 1) = [] := List.drop_eq_nil_of_le (by omega)
        have e : (t.length + 1) % w = t.length + 1 := Nat.mod_eq_of_lt (by omega)
        rw [d1, d2, e]
        simp

theorem sub_mod_eq_zero_iff {n i w : Nat} (hi : i < w) (hin : i ≤ n) : (n - i) % w = 0 ↔ n % w = i := by
  constructor
  · intro h
    have h1 := Nat.div_add_mod (n - i) w
    rw [h, Nat.add_zero] at h1
    have h2 : n = w * ((n - i) / w) + i := by omega
    rw [h2, Nat.mul_add_mod, Nat.mod_eq_of_lt hi]
  · intro h
    have h1 := Nat.div_add_mod n w
    have h2 : n - i = w * (n / w) := by omega
    rw [h2, Nat.mul_mod_right]

theorem length_deal {α : Type} (w : Nat) (xs : List α) : (deal w xs).length = w := by
  simp [deal]

theorem getElem_deal {α : Type} (w : Nat) (xs : List α) (i : Nat) (h : i < (deal w xs).length) :
    (deal w xs)[i] = everyNth w (xs.drop i) := by
  simp [deal]

/-- handing one more item to the distributor: it goes to worker `(number handed out so far) mod w` -/
theorem deal_snoc {α : Type} (w : Nat) (hw : 0 < w) (pre : List α) (x : α) :
    deal w (pre ++ [x]) = (deal w pre).modify (pre.length % w) (fun l => l ++ [x]) := by
  apply List.ext_getElem
  · simp [length_deal]
  · intro i h1 h2
    have hi : i < w := by simpa [length_deal] using h1
    rw [getElem_deal, List.getElem_modify, getElem_deal]
    by_cases hle : i ≤ pre.length
    · rw [List.drop_append_of_le_length hle, everyNth_snoc w hw _ _ (Nat.le_refl _)]
      have e : (pre.drop i).length = pre.length - i := by simp
      rw [e]
      by_cases hz : (pre.length - i) % w = 0
      · have := (sub_mod_eq_zero_iff hi hle).mp hz
        simp [hz, this]
      · have : ¬ pre.length % w = i := fun e' => hz ((sub_mod_eq_zero_iff hi hle).mpr e')
        simp [hz, this]
    · have d1 : (pre ++ [x]).drop i = [] := List.drop_eq_nil_of_le (by simp; omega)
      have d2 : pre.drop i = [] := List.drop_eq_nil_of_le (by omega)
      have e : pre.length % w = pre.length := Nat.mod_eq_of_lt (by omega)
      have : ¬ pre.length = i := by omega
      rw [d1, d2, e]
      simp [this, everyNth_nil]

theorem nextSlot_mod (w : Nat) (hw : 0 < w) (k : Nat) : nextSlot w (k % w) = (k + 1) % w := by
  have hr : k % w < w := Nat.mod_lt _ hw
  have e : (k + 1) % w = (k % w + 1) % w := by
    conv => lhs; rw [← Nat.div_add_mod k w, Nat.add_assoc, Nat.mul_add_mod]
  rw [e]
  unfold nextSlot
  by_cases h : k % w + 1 ≥ w
  · have : k % w + 1 = w := by omega
    rw [this, Nat.mod_self]; simp
  · rw [Nat.mod_eq_of_lt (a := k % w + 1) (by omega)]; simp [h]

theorem distLoop_deal {α : Type} (w : Nat) (hw : 0 < w) : ∀ (xs pre : List α),
    distLoop w (pre.length % w) (deal w pre) xs = deal w (pre ++ xs)
  | [], pre => by simp [distLoop]
  | x :: rest, pre => by
    rw [distLoop, nextSlot_mod w hw, ← deal_snoc w hw]
    have := distLoop_deal w hw rest (pre ++ [x])
    simp only [List.length_append, List.length_cons, List.length_nil, List.append_assoc,
      List.cons_append, List.nil_append] at this
    exact this

theorem deal_nil {α : Type} (w : Nat) : deal w ([] : List α) = List.replicate w [] := by
  simp [deal, everyNth_nil, List.map_const']

/-- the distributor loop hands item `i` to worker `i mod w`: it is the closed form `Spec.deal` -/
theorem distribute_eq_deal {α : Type} (w : Nat) (hw : 0 < w) (xs : List α) : distribute w xs = deal w xs := by
  have := distLoop_deal w hw xs []
  simp only [List.length_nil, Nat.zero_mod, List.nil_append, deal_nil] at this
  exact this

/-! ## C. the shape of `deal` -/

/-- what the workers `0 … m-1` of `m+1` get -/
def dInit {α : Type} (m : Nat) (ys : List α) : List (List α) :=
  (List.range m).map (fun i => everyNth (m + 1) (ys.drop i))
/-- what the last worker of `m+1` gets -/
def dLast {α : Type} (m : Nat) (ys : List α) : List α := everyNth (m + 1) (ys.drop m)

theorem deal_snoc_form {α : Type} (m : Nat) (ys : List α) : deal (m + 1) ys = dInit m ys ++ [dLast m ys] := by
  simp [deal, List.range_succ, dInit, dLast]

/-- one more item IN FRONT: it goes to worker 0, followed by what the last worker had; every
    other worker's stream moves one worker up -/
theorem deal_cons_form {α : Type} (m : Nat) (x : α) (ys : List α) :
    deal (m + 1) (x :: ys) = (x :: dLast m ys) :: dInit m ys := by
  simp [deal, List.range_succ_eq_map, everyNth_cons, dInit, dLast, List.map_map, Function.comp_def]

theorem length_dInit {α : Type} (m : Nat) (ys : List α) : (dInit m ys).length = m := by
  simp [dInit]

theorem dLast_short {α : Type} (m : Nat) (ys : List α) (h : ys.length ≤ m) : dLast m ys = [] := by
  simp [dLast, List.drop_eq_nil_of_le h, everyNth_nil]

@[simp] theorem work_cons {α β : Type} (f : α → List β) (l : List α) (ws : List (List α)) :
    work f (l :: ws) = l.flatMap f :: work f ws := rfl
@[simp] theorem work_append {α β : Type} (f : α → List β) (a b : List (List α)) :
    work f (a ++ b) = work f a ++ work f b := by simp [work]
@[simp] theorem work_nil {α β : Type} (f : α → List β) : work f ([] : List (List α)) = [] := rfl

theorem maxLen_replicate_nil {β : Type} (w : Nat) : maxLen (List.replicate w ([] : List β)) = 0 := by
  induction w with
  | zero => rfl
  | succ k ih => simp [List.replicate_succ, ih]

theorem work_replicate_nil {α β : Type} (f : α → List β) (w : Nat) :
    work f (List.replicate w ([] : List α)) = List.replicate w [] := by
  simp [work]

/-- a full block in front: one item at the head of every worker's stream -/
theorem eq_zipWith_cons_of_ne_nil {β : Type} : ∀ (ws : List (List β)), (∀ l ∈ ws, l ≠ []) →
    ws = List.zipWith List.cons (heads ws) (tails ws)
  | [], _ => by simp
  | [] :: _, h => absurd rfl (h [] (by simp))
  | (y :: q) :: ws, h => by
    have := eq_zipWith_cons_of_ne_nil ws (fun l hl => h l (by simp [hl]))
    simp [← this]

theorem everyNth_ne_nil {α : Type} (n : Nat) (ys : List α) (h : ys ≠ []) : everyNth n ys ≠ [] := by
  cases ys with
  | nil => exact absurd rfl h
  | cons y t => rw [everyNth_cons]; simp

theorem deal_block {α : Type} (w : Nat) (hw : 0 < w) (c rest : List α) (hc : c.length = w) :
    deal w (c ++ rest) = List.zipWith List.cons c (deal w rest) := by
  have hne : ∀ l ∈ deal w (c ++ rest), l ≠ [] := by
    intro l hl
    simp only [deal, List.mem_map, List.mem_range] at hl
    obtain ⟨i, hi, rfl⟩ := hl
    apply everyNth_ne_nil
    intro e
    have := congrArg List.length e
    simp at this
    omega
  have h1 : heads (deal w (c ++ rest)) = c := by
    simp only [heads]; rw [heads_deal, ← hc]; simp
  have h2 : tails (deal w (c ++ rest)) = deal w rest := by
    simp only [tails]; rw [tails_deal w hw, ← hc]; simp
  have := eq_zipWith_cons_of_ne_nil _ hne
  rw [h1, h2] at this
  exact this

/-! ## D. the merger on these shapes -/

/-- the merger starting one worker later -/
theorem mergeAll_cons_nil {β : Type} (ws : List (List β)) : mergeAll ([] :: ws) = mergeAll (ws ++ [[]]) := by
  have := mergeAll_rotate' [([] : List β)] ws
  simpa using this

theorem mergeAll_cons_cons {β : Type} (z : β) (l : List β) (ws : List (List β)) :
    mergeAll ((z :: l) :: ws) = z :: mergeAll (ws ++ [l]) := by
  have := mergeAll_rotate' [z :: l] ws
  simpa using this

/-- ONE-IN-ONE-OUT STEP: a first item with exactly one output comes out first, and the rest of the
    pool goes on as the pool for the rest of the input (any `f` on the rest) -/
theorem mergeAll_work_cons_one {α β : Type} (m : Nat) (f : α → List β) (x : α) (z : β) (hx : f x = [z])
    (ys : List α) :
    mergeAll (work f (deal (m + 1) (x :: ys))) = z :: mergeAll (work f (deal (m + 1) ys)) := by
  rw [deal_cons_form, deal_snoc_form, work_cons, work_append, List.flatMap_cons, hx]
  simp only [List.cons_append, List.nil_append]
  rw [mergeAll_cons_cons]
  simp [work]

theorem rotR_concat {α : Type} (l : List α) (z : α) : rotR (l ++ [z]) = z :: l := by
  simp [rotR]

@[simp] theorem rotR_nil {α : Type} : rotR ([] : List α) = [] := rfl

theorem length_rotR {α : Type} (l : List α) : (rotR l).length = l.length := by
  rcases List.eq_nil_or_concat l with rfl | ⟨l', b, rfl⟩
  · rfl
  · simp [List.concat_eq_append, rotR_concat]

/-- SKIP STEP: a first item with NO output leaves the pool of the rest of the input with the
    merger starting at its LAST worker -/
theorem work_deal_cons_skip {α β : Type} (m : Nat) (f : α → List β) (x : α) (hx : f x = [])
    (ys : List α) :
    work f (deal (m + 1) (x :: ys)) = rotR (work f (deal (m + 1) ys)) := by
  rw [deal_cons_form, deal_snoc_form, work_cons, work_append, List.flatMap_cons, hx]
  simp only [List.nil_append]
  rw [show work f [dLast m ys] = [(dLast m ys).flatMap f] from rfl, rotR_concat]

/-- one-in-one-out workers commute with the distributor -/
theorem work_deal_one {α β : Type} (m : Nat) (f : α → List β) : ∀ (ys : List α),
    (∀ y ∈ ys, (f y).length = 1) → work f (deal (m + 1) ys) = deal (m + 1) (ys.flatMap f)
  | [], _ => by simp [deal_nil, work_replicate_nil]
  | y :: ys, h => by
    obtain ⟨z, hz⟩ := List.length_eq_one_iff.mp (h y (by simp))
    have ih := work_deal_one m f ys (fun y' hy' => h y' (by simp [hy']))
    rw [deal_snoc_form, deal_snoc_form, work_append] at ih
    obtain ⟨e1, e2⟩ := List.append_inj' ih rfl
    rw [List.flatMap_cons, hz, List.singleton_append, deal_cons_form, deal_cons_form, work_cons,
      List.flatMap_cons, hz, e1]
    have e3 : (dLast m ys).flatMap f = dLast m (ys.flatMap f) := by
      simpa [work] using e2
    rw [e3]; rfl

/-- round robin is the identity (`Spec.collect_deal`, for the merger loop of the model) -/
theorem mergeAll_deal {β : Type} (m : Nat) : ∀ (ys : List β), mergeAll (deal (m + 1) ys) = ys
  | [] => by rw [deal_nil]; exact mergeAll_drained _ (maxLen_replicate_nil _)
  | y :: ys => by
    rw [deal_cons_form, mergeAll_cons_cons, ← deal_snoc_form, mergeAll_deal m ys]

theorem rotR_zipWith_cons {β : Type} (c : List β) (D : List (List β)) (h : c.length = D.length) :
    rotR (List.zipWith List.cons c D) = List.zipWith List.cons (rotR c) (rotR D) := by
  rcases List.eq_nil_or_concat c with rfl | ⟨cI, cL, rfl⟩
  · simp
  · rcases List.eq_nil_or_concat D with rfl | ⟨DI, DL, rfl⟩
    · simp at h
    · simp only [List.concat_eq_append] at h ⊢
      have hl : cI.length = DI.length := by simpa using h
      rw [List.zipWith_append hl, rotR_concat, rotR_concat]
      simp [rotR_concat]

theorem rotBlocks_lt {α : Type} (w : Nat) (ys : List α) (h : ys.length < w) : rotBlocks w ys = ys := by
  rw [rotBlocks]; simp; omega

theorem rotBlocks_block {α : Type} (w : Nat) (hw : 0 < w) (c rest : List α) (hc : c.length = w) :
    rotBlocks w (c ++ rest) = rotR c ++ rotBlocks w rest := by
  rw [rotBlocks]
  have : 0 < w ∧ w ≤ (c ++ rest).length := ⟨hw, by simp; omega⟩
  rw [if_pos this, ← hc]; simp

/-- THE ONE-SKIP CLOSED FORM: the merger started at the last worker of a round-robin deal emits,
    of every full block of `w`, the last item first -/
theorem mergeAll_rotR_deal {β : Type} (m : Nat) : ∀ (n : Nat) (ys : List β), ys.length ≤ n →
    mergeAll (rotR (deal (m + 1) ys)) = rotBlocks (m + 1) ys := by
  intro n
  induction n with
  | zero =>
    intro ys h
    have : ys = [] := List.length_eq_zero_iff.mp (by omega)
    subst this
    rw [rotBlocks_lt _ _ (by simp), deal_snoc_form, rotR_concat, dLast_short m [] (by simp), mergeAll_cons_nil]
    have := deal_snoc_form m ([] : List β)
    rw [dLast_short m [] (by simp)] at this
    rw [← this, mergeAll_deal]
  | succ k ih =>
    intro ys h
    by_cases hlt : ys.length < m + 1
    · rw [rotBlocks_lt _ _ hlt, deal_snoc_form, rotR_concat, dLast_short m ys (by omega), mergeAll_cons_nil]
      have := deal_snoc_form m ys
      rw [dLast_short m ys (by omega)] at this
      rw [← this, mergeAll_deal]
    · have hsplit : ys = ys.take (m + 1) ++ ys.drop (m + 1) := (List.take_append_drop _ _).symm
      have hc : (ys.take (m + 1)).length = m + 1 := by simp; omega
      rw [hsplit, deal_block (m + 1) (by omega) _ _ hc, rotBlocks_block (m + 1) (by omega) _ _ hc,
        rotR_zipWith_cons _ _ (by rw [hc, length_deal]),
        mergeAll_zipWith_cons _ _ (by rw [length_rotR, length_rotR, hc, length_deal]),
        ih (ys.drop (m + 1)) (by simp; omega)]

/-! ### when the rotation is visible -/

theorem rotR_eq_self_iff {α : Type} (l : List α) : rotR l = l ↔ Const l := by
  rcases List.eq_nil_or_concat l with rfl | ⟨t, z, rfl⟩
  · simp [Const]
  · simp only [List.concat_eq_append, rotR_concat]
    induction t with
    | nil => simp [Const]
    | cons a t ih =>
      simp only [List.cons_append, List.cons.injEq]
      constructor
      · rintro ⟨rfl, h⟩
        have hc := ih.mp h
        intro p hp q hq
        have hz : z ∈ t ++ [z] := by simp
        have hp' : p = z := by
          rcases List.mem_cons.mp hp with rfl | hp
          · rfl
          · exact hc p hp z hz
        have hq' : q = z := by
          rcases List.mem_cons.mp hq with rfl | hq
          · rfl
          · exact hc q hq z hz
        rw [hp', hq']
      · intro hc
        have hz : z ∈ a :: (t ++ [z]) := by simp
        have ha : z = a := hc z hz a (by simp)
        refine ⟨ha, ?_⟩
        rw [← ha]
        exact ih.mpr (fun p hp q hq => hc p (List.mem_cons_of_mem _ hp) q (List.mem_cons_of_mem _ hq))

theorem rotBlocks_eq_self_iff {α : Type} (w : Nat) : ∀ (n : Nat) (ys : List α), ys.length ≤ n →
    (rotBlocks w ys = ys ↔ BlocksConst w ys) := by
  intro n
  induction n with
  | zero =>
    intro ys h
    have : ys = [] := List.length_eq_zero_iff.mp (by omega)
    subst this
    rw [rotBlocks, BlocksConst]
    have hc : ¬ (0 < w ∧ w ≤ ([] : List α).length) := by simp; omega
    rw [if_neg hc, if_neg hc]; simp
  | succ k ih =>
    intro ys h
    rw [rotBlocks, BlocksConst]
    by_cases hc : 0 < w ∧ w ≤ ys.length
    · rw [if_pos hc, if_pos hc]
      have hl : (ys.drop w).length ≤ k := by simp; omega
      rw [← ih _ hl, ← rotR_eq_self_iff]
      constructor
      · intro e
        have e' : rotR (ys.take w) ++ rotBlocks w (ys.drop w) = ys.take w ++ ys.drop w := by
          rw [List.take_append_drop]; exact e
        exact List.append_inj e' (length_rotR _)
      · rintro ⟨e1, e2⟩
        rw [e1, e2, List.take_append_drop]
    · rw [if_neg hc, if_neg hc]; simp

theorem blocksConst_of_lt {α : Type} (w : Nat) (ys : List α) (h : ys.length < w) : BlocksConst w ys := by
  rw [BlocksConst]; rw [if_neg (by omega)]; trivial

/-- with pairwise different records and at least two workers, a full block is never constant -/
theorem not_blocksConst_of_nodup {α : Type} (w : Nat) (hw : 2 ≤ w) (ys : List α) (hn : ys.Nodup)
    (hl : w ≤ ys.length) : ¬ BlocksConst w ys := by
  rw [BlocksConst, if_pos ⟨by omega, hl⟩]
  rintro ⟨hc, -⟩
  match ys, hn, hl with
  | a :: b :: t, hn, _ =>
    have h1 : a ∈ (a :: b :: t).take w := by
      obtain ⟨v, rfl⟩ : ∃ v, w = v + 2 := ⟨w - 2, by omega⟩
      simp
    have h2 : b ∈ (a :: b :: t).take w := by
      obtain ⟨v, rfl⟩ : ∃ v, w = v + 2 := ⟨w - 2, by omega⟩
      simp
    have := hc a h1 b h2
    subst this
    simp at hn
  | [_], _, hl => simp at hl; omega
  | [], _, hl => simp at hl; omega

/-! ### how long the streams are, and where the damage starts -/

theorem length_everyNth {α : Type} (w : Nat) (hw : 0 < w) : ∀ (n : Nat) (ys : List α), ys.length ≤ n →
    (everyNth w ys).length = (ys.length + w - 1) / w := by
  intro n
  induction n with
  | zero =>
    intro ys h
    have : ys = [] := List.length_eq_zero_iff.mp (by omega)
    subst this
    rw [everyNth_nil]
    simp only [List.length_nil, Nat.zero_add]
    exact (Nat.div_eq_of_lt (by omega)).symm
  | succ k ih =>
    intro ys h
    cases ys with
    | nil =>
      rw [everyNth_nil]
      simp only [List.length_nil, Nat.zero_add]
      exact (Nat.div_eq_of_lt (by omega)).symm
    | cons y t =>
      simp only [List.length_cons] at h
      rw [everyNth_cons, List.length_cons, ih _ (by simp; omega), List.length_drop, List.length_cons]
      have e : t.length + 1 + w - 1 = t.length + w := by omega
      rw [e, Nat.add_div_right _ hw]
      by_cases hlt : w - 1 ≤ t.length
      · have e2 : t.length - (w - 1) + w - 1 = t.length := by omega
        rw [e2]
      · have e2 : t.length - (w - 1) + w - 1 = w - 1 := by omega
        rw [e2, Nat.div_eq_of_lt (by omega), Nat.div_eq_of_lt (by omega)]

/-- the longest stream of a round-robin deal is worker 0's: ⌈len / w⌉ -/
theorem maxLen_deal {α : Type} (w : Nat) (hw : 0 < w) (xs : List α) :
    maxLen (deal w xs) = (xs.length + w - 1) / w := by
  apply Nat.le_antisymm
  · rw [maxLen_le_iff]
    intro l hl
    simp only [deal, List.mem_map, List.mem_range] at hl
    obtain ⟨i, _, rfl⟩ := hl
    rw [length_everyNth w hw _ _ (Nat.le_refl _), List.length_drop]
    exact Nat.div_le_div_right (by omega)
  · have hmem : everyNth w (xs.drop 0) ∈ deal w xs := by
      simp only [deal, List.mem_map, List.mem_range]
      exact ⟨0, hw, rfl⟩
    have := le_maxLen hmem
    rw [length_everyNth w hw _ _ (Nat.le_refl _)] at this
    simpa using this

theorem head?_rotR {α : Type} (l : List α) : (rotR l).head? = l.getLast? := by
  rcases List.eq_nil_or_concat l with rfl | ⟨t, z, rfl⟩
  · rfl
  · simp [List.concat_eq_append, rotR_concat]

/-- the first record behind the gap that is emitted is record number `w - 1` behind it -/
theorem head?_rotBlocks {α : Type} (w : Nat) (hw : 0 < w) (ys : List α) (hl : w ≤ ys.length) :
    (rotBlocks w ys).head? = ys[w - 1]? := by
  rw [rotBlocks, if_pos ⟨hw, hl⟩, List.head?_append, head?_rotR, List.getLast?_take]
  have h0 : ¬ w = 0 := by omega
  have h1 : w - 1 < ys.length := by omega
  simp [h0, List.getElem?_eq_getElem h1]

end Grip.Props.C13.Lemmas
