/-
  Lemmas for type soundness over travelers (GripProofs/Props/C01Shape.lean).
  Core Lean only.
-/
import Grip.Model.Eval
import Grip.Spec.C01Shape
import GripProofs.Lemmas.C01

namespace Grip.Props.C01.Lemmas
open Grip Grip.Spec.C01

/-! ### association lists: lookup after insert-or-replace -/

/-- first value stored under a key -/
def look {α} (l : List (String × α)) (k : String) : Option α := (l.find? (·.1 == k)).map (·.2)

/-- the shape shared by `MarkTypes.set`, `Traveler.setMark` (and `JV.objSet`) -/
def upsert {α} (l : List (String × α)) (k : String) (v : α) : List (String × α) :=
  if l.any (·.1 == k) then l.map (fun kv => if kv.1 == k then (k, v) else kv) else l ++ [(k, v)]

theorem look_map_replace {α} (k k' : String) (v : α) : ∀ (l : List (String × α)),
    look (l.map (fun kv => if kv.1 == k then (k, v) else kv)) k' =
      if k' = k then (if l.any (·.1 == k) then some v else none) else look l k'
  | [] => by simp [look]
  | (a, x) :: l => by
    have ih := look_map_replace k k' v l
    unfold look at ih ⊢
    rw [List.map_cons, List.find?_cons, List.any_cons, List.find?_cons]
    dsimp only
    cases h1 : (a == k) with
    | true =>
      have hak : a = k := by simpa using h1
      subst hak
      by_cases hk : k' = a
      · subst hk
        simp only [if_true, beq_self_eq_true, Bool.true_or, Option.map_some]
      · have h2 : (a == k') = false := by
          rw [beq_eq_false_iff_ne]; exact fun h => hk h.symm
        simp only [if_true, h2, if_neg hk]
        rw [ih, if_neg hk]
    | false =>
      simp only [Bool.false_or]
      cases h2 : (a == k') with
      | true =>
        have hak' : a = k' := by simpa using h2
        have hk : ¬ k' = k := by
          intro h
          have : a = k := hak'.trans h
          simp [this] at h1
        simp only [Bool.false_eq_true, if_false, h2, if_neg hk, Option.map_some]
      | false =>
        simp only [Bool.false_eq_true, if_false, h2]
        exact ih

theorem look_append_single {α} (k k' : String) (v : α) (l : List (String × α)) :
    look (l ++ [(k, v)]) k' = (look l k').or (if k' = k then some v else none) := by
  unfold look
  rw [List.find?_append]
  cases h : l.find? (·.1 == k') with
  | some x => simp
  | none =>
    by_cases hk : k' = k
    · subst hk; simp
    · have : ¬ k = k' := fun h => hk h.symm
      simp [hk, this]

theorem look_none_of_not_any {α} (k : String) (l : List (String × α))
    (h : l.any (·.1 == k) = false) : look l k = none := by
  unfold look
  rw [Option.map_eq_none_iff, List.find?_eq_none]
  intro x hx
  have := List.any_eq_false.1 h x hx
  simpa using this

theorem look_upsert {α} (l : List (String × α)) (k k' : String) (v : α) :
    look (upsert l k v) k' = if k' = k then some v else look l k' := by
  unfold upsert
  by_cases ha : l.any (·.1 == k) = true
  · rw [if_pos ha, look_map_replace]
    by_cases hk : k' = k
    · simp [hk, ha]
    · simp [hk]
  · rw [if_neg ha, look_append_single]
    by_cases hk : k' = k
    · subst hk
      rw [look_none_of_not_any _ _ (by simpa only [Bool.not_eq_true] using ha)]
      simp
    · simp [hk]

theorem get_eq_look (m : MarkTypes) (k : String) : m.get k = (look m k).getD .noData := by
  unfold MarkTypes.get look
  cases m.find? (·.1 == k) with
  | none => rfl
  | some x => rfl

theorem getMark_eq_look (t : Traveler) (k : String) : t.getMark k = (look t.marks k).join := by
  unfold Traveler.getMark look
  cases t.marks.find? (·.1 == k) with
  | none => rfl
  | some x => rfl

theorem get_set (m : MarkTypes) (k k' : String) (ty : DataType) :
    (m.set k ty).get k' = if k' = k then ty else m.get k' := by
  rw [get_eq_look, get_eq_look]
  show (look (upsert m k ty) k').getD .noData = _
  rw [look_upsert]
  split <;> rfl

theorem getMark_addMark (t : Traveler) (k k' : String) (r : Option Elem) :
    (t.addMark k r).getMark k' = if k' = k then r else t.getMark k' := by
  rw [getMark_eq_look, getMark_eq_look]
  show (look (upsert t.marks k r) k').join = _
  rw [look_upsert]
  split <;> rfl

theorem getMark_addCurrent (t : Traveler) (r : Option Elem) (k : String) :
    (t.addCurrent r).getMark k = t.getMark k := rfl

/-! ### inversion of the typing step -/

theorem moveToVertex_ok {st st' : TState} (h : moveToVertex st = .ok st') :
    (st.last = .vertex ∨ st.last = .edge) ∧ st' = { st with last := .vertex } := by
  obtain ⟨last, marks⟩ := st
  cases last <;> simp [moveToVertex] at h ⊢ <;> exact h.symm

theorem moveToEdge_ok {st st' : TState} (h : moveToEdge st = .ok st') :
    st.last = .vertex ∧ st' = { st with last := .edge } := by
  obtain ⟨last, marks⟩ := st
  cases last <;> simp [moveToEdge] at h ⊢ <;> exact h.symm

theorem needElement_ok {st st' : TState} {k : Except TypeErr TState} (h : needElement st k = .ok st') :
    (st.last = .vertex ∨ st.last = .edge) ∧ k = .ok st' := by
  obtain ⟨last, marks⟩ := st
  cases last <;> simp [needElement] at h ⊢ <;> exact h

theorem typeStep_V_ok {st st' : TState} {ids : List String} (h : typeStep st (.V ids) = .ok st') :
    st.last = .noData ∧ st' = { st with last := .vertex } := by
  obtain ⟨last, marks⟩ := st
  cases last <;> simp [typeStep] at h ⊢ <;> exact h.symm

theorem typeStep_E_ok {st st' : TState} {ids : List String} (h : typeStep st (.E ids) = .ok st') :
    st.last = .noData ∧ st' = { st with last := .edge } := by
  obtain ⟨last, marks⟩ := st
  cases last <;> simp [typeStep] at h ⊢ <;> exact h.symm

theorem typeStep_as_ok {st st' : TState} {n : String} (h : typeStep st (.as_ n) = .ok st') :
    st.last ≠ .noData ∧ st' = { st with marks := st.marks.set n st.last } := by
  simp only [typeStep] at h
  split at h
  · cases h
  · rename_i h0
    split at h
    · cases h
    · split at h
      · cases h
      · split at h
        · cases h
        · injection h with h
          exact ⟨by simpa using h0, h.symm⟩

/-- what the filters and the loop/assignment statements do to the static state: nothing -/
theorem needElement_same {st st' : TState} (h : needElement st (.ok st) = .ok st') :
    (st.last = .vertex ∨ st.last = .edge) ∧ st' = st := by
  obtain ⟨hl, hk⟩ := needElement_ok h
  injection hk with hk
  exact ⟨hl, hk.symm⟩

theorem needElement_nonempty {st st' : TState} {l : List String}
    (h : needElement st (if l.isEmpty then .error .emptyArgs else .ok st) = .ok st') :
    (st.last = .vertex ∨ st.last = .edge) ∧ st' = st := by
  obtain ⟨hl, hk⟩ := needElement_ok h
  split at hk
  · cases hk
  · injection hk with hk
    exact ⟨hl, hk.symm⟩

/-! ### membership in the results of the graph steps -/

theorem mem_stepV {g : AGraph} {ids : List String} {t t' : Traveler} (h : t' ∈ stepV g ids t) :
    ∃ v, t' = t.addCurrent (some (vertexElem v)) := by
  unfold stepV at h
  split at h <;> (obtain ⟨v, _, rfl⟩ := List.mem_map.1 h; exact ⟨v, rfl⟩)

theorem getEdge_mem {g : AGraph} {id : String} {e : Elem} (h : g.getEdge id = some e) : e ∈ g.edges :=
  List.mem_of_find?_eq_some h

theorem mem_stepE {g : AGraph} {ids : List String} {t t' : Traveler} (h : t' ∈ stepE g ids t) :
    ∃ e ∈ g.edges, t' = t.addCurrent (some (edgeElem e)) := by
  unfold stepE at h
  split at h
  · obtain ⟨e, he, rfl⟩ := List.mem_map.1 h; exact ⟨e, he, rfl⟩
  · obtain ⟨e, he, rfl⟩ := List.mem_map.1 h
    obtain ⟨id, _, hid⟩ := List.mem_filterMap.1 he
    exact ⟨e, getEdge_mem hid, rfl⟩

theorem mem_stepOut {g : AGraph} {from_ : DataType} {ls : List String} {t t' : Traveler}
    (h : t' ∈ stepOut g from_ ls t) : ∃ v, t' = t.addCurrent (some (vertexElem v)) := by
  unfold stepOut at h
  split at h <;> (obtain ⟨v, _, rfl⟩ := List.mem_map.1 h; exact ⟨v, rfl⟩)

theorem mem_stepIn {g : AGraph} {from_ : DataType} {ls : List String} {t t' : Traveler}
    (h : t' ∈ stepIn g from_ ls t) : ∃ v, t' = t.addCurrent (some (vertexElem v)) := by
  unfold stepIn at h
  split at h <;> (obtain ⟨v, _, rfl⟩ := List.mem_map.1 h; exact ⟨v, rfl⟩)

theorem mem_stepOutE {g : AGraph} {ls : List String} {t t' : Traveler}
    (h : t' ∈ stepOutE g ls t) : ∃ e ∈ g.edges, t' = t.addCurrent (some (edgeElem e)) := by
  unfold stepOutE at h
  obtain ⟨e, he, rfl⟩ := List.mem_map.1 h
  exact ⟨e, (List.mem_filter.1 he).1, rfl⟩

theorem mem_stepInE {g : AGraph} {ls : List String} {t t' : Traveler}
    (h : t' ∈ stepInE g ls t) : ∃ e ∈ g.edges, t' = t.addCurrent (some (edgeElem e)) := by
  unfold stepInE at h
  obtain ⟨e, he, rfl⟩ := List.mem_map.1 h
  exact ⟨e, (List.mem_filter.1 he).1, rfl⟩

/-! ### shape lemmas (generic in the demand `E` on edges) -/

section shape
variable {E : ToPred}

theorem kind_vertexElem (v : Elem) : ElemOfKind E .vertex (some (vertexElem v)) :=
  ⟨_, rfl, rfl, rfl⟩

theorem kind_edgeElem {g : AGraph} (hg : ∀ e ∈ g.edges, E e.to) {e : Elem} (he : e ∈ g.edges) :
    ElemOfKind E .edge (some (edgeElem e)) :=
  ⟨_, rfl, hg e he⟩

theorem payload_of_carries {ty : DataType} (h : carriesMarks ty = true) (marks : MarkTypes)
    (t : Traveler) : PayloadShaped E ty marks t := by
  cases ty <;> first | trivial | cases h

/-- a traveler standing on a type that has a current element has one -/
theorem cur_of_kind {ty : DataType} {o : Option Elem} (hty : ty = .vertex ∨ ty = .edge ∨ ty = .path)
    (h : ElemOfKind E ty o) : ∃ e, o = some e := by
  rcases hty with rfl | rfl | rfl
  · obtain ⟨e, he, _⟩ := h; exact ⟨e, he⟩
  · obtain ⟨e, he, _⟩ := h; exact ⟨e, he⟩
  · exact h

/-- … and one standing on any other type has none -/
theorem no_cur_of_kind {ty : DataType} {o : Option Elem}
    (hty : ty ≠ .vertex ∧ ty ≠ .edge ∧ ty ≠ .path) (h : ElemOfKind E ty o) : o = none := by
  cases ty <;> first | exact h | simp at hty

theorem ws_addCurrent {ty ty' : DataType} {marks : MarkTypes} {t : Traveler} {r : Option Elem}
    (h : WellShapedG E ty marks t) (hc : carriesMarks ty = true) (hc' : carriesMarks ty' = true)
    (hr : ElemOfKind E ty' r) : WellShapedG E ty' marks (t.addCurrent r) :=
  ⟨hr, payload_of_carries hc' _ _, fun _ => h.2.2 hc⟩

/-- the graph steps: every result is the input traveler with a new current element -/
theorem ws_flatMap_addCurrent {f : Traveler → List Traveler} {ty ty' : DataType} {marks : MarkTypes}
    {ts : List Traveler} (hc : carriesMarks ty = true) (hc' : carriesMarks ty' = true)
    (hf : ∀ t, WellShapedG E ty marks t → ∀ t' ∈ f t, ∃ r, ElemOfKind E ty' r ∧ t' = t.addCurrent r)
    (hin : ∀ t ∈ ts, WellShapedG E ty marks t) :
    ∀ t' ∈ ts.flatMap f, WellShapedG E ty' marks t' := by
  intro t' ht'
  obtain ⟨t, ht, htt⟩ := List.mem_flatMap.1 ht'
  obtain ⟨r, hr, rfl⟩ := hf t (hin t ht) t' htt
  exact ws_addCurrent (hin t ht) hc hc' hr

theorem ws_append {P : Traveler → Prop} {xs ys : List Traveler}
    (hx : ∀ t ∈ xs, P t) (hy : ∀ t ∈ ys, P t) : ∀ t ∈ xs ++ ys, P t := by
  intro t ht
  rcases List.mem_append.1 ht with h | h
  · exact hx t h
  · exact hy t h

/-- `as`: both the static environment and the traveler record the current element -/
theorem ws_addMark {ty : DataType} {marks : MarkTypes} {t : Traveler} (n : String)
    (h : WellShapedG E ty marks t) : WellShapedG E ty (marks.set n ty) (t.addMark n t.cur) := by
  refine ⟨h.1, ?_, ?_⟩
  · cases ty <;> try trivial
    · exact h.2.1
    · obtain ⟨s, hs, hkv⟩ := h.2.1
      refine ⟨s, hs, fun kv hk => ?_⟩
      rw [get_set]
      split
      · exact ⟨fun h => (by cases h), fun h => (by cases h)⟩
      · exact hkv kv hk
  · intro hc m
    rw [get_set, getMark_addMark]
    split
    · exact h.1
    · exact h.2.2 hc m

/-- several-mark `select`: a fresh traveler carrying the selections -/
theorem ws_selectMany {ty : DataType} {marks : MarkTypes} {t : Traveler} (ms : List String)
    (h : WellShapedG E ty marks t) (hc : carriesMarks ty = true) :
    WellShapedG E .selection marks
      { sel := some (ms.eraseDups.map (fun m => (m, (t.getMark m).getD {}))) } := by
  refine ⟨rfl, ⟨_, rfl, fun kv hk => ?_⟩, fun h => by cases h⟩
  obtain ⟨m, _, rfl⟩ := List.mem_map.1 hk
  have hm := h.2.2 hc m
  constructor
  · intro hv
    show IsVertexElem ((t.getMark m).getD {})
    rw [hv] at hm
    obtain ⟨e, he, hk⟩ := hm
    rw [he]; exact hk
  · intro hv
    show E ((t.getMark m).getD {}).to
    rw [hv] at hm
    obtain ⟨e, he, hk⟩ := hm
    rw [he]; exact hk

end shape

/-! ### `fields` and `unwind`: what happens to the endpoints of the current element -/

theorem stepFields_eq (ks : List String) (t : Traveler) (c : Elem) (hc : t.cur = some c) :
    stepFields ks t =
      { cur := some (fieldsElem ks c), marks := t.marks, path := [PathEl.vertex ""] } := by
  unfold stepFields fieldsElem
  rw [hc]

/-- A row without a current element (a `*Null` row) is passed on unchanged. -/
theorem stepFields_none (ks : List String) (t : Traveler) (hc : t.cur = none) : stepFields ks t = t := by
  unfold stepFields
  rw [hc]

theorem exclOne_ends (orig : Elem) (s : ExclState) (parts : List String) :
    ((exclOne orig s parts).e.to = s.e.to ∨ (exclOne orig s parts).e.to = "") ∧
    ((exclOne orig s parts).e.frm = s.e.frm ∨ (exclOne orig s parts).e.frm = "") ∧
    (parts ≠ ["to"] → (exclOne orig s parts).e.to = s.e.to) := by
  unfold exclOne
  split <;> simp

theorem exclFold_ends (orig : Elem) : ∀ (paths : List (List String)) (s : ExclState),
    ((paths.foldl (exclOne orig) s).e.to = s.e.to ∨ (paths.foldl (exclOne orig) s).e.to = "") ∧
    ((paths.foldl (exclOne orig) s).e.frm = s.e.frm ∨ (paths.foldl (exclOne orig) s).e.frm = "") ∧
    (["to"] ∉ paths → (paths.foldl (exclOne orig) s).e.to = s.e.to)
  | [], s => by simp
  | p :: ps, s => by
    have h1 := exclOne_ends orig s p
    have h2 := exclFold_ends orig ps (exclOne orig s p)
    simp only [List.foldl_cons]
    refine ⟨?_, ?_, ?_⟩
    · rcases h2.1 with h | h
      · rcases h1.1 with h' | h'
        · exact Or.inl (h.trans h')
        · exact Or.inr (h.trans h')
      · exact Or.inr h
    · rcases h2.2.1 with h | h
      · rcases h1.2.1 with h' | h'
        · exact Or.inl (h.trans h')
        · exact Or.inr (h.trans h')
      · exact Or.inr h
    · intro hn
      have hp : p ≠ ["to"] := fun h => hn (by simp [h])
      have hps : ["to"] ∉ ps := fun h => hn (by simp [h])
      exact (h2.2.2 hps).trans (h1.2.2 hp)

theorem excludeFields_ends (cur : Elem) (paths : List (List String)) :
    ((excludeFields cur paths).to = cur.to ∨ (excludeFields cur paths).to = "") ∧
    ((excludeFields cur paths).frm = cur.frm ∨ (excludeFields cur paths).frm = "") ∧
    (["to"] ∉ paths → (excludeFields cur paths).to = cur.to) :=
  exclFold_ends cur paths { e := cur, data := cur.data.fields }

theorem fieldsElem_ends (ks : List String) (cur : Elem) :
    ((fieldsElem ks cur).to = cur.to ∨ (fieldsElem ks cur).to = "") ∧
    ((fieldsElem ks cur).frm = cur.frm ∨ (fieldsElem ks cur).frm = "") ∧
    (["to"] ∉ (fieldKeys ks).2 → (fieldsElem ks cur).to = cur.to) := by
  unfold fieldsElem
  rcases h : fieldKeys ks with ⟨incl, excl⟩
  have hx := excludeFields_ends cur excl
  by_cases he : excl.isEmpty = true <;> by_cases hi : incl.isEmpty = true <;>
    simp only [he, hi, if_true, if_false, Bool.false_eq_true]
  · simp
  · simp
  · exact hx
  · exact hx

theorem setField_to (o : Elem) (f : String) (x : JV) : (setField o f x).to = o.to := by
  unfold setField
  dsimp only
  repeat' split
  all_goals rfl

theorem setField_frm (o : Elem) (f : String) (x : JV) : (setField o f x).frm = o.frm := by
  unfold setField
  dsimp only
  repeat' split
  all_goals rfl

theorem mem_stepUnwind {f : String} {t t' : Traveler} (h : t' ∈ stepUnwind f t) :
    (t.cur = none ∧ t' = t) ∨
    ∃ cur i, t.cur = some cur ∧ t' = t.addCurrent (some (setField { cur with loaded := true } f i)) := by
  unfold stepUnwind at h
  split at h
  · rename_i hc
    left
    exact ⟨hc, by simpa using h⟩
  · rename_i cur hc
    obtain ⟨i, _, rfl⟩ := List.mem_map.1 h
    exact Or.inr ⟨cur, i, hc, rfl⟩

section shape2
variable {E : ToPred}

theorem carries_of_elem {ty : DataType} (h : ty = .vertex ∨ ty = .edge) : carriesMarks ty = true := by
  rcases h with rfl | rfl <;> rfl

theorem ws_fields {ty : DataType} {marks : MarkTypes} {t : Traveler} (ks : List String)
    (hty : ty = .vertex ∨ ty = .edge)
    (hE : ty = .edge → E "" ∨ ["to"] ∉ (fieldKeys ks).2)
    (h : WellShapedG E ty marks t) : WellShapedG E ty marks (stepFields ks t) := by
  rcases hty with rfl | rfl
  · obtain ⟨e, he, hfrm, hto⟩ := h.1
    have hends := fieldsElem_ends ks e
    rw [stepFields_eq ks t e he]
    refine ⟨?_, payload_of_carries (carries_of_elem (Or.inl rfl)) _ _, fun hc => h.2.2 hc⟩
    refine ⟨_, rfl, ?_, ?_⟩
    · rcases hends.2.1 with h' | h'
      · exact h'.trans hfrm
      · exact h'
    · rcases hends.1 with h' | h'
      · exact h'.trans hto
      · exact h'
  · obtain ⟨e, he, hto⟩ := h.1
    have hends := fieldsElem_ends ks e
    rw [stepFields_eq ks t e he]
    refine ⟨?_, payload_of_carries (carries_of_elem (Or.inr rfl)) _ _, fun hc => h.2.2 hc⟩
    refine ⟨_, rfl, ?_⟩
    show E (fieldsElem ks e).to
    rcases hE rfl with h0 | hk
    · rcases hends.1 with h' | h'
      · rw [h']; exact hto
      · rw [h']; exact h0
    · rw [hends.2.2 hk]; exact hto

theorem ws_unwind {ty : DataType} {marks : MarkTypes} {t : Traveler} (f : String)
    (h : WellShapedG E ty marks t) : ∀ t' ∈ stepUnwind f t, WellShapedG E ty marks t' := by
  intro t' ht'
  rcases mem_stepUnwind ht' with ⟨_, rfl⟩ | ⟨cur, i, hc, rfl⟩
  · exact h
  have h1 := h.1
  rw [hc] at h1
  cases ty
  case vertex =>
    obtain ⟨e, he, hfrm, hto⟩ := h1
    cases he
    exact ws_addCurrent h rfl rfl
      ⟨_, rfl, (setField_frm _ _ _).trans hfrm, (setField_to _ _ _).trans hto⟩
  case edge =>
    obtain ⟨e, he, hto⟩ := h1
    cases he
    refine ws_addCurrent h rfl rfl ⟨_, rfl, ?_⟩
    rw [setField_to]; exact hto
  case path => exact ws_addCurrent h rfl rfl ⟨_, rfl⟩
  all_goals cases h1

theorem ws_path {ty : DataType} {marks : MarkTypes} {t : Traveler} (hty : ty = .vertex ∨ ty = .edge)
    (h : WellShapedG E ty marks t) : WellShapedG E .path marks t :=
  ⟨cur_of_kind (hty.elim Or.inl (fun h => Or.inr (Or.inl h))) h.1, trivial,
    fun _ => h.2.2 (carries_of_elem hty)⟩

/-- PRESERVATION, one statement, generic in the demand on edges. -/
theorem step_preserves_gen (numOf : String → Option Int) (g : AGraph) (hg : ∀ e ∈ g.edges, E e.to)
    {st st' : TState} {s : Stmt} {ts : List Traveler}
    (hf : st.last = .edge → E "" ∨ keepsTo s) (henv : MarkEnvOK st)
    (hm : shapeModelled s = true) (ht : typeStep st s = .ok st')
    (hin : ∀ t ∈ ts, WellShapedG E st.last st.marks t) :
    ∀ t' ∈ evalStepT numOf g st.last s ts, WellShapedG E st'.last st'.marks t' := by
  have sub : ∀ {out : List Traveler}, st' = st → (∀ t ∈ out, t ∈ ts) →
      ∀ t' ∈ out, WellShapedG E st'.last st'.marks t' := by
    intro out h hs t' ht'; subst h; exact hin t' (hs t' ht')
  cases s with
  | V ids =>
    obtain ⟨hl, rfl⟩ := typeStep_V_ok ht
    rw [hl] at hin
    exact ws_flatMap_addCurrent (ty := .noData) rfl rfl
      (fun t _ t' h => by obtain ⟨v, rfl⟩ := mem_stepV h; exact ⟨_, kind_vertexElem v, rfl⟩) hin
  | E ids =>
    obtain ⟨hl, rfl⟩ := typeStep_E_ok ht
    rw [hl] at hin
    exact ws_flatMap_addCurrent (ty := .noData) rfl rfl
      (fun t _ t' h => by obtain ⟨e, he, rfl⟩ := mem_stepE h; exact ⟨_, kind_edgeElem hg he, rfl⟩) hin
  | out ls =>
    obtain ⟨hl, rfl⟩ := moveToVertex_ok ht
    exact ws_flatMap_addCurrent (carries_of_elem hl) rfl
      (fun t _ t' h => by obtain ⟨v, rfl⟩ := mem_stepOut h; exact ⟨_, kind_vertexElem v, rfl⟩) hin
  | in_ ls =>
    obtain ⟨hl, rfl⟩ := moveToVertex_ok ht
    exact ws_flatMap_addCurrent (carries_of_elem hl) rfl
      (fun t _ t' h => by obtain ⟨v, rfl⟩ := mem_stepIn h; exact ⟨_, kind_vertexElem v, rfl⟩) hin
  | both ls =>
    obtain ⟨hl, rfl⟩ := moveToVertex_ok ht
    exact ws_append
      (ws_flatMap_addCurrent (carries_of_elem hl) rfl
        (fun t _ t' h => by obtain ⟨v, rfl⟩ := mem_stepIn h; exact ⟨_, kind_vertexElem v, rfl⟩) hin)
      (ws_flatMap_addCurrent (carries_of_elem hl) rfl
        (fun t _ t' h => by obtain ⟨v, rfl⟩ := mem_stepOut h; exact ⟨_, kind_vertexElem v, rfl⟩) hin)
  | outE ls =>
    obtain ⟨hl, rfl⟩ := moveToEdge_ok ht
    exact ws_flatMap_addCurrent (carries_of_elem (Or.inl hl)) rfl
      (fun t _ t' h => by obtain ⟨e, he, rfl⟩ := mem_stepOutE h; exact ⟨_, kind_edgeElem hg he, rfl⟩) hin
  | inE ls =>
    obtain ⟨hl, rfl⟩ := moveToEdge_ok ht
    exact ws_flatMap_addCurrent (carries_of_elem (Or.inl hl)) rfl
      (fun t _ t' h => by obtain ⟨e, he, rfl⟩ := mem_stepInE h; exact ⟨_, kind_edgeElem hg he, rfl⟩) hin
  | bothE ls =>
    obtain ⟨hl, rfl⟩ := moveToEdge_ok ht
    exact ws_append
      (ws_flatMap_addCurrent (carries_of_elem (Or.inl hl)) rfl
        (fun t _ t' h => by obtain ⟨e, he, rfl⟩ := mem_stepInE h; exact ⟨_, kind_edgeElem hg he, rfl⟩) hin)
      (ws_flatMap_addCurrent (carries_of_elem (Or.inl hl)) rfl
        (fun t _ t' h => by obtain ⟨e, he, rfl⟩ := mem_stepOutE h; exact ⟨_, kind_edgeElem hg he, rfl⟩) hin)
  | has x => exact sub (needElement_same ht).2 (fun t h => (List.mem_filter.1 h).1)
  | hasLabel ls => exact sub (needElement_nonempty ht).2 (fun t h => (List.mem_filter.1 h).1)
  | hasKey ks => exact sub (needElement_nonempty ht).2 (fun t h => (List.mem_filter.1 h).1)
  | hasId ids => exact sub (needElement_nonempty ht).2 (fun t h => (List.mem_filter.1 h).1)
  | limit n => exact sub (by injection ht with h; exact h.symm) (fun t h => List.mem_of_mem_take h)
  | skip n => exact sub (by injection ht with h; exact h.symm) (fun t h => List.mem_of_mem_drop h)
  | range a b =>
    exact sub (by injection ht with h; exact h.symm) (fun t h => (rangeGo_sublist a b 0 ts).subset h)
  | distinct fs =>
    exact sub (needElement_same ht).2 (fun t h => (distinctGo_sublist _ [] ts).subset h)
  | mark n => exact sub (by injection ht with h; exact h.symm) (fun t h => h)
  | jump m c e => exact sub (by injection ht with h; exact h.symm) (fun t h => h)
  | set k v => exact sub (by injection ht with h; exact h.symm) (fun t h => h)
  | increment k v => exact sub (by injection ht with h; exact h.symm) (fun t h => h)
  | count =>
    injection ht with h; subst h
    intro t' ht'
    have : t' = { count := ts.length } := by simpa [evalStepT] using ht'
    subst this
    exact ⟨rfl, trivial, fun h => by cases h⟩
  | as_ n =>
    obtain ⟨_, rfl⟩ := typeStep_as_ok ht
    intro t' ht'
    obtain ⟨t, htm, rfl⟩ := List.mem_map.1 ht'
    exact ws_addMark n (hin t htm)
  | select ms =>
    obtain ⟨hl, hk⟩ := needElement_ok ht
    intro t' ht'
    obtain ⟨t, htm, rfl⟩ := List.mem_map.1 ht'
    match ms, hk with
    | [], hk => cases hk
    | [m], hk =>
      injection hk with hk; subst hk
      exact ws_addCurrent (hin t htm) (carries_of_elem hl) (henv (carries_of_elem hl) m)
        ((hin t htm).2.2 (carries_of_elem hl) m)
    | a :: b :: rest, hk =>
      injection hk with hk; subst hk
      exact ws_selectMany (a :: b :: rest) (hin t htm) (carries_of_elem hl)
  | fields ks =>
    obtain ⟨hl, rfl⟩ := needElement_same ht
    intro t' ht'
    obtain ⟨t, htm, rfl⟩ := List.mem_map.1 ht'
    exact ws_fields ks hl hf (hin t htm)
  | render tpl =>
    obtain ⟨hl, hk⟩ := needElement_ok ht
    injection hk with hk; subst hk
    intro t' ht'
    obtain ⟨t, htm, rfl⟩ := List.mem_map.1 ht'
    exact ⟨rfl, trivial, fun h => by cases h⟩
  | path tpl =>
    obtain ⟨hl, hk⟩ := needElement_ok ht
    injection hk with hk; subst hk
    intro t' ht'
    exact ws_path hl (hin t' ht')
  | unwind f =>
    injection ht with h; subst h
    intro t' ht'
    obtain ⟨t, htm, htt⟩ := List.mem_flatMap.1 ht'
    exact ws_unwind f (hin t htm) t' htt
  | unknown => cases ht
  | inNull _ => cases hm
  | outNull _ => cases hm
  | inENull _ => cases hm
  | outENull _ => cases hm
  | aggregate _ => cases hm
  | lookupVertsIndex _ => cases hm
  | engineCustom _ _ => cases hm

/-- The static invariant is preserved by the typing step. -/
theorem markEnv_step {st st' : TState} {s : Stmt} (henv : MarkEnvOK st)
    (hm : shapeModelled s = true) (ht : typeStep st s = .ok st') : MarkEnvOK st' := by
  have same : st' = st → MarkEnvOK st' := fun h => h ▸ henv
  have toElem : ∀ ty, carriesMarks st.last = true → st' = { st with last := ty } → MarkEnvOK st' := by
    intro ty hc h; subst h; exact fun _ => henv hc
  have noCarry : ∀ ty, carriesMarks ty = false → st' = { st with last := ty } → MarkEnvOK st' := by
    intro ty hc h; subst h; intro h; simp [hc] at h
  cases s with
  | V ids => obtain ⟨hl, h⟩ := typeStep_V_ok ht; exact toElem _ (by rw [hl]; rfl) h
  | E ids => obtain ⟨hl, h⟩ := typeStep_E_ok ht; exact toElem _ (by rw [hl]; rfl) h
  | out ls => obtain ⟨hl, h⟩ := moveToVertex_ok ht; exact toElem _ (carries_of_elem hl) h
  | in_ ls => obtain ⟨hl, h⟩ := moveToVertex_ok ht; exact toElem _ (carries_of_elem hl) h
  | both ls => obtain ⟨hl, h⟩ := moveToVertex_ok ht; exact toElem _ (carries_of_elem hl) h
  | outE ls => obtain ⟨hl, h⟩ := moveToEdge_ok ht; exact toElem _ (carries_of_elem (Or.inl hl)) h
  | inE ls => obtain ⟨hl, h⟩ := moveToEdge_ok ht; exact toElem _ (carries_of_elem (Or.inl hl)) h
  | bothE ls => obtain ⟨hl, h⟩ := moveToEdge_ok ht; exact toElem _ (carries_of_elem (Or.inl hl)) h
  | has x => exact same (needElement_same ht).2
  | hasLabel ls => exact same (needElement_nonempty ht).2
  | hasKey ks => exact same (needElement_nonempty ht).2
  | hasId ids => exact same (needElement_nonempty ht).2
  | limit n => exact same (by injection ht with h; exact h.symm)
  | skip n => exact same (by injection ht with h; exact h.symm)
  | range a b => exact same (by injection ht with h; exact h.symm)
  | distinct fs => exact same (needElement_same ht).2
  | mark n => exact same (by injection ht with h; exact h.symm)
  | jump m c e => exact same (by injection ht with h; exact h.symm)
  | set k v => exact same (by injection ht with h; exact h.symm)
  | increment k v => exact same (by injection ht with h; exact h.symm)
  | unwind f => exact same (by injection ht with h; exact h.symm)
  | fields ks => exact same (needElement_same ht).2
  | count => injection ht with h; exact noCarry .count rfl h.symm
  | render tpl =>
    obtain ⟨_, hk⟩ := needElement_ok ht
    injection hk with hk; exact noCarry .render rfl hk.symm
  | path tpl =>
    obtain ⟨hl, hk⟩ := needElement_ok ht
    injection hk with hk; exact toElem .path (carries_of_elem hl) hk.symm
  | as_ n =>
    obtain ⟨_, rfl⟩ := typeStep_as_ok ht
    intro hc m
    show carriesMarks ((st.marks.set n st.last).get m) = true
    rw [get_set]
    split
    · exact hc
    · exact henv hc m
  | select ms =>
    obtain ⟨hl, hk⟩ := needElement_ok ht
    match ms, hk with
    | [], hk => cases hk
    | [m], hk => injection hk with hk; exact toElem _ (carries_of_elem hl) hk.symm
    | a :: b :: rest, hk => injection hk with hk; exact noCarry .selection rfl hk.symm
  | unknown => cases ht
  | inNull _ => cases hm
  | outNull _ => cases hm
  | inENull _ => cases hm
  | outENull _ => cases hm
  | aggregate _ => cases hm
  | lookupVertsIndex _ => cases hm
  | engineCustom _ _ => cases hm

end shape2

/-! ### progress: the partial semantics is defined and agrees with the model -/

theorem allDefined_map {α β} {f : α → Option β} {h : α → β} : ∀ {as : List α},
    (∀ a ∈ as, f a = some (h a)) → allDefined f as = some (as.map h)
  | [], _ => rfl
  | a :: as, hf => by
    have h1 := hf a (by simp)
    have h2 := allDefined_map (f := f) (h := h) (as := as) (fun b hb => hf b (by simp [hb]))
    simp only [allDefined, h1, h2, List.map_cons]

theorem filterS_eq {p : Traveler → Option Bool} {q : Traveler → Bool} {ts : List Traveler}
    (h : ∀ t ∈ ts, p t = some (q t)) : filterS p ts = some (ts.filter q) := by
  unfold filterS
  rw [allDefined_map (h := fun t => (t, q t)) (fun t ht => by rw [h t ht]; rfl)]
  simp only [Option.map_some, Option.some.injEq]
  clear h
  induction ts with
  | nil => rfl
  | cons t ts ih =>
    simp only [List.map_cons, List.filter_cons]
    cases q t <;> simp [ih]

theorem flatS_eq {f : Traveler → Option (List Traveler)} {h : Traveler → List Traveler}
    {ts : List Traveler} (hf : ∀ t ∈ ts, f t = some (h t)) : flatS f ts = some (ts.flatMap h) := by
  unfold flatS
  rw [allDefined_map hf, List.flatMap_def]
  rfl

/-! #### field references -/

theorem doc_eq_refElem (t : Traveler) (p : String) : t.doc p = elemDict (refElem t p) := by
  unfold Traveler.doc refElem
  cases Path.namespaceOf p with
  | none => rfl
  | some ns =>
    dsimp only
    split <;> rfl

theorem valueS_eq {t : Traveler} {p : String} {e : Elem} (h : refElem t p = some e) :
    valueS t p = some (t.value p) := by
  unfold valueS Traveler.value
  rw [doc_eq_refElem, h]
  rfl

theorem fieldExistsS_eq {t : Traveler} {p : String} {e : Elem} (h : refElem t p = some e) :
    fieldExistsS t p = some (t.fieldExists p) := by
  unfold fieldExistsS Traveler.fieldExists
  rw [doc_eq_refElem, h]
  rfl

section refs
variable {E : ToPred}

theorem hasCurrent_iff {ty : DataType} (h : hasCurrent ty = true) : ty = .vertex ∨ ty = .edge ∨ ty = .path := by
  cases ty <;> simp [hasCurrent] at h ⊢

theorem carries_of_hasCurrent {ty : DataType} (h : hasCurrent ty = true) : carriesMarks ty = true := by
  cases ty <;> first | rfl | cases h

theorem hasCurrent_of_elem {ty : DataType} (h : ty = .vertex ∨ ty = .edge) : hasCurrent ty = true := by
  rcases h with rfl | rfl <;> rfl

/-- A recorded reference on a well-shaped traveler addresses an element that exists. -/
theorem refElem_defined {ty : DataType} {marks : MarkTypes} {t : Traveler} {p : String}
    (h : WellShapedG E ty marks t) (hty : hasCurrent ty = true) (hr : refRecorded marks p) :
    ∃ e, refElem t p = some e := by
  have hcur := cur_of_kind (hasCurrent_iff hty) h.1
  unfold refRecorded at hr
  unfold refElem
  split
  · exact hcur
  · rename_i ns hns
    rw [hns] at hr
    split
    · exact hcur
    · rename_i hne
      rcases hr with hr | hr
      · exact absurd (by simp [hr]) hne
      · have hm := h.2.2 (carries_of_hasCurrent hty) ns
        revert hr hm
        cases marks.get ns <;> intro hr hm <;> first | cases hr | skip
        · obtain ⟨e, he, _⟩ := hm; exact ⟨e, he⟩
        · obtain ⟨e, he, _⟩ := hm; exact ⟨e, he⟩

end refs

/-! #### has / render / distinct -/

mutual
  theorem evalHasS_eq (numOf : String → Option Int) (lookS : String → Option JV) (look : String → JV) :
      ∀ x : C08.HasE, (∀ k ∈ hasKeys x, lookS k = some (look k)) →
        evalHasS numOf lookS x = some (evalHas numOf look x)
    | .cond k c a, h => by
      simp only [evalHasS, evalHas, h k (by simp [hasKeys]), Option.map_some]
    | .and es, h => by
      simp only [evalHasS, evalHas]
      rw [evalHasListS_eq numOf lookS look es (by simpa [hasKeys] using h)]; rfl
    | .or es, h => by
      simp only [evalHasS, evalHas]
      rw [evalHasListS_eq numOf lookS look es (by simpa [hasKeys] using h)]; rfl
    | .not x, h => by
      simp only [evalHasS, evalHas]
      rw [evalHasS_eq numOf lookS look x (by simpa [hasKeys] using h)]; rfl
    | .none, _ => by simp only [evalHasS, evalHas]
  theorem evalHasListS_eq (numOf : String → Option Int) (lookS : String → Option JV) (look : String → JV) :
      ∀ es : List C08.HasE, (∀ k ∈ hasKeysList es, lookS k = some (look k)) →
        evalHasListS numOf lookS es = some (evalHasList numOf look es)
    | [], _ => by simp only [evalHasListS, evalHasList]
    | x :: xs, h => by
      simp only [evalHasListS, evalHasList]
      rw [evalHasS_eq numOf lookS look x (fun k hk => h k (by simp [hasKeysList, hk])),
        evalHasListS_eq numOf lookS look xs (fun k hk => h k (by simp [hasKeysList, hk]))]
end

mutual
  theorem renderS_eq (t : Traveler) : ∀ tpl : JV, (∀ k ∈ tplKeys tpl, valueS t k = some (t.value k)) →
      renderS t tpl = some (renderT t tpl)
    | .str s, h => by
      simp only [renderS, renderT]; exact h s (by simp [tplKeys])
    | .obj kvs, h => by
      simp only [renderS, renderT]
      rw [renderObjS_eq t kvs (by simpa [tplKeys] using h)]; rfl
    | .arr xs, h => by
      simp only [renderS, renderT]
      rw [renderArrS_eq t xs (by simpa [tplKeys] using h)]; rfl
    | .null, _ => by simp only [renderS, renderT]
    | .bool _, _ => by simp only [renderS, renderT]
    | .num _, _ => by simp only [renderS, renderT]
  theorem renderObjS_eq (t : Traveler) : ∀ kvs : List (String × JV),
      (∀ k ∈ tplKeys.objKeys kvs, valueS t k = some (t.value k)) →
      renderS.renderObjS t kvs = some (renderT.renderObj t kvs)
    | [], _ => by simp only [renderS.renderObjS, renderT.renderObj]
    | (k, v) :: rest, h => by
      simp only [renderS.renderObjS, renderT.renderObj]
      rw [renderS_eq t v (fun k hk => h k (by simp [tplKeys.objKeys, hk])),
        renderObjS_eq t rest (fun k hk => h k (by simp [tplKeys.objKeys, hk]))]
  theorem renderArrS_eq (t : Traveler) : ∀ xs : List JV,
      (∀ k ∈ tplKeys.arrKeys xs, valueS t k = some (t.value k)) →
      renderS.renderArrS t xs = some (renderT.renderArr t xs)
    | [], _ => by simp only [renderS.renderArrS, renderT.renderArr]
    | v :: rest, h => by
      simp only [renderS.renderArrS, renderT.renderArr]
      rw [renderS_eq t v (fun k hk => h k (by simp [tplKeys.arrKeys, hk])),
        renderArrS_eq t rest (fun k hk => h k (by simp [tplKeys.arrKeys, hk]))]
end

theorem distinctKeyS_eq {fields : List String} {t : Traveler}
    (h : ∀ f ∈ fields, ∃ e, refElem t f = some e) :
    distinctKeyS fields t = some (distinctKey fields t) := by
  unfold distinctKeyS distinctKey
  rw [allDefined_map (h := t.fieldExists) (fun f hf => by obtain ⟨e, he⟩ := h f hf; exact fieldExistsS_eq he),
    allDefined_map (h := t.value) (fun f hf => by obtain ⟨e, he⟩ := h f hf; exact valueS_eq he)]
  simp only [List.all_map]
  rfl

theorem distinctGoS_eq {fields : List String} : ∀ {ts : List Traveler} (seen : List (List JV)),
    (∀ t ∈ ts, ∀ f ∈ fields, ∃ e, refElem t f = some e) →
    distinctGoS fields seen ts = some (distinctGo fields seen ts)
  | [], _, _ => rfl
  | t :: ts, seen, h => by
    have hk := distinctKeyS_eq (fields := fields) (t := t) (h t (by simp))
    have ih := fun seen' => distinctGoS_eq (fields := fields) (ts := ts) seen'
      (fun t' ht' => h t' (by simp [ht']))
    unfold distinctGoS distinctGo
    rw [hk]
    cases distinctKey fields t with
    | none => exact ih seen
    | some k =>
      dsimp only
      split
      · exact ih seen
      · rw [ih]; rfl

/-! #### the per-traveler steps -/

theorem stepOutS_eq {g : AGraph} {ty : DataType} {ls : List String} {t : Traveler} {c : Elem}
    (hty : ty = .vertex ∨ ty = .edge) (hc : t.cur = some c) :
    stepOutS g ty ls t = some (stepOut g ty ls t) := by
  rcases hty with rfl | rfl <;> simp [stepOutS, stepOut, hc, curId, curTo]

theorem stepInS_eq {g : AGraph} {ty : DataType} {ls : List String} {t : Traveler} {c : Elem}
    (hty : ty = .vertex ∨ ty = .edge) (hc : t.cur = some c) :
    stepInS g ty ls t = some (stepIn g ty ls t) := by
  rcases hty with rfl | rfl <;> simp [stepInS, stepIn, hc, curId, curFrom]

theorem stepOutES_eq {g : AGraph} {ls : List String} {t : Traveler} {c : Elem} (hc : t.cur = some c) :
    stepOutES g .vertex ls t = some (stepOutE g ls t) := by
  simp [stepOutES, stepOutE, hc, curId]

theorem stepInES_eq {g : AGraph} {ls : List String} {t : Traveler} {c : Elem} (hc : t.cur = some c) :
    stepInES g .vertex ls t = some (stepInE g ls t) := by
  simp [stepInES, stepInE, hc, curId]

theorem curS_eq {ty : DataType} {t : Traveler} (hty : ty = .vertex ∨ ty = .edge) : curS ty t = t.cur := by
  rcases hty with rfl | rfl <;> rfl

theorem stepFieldsS_eq {ty : DataType} {ks : List String} {t : Traveler} {c : Elem}
    (hty : ty = .vertex ∨ ty = .edge) (hc : t.cur = some c) :
    stepFieldsS ty ks t = some (stepFields ks t) := by
  rw [stepFields_eq _ _ _ hc]
  unfold stepFieldsS
  rw [curS_eq hty, hc]
  rfl

theorem stepUnwindS_eq {f : String} {t : Traveler} {c e : Elem} (hc : t.cur = some c)
    (hr : refElem t f = some e) : stepUnwindS f t = some (stepUnwind f t) := by
  unfold stepUnwindS stepUnwind
  rw [valueS_eq hr, hc]
  rfl

theorem stepSelectS_one {m : String} {t : Traveler} {e : Elem} (h : t.getMark m = some e) :
    stepSelectS [m] t = some (stepSelect [m] t) := by
  simp only [stepSelectS, stepSelect, h, Option.map_some]

theorem stepSelectS_many {a b : String} {rest : List String} {t : Traveler}
    (h : ∀ m ∈ a :: b :: rest, ∃ e, t.getMark m = some e) :
    stepSelectS (a :: b :: rest) t = some (stepSelect (a :: b :: rest) t) := by
  simp only [stepSelectS, stepSelect]
  rw [allDefined_map (h := fun m => (m, (t.getMark m).getD {}))]
  · rfl
  · intro m hm
    obtain ⟨e, he⟩ := h m (List.mem_eraseDups.1 hm)
    rw [he]; rfl

section progress
variable {E : ToPred}

theorem cur_some {ty : DataType} {marks : MarkTypes} {t : Traveler} (h : WellShapedG E ty marks t)
    (hty : ty = .vertex ∨ ty = .edge) : ∃ c, t.cur = some c :=
  cur_of_kind (hty.elim Or.inl (fun h => Or.inr (Or.inl h))) h.1

theorem mark_some {ty : DataType} {marks : MarkTypes} {t : Traveler} {m : String}
    (h : WellShapedG E ty marks t) (hty : ty = .vertex ∨ ty = .edge)
    (hm : (marks.get m).isElement = true) : ∃ e, t.getMark m = some e := by
  have := h.2.2 (carries_of_elem hty) m
  revert hm this
  cases marks.get m <;> intro hm this <;> first | cases hm | skip
  · obtain ⟨e, he, _⟩ := this; exact ⟨e, he⟩
  · obtain ⟨e, he, _⟩ := this; exact ⟨e, he⟩

/-- PROGRESS, one statement: on well-shaped input the partial semantics is defined (no branch that
    exists only for totality is used) and is the model's step. -/
theorem step_progress_gen (numOf : String → Option Int) (g : AGraph)
    {st st' : TState} {s : Stmt} {ts : List Traveler}
    (ht : typeStep st s = .ok st') (hs : StaticOK st s)
    (hin : ∀ t ∈ ts, WellShapedG E st.last st.marks t) :
    evalStepStrict numOf g st.last s ts = some (evalStepT numOf g st.last s ts) := by
  have refs : ∀ (hl : st.last = .vertex ∨ st.last = .edge), ∀ t ∈ ts, ∀ p ∈ stmtRefs s,
      ∃ e, refElem t p = some e :=
    fun hl t htm p hp => refElem_defined (hin t htm) (hasCurrent_of_elem hl) (hs.refs p hp)
  cases s with
  | V ids => rfl
  | E ids => rfl
  | out ls =>
    obtain ⟨hl, _⟩ := moveToVertex_ok ht
    exact flatS_eq (fun t htm => by obtain ⟨c, hc⟩ := cur_some (hin t htm) hl; exact stepOutS_eq hl hc)
  | in_ ls =>
    obtain ⟨hl, _⟩ := moveToVertex_ok ht
    exact flatS_eq (fun t htm => by obtain ⟨c, hc⟩ := cur_some (hin t htm) hl; exact stepInS_eq hl hc)
  | both ls =>
    obtain ⟨hl, _⟩ := moveToVertex_ok ht
    show both2 (flatS _ ts) (flatS _ ts) = _
    rw [flatS_eq (fun t htm => by obtain ⟨c, hc⟩ := cur_some (hin t htm) hl; exact stepInS_eq hl hc),
      flatS_eq (fun t htm => by obtain ⟨c, hc⟩ := cur_some (hin t htm) hl; exact stepOutS_eq hl hc)]
    rfl
  | outE ls =>
    obtain ⟨hl, _⟩ := moveToEdge_ok ht
    rw [hl] at hin ⊢
    exact flatS_eq (fun t htm => by
      obtain ⟨c, hc⟩ := cur_some (hin t htm) (Or.inl rfl); exact stepOutES_eq hc)
  | inE ls =>
    obtain ⟨hl, _⟩ := moveToEdge_ok ht
    rw [hl] at hin ⊢
    exact flatS_eq (fun t htm => by
      obtain ⟨c, hc⟩ := cur_some (hin t htm) (Or.inl rfl); exact stepInES_eq hc)
  | bothE ls =>
    obtain ⟨hl, _⟩ := moveToEdge_ok ht
    rw [hl] at hin ⊢
    show both2 (flatS _ ts) (flatS _ ts) = _
    rw [flatS_eq (fun t htm => by
        obtain ⟨c, hc⟩ := cur_some (hin t htm) (Or.inl rfl); exact stepInES_eq hc),
      flatS_eq (fun t htm => by
        obtain ⟨c, hc⟩ := cur_some (hin t htm) (Or.inl rfl); exact stepOutES_eq hc)]
    rfl
  | has x =>
    obtain ⟨hl, _⟩ := needElement_same ht
    exact filterS_eq (fun t htm => evalHasS_eq numOf (valueS t) t.value x (fun k hk => by
      obtain ⟨e, he⟩ := refs hl t htm k hk; exact valueS_eq he))
  | hasLabel ls =>
    obtain ⟨hl, _⟩ := needElement_nonempty ht
    exact filterS_eq (q := keepHasLabel ls) (fun t htm => by
      obtain ⟨c, hc⟩ := cur_some (hin t htm) hl
      simp [curS_eq hl, hc, keepHasLabel, curLabel])
  | hasId ids =>
    obtain ⟨hl, _⟩ := needElement_nonempty ht
    exact filterS_eq (q := keepHasId ids) (fun t htm => by
      obtain ⟨c, hc⟩ := cur_some (hin t htm) hl
      simp [curS_eq hl, hc, keepHasId, curId])
  | hasKey ks =>
    obtain ⟨hl, _⟩ := needElement_nonempty ht
    exact filterS_eq (q := keepHasKey ks) (fun t htm => by
      rw [allDefined_map (h := t.fieldExists) (fun k hk => by
        obtain ⟨e, he⟩ := refs hl t htm k hk; exact fieldExistsS_eq he)]
      simp [keepHasKey, List.all_map])
  | as_ n => rfl
  | select ms =>
    obtain ⟨hl, hk⟩ := needElement_ok ht
    match ms, hk, hs with
    | [], hk, _ => cases hk
    | [m], _, hs =>
      exact allDefined_map (fun t htm => by
        obtain ⟨e, he⟩ := mark_some (hin t htm) hl (hs.marks m (by simp [stmtMarks]))
        exact stepSelectS_one he)
    | a :: b :: rest, _, hs =>
      exact allDefined_map (fun t htm => stepSelectS_many (fun m hm =>
        mark_some (hin t htm) hl (hs.marks m hm)))
  | fields ks =>
    obtain ⟨hl, _⟩ := needElement_same ht
    exact allDefined_map (fun t htm => by
      obtain ⟨c, hc⟩ := cur_some (hin t htm) hl; exact stepFieldsS_eq hl hc)
  | render tpl =>
    obtain ⟨hl, _⟩ := needElement_ok ht
    exact allDefined_map (h := stepRender tpl) (fun t htm => by
      rw [renderS_eq t tpl (fun k hk => by obtain ⟨e, he⟩ := refs hl t htm k hk; exact valueS_eq he)]
      rfl)
  | path tpl => rfl
  | unwind f =>
    have hcur := hs.unwind rfl
    exact flatS_eq (fun t htm => by
      obtain ⟨c, hc⟩ := cur_of_kind (hasCurrent_iff hcur) (hin t htm).1
      obtain ⟨e, he⟩ := refElem_defined (p := f) (hin t htm) hcur (hs.refs f (by simp [stmtRefs]))
      exact stepUnwindS_eq hc he)
  | distinct fs =>
    obtain ⟨hl, _⟩ := needElement_same ht
    exact distinctGoS_eq [] (fun t htm p hp => refs hl t htm p hp)
  | count => rfl
  | limit n => rfl
  | skip n => rfl
  | range a b => rfl
  | unknown => cases ht
  | inNull _ => exact absurd hs.documented (by simp [Stmt.kind, Kind.documented])
  | outNull _ => exact absurd hs.documented (by simp [Stmt.kind, Kind.documented])
  | inENull _ => exact absurd hs.documented (by simp [Stmt.kind, Kind.documented])
  | outENull _ => exact absurd hs.documented (by simp [Stmt.kind, Kind.documented])
  | aggregate _ => exact absurd hs.documented (by simp [Stmt.kind, Kind.documented])
  | lookupVertsIndex _ => exact absurd hs.documented (by simp [Stmt.kind, Kind.documented])
  | engineCustom _ _ => exact absurd hs.documented (by simp [Stmt.kind, Kind.documented])
  | mark _ => exact absurd hs.documented (by simp [Stmt.kind, Kind.documented])
  | jump _ _ _ => exact absurd hs.documented (by simp [Stmt.kind, Kind.documented])
  | set _ _ => exact absurd hs.documented (by simp [Stmt.kind, Kind.documented])
  | increment _ _ => exact absurd hs.documented (by simp [Stmt.kind, Kind.documented])

end progress

/-! ### whole programs -/

theorem documented_shapeModelled {s : Stmt} (h : s.kind.documented = true) : shapeModelled s = true := by
  cases s <;> first | rfl | (simp [Stmt.kind, Kind.documented] at h)

theorem alongTyping_of_forall {P : TState → Stmt → Prop} : ∀ (stmts : List Stmt) (st : TState),
    (∀ s ∈ stmts, ∀ st, P st s) → alongTyping P st stmts
  | [], _, _ => trivial
  | s :: rest, st, h => by
    refine ⟨h s (by simp) st, ?_⟩
    cases typeStep st s with
    | error e => trivial
    | ok st' => exact alongTyping_of_forall rest st' (fun s' hs' => h s' (by simp [hs']))

theorem alongTyping_mono {P Q : TState → Stmt → Prop} (hpq : ∀ st s, P st s → Q st s) :
    ∀ (stmts : List Stmt) (st : TState), alongTyping P st stmts → alongTyping Q st stmts
  | [], _, _ => trivial
  | s :: rest, st, h => by
    refine ⟨hpq _ _ h.1, ?_⟩
    have h2 := h.2
    cases hts : typeStep st s with
    | error e => trivial
    | ok st' =>
      rw [hts] at h2
      exact alongTyping_mono hpq rest st' h2

theorem typeCheck_fold {stmts : List Stmt} {stf : TState} (h : typeCheck stmts = .ok stf) :
    typeFold {} stmts = .ok stf := by
  unfold typeCheck at h
  cases hv : validate stmts with
  | error e => rw [hv] at h; cases h
  | ok u => rw [hv] at h; exact h

theorem evalTrace_final (numOf : String → Option Int) (g : AGraph) :
    ∀ (stmts : List Stmt) (st stf : TState) (ts : List Traveler), typeFold st stmts = .ok stf →
      (stf, evalFrom numOf g st ts stmts) ∈ evalTrace numOf g st ts stmts
  | [], st, stf, ts, h => by
    injection h with h; subst h
    simp [evalTrace, evalFrom]
  | s :: rest, st, stf, ts, h => by
    unfold typeFold at h
    unfold evalTrace evalFrom
    cases hts : typeStep st s with
    | error e => rw [hts] at h; cases h
    | ok st' =>
      rw [hts] at h
      exact List.mem_cons_of_mem _ (evalTrace_final numOf g rest st' stf _ h)

section whole
variable {E : ToPred}

theorem seed_shaped : WellShapedG E .noData [] Traveler.seed :=
  ⟨rfl, trivial, fun _ _ => rfl⟩

theorem markEnv_init : MarkEnvOK {} := fun _ _ => rfl

/-- what preservation asks of each statement, with the static state in front of it -/
def PresHyp (E : ToPred) (st : TState) (s : Stmt) : Prop :=
  shapeModelled s = true ∧ (st.last = .edge → E "" ∨ keepsTo s)

/-- PRESERVATION, whole program: every intermediate traveler list is well shaped. -/
theorem trace_preserves_gen (numOf : String → Option Int) (g : AGraph) (hg : ∀ e ∈ g.edges, E e.to) :
    ∀ (stmts : List Stmt) (st : TState) (ts : List Traveler), MarkEnvOK st →
      alongTyping (PresHyp E) st stmts → (∀ t ∈ ts, WellShapedG E st.last st.marks t) →
      ∀ p ∈ evalTrace numOf g st ts stmts, ∀ t ∈ p.2, WellShapedG E p.1.last p.1.marks t
  | [], st, ts, _, _, hin => by
    intro p hp
    simp only [evalTrace, List.mem_singleton] at hp
    subst hp; exact hin
  | s :: rest, st, ts, henv, hal, hin => by
    intro p hp
    unfold evalTrace at hp
    rcases List.mem_cons.1 hp with rfl | hp
    · exact hin
    · have h2 := hal.2
      cases hts : typeStep st s with
      | error e => rw [hts] at hp; cases hp
      | ok st' =>
        rw [hts] at hp h2
        exact trace_preserves_gen numOf g hg rest st' _ (markEnv_step henv hal.1.1 hts) h2
          (step_preserves_gen numOf g hg hal.1.2 henv hal.1.1 hts hin) p hp

/-- PROGRESS, whole program (needs the lax shape only, hence no assumption on the graph). -/
theorem evalFromStrict_eq (numOf : String → Option Int) (g : AGraph) :
    ∀ (stmts : List Stmt) (st stf : TState) (ts : List Traveler), MarkEnvOK st →
      typeFold st stmts = .ok stf → alongTyping StaticOK st stmts →
      (∀ t ∈ ts, PresentShaped st.last st.marks t) →
      evalFromStrict numOf g st ts stmts = some (evalFrom numOf g st ts stmts)
  | [], _, _, _, _, _, _, _ => rfl
  | s :: rest, st, stf, ts, henv, hf, hal, hin => by
    unfold typeFold at hf
    unfold evalFromStrict evalFrom
    have h2 := hal.2
    cases hts : typeStep st s with
    | error e => rw [hts] at hf; cases hf
    | ok st' =>
      rw [hts] at hf h2
      have hm := documented_shapeModelled hal.1.documented
      dsimp only
      rw [step_progress_gen (E := laxTo) numOf g hts hal.1 hin]
      exact evalFromStrict_eq numOf g rest st' stf _ (markEnv_step henv hm hts) hf h2
        (step_preserves_gen (E := laxTo) numOf g (fun _ _ => trivial) (fun _ => Or.inl trivial)
          henv hm hts hin)

/-! ### rows -/

theorem convert_wellShaped {st : TState} {t : Traveler} (h : WellShapedG E st.last st.marks t) :
    Row.wellShaped E st.last (convert st t) := by
  obtain ⟨last, marks⟩ := st
  unfold convert
  cases last
  case noData => trivial
  case vertex => obtain ⟨e, he, hk⟩ := h.1; simp only [he]; exact hk
  case edge => obtain ⟨e, he, hk⟩ := h.1; simp only [he]; exact hk
  case count => trivial
  case render => trivial
  case path => trivial
  case aggregation => obtain ⟨a, ha⟩ := h.2.1; simp only [ha]; trivial
  case selection =>
    obtain ⟨s, hs, hkv⟩ := h.2.1
    simp only [hs, Option.getD_some]
    intro x hx
    obtain ⟨kv, hkv', hx⟩ := List.mem_filterMap.1 hx
    have hk := hkv kv hkv'
    revert hx hk
    cases marks.get kv.1 <;> intro hx hk <;> cases hx
    · exact Or.inl ⟨rfl, hk.1 rfl⟩
    · exact Or.inr ⟨rfl, hk.2 rfl⟩

theorem wellShaped_hasShape {ty : DataType} {r : Row} (h : Row.wellShaped E ty r) : Row.hasShape ty r := by
  cases ty <;> cases r <;> first | trivial | exact h.elim

end whole

end Grip.Props.C01.Lemmas
