/-
  Crash cuts.  Single-write calls: a cut is the state before or after the call.  DeleteGraph (graph
  key first): after the first write the graph is not listed, and every later write only deletes keys
  owned by that graph (`Doomed`), so what the weak invariant says about the other, listed graphs is
  untouched.  AddGraph: a name that is not listed is swept first (the same deletes, the name stays
  unlisted: `sweep_cut_weak`), then the cuts before the last write only add field keys.
-/
import GripProofs.Lemmas.C04Reopen

namespace Grip.Props.C04.Lemmas
open Grip.C03 Grip.C04 Grip.C04.Spec

/-- The one fact about `String.splitOn` the crash theorems use: the first dot-component of a label
    field of a validly named graph is the graph name (valid names contain no dot).  The kernel cannot
    evaluate `String.splitOn`; the driver re-checks the fact on every graph name of every run. -/
def SplitFact : Prop := ∀ g kind, validName g = true → fieldGraph (labelField g kind) = g

def ValidListed (m : KV) : Prop := ∀ g, m.has (.graph g) = true → validName g = true

/-- Keys DeleteGraph g may delete. -/
def Doomed (g : String) : SKey → Bool
  | .vertex g' _ => g' = g
  | .edge g' _ _ _ _ => g' = g
  | .src g' _ _ _ _ => g' = g
  | .dst g' _ _ _ _ => g' = g
  | .graph g' => g' = g
  | .field f => fieldGraph f = g
  | .term f _ => fieldGraph f = g
  | .entry f _ _ => fieldGraph f = g
  | .doc _ => false

theorem applyAll_get_local (ws : List AW) (k : SKey) (hloc : ∀ w ∈ ws, ∀ m : KV, (w.apply m).get k = m.get k) (m : KV) :
    (applyAll ws m).get k = m.get k := by
  induction ws generalizing m with
  | nil => rfl
  | cons w ws ih =>
    show (applyAll ws (w.apply m)).get k = m.get k
    rw [ih (fun w' hw' => hloc w' (List.mem_cons_of_mem _ hw')), hloc w List.mem_cons_self]

theorem applyAll_has_mono (ws : List AW) (k : SKey)
    (hmono : ∀ w ∈ ws, ∀ m : KV, (w.apply m).has k = true → m.has k = true) (m : KV) :
    (applyAll ws m).has k = true → m.has k = true := by
  induction ws generalizing m with
  | nil => exact id
  | cons w ws ih =>
    intro h
    exact hmono w List.mem_cons_self m (ih (fun w' hw' => hmono w' (List.mem_cons_of_mem _ hw')) (w.apply m) h)

theorem mem_removeFields (fs : List String) (w : AW) (h : w ∈ fs.flatMap removeFieldW) :
    ∃ f ∈ fs, w = .delPat (.terms f) ∨ w = .delPat (.entries f) ∨ w = .del (.field f) := by
  rw [List.mem_flatMap] at h
  obtain ⟨f, hf, hw⟩ := h
  refine ⟨f, hf, ?_⟩
  simpa [removeFieldW] using hw

theorem mem_graphFields (m : KV) (g f : String) (h : f ∈ graphFields m g) : fieldGraph f = g := by
  unfold graphFields at h
  rw [List.mem_filter] at h
  simpa using h.2

theorem mem_writes_delGraph (s : KState) (g : String) (w : AW) :
    w ∈ writes s (.delGraph g) ↔ w = .del (.graph g) ∨ w ∈ sweepW s.kv g := List.mem_cons

/-- Every write of the sweep (DeleteGraph after the graph key; AddGraph of an unlisted name) is a
    delete of doomed keys only. -/
theorem sweep_local (m0 : KV) (g : String) (w : AW) (hw : w ∈ sweepW m0 g) (k : SKey)
    (hk : Doomed g k = false) (m : KV) : (w.apply m).get k = m.get k := by
  unfold sweepW at hw
  rw [List.mem_append] at hw
  rcases hw with hw | hw
  · simp only [List.mem_cons, List.not_mem_nil, or_false] at hw
    rcases hw with rfl | rfl | rfl | rfl
    all_goals
      simp only [AW.apply, get_delWhere]
      split
      · rename_i e; cases k <;> simp_all [Pat.test, Doomed]
      · rfl
  · obtain ⟨f, hf, hw⟩ := mem_removeFields _ _ hw
    have hfg := mem_graphFields _ _ _ hf
    rcases hw with rfl | rfl | rfl
    · simp only [AW.apply, get_delWhere]
      split
      · rename_i e; cases k <;> simp_all [Pat.test, Doomed]
      · rfl
    · simp only [AW.apply, get_delWhere]
      split
      · rename_i e; cases k <;> simp_all [Pat.test, Doomed]
      · rfl
    · simp only [AW.apply, get_del]
      split
      · rename_i e; subst e; simp_all [Doomed]
      · rfl

theorem sweep_mono (m0 : KV) (g : String) (w : AW) (hw : w ∈ sweepW m0 g) (k : SKey)
    (m : KV) : (w.apply m).has k = true → m.has k = true := by
  unfold sweepW at hw
  rw [List.mem_append] at hw
  rcases hw with hw | hw
  · simp only [List.mem_cons, List.not_mem_nil, or_false] at hw
    rcases hw with rfl | rfl | rfl | rfl <;> simp [AW.apply, has_delWhere]
  · obtain ⟨f, _, hw⟩ := mem_removeFields _ _ hw
    rcases hw with rfl | rfl | rfl <;> simp [AW.apply, has_del, has_delWhere]

/-- Every write of DeleteGraph is a delete of doomed keys only. -/
theorem delGraph_local (s : KState) (g : String) (w : AW) (hw : w ∈ writes s (.delGraph g)) (k : SKey)
    (hk : Doomed g k = false) (m : KV) : (w.apply m).get k = m.get k := by
  rw [mem_writes_delGraph] at hw
  rcases hw with rfl | hw
  · simp only [AW.apply, get_del]
    split
    · rename_i e; subst e; simp [Doomed] at hk
    · rfl
  · exact sweep_local _ g w hw k hk m

theorem delGraph_mono (s : KState) (g : String) (w : AW) (hw : w ∈ writes s (.delGraph g)) (k : SKey)
    (m : KV) : (w.apply m).has k = true → m.has k = true := by
  rw [mem_writes_delGraph] at hw
  rcases hw with rfl | hw
  · simp [AW.apply, has_del]
  · exact sweep_mono _ g w hw k m

theorem mem_take {α} (n : Nat) (l : List α) (x : α) (h : x ∈ l.take n) : x ∈ l := List.mem_of_mem_take h

/-- At every cut of DeleteGraph, keys that are not doomed read as before the call. -/
theorem delGraph_cut_get (s : KState) (g : String) (n : Nat) (k : SKey) (hk : Doomed g k = false) :
    (applyPrefix n (writes s (.delGraph g)) s.kv).get k = s.kv.get k := by
  unfold applyPrefix
  exact applyAll_get_local _ k (fun w hw m => delGraph_local s g w (mem_take _ _ _ hw) k hk m) _

/-- After its first write the graph is not listed. -/
theorem delGraph_cut_unlisted (s : KState) (g : String) (n : Nat) (hn : 0 < n) :
    (applyPrefix n (writes s (.delGraph g)) s.kv).has (.graph g) = false := by
  obtain ⟨n', rfl⟩ : ∃ n', n = n' + 1 := ⟨n - 1, by omega⟩
  unfold applyPrefix
  have hw : writes s (.delGraph g) = AW.del (.graph g) ::
      ([AW.delPat (.edges g), .delPat (.verts g), .delPat (.srcs g), .delPat (.dsts g)] ++ (graphFields s.kv g).flatMap removeFieldW) := rfl
  rw [hw, List.take_succ_cons]
  show (applyAll _ ((AW.del (.graph g)).apply s.kv)).has _ = false
  rw [Bool.eq_false_iff]
  intro h
  have := applyAll_has_mono _ (.graph g) (fun w hw' m => delGraph_mono s g w (by
    rw [hw]; exact List.mem_cons_of_mem _ (mem_take _ _ _ hw')) _ m) _ h
  simp [AW.apply, has_del] at this

theorem has_of_get_eq (m m' : KV) (k : SKey) (h : m'.get k = m.get k) : m'.has k = m.has k := by
  rw [has_eq_get, has_eq_get, h]

/-- **DeleteGraph: every cut satisfies the weak invariant.** -/
theorem delGraph_cut_weak (hsplit : SplitFact) (s : KState) (g : String) (n : Nat)
    (hw : WeakInv s.kv) (hv : ValidListed s.kv) :
    WeakInv (applyPrefix n (writes s (.delGraph g)) s.kv) := by
  by_cases hn : n = 0
  · subst hn; exact hw
  have hun := delGraph_cut_unlisted s g n (by omega)
  -- a graph listed at the cut is another graph, listed before, with a valid name
  have key : ∀ g', Listed (applyPrefix n (writes s (.delGraph g)) s.kv) g' →
      g' ≠ g ∧ Listed s.kv g' ∧ (∀ kind, fieldGraph (labelField g' kind) ≠ g) := by
    intro g' hl
    have hne : g' ≠ g := by
      intro e; subst e; unfold Listed at hl; rw [hun] at hl; exact absurd hl (by simp)
    have hd : Doomed g (.graph g') = false := by simp [Doomed, hne]
    have hl' : Listed s.kv g' := by
      unfold Listed at hl ⊢
      rw [← has_of_get_eq _ _ _ (delGraph_cut_get s g n _ hd)]; exact hl
    exact ⟨hne, hl', fun kind => by rw [hsplit g' kind (hv g' hl')]; exact hne⟩
  have hh : ∀ k, Doomed g k = false → (applyPrefix n (writes s (.delGraph g)) s.kv).has k = s.kv.has k :=
    fun k hk => has_of_get_eq _ _ _ (delGraph_cut_get s g n k hk)
  constructor
  · intro g' a b eid l hl h
    obtain ⟨hne, hl', _⟩ := key g' hl
    rw [hh _ (by simp [Doomed, hne])] at h ⊢
    exact hw.src_edge g' a b eid l hl' h
  · intro g' a b eid l hl h
    obtain ⟨hne, hl', _⟩ := key g' hl
    rw [hh _ (by simp [Doomed, hne])] at h ⊢
    exact hw.dst_edge g' a b eid l hl' h
  · intro g' a b eid l hl h
    obtain ⟨hne, hl', _⟩ := key g' hl
    rw [hh _ (by simp [Doomed, hne])] at h
    rw [hh _ (by simp [Doomed, hne]), hh _ (by simp [Doomed, hne])]
    exact hw.edge_adj g' a b eid l hl' h
  · intro g' a b eid l hl h
    obtain ⟨hne, hl', hf⟩ := key g' hl
    rw [hh _ (by simp [Doomed, hne])] at h
    rw [hh _ (by simp [Doomed, hf "e"]), hh _ (by simp [Doomed, hf "e"])]
    exact hw.edge_idx g' a b eid l hl' h
  · intro g' id l data hl h
    obtain ⟨hne, hl', hf⟩ := key g' hl
    rw [delGraph_cut_get s g n _ (by simp [Doomed, hne])] at h
    rw [hh _ (by simp [Doomed, hf "v"]), hh _ (by simp [Doomed, hf "v"])]
    exact hw.vert_idx g' id l data hl' h
  · intro g' hl
    obtain ⟨hne, hl', hf⟩ := key g' hl
    rw [hh _ (by simp [Doomed, hf "v"]), hh _ (by simp [Doomed, hf "e"])]
    exact hw.graph_fields g' hl'

/-! ### AddGraph: the cuts before the last write only add field keys -/

theorem weak_set_field (m : KV) (f : String) (hw : WeakInv m) : WeakInv (m.set (.field f) .unit) := by
  have hl : ∀ g, Listed (m.set (.field f) .unit) g → Listed m g := by
    intro g h; unfold Listed at h ⊢; simpa [has_set] using h
  constructor
  · intro g a b eid l hg h
    simp only [has_set, reduceCtorEq, decide_false, Bool.false_or] at h ⊢
    exact hw.src_edge g a b eid l (hl g hg) h
  · intro g a b eid l hg h
    simp only [has_set, reduceCtorEq, decide_false, Bool.false_or] at h ⊢
    exact hw.dst_edge g a b eid l (hl g hg) h
  · intro g a b eid l hg h
    simp only [has_set, reduceCtorEq, decide_false, Bool.false_or] at h ⊢
    exact hw.edge_adj g a b eid l (hl g hg) h
  · intro g a b eid l hg h
    simp only [has_set, reduceCtorEq, decide_false, Bool.false_or] at h ⊢
    exact hw.edge_idx g a b eid l (hl g hg) h
  · intro g id l data hg h
    simp only [get_set, reduceCtorEq, if_false] at h
    simp only [has_set, reduceCtorEq, decide_false, Bool.false_or]
    exact hw.vert_idx g id l data (hl g hg) h
  · intro g hg
    have := hw.graph_fields g (hl g hg)
    simp only [has_set, Bool.or_eq_true, this.1, this.2, or_true, and_self]

theorem applyPrefix_zero (ws : List AW) (m : KV) : applyPrefix 0 ws m = m := rfl

theorem applyPrefix_all (n : Nat) (ws : List AW) (m : KV) (h : ws.length ≤ n) : applyPrefix n ws m = applyAll ws m := by
  unfold applyPrefix; rw [List.take_of_length_le h]

/-- Calls other than AddGraph/DeleteGraph issue at most one top-level write. -/
theorem writes_single (s : KState) (op : Op) (h1 : ∀ g, op ≠ .addGraph g) (h2 : ∀ g, op ≠ .delGraph g) :
    (writes s op).length ≤ 1 := by
  cases op with
  | addGraph g => exact absurd rfl (h1 g)
  | delGraph g => exact absurd rfl (h2 g)
  | addV g vs => simp only [writes, addW]; split <;> simp
  | addE g es => simp only [writes, addW]; split <;> simp
  | bulk g xs => simp only [writes, addW]; split <;> simp
  | delV g id => simp only [writes]; split <;> simp
  | delE g eid =>
    simp only [writes]
    split
    · simp
    · split <;> simp

/-- A cut of a call with at most one write is the state before or the state after the call. -/
theorem cut_single (s : KState) (op : Op) (n : Nat) (h : (writes s op).length ≤ 1) :
    applyPrefix n (writes s op) s.kv = s.kv ∨ applyPrefix n (writes s op) s.kv = (step s op).1.kv := by
  cases n with
  | zero => exact Or.inl rfl
  | succ n => right; rw [applyPrefix_all _ _ _ (by omega), step_eq_writes]

/-! ### AddGraph: (sweep of an unlisted name, the graph stays unlisted) then two field keys, then the graph key -/

/-- The last three writes of AddGraph. -/
def addGraphSets (g : String) : List AW :=
  [.set (.field (labelField g "v")) .unit, .set (.field (labelField g "e")) .unit, .set (.graph g) .unit]

theorem writes_addGraph (s : KState) (g : String) (hv : validName g = true) :
    writes s (.addGraph g) = (if hasGraph s g then [] else sweepW s.kv g) ++ addGraphSets g := by
  unfold writes addGraphSets; simp [hv]

theorem writes_addGraph_invalid (s : KState) (g : String) (hv : ¬ validName g = true) :
    writes s (.addGraph g) = [] := by
  unfold writes; simp [hv]

theorem applyPrefix_nil (n : Nat) (m : KV) : applyPrefix n [] m = m := by simp [applyPrefix, applyAll]

theorem applyPrefix_append (n : Nat) (a b : List AW) (m : KV) :
    applyPrefix n (a ++ b) m = applyPrefix (n - a.length) b (applyPrefix n a m) := by
  unfold applyPrefix; rw [List.take_append, applyAll_append]

/-- No listed graph has a label field that the sweep of `g` takes for one of `g`'s. -/
def NoForeign (m : KV) (g : String) : Prop :=
  ∀ g', Listed m g' → ∀ kind, fieldGraph (labelField g' kind) ≠ g

theorem noForeign_of_valid (hsplit : SplitFact) (m : KV) (g : String) (hv : ValidListed m)
    (hun : m.has (.graph g) = false) : NoForeign m g := by
  intro g' hl kind
  rw [hsplit g' kind (hv g' hl)]
  intro e; subst e; unfold Listed at hl; rw [hun] at hl; exact absurd hl (by simp)

/-- At every cut of the sweep, keys that are not doomed read as before. -/
theorem sweep_cut_get (m0 m : KV) (g : String) (n : Nat) (k : SKey) (hk : Doomed g k = false) :
    (applyPrefix n (sweepW m0 g) m).get k = m.get k := by
  unfold applyPrefix
  exact applyAll_get_local _ k (fun w hw m => sweep_local m0 g w (mem_take _ _ _ hw) k hk m) _

theorem sweep_cut_mono (m0 m : KV) (g : String) (n : Nat) (k : SKey) :
    (applyPrefix n (sweepW m0 g) m).has k = true → m.has k = true := by
  unfold applyPrefix
  exact applyAll_has_mono _ k (fun w hw m => sweep_mono m0 g w (mem_take _ _ _ hw) k m) _

/-- **The sweep of an unlisted name: every cut satisfies the weak invariant.** -/
theorem sweep_cut_weak (m0 m : KV) (g : String) (n : Nat) (hw : WeakInv m)
    (hun : m.has (.graph g) = false) (hnf : NoForeign m g) :
    WeakInv (applyPrefix n (sweepW m0 g) m) := by
  have key : ∀ g', Listed (applyPrefix n (sweepW m0 g) m) g' →
      g' ≠ g ∧ Listed m g' ∧ (∀ kind, fieldGraph (labelField g' kind) ≠ g) := by
    intro g' hl
    have hl' : Listed m g' := sweep_cut_mono m0 m g n _ hl
    have hne : g' ≠ g := by
      intro e; subst e; unfold Listed at hl'; rw [hun] at hl'; exact absurd hl' (by simp)
    exact ⟨hne, hl', hnf g' hl'⟩
  have hh : ∀ k, Doomed g k = false → (applyPrefix n (sweepW m0 g) m).has k = m.has k :=
    fun k hk => has_of_get_eq _ _ _ (sweep_cut_get m0 m g n k hk)
  constructor
  · intro g' a b eid l hl h
    obtain ⟨hne, hl', _⟩ := key g' hl
    rw [hh _ (by simp [Doomed, hne])] at h ⊢
    exact hw.src_edge g' a b eid l hl' h
  · intro g' a b eid l hl h
    obtain ⟨hne, hl', _⟩ := key g' hl
    rw [hh _ (by simp [Doomed, hne])] at h ⊢
    exact hw.dst_edge g' a b eid l hl' h
  · intro g' a b eid l hl h
    obtain ⟨hne, hl', _⟩ := key g' hl
    rw [hh _ (by simp [Doomed, hne])] at h
    rw [hh _ (by simp [Doomed, hne]), hh _ (by simp [Doomed, hne])]
    exact hw.edge_adj g' a b eid l hl' h
  · intro g' a b eid l hl h
    obtain ⟨hne, hl', hf⟩ := key g' hl
    rw [hh _ (by simp [Doomed, hne])] at h
    rw [hh _ (by simp [Doomed, hf "e"]), hh _ (by simp [Doomed, hf "e"])]
    exact hw.edge_idx g' a b eid l hl' h
  · intro g' id l data hl h
    obtain ⟨hne, hl', hf⟩ := key g' hl
    rw [sweep_cut_get m0 m g n _ (by simp [Doomed, hne])] at h
    rw [hh _ (by simp [Doomed, hf "v"]), hh _ (by simp [Doomed, hf "v"])]
    exact hw.vert_idx g' id l data hl' h
  · intro g' hl
    obtain ⟨hne, hl', hf⟩ := key g' hl
    rw [hh _ (by simp [Doomed, hf "v"]), hh _ (by simp [Doomed, hf "e"])]
    exact hw.graph_fields g' hl'

/-- Cuts of AddGraph given that the completed call is consistent (`hfull`); the hypothesis-free form is
    `addGraph_cut_weak` in `C04Inv`.  (`hsplit`, `hv` joined the hypotheses with the repair of AddGraph:
    its cuts now include those of the sweep.) -/
theorem addGraph_cut (hsplit : SplitFact) (s : KState) (g : String) (n : Nat) (hw : WeakInv s.kv)
    (hv : ValidListed s.kv) (hfull : WeakInv (step s (.addGraph g)).1.kv) :
    WeakInv (applyPrefix n (writes s (.addGraph g)) s.kv) := by
  by_cases hn : (writes s (.addGraph g)).length ≤ n
  · rw [applyPrefix_all _ _ _ hn, step_eq_writes]; exact hfull
  by_cases hvn : validName g = true
  · rw [writes_addGraph s g hvn] at hn ⊢
    rw [applyPrefix_append]
    have hM : WeakInv (applyPrefix n (if hasGraph s g then [] else sweepW s.kv g) s.kv) := by
      by_cases hg : hasGraph s g = true
      · simp only [hg, if_true, applyPrefix_nil]; exact hw
      · simp only [hg, Bool.false_eq_true, if_false]
        have hun : s.kv.has (.graph g) = false := by simpa [hasGraph] using hg
        exact sweep_cut_weak _ _ g n hw hun (noForeign_of_valid hsplit _ g hv hun)
    generalize applyPrefix n (if hasGraph s g then [] else sweepW s.kv g) s.kv = M at hM
    have hj : n - (if hasGraph s g then [] else sweepW s.kv g).length < 3 := by
      simp only [List.length_append, addGraphSets, List.length_cons, List.length_nil] at hn; omega
    generalize n - (if hasGraph s g then [] else sweepW s.kv g).length = j at hj
    match j, hj with
    | 0, _ => exact hM
    | 1, _ => exact weak_set_field _ _ hM
    | 2, _ => exact weak_set_field _ _ (weak_set_field _ _ hM)
  · rw [writes_addGraph_invalid s g hvn]; unfold applyPrefix; simpa [applyAll] using hw

/-! ### acknowledged writes stay: per key, the value before or the value after the call -/

theorem none_stays (ws : List AW) (k : SKey)
    (hdel : ∀ w ∈ ws, ∀ m : KV, (w.apply m).get k = m.get k ∨ (w.apply m).get k = none) (m : KV)
    (h : m.get k = none) : (applyAll ws m).get k = none := by
  induction ws generalizing m with
  | nil => exact h
  | cons w ws ih =>
    apply ih (fun w' hw' => hdel w' (List.mem_cons_of_mem _ hw'))
    rcases hdel w List.mem_cons_self m with e | e
    · rw [e, h]
    · exact e

theorem del_only_present (ws : List AW) (k : SKey)
    (hdel : ∀ w ∈ ws, ∀ m : KV, (w.apply m).get k = m.get k ∨ (w.apply m).get k = none) (m : KV) (n : Nat) :
    (applyAll (ws.take n) m).get k = m.get k ∨
      ((applyAll (ws.take n) m).get k = none ∧ (applyAll ws m).get k = none) := by
  induction ws generalizing m n with
  | nil => left; simp [applyAll]
  | cons w ws ih =>
    cases n with
    | zero => left; rfl
    | succ n =>
      rw [List.take_succ_cons]
      have hd' := fun w' hw' => hdel w' (List.mem_cons_of_mem _ hw')
      rcases ih hd' (w.apply m) n with e | e
      · rcases hdel w List.mem_cons_self m with e' | e'
        · left; exact e.trans e'
        · right
          exact ⟨e.trans e', none_stays ws k hd' _ e'⟩
      · right; exact e

theorem sweep_del_only (m0 : KV) (g : String) (w : AW) (hw : w ∈ sweepW m0 g) (k : SKey) (m : KV) :
    (w.apply m).get k = m.get k ∨ (w.apply m).get k = none := by
  unfold sweepW at hw
  rw [List.mem_append] at hw
  rcases hw with hw | hw
  · simp only [List.mem_cons, List.not_mem_nil, or_false] at hw
    rcases hw with rfl | rfl | rfl | rfl <;>
      (simp only [AW.apply, get_delWhere]; split <;> simp)
  · obtain ⟨f, _, hw⟩ := mem_removeFields _ _ hw
    rcases hw with rfl | rfl | rfl <;>
      (simp only [AW.apply, get_del, get_delWhere]; split <;> simp)

theorem delGraph_del_only (s : KState) (g : String) (w : AW) (hw : w ∈ writes s (.delGraph g)) (k : SKey) (m : KV) :
    (w.apply m).get k = m.get k ∨ (w.apply m).get k = none := by
  rw [mem_writes_delGraph] at hw
  rcases hw with rfl | hw
  · simp only [AW.apply, get_del]; split <;> simp
  · exact sweep_del_only _ g w hw k m

theorem present_delGraph (s : KState) (g : String) (n : Nat) :
    Present s.kv (applyPrefix n (writes s (.delGraph g)) s.kv) (step s (.delGraph g)).1.kv := by
  intro k
  rw [← step_eq_writes]
  rcases del_only_present _ k (fun w hw m => delGraph_del_only s g w hw k m) s.kv n with e | e
  · left; exact e
  · right; unfold applyPrefix; rw [e.1, e.2]

theorem present_sets (M : KV) (g : String) (j : Nat) :
    Present M (applyPrefix j (addGraphSets g) M) (applyAll (addGraphSets g) M) := by
  intro k
  match j with
  | 0 => left; rfl
  | 1 =>
    simp only [addGraphSets, applyPrefix, applyAll, List.take, List.foldl_cons, List.foldl_nil, AW.apply, get_set]
    by_cases h1 : SKey.field (labelField g "v") = k
    · right; simp [h1]
    · left; simp [h1]
  | 2 =>
    simp only [addGraphSets, applyPrefix, applyAll, List.take, List.foldl_cons, List.foldl_nil, AW.apply, get_set]
    by_cases h2 : SKey.field (labelField g "e") = k
    · right; subst h2; simp
    · by_cases h1 : SKey.field (labelField g "v") = k
      · right; subst h1; simp [h2]
      · left; simp [h1, h2]
  | n + 3 => right; rw [applyPrefix_all _ _ _ (by simp [addGraphSets])]

/-- AddGraph of a listed name (or of an invalid one): every key as before or as after. -/
theorem present_addGraph (s : KState) (g : String) (n : Nat) (h : ¬ validName g = true ∨ hasGraph s g = true) :
    Present s.kv (applyPrefix n (writes s (.addGraph g)) s.kv) (step s (.addGraph g)).1.kv := by
  rw [← step_eq_writes]
  by_cases hv : validName g = true
  · rcases h with h | h
    · exact absurd hv h
    · rw [writes_addGraph s g hv]; simp only [h, if_true, List.nil_append]
      exact present_sets s.kv g n
  · rw [writes_addGraph_invalid s g hv]; intro k; left; simp [applyPrefix, applyAll]

/-- A key at a cut of the sweep: as before, or a doomed key already deleted. -/
theorem sweep_prefix_get (m0 m : KV) (g : String) (n : Nat) (k : SKey) :
    (applyPrefix n (sweepW m0 g) m).get k = m.get k ∨
      (Doomed g k = true ∧ (applyPrefix n (sweepW m0 g) m).get k = none) := by
  by_cases hd : Doomed g k = true
  · rcases del_only_present _ k (fun w hw m => sweep_del_only m0 g w hw k m) m n with e | e
    · left; exact e
    · right; exact ⟨hd, e.1⟩
  · left; exact sweep_cut_get m0 m g n k (by simpa using hd)

/-- Every key holds its value before the call, its value after the completed call, or it is a key owned
    by the (unlisted) name `g` that the sweep has already deleted. -/
def PresentSwept (g : String) (before cut after : KV) : Prop :=
  ∀ k, cut.get k = before.get k ∨ cut.get k = after.get k ∨ (Doomed g k = true ∧ cut.get k = none)

theorem presentSwept_addGraph (s : KState) (g : String) (n : Nat) :
    PresentSwept g s.kv (applyPrefix n (writes s (.addGraph g)) s.kv) (step s (.addGraph g)).1.kv := by
  by_cases h : ¬ validName g = true ∨ hasGraph s g = true
  · intro k
    rcases present_addGraph s g n h k with e | e
    · exact Or.inl e
    · exact Or.inr (Or.inl e)
  have hv : validName g = true := Classical.not_not.1 (fun hh => h (Or.inl hh))
  have hg : ¬ hasGraph s g = true := fun hh => h (Or.inr hh)
  rw [← step_eq_writes, writes_addGraph s g hv]
  simp only [hg, Bool.false_eq_true, if_false]
  intro k
  rw [applyPrefix_append, applyAll_append]
  by_cases hn : n ≤ (sweepW s.kv g).length
  · rw [Nat.sub_eq_zero_of_le hn, applyPrefix_zero]
    rcases sweep_prefix_get s.kv s.kv g n k with e | e
    · exact Or.inl e
    · exact Or.inr (Or.inr e)
  · have hM : applyPrefix n (sweepW s.kv g) s.kv = applyAll (sweepW s.kv g) s.kv :=
      applyPrefix_all _ _ _ (by omega)
    rcases present_sets (applyAll (sweepW s.kv g) s.kv) g (n - (sweepW s.kv g).length) k with e | e
    · have h' := sweep_prefix_get s.kv s.kv g n k
      rw [hM] at h' ⊢
      rw [e]
      rcases h' with e' | e'
      · exact Or.inl e'
      · exact Or.inr (Or.inr e')
    · rw [hM]; exact Or.inr (Or.inl e)

end Grip.Props.C04.Lemmas
