import Grip.Model.C12Multi

/-! Protocol invariant of a mark fed by several jumps (Grip.Model.C12Multi): signal-copy
    counting, "no traveler behind a signal copy", "every traveler is ahead of a copy". -/
set_option linter.unusedSimpArgs false
namespace Grip.Props.C12.Multi.Lemmas
open Grip.C12 (Msg Phase)
open Grip.C12.Multi

variable {T : Type}

/-! ### jumps on the main line -/

theorem njumps_append (a b : List (MStage T)) : njumps (a ++ b) = njumps a + njumps b := by
  induction a with
  | nil => simp [njumps]
  | cons x r ih => cases x <;> simp [njumps, ih] <;> omega

theorem drop_of_getElem? {α : Type} {l : List α} {i : Nat} {a : α} (h : l[i]? = some a) :
    l.drop i = a :: l.drop (i + 1) := by
  obtain ⟨hi, ha⟩ := List.getElem?_eq_some_iff.mp h
  rw [List.drop_eq_getElem_cons hi, ha]

theorem jumpsFrom_body {sys : List (MStage T)} {i : Nat} {f : T → List T}
    (h : sys[i]? = some (.body f)) : jumpsFrom sys i = jumpsFrom sys (i + 1) := by
  simp [jumpsFrom, drop_of_getElem? h, njumps]

theorem jumpsFrom_jump {sys : List (MStage T)} {i : Nat} {c : T → Bool} {e : Bool}
    (h : sys[i]? = some (.jump c e)) : jumpsFrom sys i = jumpsFrom sys (i + 1) + 1 := by
  simp [jumpsFrom, drop_of_getElem? h, njumps]

theorem jumpsFrom_ge {sys : List (MStage T)} {i : Nat} (h : sys.length ≤ i) : jumpsFrom sys i = 0 := by
  simp [jumpsFrom, List.drop_eq_nil_of_le h, njumps]

theorem jumpsFrom_zero (sys : List (MStage T)) : jumpsFrom sys 0 = nIn sys := by
  simp [jumpsFrom, nIn]

theorem jumpsFrom_pos {sys : List (MStage T)} (hl : LastJump sys) {i : Nat} (h : i < sys.length) :
    0 < jumpsFrom sys i := by
  obtain ⟨pre, c, e, rfl⟩ := hl
  have hi : i ≤ pre.length := by simp at h; omega
  simp [jumpsFrom, List.drop_append_of_le_length hi, njumps_append, njumps]

theorem isJump_of_jump {sys : List (MStage T)} {i : Nat} {c : T → Bool} {e : Bool}
    (h : sys[i]? = some (.jump c e)) : isJump sys i = true := by
  simp [isJump, h]

theorem isJump_of_body {sys : List (MStage T)} {i : Nat} {f : T → List T}
    (h : sys[i]? = some (.body f)) : isJump sys i = false := by
  simp [isJump, h]

theorem lt_of_getElem? {α : Type} {l : List α} {i : Nat} {a : α} (h : l[i]? = some a) : i < l.length :=
  (List.getElem?_eq_some_iff.mp h).1

/-! ### signal mass -/

theorem sigMass_append (sys : List (MStage T)) (A B : List (Chan × Msg T)) :
    sigMass sys (A ++ B) = sigMass sys A + sigMass sys B := by
  induction A with
  | nil => simp [sigMass]
  | cons x r ih =>
    obtain ⟨c, m⟩ := x
    cases m <;> simp [sigMass, ih] <;> omega

theorem sigMass_travs (sys : List (MStage T)) {l : List (Chan × Msg T)}
    (h : ∀ x ∈ l, isSig x = false) : sigMass sys l = 0 := by
  induction l with
  | nil => rfl
  | cons x r ih =>
    obtain ⟨c, m⟩ := x
    cases m with
    | trav t => simpa [sigMass] using ih (fun y hy => h y (by simp [hy]))
    | sig k => have := h (c, Msg.sig k) (by simp); simp [isSig] at this

theorem outMain_travs (n i : Nat) (ts : List T) : ∀ x ∈ outMain n i ts, isSig x = false := by
  intro x hx
  unfold outMain at hx
  split at hx
  · simp only [List.mem_map] at hx
    obtain ⟨u, _, rfl⟩ := hx
    rfl
  · simp at hx

theorem sigMass_sigMain (sys : List (MStage T)) (i k : Nat) :
    sigMass sys (sigMain sys.length i k : List (Chan × Msg T)) = jumpsFrom sys i := by
  unfold sigMain
  split
  · simp [sigMass, wgt]
  · rw [jumpsFrom_ge (by omega)]; rfl

/-- With the last stage a jump, a signal-free cycle is one of signal mass 0. -/
theorem noSig_of_mass {sys : List (MStage T)} (hl : LastJump sys) {W : List (Chan × Msg T)}
    (hv : ∀ x ∈ W, Valid sys x.1) (h : sigMass sys W = 0) : ∀ x ∈ W, isSig x = false := by
  induction W with
  | nil => intro x hx; simp at hx
  | cons y r ih =>
    obtain ⟨c, m⟩ := y
    cases m with
    | trav t =>
      intro x hx
      simp only [List.mem_cons] at hx
      rcases hx with rfl | hx
      · rfl
      · exact ih (fun z hz => hv z (by simp [hz])) (by simpa [sigMass] using h) x hx
    | sig k =>
      exfalso
      have hvc := hv (c, Msg.sig k) (by simp)
      simp only [sigMass] at h
      cases c with
      | main i =>
        have := jumpsFrom_pos hl (i := i) hvc
        simp only [wgt] at h
        omega
      | side j q => simp [wgt] at h

/-! ### clean -/

theorem cleanM_of_allSig {W : List (Chan × Msg T)} (h : W.all isSig = true) : cleanM W = true := by
  cases W with
  | nil => rfl
  | cons x r =>
    obtain ⟨c, m⟩ := x
    cases m with
    | trav t => simp [isSig] at h
    | sig k => simp only [List.all_cons, Bool.and_eq_true] at h; simpa [cleanM] using h.2

theorem cleanM_travs_append {ys : List (Chan × Msg T)} (h : ∀ y ∈ ys, isSig y = false)
    (B : List (Chan × Msg T)) : cleanM (ys ++ B) = cleanM B := by
  induction ys with
  | nil => rfl
  | cons x r ih =>
    obtain ⟨c, m⟩ := x
    cases m with
    | trav t => simpa [cleanM] using ih (fun y hy => h y (by simp [hy]))
    | sig k => have := h (c, Msg.sig k) (by simp); simp [isSig] at this

theorem cleanM_replace_trav (A B ys : List (Chan × Msg T)) (c : Chan) (t : T)
    (h : cleanM (A ++ (c, Msg.trav t) :: B) = true) (hy : ∀ y ∈ ys, isSig y = false) :
    cleanM (A ++ ys ++ B) = true := by
  induction A with
  | nil => simpa [cleanM, cleanM_travs_append hy] using h
  | cons x r ih =>
    obtain ⟨d, m⟩ := x
    cases m with
    | trav u => simpa [cleanM] using ih (by simpa [cleanM] using h)
    | sig q => simp [cleanM, isSig] at h

theorem cleanM_replace_sig (A B ys : List (Chan × Msg T)) (c : Chan) (k : Nat)
    (h : cleanM (A ++ (c, Msg.sig k) :: B) = true) (hy : ys.all isSig = true) :
    cleanM (A ++ ys ++ B) = true := by
  induction A with
  | nil =>
    apply cleanM_of_allSig
    simp only [cleanM, List.nil_append] at h
    simp [List.all_append, hy, h]
  | cons x r ih =>
    obtain ⟨d, m⟩ := x
    cases m with
    | trav u => simpa [cleanM] using ih (by simpa [cleanM] using h)
    | sig q =>
      simp only [cleanM, List.cons_append, List.all_append, List.all_cons, Bool.and_eq_true] at h ⊢
      exact ⟨⟨h.1, hy⟩, h.2.2⟩

/-- Behind a signal copy there are only signal copies. -/
theorem cleanM_after {A B : List (Chan × Msg T)} {c : Chan} {k : Nat}
    (h : cleanM (A ++ (c, Msg.sig k) :: B) = true) : B.all isSig = true := by
  induction A with
  | nil => simpa [cleanM] using h
  | cons x r ih =>
    obtain ⟨d, m⟩ := x
    cases m with
    | trav u => exact ih (by simpa [cleanM] using h)
    | sig q =>
      simp only [cleanM, List.cons_append, List.all_append, List.all_cons, Bool.and_eq_true] at h
      exact h.2.2

/-- FIFO + clean: when a stage takes a signal copy from channel `c`, no traveler is in `c`. -/
theorem no_trav_same_chan {A B : List (Chan × Msg T)} {c : Chan} {k : Nat}
    (h : cleanM (A ++ (c, Msg.sig k) :: B) = true) (hA : ∀ x ∈ A, x.1 ≠ c) (t : T) :
    (c, Msg.trav t) ∉ A ++ B := by
  intro hm
  simp only [List.mem_append] at hm
  rcases hm with hm | hm
  · exact hA _ hm rfl
  · have := List.all_eq_true.mp (cleanM_after h) _ hm
    simp [isSig] at this

/-! ### cover -/

theorem le_refl (c : Chan) : Chan.le c c = true := by
  cases c <;> simp [Chan.le]

theorem le_trans {a b c : Chan} (h1 : Chan.le a b = true) (h2 : Chan.le b c = true) :
    Chan.le a c = true := by
  cases a <;> cases b <;> cases c <;> simp [Chan.le] at * <;> omega

theorem main0_le (c : Chan) : Chan.le (Chan.main 0) c = true := by
  cases c <;> simp [Chan.le]

/-- In-place replacement of the message `x` by `ys` keeps `Covered`, provided new travelers stem
    from a traveler upstream, and the travelers a replaced signal covered are covered by `ys`. -/
theorem covered_replace {A B ys : List (Chan × Msg T)} {x : Chan × Msg T}
    (h : Covered (A ++ x :: B))
    (hnew : ∀ c t, (c, Msg.trav t) ∈ ys → ∃ t0, x.2 = Msg.trav t0 ∧ Chan.le x.1 c = true)
    (hsig : ∀ k, x.2 = Msg.sig k → ∀ c t, (c, Msg.trav t) ∈ A ++ B → Chan.le x.1 c = true →
      ∃ c1 k1, (c1, Msg.sig k1) ∈ ys ∧ Chan.le c1 c = true) :
    Covered (A ++ ys ++ B) := by
  -- cover of a channel `c` that was covered in the old list
  have key : ∀ c, (∀ t0, x.2 = Msg.trav t0 → True) →
      (∃ c' k, (c', Msg.sig k) ∈ A ++ x :: B ∧ Chan.le c' c = true) →
      (∀ k, x = (x.1, Msg.sig k) → Chan.le x.1 c = true →
        ∃ c1 k1, (c1, Msg.sig k1) ∈ ys ∧ Chan.le c1 c = true) →
      ∃ c' k, (c', Msg.sig k) ∈ A ++ ys ++ B ∧ Chan.le c' c = true := by
    intro c _ ⟨c', k, hm, hle⟩ hx
    simp only [List.mem_append, List.mem_cons] at hm
    rcases hm with hm | hm | hm
    · exact ⟨c', k, by simp [hm], hle⟩
    · obtain ⟨c1, k1, h1, h2⟩ := hx k (by rw [← hm]) (by rw [← hm]; exact hle)
      exact ⟨c1, k1, by simp [h1], h2⟩
    · exact ⟨c', k, by simp [hm], hle⟩
  intro c t hm
  simp only [List.mem_append] at hm
  have old : (c, Msg.trav t) ∈ A ++ B →
      ∃ c' k, (c', Msg.sig k) ∈ A ++ ys ++ B ∧ Chan.le c' c = true := by
    intro hAB
    have hin : (c, Msg.trav t) ∈ A ++ x :: B := by
      simp only [List.mem_append, List.mem_cons] at hAB ⊢
      rcases hAB with h1 | h1
      · exact Or.inl h1
      · exact Or.inr (Or.inr h1)
    apply key c (fun _ _ => trivial) (h c t hin)
    intro k hxk hle
    exact hsig k (by rw [hxk]) c t hAB hle
  rcases hm with (hm | hm) | hm
  · exact old (by simp [hm])
  · obtain ⟨t0, hx2, hle⟩ := hnew c t hm
    have hin : (x.1, Msg.trav t0) ∈ A ++ x :: B := by
      have : x = (x.1, Msg.trav t0) := by rw [← hx2]
      simp only [List.mem_append, List.mem_cons]
      exact Or.inr (Or.inl this.symm)
    obtain ⟨c', k, hm', hle'⟩ := h x.1 t0 hin
    simp only [List.mem_append, List.mem_cons] at hm'
    rcases hm' with hm' | hm' | hm'
    · exact ⟨c', k, by simp [hm'], le_trans hle' hle⟩
    · rw [← hm'] at hx2; cases hx2
    · exact ⟨c', k, by simp [hm'], le_trans hle' hle⟩
  · exact old (by simp [hm])

theorem empty_of_noSig_covered {W : List (Chan × Msg T)} (h1 : ∀ x ∈ W, isSig x = false)
    (h2 : Covered W) : W = [] := by
  cases W with
  | nil => rfl
  | cons x r =>
    exfalso
    obtain ⟨c, m⟩ := x
    cases m with
    | trav t =>
      obtain ⟨c', k, hm, _⟩ := h2 c t (by simp)
      have := h1 _ hm
      simp [isSig] at this
    | sig k =>
      have := h1 (c, Msg.sig k) (by simp)
      simp [isSig] at this

theorem mem_replace {α : Type} {A B ys : List α} {y x : α} (h : x ∈ A ++ ys ++ B) :
    x ∈ A ++ y :: B ∨ x ∈ ys := by
  simp only [List.mem_append, List.mem_cons] at h ⊢
  rcases h with (h | h) | h
  · exact Or.inl (Or.inl h)
  · exact Or.inr h
  · exact Or.inl (Or.inr (Or.inr h))

/-! ### the invariant -/

structure MInv (sys : List (MStage T)) (s : State T) : Prop where
  tags : ∀ x ∈ s.W, Valid sys x.1
  openFlags : s.phase = .open → s.signalActive = false
  flags : s.signalActive = false → s.signalOutdated = false
  inactive : s.signalActive = false → s.returnCount = 0 ∧ ∀ x ∈ s.W, isSig x = false
  count : s.signalActive = true → s.returnCount + sigMass sys s.W = nIn sys
  clean : s.signalActive = true → s.signalOutdated = false → cleanM s.W = true ∧ Covered s.W
  inpE : s.phase ≠ .open → s.inp = []
  closedW : s.phase = .closed → s.W = []

theorem minv_init (sys : List (MStage T)) (inp : List T) : MInv sys (init inp) := by
  constructor <;> simp [init]

/-- A traveler replaced in place by travelers downstream of it. -/
theorem inv_replace_trav {sys : List (MStage T)} {s s' : State T} {A B ys : List (Chan × Msg T)}
    {c : Chan} {t : T} (inv : MInv sys s) (hW : s.W = A ++ (c, Msg.trav t) :: B)
    (hW' : s'.W = A ++ ys ++ B) (hp : s'.phase = s.phase) (hi : s'.inp = s.inp)
    (hrc : s'.returnCount = s.returnCount) (ha : s'.signalActive = s.signalActive)
    (ho : s'.signalOutdated = s.signalOutdated)
    (hy : ∀ y ∈ ys, isSig y = false ∧ Valid sys y.1 ∧ Chan.le c y.1 = true) : MInv sys s' := by
  have hmass : sigMass sys s'.W = sigMass sys s.W := by
    rw [hW', hW]
    simp [sigMass_append, sigMass, sigMass_travs sys (fun y h => (hy y h).1)]
  constructor
  · intro x hx
    rw [hW'] at hx
    rcases mem_replace (y := (c, Msg.trav t)) hx with h | h
    · exact inv.tags x (by rw [hW]; exact h)
    · exact (hy x h).2.1
  · rw [hp, ha]; exact inv.openFlags
  · rw [ha, ho]; exact inv.flags
  · rw [ha, hrc]
    intro h
    refine ⟨(inv.inactive h).1, fun x hx => ?_⟩
    rw [hW'] at hx
    rcases mem_replace (y := (c, Msg.trav t)) hx with h' | h'
    · exact (inv.inactive h).2 x (by rw [hW]; exact h')
    · exact (hy x h').1
  · rw [ha, hrc, hmass]; exact inv.count
  · rw [ha, ho]
    intro h1 h2
    obtain ⟨hc, hcov⟩ := inv.clean h1 h2
    rw [hW] at hc hcov
    rw [hW']
    refine ⟨cleanM_replace_trav A B ys c t hc (fun y h => (hy y h).1), ?_⟩
    apply covered_replace hcov
    · intro c2 t2 hm
      exact ⟨t, rfl, (hy _ hm).2.2⟩
    · intro k hk; cases hk
  · rw [hp, hi]; exact inv.inpE
  · rw [hp]
    intro h
    have := inv.closedW h
    rw [hW] at this
    simp at this

/-- A signal copy replaced in place by signal copies that take over its deliveries and its cover. -/
theorem inv_replace_sig {sys : List (MStage T)} {s s' : State T} {A B ys : List (Chan × Msg T)}
    {c : Chan} {k : Nat} (inv : MInv sys s) (hW : s.W = A ++ (c, Msg.sig k) :: B)
    (hA : ∀ x ∈ A, x.1 ≠ c)
    (hW' : s'.W = A ++ ys ++ B) (hp : s'.phase = s.phase) (hi : s'.inp = s.inp)
    (ha : s'.signalActive = s.signalActive)
    (ho : s'.signalOutdated = s.signalOutdated)
    (hy : ys.all isSig = true) (hv : ∀ y ∈ ys, Valid sys y.1)
    (hm : s'.returnCount + sigMass sys ys = s.returnCount + wgt sys c)
    (hcov : ∀ c2, Valid sys c2 → Chan.le c c2 = true → c2 ≠ c →
      ∃ c1 k1, (c1, Msg.sig k1) ∈ ys ∧ Chan.le c1 c2 = true) : MInv sys s' := by
  have hmass : s'.returnCount + sigMass sys s'.W = s.returnCount + sigMass sys s.W := by
    rw [hW', hW]
    simp only [sigMass_append, sigMass]
    omega
  have hact : s.signalActive = true := by
    cases h : s.signalActive with
    | true => rfl
    | false =>
      have := (inv.inactive h).2 (c, Msg.sig k) (by rw [hW]; simp)
      simp [isSig] at this
  constructor
  · intro x hx
    rw [hW'] at hx
    rcases mem_replace (y := (c, Msg.sig k)) hx with h | h
    · exact inv.tags x (by rw [hW]; exact h)
    · exact hv x h
  · rw [hp, ha]; exact inv.openFlags
  · rw [ha, ho]; exact inv.flags
  · rw [ha, hact]; intro h; cases h
  · rw [ha, hmass]; exact inv.count
  · rw [ha, ho]
    intro h1 h2
    obtain ⟨hc, hcv⟩ := inv.clean h1 h2
    rw [hW] at hc hcv
    rw [hW']
    refine ⟨cleanM_replace_sig A B ys c k hc hy, ?_⟩
    apply covered_replace hcv
    · intro c2 t2 hm2
      have := List.all_eq_true.mp hy _ hm2
      simp [isSig] at this
    · intro k' _ c2 t2 hm2 hle
      apply hcov c2 _ hle
      · intro he
        subst he
        exact no_trav_same_chan hc hA t2 hm2
      · apply inv.tags (c2, Msg.trav t2)
        rw [hW]
        simp only [List.mem_append, List.mem_cons] at hm2 ⊢
        rcases hm2 with h | h
        · exact Or.inl h
        · exact Or.inr (Or.inr h)
  · rw [hp, hi]; exact inv.inpE
  · rw [hp]
    intro h
    have := inv.closedW h
    rw [hW] at this
    simp at this

/-- The mark forwards a traveler taken from a jump input (`out <- msg`). -/
theorem inv_move {sys : List (MStage T)} {s s' : State T} {A B : List (Chan × Msg T)}
    {c : Chan} {t : T} (inv : MInv sys s) (hn : 0 < sys.length)
    (hW : s.W = A ++ (c, Msg.trav t) :: B)
    (hW' : s'.W = A ++ B ++ [(Chan.main 0, Msg.trav t)]) (hp : s'.phase = s.phase)
    (hi : s'.inp = s.inp) (hrc : s'.returnCount = s.returnCount)
    (ha : s'.signalActive = s.signalActive)
    (ho : s'.signalOutdated = (s.signalActive || s.signalOutdated)) : MInv sys s' := by
  have hmass : sigMass sys s'.W = sigMass sys s.W := by
    rw [hW', hW]
    simp [sigMass_append, sigMass]
  have hmem : ∀ x ∈ s'.W, x ∈ s.W ∨ x = (Chan.main 0, Msg.trav t) := by
    intro x hx
    rw [hW'] at hx
    rw [hW]
    simp only [List.mem_append, List.mem_cons, List.mem_singleton, List.not_mem_nil, or_false] at hx ⊢
    rcases hx with (h | h) | h
    · exact Or.inl (Or.inl h)
    · exact Or.inl (Or.inr (Or.inr h))
    · exact Or.inr h
  constructor
  · intro x hx
    rcases hmem x hx with h | h
    · exact inv.tags x h
    · rw [h]; exact hn
  · rw [hp, ha]; exact inv.openFlags
  · rw [ha, ho]
    intro h
    simp [h, inv.flags h]
  · rw [ha, hrc]
    intro h
    refine ⟨(inv.inactive h).1, fun x hx => ?_⟩
    rcases hmem x hx with h' | h'
    · exact (inv.inactive h).2 x h'
    · rw [h']; rfl
  · rw [ha, hrc, hmass]; exact inv.count
  · rw [ha, ho]
    intro h1 h2
    simp [h1] at h2
  · rw [hp, hi]; exact inv.inpE
  · rw [hp]
    intro h
    have := inv.closedW h
    rw [hW] at this
    simp at this

/-- Steps that only move the mark's loop variables. -/
theorem inv_same {sys : List (MStage T)} {s s' : State T} (inv : MInv sys s)
    (hW : s'.W = s.W) (hp : s'.phase = s.phase) (hi : s'.inp = s.inp)
    (hrc : s'.returnCount = s.returnCount) (ha : s'.signalActive = s.signalActive)
    (ho : s'.signalOutdated = s.signalOutdated) : MInv sys s' := by
  constructor
  · rw [hW]; exact inv.tags
  · rw [hp, ha]; exact inv.openFlags
  · rw [ha, ho]; exact inv.flags
  · rw [ha, hrc, hW]; exact inv.inactive
  · rw [ha, hrc, hW]; exact inv.count
  · rw [ha, ho, hW]; exact inv.clean
  · rw [hp, hi]; exact inv.inpE
  · rw [hp, hW]; exact inv.closedW

theorem outMain_props {sys : List (MStage T)} {i : Nat} (c : Chan) (ts : List T)
    (hc : Chan.le c (Chan.main (i + 1)) = true) :
    ∀ y ∈ outMain sys.length (i + 1) ts,
      isSig y = false ∧ Valid sys y.1 ∧ Chan.le c y.1 = true := by
  intro y hy
  unfold outMain at hy
  split at hy
  · next hlt =>
    simp only [List.mem_map] at hy
    obtain ⟨u, _, rfl⟩ := hy
    exact ⟨rfl, hlt, hc⟩
  · simp at hy

theorem isJump_lt {sys : List (MStage T)} {j : Nat} (h : isJump sys j = true) : j < sys.length := by
  unfold isJump at h
  cases hj : sys[j]? with
  | none => simp [hj] at h
  | some st => exact lt_of_getElem? hj

/-- The decision block: sends a signal only into a signal-free cycle, closes only on an empty one. -/
theorem inv_decide {sys : List (MStage T)} (hl : LastJump sys) {s : State T} (inv : MInv sys s)
    (hp : s.phase = .closing) : MInv sys (markDecide (nIn sys) s) := by
  have hn : 0 < sys.length := by
    obtain ⟨pre, c, e, rfl⟩ := hl
    simp
  -- sending: the cycle holds no signal copy
  have send : (∀ x ∈ s.W, isSig x = false) →
      MInv sys { s with curID := s.curID + 1, signalActive := true, signalOutdated := false,
                        returnCount := 0, W := s.W ++ [(Chan.main 0, .sig (s.curID + 1))] } := by
    intro hns
    constructor
    · intro x hx
      simp only [List.mem_append, List.mem_singleton] at hx
      rcases hx with h | h
      · exact inv.tags x h
      · rw [h]; exact hn
    · simp [hp]
    · simp
    · simp
    · intro _
      simp [sigMass_append, sigMass, sigMass_travs sys hns, wgt, jumpsFrom_zero]
    · intro _ _
      refine ⟨?_, ?_⟩
      · show cleanM (s.W ++ [(Chan.main 0, Msg.sig (s.curID + 1))]) = true
        rw [cleanM_travs_append hns]; rfl
      · intro c t _
        exact ⟨Chan.main 0, s.curID + 1, by simp, main0_le c⟩
    · intro _; exact inv.inpE (by simp [hp])
    · simp [hp]
  unfold markDecide
  split
  · next hc =>
    apply send
    cases ha : s.signalActive with
    | false => exact (inv.inactive ha).2
    | true =>
      simp only [ha, Bool.not_true, Bool.false_and, Bool.false_or, Bool.and_eq_true,
        beq_iff_eq] at hc
      have := inv.count ha
      exact noSig_of_mass hl inv.tags (by omega)
  · next hc =>
    split
    · next hd =>
      simp only [Bool.and_eq_true, beq_iff_eq] at hd
      obtain ⟨ha, hrc⟩ := hd
      have ho : s.signalOutdated = false := by
        cases ho : s.signalOutdated with
        | false => rfl
        | true => simp [ha, ho, hrc] at hc
      have hmass := inv.count ha
      have hns := noSig_of_mass hl inv.tags (by omega : sigMass sys s.W = 0)
      have hWe : s.W = [] := empty_of_noSig_covered hns (inv.clean ha ho).2
      constructor
      · exact inv.tags
      · simp
      · exact inv.flags
      · exact inv.inactive
      · exact inv.count
      · exact inv.clean
      · intro _; exact inv.inpE (by simp [hp])
      · intro _; exact hWe
    · exact inv

theorem minv_step {sys : List (MStage T)} (hl : LastJump sys) {l : Label} {s s' : State T}
    (inv : MInv sys s) (hs : Step sys l s s') : MInv sys s' := by
  have hn : 0 < sys.length := by
    obtain ⟨pre, c, e, rfl⟩ := hl
    simp
  cases hs with
  | @bodyTrav _ A B i t f hW hA hst =>
    exact inv_replace_trav inv hW rfl rfl rfl rfl rfl rfl
      (outMain_props (Chan.main i) (f t) (by simp [Chan.le]))
  | @jumpTrav _ A B i t c e hW hA hst =>
    refine inv_replace_trav inv hW rfl rfl rfl rfl rfl rfl ?_
    intro y hy
    simp only [List.mem_append] at hy
    rcases hy with hy | hy
    · split at hy
      · simp only [List.mem_singleton] at hy
        subst hy
        exact ⟨rfl, ⟨isJump_of_jump hst, by omega⟩, by simp [Chan.le]⟩
      · simp at hy
    · exact outMain_props (Chan.main i) _ (by simp [Chan.le]) y hy
  | @bodySig _ A B i k f hW hA hst =>
    have hnj := isJump_of_body hst
    refine inv_replace_sig (ys := sigMain sys.length (i + 1) k) inv hW hA rfl rfl rfl rfl rfl
      ?_ ?_ ?_ ?_
    · unfold sigMain; split <;> simp [isSig]
    · intro y hy
      unfold sigMain at hy
      split at hy
      · next hlt => simp only [List.mem_singleton] at hy; subst hy; exact hlt
      · simp at hy
    · simp only [sigMass_sigMain, wgt, jumpsFrom_body hst]
    · intro c2 hv hle hne
      have key : i + 1 < sys.length → Chan.le (Chan.main (i + 1)) c2 = true →
          ∃ c1 k1, (c1, Msg.sig k1) ∈ (sigMain sys.length (i + 1) k : List (Chan × Msg T)) ∧
            Chan.le c1 c2 = true := by
        intro hlt h
        exact ⟨Chan.main (i + 1), k, by simp [sigMain, hlt], h⟩
      cases c2 with
      | main i' =>
        simp only [Chan.le, decide_eq_true_eq] at hle
        have : i' ≠ i := fun h => hne (by rw [h])
        have hv' : i' < sys.length := hv
        exact key (by omega) (by simp [Chan.le]; omega)
      | side j q =>
        simp only [Chan.le, decide_eq_true_eq] at hle
        obtain ⟨hj, _⟩ := hv
        have : j ≠ i := fun h => by rw [h, hnj] at hj; cases hj
        have := isJump_lt hj
        exact key (by omega) (by simp [Chan.le]; omega)
  | @jumpSig _ A B i k c e hW hA hst =>
    refine inv_replace_sig (ys := (Chan.side i 0, Msg.sig k) :: sigMain sys.length (i + 1) k)
      inv hW hA rfl rfl rfl rfl rfl ?_ ?_ ?_ ?_
    · unfold sigMain; split <;> simp [isSig]
    · intro y hy
      simp only [List.mem_cons] at hy
      rcases hy with rfl | hy
      · exact ⟨isJump_of_jump hst, by omega⟩
      · unfold sigMain at hy
        split at hy
        · next hlt => simp only [List.mem_singleton] at hy; subst hy; exact hlt
        · simp at hy
    · simp only [sigMass, sigMass_sigMain, wgt, jumpsFrom_jump hst]
      omega
    · intro c2 hv hle hne
      have key : i + 1 < sys.length → Chan.le (Chan.main (i + 1)) c2 = true →
          ∃ c1 k1, (c1, Msg.sig k1) ∈
            ((Chan.side i 0, Msg.sig k) :: sigMain sys.length (i + 1) k : List (Chan × Msg T)) ∧
            Chan.le c1 c2 = true := by
        intro hlt h
        exact ⟨Chan.main (i + 1), k, by simp [sigMain, hlt], h⟩
      cases c2 with
      | main i' =>
        simp only [Chan.le, decide_eq_true_eq] at hle
        have : i' ≠ i := fun h => hne (by rw [h])
        have hv' : i' < sys.length := hv
        exact key (by omega) (by simp [Chan.le]; omega)
      | side j q =>
        simp only [Chan.le, decide_eq_true_eq] at hle
        obtain ⟨hj, _⟩ := hv
        have := isJump_lt hj
        by_cases hji : j = i
        · subst hji
          exact ⟨Chan.side j 0, k, by simp, by simp [Chan.le]⟩
        · exact key (by omega) (by simp [Chan.le]; omega)
  | @queue _ A B j k m hW hA hk =>
    have hvj : isJump sys j = true := (inv.tags (Chan.side j k, m) (by rw [hW]; simp)).1
    cases m with
    | trav t =>
      refine inv_replace_trav (ys := [(Chan.side j (k + 1), Msg.trav t)])
        inv hW rfl rfl rfl rfl rfl rfl ?_
      intro y hy
      simp only [List.mem_singleton] at hy
      subst hy
      exact ⟨rfl, ⟨hvj, by omega⟩, by simp [Chan.le]⟩
    | sig q =>
      refine inv_replace_sig (ys := [(Chan.side j (k + 1), Msg.sig q)])
        inv hW hA rfl rfl rfl rfl rfl ?_ ?_ ?_ ?_
      · simp [isSig]
      · intro y hy
        simp only [List.mem_singleton] at hy
        subst hy
        exact ⟨hvj, by omega⟩
      · simp [sigMass, wgt]
      · intro c2 hv hle hne
        cases c2 with
        | main i' => simp [Chan.le] at hle
        | side j' q' =>
          simp only [Chan.le, Bool.and_eq_true, decide_eq_true_eq] at hle
          obtain ⟨rfl, hq⟩ := hle
          have : q' ≠ k := fun h => hne (by rw [h])
          exact ⟨Chan.side j (k + 1), q, by simp, by simp [Chan.le]; omega⟩
  | @openRecv _ A B m hp hj hW hA =>
    have ha := inv.openFlags hp
    cases m with
    | sig k =>
      have := (inv.inactive ha).2 (Chan.side s.scan 2, Msg.sig k) (by rw [hW]; simp)
      simp [isSig] at this
    | trav t =>
      exact inv_move inv hn hW rfl rfl rfl rfl rfl (by simp [ha, inv.flags ha])
  | openSkip hp hlt hc => exact inv_same inv rfl rfl rfl rfl rfl rfl
  | @openIn _ t r hp hsc hjf hI =>
    have ha := inv.openFlags hp
    constructor
    · intro x hx
      simp only [List.mem_append, List.mem_singleton] at hx
      rcases hx with h | h
      · exact inv.tags x h
      · rw [h]; exact hn
    · exact inv.openFlags
    · exact inv.flags
    · intro h
      refine ⟨(inv.inactive h).1, fun x hx => ?_⟩
      simp only [List.mem_append, List.mem_singleton] at hx
      rcases hx with h' | h'
      · exact (inv.inactive h).2 x h'
      · rw [h']; rfl
    · intro h; simp [ha] at h
    · intro h; simp [ha] at h
    · intro h; exact absurd hp h
    · intro h; simp [hp] at h
  | openClose hp hsc hjf hI =>
    have ha := inv.openFlags hp
    constructor
    · exact inv.tags
    · simp
    · exact inv.flags
    · exact inv.inactive
    · exact inv.count
    · exact inv.clean
    · intro _; exact hI
    · simp
  | openNext hp hsc hjf => exact inv_same inv rfl rfl rfl rfl rfl rfl
  | @closeTrav _ A B t hp hj hW hA =>
    exact inv_move inv hn hW rfl rfl rfl rfl rfl rfl
  | @closeSig _ A B k hp hj hW hA =>
    refine inv_replace_sig (ys := []) inv hW hA (by simp) rfl rfl rfl rfl ?_ ?_ ?_ ?_
    · rfl
    · simp
    · simp [sigMass, wgt]
    · intro c2 hv hle hne
      exfalso
      cases c2 with
      | main i' => simp [Chan.le] at hle
      | side j' q' =>
        simp only [Chan.le, Bool.and_eq_true, decide_eq_true_eq] at hle
        obtain ⟨rfl, hq⟩ := hle
        have hq2 : q' ≤ 2 := hv.2
        exact hne (by rw [show q' = 2 by omega])
  | closeSkip hp hlt hc => exact inv_same inv rfl rfl rfl rfl rfl rfl
  | closeNext hp hsc hjf => exact inv_same inv rfl rfl rfl rfl rfl rfl
  | closeDecide hp hsc hjf =>
    exact inv_decide hl (inv_same (s' := { s with scan := 0 }) inv rfl rfl rfl rfl rfl rfl) hp

theorem minv_reachable {sys : List (MStage T)} (hl : LastJump sys) {inp0 : List T} {s : State T}
    (h : Reachable sys inp0 s) : MInv sys s := by
  induction h with
  | init => exact minv_init sys inp0
  | step _ hs ih => exact minv_step hl ih hs

end Grip.Props.C12.Multi.Lemmas
