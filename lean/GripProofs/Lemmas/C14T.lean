/-
  Lemmas for C14 (typing agreement): finite quantification over the generated tables and the
  lifting to statement sequences of any length.
-/
import Grip.Model.C14T
import GripGen.MongoTyping
import GripGen.CoreTypingC14

namespace Grip.Props.C14.Lemmas
open Grip.C14T

abbrev tm : Table := GripGen.MongoTyping.table
abbrev tc : Table := GripGen.CoreTypingC14.table

/-! ### Finite quantifiers as Boolean functions -/

def allB (f : Bool → Bool) : Bool := f false && f true
theorem allB_spec (f : Bool → Bool) : allB f = true ↔ ∀ b, f b = true := by
  constructor
  · intro h b; simp [allB] at h; cases b <;> simp [h]
  · intro h; simp [allB, h]

def allDT (f : DT → Bool) : Bool :=
  f .noData && f .vertex && f .edge && f .count && f .aggregation && f .selection && f .render && f .path
theorem allDT_spec (f : DT → Bool) : allDT f = true ↔ ∀ t, f t = true := by
  constructor
  · intro h t; simp [allDT] at h; cases t <;> simp [h]
  · intro h; simp [allDT, h]

def allNM (f : NM → Bool) : Bool := f .zero && f .one && f .many
theorem allNM_spec (f : NM → Bool) : allNM f = true ↔ ∀ t, f t = true := by
  constructor
  · intro h t; simp [allNM] at h; cases t <;> simp [h]
  · intro h; simp [allNM, h]

def allKind (f : Kind → Bool) : Bool :=
  f .v && f .e && f .in_ && f .inNull && f .out && f .outNull && f .both && f .inE && f .inENull &&
  f .outE && f .outENull && f .bothE && f .has && f .hasLabel && f .hasKey && f .hasId && f .limit &&
  f .skip && f .range && f .count && f .distinct && f .as_ && f .select && f .render && f .path &&
  f .unwind && f .fields && f .aggregate
theorem allKind_spec (f : Kind → Bool) : allKind f = true ↔ ∀ k, f k = true := by
  constructor
  · intro h k; simp [allKind] at h; cases k <;> simp [h]
  · intro h; simp [allKind, h]

def allArg (f : Arg → Bool) : Bool :=
  f .plain && allB (fun e => f (.list e)) &&
  allB (fun e => allB fun b => allB fun r => f (.name e b r)) &&
  allNM (fun n => allDT fun t => f (.marks n t)) &&
  allB (fun d => allB fun u => f (.aggs d u))
theorem allArg_spec (f : Arg → Bool) : allArg f = true ↔ ∀ a, f a = true := by
  constructor
  · intro h a
    simp only [allArg, Bool.and_eq_true, allB_spec, allNM_spec, allDT_spec] at h
    obtain ⟨⟨⟨⟨h1, h2⟩, h3⟩, h4⟩, h5⟩ := h
    cases a with
    | plain => exact h1
    | list e => exact h2 e
    | name e b r => exact h3 e b r
    | marks n t => exact h4 n t
    | aggs d u => exact h5 d u
  · intro h
    simp only [allArg, Bool.and_eq_true, allB_spec, allNM_spec, allDT_spec]
    exact ⟨⟨⟨⟨h _, fun _ => h _⟩, fun _ _ _ => h _⟩, fun _ _ => h _⟩, fun _ _ => h _⟩

/-! ### The scope of the agreement, per step -/

def isVE : DT → Bool
  | .vertex | .edge => true
  | _ => false

/-- NoData, Vertex, Edge: the types from which a traversal can still reach a vertex or an edge. -/
def lowT : DT → Bool
  | .noData | .vertex | .edge => true
  | _ => false

/-- Arguments inside the property's scope at last type `t`: a `select` of one mark names a mark
    of vertex or edge type (what "defined before use" yields, see `inv`), aggregations are typed. -/
def okArg (t : DT) : Arg → Bool
  | .marks .one mt => !(isVE t) || isVE mt
  | _ => true

/-- Table fact 1: in scope, both trees give the same outcome for every kind, type and argument. -/
def agreeTable : Bool :=
  allKind fun k => allDT fun t => allArg fun a =>
    !(okArg t a) || ((tm.tree k t).evalR a == (tc.tree k t).evalR a)

/-- Table fact 2 (core table): a type that can still reach vertex/edge only comes from one that
    could; only `as` stores a mark, it stores the current type, and never at NoData. -/
def coreFacts : Bool :=
  allKind fun k => allDT fun t => allArg fun a =>
    !(okArg t a) ||
    match (tc.tree k t).evalR a with
    | .reject => true
    | .ok t' mk =>
      (!(lowT (t'.getD .noData)) || lowT t) &&
      (match mk with
       | none => k != .as_
       | some x => x == t && t != .noData)

/-- Table fact 3: a `select` of one mark is only accepted at vertex/edge type and then yields
    the mark's type. -/
def selectFacts : Bool :=
  allDT fun t => allDT fun mt =>
    match (tc.tree .select t).evalR (.marks .one mt) with
    | .reject => true
    | .ok t' _ => isVE t && t' == some mt


theorem agreeTable_true : agreeTable = true := by decide
theorem coreFacts_true : coreFacts = true := by decide
theorem tables_validate_alike :
    tm.validatesFirst = tc.validatesFirst ∧ tm.firstKinds = tc.firstKinds := by decide

theorem step_agree (k : Kind) (t : DT) (a : Arg) (h : okArg t a = true) :
    (tm.tree k t).evalR a = (tc.tree k t).evalR a := by
  have h0 := agreeTable_true
  simp only [agreeTable, allKind_spec, allDT_spec, allArg_spec] at h0
  have h' := h0 k t a
  simpa [h] using h'

theorem core_facts (k : Kind) (t : DT) (a : Arg) (h : okArg t a = true) (t' mk)
    (he : (tc.tree k t).evalR a = .ok t' mk) :
    (lowT (t'.getD .noData) = true → lowT t = true) ∧ (mk = none → k ≠ .as_) ∧
    (∀ x, mk = some x → x = t ∧ t ≠ .noData) := by
  have h0 := coreFacts_true
  simp only [coreFacts, allKind_spec, allDT_spec, allArg_spec] at h0
  have h' := h0 k t a
  rw [he] at h'
  simp only [h, Bool.not_true, Bool.false_or, Bool.and_eq_true] at h'
  obtain ⟨h1, h2⟩ := h'
  refine ⟨?_, ?_, ?_⟩
  · intro hl; cases hlt : lowT t with
    | true => rfl
    | false => simp [hl, hlt] at h1
  · intro hm; subst hm; simpa using h2
  · intro x hm; subst hm; simpa using h2

theorem isVE_lowT {t : DT} (h : isVE t = true) : lowT t = true := by cases t <;> simp_all [isVE, lowT]
theorem lowT_ne_noData {t : DT} (h : lowT t = true) (hn : t ≠ .noData) : isVE t = true := by
  cases t <;> simp_all [isVE, lowT]

/-- Every mark visible while the type can still reach vertex/edge has vertex or edge type. -/
def inv (st : St) : Prop := lowT st.t = true → ∀ p ∈ st.marks, isVE p.2 = true

theorem lookupM_mem (marks : List (String × DT)) (n : String) (h : n ∈ marks.map (·.1)) :
    ∃ p ∈ marks, lookupM marks n = p.2 := by
  unfold lookupM
  cases hf : marks.find? (fun p => p.1 == n) with
  | none =>
    rw [List.find?_eq_none] at hf
    obtain ⟨p, hp, hpn⟩ := List.mem_map.1 h
    exact absurd (by simpa using hpn) (hf p hp)
  | some p => exact ⟨p, List.mem_of_find?_eq_some hf, rfl⟩

theorem okArg_argOf (nm : Names) (st : St) (s : TStmt) (names : List String) (hinv : inv st)
    (hn : ∀ n ∈ names, n ∈ st.marks.map (·.1))
    (hd : (if s.kind == .select then s.list.all (fun m => names.contains m) else true) = true) :
    okArg st.t (argOf nm st s) = true := by
  unfold argOf
  cases hk : s.kind <;> simp only [okArg]
  -- select
  simp only [hk, beq_self_eq_true, if_true] at hd
  cases hl : s.list with
  | nil => simp [okArg]
  | cons m tl =>
    cases tl with
    | cons m2 tl2 => simp [okArg]
    | nil =>
      simp only [okArg]
      cases hve : isVE st.t with
      | false => simp
      | true =>
        simp only [Bool.not_true, Bool.false_or]
        rw [hl] at hd
        have hm : m ∈ names := by simpa using hd
        obtain ⟨p, hp, hpe⟩ := lookupM_mem st.marks m (hn m hm)
        rw [hpe]
        exact hinv (isVE_lowT hve) p hp

theorem stepT_agree (nm : Names) (st : St) (s : TStmt) (hok : okArg st.t (argOf nm st s) = true) :
    stepT tm nm st s = stepT tc nm st s := by
  unfold stepT
  rw [step_agree _ _ _ hok]

theorem stepT_inv (nm : Names) (st st' : St) (s : TStmt) (hinv : inv st)
    (hok : okArg st.t (argOf nm st s) = true) (hs : stepT tc nm st s = some st') :
    inv st' ∧ (s.kind = .as_ → s.name ∈ st'.marks.map (·.1)) ∧
    (∀ n ∈ st.marks.map (·.1), n ∈ st'.marks.map (·.1)) := by
  unfold stepT at hs
  cases he : (tc.tree s.kind st.t).evalR (argOf nm st s) with
  | reject => simp [he] at hs
  | ok t' mk =>
    obtain ⟨f1, f2, f3⟩ := core_facts _ _ _ hok t' mk he
    simp only [he, Option.some.injEq] at hs
    subst hs
    cases mk with
    | none =>
      refine ⟨?_, ?_, ?_⟩
      · intro hl p hp; exact hinv (f1 hl) p hp
      · intro hk; exact absurd hk (f2 rfl)
      · intro n hn; exact hn
    | some x =>
      obtain ⟨hx, hnd⟩ := f3 x rfl
      refine ⟨?_, ?_, ?_⟩
      · intro hl p hp
        have hlt := f1 hl
        simp only [List.mem_cons] at hp
        cases hp with
        | inl h => subst h; subst hx; exact lowT_ne_noData hlt hnd
        | inr h => exact hinv hlt p h
      · intro _; simp
      · intro n hn; simp only [List.map_cons, List.mem_cons]; exact Or.inr hn

theorem runT_agree (nm : Names) : ∀ (ss : List TStmt) (st : St) (names : List String),
    inv st → (∀ n ∈ names, n ∈ st.marks.map (·.1)) → definedFrom names ss = true →
    runT tm nm st ss = runT tc nm st ss
  | [], _, _, _, _, _ => rfl
  | s :: ss, st, names, hinv, hn, hd => by
    simp only [definedFrom, Bool.and_eq_true] at hd
    obtain ⟨hd1, hd2⟩ := hd
    have hok := okArg_argOf nm st s names hinv hn hd1
    simp only [runT]
    rw [stepT_agree nm st s hok]
    cases hs : stepT tc nm st s with
    | none => rfl
    | some st' =>
      obtain ⟨hinv', hname, hsub⟩ := stepT_inv nm st st' s hinv hok hs
      refine runT_agree nm ss st' _ hinv' ?_ hd2
      intro n hnn
      by_cases hk : s.kind = .as_
      · simp only [hk, beq_self_eq_true, if_true, List.mem_cons] at hnn
        cases hnn with
        | inl h => subst h; exact hname hk
        | inr h => exact hsub n (hn n h)
      · have : (s.kind == Kind.as_) = false := by simpa using hk
        simp only [this] at hnn
        exact hsub n (hn n hnn)

end Grip.Props.C14.Lemmas
