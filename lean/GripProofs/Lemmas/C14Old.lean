/-
  C14, frozen: the three pieces of the translation of mongo/has_evaluator.go as they were BEFORE
  the repairs `fix: the mongo compiler emits no filter MongoDB rejects` and `fix: contains compiles
  to $elemMatch` (findings C14-invalid-filter, C14-contains-scalar), kept so that the old divergences
  remain stated and proved about what the code used to emit.  Nothing here is part of the model of
  the current code (`Grip.Model.C14`); the `old_*_same_*` lemmas show the definitions coincide with
  the current translation wherever the repairs did not touch it.
-/
import Grip.Model.C14

set_option linter.unusedSimpArgs false

namespace Grip.Props.C14.Old
open Grip Grip.C08 Grip.C14

/-- CONTAINS was `expr = bson.M{"$in": []interface{}{val}}`. -/
def oldContains (k : String) (a : JV) (n : Bool) : MDoc :=
  .field k (if n then .not (.in_ (.arr [a])) else .in_ (.arr [a]))

/-- WITHIN was `expr = bson.M{"$in": val}` whatever `val`. -/
def oldWithin (k : String) (a : JV) (n : Bool) : MDoc :=
  .field k (if n then .not (.in_ a) else .in_ a)

/-- WITHOUT was `expr = bson.M{"$not": bson.M{"$in": val}}` whatever `val`. -/
def oldWithout (k : String) (a : JV) (n : Bool) : MDoc :=
  .field k (if n then .not (.not (.in_ a)) else .not (.in_ a))

/-- And / Or were `{"$and": members}` / `{"$or": members}` (swapped under `not`) whatever the number
    of members. -/
def oldJunction (isAnd n : Bool) (xs : List MDoc) : MDoc :=
  if isAnd != n then .and xs else .or xs

/-! ### The old pieces are the current ones where the repairs changed nothing -/

theorem old_within_same_on_lists (k : String) (xs : List JV) (n : Bool) :
    oldWithin k (.arr xs) n = convCond k .within (.arr xs) n := by
  simp [oldWithin, convCond, isArr, opOf]

theorem old_without_same_on_lists (k : String) (xs : List JV) (n : Bool) :
    oldWithout k (.arr xs) n = convCond k .without (.arr xs) n := by
  simp [oldWithout, convCond, isArr, opOf]

theorem old_junction_same_on_members (isAnd n : Bool) (x : MDoc) (xs : List MDoc) :
    oldJunction isAnd n (x :: xs) = junction isAnd n (x :: xs) := by
  simp [oldJunction, junction]

/-- `contains` differs from the current translation only in the operator under the field. -/
theorem old_contains_shape (k : String) (a : JV) (n : Bool) :
    (∃ o, oldContains k a n = .field k (if n then .not o else o)) ∧
    (∃ o, convCond k .contains a n = .field k (if n then .not o else o)) :=
  ⟨⟨_, rfl⟩, ⟨_, rfl⟩⟩

/-! ### A list is not one of its own members (DeepEqual on finite JSON) -/

theorem foundIn_mem {v : JV} {xs : List JV} (h : foundIn v xs = true) : v ∈ xs := by
  induction xs with
  | nil => simp [foundIn] at h
  | cons x xs ih =>
    simp only [foundIn] at h
    by_cases hx : (v == x) = true
    · have : v = x := eq_of_beq hx
      simp [this]
    · simp only [hx, if_false] at h
      simp [ih h]

theorem foundIn_self (xs : List JV) : foundIn (.arr xs) xs = false := by
  cases h : foundIn (.arr xs) xs
  · rfl
  · have hm := List.sizeOf_lt_of_mem (foundIn_mem h)
    have hs : sizeOf (JV.arr xs) = 1 + sizeOf xs := JV.arr.sizeOf_spec xs
    omega

theorem foundIn_head (v : JV) (xs : List JV) : foundIn v (v :: xs) = true := by
  simp [foundIn]

end Grip.Props.C14.Old
